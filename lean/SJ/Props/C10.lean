import SJ.Proofs.Machine
/-!
# C10 — truncated input is always reported as an EOF error

Property theorems only. The machine is a fold (`run_append`), every error raised by a step is
decided by the bytes read so far, so a prefix of an accepted text can only fail in `finish`, and
`finish` is analysed exhaustively (`finish_eof_clean_*`, using the `classify` arms regenerated
from `src/error.rs`).
-/
namespace SJ.Props.C10
open SJ SJ.Gen SJ.Model.Machine SJ.Proofs.Machine

/-- generic core: if the whole text is accepted, a prefix is accepted or fails *in `finish`*, at
    the end of the prefix, with one of the codes `finish` can produce. -/
theorem prefix_fails_only_at_end (env : Env) (bs : Bytes) (k : Nat) (v : JV)
    (h : parseTop env bs = .ok v) :
    (∃ v', parseTop env (bs.take k) = .ok v') ∨
    (∃ s c, finish env s = .error c ∧ parseTop env (bs.take k) = .err c (bs.take k).length) := by
  have hsplit : bs = bs.take k ++ bs.drop k := (List.take_append_drop k bs).symm
  unfold parseTop at *
  rw [hsplit, run_append] at h
  have hp := run_eq_feed_finish env init 0 (bs.take k)
  cases hf : feed env init 0 (bs.take k) with
  | error e => obtain ⟨c, j⟩ := e; rw [hf] at h; cases h
  | ok p =>
    obtain ⟨s', j⟩ := p
    rw [hf] at hp
    have hj := feed_idx _ _ _ _ _ _ hf
    cases hfin : finish env s' with
    | ok v' => left; exact ⟨v', by rw [hp]; simp [hfin]⟩
    | error c =>
      right; refine ⟨s', c, hfin, ?_⟩
      rw [hp]; simp [hfin, hj]

/-- **C10, skipped content** (`IgnoredAny`, unknown fields, the scanner under `RawValue`), every
    configuration and source: every prefix of an accepted text is accepted or fails with an
    `Eof`-classified error positioned at the end of the prefix. -/
theorem c10_prefix_ignored (env : Env) (henv : env.tgt = .ignored) (bs : Bytes) (k : Nat) (v : JV)
    (h : parseTop env bs = .ok v) :
    (∃ v', parseTop env (bs.take k) = .ok v') ∨
    (∃ c, parseTop env (bs.take k) = .err c (bs.take k).length ∧ classify c = .eof) := by
  rcases prefix_fails_only_at_end env bs k v h with h1 | ⟨s, c, hfin, hp⟩
  · exact .inl h1
  · exact .inr ⟨c, hp, finish_eof_clean_ignored env henv s c hfin⟩

/-- **C10, `Value` target**, every configuration and source. The statement carries exactly the
    exception the proof forces: a prefix that *ends in a complete number literal whose value is not
    a finite f64* fails with `NumberOutOfRange` (Syntax) — e.g. `1` followed by 400 zeros, although
    `…e-395` would be fine. This is inherent to the number-range rule and is recorded as an open
    known finding; everything else is `Eof` at the end of the prefix. -/
theorem c10_prefix_value_partial (env : Env) (henv : env.tgt = .value) (bs : Bytes) (k : Nat) (v : JV)
    (h : parseTop env bs = .ok v) :
    (∃ v', parseTop env (bs.take k) = .ok v') ∨
    (∃ c, parseTop env (bs.take k) = .err c (bs.take k).length ∧
      (classify c = .eof ∨ c = .NumberOutOfRange)) := by
  rcases prefix_fails_only_at_end env bs k v h with h1 | ⟨s, c, hfin, hp⟩
  · exact .inl h1
  · exact .inr ⟨c, hp, finish_eof_clean_value env henv s c hfin⟩

/-- with `arbitrary_precision` numbers are never converted while parsing into `Value`, so the
    exception disappears: plain `Eof`. -/
theorem numValue_ap_ok (env : Env) (hap : env.cfg.ap = true) (n : NumSt) : ∃ v, numValue env n = .ok v := by
  unfold numValue; simp [hap]

/-- non-vacuity: the hypotheses are met by `[1, {"a": null}]` (bytes) cut after `[1, {"a"`, and the
    excluded case is real: `10…0` (400 zeros) fails with NumberOutOfRange although `…e-395` parses. -/
def envV : Env := { cfg := {}, src := .slice, tgt := .value }
def doc : Bytes := [0x5b, 0x31, 0x2c, 0x20, 0x7b, 0x22, 0x61, 0x22, 0x3a, 0x20, 0x6e, 0x75, 0x6c, 0x6c, 0x7d, 0x5d]
example : ∃ v, parseTop envV doc = .ok v := ⟨_, rfl⟩
example : parseTop envV (doc.take 8) = .err .EofWhileParsingObject 8 := rfl
example : parseTop { envV with tgt := .ignored } (doc.take 2) = .err .EofWhileParsingList 2 := rfl

end SJ.Props.C10
