import SJ.Proofs.Machine
import SJ.Proofs.StreamPrefix
/-!
# C10 — truncated input is always reported as an EOF error

Property theorems only. The machine is a fold (`run_append`), every error raised by a step is
decided by the bytes read so far, so a prefix of an accepted text can only fail in `finish`, and
`finish` is analysed exhaustively (`finish_eof_clean_*`, using the `classify` arms regenerated
from `src/error.rs`).
-/
namespace SJ.Props.C10
open SJ SJ.Gen SJ.Model.Machine SJ.Proofs.Machine

/-- generic core: if the whole text is accepted, a prefix is accepted or fails *in `finish`*, at
    the end of the prefix, with one of the codes `finish` can produce. -/
theorem prefix_fails_only_at_end (env : Env) (bs : Bytes) (k : Nat) (v : JV)
    (h : parseTop env bs = .ok v) :
    (∃ v', parseTop env (bs.take k) = .ok v') ∨
    (∃ s c, finish env s = .error c ∧ parseTop env (bs.take k) = .err c (bs.take k).length) := by
  have hsplit : bs = bs.take k ++ bs.drop k := (List.take_append_drop k bs).symm
  unfold parseTop at *
  rw [hsplit, run_append] at h
  have hp := run_eq_feed_finish env init 0 (bs.take k)
  cases hf : feed env init 0 (bs.take k) with
  | error e => obtain ⟨c, j⟩ := e; rw [hf] at h; cases h
  | ok p =>
    obtain ⟨s', j⟩ := p
    rw [hf] at hp
    have hj := feed_idx _ _ _ _ _ _ hf
    cases hfin : finish env s' with
    | ok v' => left; exact ⟨v', by rw [hp]; simp [hfin]⟩
    | error c =>
      right; refine ⟨s', c, hfin, ?_⟩
      rw [hp]; simp [hfin, hj]

/-- **C10, skipped content** (`IgnoredAny`, unknown fields, the scanner under `RawValue`), every
    configuration and source: every prefix of an accepted text is accepted or fails with an
    `Eof`-classified error positioned at the end of the prefix. -/
theorem c10_prefix_ignored (env : Env) (henv : env.tgt = .ignored) (bs : Bytes) (k : Nat) (v : JV)
    (h : parseTop env bs = .ok v) :
    (∃ v', parseTop env (bs.take k) = .ok v') ∨
    (∃ c, parseTop env (bs.take k) = .err c (bs.take k).length ∧ classify c = .eof) := by
  rcases prefix_fails_only_at_end env bs k v h with h1 | ⟨s, c, hfin, hp⟩
  · exact .inl h1
  · exact .inr ⟨c, hp, finish_eof_clean_ignored env henv s c hfin⟩

/-- with `arbitrary_precision` numbers are never converted while parsing into `Value` -/
theorem numValue_ap_ok (env : Env) (hap : env.cfg.ap = true) (n : NumSt) : ∃ v, numValue env n = .ok v := by
  unfold numValue; simp [hap]

/-- **C10, `Value` target, exactly.** Every prefix of an accepted text is accepted, or fails at its end
    with an `Eof`-classified error, or — the single exception, characterised on the machine state —
    fails at its end with `NumberOutOfRange` *and* the state reached after the prefix (`feed`) is a
    number state whose literal is complete (phase `zero`, `int`, `frac` or `exp`: the prefix ends in a
    complete RFC 8259 number) and whose conversion `numValue` fails (its value is not a finite f64).
    That is the known finding "prefix = complete out-of-range number" (`1` followed by 400 zeros,
    although `…e-395` would be fine) and nothing else. -/
theorem c10_prefix_value_exact (env : Env) (henv : env.tgt = .value) (bs : Bytes) (k : Nat) (v : JV)
    (h : parseTop env bs = .ok v) :
    (∃ v', parseTop env (bs.take k) = .ok v') ∨
    (∃ c, parseTop env (bs.take k) = .err c (bs.take k).length ∧ classify c = .eof) ∨
    (parseTop env (bs.take k) = .err .NumberOutOfRange (bs.take k).length ∧
      ∃ s j n, feed env init 0 (bs.take k) = .ok (s, j) ∧ s.mode = .num n ∧
        (n.phase = .zero ∨ n.phase = .int ∨ n.phase = .frac ∨ n.phase = .exp) ∧
        numValue env n = .error .NumberOutOfRange) := by
  have hsplit : bs = bs.take k ++ bs.drop k := (List.take_append_drop k bs).symm
  have h' := h
  unfold parseTop at h' ⊢
  rw [hsplit, run_append] at h'
  have hp := run_eq_feed_finish env init 0 (bs.take k)
  cases hf : feed env init 0 (bs.take k) with
  | error e => obtain ⟨c, j⟩ := e; rw [hf] at h'; cases h'
  | ok p =>
    obtain ⟨s', j⟩ := p
    rw [hf] at hp
    have hj := feed_idx _ _ _ _ _ _ hf
    cases hfin : finish env s' with
    | ok v' => left; exact ⟨v', by rw [hp]; simp [hfin]⟩
    | error c =>
      have hrun : run env init 0 (bs.take k) = .err c (bs.take k).length := by rw [hp]; simp [hfin, hj]
      rcases finish_err_value_exact env henv s' c hfin with hc | ⟨hc, n, hmode, hphase, hnum⟩
      · exact .inr (.inl ⟨c, hrun, hc⟩)
      · subst hc
        exact .inr (.inr ⟨hrun, s', j, n, rfl, hmode, hphase, hnum⟩)

/-- **The exception is real and is exactly that.** Whenever the machine, having read `xs` without error,
    is in a number state with a complete literal whose conversion fails, `xs` is rejected with
    `NumberOutOfRange` at its end. -/
theorem c10_number_exception (env : Env) (henv : env.tgt = .value) (xs : Bytes) (s : St) (j : Nat) (n : NumSt)
    (hf : feed env init 0 xs = .ok (s, j)) (hmode : s.mode = .num n)
    (hphase : n.phase = .zero ∨ n.phase = .int ∨ n.phase = .frac ∨ n.phase = .exp)
    (hnum : numValue env n = .error .NumberOutOfRange) :
    parseTop env xs = .err .NumberOutOfRange xs.length := by
  unfold parseTop
  rw [run_eq_feed_finish, hf]
  have hj := feed_idx _ _ _ _ _ _ hf
  simp [finish_number_out_of_range env henv s n hmode hphase hnum, hj]

/-- **C10, `Value` target under `arbitrary_precision`: pure `Eof`.** Numbers are kept as text, no
    conversion can fail, so the exception cannot occur: every prefix of an accepted text is accepted or
    fails with an `Eof`-classified error at the end of the prefix. -/
theorem c10_prefix_value_ap (env : Env) (henv : env.tgt = .value) (hap : env.cfg.ap = true) (bs : Bytes)
    (k : Nat) (v : JV) (h : parseTop env bs = .ok v) :
    (∃ v', parseTop env (bs.take k) = .ok v') ∨
    (∃ c, parseTop env (bs.take k) = .err c (bs.take k).length ∧ classify c = .eof) := by
  rcases c10_prefix_value_exact env henv bs k v h with h1 | h2 | ⟨_, s, j, n, _, _, _, hnum⟩
  · exact .inl h1
  · exact .inr h2
  · obtain ⟨v', hv⟩ := numValue_ap_ok env hap n
    rw [hv] at hnum; cases hnum

/-- non-vacuity: the hypotheses are met by `[1, {"a": null}]` (bytes) cut after `[1, {"a"`, and the
    excluded case is real: `10…0` (400 zeros) fails with NumberOutOfRange although `…e-395` parses. -/
def envV : Env := { cfg := {}, src := .slice, tgt := .value }
def doc : Bytes := [0x5b, 0x31, 0x2c, 0x20, 0x7b, 0x22, 0x61, 0x22, 0x3a, 0x20, 0x6e, 0x75, 0x6c, 0x6c, 0x7d, 0x5d]
example : ∃ v, parseTop envV doc = .ok v := ⟨_, rfl⟩
example : parseTop envV (doc.take 8) = .err .EofWhileParsingObject 8 := rfl
example : parseTop { envV with tgt := .ignored } (doc.take 2) = .err .EofWhileParsingList 2 := rfl

/-- the excluded case, on bytes: `1` followed by 400 zeros and `e-395` is accepted (it is 100000.0), its
    401-byte prefix — a complete integer literal of value 10^400 — is rejected with `NumberOutOfRange`
    at its end; so by `c10_prefix_value_exact` the machine is then in a complete-number state whose
    conversion fails. Cut one byte later (`…0e`) it is `Eof` again. -/
def bigDoc : Bytes := [0x31] ++ List.replicate 400 0x30 ++ [0x65, 0x2d, 0x33, 0x39, 0x35]

example : (parseTop envV bigDoc).isOk (.num (.float 0x40f86a0000000000)) = true ∧
    (parseTop envV (bigDoc.take 401)).isErr .NumberOutOfRange 401 = true ∧
    (parseTop envV (bigDoc.take 402)).isErr .EofWhileParsingValue 402 = true := by
  refine ⟨by decide +kernel, by decide +kernel, by decide +kernel⟩

example (v : JV) (h : parseTop envV bigDoc = .ok v)
    (he : parseTop envV (bigDoc.take 401) = .err .NumberOutOfRange (bigDoc.take 401).length) :
    ∃ s j n, feed envV init 0 (bigDoc.take 401) = .ok (s, j) ∧ s.mode = .num n ∧
      (n.phase = .zero ∨ n.phase = .int ∨ n.phase = .frac ∨ n.phase = .exp) ∧
      numValue envV n = .error .NumberOutOfRange := by
  rcases c10_prefix_value_exact envV rfl bigDoc 401 v h with ⟨v', hv⟩ | ⟨c, hc, hcl⟩ | ⟨_, hx⟩
  · rw [hv] at he; cases he
  · rw [hc] at he; cases he; cases hcl
  · exact hx

/-- under `arbitrary_precision` the same document and the same cut: the prefix is simply accepted (the
    literal is kept as text), and `[1e400]` cut before the bracket is `Eof` -/
def envAp : Env := { cfg := { ap := true }, src := .slice, tgt := .value }

example : (match parseTop envAp (bigDoc.take 401) with | .ok _ => true | .err _ _ => false) = true := by
  decide +kernel

example : parseTop envAp [0x5b, 0x31, 0x65, 0x34, 0x30, 0x30, 0x5d] = .ok (.arr [.num (.lit [0x31, 0x65, 0x34, 0x30, 0x30])]) ∧
    parseTop envAp ([0x5b, 0x31, 0x65, 0x34, 0x30, 0x30, 0x5d].take 6) = .err .EofWhileParsingList 6 := ⟨rfl, rfl⟩

example : (∃ v', parseTop envAp ([0x5b, 0x31, 0x65, 0x34, 0x30, 0x30, 0x5d].take 6) = .ok v') ∨
    (∃ c, parseTop envAp ([0x5b, 0x31, 0x65, 0x34, 0x30, 0x30, 0x5d].take 6)
        = .err c ([0x5b, 0x31, 0x65, 0x34, 0x30, 0x30, 0x5d].take 6 : Bytes).length ∧ classify c = .eof) :=
  c10_prefix_value_ap envAp rfl rfl _ 6 _ rfl

/-! ## stream iteration over truncated input

`Model.Stream.history env n (start bs)`: the `(item, byte_offset())` pairs of `n` calls of `next()`.
What a caller who "waits for more data" relies on: as long as the stream over the whole input yields values,
the stream over ANY prefix of the input yields the same values with the same offsets, until the one call
that runs into the cut — and that call reports nothing (`None`: only whitespace was left), a value that
ends exactly at the cut (a number literal cut short is a shorter number: `12 3` cut after `1` yields `1`,
as it must — the end of input delimits a bare scalar), or an error located at the end of the prefix that
is `Eof`-classified (for `Value` items also the inherent `NumberOutOfRange` of `c10_prefix_value_partial`:
the prefix ends in a complete out-of-range literal). Never a Syntax error of another kind, never a value or
an offset that the full input does not produce at an earlier item. -/

open SJ.Model.Stream SJ.Proofs.StreamPrefix in
/-- **C10 (streams).** `bs.take k` against `bs`, for every configuration, source, item type, `k` and `n`. -/
theorem c10_stream_prefix_partial (env : Env) (bs : Bytes) (k n : Nat)
    (hok : ∀ x ∈ history env n (start bs), ∃ v, x.1 = .ok v) :
    history env n (start (bs.take k)) = history env n (start bs) ∨
    ∃ j, j < n ∧ history env j (start (bs.take k)) = (history env n (start bs)).take j ∧
      ∃ x, (history env (j + 1) (start (bs.take k)))[j]? = some x ∧
        (x = (.none, (bs.take k).length) ∨ (∃ v', x = (.ok v', (bs.take k).length)) ∨
         ∃ c, x.1 = .err c (bs.take k).length ∧
           (classify c = .eof ∨ (env.tgt = .value ∧ c = .NumberOutOfRange))) := by
  have hcut : CutOf (bs.drop k) (start bs) (start (bs.take k)) :=
    ⟨by simp [start], rfl, rfl, rfl, rfl⟩
  rcases history_prefix env (bs.drop k) n (start bs) (start (bs.take k)) hcut hok with h | ⟨j, hj, h1, h2⟩
  · exact .inl h
  · refine .inr ⟨j, hj, h1, ?_⟩
    rw [history_succ_last]
    have hlen : (history env j (start (bs.take k))).length = j := history_length env j _
    refine ⟨((next env (stateAfter env j (start (bs.take k)))).1, (next env (stateAfter env j (start (bs.take k)))).2.offset),
      by rw [List.getElem?_append_right (by omega)]; simp [hlen], ?_⟩
    change AtEndItem env (0 + (bs.take k).length) _ at h2
    rw [Nat.zero_add] at h2
    rcases h2 with ⟨h3, h4⟩ | ⟨v', h3, h4, _⟩ | ⟨c, h3, h4⟩
    · left; rw [← h3, ← h4]
    · right; left; exact ⟨v', by rw [← h3, ← h4]⟩
    · right; right; exact ⟨c, h3, h4⟩

open SJ.Model.Stream SJ.Proofs.StreamPrefix in
/-- **C10 (streams of skipped items)**: no exception — `None`, a value ending at the cut, or `Eof` at the cut -/
theorem c10_stream_prefix_ignored (env : Env) (henv : env.tgt = .ignored) (bs : Bytes) (k n : Nat)
    (hok : ∀ x ∈ history env n (start bs), ∃ v, x.1 = .ok v) :
    history env n (start (bs.take k)) = history env n (start bs) ∨
    ∃ j, j < n ∧ history env j (start (bs.take k)) = (history env n (start bs)).take j ∧
      ∃ x, (history env (j + 1) (start (bs.take k)))[j]? = some x ∧
        (x = (.none, (bs.take k).length) ∨ (∃ v', x = (.ok v', (bs.take k).length)) ∨
         ∃ c, x.1 = .err c (bs.take k).length ∧ classify c = .eof) := by
  rcases c10_stream_prefix_partial env bs k n hok with h | ⟨j, hj, h1, x, hx, h2⟩
  · exact .inl h
  · refine .inr ⟨j, hj, h1, x, hx, ?_⟩
    rcases h2 with h2 | h2 | ⟨c, h3, h4⟩
    · exact .inl h2
    · exact .inr (.inl h2)
    · refine .inr (.inr ⟨c, h3, ?_⟩)
      rcases h4 with h4 | ⟨h4, _⟩
      · exact h4
      · rw [henv] at h4; cases h4

/-- non-vacuity: `12 [3]` yields `12` and `[3]`; cut after `1` the stream yields `1` (a value ending at the
    cut); cut after `12 [` it yields `12`, then `EofWhileParsingList` at index 4 with `byte_offset()` 3 -/
def exS : Bytes := [0x31, 0x32, 0x20, 0x5b, 0x33, 0x5d]
open SJ.Model.Stream in
example : history envV 2 (start exS) = [(.ok (.num (.pos 12)), 2), (.ok (.arr [.num (.pos 3)]), 6)] := rfl
open SJ.Model.Stream in
example : history envV 2 (start (exS.take 1)) = [(.ok (.num (.pos 1)), 1), (.none, 1)] := rfl
open SJ.Model.Stream in
example : history envV 2 (start (exS.take 4)) = [(.ok (.num (.pos 12)), 2), (.err .EofWhileParsingList 4, 3)] := rfl

end SJ.Props.C10
