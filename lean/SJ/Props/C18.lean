import SJ.Proofs.Pointer
/-!
# C18 — Value lookups follow RFC 6901 and agree with each other

Property theorems only; helper lemmas live in `SJ/Proofs/Pointer.lean`.
-/
namespace SJ.Props.C18
open SJ SJ.Model.ValueOps SJ.Proofs.Pointer

/-- The two-pass `replace("~1","/").replace("~0","~")` is the RFC's single-pass unescape,
    for every byte string (so a `~` not followed by `0`/`1` is literal, and `~01` is `~1`). -/
theorem c18_unescape (t : Bytes) : unescapeTok t = Spec.Pointer.unescape t := unescapeTok_eq t

/-- `parse_index` accepts exactly `0 | [1-9][0-9]*` below 2^64 and returns its decimal value:
    leading zeros, `+`, `-`, the empty token are all rejected. -/
theorem c18_parse_index (t : Bytes) : parseIndex t = Spec.Pointer.arrayIndex t := parseIndex_eq t

theorem tryFold_eq (v : JV) (ts : List Bytes) :
    tryFold v (ts.map unescapeTok) = Spec.Pointer.evalTokens v (ts.map Spec.Pointer.unescape) := by
  induction ts generalizing v with
  | nil => rfl
  | cons t ts ih =>
    simp only [List.map_cons, tryFold, Spec.Pointer.evalTokens, Spec.Pointer.step]
    rw [unescapeTok_eq t]
    cases v with
    | obj m =>
      simp only [mapGet_eq]
      cases Spec.Pointer.lookup (Spec.Pointer.unescape t) m with
      | none => rfl
      | some v' => simpa using ih v'
    | arr l =>
      simp only [parseIndex_eq]
      cases (Spec.Pointer.arrayIndex (Spec.Pointer.unescape t)).bind (l[·]?) with
      | none => rfl
      | some v' => simpa using ih v'
    | null => rfl
    | bool _ => rfl
    | num _ => rfl
    | str _ => rfl

/-- **C18 (pointer).** For every value and every pointer string, the transcription of
    `Value::pointer` returns exactly the node the RFC 6901 evaluator selects. -/
theorem c18_pointer (v : JV) (p : Bytes) : pointer v p = Spec.Pointer.eval v p := by
  have hL : Gen.ptrReplaceLead = Spec.Pointer.slash := rfl
  have hS1 : Gen.ptrReplaceSplit.1 = Spec.Pointer.slash := rfl
  have hS2 : Gen.ptrReplaceSplit.2 = 1 := rfl
  unfold pointer Spec.Pointer.eval Spec.Pointer.tokens
  rw [hL, hS1, hS2]
  cases p with
  | nil => simp [Spec.Pointer.tokensAux, Spec.Pointer.evalTokens]
  | cons c r =>
    by_cases hc : c = Spec.Pointer.slash
    · subst hc
      have h := tokensAux_eq ((Spec.Pointer.slash :: r : Bytes).length + 1) r (by simp)
      rw [h]
      simp only [List.isEmpty_cons, Bool.false_eq_true, if_false, List.head?_cons, bne_self_eq_false,
        Option.bind_some]
      have : splitOn Spec.Pointer.slash (Spec.Pointer.slash :: r) = [] :: splitOn Spec.Pointer.slash r := by
        simp [splitOn]
      rw [this]
      simpa using tryFold_eq v (splitOn Spec.Pointer.slash r)
    · have : Spec.Pointer.tokensAux ((c :: r).length + 1) (c :: r) = none := by
        simp [Spec.Pointer.tokensAux, hc]
      rw [this]
      simp [hc]

theorem mapUpd_eq (k : Bytes) (f : JV → Option JV) (m : List (Bytes × JV)) :
    mapUpd k f m = Spec.Pointer.updAssoc k f m := by
  induction m with
  | nil => rfl
  | cons kv m ih => obtain ⟨k', v⟩ := kv; simp [mapUpd, Spec.Pointer.updAssoc, ih]

theorem vecUpd_eq (f : JV → Option JV) (i : Nat) (l : List JV) :
    vecUpd f i l = Spec.Pointer.updNth f i l := by
  induction l generalizing i with
  | nil => cases i <;> rfl
  | cons v l ih => cases i with
    | zero => rfl
    | succ i => simp [vecUpd, Spec.Pointer.updNth, ih]

theorem foldSet_eq (ts : List Bytes) (v x : JV) :
    foldSet (ts.map unescapeTokMut) v x = Spec.Pointer.setTokens (ts.map Spec.Pointer.unescape) v x := by
  induction ts generalizing v with
  | nil => rfl
  | cons t ts ih =>
    have hf : (fun v => foldSet (ts.map unescapeTokMut) v x)
        = (fun v => Spec.Pointer.setTokens (ts.map Spec.Pointer.unescape) v x) := funext ih
    simp only [List.map_cons]
    rw [unescapeTokMut_eq, unescapeTok_eq t]
    cases v with
    | obj m => simp only [foldSet, Spec.Pointer.setTokens, hf, mapUpd_eq]
    | arr l => simp only [foldSet, Spec.Pointer.setTokens, hf, vecUpd_eq, parseIndex_eq]
    | null => rfl
    | bool _ => rfl
    | num _ => rfl
    | str _ => rfl

/-- **C18 (pointer_mut).** Writing through `pointer_mut(p)` replaces exactly the node that the
    RFC 6901 evaluator addresses (and fails in exactly the same cases). -/
theorem c18_pointer_mut (v : JV) (p : Bytes) (x : JV) : pointerSet v p x = Spec.Pointer.set v p x := by
  have hL : Gen.ptrMutReplaceLead = Spec.Pointer.slash := rfl
  have hS1 : Gen.ptrMutReplaceSplit.1 = Spec.Pointer.slash := rfl
  have hS2 : Gen.ptrMutReplaceSplit.2 = 1 := rfl
  unfold pointerSet Spec.Pointer.set Spec.Pointer.tokens
  rw [hL, hS1, hS2]
  cases p with
  | nil => simp [Spec.Pointer.tokensAux, Spec.Pointer.setTokens]
  | cons c r =>
    by_cases hc : c = Spec.Pointer.slash
    · subst hc
      have h := tokensAux_eq ((Spec.Pointer.slash :: r : Bytes).length + 1) r (by simp)
      rw [h]
      simp only [List.isEmpty_cons, Bool.false_eq_true, if_false, List.head?_cons, bne_self_eq_false,
        Option.bind_some]
      have : splitOn Spec.Pointer.slash (Spec.Pointer.slash :: r) = [] :: splitOn Spec.Pointer.slash r := by
        simp [splitOn]
      rw [this]
      simpa using foldSet_eq (splitOn Spec.Pointer.slash r) v x
    · have : Spec.Pointer.tokensAux ((c :: r).length + 1) (c :: r) = none := by
        simp [Spec.Pointer.tokensAux, hc]
      rw [this]
      simp [hc]

/-- Non-vacuity / sanity: concrete evaluations on a nested document
    `{"a/b": [null, true], "m~n": 8}` (strings written as byte lists so the kernel can reduce). -/
def doc : JV := .obj [([0x61, 0x2f, 0x62], .arr [.null, .bool true]), ([0x6d, 0x7e, 0x6e], .num (.pos 8))]
example : pointer doc [0x2f, 0x61, 0x7e, 0x31, 0x62, 0x2f, 0x31] = some (.bool true) := rfl   -- /a~1b/1
example : pointer doc [0x2f, 0x6d, 0x7e, 0x30, 0x6e] = some (.num (.pos 8)) := rfl   -- /m~0n
example : pointer doc [0x2f, 0x61, 0x7e, 0x31, 0x62, 0x2f, 0x30, 0x31] = none := rfl   -- /a~1b/01
example : pointer doc [0x2f, 0x61, 0x7e, 0x31, 0x62, 0x2f, 0x2b, 0x31] = none := rfl   -- /a~1b/+1
example : pointer doc [0x2f, 0x61, 0x7e, 0x31, 0x62, 0x2f, 0x2d] = none := rfl   -- /a~1b/-
example : pointer doc [0x61, 0x7e, 0x31, 0x62] = none := rfl   -- a~1b
example : unescapeTok [0x7e, 0x30, 0x31] = [0x7e, 0x31] := rfl   -- ~01 ↦ ~1

end SJ.Props.C18
