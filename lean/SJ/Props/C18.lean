import SJ.Proofs.Pointer
import SJ.Proofs.ValueIndex
import SJ.Proofs.PartialEq
import SJ.Proofs.JsonMacro
import SJ.Proofs.NumberApEq
/-!
# C18 — Value lookups follow RFC 6901 and agree with each other

Property theorems only; helper lemmas live in `SJ/Proofs/Pointer.lean`.
-/
namespace SJ.Props.C18
open SJ SJ.Model.ValueOps SJ.Proofs.Pointer

/-- The two-pass `replace("~1","/").replace("~0","~")` is the RFC's single-pass unescape,
    for every byte string (so a `~` not followed by `0`/`1` is literal, and `~01` is `~1`). -/
theorem c18_unescape (t : Bytes) : unescapeTok t = Spec.Pointer.unescape t := unescapeTok_eq t

/-- `parse_index` accepts exactly `0 | [1-9][0-9]*` below 2^64 and returns its decimal value:
    leading zeros, `+`, `-`, the empty token are all rejected. -/
theorem c18_parse_index (t : Bytes) : parseIndex t = Spec.Pointer.arrayIndex t := parseIndex_eq t

theorem tryFold_eq (v : JV) (ts : List Bytes) :
    tryFold v (ts.map unescapeTok) = Spec.Pointer.evalTokens v (ts.map Spec.Pointer.unescape) := by
  induction ts generalizing v with
  | nil => rfl
  | cons t ts ih =>
    simp only [List.map_cons, tryFold, Spec.Pointer.evalTokens, Spec.Pointer.step]
    rw [unescapeTok_eq t]
    cases v with
    | obj m =>
      simp only [mapGet_eq]
      cases Spec.Pointer.lookup (Spec.Pointer.unescape t) m with
      | none => rfl
      | some v' => simpa using ih v'
    | arr l =>
      simp only [parseIndex_eq]
      cases (Spec.Pointer.arrayIndex (Spec.Pointer.unescape t)).bind (l[·]?) with
      | none => rfl
      | some v' => simpa using ih v'
    | null => rfl
    | bool _ => rfl
    | num _ => rfl
    | str _ => rfl

/-- **C18 (pointer).** For every value and every pointer string, the transcription of
    `Value::pointer` returns exactly the node the RFC 6901 evaluator selects. -/
theorem c18_pointer (v : JV) (p : Bytes) : pointer v p = Spec.Pointer.eval v p := by
  have hL : Gen.ptrReplaceLead = Spec.Pointer.slash := rfl
  have hS1 : Gen.ptrReplaceSplit.1 = Spec.Pointer.slash := rfl
  have hS2 : Gen.ptrReplaceSplit.2 = 1 := rfl
  unfold pointer Spec.Pointer.eval Spec.Pointer.tokens
  rw [hL, hS1, hS2]
  cases p with
  | nil => simp [Spec.Pointer.tokensAux, Spec.Pointer.evalTokens]
  | cons c r =>
    by_cases hc : c = Spec.Pointer.slash
    · subst hc
      have h := tokensAux_eq ((Spec.Pointer.slash :: r : Bytes).length + 1) r (by simp)
      rw [h]
      simp only [List.isEmpty_cons, Bool.false_eq_true, if_false, List.head?_cons, bne_self_eq_false,
        Option.bind_some]
      have : splitOn Spec.Pointer.slash (Spec.Pointer.slash :: r) = [] :: splitOn Spec.Pointer.slash r := by
        simp [splitOn]
      rw [this]
      simpa using tryFold_eq v (splitOn Spec.Pointer.slash r)
    · have : Spec.Pointer.tokensAux ((c :: r).length + 1) (c :: r) = none := by
        simp [Spec.Pointer.tokensAux, hc]
      rw [this]
      simp [hc]

theorem mapUpd_eq (k : Bytes) (f : JV → Option JV) (m : List (Bytes × JV)) :
    mapUpd k f m = Spec.Pointer.updAssoc k f m := by
  induction m with
  | nil => rfl
  | cons kv m ih => obtain ⟨k', v⟩ := kv; simp [mapUpd, Spec.Pointer.updAssoc, ih]

theorem vecUpd_eq (f : JV → Option JV) (i : Nat) (l : List JV) :
    vecUpd f i l = Spec.Pointer.updNth f i l := by
  induction l generalizing i with
  | nil => cases i <;> rfl
  | cons v l ih => cases i with
    | zero => rfl
    | succ i => simp [vecUpd, Spec.Pointer.updNth, ih]

theorem foldSet_eq (ts : List Bytes) (v x : JV) :
    foldSet (ts.map unescapeTokMut) v x = Spec.Pointer.setTokens (ts.map Spec.Pointer.unescape) v x := by
  induction ts generalizing v with
  | nil => rfl
  | cons t ts ih =>
    have hf : (fun v => foldSet (ts.map unescapeTokMut) v x)
        = (fun v => Spec.Pointer.setTokens (ts.map Spec.Pointer.unescape) v x) := funext ih
    simp only [List.map_cons]
    rw [unescapeTokMut_eq, unescapeTok_eq t]
    cases v with
    | obj m => simp only [foldSet, Spec.Pointer.setTokens, hf, mapUpd_eq]
    | arr l => simp only [foldSet, Spec.Pointer.setTokens, hf, vecUpd_eq, parseIndex_eq]
    | null => rfl
    | bool _ => rfl
    | num _ => rfl
    | str _ => rfl

/-- **C18 (pointer_mut).** Writing through `pointer_mut(p)` replaces exactly the node that the
    RFC 6901 evaluator addresses (and fails in exactly the same cases). -/
theorem c18_pointer_mut (v : JV) (p : Bytes) (x : JV) : pointerSet v p x = Spec.Pointer.set v p x := by
  have hL : Gen.ptrMutReplaceLead = Spec.Pointer.slash := rfl
  have hS1 : Gen.ptrMutReplaceSplit.1 = Spec.Pointer.slash := rfl
  have hS2 : Gen.ptrMutReplaceSplit.2 = 1 := rfl
  unfold pointerSet Spec.Pointer.set Spec.Pointer.tokens
  rw [hL, hS1, hS2]
  cases p with
  | nil => simp [Spec.Pointer.tokensAux, Spec.Pointer.setTokens]
  | cons c r =>
    by_cases hc : c = Spec.Pointer.slash
    · subst hc
      have h := tokensAux_eq ((Spec.Pointer.slash :: r : Bytes).length + 1) r (by simp)
      rw [h]
      simp only [List.isEmpty_cons, Bool.false_eq_true, if_false, List.head?_cons, bne_self_eq_false,
        Option.bind_some]
      have : splitOn Spec.Pointer.slash (Spec.Pointer.slash :: r) = [] :: splitOn Spec.Pointer.slash r := by
        simp [splitOn]
      rw [this]
      simpa using foldSet_eq (splitOn Spec.Pointer.slash r) v x
    · have : Spec.Pointer.tokensAux ((c :: r).length + 1) (c :: r) = none := by
        simp [Spec.Pointer.tokensAux, hc]
      rw [this]
      simp [hc]

/-- Non-vacuity / sanity: concrete evaluations on a nested document
    `{"a/b": [null, true], "m~n": 8}` (strings written as byte lists so the kernel can reduce). -/
def doc : JV := .obj [([0x61, 0x2f, 0x62], .arr [.null, .bool true]), ([0x6d, 0x7e, 0x6e], .num (.pos 8))]
example : pointer doc [0x2f, 0x61, 0x7e, 0x31, 0x62, 0x2f, 0x31] = some (.bool true) := rfl   -- /a~1b/1
example : pointer doc [0x2f, 0x6d, 0x7e, 0x30, 0x6e] = some (.num (.pos 8)) := rfl   -- /m~0n
example : pointer doc [0x2f, 0x61, 0x7e, 0x31, 0x62, 0x2f, 0x30, 0x31] = none := rfl   -- /a~1b/01
example : pointer doc [0x2f, 0x61, 0x7e, 0x31, 0x62, 0x2f, 0x2b, 0x31] = none := rfl   -- /a~1b/+1
example : pointer doc [0x2f, 0x61, 0x7e, 0x31, 0x62, 0x2f, 0x2d] = none := rfl   -- /a~1b/-
example : pointer doc [0x61, 0x7e, 0x31, 0x62] = none := rfl   -- a~1b
example : unescapeTok [0x7e, 0x30, 0x31] = [0x7e, 0x31] := rfl   -- ~01 ↦ ~1

/-! ## `get` / `Index` / `IndexMut` / `take` -/

section index
open SJ.Model.ValueIndex SJ.Proofs.ValueIndex

/-- **C18 (get, Index).** For every probe (a `usize`, a `str`, a `String`, a reference to any of
    them) and every value: `get` is direct container access (first-match member lookup in an object,
    `nth` in an array, nothing otherwise), `&value[probe]` is that or `Null`, and a write through
    `get_mut` replaces exactly the member / element addressed. -/
theorem c18_get_index (p : Probe) (v : JV) :
    get p v = Spec.Index.select (sel p) v ∧
    index p v = Spec.Index.orNull (Spec.Index.select (sel p) v) ∧
    ∀ x, getMutSet p x v = (Spec.Index.select (sel p) v).map fun _ => Spec.Index.write x (sel p) v := by
  refine ⟨indexInto_eq p v, ?_, fun x => indexIntoMutSet_eq p x v⟩
  unfold index
  rw [indexInto_eq]
  cases Spec.Index.select (sel p) v <;> rfl

/-- the outcome the reference prescribes for `&mut value[probe]` -/
def refIndexMut (po : Bool) (s : Spec.Index.Sel) (v : JV) : Res (JV × Spec.Index.Sel) :=
  match Spec.Index.indexMut po s v with
  | some doc => .ok (doc, s)
  | none => .panic

def resSel : Res (JV × Loc) → Res (JV × Spec.Index.Sel)
  | .ok (d, l) => .ok (d, locSel l)
  | .panic => .panic

theorem strIndexOrInsert_eq (po : Bool) (k : Bytes) (v : JV) :
    resSel (strIndexOrInsert po k v) = refIndexMut po (.key k) v := by
  have hn : Gen.nullBecomesObject = true := rfl
  have ho : valueOfCode Gen.orInsertCode = .null := rfl
  cases v <;>
    simp [strIndexOrInsert, refIndexMut, Spec.Index.indexMut, Spec.Index.indexMutKey, resSel, locSel, hn, ho,
      entryOrInsert_eq]

theorem usizeIndexOrInsert_eq (i : Nat) (v : JV) :
    resSel (usizeIndexOrInsert i v) = refIndexMut false (.pos i) v := by
  cases v <;> simp [usizeIndexOrInsert, refIndexMut, Spec.Index.indexMut, Spec.Index.indexMutIdx, resSel]
  rename_i l
  cases l[i]? <;> simp [locSel]

theorem refIndexMut_pos (po : Bool) (i : Nat) (v : JV) : refIndexMut po (.pos i) v = refIndexMut false (.pos i) v := rfl

/-- **C18 (IndexMut).** `&mut value[probe]` is the reference "insert-if-missing, then address":
    * a string probe turns `Null` into an object, adds a `null` member when the key is missing (in
      key order by default, at the end under `preserve_order`), never touches another member, and
      addresses member `key` of the result; it panics exactly on a bool, number, string or array;
    * a position probe creates nothing and addresses element `i`; it panics exactly when the value is
      not an array or `i` is past the end. -/
theorem c18_index_mut (po : Bool) (p : Probe) (v : JV) :
    resSel (indexMut po p v) = refIndexMut po (sel p) v := by
  unfold indexMut
  induction p with
  | usize i => exact usizeIndexOrInsert_eq i v
  | str k => exact strIndexOrInsert_eq po k v
  | string k => exact strIndexOrInsert_eq po k v
  | ref p ih => simpa [indexOrInsert, sel] using ih

/-- … where the reference itself is characterised by lookups: the panics are exactly the documented
    ones, and after `&mut value[key]` member `key` holds what it held before (or `null`) while every
    other lookup is unchanged. -/
theorem c18_index_mut_reference (po : Bool) (v : JV) :
    (∀ k, Spec.Index.indexMut po (.key k) v = none ↔ (v ≠ .null ∧ ∀ m, v ≠ .obj m)) ∧
    (∀ i, Spec.Index.indexMut po (.pos i) v = none ↔ ∀ l, v = .arr l → l.length ≤ i) ∧
    (∀ i doc, Spec.Index.indexMut po (.pos i) v = some doc → doc = v) ∧
    (∀ k doc, Spec.Index.indexMut po (.key k) v = some doc →
      ∃ m', doc = .obj m' ∧ ∀ k', Spec.Index.lookup k' m' =
        if k' = k then some (Spec.Index.orNull (Spec.Index.member k v)) else Spec.Index.member k' v) := by
  refine ⟨fun k => ?_, fun i => ?_, fun i doc h => ?_, fun k doc h => ?_⟩
  · cases v <;> simp [Spec.Index.indexMut, Spec.Index.indexMutKey]
  · cases v <;> simp [Spec.Index.indexMut, Spec.Index.indexMutIdx]
  · cases v <;> simp [Spec.Index.indexMut, Spec.Index.indexMutIdx] at h
    obtain ⟨_, _, rfl⟩ := h; rfl
  · cases v <;> simp [Spec.Index.indexMut, Spec.Index.indexMutKey] at h
    · subst h
      exact ⟨_, rfl, fun k' => by
        rw [lookup_insertIfMissing]; simp [Spec.Index.member, Spec.Index.lookup]⟩
    · subst h
      exact ⟨_, rfl, fun k' => by rw [lookup_insertIfMissing]; simp [Spec.Index.member]⟩

/-- **C18 (take).** `take` returns the old value and leaves `Null`; applied through a pointer it
    returns the node RFC 6901 addresses and leaves the document with exactly that node nulled. -/
theorem c18_take (v : JV) (p : Bytes) :
    take v = (v, .null) ∧
    takeAt v p = match Spec.Pointer.eval v p with
      | none => none
      | some node => (Spec.Pointer.set v p .null).map fun doc' => (node, doc') := by
  have ht : ∀ x, take x = (x, .null) := fun _ => rfl
  refine ⟨ht v, ?_⟩
  unfold takeAt
  rw [c18_pointer, ]
  cases Spec.Pointer.eval v p with
  | none => rfl
  | some node => simp only [ht, c18_pointer_mut]

/-- non-vacuity: probes on `{"a/b": [null, true], "m~n": 8}` -/
example : index (.str [0x6d, 0x7e, 0x6e]) doc = .num (.pos 8) := rfl
example : index (.ref (.string [0x7a])) doc = .null := rfl
example : index (.usize 0) doc = .null := rfl
example : get (.usize 1) (.arr [.null, .bool true]) = some (.bool true) := rfl
example : indexMut false (.str [0x62]) (.obj [([0x61], .null), ([0x63], .null)])
    = .ok (.obj [([0x61], .null), ([0x62], .null), ([0x63], .null)], .key [0x62]) := rfl
example : indexMut true (.str [0x62]) (.obj [([0x61], .null), ([0x63], .null)])
    = .ok (.obj [([0x61], .null), ([0x63], .null), ([0x62], .null)], .key [0x62]) := rfl
example : indexMut false (.str [0x62]) .null = .ok (.obj [([0x62], .null)], .key [0x62]) := rfl
example : indexMut false (.str [0x62]) (.bool true) = .panic := rfl
example : indexMut false (.usize 2) (.arr [.null, .null]) = .panic := rfl
example : takeAt doc [0x2f, 0x6d, 0x7e, 0x30, 0x6e]
    = some (.num (.pos 8), .obj [([0x61, 0x2f, 0x62], .arr [.null, .bool true]), ([0x6d, 0x7e, 0x6e], .null)]) := rfl

end index

/-! ## `Value == primitive` -/

section partialEq
open SJ.Model.PartialEq SJ.Spec.PrimEq SJ.Proofs.PartialEq

/-- **C18 (PartialEq with integers, bool, strings).** For every integer type of the *extracted*
    `partialeq_numeric!` table, every comparand in that type's range and every (well-formed) value:
    `value == comparand` — i.e. the row's function applied to `comparand as _` — is true exactly when
    the value is an integer `Number` holding that very integer. (Moving a type to a row whose `as`
    cast does not preserve its values, e.g. `usize` through `i64`, breaks this proof.)
    Likewise `bool` and `str`/`String` comparands: same constructor, same content. -/
theorem c18_partial_eq (v : JV) (hv : wfValue v = true) :
    (∀ ty lo hi, intRange ty = some (lo, hi) → ∀ x : Int, lo ≤ x → x ≤ hi →
      eqPrim ty (.int x) v = holdsInt x v) ∧
    (∀ b, eqPrim .bool (.bool b) v = holdsBool b v) ∧
    (∀ s, eqStr s v = holdsStr s v) := by
  refine ⟨fun ty lo hi hr x hlo hhi => ?_, fun b => ?_, fun s => ?_⟩
  · cases ty <;> simp only [intRange, Option.some.injEq, Prod.mk.injEq, reduceCtorEq] at hr <;>
      obtain ⟨rfl, rfl⟩ := hr <;> simp only [eqPrim, Gen.eqFnOf]
    all_goals first
      | exact eqFn_i64 x (by omega) (by omega) v
      | exact eqFn_u64 x (by omega) (by omega) v hv
  · cases v <;> simp [eqPrim, Gen.eqFnOf, eqFn, Gen.eqFnParam, Gen.eqFnAccessor, castTo, accessor, castedEq, holdsBool]
  · cases v <;> rfl

/-- **C18 (PartialEq with floats).** `value == x` for `x : f64` (`f32`) is the IEEE-754 equality of `x`
    with the value's number converted to binary64 (binary32) by one correctly rounded conversion; a
    non-number never equals a float. -/
theorem c18_partial_eq_float (v : JV) :
    (∀ b, eqPrim .f64 (.f64 b) v = holdsF64 b v) ∧ (∀ b, eqPrim .f32 (.f32 b) v = holdsF32 b v) := by
  constructor <;> intro b <;> cases v <;>
    simp only [eqPrim, Gen.eqFnOf, eqFn, Gen.eqFnParam, Gen.eqFnAccessor, castTo, accessor, holdsF64, holdsF32,
      asF64, asF32] <;>
    rename_i n <;> first
      | (cases numAsF64 n <;> rfl)
      | (cases numAsF32 n <;> rfl)

/-- a NaN comparand equals no value; the two zeros are equal -/
theorem c18_partial_eq_nan (b : UInt64) (hb : Spec.Ieee.F64.isNaN b = true) (v : JV) : eqPrim .f64 (.f64 b) v = false := by
  rw [(c18_partial_eq_float v).1]
  cases v <;> simp only [holdsF64]
  rename_i n
  cases numAsF64 n <;> simp [ieeeEq64, hb]

/-- the cast matters: through `i64`, `usize::MAX` would equal `-1` -/
example : wrapI64 18446744073709551615 = -1 := by decide +kernel
example : eqPrim .usize (.int 18446744073709551615) (.num (.pos 18446744073709551615)) = true := by decide +kernel
example : eqPrim .usize (.int 18446744073709551615) (.num (.neg (-1))) = false := by decide +kernel
example : eqPrim .i8 (.int (-128)) (.num (.neg (-128))) = true := by decide +kernel
example : eqPrim .u8 (.int 1) (.num (.float 0x3ff0000000000000)) = false := by decide +kernel   -- 1u8 ≠ 1.0
example : eqPrim .f64 (.f64 0x8000000000000000) (.num (.float 0)) = true := by decide +kernel   -- -0.0 == 0.0
example : eqPrim .f64 (.f64 0x3ff0000000000000) (.num (.pos 1)) = true := by decide +kernel     -- 1.0 == 1
example : eqPrim .f64 (.f64 0x7ff8000000000000) (.num (.float 0x7ff8000000000000)) = false := by decide +kernel
example : eqPrim .f64 (.f64 0x4340000000000000) (.num (.pos 9007199254740993)) = true := by decide +kernel  -- 2^53 == 2^53+1 (as f64)
example : eqPrim .f32 (.f32 0x3fc00000) (.num (.float 0x3ff8000000000000)) = true := by decide +kernel      -- 1.5f32 == 1.5
example : eqStr [0x61] (.str [0x61]) = true := rfl

end partialEq

/-! ## `json!` -/

section jsonMacro
open SJ.Spec.JsonMacro SJ.Model.JsonMacro

/-- **C18 (json!).** For every token tree that is a JSON-shaped literal — any nesting, elements and
    members separated by commas with an optional trailing comma, keys that are string-valued
    expression units (bare or parenthesised), values that are `null`/`true`/`false`, nested literals
    or arbitrary interpolated expressions — applying the `json_internal!` rules in source order
    succeeds and builds exactly the structurally evaluated value: arrays in order, an object holding
    one entry per distinct key with the **last** duplicate's value, keys ascending (default) or in
    first-occurrence order (`preserve_order`) — `Spec.Canon.objectOf`, i.e. what parsing the
    equivalent JSON text yields by C02. Depends on the extracted insert statement being
    `Map::insert` (`Gen.jsonInsertOverwrites`). -/
theorem c18_json_macro (po : Bool) (t : TT) (l : Lit) (h : shape t = some l) :
    jsonMacro po t = some (eval po l) :=
  SJ.Proofs.JsonMacro.expand_shape po t l h

/-- The tie to the source: the rule heads and right-hand sides of `json_internal!` regenerated from
    `src/macros.rs` on this run are, in order, the ones `Model.JsonMacro` transcribes. -/
theorem c18_json_rules_tied : RulesTied := ⟨rfl, rfl⟩

/-- `{"a": 1, "b": [null, x,], "a": true,}` with `x` interpolated as `"s"`: last duplicate wins,
    trailing commas are ignored -/
def sample : TT :=
  .obj [.lit (.str [0x61]), .colon, .lit (.num (.pos 1)), .comma,
        .paren (.str [0x62]), .colon, .arr [.null, .comma, .expr (.str [0x73]), .comma], .comma,
        .expr (.str [0x61]), .colon, .true_, .comma]
example : shape sample = some (.obj [([0x61], .leaf (.num (.pos 1))), ([0x62], .arr [.null, .leaf (.str [0x73])]),
    ([0x61], .bool true)]) := rfl
example : jsonMacro false sample = some (.obj [([0x61], .bool true), ([0x62], .arr [.null, .str [0x73]])]) := rfl
example : jsonMacro true (.obj [.lit (.str [0x62]), .colon, .null, .comma, .lit (.str [0x61]), .colon, .null, .comma,
    .lit (.str [0x62]), .colon, .true_])
    = some (.obj [([0x62], .bool true), ([0x61], .null)]) := rfl
/-- outside the JSON shape the rules still speak: a leading comma in an array is accepted
    (`json!([,1]) == [1]`, rule A10 on the empty accumulator), a doubled comma is not -/
example : jsonMacro false (.arr [.comma, .lit (.num (.pos 1))]) = some (.arr [.num (.pos 1)]) := rfl
example : jsonMacro false (.arr [.null, .comma, .comma, .lit (.num (.pos 1))]) = none := rfl
example : jsonMacro false (.obj [.lit (.num (.pos 1)), .colon, .null]) = none := rfl   -- a number is no key

end jsonMacro

/-! ## `PartialEq` with primitives under `arbitrary_precision` -/

section partialEqAp
open SJ.Model.PartialEq SJ.Spec.PrimEq SJ.Proofs.NumberApEq

/-- **C18 (PartialEq, `arbitrary_precision`).** With string-backed numbers (`Model.PartialEqAp`: the same
    `eq_*` functions and `as _` casts, accessors = `str::parse` on the literal, `Model.NumberAp`), for every
    `Value` whose numbers are RFC 8259 number texts, every integer type of the extracted table and every comparand
    in its range: `value == x` is true exactly when the value is a Number whose literal is an *integer literal*
    (no fraction, no exponent) worth `x` — and, for the unsigned types, written without a minus sign
    (`Spec.PrimEqAp.holdsInt`). Bool and strings as in the default build.

    Where this differs from the default build's reading "holds that value" (`c18_partial_eq_ap_differs`): only the
    literal `-0`, which equals the signed zeros (`"-0".parse::<i64>() = Ok(0)`) and no unsigned zero
    (`"-0".parse::<u64>()` fails) — in the default build `-0` is a float and equals no integer at all.
    Literals with a fraction or an exponent (`1.0`, `1e2`) equal no integer in either build. -/
theorem c18_partial_eq_ap (v : JV) (hv : Spec.PrimEqAp.wfValue v = true) :
    (∀ ty lo hi, intRange ty = some (lo, hi) → ∀ x : Int, lo ≤ x → x ≤ hi →
      Model.PartialEqAp.eqPrim ty (.int x) v = Spec.PrimEqAp.holdsInt (Spec.PrimEqAp.signedTy ty) x v) ∧
    (∀ b, Model.PartialEqAp.eqPrim .bool (.bool b) v = holdsBool b v) ∧
    (∀ s, eqStr s v = holdsStr s v) := by
  refine ⟨fun ty lo hi hr x hlo hhi => ?_, fun b => ?_, fun s => ?_⟩
  · cases ty <;> simp only [intRange, Option.some.injEq, Prod.mk.injEq, reduceCtorEq] at hr <;>
      obtain ⟨rfl, rfl⟩ := hr <;> simp only [Model.PartialEqAp.eqPrim, Gen.eqFnOf, Spec.PrimEqAp.signedTy]
    all_goals first
      | exact SJ.Proofs.NumberApEq.eqFn_i64 x (by omega) (by omega) v hv
      | exact SJ.Proofs.NumberApEq.eqFn_u64 x (by omega) (by omega) v hv
  · cases v <;> simp [Model.PartialEqAp.eqPrim, Gen.eqFnOf, Model.PartialEqAp.eqFn, Gen.eqFnParam, Gen.eqFnAccessor, castTo,
      Model.PartialEqAp.accessor, castedEq, holdsBool]
  · cases v <;> rfl

/-- **C18 (PartialEq with floats, `arbitrary_precision`).** `value == x` for `x : f64` (`f32`) is the IEEE-754
    equality of `x` with the nearest finite binary64 (binary32) of the literal's exact value — ONE correctly
    rounded conversion from the decimal text (`Spec.Ieee.roundNE64/32` of `Spec.Decimal.NumLit.exact`; std's
    `str::parse::<f64/f32>` assumed correctly rounded) — and false when that rounding is not finite or the
    value is not a number. So `json!(1.0) == 1.0`, `"1e2" == 100.0`, `"100" == 100.0` hold, and `"1e400"`
    equals nothing (not even `f64::INFINITY`). -/
theorem c18_partial_eq_float_ap (v : JV) (hv : Spec.PrimEqAp.wfValue v = true) :
    (∀ b, Model.PartialEqAp.eqPrim .f64 (.f64 b) v = Spec.PrimEqAp.holdsF64 b v) ∧
    (∀ b, Model.PartialEqAp.eqPrim .f32 (.f32 b) v = Spec.PrimEqAp.holdsF32 b v) :=
  ⟨fun b => SJ.Proofs.NumberApEq.eqFn_f64 b v hv, fun b => SJ.Proofs.NumberApEq.eqFn_f32 b v hv⟩

/-- where the two builds differ on integer comparands, precisely: under `arbitrary_precision` a literal other
    than `-0` equals an in-range `x` exactly when it is an integer literal worth `x` (whatever the signedness of
    the comparand's type); `-0` equals `0` of a signed type and nothing else -/
theorem c18_partial_eq_ap_differs (signed : Bool) (x : Int) (l : Spec.Decimal.NumLit) :
    (Spec.NumberAcc.isNegZero l = false → (signed = false → 0 ≤ x) →
      Spec.PrimEqAp.holdsIntLit signed x l = (Spec.NumberAcc.isIntLit l && Spec.NumberAcc.intVal l == x)) ∧
    (Spec.NumberAcc.isNegZero l = true → Spec.PrimEqAp.holdsIntLit signed x l = (signed && x == 0)) := by
  unfold Spec.PrimEqAp.holdsIntLit Spec.NumberAcc.isNegZero Spec.NumberAcc.intVal
  constructor
  · intro hz hx
    cases hil : Spec.NumberAcc.isIntLit l
    · rfl
    · cases hn : l.neg
      · simp
      · cases signed
        · -- unsigned comparand, negative literal that is not `-0`: its value is < 0 ≤ x
          have h0 : 0 ≤ x := hx rfl
          rw [hil, hn] at hz
          simp only [Bool.true_and, beq_eq_false_iff_ne, ne_eq] at hz
          have : ¬ (-(Spec.Decimal.digitsVal l.intDigits : Int) = x) := by omega
          simp [this]
        · simp
  · intro hz
    simp only [Bool.and_eq_true, beq_iff_eq] at hz
    obtain ⟨⟨hil, hn⟩, h0⟩ := hz
    simp only [hil, hn, h0, Bool.true_and, Bool.not_true, Bool.or_false, if_true]
    cases signed <;> simp [eq_comm]

/-- non-vacuity and the differences, on concrete values (Bool tests evaluated by the kernel) -/
example : (Model.PartialEqAp.eqPrim .i64 (.int 0) (.num (.lit [0x2d, 0x30])) &&          -- "-0" == 0i64
    !Model.PartialEqAp.eqPrim .u64 (.int 0) (.num (.lit [0x2d, 0x30])) &&                 -- "-0" != 0u64
    !Model.PartialEqAp.eqPrim .u8 (.int 100) (.num (.lit [0x31, 0x65, 0x32])) &&          -- "1e2" != 100u8
    Model.PartialEqAp.eqPrim .f64 (.f64 0x4059000000000000) (.num (.lit [0x31, 0x65, 0x32])) &&   -- "1e2" == 100.0
    Model.PartialEqAp.eqPrim .f64 (.f64 0x3ff0000000000000) (.num (.lit [0x31, 0x2e, 0x30])) &&   -- "1.0" == 1.0
    !Model.PartialEqAp.eqPrim .u8 (.int 1) (.num (.lit [0x31, 0x2e, 0x30])) &&            -- "1.0" != 1u8
    !Model.PartialEqAp.eqPrim .f64 (.f64 0x7ff0000000000000) (.num (.lit [0x31, 0x65, 0x34, 0x30, 0x30])) &&  -- "1e400" != inf
    Model.PartialEqAp.eqPrim .f64 (.f64 0) (.num (.lit [0x2d, 0x30])) &&                  -- "-0" == 0.0
    Model.PartialEqAp.eqPrim .usize (.int 18446744073709551615)
      (.num (.lit [0x31,0x38,0x34,0x34,0x36,0x37,0x34,0x34,0x30,0x37,0x33,0x37,0x30,0x39,0x35,0x35,0x31,0x36,0x31,0x35]))) = true := by
  decide +kernel
/-- `0.1` against `0.1f32`: one rounding of the decimal text (equal), where the default build rounds `0.1f64` again (also equal);
    `16777217` against `16777216f32`: equal in both (ties to even) -/
example : (Model.PartialEqAp.eqPrim .f32 (.f32 0x3dcccccd) (.num (.lit [0x30, 0x2e, 0x31])) &&
    Model.PartialEqAp.eqPrim .f32 (.f32 0x4b800000) (.num (.lit [0x31,0x36,0x37,0x37,0x37,0x32,0x31,0x37]))) = true := by decide +kernel

end partialEqAp

end SJ.Props.C18
