import SJ.Proofs.Number
import SJ.Proofs.NumInt
import SJ.Spec.ValueOf
/-!
# C15 helper lemmas: how the parser classifies the text `itoa` prints, and `f32 → f64` finiteness

* `natOfDigits_natDigits`: the decimal digits of `k` read back as `k`;
* `numOf_decimal_pos` / `numOf_decimal_neg` / `numOf_ap`: `Spec.Canon.numOf` on `decimal n` is `PosInt n`
  for `0 ≤ n < 2^64`, `NegInt n` for `-2^63 ≤ n < 0` (default and `float_roundtrip`), the text under
  `arbitrary_precision`;
* `finite64_widen32`: a finite `f32` widens to a finite `f64`.
-/
namespace SJ.Proofs.ToValueNum
open SJ SJ.Spec.Grammar SJ.Spec.Number SJ.Spec.Canon SJ.Spec.Program SJ.Model.Num SJ.Proofs.NumInt SJ.Proofs.Number

/-! ## digits read back -/

theorem dig_ofNat (k : Nat) (h : k < 10) : dig (UInt8.ofNat (0x30 + k)) = k := by
  have : ∀ k, k < 10 → dig (UInt8.ofNat (0x30 + k)) = k := by decide
  exact this k h

theorem digit_range (k : Nat) (h : k < 10) :
    (0x30 : UInt8) ≤ UInt8.ofNat (0x30 + k) ∧ UInt8.ofNat (0x30 + k) ≤ 0x39 := by
  have : ∀ k, k < 10 → (0x30 : UInt8) ≤ UInt8.ofNat (0x30 + k) ∧ UInt8.ofNat (0x30 + k) ≤ 0x39 := by decide
  exact this k h

theorem digitsAux_val (fuel : Nat) : ∀ (n : Nat) (acc : Bytes), n < fuel →
    ∃ ds, digitsAux fuel n acc = ds ++ acc ∧ (∀ s, val s ds = s * 10 ^ ds.length + n) ∧ IsDigits ds := by
  induction fuel with
  | zero => intro n acc h; omega
  | succ fuel ih =>
    intro n acc hf
    simp only [digitsAux]
    split
    · rename_i h10
      refine ⟨[UInt8.ofNat (0x30 + n % 10)], rfl, ?_, ?_⟩
      · intro s
        simp only [val, List.foldl_cons, List.foldl_nil, List.length_singleton, Nat.pow_one]
        rw [dig_ofNat _ (Nat.mod_lt _ (by omega)), Nat.mod_eq_of_lt h10]
      · intro c hc
        simp only [List.mem_singleton] at hc
        subst hc
        exact digit_range _ (Nat.mod_lt _ (by omega))
    · rename_i h10
      obtain ⟨ds, h1, h2, h3⟩ := ih (n / 10) (UInt8.ofNat (0x30 + n % 10) :: acc) (by omega)
      refine ⟨ds ++ [UInt8.ofNat (0x30 + n % 10)], by rw [h1, List.append_assoc]; rfl, ?_, ?_⟩
      · intro s
        rw [val_append, h2 s]
        simp only [val, List.foldl_cons, List.foldl_nil, List.length_append, List.length_singleton]
        rw [dig_ofNat _ (Nat.mod_lt _ (by omega)), Nat.pow_succ]
        have := Nat.div_add_mod n 10
        rw [Nat.add_mul, Nat.mul_assoc]
        omega
      · intro c hc
        simp only [List.mem_append, List.mem_singleton] at hc
        rcases hc with hc | hc
        · exact h3 c hc
        · subst hc; exact digit_range _ (Nat.mod_lt _ (by omega))

theorem natDigits_spec (k : Nat) : natOfDigits (natDigits k) = k ∧ IsDigits (natDigits k) := by
  obtain ⟨ds, h1, h2, h3⟩ := digitsAux_val (k + 1) k [] (by omega)
  simp only [List.append_nil] at h1
  refine ⟨?_, ?_⟩
  · rw [natOfDigits_eq_val, natDigits, h1, h2 0]; omega
  · rw [natDigits, h1]; exact h3

/-! ## the literal `decimal n` -/

theorem partsOf_decimalParts (n : Int) :
    partsOf (decimalParts n) =
      { neg := decide (n < 0), int := natDigits n.natAbs, frac := none, exp := none, raw := decimal n } := by
  simp only [partsOf, decimalParts_bytes]
  simp [decimalParts]

theorem splitNumber_decimal (n : Int) : splitNumber (decimal n) = decimalParts n := by
  rw [← decimalParts_bytes n]; exact splitNumber_parts _ (decimalParts_wf n)

theorem intClass_pos (n : Int) (h0 : 0 ≤ n) (h1 : n < 2 ^ 64) :
    intClass (partsOf (decimalParts n)) = some (.u64 n.toNat) := by
  rw [partsOf_decimalParts]
  have hneg : decide (n < 0) = false := by simp; omega
  simp only [intClass, hneg, (natDigits_spec n.natAbs).1]
  have : n.natAbs < 2 ^ 64 := by omega
  simp only [Bool.not_false, if_true, this]
  congr 2; omega

theorem intClass_neg (n : Int) (h0 : n < 0) (h1 : -(2 ^ 63) ≤ n) :
    intClass (partsOf (decimalParts n)) = some (.i64 n) := by
  rw [partsOf_decimalParts]
  have hneg : decide (n < 0) = true := by simp; omega
  simp only [intClass, hneg, (natDigits_spec n.natAbs).1]
  have h2 : (n.natAbs == 0) = false := by simp; omega
  have h3 : n.natAbs ≤ 2 ^ 63 := by omega
  simp only [Bool.not_true, Bool.false_eq_true, if_false, h2, h3, if_true]
  congr 2; omega

theorem convert_of_intClass (cfg : Cfg) (n : Int) (r : NRes)
    (h : intClass (partsOf (decimalParts n)) = some r) : convert cfg (decimalParts n) = r := by
  unfold convert
  split
  · exact convertRoundtrip_of_intClass_some _ r h
  · refine convertDefault_of_intClass_some _ ?_ r h
    rw [partsOf_decimalParts]; exact (natDigits_spec _).2

theorem numOf_decimal_pos (cfg : Cfg) (hap : cfg.ap = false) (n : Int) (h0 : 0 ≤ n) (h1 : n < 2 ^ 64) :
    numOf cfg (splitNumber (decimal n)) = some (.pos n.toNat) := by
  rw [splitNumber_decimal]
  simp only [numOf, hap, Bool.false_eq_true, if_false, convert_of_intClass cfg n _ (intClass_pos n h0 h1)]

theorem numOf_decimal_neg (cfg : Cfg) (hap : cfg.ap = false) (n : Int) (h0 : n < 0) (h1 : -(2 ^ 63) ≤ n) :
    numOf cfg (splitNumber (decimal n)) = some (.neg n) := by
  rw [splitNumber_decimal]
  simp only [numOf, hap, Bool.false_eq_true, if_false, convert_of_intClass cfg n _ (intClass_neg n h0 h1)]

theorem numOf_ap (cfg : Cfg) (hap : cfg.ap = true) (t : Bytes) :
    numOf cfg (splitNumber t) = some (.lit t) := by
  simp only [numOf, hap, if_true, splitNumber_bytes]

/-! ## widening a finite `f32` gives a finite `f64` -/

open SJ.Spec.ValueOf in
theorem finite64_ofNat (k : Nat) (hk : k < 2 ^ 64) (h : (k / 2 ^ 52) % 2048 ≠ 2047) :
    finite64 (UInt64.ofNat k) = true := by
  simp only [finite64, bne_iff_ne, ne_eq]
  intro hc
  have := congrArg UInt64.toNat hc
  simp only [UInt64.toNat_and, UInt64.toNat_shiftRight, UInt64.toNat_ofNat'] at this
  have e1 : k % 2 ^ 64 = k := Nat.mod_eq_of_lt hk
  simp at this
  have e2 : (2047 : Nat) = 2 ^ 11 - 1 := by decide
  rw [e2, Nat.and_two_pow_sub_one_eq_mod, Nat.shiftRight_eq_div_pow] at this
  have e3 : k % 18446744073709551616 = k := by omega
  rw [e3] at this
  omega

theorem finite32_bound (b : UInt32) (h : finite32 b = true) : ((b >>> 23) &&& 0xff).toNat < 255 := by
  simp only [finite32, bne_iff_ne, ne_eq] at h
  have h1 : ((b >>> 23) &&& 0xff).toNat ≤ 255 := by
    simp only [UInt32.toNat_and]
    exact Nat.and_le_right
  apply Nat.lt_of_le_of_ne h1
  intro hc
  apply h
  apply UInt32.toNat_inj.1
  rw [hc]; rfl

open SJ.Spec.ValueOf in
theorem finite64_widen32 (b : UInt32) (h : finite32 b = true) : finite64 (widen32 b) = true := by
  have he := finite32_bound b h
  have hs : (b >>> 31).toNat ≤ 1 := by
    simp only [UInt32.toNat_shiftRight]
    have := b.toNat_lt
    simp [Nat.shiftRight_eq_div_pow]; omega
  have hm : (b &&& 0x7fffff).toNat < 2 ^ 23 := by
    simp only [UInt32.toNat_and]
    exact Nat.lt_of_le_of_lt Nat.and_le_right (by decide)
  simp only [widen32]
  generalize (b >>> 31).toNat = s at hs ⊢
  generalize ((b >>> 23) &&& 0xff).toNat = e at he ⊢
  generalize (b &&& 0x7fffff).toNat = m at hm ⊢
  split
  · split
    · apply finite64_ofNat <;> omega
    · rename_i hm0
      have hm0 : m ≠ 0 := by simpa using hm0
      have hk1 : 2 ^ Nat.log2 m ≤ m := Nat.log2_self_le hm0
      have hk2 : m < 2 ^ (Nat.log2 m + 1) := Nat.lt_log2_self
      have hk3 : Nat.log2 m < 23 := by
        rw [Nat.log2_lt hm0]; exact hm
      generalize Nat.log2 m = k at *
      have hM : (m - 2 ^ k) * 2 ^ (52 - k) < 2 ^ 52 := by
        have : (m - 2 ^ k) < 2 ^ k := by rw [Nat.pow_succ] at hk2; omega
        calc (m - 2 ^ k) * 2 ^ (52 - k) < 2 ^ k * 2 ^ (52 - k) := Nat.mul_lt_mul_of_pos_right this (Nat.pow_pos (by decide))
          _ = 2 ^ 52 := by rw [← Nat.pow_add]; congr 1; omega
      generalize (m - 2 ^ k) * 2 ^ (52 - k) = M at hM
      apply finite64_ofNat <;> omega
  · apply finite64_ofNat <;> omega

end SJ.Proofs.ToValueNum
