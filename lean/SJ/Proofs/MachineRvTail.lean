import SJ.Proofs.MachineRvBase
import SJ.Proofs.MachineApTop
import SJ.Spec.PrivateTokenRv
/-!
# The raw-token phases of `MachineRv`: what follows a first key equal to `raw::TOKEN`

`raw_tail_accepts` / `raw_tail_sound`: from the state right after such a key (any depth, any surrounding containers `fs`,
any nested parser `f`), the run succeeds exactly when the unread input is `ws : ws "…" ws }` (`Spec.PrivateTokenRv.RawTail`),
the string — valid UTF-8 when read from a byte source — decodes to a text `txt` that the nested parser accepts, and then it
continues as if the whole object were the VALUE of `txt`. `tail_container`, `tail_nested_error`, `tail_extra`, `tail_eof`
give the specific errors.
-/
namespace SJ.Proofs.MachineRv
open SJ SJ.Gen SJ.Model SJ.Model.Machine SJ.Proofs.Sound
open SJ.Spec.Grammar (StrItem StrWF strBytes Ws)
open SJ.Spec.Denote (decodeItems)
open SJ.Spec.PrivateTokenRv (RawTail)
open SJ.Model.MachineRv (REnv RPhase stepRaw parseFuel parseTop nestedResult escalate ofAp Expect Msg)
open SJ.Model.MachineRv renaming step1 → rstep1, step → rstep, run → rrun, Outcome → ROut, Step → RStep, St → RSt,
  finish → rfinish, init → rinit, triggered → rtriggered, liftStep → rliftStep, Fail → RFail
open SJ.Proofs.MachineAp (ASt arun astep ws_not_colon ws_facts ne_of_beq_lit)
open SJ.Proofs.Complete (Feeds sst scan_value step_quote_close)

/-- the state after the first key of an object has been read and has decoded to the raw token, `fs` being the containers
    around that object -/
abbrev afterRawKey (fs : List Frame) : RSt := .ap (.base ⟨.afterKey, .obj [] MachineRv.token :: fs⟩)

/-! ## runs -/

theorem rrun_cons_ok (f : Bytes → ROut) (renv : REnv) (s s' : RSt) (i : Nat) (b : UInt8) (bs : Bytes)
    (h : rstep f renv s b = .ok s') : rrun f renv s i (b :: bs) = rrun f renv s' (i + 1) bs := by
  conv => lhs; unfold rrun
  rw [h]

theorem rrun_cons_ok' (f : Bytes → ROut) (renv : REnv) (s : RSt) (i : Nat) (b : UInt8) (bs : Bytes) (v : JV)
    (h : rrun f renv s i (b :: bs) = .ok v) : ∃ s', rstep f renv s b = .ok s' ∧ rrun f renv s' (i + 1) bs = .ok v := by
  unfold rrun at h
  cases hs : rstep f renv s b with
  | ok s' => rw [hs] at h; exact ⟨s', rfl, h⟩
  | error e => rw [hs] at h; cases e <;> cases h

theorem rrun_cons_err (f : Bytes → ROut) (renv : REnv) (s : RSt) (i : Nat) (b : UInt8) (bs : Bytes) (c : Code) (a : Adj)
    (h : rstep f renv s b = .error (.err c a)) : rrun f renv s i (b :: bs) = .err c (errIdx renv.env a i) := by
  conv => lhs; unfold rrun
  rw [h]

theorem rrun_cons_data (f : Bytes → ROut) (renv : REnv) (s : RSt) (i : Nat) (b : UInt8) (bs : Bytes) (e : Expect) (a : Adj)
    (h : rstep f renv s b = .error (.data e a)) : rrun f renv s i (b :: bs) = .data e (errIdx renv.env a i) := by
  conv => lhs; unfold rrun
  rw [h]

theorem rrun_cons_custom (f : Bytes → ROut) (renv : REnv) (s : RSt) (i : Nat) (b : UInt8) (bs : Bytes) (m : Msg) (l k : Nat)
    (h : rstep f renv s b = .error (.custom m l k)) : rrun f renv s i (b :: bs) = .custom m l k := by
  conv => lhs; unfold rrun
  rw [h]

theorem rrun_nil (f : Bytes → ROut) (renv : REnv) (s : RSt) (i : Nat) :
    rrun f renv s i [] = (match rfinish renv s with
      | .ok v => .ok v
      | .error (.err c) => .err c i
      | .error (.data e) => .data e i) := by
  unfold rrun; rfl

/-- feeding whitespace to a state that skips it -/
theorem rrun_ws (f : Bytes → ROut) (renv : REnv) (s : RSt) (hs : ∀ b, isWs b = true → rstep f renv s b = .ok s) :
    ∀ (w : Bytes) (i : Nat) (r : Bytes), Ws w → rrun f renv s i (w ++ r) = rrun f renv s (i + w.length) r
  | [], i, r, _ => by simp
  | b :: w, i, r, hw => by
    simp only [Ws, List.all_cons, Bool.and_eq_true] at hw
    have hb : isWs b = true := by rw [isWs_eq]; exact hw.1
    rw [List.cons_append, rrun_cons_ok f renv s s i b _ (hs b hb), rrun_ws f renv s hs w (i + 1) r (by simpa [Ws] using hw.2)]
    congr 1; simp; omega

/-! ## single steps -/

section steps
variable (f : Bytes → ROut) (renv : REnv)

theorem rtriggered_not_colon (s : St) (b : UInt8) (h : (b == 0x3a) = false) : rtriggered renv s b = none := by
  unfold rtriggered; simp [h]

theorem rstep_afterKey_ws (fs : List Frame) (b : UInt8) (hw : isWs b = true) :
    rstep f renv (.ap (.base ⟨.afterKey, fs⟩)) b = .ok (.ap (.base ⟨.afterKey, fs⟩)) := by
  rw [rstep_ap_eq f renv _ b (fun m hm => by cases hm; exact rtriggered_not_colon renv _ b (ws_not_colon b hw))]
  rw [show MachineAp.step renv.env (.base ⟨.afterKey, fs⟩) b = _ from SJ.Proofs.MachineAp.step_afterKey_ws renv.env fs b hw]
  rfl

theorem rstep_afterKey_colon (hrv : renv.rv = true) (hv : renv.env.tgt = .value) (fs : List Frame) :
    rstep f renv (afterRawKey fs) 0x3a = .ok (.raw .val fs) := by
  unfold rstep rstep1
  simp [rtriggered_afterKey renv hrv hv fs]

theorem rstep_afterKey_other (fs : List Frame) (b : UInt8) (hw : isWs b = false) (hc : (b == 0x3a) = false) :
    rstep f renv (.ap (.base ⟨.afterKey, fs⟩)) b = .error (.err .ExpectedColon .incl) := by
  rw [rstep_ap_eq f renv _ b (fun m hm => by cases hm; exact rtriggered_not_colon renv _ b hc)]
  rw [show MachineAp.step renv.env (.base ⟨.afterKey, fs⟩) b = _ from SJ.Proofs.MachineAp.step_afterKey_other renv.env fs b hw hc]
  rfl

theorem rstep_val_ws (fs : List Frame) (b : UInt8) (hw : isWs b = true) :
    rstep f renv (.raw .val fs) b = .ok (.raw .val fs) := by
  simp [rstep, rstep1, stepRaw, hw]

theorem rstep_val_quote (fs : List Frame) : rstep f renv (.raw .val fs) 0x22 = .ok (.raw (.str {}) fs) := by
  have : isWs 0x22 = false := by decide
  simp [rstep, rstep1, stepRaw, this]

theorem rstep_val_container (fs : List Frame) (b : UInt8) (hb : (b == 0x5b || b == 0x7b) = true) :
    rstep f renv (.raw .val fs) b = .error (.data .raw .excl) := by
  have hw : isWs b = false := by
    cases hx : isWs b with
    | false => rfl
    | true => have := ws_facts b hx; simp [this.2.1, this.2.2.1] at hb
  have hq : (b == 0x22) = false := by
    rcases Bool.or_eq_true _ _ ▸ hb with h | h
    · exact ne_of_beq_lit h (by decide)
    · exact ne_of_beq_lit h (by decide)
  simp only [rstep, rstep1, stepRaw, hw, hq, hb, Bool.false_eq_true, if_false, if_true]

theorem rstep_val_scalar (fs : List Frame) (b : UInt8) (hw : isWs b = false) (hq : (b == 0x22) = false)
    (hc : (b == 0x5b || b == 0x7b) = false) :
    rstep f renv (.raw .val fs) b =
      match startValue renv.env ⟨.val .top, []⟩ b with
      | .next s' => .ok (.raw (.other s') fs)
      | .again _ => .error (.err .ExpectedSomeValue .incl)
      | .err c a => .error (.err c a) := by
  unfold rstep rstep1 stepRaw
  simp only [hw, hq, hc, Bool.false_eq_true, if_false, MachineAp.scratch]
  cases h1 : startValue renv.env ⟨.val .top, []⟩ b <;> simp

theorem rstep_endMap_ws (fs : List Frame) (v : JV) (b : UInt8) (hw : isWs b = true) :
    rstep f renv (.raw (.endMap v) fs) b = .ok (.raw (.endMap v) fs) := by
  simp [rstep, rstep1, stepRaw, hw]

theorem rstep_endMap_close (fs : List Frame) (v : JV) :
    rstep f renv (.raw (.endMap v) fs) 0x7d = .ok (.ap (.base (complete fs v))) := by
  have : isWs 0x7d = false := by decide
  simp [rstep, rstep1, stepRaw, this]

theorem rstep_endMap_comma (fs : List Frame) (v : JV) :
    rstep f renv (.raw (.endMap v) fs) 0x2c = .error (.err .TrailingComma .incl) := by
  have : isWs 0x2c = false := by decide
  simp [rstep, rstep1, stepRaw, this]

theorem rstep_endMap_other (fs : List Frame) (v : JV) (b : UInt8) (hw : isWs b = false) (h1 : (b == 0x7d) = false)
    (h2 : (b == 0x2c) = false) : rstep f renv (.raw (.endMap v) fs) b = .error (.err .TrailingCharacters .incl) := by
  simp [rstep, rstep1, stepRaw, hw, h1, h2]

/-- what the closing quote does with the outcome of the nested parse -/
def closeRes (txt : Bytes) (fs : List Frame) (o : ROut) : Except RFail RSt :=
  match o with
  | .ok v => .ok (.raw (.endMap v) fs)
  | .err c k => .error (.custom (.code c) (lineCol txt k).1 (lineCol txt k).2)
  | .data e k => .error (.custom (.invalidType e) (lineCol txt k).1 (lineCol txt k).2)
  | .custom m l c => .error (.custom m l c)

theorem rstep_str (fs : List Frame) (st : StrSt) (b : UInt8) :
    rstep f renv (.raw (.str st) fs) b =
      match stepStr renv.env ⟨.str st, []⟩ st b with
      | .next s' => (match s'.mode with
          | .str st' => .ok (.raw (.str st') fs)
          | .done (.str txt) => closeRes txt fs (f txt)
          | _ => .error (.err .ExpectedSomeValue .incl))
      | .again _ => .error (.err .ExpectedSomeValue .incl)
      | .err c a => .error (.err c a) := by
  unfold rstep rstep1 stepRaw
  simp only [MachineAp.scratch]
  cases h1 : stepStr renv.env ⟨.str st, []⟩ st b with
  | next s1 =>
    simp only
    cases hm : s1.mode with
    | str st' => simp
    | done v =>
      cases v with
      | str txt =>
        simp only [nestedResult, closeRes]
        cases f txt <;> simp
      | _ => simp
    | _ => simp
  | again s1 => simp
  | err c a => simp

theorem rstep_str_stay (fs : List Frame) (st st' : StrSt) (b : UInt8)
    (h : stepStr renv.env ⟨.str st, []⟩ st b = .next ⟨.str st', []⟩) :
    rstep f renv (.raw (.str st) fs) b = .ok (.raw (.str st') fs) := by
  rw [rstep_str, h]

theorem rstep_str_close (fs : List Frame) (st : StrSt) (txt : Bytes)
    (h : stepStr renv.env ⟨.str st, []⟩ st 0x22 = .next ⟨.done (.str txt), []⟩) :
    rstep f renv (.raw (.str st) fs) 0x22 = closeRes txt fs (f txt) := by
  rw [rstep_str, h]

theorem rstep_other (fs : List Frame) (inner : St) (b : UInt8) :
    rstep f renv (.raw (.other inner) fs) b =
      match step1 renv.env inner b with
      | .next s' => (match s'.mode with
          | .done _ => .error (.data .raw .incl)
          | _ => .ok (.raw (.other s') fs))
      | .again _ => .error (.data .raw .excl)
      | .err c a => .error (.err c a) := by
  unfold rstep rstep1 stepRaw
  simp only
  cases h1 : step1 renv.env inner b with
  | next s1 =>
    simp only
    cases hm : s1.mode <;> simp
  | again s1 => simp
  | err c a => simp

end steps

/-! ## the string phase, forwards -/

theorem str_feed (f : Bytes → ROut) (renv : REnv) (fs : List Frame) : ∀ (bs : Bytes) (st st' : StrSt) (i : Nat) (r : Bytes),
    Feeds renv.env ⟨.str st, []⟩ bs ⟨.str st', []⟩ →
    rrun f renv (.raw (.str st) fs) i (bs ++ r) = rrun f renv (.raw (.str st') fs) (i + bs.length) r
  | [], st, st', i, r, h => by
    have : st = st' := by simpa [SJ.Proofs.Complete.Feeds, SJ.Proofs.Complete.feedS] using h
    subst this; simp
  | b :: bs, st, st', i, r, h => by
    unfold SJ.Proofs.Complete.Feeds at h
    simp only [SJ.Proofs.Complete.feedS] at h
    cases hs : step renv.env ⟨.str st, []⟩ b with
    | error e => rw [hs] at h; cases h
    | ok s1 =>
      rw [hs] at h
      have hstr := SJ.Proofs.MachineAp.stepStr_of_step renv.env st [] b s1 hs
      rcases SJ.Proofs.MachineAp.stepStr_next_shape renv.env _ st b s1 hstr with ⟨st1, rfl⟩ | hend
      · rw [List.cons_append, rrun_cons_ok f renv _ _ i b _ (rstep_str_stay f renv fs st st1 b hstr),
          str_feed f renv fs bs st1 st' (i + 1) r h]
        congr 1; simp; omega
      · exfalso
        obtain ⟨_, rfl⟩ := SJ.Proofs.MachineAp.endStr_scratch renv.env _ st s1 hend
        have := SJ.Proofs.MachineAp.feeds_done renv.env bs _ _ h
        cases this

/-- the outcome of a run that reads a whole string literal behind the raw token -/
theorem tail_string (f : Bytes → ROut) (renv : REnv) (hv : renv.env.tgt = .value) (fs : List Frame) (items : List StrItem)
    (txt : Bytes) (hwf : StrWF items = true) (hdec : decodeItems items = some txt)
    (hutf : renv.env.src ≠ .str → Spec.Utf8.validUtf8 txt = true) (i : Nat) (r : Bytes) :
    rrun f renv (.raw .val fs) i (strBytes items ++ r) =
      match f txt with
      | .ok v => rrun f renv (.raw (.endMap v) fs) (i + (strBytes items).length) r
      | o => escalate txt o := by
  obtain ⟨dec, e', hd, hf⟩ := scan_value renv.env hv [] false items hwf
    (SJ.Proofs.MachineAp.paired_of_decode items txt hdec) [] false
  rw [hdec] at hd
  simp only [Option.some.injEq] at hd
  subst hd
  have hclose : stepStr renv.env ⟨.str (sst (txt.reverse ++ []) false e'), []⟩ (sst (txt.reverse ++ []) false e') 0x22 =
      .next ⟨.done (.str txt), []⟩ := by
    apply SJ.Proofs.MachineAp.stepStr_of_step
    rw [step_quote_close renv.env [] (txt.reverse ++ []) e' (fun _ hs => by simpa using hutf hs)]
    simp [complete, hv]
  have h1 : strBytes items ++ r = 0x22 :: (items.flatMap StrItem.bytes ++ (0x22 :: r)) := by
    simp [strBytes]
  rw [h1, rrun_cons_ok f renv _ _ i 0x22 _ (rstep_val_quote f renv fs)]
  have hf' : Feeds renv.env ⟨.str {}, []⟩ (items.flatMap StrItem.bytes) ⟨.str (sst (txt.reverse ++ []) false e'), []⟩ := hf
  rw [str_feed f renv fs _ _ _ (i + 1) _ hf']
  have hstep := rstep_str_close f renv fs _ txt hclose
  cases hfs : f txt with
  | ok v =>
    rw [hfs] at hstep
    simp only [closeRes] at hstep
    rw [rrun_cons_ok f renv _ _ _ 0x22 r hstep]
    simp only
    congr 1
    simp [strBytes]; omega
  | err c k =>
    rw [hfs] at hstep
    simp only [closeRes] at hstep
    rw [rrun_cons_custom f renv _ _ 0x22 r _ _ _ hstep]; rfl
  | data e k =>
    rw [hfs] at hstep
    simp only [closeRes] at hstep
    rw [rrun_cons_custom f renv _ _ 0x22 r _ _ _ hstep]; rfl
  | custom m l k =>
    rw [hfs] at hstep
    simp only [closeRes] at hstep
    rw [rrun_cons_custom f renv _ _ 0x22 r _ _ _ hstep]; rfl

/-- up to the value behind the token -/
theorem tail_to_value (f : Bytes → ROut) (renv : REnv) (hrv : renv.rv = true) (hv : renv.env.tgt = .value) (fs : List Frame)
    (w₁ w₂ r : Bytes) (hw₁ : Ws w₁) (hw₂ : Ws w₂) (i : Nat) :
    rrun f renv (afterRawKey fs) i (w₁ ++ [0x3a] ++ w₂ ++ r) =
      rrun f renv (.raw .val fs) (i + w₁.length + 1 + w₂.length) r := by
  simp only [List.append_assoc]
  rw [rrun_ws f renv _ (fun b hb => rstep_afterKey_ws f renv _ b hb) w₁ i _ hw₁]
  rw [List.singleton_append, rrun_cons_ok f renv _ _ _ 0x3a _ (rstep_afterKey_colon f renv hrv hv fs)]
  rw [rrun_ws f renv _ (fun b hb => rstep_val_ws f renv fs b hb) w₂ _ _ hw₂]

/-- **a well-shaped tail whose string the nested parser accepts is read as the value of that string** — from the state
    right after a first key equal to the raw token, in any context `fs` -/
theorem raw_tail_accepts (f : Bytes → ROut) (renv : REnv) (hrv : renv.rv = true) (hv : renv.env.tgt = .value) (fs : List Frame)
    (rest txt rest' : Bytes) (h : RawTail rest txt rest') (hutf : renv.env.src ≠ .str → Spec.Utf8.validUtf8 txt = true)
    (v0 : JV) (hf : f txt = .ok v0) (i : Nat) :
    rrun f renv (afterRawKey fs) i rest =
      rrun f renv (.ap (.base (complete fs v0))) (i + (rest.length - rest'.length)) rest' := by
  obtain ⟨w₁, w₂, items, w₃, rfl, hw₁, hw₂, hw₃, hwf, hdec⟩ := h
  rw [show w₁ ++ [0x3a] ++ w₂ ++ strBytes items ++ w₃ ++ [0x7d] ++ rest' =
    w₁ ++ [0x3a] ++ w₂ ++ (strBytes items ++ (w₃ ++ ([0x7d] ++ rest'))) by simp]
  rw [tail_to_value f renv hrv hv fs w₁ w₂ _ hw₁ hw₂ i, tail_string f renv hv fs items txt hwf hdec hutf, hf]
  simp only
  rw [rrun_ws f renv _ (fun b hb => rstep_endMap_ws f renv fs v0 b hb) w₃ _ _ hw₃]
  rw [List.singleton_append, rrun_cons_ok f renv _ _ _ 0x7d _ (rstep_endMap_close f renv fs v0)]
  congr 1
  simp; omega

/-! ## the specific errors -/

/-- the value behind the token is an array or an object -/
theorem tail_container (f : Bytes → ROut) (renv : REnv) (hrv : renv.rv = true) (hv : renv.env.tgt = .value) (fs : List Frame)
    (w₁ w₂ r : Bytes) (b : UInt8) (hb : b = 0x5b ∨ b = 0x7b) (hw₁ : Ws w₁) (hw₂ : Ws w₂) (i : Nat) :
    rrun f renv (afterRawKey fs) i (w₁ ++ [0x3a] ++ w₂ ++ b :: r) =
      .data .raw (errIdx renv.env .excl (i + w₁.length + 1 + w₂.length)) := by
  rw [tail_to_value f renv hrv hv fs w₁ w₂ _ hw₁ hw₂ i]
  exact rrun_cons_data f renv _ _ b r .raw .excl (rstep_val_container f renv fs b (by rcases hb with rfl | rfl <;> decide))

/-- the nested parser rejects the decoded string: its failure, escalated -/
theorem tail_nested_error (f : Bytes → ROut) (renv : REnv) (hrv : renv.rv = true) (hv : renv.env.tgt = .value)
    (fs : List Frame) (w₁ w₂ r : Bytes) (items : List StrItem) (txt : Bytes) (hw₁ : Ws w₁) (hw₂ : Ws w₂)
    (hwf : StrWF items = true) (hdec : decodeItems items = some txt)
    (hutf : renv.env.src ≠ .str → Spec.Utf8.validUtf8 txt = true) (hf : ∀ v, f txt ≠ .ok v) (i : Nat) :
    rrun f renv (afterRawKey fs) i (w₁ ++ [0x3a] ++ w₂ ++ strBytes items ++ r) = escalate txt (f txt) := by
  rw [List.append_assoc (w₁ ++ [0x3a] ++ w₂), tail_to_value f renv hrv hv fs w₁ w₂ _ hw₁ hw₂ i,
    tail_string f renv hv fs items txt hwf hdec hutf]
  cases hfs : f txt with
  | ok v => exact absurd hfs (hf v)
  | _ => rfl

/-- a second member (or anything but `}`) after the string -/
theorem tail_extra (f : Bytes → ROut) (renv : REnv) (hrv : renv.rv = true) (hv : renv.env.tgt = .value) (fs : List Frame)
    (w₁ w₂ w₃ r : Bytes) (items : List StrItem) (txt : Bytes) (b : UInt8) (hw₁ : Ws w₁) (hw₂ : Ws w₂) (hw₃ : Ws w₃)
    (hwf : StrWF items = true) (hdec : decodeItems items = some txt)
    (hutf : renv.env.src ≠ .str → Spec.Utf8.validUtf8 txt = true) (v0 : JV) (hf : f txt = .ok v0)
    (hbw : isWs b = false) (hb : (b == 0x7d) = false) (i : Nat) :
    rrun f renv (afterRawKey fs) i (w₁ ++ [0x3a] ++ w₂ ++ strBytes items ++ w₃ ++ b :: r) =
      .err (if b == 0x2c then .TrailingComma else .TrailingCharacters)
        (i + w₁.length + 1 + w₂.length + (strBytes items).length + w₃.length + 1) := by
  rw [show w₁ ++ [0x3a] ++ w₂ ++ strBytes items ++ w₃ ++ b :: r = w₁ ++ [0x3a] ++ w₂ ++ (strBytes items ++ (w₃ ++ b :: r)) by simp]
  rw [tail_to_value f renv hrv hv fs w₁ w₂ _ hw₁ hw₂ i, tail_string f renv hv fs items txt hwf hdec hutf, hf]
  simp only
  rw [rrun_ws f renv _ (fun b hb => rstep_endMap_ws f renv fs v0 b hb) w₃ _ _ hw₃]
  by_cases hc : (b == 0x2c) = true
  · have : b = 0x2c := by simpa using hc
    subst this
    rw [rrun_cons_err f renv _ _ 0x2c r _ _ (rstep_endMap_comma f renv fs v0)]
    cases hsrc : renv.env.src <;> simp [errIdx, hsrc]
  · have hc' : (b == 0x2c) = false := by simpa using hc
    rw [rrun_cons_err f renv _ _ b r _ _ (rstep_endMap_other f renv fs v0 b hbw hb hc')]
    cases hsrc : renv.env.src <;> simp [errIdx, hsrc, hc']

/-- the input ends after the string -/
theorem tail_eof (f : Bytes → ROut) (renv : REnv) (hrv : renv.rv = true) (hv : renv.env.tgt = .value) (fs : List Frame)
    (w₁ w₂ w₃ : Bytes) (items : List StrItem) (txt : Bytes) (hw₁ : Ws w₁) (hw₂ : Ws w₂) (hw₃ : Ws w₃)
    (hwf : StrWF items = true) (hdec : decodeItems items = some txt)
    (hutf : renv.env.src ≠ .str → Spec.Utf8.validUtf8 txt = true) (v0 : JV) (hf : f txt = .ok v0) (i : Nat) :
    rrun f renv (afterRawKey fs) i (w₁ ++ [0x3a] ++ w₂ ++ strBytes items ++ w₃) =
      .err .EofWhileParsingObject (i + w₁.length + 1 + w₂.length + (strBytes items).length + w₃.length) := by
  rw [show w₁ ++ [0x3a] ++ w₂ ++ strBytes items ++ w₃ = w₁ ++ [0x3a] ++ w₂ ++ (strBytes items ++ (w₃ ++ [])) by simp]
  rw [tail_to_value f renv hrv hv fs w₁ w₂ _ hw₁ hw₂ i, tail_string f renv hv fs items txt hwf hdec hutf, hf]
  simp only
  rw [rrun_ws f renv _ (fun b hb => rstep_endMap_ws f renv fs v0 b hb) w₃ _ _ hw₃, rrun_nil]
  rfl

/-! ## backwards: an accepted tail is well-shaped and its string is accepted by the nested parser -/

/-- `peek_invalid_type` never succeeds -/
theorem other_not_ok (f : Bytes → ROut) (renv : REnv) (fs : List Frame) : ∀ (bs : Bytes) (inner : St) (i : Nat) (v : JV),
    rrun f renv (.raw (.other inner) fs) i bs ≠ .ok v
  | [], inner, i, v, h => by
    rw [rrun_nil] at h
    simp only [MachineRv.finish] at h
    cases hf : finish renv.env inner <;> rw [hf] at h <;> cases h
  | b :: bs, inner, i, v, h => by
    obtain ⟨s', hs, hr⟩ := rrun_cons_ok' f renv _ i b bs v h
    rw [rstep_other] at hs
    cases h1 : step1 renv.env inner b with
    | next s1 =>
      rw [h1] at hs
      simp only at hs
      split at hs
      · cases hs
      · simp only [Except.ok.injEq] at hs
        subst hs
        exact other_not_ok f renv fs bs s1 (i + 1) v hr
    | again s1 => rw [h1] at hs; cases hs
    | err c a => rw [h1] at hs; cases hs

theorem endMap_sound (f : Bytes → ROut) (renv : REnv) (fs : List Frame) (v0 : JV) : ∀ (bs : Bytes) (i : Nat) (v : JV),
    rrun f renv (.raw (.endMap v0) fs) i bs = .ok v →
    ∃ w r, bs = w ++ 0x7d :: r ∧ Ws w ∧ rrun f renv (.ap (.base (complete fs v0))) (i + w.length + 1) r = .ok v
  | [], i, v, h => by rw [rrun_nil] at h; cases h
  | b :: bs, i, v, h => by
    obtain ⟨s', hs, hr⟩ := rrun_cons_ok' f renv _ i b bs v h
    by_cases hw : isWs b = true
    · rw [rstep_endMap_ws f renv fs v0 b hw] at hs
      simp only [Except.ok.injEq] at hs; subst hs
      obtain ⟨w, r, rfl, hw', hr'⟩ := endMap_sound f renv fs v0 bs (i + 1) v hr
      refine ⟨b :: w, r, rfl, ?_, ?_⟩
      · simp only [Ws, List.all_cons, Bool.and_eq_true]
        exact ⟨by rw [← isWs_eq]; exact hw, hw'⟩
      · rw [← hr']; congr 1; simp; omega
    · have hw' : isWs b = false := by simpa using hw
      by_cases h1 : (b == 0x7d) = true
      · have : b = 0x7d := by simpa using h1
        subst this
        rw [rstep_endMap_close f renv fs v0] at hs
        simp only [Except.ok.injEq] at hs; subst hs
        exact ⟨[], bs, rfl, by simp [Ws], by simpa using hr⟩
      · by_cases h2 : (b == 0x2c) = true
        · have : b = 0x2c := by simpa using h2
          subst this
          rw [rstep_endMap_comma f renv fs v0] at hs; cases hs
        · rw [rstep_endMap_other f renv fs v0 b hw' (by simpa using h1) (by simpa using h2)] at hs; cases hs

/-- the closing quote passed `as_str`: on a byte source the decoded text is valid UTF-8 -/
theorem endStr_utf8 (env : Env) (s : St) (st : StrSt) (s' : St) (h : endStr env s st = .next s') (hv : env.tgt = .value)
    (hs : env.src ≠ .str) : Spec.Utf8.validUtf8 st.out.reverse = true := by
  unfold endStr at h
  simp only at h
  split at h
  · cases h
  · rename_i hbad
    cases hx : Spec.Utf8.validUtf8 st.out.reverse with
    | true => rfl
    | false =>
      exfalso
      apply hbad
      have : (env.src != .str) = true := by simpa using hs
      simp [hv, this, hx]

theorem str_sound (f : Bytes → ROut) (renv : REnv) (hv : renv.env.tgt = .value) (fs : List Frame) : ∀ (bs : Bytes) (st : StrSt)
    (items : List StrItem) (tail : Bytes) (i : Nat) (v : JV), st.isKey = false → StrInv renv.env st items tail →
    rrun f renv (.raw (.str st) fs) i bs = .ok v →
    ∃ cont items' txt r v0, bs = cont ++ 0x22 :: r ∧ items.flatMap StrItem.bytes ++ tail ++ cont = items'.flatMap StrItem.bytes ∧
      StrWF items' = true ∧ decodeItems items' = some txt ∧ (renv.env.src ≠ .str → Spec.Utf8.validUtf8 txt = true) ∧
      f txt = .ok v0 ∧ rrun f renv (.raw (.endMap v0) fs) (i + cont.length + 1) r = .ok v
  | [], st, items, tail, i, v, _, _, h => by rw [rrun_nil] at h; cases h
  | b :: bs, st, items, tail, i, v, hk, hinv, h => by
    obtain ⟨s', hs, hr⟩ := rrun_cons_ok' f renv _ i b bs v h
    rw [rstep_str] at hs
    cases h1 : stepStr renv.env ⟨.str st, []⟩ st b with
    | err c a => rw [h1] at hs; cases hs
    | again s1 => rw [h1] at hs; cases hs
    | next s1 =>
      rw [h1] at hs
      simp only at hs
      rcases stepStr_next renv.env _ st b s1 items tail hinv h1 with
        ⟨st', items', tail', rfl, hk', hinv', hflat⟩ | ⟨hb, htail, hend⟩
      · simp only [Except.ok.injEq] at hs
        subst hs
        obtain ⟨cont, items'', txt, r, v0, rfl, hfl, hwf, hdec, hutf, hfs, hrun⟩ :=
          str_sound f renv hv fs bs st' items' tail' (i + 1) v (hk' ▸ hk) hinv' hr
        refine ⟨b :: cont, items'', txt, r, v0, rfl, ?_, hwf, hdec, hutf, hfs, ?_⟩
        · rw [← hfl, hflat]; simp
        · rw [← hrun]; congr 1; simp; omega
      · subst hb htail
        have hutf := endStr_utf8 renv.env _ st s1 hend hv
        obtain ⟨_, rfl⟩ := SJ.Proofs.MachineAp.endStr_scratch renv.env _ st s1 hend
        simp only [hv, if_true] at hs
        have hd : decodeItems items = some st.out.reverse := (hinv.sv.val hv).1
        cases hfs : f st.out.reverse with
        | ok v0 =>
          rw [hfs] at hs
          simp only [closeRes, Except.ok.injEq] at hs
          subst hs
          exact ⟨[], items, st.out.reverse, bs, v0, rfl, by simp, hinv.sv.wf, hd, hutf, hfs, by simpa using hr⟩
        | err c k => rw [hfs] at hs; cases hs
        | data e k => rw [hfs] at hs; cases hs
        | custom m l k => rw [hfs] at hs; cases hs

theorem val_sound (f : Bytes → ROut) (renv : REnv) (hv : renv.env.tgt = .value) (fs : List Frame) :
    ∀ (bs : Bytes) (i : Nat) (v : JV), rrun f renv (.raw .val fs) i bs = .ok v →
    ∃ w items txt r v0, bs = w ++ strBytes items ++ r ∧ Ws w ∧ StrWF items = true ∧ decodeItems items = some txt ∧
      (renv.env.src ≠ .str → Spec.Utf8.validUtf8 txt = true) ∧ f txt = .ok v0 ∧
      rrun f renv (.raw (.endMap v0) fs) (i + w.length + (strBytes items).length) r = .ok v
  | [], i, v, h => by rw [rrun_nil] at h; cases h
  | b :: bs, i, v, h => by
    obtain ⟨s', hs, hr⟩ := rrun_cons_ok' f renv _ i b bs v h
    by_cases hw : isWs b = true
    · rw [rstep_val_ws f renv fs b hw] at hs
      simp only [Except.ok.injEq] at hs; subst hs
      obtain ⟨w, items, txt, r, v0, rfl, hw', hwf, hdec, hutf, hfs, hrun⟩ := val_sound f renv hv fs bs (i + 1) v hr
      refine ⟨b :: w, items, txt, r, v0, by simp, ?_, hwf, hdec, hutf, hfs, ?_⟩
      · simp only [Ws, List.all_cons, Bool.and_eq_true]
        exact ⟨by rw [← isWs_eq]; exact hw, hw'⟩
      · rw [← hrun]; congr 1; simp; omega
    · have hw' : isWs b = false := by simpa using hw
      by_cases hq : (b == 0x22) = true
      · have : b = 0x22 := by simpa using hq
        subst this
        rw [rstep_val_quote f renv fs] at hs
        simp only [Except.ok.injEq] at hs; subst hs
        obtain ⟨cont, items, txt, r, v0, rfl, hfl, hwf, hdec, hutf, hfs, hrun⟩ :=
          str_sound f renv hv fs bs {} [] [] (i + 1) v rfl (StrInv.init renv.env false) hr
        simp only [List.flatMap_nil, List.nil_append] at hfl
        subst hfl
        refine ⟨[], items, txt, r, v0, by simp [strBytes], by simp [Ws], hwf, hdec, hutf, hfs, ?_⟩
        rw [← hrun]; congr 1; simp [strBytes]; omega
      · exfalso
        have hq' : (b == 0x22) = false := by simpa using hq
        by_cases hc : (b == 0x5b || b == 0x7b) = true
        · rw [rstep_val_container f renv fs b hc] at hs; cases hs
        · rw [rstep_val_scalar f renv fs b hw' hq' (by simpa using hc)] at hs
          cases h1 : startValue renv.env ⟨.val .top, []⟩ b with
          | next s1 =>
            rw [h1] at hs
            simp only [Except.ok.injEq] at hs
            subst hs
            exact other_not_ok f renv fs bs s1 (i + 1) v hr
          | again s1 => rw [h1] at hs; cases hs
          | err c a => rw [h1] at hs; cases hs

theorem afterKey_sound (f : Bytes → ROut) (renv : REnv) (hrv : renv.rv = true) (hv : renv.env.tgt = .value) (fs : List Frame) :
    ∀ (bs : Bytes) (i : Nat) (v : JV), rrun f renv (afterRawKey fs) i bs = .ok v →
    ∃ w r, bs = w ++ 0x3a :: r ∧ Ws w ∧ rrun f renv (.raw .val fs) (i + w.length + 1) r = .ok v
  | [], i, v, h => by
    rw [rrun_nil] at h
    simp [MachineRv.finish, MachineAp.finish, finish, finishMode] at h
  | b :: bs, i, v, h => by
    obtain ⟨s', hs, hr⟩ := rrun_cons_ok' f renv _ i b bs v h
    by_cases hw : isWs b = true
    · rw [rstep_afterKey_ws f renv _ b hw] at hs
      simp only [Except.ok.injEq] at hs; subst hs
      obtain ⟨w, r, rfl, hw', hrun⟩ := afterKey_sound f renv hrv hv fs bs (i + 1) v hr
      refine ⟨b :: w, r, rfl, ?_, ?_⟩
      · simp only [Ws, List.all_cons, Bool.and_eq_true]
        exact ⟨by rw [← isWs_eq]; exact hw, hw'⟩
      · rw [← hrun]; congr 1; simp; omega
    · have hw' : isWs b = false := by simpa using hw
      by_cases hc : (b == 0x3a) = true
      · have : b = 0x3a := by simpa using hc
        subst this
        rw [rstep_afterKey_colon f renv hrv hv fs] at hs
        simp only [Except.ok.injEq] at hs; subst hs
        exact ⟨[], bs, rfl, by simp [Ws], by simpa using hr⟩
      · rw [rstep_afterKey_other f renv _ b hw' (by simpa using hc)] at hs; cases hs

/-- **whatever is accepted after a first key equal to the raw token is a well-shaped tail whose string the nested parser
    accepts**, and the run continues with the VALUE of that string in place of the object -/
theorem raw_tail_sound (f : Bytes → ROut) (renv : REnv) (hrv : renv.rv = true) (hv : renv.env.tgt = .value) (fs : List Frame)
    (rest : Bytes) (i : Nat) (v : JV) (h : rrun f renv (afterRawKey fs) i rest = .ok v) :
    ∃ txt rest' v0, RawTail rest txt rest' ∧ (renv.env.src ≠ .str → Spec.Utf8.validUtf8 txt = true) ∧ f txt = .ok v0 ∧
      rrun f renv (.ap (.base (complete fs v0))) (i + (rest.length - rest'.length)) rest' = .ok v := by
  obtain ⟨w₁, r₁, rfl, hw₁, h1⟩ := afterKey_sound f renv hrv hv fs rest i v h
  obtain ⟨w₂, items, txt, r₂, v0, rfl, hw₂, hwf, hdec, hutf, hfs, h2⟩ := val_sound f renv hv fs r₁ _ v h1
  obtain ⟨w₃, r₃, rfl, hw₃, h3⟩ := endMap_sound f renv fs v0 r₂ _ v h2
  refine ⟨txt, r₃, v0, ⟨w₁, w₂, items, w₃, by simp, hw₁, hw₂, hw₃, hwf, hdec⟩, hutf, hfs, ?_⟩
  rw [← h3]; congr 1; simp; omega

end SJ.Proofs.MachineRv
