import SJ.Proofs.SerEscape
import SJ.Proofs.SerValue
import SJ.Proofs.Number
/-!
# C04 helper lemmas, serializer: what is written for a `Value` is one RFC 8259 `value`

`ser_value`: for either formatter (pretty: any indent string made of JSON whitespace) and **any**
formatter state, serialising `ofValue v` succeeds and the bytes written are derivable in the grammar
with syntax tree `cstOf (imageOfValue ext v)`.

This is the `Value` fragment of C03, proved here in a *layout-independent* form: the only facts used
about the formatter literals of `SJ.Gen.Ser` (re-extracted from `src/ser.rs` on every check) are that
each is its structural character, possibly followed by JSON whitespace, or pure whitespace
(`gen_tokens`, by evaluation). So a change of the pretty layout that keeps the output JSON — another
gap after `:`, other line breaks — does not disturb C04, while C03 (which pins the layout) reports
it. No invariant on `current_indent` / `has_value` is needed: whatever they are, only whitespace
is written between the tokens.
-/
namespace SJ.Proofs.RoundTripSer
open SJ SJ.Model.Ser SJ.Model.EscapeLocal SJ.Spec.Grammar SJ.Spec.Denote SJ.Spec.Image SJ.Spec.Program
open SJ.Proofs.SerEscape SJ.Proofs.SerValue

/-! ## the formatter literals: a structural character and whitespace -/

/-- `bs` is the character `c` followed by whitespace -/
def tokWs (c : UInt8) (bs : Bytes) : Bool := bs.head? == some c && bs.tail.all isWs

theorem tokWs_spec {c : UInt8} {bs : Bytes} (h : tokWs c bs = true) : ∃ w, Ws w ∧ bs = [c] ++ w := by
  cases bs with
  | nil => simp [tokWs] at h
  | cons b r =>
    simp only [tokWs, List.head?_cons, List.tail_cons, Bool.and_eq_true, beq_iff_eq, Option.some.injEq] at h
    exact ⟨r, h.2, by simp [h.1]⟩

theorem gen_tokens :
    Gen.cBeginArray = [0x5b] ∧ Gen.pBeginArray = [0x5b] ∧ Gen.cEndArray = [0x5d] ∧ Gen.pEndArray = [0x5d] ∧
    Gen.cBeginObject = [0x7b] ∧ Gen.pBeginObject = [0x7b] ∧ Gen.cEndObject = [0x7d] ∧ Gen.pEndObject = [0x7d] ∧
    tokWs 0x2c Gen.cArrayValueRest = true ∧ tokWs 0x2c Gen.pArrayValueRest = true ∧
    tokWs 0x2c Gen.cObjectKeyRest = true ∧ tokWs 0x2c Gen.pObjectKeyRest = true ∧
    tokWs 0x3a Gen.cObjectValue = true ∧ tokWs 0x3a Gen.pObjectValue = true ∧
    Ws Gen.pEndArrayNl ∧ Ws Gen.pEndObjectNl ∧ Ws Gen.pArrayValueFirst ∧ Ws Gen.pObjectKeyFirst ∧
    Gen.serNull = litNull ∧ Gen.serTrue = litTrue ∧ Gen.serFalse = litFalse := by
  decide

/-- the formatter writes JSON whitespace only as indentation -/
def FmtWs : Fmt → Prop
  | .compact => True
  | .pretty indent => Ws indent

theorem ws_append {a b : Bytes} (ha : Ws a) (hb : Ws b) : Ws (a ++ b) := by
  unfold Ws at *; simp [List.all_append, ha, hb]

theorem ws_indent (n : Nat) (ind : Bytes) (h : Ws ind) : Ws (indentBufs n ind).flatten := by
  unfold Ws at *
  simp only [indentBufs, List.all_flatten, List.all_replicate]
  cases n <;> simp [h]

theorem ws_nil : Ws [] := rfl

section
variable (f : Fmt) (hf : FmtWs f)
include hf

theorem beginArray_bufs (st : FState) : (beginArray f st).bufs.flatten = [0x5b] := by
  cases f <;> simp [beginArray, gen_tokens.1, gen_tokens.2.1]

theorem beginObject_bufs (st : FState) : (beginObject f st).bufs.flatten = [0x7b] := by
  obtain ⟨_, _, _, _, h5, h6, _⟩ := gen_tokens
  cases f <;> simp [beginObject, h5, h6]

theorem endArray_bufs (st : FState) : ∃ w, Ws w ∧ (endArray f st).bufs.flatten = w ++ [0x5d] := by
  obtain ⟨_, _, h3, h4, _, _, _, _, _, _, _, _, _, _, h15, _⟩ := gen_tokens
  cases f with
  | compact => exact ⟨[], ws_nil, by simp [endArray, h3]⟩
  | pretty ind =>
    simp only [endArray]
    split
    · exact ⟨Gen.pEndArrayNl ++ (indentBufs st.decIndent.currentIndent ind).flatten, ws_append h15 (ws_indent _ ind hf), by simp [h4]⟩
    · exact ⟨[], ws_nil, by simp [h4]⟩

theorem endObject_bufs (st : FState) : ∃ w, Ws w ∧ (endObject f st).bufs.flatten = w ++ [0x7d] := by
  obtain ⟨_, _, _, _, _, _, h7, h8, _, _, _, _, _, _, _, h16, _⟩ := gen_tokens
  cases f with
  | compact => exact ⟨[], ws_nil, by simp [endObject, h7]⟩
  | pretty ind =>
    simp only [endObject]
    split
    · exact ⟨Gen.pEndObjectNl ++ (indentBufs st.decIndent.currentIndent ind).flatten, ws_append h16 (ws_indent _ ind hf), by simp [h8]⟩
    · exact ⟨[], ws_nil, by simp [h8]⟩

/-- before an element: nothing or `,`, then whitespace -/
theorem beginArrayValue_bufs (first : Bool) (st : FState) :
    ∃ w, Ws w ∧ (beginArrayValue f first st).bufs.flatten = (if first then [] else [0x2c]) ++ w := by
  obtain ⟨_, _, _, _, _, _, _, _, h9, h10, _, _, _, _, _, _, h17, _⟩ := gen_tokens
  obtain ⟨w9, hw9, e9⟩ := tokWs_spec h9
  obtain ⟨w10, hw10, e10⟩ := tokWs_spec h10
  cases f with
  | compact =>
    cases first
    · exact ⟨w9, hw9, by simp [beginArrayValue, e9]⟩
    · exact ⟨[], ws_nil, by simp [beginArrayValue]⟩
  | pretty ind =>
    cases first
    · exact ⟨w10 ++ (indentBufs st.currentIndent ind).flatten, ws_append hw10 (ws_indent _ ind hf),
        by simp [beginArrayValue, e10]⟩
    · exact ⟨Gen.pArrayValueFirst ++ (indentBufs st.currentIndent ind).flatten, ws_append h17 (ws_indent _ ind hf),
        by simp [beginArrayValue]⟩

theorem beginObjectKey_bufs (first : Bool) (st : FState) :
    ∃ w, Ws w ∧ (beginObjectKey f first st).bufs.flatten = (if first then [] else [0x2c]) ++ w := by
  obtain ⟨_, _, _, _, _, _, _, _, _, _, h11, h12, _, _, _, _, _, h18, _⟩ := gen_tokens
  obtain ⟨w11, hw11, e11⟩ := tokWs_spec h11
  obtain ⟨w12, hw12, e12⟩ := tokWs_spec h12
  cases f with
  | compact =>
    cases first
    · exact ⟨w11, hw11, by simp [beginObjectKey, e11]⟩
    · exact ⟨[], ws_nil, by simp [beginObjectKey]⟩
  | pretty ind =>
    cases first
    · exact ⟨w12 ++ (indentBufs st.currentIndent ind).flatten, ws_append hw12 (ws_indent _ ind hf),
        by simp [beginObjectKey, e12]⟩
    · exact ⟨Gen.pObjectKeyFirst ++ (indentBufs st.currentIndent ind).flatten, ws_append h18 (ws_indent _ ind hf),
        by simp [beginObjectKey]⟩

theorem beginObjectValue_bufs (st : FState) :
    ∃ w, Ws w ∧ (beginObjectValue f st).bufs.flatten = [0x3a] ++ w := by
  obtain ⟨_, _, _, _, _, _, _, _, _, _, _, _, h13, h14, _⟩ := gen_tokens
  obtain ⟨w13, hw13, e13⟩ := tokWs_spec h13
  obtain ⟨w14, hw14, e14⟩ := tokWs_spec h14
  cases f with
  | compact => exact ⟨w13, hw13, by simp [beginObjectValue, e13]⟩
  | pretty ind => exact ⟨w14, hw14, by simp [beginObjectValue, e14]⟩

omit hf in
theorem endArrayValue_bufs (st : FState) : (endArrayValue f st).bufs = [] := by cases f <;> rfl
omit hf in
theorem endObjectValue_bufs (st : FState) : (endObjectValue f st).bufs = [] := by cases f <;> rfl
omit hf in
theorem endObjectKey_bufs (st : FState) : (endObjectKey f st).bufs = [] := by cases f <;> rfl

end


/-! ## sequences and maps: the `Compound` bookkeeping -/

theorem serializeSeq_zero (f : Fmt) (st : FState) :
    serializeSeq f (some 0) st =
      { bufs := (beginArray f st).bufs ++ (endArray f (beginArray f st).st).bufs, state := .empty,
        st := (endArray f (beginArray f st).st).st } := rfl

theorem serializeSeq_succ (f : Fmt) (n : Nat) (st : FState) :
    serializeSeq f (some (n + 1)) st =
      { bufs := (beginArray f st).bufs, state := .first, st := (beginArray f st).st } := by
  simp [serializeSeq]

theorem serializeMap_zero (f : Fmt) (st : FState) :
    serializeMap f (some 0) st =
      { bufs := (beginObject f st).bufs ++ (endObject f (beginObject f st).st).bufs, state := .empty,
        st := (endObject f (beginObject f st).st).st } := rfl

theorem serializeMap_succ (f : Fmt) (n : Nat) (st : FState) :
    serializeMap f (some (n + 1)) st =
      { bufs := (beginObject f st).bufs, state := .first, st := (beginObject f st).st } := by
  simp [serializeMap]

/-- what `serialize_element` calls write for a non-empty element list: nothing or `,` (first element or
    not), whitespace, then the elements -/
def ElemsOut (state : State) (bs : Bytes) (ts : List CST) : Prop :=
  ∃ w body, Ws w ∧ bs = (if state == .first then [] else [0x2c]) ++ w ++ body ∧ Elems body ts

def MembersOut (state : State) (bs : Bytes) (ms : List (List StrItem × CST)) : Prop :=
  ∃ w body, Ws w ∧ bs = (if state == .first then [] else [0x2c]) ++ w ++ body ∧ Members body ms

theorem numDerives (t : Bytes) (h : IsNumber t) : Derives t (cstOf (numOf t)) := by
  have := Proofs.Number.splitNumber_of_isNumber t h
  simp only [numOf, cstOf]
  have d := Derives.num (SJ.Spec.Number.splitNumber t) this.1
  rwa [this.2] at d

section
variable (ext : Ext) (hext : ExtOK ext) (f : Fmt) (hf : FmtWs f)
include hext hf
set_option linter.unusedSectionVars false

mutual
theorem ser_value : ∀ (v : JV) (st : FState), valueLitsOK v = true →
    ∃ r, ser ext f (ofValue v) st = .ok r ∧ Derives r.bufs.flatten (cstOf (imageOfValue ext v))
  | .null, st, _ => by
    refine ⟨_, rfl, ?_⟩
    have h := gen_tokens.2.2.2.2.2.2.2.2.2.2.2.2.2.2.2.2.2.2.1
    simp only [write, writeNull, h, List.flatten_cons, List.flatten_nil, List.append_nil, imageOfValue, cstOf]
    exact Derives.null
  | .bool true, st, _ => by
    refine ⟨_, rfl, ?_⟩
    have h := gen_tokens.2.2.2.2.2.2.2.2.2.2.2.2.2.2.2.2.2.2.2.1
    simp only [write, writeBool, h, if_true, List.flatten_cons, List.flatten_nil, List.append_nil, imageOfValue, cstOf]
    exact Derives.true_
  | .bool false, st, _ => by
    refine ⟨_, rfl, ?_⟩
    have h := gen_tokens.2.2.2.2.2.2.2.2.2.2.2.2.2.2.2.2.2.2.2.2
    simp only [write, writeBool, h, Bool.false_eq_true, if_false, List.flatten_cons, List.flatten_nil, List.append_nil,
      imageOfValue, cstOf]
    exact Derives.false_
  | .num (.pos n), st, _ => by
    refine ⟨_, rfl, ?_⟩
    simp only [write, List.flatten_cons, List.flatten_nil, List.append_nil, imageOfValue]
    exact numDerives _ (by rw [hext.itoa_decimal]; exact Proofs.Number.decimal_isNumber _)
  | .num (.neg n), st, _ => by
    refine ⟨_, rfl, ?_⟩
    simp only [write, List.flatten_cons, List.flatten_nil, List.append_nil, imageOfValue]
    exact numDerives _ (by rw [hext.itoa_decimal]; exact Proofs.Number.decimal_isNumber _)
  | .num (.float b), st, _ => by
    refine ⟨_, rfl, ?_⟩
    simp only [write, List.flatten_cons, List.flatten_nil, List.append_nil, imageOfValue]
    cases hb : finite64 b with
    | true => simp only [if_true]; exact numDerives _ (hext.ryu64_number b hb)
    | false =>
      have h := gen_tokens.2.2.2.2.2.2.2.2.2.2.2.2.2.2.2.2.2.2.1
      simp only [Bool.false_eq_true, if_false, writeNull, h, cstOf]
      exact Derives.null
  | .num (.lit s), st, hl => by
    refine ⟨_, rfl, ?_⟩
    simp only [write, List.flatten_cons, List.flatten_nil, List.append_nil, imageOfValue]
    exact numDerives _ ((Proofs.Number.isNumber_iff s).1 (by simpa [valueLitsOK] using hl))
  | .str s, st, _ => by
    refine ⟨_, rfl, ?_⟩
    simp only [write, escapeStr_spec, imageOfValue, cstOf, quote]
    exact Derives.str _ (strItems_wf s)
  | .arr xs, st, hl => by
    simp only [valueLitsOK] at hl
    cases xs with
    | nil =>
      obtain ⟨w, hw, he⟩ := endArray_bufs f hf (beginArray f st).st
      refine ⟨_, by simp only [ofValue, ofValues, List.length_nil, ser, serializeSeq_zero, serElems, finishSeq]; rfl, ?_⟩
      simp only [W.andThen, seqEnd, write, List.append_nil, List.flatten_append, beginArray_bufs f hf, he,
        imageOfValue, imageOfValues, cstOf, cstOfList]
      exact Derives.arrEmpty w hw
    | cons x xs' =>
      obtain ⟨t, ht, hst, hout⟩ := ser_values (x :: xs') .first (beginArray f st).st hl (by simp)
      obtain ⟨w, body, hw, hb, hel⟩ := hout
      obtain ⟨w', hw', he⟩ := endArray_bufs f hf t.st
      refine ⟨_, by simp only [ofValue, List.length_cons, ser, serializeSeq_succ, ht, finishSeq]; rfl, ?_⟩
      simp only [W.andThen, seqEnd, hst, List.flatten_append, beginArray_bufs f hf, he, hb, imageOfValue, cstOf]
      have := Derives.arr w body w' _ hw hw' (by simp [imageOfValues, cstOfList]) hel
      simpa [List.append_assoc] using this
  | .obj kvs, st, hl => by
    simp only [valueLitsOK] at hl
    cases kvs with
    | nil =>
      obtain ⟨w, hw, he⟩ := endObject_bufs f hf (beginObject f st).st
      refine ⟨_, by simp only [ofValue, ofMembers, List.length_nil, ser, serializeMap_zero, serEntries, finishMap]; rfl, ?_⟩
      simp only [W.andThen, mapEnd, write, List.append_nil, List.flatten_append, beginObject_bufs f hf, he,
        imageOfValue, imageOfMembers, cstOf, cstOfMembers]
      exact Derives.objEmpty w hw
    | cons kv kvs' =>
      obtain ⟨t, ht, hst, hout⟩ := ser_members (kv :: kvs') .first (beginObject f st).st hl (by simp)
      obtain ⟨w, body, hw, hb, hel⟩ := hout
      obtain ⟨w', hw', he⟩ := endObject_bufs f hf t.st
      refine ⟨_, by simp only [ofValue, List.length_cons, ser, serializeMap_succ, ht, finishMap]; rfl, ?_⟩
      simp only [W.andThen, mapEnd, hst, List.flatten_append, beginObject_bufs f hf, he, hb, imageOfValue, cstOf]
      have := Derives.obj w body w' _ hw hw' (by obtain ⟨k, x⟩ := kv; simp [imageOfMembers, cstOfMembers]) hel
      simpa [List.append_assoc] using this
theorem ser_values : ∀ (xs : List JV) (state : State) (st : FState), valuesLitsOK xs = true → xs ≠ [] →
    ∃ t, serElems ext f (ofValues xs) state st = .ok t ∧ t.state = .rest ∧
      ElemsOut state t.bufs.flatten (cstOfList (imageOfValues ext xs))
  | [], _, _, _, h => absurd rfl h
  | x :: xs, state, st, hl, _ => by
    simp only [valuesLitsOK, Bool.and_eq_true] at hl
    obtain ⟨w, hw, ha⟩ := beginArrayValue_bufs f hf (state == .first) st
    obtain ⟨r, hr, hd⟩ := ser_value x (beginArrayValue f (state == .first) st).st hl.1
    cases xs with
    | nil =>
      refine ⟨_, by simp only [ofValues, serElems, hr]; rfl, rfl, w, r.bufs.flatten, hw, ?_, ?_⟩
      · simp [ha, endArrayValue_bufs]
      · simpa [imageOfValues, cstOfList] using Elems.one _ _ hd
    | cons y ys =>
      obtain ⟨t, ht, hst, w2, body, hw2, hb, hel⟩ :=
        ser_values (y :: ys) .rest (endArrayValue f r.st).st hl.2 (by simp)
      refine ⟨{ bufs := (beginArrayValue f (state == .first) st).bufs ++ r.bufs ++ (endArrayValue f r.st).bufs ++ t.bufs,
                state := t.state, st := t.st },
        by simp only [ofValues, serElems, hr] at ht ⊢; simp only [ht], hst, w,
        r.bufs.flatten ++ [] ++ [0x2c] ++ w2 ++ body, hw, ?_, ?_⟩
      · simp only [List.flatten_append, ha, endArrayValue_bufs, hb]
        simp [List.append_assoc]
      · have := Elems.cons _ [] w2 body _ _ hd ws_nil hw2 hel
        simpa [imageOfValues, cstOfList] using this
theorem ser_members : ∀ (kvs : List (Bytes × JV)) (state : State) (st : FState), membersLitsOK kvs = true → kvs ≠ [] →
    ∃ t, serEntries ext f (ofMembers kvs) state st = .ok t ∧ t.state = .rest ∧
      MembersOut state t.bufs.flatten (cstOfMembers (imageOfMembers ext kvs))
  | [], _, _, _, h => absurd rfl h
  | (k, x) :: kvs, state, st, hl, _ => by
    simp only [membersLitsOK, Bool.and_eq_true] at hl
    obtain ⟨w, hw, ha⟩ := beginObjectKey_bufs f hf (state == .first) st
    obtain ⟨wv, hwv, hv⟩ := beginObjectValue_bufs f hf (endObjectKey f (beginObjectKey f (state == .first) st).st).st
    -- the state in which the value is serialised
    let b : W := ((W.mk ((beginObjectKey f (state == .first) st).bufs ++ escapeStr k)
      (beginObjectKey f (state == .first) st).st).andThen (endObjectKey f)).andThen (beginObjectValue f)
    have hbb : b.bufs.flatten = (if (state == .first) = true then [] else [0x2c]) ++ w ++ strBytes (strItems k) ++ [0x3a] ++ wv := by
      simp only [b, W.andThen, List.flatten_append, ha, escapeStr_spec, endObjectKey_bufs, hv, quote]
      simp [List.append_assoc]
    obtain ⟨r, hr, hd⟩ := ser_value x b.st hl.1
    cases kvs with
    | nil =>
      refine ⟨_, by simp only [ofMembers, serEntries, keySer]; simp only [b] at hr; simp only [hr]; rfl, rfl, w,
        strBytes (strItems k) ++ [] ++ [0x3a] ++ wv ++ r.bufs.flatten, hw, ?_, ?_⟩
      · simp only [List.flatten_append, endObjectValue_bufs]
        simp only [b] at hbb
        rw [hbb]; simp [List.append_assoc]
      · have := Members.one _ (strItems_wf k) [] wv _ _ ws_nil hwv hd
        simpa [imageOfMembers, cstOfMembers] using this
    | cons kv2 kvs2 =>
      obtain ⟨t, ht, hst, w2, body, hw2, hb2, hel⟩ :=
        ser_members (kv2 :: kvs2) .rest (endObjectValue f r.st).st hl.2 (by simp)
      refine ⟨{ bufs := b.bufs ++ r.bufs ++ (endObjectValue f r.st).bufs ++ t.bufs, state := t.state, st := t.st },
        by simp only [ofMembers, serEntries, keySer] at ht ⊢; simp only [b] at hr ⊢; simp only [hr, ht], hst, w,
        strBytes (strItems k) ++ [] ++ [0x3a] ++ wv ++ r.bufs.flatten ++ [] ++ [0x2c] ++ w2 ++ body, hw, ?_, ?_⟩
      · simp only [List.flatten_append, endObjectValue_bufs, hb2]
        simp only [b] at hbb
        rw [hbb]; simp [List.append_assoc]
      · have := Members.cons _ (strItems_wf k) [] wv _ [] w2 body _ _ ws_nil hwv hd ws_nil hw2 hel
        simpa [imageOfMembers, cstOfMembers] using this
end
end

end SJ.Proofs.RoundTripSer
