import SJ.Model.Ser
import SJ.Proofs.SerEscape
import SJ.Proofs.Utf8
import SJ.Proofs.ProgSide
/-!
# C03 / C13: every buffer the serializer hands to the writer is valid UTF-8 on its own

`ser_utf8`: for a program whose strings are UTF-8 (`SVal.utf8OK`), with either formatter (the pretty
one with a UTF-8 indent string), every element of the buffer list the model writes is valid UTF-8:

* the formatter literals extracted from `src/ser.rs` (`SJ.Gen.Ser`) are ASCII (checked by evaluation,
  so a non-UTF-8 literal in the source breaks this file), the indent string is valid by hypothesis;
* `itoa` / `ryu` text is an RFC 8259 number, hence ASCII (`ProgSide.number_ascii`);
* the buffers of an escaped string are ASCII or fragments of the string cut at ASCII bytes
  (`SerEscape.escapeStr_bufs`), and a fragment of a valid string cut at ASCII bytes is valid
  (`validUtf8_ascii_split_eq`);
* a `char` is encoded as a scalar value (`validUtf8_utf8`).

`allV_flatten`: then the concatenation is valid too (`validUtf8_append`).
-/
namespace SJ.Proofs.SerUtf8
open SJ SJ.Model.Ser SJ.Model.EscapeLocal SJ.Spec.Program SJ.Spec.Utf8
open SJ.Proofs.Utf8 SJ.Proofs.SerEscape SJ.Proofs.ProgSide
set_option linter.unusedSectionVars false

/-- every buffer is valid UTF-8 on its own -/
def AllV (bufs : List Bytes) : Prop := ∀ b ∈ bufs, validUtf8 b = true

theorem allV_nil : AllV [] := fun _ h => by cases h

theorem allV_append {a b : List Bytes} (ha : AllV a) (hb : AllV b) : AllV (a ++ b) := fun x hx => by
  rcases List.mem_append.1 hx with h | h
  · exact ha x h
  · exact hb x h

theorem allV_cons {x : Bytes} {l : List Bytes} (hx : validUtf8 x = true) (hl : AllV l) : AllV (x :: l) :=
  fun y hy => by
    rcases List.mem_cons.1 hy with h | h
    · subst h; exact hx
    · exact hl y h

theorem allV_single {x : Bytes} (hx : validUtf8 x = true) : AllV [x] := allV_cons hx allV_nil

theorem allV_replicate (n : Nat) {x : Bytes} (hx : validUtf8 x = true) : AllV (List.replicate n x) :=
  fun y hy => by rw [(List.mem_replicate.1 hy).2]; exact hx

/-- buffers that are each valid concatenate to a valid string -/
theorem allV_flatten : ∀ {bufs : List Bytes}, AllV bufs → validUtf8 bufs.flatten = true
  | [], _ => rfl
  | b :: bs, h => by
    rw [List.flatten_cons]
    exact validUtf8_append (h b (by simp)) (allV_flatten fun x hx => h x (by simp [hx]))

/-! ## strings -/

theorem ascii_valid {b : Bytes} (h : Ascii b) : validUtf8 b = true :=
  validUtf8_of_ascii b fun x hx => by simpa using List.all_eq_true.1 h x hx

/-- a piece of a valid string whose neighbours are ASCII bytes is valid -/
theorem frag_valid {s b : Bytes} (h : FragOf s b) (hs : validUtf8 s = true) : validUtf8 b = true := by
  obtain ⟨pre, post, rfl, hpre, hpost⟩ := h
  have h1 : validUtf8 (b ++ post) = true := by
    rcases List.eq_nil_or_concat pre with rfl | ⟨pre', c, rfl⟩
    · simpa using hs
    · have hc : c < 0x80 := hpre c (by simp)
      have : pre'.concat c ++ b ++ post = pre' ++ c :: (b ++ post) := by simp
      rw [this, validUtf8_ascii_split_eq _ _ _ hc, Bool.and_eq_true] at hs
      exact hs.2
  cases post with
  | nil => simpa using h1
  | cons c post' =>
    have hc : c < 0x80 := hpost c rfl
    rw [validUtf8_ascii_split_eq _ _ _ hc, Bool.and_eq_true] at h1
    exact h1.1

theorem escapeStr_utf8 (s : Bytes) (hs : validUtf8 s = true) : AllV (escapeStr s) := fun b hb => by
  rcases escapeStr_bufs s b hb with h | h
  · exact ascii_valid h
  · exact frag_valid h hs

theorem escapeContents_utf8 (s : Bytes) (hs : validUtf8 s = true) : AllV (escapeContents s) := fun b hb => by
  rcases contentsLoop_bufs s s [] [] rfl (by simp) b hb with h | h
  · exact ascii_valid h
  · exact frag_valid h hs

theorem collectStr_utf8 (s : Bytes) (hs : validUtf8 s = true) : AllV (collectStr s) := by
  unfold collectStr
  exact allV_append (allV_append (allV_single (by decide)) (escapeContents_utf8 s hs)) (allV_single (by decide))

theorem quoted_utf8 (t : Bytes) (ht : validUtf8 t = true) : AllV (quoted t) := by
  unfold quoted
  exact allV_cons (by decide) (allV_cons ht (allV_single (by decide)))

theorem writeBool_utf8 (b : Bool) : validUtf8 (writeBool b) = true := by cases b <;> decide

theorem char_utf8 (cp : Nat) (h : isScalar cp = true) : validUtf8 (encodeUtf8 cp) = true :=
  validUtf8_utf8 cp ((isScalar_iff cp).1 h)

/-! ## the formatters -/

/-- the indent string of the pretty formatter is valid UTF-8 -/
def FmtOK : Fmt → Prop
  | .compact => True
  | .pretty ind => validUtf8 ind = true

section
variable (f : Fmt) (hf : FmtOK f)
include hf

theorem beginArray_utf8 (st : FState) : AllV (beginArray f st).bufs := by
  cases f <;> exact allV_single (by decide)

theorem beginObject_utf8 (st : FState) : AllV (beginObject f st).bufs := by
  cases f <;> exact allV_single (by decide)

theorem endArray_utf8 (st : FState) : AllV (endArray f st).bufs := by
  cases f with
  | compact => exact allV_single (by decide)
  | pretty ind =>
    simp only [endArray]
    refine allV_append ?_ (allV_single (by decide))
    split
    · exact allV_append (allV_single (by decide)) (allV_replicate _ hf)
    · exact allV_nil

theorem endObject_utf8 (st : FState) : AllV (endObject f st).bufs := by
  cases f with
  | compact => exact allV_single (by decide)
  | pretty ind =>
    simp only [endObject]
    refine allV_append ?_ (allV_single (by decide))
    split
    · exact allV_append (allV_single (by decide)) (allV_replicate _ hf)
    · exact allV_nil

theorem beginArrayValue_utf8 (first : Bool) (st : FState) : AllV (beginArrayValue f first st).bufs := by
  cases f with
  | compact => cases first <;> simp only [beginArrayValue] <;> first | exact allV_nil | exact allV_single (by decide)
  | pretty ind =>
    simp only [beginArrayValue]
    exact allV_append (allV_single (by cases first <;> decide)) (allV_replicate _ hf)

theorem beginObjectKey_utf8 (first : Bool) (st : FState) : AllV (beginObjectKey f first st).bufs := by
  cases f with
  | compact => cases first <;> simp only [beginObjectKey] <;> first | exact allV_nil | exact allV_single (by decide)
  | pretty ind =>
    simp only [beginObjectKey]
    exact allV_append (allV_single (by cases first <;> decide)) (allV_replicate _ hf)

theorem endArrayValue_utf8 (st : FState) : AllV (endArrayValue f st).bufs := by cases f <;> exact allV_nil
theorem endObjectValue_utf8 (st : FState) : AllV (endObjectValue f st).bufs := by cases f <;> exact allV_nil
theorem endObjectKey_utf8 (st : FState) : AllV (endObjectKey f st).bufs := allV_nil

theorem beginObjectValue_utf8 (st : FState) : AllV (beginObjectValue f st).bufs := by
  cases f <;> exact allV_single (by decide)

theorem andThen_utf8 {a : W} {k : FState → W} (ha : AllV a.bufs) (hk : ∀ st, AllV (k st).bufs) :
    AllV (a.andThen k).bufs := allV_append ha (hk _)

theorem seqEnd_utf8 (state : State) (st : FState) : AllV (seqEnd f state st).bufs := by
  cases state <;> first | exact allV_nil | exact endArray_utf8 f hf st

theorem mapEnd_utf8 (state : State) (st : FState) : AllV (mapEnd f state st).bufs := by
  cases state <;> first | exact allV_nil | exact endObject_utf8 f hf st

theorem serializeSeq_utf8 (len : Option Nat) (st : FState) : AllV (serializeSeq f len st).bufs := by
  unfold serializeSeq
  split
  · exact andThen_utf8 f hf (beginArray_utf8 f hf st) (endArray_utf8 f hf)
  · exact beginArray_utf8 f hf st

theorem serializeMap_utf8 (len : Option Nat) (st : FState) : AllV (serializeMap f len st).bufs := by
  unfold serializeMap
  split
  · exact andThen_utf8 f hf (beginObject_utf8 f hf st) (endObject_utf8 f hf)
  · exact beginObject_utf8 f hf st

theorem variantOpen_utf8 (v : Bytes) (hv : validUtf8 v = true) (st : FState) : AllV (variantOpen f v st).bufs := by
  unfold variantOpen
  exact andThen_utf8 f hf (andThen_utf8 f hf (andThen_utf8 f hf (andThen_utf8 f hf (beginObject_utf8 f hf st)
    (beginObjectKey_utf8 f hf true)) (fun _ => escapeStr_utf8 v hv)) (endObjectKey_utf8 f hf))
    (beginObjectValue_utf8 f hf)

theorem tupleVariantEnd_utf8 (state : State) (st : FState) : AllV (tupleVariantEnd f state st).bufs :=
  andThen_utf8 f hf (andThen_utf8 f hf (seqEnd_utf8 f hf state st) (endObjectValue_utf8 f hf)) (endObject_utf8 f hf)

theorem structVariantEnd_utf8 (state : State) (st : FState) : AllV (structVariantEnd f state st).bufs :=
  andThen_utf8 f hf (andThen_utf8 f hf (mapEnd_utf8 f hf state st) (endObjectValue_utf8 f hf)) (endObject_utf8 f hf)

theorem finishSeq_utf8 (o : WS) (res : Except SerErr WS) (w : W) (ho : AllV o.bufs)
    (hr : ∀ r, res = .ok r → AllV r.bufs) (h : finishSeq f o res = .ok w) : AllV w.bufs := by
  cases res with
  | error e => cases h
  | ok r =>
    simp only [finishSeq, Except.ok.injEq] at h; subst h
    exact andThen_utf8 f hf (allV_append ho (hr r rfl)) (seqEnd_utf8 f hf r.state)

theorem finishMap_utf8 (o : WS) (res : Except SerErr WS) (w : W) (ho : AllV o.bufs)
    (hr : ∀ r, res = .ok r → AllV r.bufs) (h : finishMap f o res = .ok w) : AllV w.bufs := by
  cases res with
  | error e => cases h
  | ok r =>
    simp only [finishMap, Except.ok.injEq] at h; subst h
    exact andThen_utf8 f hf (allV_append ho (hr r rfl)) (mapEnd_utf8 f hf r.state)

theorem finishNewtypeVariant_utf8 (a : W) (res : Except SerErr W) (w : W) (ha : AllV a.bufs)
    (hr : ∀ r, res = .ok r → AllV r.bufs) (h : finishNewtypeVariant f a res = .ok w) : AllV w.bufs := by
  cases res with
  | error e => cases h
  | ok r =>
    simp only [finishNewtypeVariant, Except.ok.injEq] at h; subst h
    exact andThen_utf8 f hf (andThen_utf8 f hf (allV_append ha (hr r rfl)) (endObjectValue_utf8 f hf))
      (endObject_utf8 f hf)

theorem finishTupleVariant_utf8 (a : W) (o : WS) (res : Except SerErr WS) (w : W) (ha : AllV a.bufs)
    (ho : AllV o.bufs) (hr : ∀ r, res = .ok r → AllV r.bufs) (h : finishTupleVariant f a o res = .ok w) :
    AllV w.bufs := by
  cases res with
  | error e => cases h
  | ok r =>
    simp only [finishTupleVariant, Except.ok.injEq] at h; subst h
    exact andThen_utf8 f hf (allV_append (allV_append ha ho) (hr r rfl)) (tupleVariantEnd_utf8 f hf r.state)

theorem finishStructVariant_utf8 (a : W) (o : WS) (res : Except SerErr WS) (w : W) (ha : AllV a.bufs)
    (ho : AllV o.bufs) (hr : ∀ r, res = .ok r → AllV r.bufs) (h : finishStructVariant f a o res = .ok w) :
    AllV w.bufs := by
  cases res with
  | error e => cases h
  | ok r =>
    simp only [finishStructVariant, Except.ok.injEq] at h; subst h
    exact andThen_utf8 f hf (allV_append (allV_append ha ho) (hr r rfl)) (structVariantEnd_utf8 f hf r.state)

end

/-! ## keys, bytes, values -/

section
variable (ext : Ext) (hext : ExtOK ext)
include hext

theorem ryu64_utf8 (b : UInt64) (h : finite64 b = true) : validUtf8 (ext.ryu64 b) = true :=
  number_utf8 _ (hext.ryu64_number b h)
theorem ryu32_utf8 (b : UInt32) (h : finite32 b = true) : validUtf8 (ext.ryu32 b) = true :=
  number_utf8 _ (hext.ryu32_number b h)

theorem keySer_utf8 : ∀ (k : SVal) (kb : List Bytes), k.utf8OK = true → keySer ext k = .ok kb → AllV kb
  | .str s, kb, h, hk | .unitVariant s, kb, h, hk => by
    simp only [keySer] at hk; cases hk; exact escapeStr_utf8 s (by simpa [SVal.utf8OK] using h)
  | .collectStr s, kb, h, hk => by
    simp only [keySer] at hk; cases hk; exact collectStr_utf8 s (by simpa [SVal.utf8OK] using h)
  | .char cp, kb, h, hk => by
    simp only [keySer] at hk; cases hk
    exact escapeStr_utf8 _ (char_utf8 cp (by simpa [SVal.utf8OK] using h))
  | .bool b, kb, _, hk => by simp only [keySer] at hk; cases hk; exact quoted_utf8 _ (writeBool_utf8 b)
  | .int _ n, kb, _, hk => by simp only [keySer] at hk; cases hk; exact quoted_utf8 _ (itoa_utf8 ext hext n)
  | .f32 b, kb, _, hk => by
    simp only [keySer] at hk
    split at hk
    · cases hk
    · rename_i hfin; cases hk
      exact quoted_utf8 _ (ryu32_utf8 ext hext b (by simpa using hfin))
  | .f64 b, kb, _, hk => by
    simp only [keySer] at hk
    split at hk
    · cases hk
    · rename_i hfin; cases hk
      exact quoted_utf8 _ (ryu64_utf8 ext hext b (by simpa using hfin))
  | .some k, kb, h, hk => by
    simp only [keySer] at hk; simp only [SVal.utf8OK] at h; exact keySer_utf8 k kb h hk
  | .newtypeStruct k, kb, h, hk => by
    simp only [keySer] at hk; simp only [SVal.utf8OK] at h; exact keySer_utf8 k kb h hk
  | .bytes _, _, _, hk | .none, _, _, hk | .unit, _, _, hk | .unitStruct, _, _, hk
  | .newtypeVariant _ _, _, _, hk | .seq _ _, _, _, hk | .tuple _, _, _, hk | .tupleStruct _, _, _, hk
  | .tupleVariant _ _, _, _, hk | .map _ _, _, _, hk | .struct_ _, _, _, hk | .structVariant _ _, _, _, hk
  | .numberLit _, _, _, hk => by simp [keySer] at hk

variable (f : Fmt) (hf : FmtOK f)
include hf

theorem byteArrayLoop_utf8 : ∀ (bs : Bytes) (first : Bool) (st : FState), AllV (byteArrayLoop ext f bs first st).bufs
  | [], _, _ => allV_nil
  | b :: rest, first, st => by
    simp only [byteArrayLoop]
    exact andThen_utf8 f hf (andThen_utf8 f hf (andThen_utf8 f hf (beginArrayValue_utf8 f hf first st)
      (fun _ => allV_single (itoa_utf8 ext hext _))) (endArrayValue_utf8 f hf))
      (byteArrayLoop_utf8 rest false)

theorem writeByteArray_utf8 (bs : Bytes) (st : FState) : AllV (writeByteArray ext f bs st).bufs :=
  andThen_utf8 f hf (andThen_utf8 f hf (beginArray_utf8 f hf st) (byteArrayLoop_utf8 ext hext f hf bs true))
    (endArray_utf8 f hf)

mutual
theorem ser_utf8 : ∀ (p : SVal) (st : FState) (w : W), p.utf8OK = true → ser ext f p st = .ok w → AllV w.bufs
  | .bool b, st, w, _, h => by
    simp only [ser, Except.ok.injEq] at h; subst h; exact allV_single (writeBool_utf8 b)
  | .int _ n, st, w, _, h => by
    simp only [ser, Except.ok.injEq] at h; subst h; exact allV_single (itoa_utf8 ext hext n)
  | .f32 b, st, w, _, h => by
    simp only [ser, Except.ok.injEq] at h; subst h
    refine allV_single ?_
    split
    · rename_i hfin; exact ryu32_utf8 ext hext b hfin
    · decide
  | .f64 b, st, w, _, h => by
    simp only [ser, Except.ok.injEq] at h; subst h
    refine allV_single ?_
    split
    · rename_i hfin; exact ryu64_utf8 ext hext b hfin
    · decide
  | .char cp, st, w, hu, h => by
    simp only [ser, Except.ok.injEq] at h; subst h
    exact escapeStr_utf8 _ (char_utf8 cp (by simpa [SVal.utf8OK] using hu))
  | .str s, st, w, hu, h | .unitVariant s, st, w, hu, h => by
    simp only [ser, Except.ok.injEq] at h; subst h
    exact escapeStr_utf8 s (by simpa [SVal.utf8OK] using hu)
  | .collectStr s, st, w, hu, h => by
    simp only [ser, Except.ok.injEq] at h; subst h
    exact collectStr_utf8 s (by simpa [SVal.utf8OK] using hu)
  | .numberLit s, st, w, hu, h => by
    simp only [ser, Except.ok.injEq] at h; subst h
    exact allV_single (by simpa [SVal.utf8OK] using hu)
  | .bytes bs, st, w, _, h => by
    simp only [ser, Except.ok.injEq] at h; subst h
    exact writeByteArray_utf8 ext hext f hf bs st
  | .none, st, w, _, h | .unit, st, w, _, h | .unitStruct, st, w, _, h => by
    simp only [ser, Except.ok.injEq] at h; subst h; exact allV_single (by decide)
  | .some p, st, w, hu, h => by
    simp only [ser] at h; simp only [SVal.utf8OK] at hu; exact ser_utf8 p st w hu h
  | .newtypeStruct p, st, w, hu, h => by
    simp only [ser] at h; simp only [SVal.utf8OK] at hu; exact ser_utf8 p st w hu h
  | .newtypeVariant v p, st, w, hu, h => by
    simp only [ser] at h
    simp only [SVal.utf8OK, Bool.and_eq_true] at hu
    exact finishNewtypeVariant_utf8 f hf _ _ w (variantOpen_utf8 f hf v hu.1 st)
      (fun r hr => ser_utf8 p _ r hu.2 hr) h
  | .seq hint xs, st, w, hu, h => by
    simp only [ser] at h
    simp only [SVal.utf8OK] at hu
    exact finishSeq_utf8 f hf _ _ w (serializeSeq_utf8 f hf _ st) (fun r hr => serElems_utf8 xs _ _ r hu hr) h
  | .tuple xs, st, w, hu, h => by
    simp only [ser] at h
    simp only [SVal.utf8OK] at hu
    exact finishSeq_utf8 f hf _ _ w (serializeSeq_utf8 f hf _ st) (fun r hr => serElems_utf8 xs _ _ r hu hr) h
  | .tupleStruct xs, st, w, hu, h => by
    simp only [ser] at h
    simp only [SVal.utf8OK] at hu
    exact finishSeq_utf8 f hf _ _ w (serializeSeq_utf8 f hf _ st) (fun r hr => serElems_utf8 xs _ _ r hu hr) h
  | .tupleVariant v xs, st, w, hu, h => by
    simp only [ser] at h
    simp only [SVal.utf8OK, Bool.and_eq_true] at hu
    exact finishTupleVariant_utf8 f hf _ _ _ w (variantOpen_utf8 f hf v hu.1 st) (serializeSeq_utf8 f hf _ _)
      (fun r hr => serElems_utf8 xs _ _ r hu.2 hr) h
  | .map hint es, st, w, hu, h => by
    simp only [ser] at h
    simp only [SVal.utf8OK] at hu
    exact finishMap_utf8 f hf _ _ w (serializeMap_utf8 f hf _ st) (fun r hr => serEntries_utf8 es _ _ r hu hr) h
  | .struct_ fs, st, w, hu, h => by
    simp only [ser] at h
    simp only [SVal.utf8OK] at hu
    exact finishMap_utf8 f hf _ _ w (serializeMap_utf8 f hf _ st) (fun r hr => serFields_utf8 fs _ _ r hu hr) h
  | .structVariant v fs, st, w, hu, h => by
    simp only [ser] at h
    simp only [SVal.utf8OK, Bool.and_eq_true] at hu
    exact finishStructVariant_utf8 f hf _ _ _ w (variantOpen_utf8 f hf v hu.1 st) (serializeMap_utf8 f hf _ _)
      (fun r hr => serFields_utf8 fs _ _ r hu.2 hr) h
theorem serElems_utf8 : ∀ (xs : List SVal) (state : State) (st : FState) (r : WS), utf8OKList xs = true →
    serElems ext f xs state st = .ok r → AllV r.bufs
  | [], state, st, r, _, h => by simp only [serElems, Except.ok.injEq] at h; subst h; exact allV_nil
  | x :: xs, state, st, r, hu, h => by
    simp only [serElems] at h
    simp only [utf8OKList, Bool.and_eq_true] at hu
    cases hx : ser ext f x (beginArrayValue f (state == .first) st).st with
    | error e => simp [hx] at h
    | ok rx =>
      simp only [hx] at h
      cases ht : serElems ext f xs .rest (endArrayValue f rx.st).st with
      | error e => simp [ht] at h
      | ok t =>
        simp only [ht, Except.ok.injEq] at h; subst h
        exact allV_append (allV_append (allV_append (beginArrayValue_utf8 f hf _ st) (ser_utf8 x _ rx hu.1 hx))
          (endArrayValue_utf8 f hf _)) (serElems_utf8 xs _ _ t hu.2 ht)
theorem serEntries_utf8 : ∀ (es : List (SVal × SVal)) (state : State) (st : FState) (r : WS), utf8OKEntries es = true →
    serEntries ext f es state st = .ok r → AllV r.bufs
  | [], state, st, r, _, h => by simp only [serEntries, Except.ok.injEq] at h; subst h; exact allV_nil
  | (k, v) :: es, state, st, r, hu, h => by
    simp only [serEntries] at h
    simp only [utf8OKEntries, Bool.and_eq_true] at hu
    cases hk : keySer ext k with
    | error e => simp [hk] at h
    | ok kb =>
      simp only [hk] at h
      have hb : AllV ((W.mk ((beginObjectKey f (state == .first) st).bufs ++ kb)
          (beginObjectKey f (state == .first) st).st |>.andThen (endObjectKey f)).andThen (beginObjectValue f)).bufs :=
        andThen_utf8 f hf (andThen_utf8 f hf (allV_append (beginObjectKey_utf8 f hf _ st)
          (keySer_utf8 ext hext k kb hu.1.1 hk)) (endObjectKey_utf8 f hf)) (beginObjectValue_utf8 f hf)
      cases hv : ser ext f v ((W.mk ((beginObjectKey f (state == .first) st).bufs ++ kb)
          (beginObjectKey f (state == .first) st).st |>.andThen (endObjectKey f)).andThen (beginObjectValue f)).st with
      | error e => simp [hv] at h
      | ok rv =>
        simp only [hv] at h
        cases ht : serEntries ext f es .rest (endObjectValue f rv.st).st with
        | error e => simp [ht] at h
        | ok t =>
          simp only [ht, Except.ok.injEq] at h; subst h
          exact allV_append (allV_append (allV_append hb (ser_utf8 v _ rv hu.1.2 hv))
            (endObjectValue_utf8 f hf _)) (serEntries_utf8 es _ _ t hu.2 ht)
theorem serFields_utf8 : ∀ (fs : List (Bytes × SVal)) (state : State) (st : FState) (r : WS), utf8OKFields fs = true →
    serFields ext f fs state st = .ok r → AllV r.bufs
  | [], state, st, r, _, h => by simp only [serFields, Except.ok.injEq] at h; subst h; exact allV_nil
  | (n, v) :: fs, state, st, r, hu, h => by
    simp only [serFields] at h
    simp only [utf8OKFields, Bool.and_eq_true] at hu
    have hb : AllV ((W.mk ((beginObjectKey f (state == .first) st).bufs ++ escapeStr n)
        (beginObjectKey f (state == .first) st).st |>.andThen (endObjectKey f)).andThen (beginObjectValue f)).bufs :=
      andThen_utf8 f hf (andThen_utf8 f hf (allV_append (beginObjectKey_utf8 f hf _ st)
        (escapeStr_utf8 n hu.1.1)) (endObjectKey_utf8 f hf)) (beginObjectValue_utf8 f hf)
    cases hv : ser ext f v ((W.mk ((beginObjectKey f (state == .first) st).bufs ++ escapeStr n)
        (beginObjectKey f (state == .first) st).st |>.andThen (endObjectKey f)).andThen (beginObjectValue f)).st with
    | error e => simp [hv] at h
    | ok rv =>
      simp only [hv] at h
      cases ht : serFields ext f fs .rest (endObjectValue f rv.st).st with
      | error e => simp [ht] at h
      | ok t =>
        simp only [ht, Except.ok.injEq] at h; subst h
        exact allV_append (allV_append (allV_append hb (ser_utf8 v _ rv hu.1.2 hv))
          (endObjectValue_utf8 f hf _)) (serFields_utf8 fs _ _ t hu.2 ht)
end

end

end SJ.Proofs.SerUtf8
