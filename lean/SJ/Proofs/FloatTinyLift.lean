import SJ.Proofs.FloatLift
import SJ.Proofs.FloatTiny
/-!
# Underflow at literal level, sharp: exact value `< 2^-1075` ⇒ `±0`

As `FloatLift.floatOfLiteral_underflow`, with `FloatTiny.f64FromParts_underflow_sharp` for the `f64_from_parts` leaf:
dropped digits only lower the parsed value, a negative exponent beyond `i32` returns `±0` by construction.
-/
namespace SJ.Proofs.FloatQ
open SJ SJ.Spec.Ieee SJ.Spec.Decimal SJ.Model.FloatDefault SJ.Proofs.Ieee SJ.Proofs.FloatDefault

/-- `num·T < den ↔ num/den · T < 1` -/
theorem ratio_lt_iff (T num den : Nat) (hden : 0 < den) :
    num * T < den ↔ (num : ℚ) / (den : ℚ) * (T : ℚ) < 1 := by
  have hdq : (0 : ℚ) < den := by exact_mod_cast hden
  rw [div_mul_eq_mul_div, div_lt_one hdq]
  exact_mod_cast Iff.rfl

/-- **Underflow, literal level, sharp:** exact value `< 2^-1075` (the whole interval that rounds to zero) ⇒ `±0` with the
    literal's sign -/
theorem floatOfLiteral_underflow_sharp (l : NumLit) (hwf : l.WF = true) (hlen : l.digits.length < 2 ^ 30)
    (hx : l.exact.1 * 2 ^ 1075 < l.exact.2) : floatOfLiteral l = some (F64.zero l.neg) := by
  have hq := (ratio_lt_iff _ _ _ (exact_den_pos l)).1 hx
  rw [exact_q] at hq
  have hW2 : (2 : ℚ) ≤ ((2 ^ 1075 : Nat) : ℚ) := by
    have : 2 ^ 1 ≤ 2 ^ 1075 := Nat.pow_le_pow_right (by decide) (by decide)
    exact_mod_cast this
  have hu64 : u64Max < 2 ^ 64 := by decide
  have hcp := c_pos
  obtain ⟨s, g, hsle, hlo, hhi, hcase⟩ := collect_spec l hwf
  obtain ⟨hxy, _⟩ := parsed_le_exact s g l.sigVal l.netExp hlo hhi
  rcases hcase with ⟨_, _, hnet, _, hsD, hres⟩ | hres | ⟨hov, hres⟩
  · -- integer path: the literal is `0` or `-0`
    rw [hnet] at hq
    simp only [zpow_zero, mul_one] at hq
    have hD0 : l.sigVal = 0 := by
      have h1 : (l.sigVal : ℚ) < 1 := by
        have h0 : (0 : ℚ) ≤ l.sigVal := Nat.cast_nonneg _
        nlinarith
      have h2 : l.sigVal < 1 := by exact_mod_cast h1
      omega
    rw [hres, hsD, hD0, ofU64_zero, neg_zero_eq]
    cases l.neg <;> rfl
  · rw [hres]
    rcases Nat.eq_zero_or_pos s with h0 | hs1
    · subst h0; rw [f64FromParts_zero, Bool.not_not]
    · have hxq : (s : ℚ) * (10 : ℚ) ^ (l.netExp + g) * ((2 ^ 1075 : Nat) : ℚ) < 1 :=
        lt_of_le_of_lt (mul_le_mul_of_nonneg_right hxy (by linarith)) hq
      have hs1q : (1 : ℚ) ≤ (s : ℚ) := by exact_mod_cast hs1
      rcases Int.lt_or_le (l.netExp + g) 0 with hneg | hpos
      · obtain ⟨k, hk⟩ : ∃ k : Nat, l.netExp + g = -(k : Int) := ⟨(l.netExp + g).natAbs, by omega⟩
        rw [hk] at hxq ⊢
        have hnat : s * 2 ^ 1075 < 10 ^ (-(k : Int)).natAbs := by
          have hkk : (-(k : Int)).natAbs = k := by omega
          rw [hkk]
          rw [zpow_neg_nat, mul_one_div, div_mul_eq_mul_div, div_lt_one (p10_pos k)] at hxq
          exact_mod_cast hxq
        rw [f64FromParts_underflow_sharp _ s _ (by omega) (by omega) hnat, Bool.not_not]
      · exfalso
        have h1 : (1 : ℚ) ≤ (10 : ℚ) ^ (l.netExp + g) := one_le_zpow₀ (by norm_num) hpos
        have h2 : (1 : ℚ) ≤ (s : ℚ) * (10 : ℚ) ^ (l.netExp + g) := by nlinarith
        have h3 : (2 : ℚ) ≤ (s : ℚ) * (10 : ℚ) ^ (l.netExp + g) * ((2 ^ 1075 : Nat) : ℚ) := by nlinarith
        linarith
  · rw [hres]
    rcases ovf_cases l hwf hlen s g hlo hhi hov with ⟨_, hbig⟩ | ⟨hc, _⟩
    · exfalso
      have := huge_gt
      have h3 : (2 : ℚ) * 2 ≤ (l.sigVal : ℚ) * (10 : ℚ) ^ l.netExp * ((2 ^ 1075 : Nat) : ℚ) :=
        mul_le_mul (le_trans this hbig) hW2 (by norm_num) (le_trans (by positivity) hbig)
      linarith
    · unfold parseExponentOverflow
      rw [hc]
      simp

end SJ.Proofs.FloatQ
