import SJ.Proofs.RawNestedTop
/-!
# C19 helper lemmas: string keys of an object whose values are captured raw

`MapKey::deserialize_any` → `parse_str` is the byte-step machine started inside a string literal
(`Model.Typed.parseStr`). `keyStr_sound` / `keyStr_complete`: it succeeds exactly on a well-formed string
literal `strBytes items` whose escapes pair up (and whose decoded text is valid UTF-8 on byte sources),
and returns `decodeItems items`.
-/
namespace SJ.Proofs.RawKey
open SJ SJ.Gen SJ.Model.Machine SJ.Model.Stream SJ.Proofs.Machine SJ.Proofs.Complete SJ.Proofs.StreamValues
open SJ.Spec.Grammar (CST StrItem Ws Derives JsonText StrWF strBytes surrogatesPairedStr)
open SJ.Spec.Denote (decodeItems)
open SJ.Model.Typed (runPfx machine valEnv parseStr keyStr deKey Res)
open SJ.Proofs.RawSpan SJ.Proofs.RawNested

theorem side_of_sem {env : Env} {t : CST} {v : JV} (h : SJ.Proofs.Sound.Sem env 0 t v) : Side env 0 t := by
  intro hv
  have s := h.val hv
  refine ⟨?_, s.sur, s.utf, s.rng⟩
  cases hl : env.cfg.limitOff
  · right; have := s.dep hl; omega
  · left; rfl

/-- `runPrefix_span` for either target: what is consumed from a non-whitespace start is one grammar value
    carrying the returned value -/
theorem runPrefix_span_sem (env : Env) (p : Nat) (r : Bytes) (v : JV) (e : Nat)
    (hhead : ∀ b r', r = b :: r' → isWs b = false)
    (h : runPrefix env init p r = .ok v e) :
    p < e ∧ e ≤ p + r.length ∧ ∃ t, Derives (r.take (e - p)) t ∧ SJ.Proofs.Sound.Sem env 0 t v := by
  obtain ⟨s', hf, hfin⟩ := SJ.Props.C19.runPrefix_feed env init p r v e h
  have hidx := feed_idx _ _ _ _ _ _ hf
  have hlt : p < e := by
    cases r with
    | nil => unfold runPrefix at h; simp [finish, finishMode, init] at h
    | cons b bs => exact SJ.Props.C12.c12_progress env p b bs v e h
  have hlen : (r.take (e - p)).length = e - p := by omega
  have hle : e ≤ p + r.length := by
    rw [List.length_take] at hlen
    omega
  refine ⟨hlt, hle, ?_⟩
  have hparse : parseTop env (r.take (e - p)) = .ok v := by
    unfold parseTop
    rw [run_eq_feed_finish, SJ.Props.C19.feed_shift _ _ _ 0 _ _ _ hf]
    simp only [hfin]
  obtain ⟨t, ⟨w₁, v0, w₂, hc, hw₁, hw₂, hd⟩, hsem⟩ := SJ.Proofs.Sound.parseTop_sound env _ v hparse
  have hw1nil : w₁ = [] := by
    cases w₁ with
    | nil => rfl
    | cons x xs =>
      exfalso
      cases r with
      | nil => simp at hlen; omega
      | cons b bs =>
        have hb := hhead b bs rfl
        have : (List.take (e - p) (b :: bs)).head? = some x := by rw [hc]; rfl
        have hpos : e - p = (e - p - 1) + 1 := by omega
        rw [hpos, List.take_succ_cons] at this
        simp only [List.head?_cons, Option.some.injEq] at this
        subst this
        have hx : Spec.Grammar.isWs b = true := by
          have := hw₁; simp only [Ws, List.all_cons, Bool.and_eq_true] at this; exact this.1
        rw [← isWs_eq] at hx
        rw [hx] at hb; cases hb
  subst hw1nil
  simp only [List.nil_append] at hc
  have hw2nil : w₂ = [] := by
    cases w₂ with
    | nil => rfl
    | cons x xs =>
      exfalso
      have hsplit : r = v0 ++ ((x :: xs) ++ r.drop (e - p)) := by
        rw [← List.append_assoc, ← hc, List.take_append_drop]
      have hx : isWs x = true := by
        have := hw₂; simp only [Ws, List.all_cons, Bool.and_eq_true] at this
        rw [isWs_eq]; exact this.1
      obtain ⟨val, _, hrun⟩ := runPrefix_complete env v0 t hd (side_of_sem hsem)
        ((x :: xs) ++ r.drop (e - p)) p
        (fun _ d r' hdr => by
          simp only [List.cons_append, List.cons.injEq] at hdr
          rw [← hdr.1]; exact isWs_not_numCont x hx)
      rw [← hsplit, h] at hrun
      simp only [POut.ok.injEq] at hrun
      have hl : (r.take (e - p)).length = v0.length + (x :: xs).length := by rw [hc]; simp
      simp only [List.length_cons] at hl
      omega
  subst hw2nil
  simp only [List.append_nil] at hc
  exact ⟨t, hc ▸ hd, hsem⟩

/-- after the opening quote the machine is inside a string -/
theorem runPrefix_quote (env : Env) (p : Nat) (r : Bytes) :
    runPrefix env init p (0x22 :: r) = runPrefix env { mode := .str {} } (p + 1) r := by
  have h1 : step1 env init 0x22 = .next { mode := .str {} } := by
    simp [step1, init, startValue, isWs, Gen.wsBytes, isDigit]
  rw [runPrefix]
  simp only [h1]

/-- a value that starts with a quote is a string literal -/
theorem derives_quote {c : Bytes} {t : CST} (h : Derives c t) (r : Bytes) (hc : c = 0x22 :: r) :
    ∃ items, t = .str items ∧ StrWF items = true ∧ c = strBytes items := by
  cases h with
  | str items hwf => exact ⟨items, rfl, hwf, rfl⟩
  | null => cases hc
  | true_ => cases hc
  | false_ => cases hc
  | arrEmpty w _ => simp at hc
  | arr w₁ body w₂ xs _ _ _ _ => simp at hc
  | objEmpty w _ => simp at hc
  | obj w₁ body w₂ ms _ _ _ _ => simp at hc
  | num p hwf =>
    exfalso
    obtain ⟨b, r', hbr, hb⟩ := num_head p hwf
    rw [hbr] at hc
    simp only [List.cons.injEq] at hc
    rcases hb with hb | hb
    · rw [hb] at hc; exact absurd hc.1 (by decide)
    · rw [hc.1] at hb; revert hb; decide

/-- what a key must be -/
structure KeyOK (env : SJ.Model.Typed.Env) (items : List StrItem) (s : Bytes) : Prop where
  wf : StrWF items = true
  dec : decodeItems items = some s
  sur : surrogatesPairedStr items = true
  utf : env.src ≠ .str → Spec.Utf8.validUtf8 s = true

theorem keyStr_sound (env : SJ.Model.Typed.Env) (r0 : Bytes) (pos : Nat) (x : TVal) (rest' : Bytes) (e : Nat)
    (h : keyStr env (fun s => .ok (.str s)) (0x22 :: r0) pos = .ok x rest' e) :
    ∃ items s, x = .str s ∧ 0x22 :: r0 = strBytes items ++ rest' ∧ e = pos + (strBytes items).length ∧
      KeyOK env items s := by
  unfold keyStr parseStr machine at h
  simp only [List.drop_succ_cons, List.drop_zero] at h
  cases hrun : runPfx (valEnv env) env.flt 0 { mode := .str {} } (pos + 1) r0 with
  | err c i => rw [hrun] at h; simp [Res.bind] at h
  | io => rw [hrun] at h; simp [Res.bind] at h
  | ok v e' =>
    rw [hrun] at h
    have hrp := runPfx_ok_runPrefix _ _ _ _ _ _ _ hrun
    rw [← runPrefix_quote] at hrp
    obtain ⟨hlt, hle, t, hd, hsem⟩ := runPrefix_span_sem (valEnv env) pos (0x22 :: r0) v e'
      (fun b r' hbr => by cases hbr; decide) hrp
    have hlen : ((0x22 :: r0).take (e' - pos)).length = e' - pos := by rw [List.length_take]; omega
    have hne : (0x22 :: r0).take (e' - pos) = 0x22 :: r0.take (e' - pos - 1) := by
      have : e' - pos = (e' - pos - 1) + 1 := by omega
      rw [this, List.take_succ_cons]; simp
    obtain ⟨items, rfl, hwf, hc⟩ := derives_quote hd _ hne
    have sv := hsem.val rfl
    have hval := sv.val
    simp only [SJ.Proofs.CanonM.canonM, Option.map_eq_some_iff] at hval
    obtain ⟨s, hdec, rfl⟩ := hval
    simp only [Res.bind, SJ.Model.Typed.ofVisit, Res.ok.injEq] at h
    obtain ⟨rfl, rfl, rfl⟩ := h
    refine ⟨items, s, rfl, ?_, ?_, ⟨hwf, hdec, sv.sur, ?_⟩⟩
    · have h1 : (0x22 :: r0).drop (e' - pos) = r0.drop (e' - (pos + 1)) := by
        have : e' - pos = (e' - (pos + 1)) + 1 := by omega
        rw [this, List.drop_succ_cons]
      rw [← hc, ← h1, List.take_append_drop]
    · rw [← hc, hlen]; omega
    · intro hsrc
      have := sv.utf hsrc
      simp only [Spec.Canon.stringsUtf8, hdec, Option.all_some] at this
      exact this

theorem keyStr_complete (env : SJ.Model.Typed.Env) (hflt : env.flt = false) (items : List StrItem) (s : Bytes)
    (hk : KeyOK env items s) (follow : Bytes) (pos : Nat) :
    keyStr env (fun s => .ok (.str s)) (strBytes items ++ follow) pos =
      .ok (.str s) follow (pos + (strBytes items).length) := by
  have hd : Derives (strBytes items) (.str items) := Derives.str items hk.wf
  have hside : Side (valEnv env) 0 (.str items) := by
    intro _
    refine ⟨.inr (by simp [Spec.Grammar.depth]), by simpa [Spec.Grammar.surrogatesPaired] using hk.sur, ?_, rfl⟩
    intro hsrc
    simp only [Spec.Canon.stringsUtf8, hk.dec, Option.all_some]
    exact hk.utf hsrc
  obtain ⟨val, hres, hrun⟩ := runPrefix_complete (valEnv env) (strBytes items) (.str items) hd hside follow pos
    (fun ⟨q, hq⟩ => by cases hq)
  have hval := hres.1 rfl
  simp only [SJ.Proofs.CanonM.canonM, hk.dec, Option.map_some, Option.some.injEq] at hval
  subst hval
  have hsb : strBytes items ++ follow = 0x22 :: (items.flatMap StrItem.bytes ++ [0x22] ++ follow) := by
    simp [strBytes]
  rw [hsb, runPrefix_quote] at hrun
  unfold keyStr parseStr machine
  rw [hsb]
  simp only [List.drop_succ_cons, List.drop_zero]
  rw [hflt, runPfx_false_eq, hrun]
  simp only [Res.bind, SJ.Model.Typed.ofVisit]
  have hl : pos + (strBytes items).length - (pos + 1) = (items.flatMap StrItem.bytes ++ [0x22]).length := by
    simp [strBytes]; omega
  rw [hl, List.drop_left' rfl]

end SJ.Proofs.RawKey
