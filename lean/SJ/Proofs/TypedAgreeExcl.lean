import SJ.Proofs.TypedAgreeAll
import SJ.Spec.SchemaExcl
/-!
# The text leg of C16 with the statement's third exclusion schema-directed (`Schema.svArr`)

`RC16x`: the admissible (schema, value) pairs — no enum target with a struct variant `name` meets `{name: [...]}` on the way the
deserializers visit the value (`Spec/SchemaExcl.lean`), the value is one the build can hold, and a float that may meet a 128-bit
integer target is written with a fraction or an exponent. It is closed under the visited positions (`closed_RC16x`), so
`agree_gen` applies (`agree_all_x`). It replaces `RC16` (`JV.hasArrayPayload` over the names of ALL struct variants of the schema,
ANYWHERE in the value), which left out pairs on which the three paths agree.
-/
set_option linter.unusedSectionVars false
set_option linter.unusedVariables false

namespace SJ.Proofs.Typed
open SJ SJ.Gen SJ.Model SJ.Model.Typed

theorem svArrField_spec : ∀ (fs : List (Bytes × Schema)) (k : Bytes) (x : JV) (i : Nat) (nm : Bytes) (s : Schema),
    FromValue.nameIndex (fieldNames fs) k = some i → fs[i]? = some (nm, s) → Schema.svArrField fs k x = Schema.svArr s x
  | [], k, x, i, nm, s, h, _ => by simp [fieldNames, FromValue.nameIndex] at h
  | (n, s0) :: fs, k, x, i, nm, s, h, hfi => by
    simp only [fieldNames, List.map_cons, FromValue.nameIndex] at h
    simp only [Schema.svArrField]
    by_cases hn : (n == k) = true
    · simp only [hn, if_true, Option.some.injEq] at h ⊢
      subst h
      simp only [List.getElem?_cons_zero, Option.some.injEq, Prod.mk.injEq] at hfi
      rw [hfi.2]
    · simp only [hn, Bool.false_eq_true, if_false] at h ⊢
      cases hr : FromValue.nameIndex (List.map (fun x => x.1) fs) k with
      | none => simp [hr] at h
      | some j =>
        simp only [hr, Option.map_some, Option.some.injEq] at h
        subst h
        simp only [List.getElem?_cons_succ] at hfi
        exact svArrField_spec fs k x j nm s (by simpa [fieldNames] using hr) hfi

theorem svArrVariants_mem : ∀ (vs : List (Bytes × VariantShape)) (single : Bool) (k : Bytes) (x : JV) (sh : VariantShape),
    (k, sh) ∈ vs → Schema.svArrVariants vs single k x = false → VariantShape.svArr sh single x = false
  | [], _, _, _, _, h, _ => by simp at h
  | (n, sh0) :: vs, single, k, x, sh, h, hf => by
    simp only [Schema.svArrVariants, Bool.or_eq_false_iff, Bool.and_eq_false_iff] at hf
    rcases List.mem_cons.mp h with h | h
    · cases h
      rcases hf.1 with hne | hv
      · simp at hne
      · exact hv
    · exact svArrVariants_mem vs single k x sh h hf.2

variable (ext : Spec.Program.Ext)

/-- C16's admissibility, schema-directed -/
def RC16x (c : Spec.Canon.Cfg) (s : Schema) (v : JV) : Prop :=
  Schema.svArr s v = false ∧ Spec.WF.shapeOK c v = true ∧ (has128 s = false ∨ floatsPointed ext v = true)

theorem tupRx_list (c : Spec.Canon.Cfg) : ∀ (ss : List Schema) (xs : List JV), Schema.svArrList ss xs = false →
    Spec.WF.shapeOKs c xs = true → (has128List ss = false ∨ floatsPointeds ext xs = true) → TupR (RC16x ext c) ss xs
  | [], _, _, _, _ => trivial
  | _ :: _, [], _, _, _ => trivial
  | s :: ss, x :: xs, h, hs, h8 => by
    simp only [Schema.svArrList, Bool.or_eq_false_iff] at h
    simp only [Spec.WF.shapeOKs, Bool.and_eq_true] at hs
    exact ⟨⟨h.1, hs.1, h8.imp (fun h' => by simp only [has128List, Bool.or_eq_false_iff] at h'; exact h'.1)
        (fun h' => by simp only [floatsPointeds, Bool.and_eq_true] at h'; exact h'.1)⟩,
      tupRx_list c ss xs h.2 hs.2 (h8.imp (fun h' => by simp only [has128List, Bool.or_eq_false_iff] at h'; exact h'.2)
        (fun h' => by simp only [floatsPointeds, Bool.and_eq_true] at h'; exact h'.2))⟩

theorem tupRx_fields (c : Spec.Canon.Cfg) : ∀ (fs : List (Bytes × Schema)) (xs : List JV), Schema.svArrFieldsArr fs xs = false →
    Spec.WF.shapeOKs c xs = true → (has128Fields fs = false ∨ floatsPointeds ext xs = true) → TupR (RC16x ext c) (fs.map (·.2)) xs
  | [], _, _, _, _ => trivial
  | _ :: _, [], _, _, _ => trivial
  | (n, s) :: fs, x :: xs, h, hs, h8 => by
    simp only [Schema.svArrFieldsArr, Bool.or_eq_false_iff] at h
    simp only [Spec.WF.shapeOKs, Bool.and_eq_true] at hs
    exact ⟨⟨h.1, hs.1, h8.imp (fun h' => by simp only [has128Fields, Bool.or_eq_false_iff] at h'; exact h'.1)
        (fun h' => by simp only [floatsPointeds, Bool.and_eq_true] at h'; exact h'.1)⟩,
      tupRx_fields c fs xs h.2 hs.2 (h8.imp (fun h' => by simp only [has128Fields, Bool.or_eq_false_iff] at h'; exact h'.2)
        (fun h' => by simp only [floatsPointeds, Bool.and_eq_true] at h'; exact h'.2))⟩

theorem closed_RC16x (c : Spec.Canon.Cfg) : Closed (RC16x ext c) where
  option := fun s v h hnn => ⟨by
      have := h.1
      cases v <;> simp_all [Schema.svArr], h.2.1, by simpa [has128] using h.2.2⟩
  newtype := fun s v h => ⟨by simpa [Schema.svArr] using h.1, h.2.1, by simpa [has128] using h.2.2⟩
  seq := fun s xs h x hx => ⟨by
      have := h.1
      simp only [Schema.svArr, List.any_eq_false] at this
      simpa using this x hx,
    shapeOK_elem c xs x hx (by simpa [Spec.WF.shapeOK] using h.2.1),
    h.2.2.imp (by simp [has128]) (fun hn => fpt_elem ext xs x hx (by simpa [floatsPointed] using hn))⟩
  tuple := fun ss xs h => tupRx_list ext c ss xs (by simpa [Schema.svArr] using h.1) (by simpa [Spec.WF.shapeOK] using h.2.1)
    (h.2.2.imp (by simp [has128]) (by simp [floatsPointed]))
  map := fun k s kvs h kv hx => ⟨by
      have := h.1
      simp only [Schema.svArr, List.any_eq_false] at this
      simpa using this kv hx,
    shapeOK_member c kvs kv hx (by have := h.2.1; simp only [Spec.WF.shapeOK, Bool.and_eq_true] at this; exact this.2),
    h.2.2.imp (by simp [has128]) (fun hn => fpt_member ext kvs kv hx (by simpa [floatsPointed] using hn))⟩
  structArr := fun fs d xs h => tupRx_fields ext c fs xs (by simpa [Schema.svArr] using h.1) (by simpa [Spec.WF.shapeOK] using h.2.1)
    (h.2.2.imp (by simp [has128]) (by simp [floatsPointed]))
  structObj := fun fs d kvs h kv hx i nm s hni hfi => ⟨by
      have := h.1
      simp only [Schema.svArr, List.any_eq_false] at this
      have h1 := this kv hx
      rw [svArrField_spec fs kv.1 kv.2 i nm s hni hfi] at h1
      simpa using h1,
    shapeOK_member c kvs kv hx (by have := h.2.1; simp only [Spec.WF.shapeOK, Bool.and_eq_true] at this; exact this.2),
    h.2.2.imp (fun h8 => has128_mem_fields fs s (List.mem_map.mpr ⟨(nm, s), List.mem_of_getElem? hfi, rfl⟩) (by simpa [has128] using h8))
      (fun hn => fpt_member ext kvs kv hx (by simpa [floatsPointed] using hn))⟩
  enumPayload := fun vs k x kvs h sh hmem => by
    have hv : VariantShape.svArr sh kvs.isEmpty x = false :=
      svArrVariants_mem vs kvs.isEmpty k x sh hmem (by simpa [Schema.svArr] using h.1)
    have hsx : Spec.WF.shapeOK c x = true :=
      shapeOK_member c ((k, x) :: kvs) (k, x) (by simp) (by
        have := h.2.1; simp only [Spec.WF.shapeOK, Bool.and_eq_true] at this; exact this.2)
    have h8 : has128Shape sh = false ∨ floatsPointed ext x = true :=
      h.2.2.imp (fun h8 => has128_mem_variants vs k sh hmem (by simpa [has128] using h8))
        (fun hn => fpt_member ext ((k, x) :: kvs) (k, x) (by simp) (by simpa [floatsPointed] using hn))
    cases sh with
    | unit => trivial
    | newtype s => exact ⟨by simpa [VariantShape.svArr] using hv, hsx, by simpa [has128Shape] using h8⟩
    | tuple ss => exact ⟨by simpa [VariantShape.svArr, Schema.svArr] using hv, hsx, by simpa [has128Shape, has128] using h8⟩
    | struct_ fs =>
      refine ⟨?_, hsx, by simpa [has128Shape, has128] using h8⟩
      cases x <;> simp_all [VariantShape.svArr, Schema.svArr]
  enumExcl := fun vs k x h fs hmem xs hx => by
    subst hx
    have hv := svArrVariants_mem vs true k (.arr xs) (.struct_ fs) hmem (by simpa [Schema.svArr] using h.1)
    simp [VariantShape.svArr] at hv

variable (hext : Spec.Program.ExtOK ext)
include hext
variable {a : Bool}

/-- the text leg for C16's hypotheses, the exclusion schema-directed -/
theorem agree_all_x {env : Env} (hflt : env.flt = false) (hapE : env.cfg.ap = false) (cfg' : FromValue.Cfg) (hap : cfg'.ap = false)
    (ext' : FromValue.Ext) :
    ∀ (f : Nat) (s : Schema), Schema.size s ≤ f → fragP a s = true →
      ∀ (t : Nat) (v : JV), VOK v → Spec.WF.floatsRT (SJ.Proofs.CanonM.specCfg env.cfg) ext v = true → DepthOK env t v →
      Schema.svArr s v = false →
      Spec.WF.shapeOK (SJ.Proofs.CanonM.specCfg env.cfg) v = true → (has128 s = false ∨ floatsPointed ext v = true) →
      Agree1w (deTyped env f t s) (FromValue.fromValue cfg' ext' s v) (T ext v) :=
  fun f s hs hfr t v hv hF hd hnap hsh h8 =>
    agree_gen ext hext hflt hapE cfg' hap ext' (RC16x ext _) (closed_RC16x ext _) (fun _ v h => h.2.1)
      (fun w v h h128 b hb => by
        subst hb
        rcases h.2.2 with h8 | hn
        · simp only [has128] at h8; rw [h128] at h8; cases h8
        · simpa [floatsPointed] using hn)
      (fun v h => intRangeOK_of_shapeOK _ v h.2.1) f s hs hfr t v hv hF hd ⟨hnap, hsh, h8⟩

end SJ.Proofs.Typed
