import SJ.Model.MachineRv
import SJ.Proofs.MachineApTok
/-!
# The nested `from_str` of `MachineRv`: the fuel never runs out

`MachineRv.run` takes the parser for the string behind a raw token as a parameter. It calls it only on the decoded content of
a string literal of the text it is reading, and that content is strictly shorter than the text: `potStr` bounds the length
of what has been decoded so far by the number of bytes consumed since the opening quote (every escape consumes at least as
many bytes as it produces). Hence

* `run_congr`: two nested parsers that agree on every text shorter than the input give the same run;
* `parseFuel_stable`: any two fuels above the length of the input give the same outcome;
* `parseTop_eq`: `parseTop renv bs = rrun (parseTop renv.inner) renv init 0 bs` — the recursion equation of the crate's code
  (`crate::from_str` inside `visit_map`), with no fuel in sight.
-/
namespace SJ.Proofs.MachineRv
open SJ SJ.Gen SJ.Model SJ.Model.Machine
open SJ.Model.MachineRv (REnv RPhase stepRaw parseFuel parseTop nestedResult)
open SJ.Model.MachineRv renaming step1 → rstep1, step → rstep, run → rrun, Outcome → ROut, Step → RStep, St → RSt,
  finish → rfinish, init → rinit, triggered → rtriggered, liftStep → rliftStep

/-! ## the potential -/

/-- bytes consumed by an escape sequence that has not produced its output yet -/
def credit : EscSt → Nat
  | .none => 0
  | .bs => 1
  | .hex acc lead => (if lead.isSome then 8 else 2) + acc.length
  | .lead1 _ => 6
  | .lead2 _ => 7

/-- a lower bound for the number of bytes consumed since (and including) the opening quote -/
def potStr (st : StrSt) : Nat := st.out.length + credit st.esc + 1

def pot : RSt → Nat
  | .raw (.str st) _ => potStr st
  | _ => 0

theorem utf8_length_le (cp : Nat) : (Spec.Denote.utf8 cp).length ≤ 4 := by
  unfold Spec.Denote.utf8
  repeat' split
  all_goals simp

/-- one byte of a string literal raises the potential by at most one -/
theorem potStr_step (env : Env) (s : Machine.St) (st st' : StrSt) (b : UInt8)
    (h : stepStr env s st b = .next { s with mode := .str st' }) : potStr st' ≤ potStr st + 1 := by
  obtain ⟨out, esc, k, e⟩ := st
  obtain ⟨mode, fs⟩ := s
  unfold stepStr at h
  cases esc with
  | none =>
    simp only at h
    split at h
    · exact absurd rfl (SJ.Proofs.MachineAp.endStr_not_str env _ _ _ h st')
    split at h
    · simp only [Step.next.injEq, Machine.St.mk.injEq, Mode.str.injEq, and_true] at h
      subst h; simp [potStr, credit]
    split at h
    · cases h
    · simp only [Step.next.injEq, Machine.St.mk.injEq, Mode.str.injEq, and_true] at h
      subst h; simp [potStr, credit]
  | bs =>
    simp only at h
    split at h
    · simp only [Step.next.injEq, Machine.St.mk.injEq, Mode.str.injEq, and_true] at h
      subst h; simp [potStr, credit]
    split at h
    · simp only [Step.next.injEq, Machine.St.mk.injEq, Mode.str.injEq, and_true] at h
      subst h; simp [potStr, credit]
    · cases h
  | hex acc lead =>
    simp only at h
    split at h
    · simp only [Step.next.injEq, Machine.St.mk.injEq, Mode.str.injEq, and_true] at h
      subst h; simp [potStr, credit]; omega
    · rename_i hlen
      simp only [List.length_append, List.length_cons, List.length_nil, Nat.not_lt] at hlen
      split at h
      · cases h
      · rename_i n _
        split at h
        · simp only [Step.next.injEq, Machine.St.mk.injEq, Mode.str.injEq, and_true] at h
          subst h; simp [potStr, credit]; omega
        · cases lead with
          | none =>
            simp only at h
            repeat' split at h
            all_goals first
              | (cases h; done)
              | (simp only [Step.next.injEq, Machine.St.mk.injEq, Mode.str.injEq, and_true] at h
                 subst h
                 have := utf8_length_le n
                 simp [potStr, credit]; omega)
          | some n1 =>
            simp only at h
            split at h
            · cases h
            · simp only [Step.next.injEq, Machine.St.mk.injEq, Mode.str.injEq, and_true] at h
              subst h
              have := utf8_length_le (0x10000 + (n1 - 0xD800) * 0x400 + (n - 0xDC00))
              simp [potStr, credit]; omega
  | lead1 n1 =>
    simp only at h
    split at h
    · simp only [Step.next.injEq, Machine.St.mk.injEq, Mode.str.injEq, and_true] at h
      subst h; simp [potStr, credit]
    · cases h
  | lead2 n1 =>
    simp only at h
    split at h
    · simp only [Step.next.injEq, Machine.St.mk.injEq, Mode.str.injEq, and_true] at h
      subst h; simp [potStr, credit]
    · cases h

/-! ## one step -/

/-- a string phase step: stays inside the string, or closes it with the decoded text `st.out.reverse` -/
theorem stepStr_scratch_cases (env : Env) (st : StrSt) (b : UInt8) (s' : Machine.St)
    (h : stepStr env ⟨.str st, []⟩ st b = .next s') :
    (∃ st', s' = ⟨.str st', []⟩) ∨ s' = ⟨.done (if env.tgt = .value then .str st.out.reverse else .null), []⟩ := by
  rcases SJ.Proofs.MachineAp.stepStr_next_shape env _ st b s' h with ⟨st', rfl⟩ | hend
  · exact .inl ⟨st', rfl⟩
  · exact .inr (SJ.Proofs.MachineAp.endStr_scratch env _ st s' hend).2

theorem stepRaw_congr (f g : Bytes → ROut) (renv : REnv) (p : RPhase) (fs : List Frame) (b : UInt8)
    (hfg : ∀ st, p = .str st → f st.out.reverse = g st.out.reverse) :
    stepRaw f renv p fs b = stepRaw g renv p fs b := by
  cases p with
  | val => rfl
  | other inner => rfl
  | endMap v => rfl
  | str st =>
    unfold stepRaw
    simp only [Model.MachineAp.scratch]
    cases h : stepStr renv.env ⟨.str st, []⟩ st b with
    | err c a => rfl
    | again s' => rfl
    | next s' =>
      rcases stepStr_scratch_cases renv.env st b s' h with ⟨st', rfl⟩ | rfl
      · rfl
      · by_cases hv : renv.env.tgt = .value
        · simp only [hv, if_true]
          rw [hfg st rfl]
        · simp only [hv, if_false]

theorem step1_congr (f g : Bytes → ROut) (renv : REnv) (s : RSt) (b : UInt8)
    (hfg : ∀ st fs, s = .raw (.str st) fs → f st.out.reverse = g st.out.reverse) :
    rstep1 f renv s b = rstep1 g renv s b := by
  cases s with
  | ap a => cases a <;> rfl
  | raw p fs =>
    show stepRaw f renv p fs b = stepRaw g renv p fs b
    exact stepRaw_congr f g renv p fs b fun st hp => hfg st fs (by rw [hp])

theorem stepRaw_not_again (f : Bytes → ROut) (renv : REnv) (p : RPhase) (fs : List Frame) (b : UInt8) (s' : RSt) :
    stepRaw f renv p fs b ≠ RStep.again s' := by
  unfold stepRaw
  cases p with
  | val =>
    simp only
    repeat' split
    all_goals simp
  | str st =>
    simp only
    repeat' split
    all_goals first | (simp; done) | skip
    all_goals (unfold nestedResult; split <;> simp)
  | other inner =>
    simp only
    repeat' split
    all_goals simp
  | endMap v =>
    simp only
    repeat' split
    all_goals simp

/-- a re-dispatch happens only outside the raw phases, where the nested parser plays no part -/
theorem step1_again_ap (f : Bytes → ROut) (renv : REnv) (s s' : RSt) (b : UInt8) (h : rstep1 f renv s b = .again s') :
    ∃ a, s' = .ap a := by
  cases s with
  | raw p fs => exact absurd h (stepRaw_not_again f renv p fs b s')
  | ap a =>
    cases a with
    | base m =>
      simp only [rstep1] at h
      split at h
      · cases h
      · cases hm : Model.MachineAp.step1 renv.env (.base m) b <;> rw [hm] at h <;> simp only [rliftStep] at h <;>
          first | (cases h; done) | exact ⟨_, (RStep.again.inj h).symm⟩
    | tok p fs =>
      simp only [rstep1] at h
      cases hm : Model.MachineAp.step1 renv.env (.tok p fs) b <;> rw [hm] at h <;> simp only [rliftStep] at h <;>
        first | (cases h; done) | exact ⟨_, (RStep.again.inj h).symm⟩

theorem step_congr (f g : Bytes → ROut) (renv : REnv) (s : RSt) (b : UInt8)
    (hfg : ∀ st fs, s = .raw (.str st) fs → f st.out.reverse = g st.out.reverse) :
    rstep f renv s b = rstep g renv s b := by
  unfold rstep
  rw [← step1_congr f g renv s b hfg]
  cases h : rstep1 f renv s b with
  | again s' =>
    obtain ⟨a, rfl⟩ := step1_again_ap f renv s s' b h
    simp only
    rw [step1_congr f g renv (.ap a) b (fun st fs hx => by cases hx)]
  | _ => rfl

/-- the potential grows by at most one per byte -/
theorem pot_step (f : Bytes → ROut) (renv : REnv) (s s' : RSt) (b : UInt8) (h : rstep f renv s b = .ok s') :
    pot s' ≤ pot s + 1 := by
  -- only a step from a string phase to a string phase has a non-trivial bound; a step INTO a string phase starts at 1
  cases s' with
  | ap a => simp [pot]
  | raw p' fs' =>
    cases p' with
    | val => simp [pot]
    | other inner => simp [pot]
    | endMap v => simp [pot]
    | str st' =>
      unfold rstep at h
      cases h1 : rstep1 f renv s b with
      | err c a => rw [h1] at h; cases h
      | data e a => rw [h1] at h; cases h
      | custom m l k => rw [h1] at h; cases h
      | again s1 =>
        rw [h1] at h
        obtain ⟨a, rfl⟩ := step1_again_ap f renv s s1 b h1
        simp only at h
        -- the second dispatch is a step of `.ap a`
        cases h2 : rstep1 f renv (.ap a) b with
        | next s2 =>
          rw [h2] at h
          simp only [Except.ok.injEq] at h
          subst h
          exact absurd h2 (by
            cases a with
            | base m =>
              simp only [rstep1]
              split
              · simp
              · cases Model.MachineAp.step1 renv.env (.base m) b <;> simp [rliftStep]
            | tok p fs => simp only [rstep1]; cases Model.MachineAp.step1 renv.env (.tok p fs) b <;> simp [rliftStep])
        | err c a' => rw [h2] at h; cases h
        | data e a' => rw [h2] at h; cases h
        | custom m l k => rw [h2] at h; cases h
        | again s2 => rw [h2] at h; cases h
      | next s1 =>
        rw [h1] at h
        simp only [Except.ok.injEq] at h
        subst h
        cases s with
        | ap a =>
          exfalso
          cases a with
          | base m =>
            simp only [rstep1] at h1
            split at h1
            · cases h1
            · cases hm : Model.MachineAp.step1 renv.env (.base m) b <;> rw [hm] at h1 <;> simp [rliftStep] at h1
          | tok p fs =>
            simp only [rstep1] at h1
            cases hm : Model.MachineAp.step1 renv.env (.tok p fs) b <;> rw [hm] at h1 <;> simp [rliftStep] at h1
        | raw p fs =>
          change stepRaw f renv p fs b = _ at h1
          cases p with
          | val =>
            unfold stepRaw at h1
            simp only at h1
            repeat' split at h1
            all_goals first
              | (cases h1; done)
              | (simp only [RStep.next.injEq, RSt.raw.injEq, RPhase.str.injEq] at h1
                 obtain ⟨rfl, _⟩ := h1
                 simp [pot, potStr, credit])
              | (simp at h1)
          | other inner =>
            unfold stepRaw at h1
            simp only at h1
            repeat' split at h1
            all_goals first | (cases h1; done) | (simp at h1)
          | endMap v =>
            unfold stepRaw at h1
            simp only at h1
            repeat' split at h1
            all_goals first | (cases h1; done) | (simp at h1)
          | str st =>
            unfold stepRaw at h1
            simp only [Model.MachineAp.scratch] at h1
            cases hs : stepStr renv.env ⟨.str st, []⟩ st b with
            | err c a => rw [hs] at h1; cases h1
            | again s2 => rw [hs] at h1; cases h1
            | next s2 =>
              rw [hs] at h1
              rcases stepStr_scratch_cases renv.env st b s2 hs with ⟨st2, rfl⟩ | rfl
              · simp only [RStep.next.injEq, RSt.raw.injEq, RPhase.str.injEq] at h1
                obtain ⟨rfl, _⟩ := h1
                exact potStr_step renv.env ⟨.str st, []⟩ st st2 b hs
              · exfalso
                by_cases hv : renv.env.tgt = .value
                · simp only [hv, if_true] at h1
                  unfold nestedResult at h1
                  split at h1 <;> simp at h1
                · simp only [hv, if_false] at h1
                  cases h1

/-! ## runs -/

/-- **two nested parsers that agree on every text shorter than what the potential and the unread input allow give the same
    run** -/
theorem run_congr (f g : Bytes → ROut) (renv : REnv) : ∀ (bs : Bytes) (s : RSt) (i : Nat),
    (∀ txt : Bytes, txt.length < pot s + bs.length → f txt = g txt) → rrun f renv s i bs = rrun g renv s i bs
  | [], s, i, _ => by unfold rrun; rfl
  | b :: bs, s, i, hfg => by
    have hstep : rstep f renv s b = rstep g renv s b := by
      apply step_congr
      intro st fs hs
      subst hs
      apply hfg
      simp only [pot, potStr, List.length_reverse, List.length_cons]
      omega
    unfold rrun
    rw [← hstep]
    cases hs : rstep f renv s b with
    | error e => cases e <;> rfl
    | ok s' =>
      simp only
      apply run_congr f g renv bs s' (i + 1)
      intro txt htxt
      apply hfg
      have := pot_step f renv s s' b hs
      simp only [List.length_cons]
      omega

theorem pot_init : pot rinit = 0 := rfl

/-- **the fuel never runs out**: any two fuels above the length of the input give the same outcome -/
theorem parseFuel_stable : ∀ (n m : Nat) (renv : REnv) (bs : Bytes), bs.length < n → bs.length < m →
    parseFuel n renv bs = parseFuel m renv bs
  | 0, _, _, _, h, _ => by cases h
  | _ + 1, 0, _, _, _, h => by cases h
  | n + 1, m + 1, renv, bs, hn, hm => by
    show rrun (parseFuel n renv.inner) renv _ 0 bs = rrun (parseFuel m renv.inner) renv _ 0 bs
    apply run_congr
    intro txt htxt
    rw [pot_init, Nat.zero_add] at htxt
    exact parseFuel_stable n m renv.inner txt (by omega) (by omega)

/-- `parseTop` with any fuel above the length -/
theorem parseTop_eq_fuel (n : Nat) (renv : REnv) (bs : Bytes) (h : bs.length < n) : parseTop renv bs = parseFuel n renv bs :=
  parseFuel_stable _ _ renv bs (Nat.lt_succ_self _) h

/-- **the recursion equation**: the parser for the string behind a raw token is the parser itself, in the environment of
    the nested `from_str` -/
theorem parseTop_eq (renv : REnv) (bs : Bytes) :
    parseTop renv bs = rrun (parseTop renv.inner) renv rinit 0 bs := by
  show rrun (parseFuel bs.length renv.inner) renv _ 0 bs = _
  apply run_congr
  intro txt htxt
  rw [pot_init, Nat.zero_add] at htxt
  exact (parseTop_eq_fuel bs.length renv.inner txt htxt).symm

end SJ.Proofs.MachineRv
