import SJ.Model.StreamTypedDepth
import SJ.Proofs.StreamDepth
import SJ.Proofs.TypedAgreePad
/-!
# C14 / C12 helper lemmas: a nested `Value` read with the explicit counter (`runPfxD`) is `runPfx`, counter restored

The machine runs on `t` padding frames; `Proofs.Typed.Rel (padStack t)` (the stack is some machine frames on top of the
padding) holds along the run until the value completes (`Fin`), `Proofs.StreamDepth.DInv` (`counter + stack height = 128`)
makes the instrumented step the plain one (`step1D_spec`). So when the value completes the stack is the padding again and
the counter is what it was; an error unwinds the machine's own frames (`unwindT`).
-/
namespace SJ.Proofs.StreamTypedDepth
open SJ SJ.Gen SJ.Model SJ.Model.Typed SJ.Model.StreamTypedDepth
open SJ.Model.Machine (St Mode Frame Step step1 errIdx endNumber finishMode init complete)
open SJ.Model.StreamDepth (step1D)
open SJ.Proofs.StreamDepth (DInv step1D_spec h128)
open SJ.Proofs.Typed (Rel Fin StepRel sim_step1 sim_endNumber completed_rel completed_fin padStack_length unlim finishMode_ok_done)

/-- the counter after a run of the machine that started at `d0 = 128 - t` -/
def PostM (t : Nat) (o : MOut × Nat) : Prop :=
  o.2 + t = Gen.remainingDepthInit ∨ (o.2 + 1 + t = Gen.remainingDepthInit ∧ ∃ i, o.1 = .err .RecursionLimitExceeded i)

theorem rel_len {t : Nat} {s u : St} (h : Rel (padStack t) s u) : s.stack.length = u.stack.length + t := by
  rw [h.1, List.length_append, padStack_length]

theorem fin_len {t : Nat} {s u : St} (h : Fin (padStack t) s u) : s.stack.length = t := by
  obtain ⟨v, rfl, _⟩ := h
  rw [SJ.Proofs.StreamDepth.complete_len, padStack_length]

/-- with the limit switched off the instrumented run is the plain run and the counter does not move -/
theorem runPfxD_off (menv : Machine.Env) (hc : StreamDepth.counting menv = false) (flt : Bool) (t : Nat) (bs : Bytes) :
    ∀ (s : St) (d i : Nat), runPfxD menv flt t s d i bs = (runPfx menv flt t s i bs, d) := by
  have hstep : ∀ s d b, step1D menv s d b = (step1 menv s b, d) := by intro s d b; simp [step1D, hc]
  induction bs with
  | nil =>
    intro s d i
    unfold runPfxD runPfx
    simp only [unwindT, hc, Bool.false_eq_true, if_false]
    by_cases hf : flt = true
    · simp only [hf, if_true]
    · simp only [hf, Bool.false_eq_true, if_false]
      cases finishT menv t s <;> rfl
  | cons b bs ih =>
    intro s d i
    unfold runPfxD runPfx
    rw [hstep]
    cases h1 : step1 menv s b with
    | err c a => simp only [unwindT, hc, Bool.false_eq_true, if_false]
    | next s' =>
      simp only
      cases completed t s' with
      | some v => rfl
      | none => exact ih s' d (i + 1)
    | again s' =>
      simp only
      cases completed t s' with
      | some v => rfl
      | none =>
        simp only
        rw [hstep]
        cases h2 : step1 menv s' b with
        | err c a => simp only [unwindT, hc, Bool.false_eq_true, if_false]
        | next s'' =>
          simp only
          cases completed t s'' with
          | some v => rfl
          | none => exact ih s'' d (i + 1)
        | again s'' => simp only [unwindT, hc, Bool.false_eq_true, if_false]

/-- what `step1D_spec` says about an error, in terms of `unwindT` -/
theorem unwindT_err (menv : Machine.Env) (hc : StreamDepth.counting menv = true) (t : Nat) (s u : St)
    (hrel : Rel (padStack t) s u) (d' : Nat) (c : Code) (idx : Nat)
    (h : (c ≠ .RecursionLimitExceeded ∧ StreamDepth.unwind menv s d' = Gen.remainingDepthInit) ∨
      (c = .RecursionLimitExceeded ∧ StreamDepth.unwind menv s d' + 1 = Gen.remainingDepthInit)) :
    PostM t (MOut.err c idx, unwindT menv t s d') := by
  have hl := rel_len hrel
  simp only [StreamDepth.unwind, hc, if_true] at h
  unfold PostM
  simp only [unwindT, hc, if_true]
  rcases h with ⟨_, h⟩ | ⟨hc', h⟩
  · left; omega
  · right; exact ⟨by omega, idx, by rw [hc']⟩

/-- **the instrumented run of a nested `Value` is the plain run**, and the counter is back where it started when the value
    is complete or an error has left the machine — except that `RecursionLimitExceeded` leaves one unit behind -/
theorem runPfxD_on (menv : Machine.Env) (hc : StreamDepth.counting menv = true) (flt : Bool) (t : Nat) (bs : Bytes) :
    ∀ (s u : St) (d i : Nat), Rel (padStack t) s u → DInv menv s d →
      (runPfxD menv flt t s d i bs).1 = runPfx menv flt t s i bs ∧ PostM t (runPfxD menv flt t s d i bs) := by
  induction bs with
  | nil =>
    intro s u d i hrel hi
    have hl := rel_len hrel
    obtain ⟨hd, _⟩ := hi hc
    have hunw : unwindT menv t s d + t = Gen.remainingDepthInit := by simp only [unwindT, hc, if_true]; omega
    unfold runPfxD runPfx
    by_cases hf : flt = true
    · simp only [hf, if_true]; exact ⟨trivial, .inl hunw⟩
    · simp only [hf, Bool.false_eq_true, if_false]
      cases hft : finishT menv t s with
      | error c => exact ⟨rfl, .inl hunw⟩
      | ok v =>
        refine ⟨rfl, .inl ?_⟩
        show d + t = Gen.remainingDepthInit
        -- a value that completes at the end of input is a number standing directly on the padding
        suffices hst : s.stack.length = t by omega
        obtain ⟨hs, hm, htop, hnd⟩ := hrel
        have hrel : Rel (padStack t) s u := ⟨hs, hm, htop, hnd⟩
        unfold finishT at hft
        cases hmode : s.mode with
        | num n =>
          rw [hmode] at hft
          simp only at hft
          have hen := sim_endNumber menv (padStack t) s u hrel n
          cases hph : n.phase <;> rw [hph] at hft <;> simp only at hft
          all_goals first
            | (simp at hft; done)
            | (cases h1 : endNumber menv s n with
               | error er => rw [h1] at hft; simp at hft
               | ok s' =>
                 obtain ⟨v', hs'⟩ := SJ.Proofs.Machine.endNumber_ok menv s n s' h1
                 have hlen : s'.stack.length = s.stack.length := by rw [hs', SJ.Proofs.StreamDepth.complete_len]
                 cases h2 : endNumber (unlim menv) u n with
                 | error er => rw [h1, h2] at hen; exact hen.elim
                 | ok u' =>
                   rw [h1, h2] at hen
                   rw [h1] at hft
                   simp only at hen hft
                   rcases hen with hr | hfin
                   · rw [completed_rel t s' u' hr] at hft
                     simp only at hft
                     have := finishMode_ok_done _ _ _ hft
                     exact absurd this (hr.2.2.2 v)
                   · rw [← hlen]; exact fin_len hfin)
        | _ =>
          rw [hmode] at hft
          simp only at hft
          have := finishMode_ok_done _ _ _ hft
          rw [hmode] at this
          first | (cases this; exact absurd hmode (hnd _)) | cases this
  | cons b bs ih =>
    intro s u d i hrel hi
    obtain ⟨h1, hn, ha, he⟩ := step1D_spec menv s d b hi
    have hst := sim_step1 menv (padStack t) s u hrel b
    unfold runPfxD runPfx
    generalize hsd : step1D menv s d b = sd at h1 hn ha he
    obtain ⟨r, d'⟩ := sd
    simp only at h1 hn ha he
    subst h1
    cases hr : step1 menv s b with
    | err c a =>
      simp only
      exact ⟨trivial, unwindT_err menv hc t s u hrel d' c _ (he c a hr hc)⟩
    | next s' =>
      have hi' := hn s' hr
      rw [hr] at hst
      simp only
      cases h2 : step1 (unlim menv) u b with
      | err c a => rw [h2] at hst; exact hst.elim
      | again u' => rw [h2] at hst; exact hst.elim
      | next u' =>
        rw [h2] at hst
        rcases hst with hrel' | hfin
        · rw [completed_rel t s' u' hrel']
          exact ih s' u' d' (i + 1) hrel' hi'
        · obtain ⟨w, hcw, _⟩ := completed_fin t s' u' hfin
          rw [hcw]
          refine ⟨rfl, .inl ?_⟩
          have := (hi' hc).1
          rw [fin_len hfin] at this
          exact this
    | again s' =>
      have hi' := ha s' hr
      rw [hr] at hst
      simp only
      cases h2 : step1 (unlim menv) u b with
      | err c a => rw [h2] at hst; exact hst.elim
      | next u' => rw [h2] at hst; exact hst.elim
      | again u' =>
        rw [h2] at hst
        rcases hst with hrel' | hfin
        · rw [completed_rel t s' u' hrel']
          simp only
          obtain ⟨h1', hn', ha', he'⟩ := step1D_spec menv s' d' b hi'
          have hst' := sim_step1 menv (padStack t) s' u' hrel' b
          generalize hsd' : step1D menv s' d' b = sd' at h1' hn' ha' he'
          obtain ⟨r', d''⟩ := sd'
          simp only at h1' hn' ha' he'
          subst h1'
          cases hr' : step1 menv s' b with
          | err c a =>
            simp only
            exact ⟨trivial, unwindT_err menv hc t s' u' hrel' d'' c _ (he' c a hr' hc)⟩
          | again s'' =>
            exfalso
            obtain ⟨v0, rfl⟩ := SJ.Proofs.Earliest.step1_again menv s b s' hr
            exact SJ.Proofs.Complete.settled_not_again menv _ (SJ.Proofs.Complete.settled_complete _ _) b s'' hr'
          | next s'' =>
            have hi'' := hn' s'' hr'
            rw [hr'] at hst'
            simp only
            cases h3 : step1 (unlim menv) u' b with
            | err c a => rw [h3] at hst'; exact hst'.elim
            | again u'' => rw [h3] at hst'; exact hst'.elim
            | next u'' =>
              rw [h3] at hst'
              rcases hst' with hrel'' | hfin''
              · rw [completed_rel t s'' u'' hrel'']
                exact ih s'' u'' d'' (i + 1) hrel'' hi''
              · obtain ⟨w, hcw, _⟩ := completed_fin t s'' u'' hfin''
                rw [hcw]
                refine ⟨rfl, .inl ?_⟩
                have := (hi'' hc).1
                rw [fin_len hfin''] at this
                exact this
        · obtain ⟨w, hcw, _⟩ := completed_fin t s' u' hfin
          rw [hcw]
          refine ⟨rfl, .inl ?_⟩
          have := (hi' hc).1
          rw [fin_len hfin] at this
          exact this

end SJ.Proofs.StreamTypedDepth
