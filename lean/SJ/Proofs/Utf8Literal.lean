import SJ.Proofs.Utf8Str
import SJ.Proofs.Complete.Closure
/-!
# A string literal has exactly one reading

`jsontext_strBytes`: the only syntax tree of the bytes `strBytes items` (for well-formed `items`) is
`.str items` — the grammar is unambiguous on string literals. Used to specialise soundness and
completeness of the parser (C02 / C01) to a single literal: C05's decode-side statements.
-/
namespace SJ.Proofs.Utf8
open SJ SJ.Spec.Grammar SJ.Spec.Denote

theorem isUnescaped_ne {b : UInt8} (h : isUnescaped b = true) : b ≠ 0x22 ∧ b ≠ 0x5c := by
  simp only [isUnescaped, Bool.and_eq_true, bne_iff_ne, ne_eq] at h
  exact ⟨h.1.2, h.2⟩

/-- the first byte of a well-formed item is not the quote -/
theorem item_head_ne_quote (x : StrItem) (hx : x.WF = true) : ∃ c r, x.bytes = c :: r ∧ c ≠ 0x22 := by
  cases x with
  | raw b => exact ⟨b, [], rfl, (isUnescaped_ne hx).1⟩
  | esc c => exact ⟨0x5c, [c], rfl, by decide⟩
  | uni a b c d => exact ⟨0x5c, _, rfl, by decide⟩

/-- items are read off their bytes uniquely, up to the closing quote -/
theorem items_unique : ∀ (xs ys : List StrItem) (w w' : Bytes), StrWF xs = true → StrWF ys = true →
    xs.flatMap StrItem.bytes ++ 0x22 :: w = ys.flatMap StrItem.bytes ++ 0x22 :: w' → xs = ys ∧ w = w'
  | [], [], w, w', _, _, h => by simpa using h
  | [], y :: ys, w, w', _, hy, h => by
    simp only [StrWF, List.all_cons, Bool.and_eq_true] at hy
    obtain ⟨c, r, hc, hne⟩ := item_head_ne_quote y hy.1
    simp only [List.flatMap_nil, List.nil_append, List.flatMap_cons, hc, List.cons_append, List.cons.injEq] at h
    exact absurd h.1.symm hne
  | x :: xs, [], w, w', hx, _, h => by
    simp only [StrWF, List.all_cons, Bool.and_eq_true] at hx
    obtain ⟨c, r, hc, hne⟩ := item_head_ne_quote x hx.1
    simp only [List.flatMap_nil, List.nil_append, List.flatMap_cons, hc, List.cons_append, List.cons.injEq] at h
    exact absurd h.1 hne
  | x :: xs, y :: ys, w, w', hx, hy, h => by
    simp only [StrWF, List.all_cons, Bool.and_eq_true] at hx hy
    have ih := items_unique xs ys w w' hx.2 hy.2
    simp only [List.flatMap_cons, List.append_assoc] at h
    cases x with
    | raw b =>
      cases y with
      | raw b' =>
        simp only [StrItem.bytes, List.cons_append, List.nil_append, List.cons.injEq] at h
        obtain ⟨rfl, h⟩ := h
        obtain ⟨rfl, rfl⟩ := ih (by simpa using h)
        exact ⟨rfl, rfl⟩
      | esc c =>
        simp only [StrItem.bytes, List.cons_append, List.nil_append, List.cons.injEq] at h
        exact absurd h.1 (isUnescaped_ne hx.1).2
      | uni a b c d =>
        simp only [StrItem.bytes, List.cons_append, List.nil_append, List.cons.injEq] at h
        exact absurd h.1 (isUnescaped_ne hx.1).2
    | esc c =>
      cases y with
      | raw b' =>
        simp only [StrItem.bytes, List.cons_append, List.nil_append, List.cons.injEq] at h
        exact absurd h.1.symm (isUnescaped_ne hy.1).2
      | esc c' =>
        simp only [StrItem.bytes, List.cons_append, List.nil_append, List.cons.injEq, true_and] at h
        obtain ⟨rfl, h⟩ := h
        obtain ⟨rfl, rfl⟩ := ih (by simpa using h)
        exact ⟨rfl, rfl⟩
      | uni a b c' d =>
        simp only [StrItem.bytes, List.cons_append, List.nil_append, List.cons.injEq, true_and] at h
        have : isSimpleEscape c = true := hx.1
        rw [h.1] at this
        exact absurd this (by decide)
    | uni a b c d =>
      cases y with
      | raw b' =>
        simp only [StrItem.bytes, List.cons_append, List.nil_append, List.cons.injEq] at h
        exact absurd h.1.symm (isUnescaped_ne hy.1).2
      | esc c' =>
        simp only [StrItem.bytes, List.cons_append, List.nil_append, List.cons.injEq, true_and] at h
        have : isSimpleEscape c' = true := hy.1
        rw [← h.1] at this
        exact absurd this (by decide)
      | uni a' b' c' d' =>
        simp only [StrItem.bytes, List.cons_append, List.nil_append, List.cons.injEq, true_and] at h
        obtain ⟨rfl, rfl, rfl, rfl, h⟩ := h
        obtain ⟨rfl, rfl⟩ := ih (by simpa using h)
        exact ⟨rfl, rfl⟩

theorem isInt_head {ds : Bytes} (h : isInt ds = true) : ∃ d r, ds = d :: r ∧ isDigit d = true := by
  match ds, h with
  | [d], h => exact ⟨d, [], rfl, by simpa [isInt] using h⟩
  | d :: e :: es, h =>
    simp only [isInt, Bool.and_eq_true] at h
    refine ⟨d, e :: es, rfl, ?_⟩
    have := h.1
    simp only [isDigit19, isDigit, Bool.and_eq_true, decide_eq_true_eq, UInt8.le_iff_toNat_le] at this ⊢
    simp at this ⊢; omega

/-- a value that starts with a quote is a string literal -/
theorem derives_quote {v : Bytes} {t : CST} (h : Derives v t) (r : Bytes) (hv : v = 0x22 :: r) :
    ∃ items, StrWF items = true ∧ t = .str items ∧ v = strBytes items := by
  cases h with
  | null => cases hv
  | true_ => cases hv
  | false_ => cases hv
  | num p hwf =>
    exfalso
    obtain ⟨m, i, f, e⟩ := p
    simp only [NumParts.WF, Bool.and_eq_true] at hwf
    obtain ⟨d, r', rfl, hd⟩ := isInt_head hwf.1.1
    have hd' : d ≠ 0x22 := by
      intro hc; subst hc; revert hd; decide
    cases m
    · simp only [NumParts.bytes, Bool.false_eq_true, if_false, List.nil_append, List.cons_append,
        List.cons.injEq] at hv
      exact hd' hv.1
    · simp [NumParts.bytes] at hv
  | str items hwf => exact ⟨items, hwf, rfl, rfl⟩
  | arrEmpty w hw => simp at hv
  | arr w₁ body w₂ xs h₁ h₂ hne h => simp at hv
  | objEmpty w hw => simp at hv
  | obj w₁ body w₂ ms h₁ h₂ hne h => simp at hv

/-- **the only reading of a string literal** -/
theorem jsontext_strBytes (items : List StrItem) (hwf : StrWF items = true) (t : CST)
    (h : JsonText (strBytes items) t) : t = .str items := by
  obtain ⟨w₁, v, w₂, hbs, h₁, h₂, hd⟩ := h
  -- no leading whitespace: the text starts with a quote
  cases w₁ with
  | cons c w₁ =>
    exfalso
    simp only [strBytes, List.cons_append, List.nil_append, List.cons.injEq] at hbs
    have : isWs c = true := by
      have := List.all_eq_true.mp h₁ c (by simp)
      exact this
    rw [← hbs.1] at this
    exact absurd this (by decide)
  | nil =>
    simp only [List.nil_append] at hbs
    cases v with
    | nil => exact absurd rfl (Complete.derives_ne_nil hd)
    | cons c r =>
      have hc : c = 0x22 := by
        simp only [strBytes, List.cons_append, List.nil_append, List.cons.injEq] at hbs
        exact hbs.1.symm
      subst hc
      obtain ⟨items', hwf', rfl, hv⟩ := derives_quote hd r rfl
      rw [hv] at hbs
      simp only [strBytes, List.cons_append, List.nil_append, List.append_assoc, List.cons.injEq, true_and] at hbs
      have := items_unique items items' [] w₂ hwf hwf' (by simpa using hbs)
      rw [this.1]

theorem jsontext_of_strBytes (items : List StrItem) (hwf : StrWF items = true) :
    JsonText (strBytes items) (.str items) :=
  ⟨[], strBytes items, [], by simp, rfl, rfl, Derives.str items hwf⟩

end SJ.Proofs.Utf8
