import SJ.Proofs.TypedRTAll
/-!
# The typed round trip on the written text: the induction over the schema (`reads_gen`)
-/
set_option linter.unusedSectionVars false
set_option linter.unusedVariables false

namespace SJ.Proofs.TypedRT
open SJ SJ.Gen SJ.Model SJ.Model.Typed SJ.Model.TypedSer
open SJ.Spec.Image (quote)
open SJ.Proofs.Typed SJ.Proofs.TypedPretty SJ.Proofs.TypedSer
open SJ.Proofs.CanonM (specCfg)

variable (ext : Spec.Program.Ext) (L : Lay)

section
variable (hext : Spec.Program.ExtOK ext)
variable {env : Env} (hflt : env.flt = false) (hapE : env.cfg.ap = false)
include hext hflt hapE

/-- **the typed round trip on the written text.** For every schema, every well-formed typed value `tv` of it (`wfTVx`), whose
    `f64` members and floats inside `Value` members the printer / parser pair returns (`floatsRT` on the document), whose
    (finite) `f32` members `deserialize_f32` reads back from `ryu`'s binary32 digits (`h32`), within the depth budget: the typed
    deserializer on the text of the document in the layout `L` (compact or pretty), followed by a separator, a closing bracket,
    whitespace or nothing, returns `tv` and stops right after it. -/
theorem reads_gen :
    ∀ (f : Nat) (s : Schema), Schema.size s ≤ f → ∀ (t d : Nat) (tv : TVal),
      wfTVx (specCfg env.cfg) ext.ryu32 s tv = true →
      Spec.WF.floatsRT (specCfg env.cfg) ext (valueOfL ext.ryu32 s tv) = true →
      (∀ b ∈ f32sOf tv, Spec.Program.finite32 b = true → Reads (deNumber env .f32) (.f32 b) (ext.ryu32 b)) →
      DepthOK env t (valueOfL ext.ryu32 s tv) →
      Reads (deTyped env f t s) tv (TL ext L d (valueOfL ext.ryu32 s tv)) := by
  intro f
  induction f with
  | zero => intro s hs; have := size_pos s; omega
  | succ f ih =>
    intro s hs t d tv hw hF h32 hd
    have hcap : (specCfg env.cfg).ap = false := hapE
    -- the statement for a member, with the head of its text
    have ihH : ∀ (s' : Schema), Schema.size s' ≤ f → ∀ (t' d' : Nat) (x : TVal),
        wfTVx (specCfg env.cfg) ext.ryu32 s' x = true →
        Spec.WF.floatsRT (specCfg env.cfg) ext (valueOfL ext.ryu32 s' x) = true →
        (∀ b ∈ f32sOf x, Spec.Program.finite32 b = true → Reads (deNumber env .f32) (.f32 b) (ext.ryu32 b)) →
        DepthOK env t' (valueOfL ext.ryu32 s' x) →
        Reads (deTyped env f t' s') x (TL ext L d' (valueOfL ext.ryu32 s' x)) ∧ HeadOK (TL ext L d' (valueOfL ext.ryu32 s' x)) :=
      fun s' hs' t' d' x hwx hFx h32x hdx =>
        ⟨ih s' hs' t' d' x hwx hFx h32x hdx, headOK_of_top ext L hext d' _ (topOK_valueOfL ext hext _ hcap s' x hwx)⟩
    cases s with
    | bool =>
      have e1 : valueOfL ext.ryu32 .bool tv = valueOf .bool tv := by cases tv <;> rfl
      have e2 : wfTVx (specCfg env.cfg) ext.ryu32 .bool tv = wfTV .bool tv := by cases tv <;> rfl
      rw [e1] at hF hd ⊢; rw [e2] at hw
      exact reads_frag ext L hext hflt hapE .bool rfl (f + 1) hs t d tv hw hF hd
    | int w =>
      have e1 : valueOfL ext.ryu32 (.int w) tv = valueOf (.int w) tv := by cases tv <;> rfl
      have e2 : wfTVx (specCfg env.cfg) ext.ryu32 (.int w) tv = wfTV (.int w) tv := by cases tv <;> rfl
      rw [e1] at hF hd ⊢; rw [e2] at hw
      exact reads_frag ext L hext hflt hapE (.int w) rfl (f + 1) hs t d tv hw hF hd
    | f64 =>
      have e1 : valueOfL ext.ryu32 .f64 tv = valueOf .f64 tv := by cases tv <;> rfl
      have e2 : wfTVx (specCfg env.cfg) ext.ryu32 .f64 tv = wfTV .f64 tv := by cases tv <;> rfl
      rw [e1] at hF hd ⊢; rw [e2] at hw
      exact reads_frag ext L hext hflt hapE .f64 rfl (f + 1) hs t d tv hw hF hd
    | char =>
      have e1 : valueOfL ext.ryu32 .char tv = valueOf .char tv := by cases tv <;> rfl
      have e2 : wfTVx (specCfg env.cfg) ext.ryu32 .char tv = wfTV .char tv := by cases tv <;> rfl
      rw [e1] at hF hd ⊢; rw [e2] at hw
      exact reads_frag ext L hext hflt hapE .char rfl (f + 1) hs t d tv hw hF hd
    | string =>
      have e1 : valueOfL ext.ryu32 .string tv = valueOf .string tv := by cases tv <;> rfl
      have e2 : wfTVx (specCfg env.cfg) ext.ryu32 .string tv = wfTV .string tv := by cases tv <;> rfl
      rw [e1] at hF hd ⊢; rw [e2] at hw
      exact reads_frag ext L hext hflt hapE .string rfl (f + 1) hs t d tv hw hF hd
    | bytes =>
      have e1 : valueOfL ext.ryu32 .bytes tv = valueOf .bytes tv := by cases tv <;> rfl
      have e2 : wfTVx (specCfg env.cfg) ext.ryu32 .bytes tv = wfTV .bytes tv := by cases tv <;> rfl
      rw [e1] at hF hd ⊢; rw [e2] at hw
      exact reads_frag ext L hext hflt hapE .bytes rfl (f + 1) hs t d tv hw hF hd
    | unit =>
      have e1 : valueOfL ext.ryu32 .unit tv = valueOf .unit tv := rfl
      have e2 : wfTVx (specCfg env.cfg) ext.ryu32 .unit tv = wfTV .unit tv := by cases tv <;> rfl
      rw [e1] at hF hd ⊢; rw [e2] at hw
      exact reads_frag ext L hext hflt hapE .unit rfl (f + 1) hs t d tv hw hF hd
    | unitStruct =>
      have e1 : valueOfL ext.ryu32 .unitStruct tv = valueOf .unitStruct tv := rfl
      have e2 : wfTVx (specCfg env.cfg) ext.ryu32 .unitStruct tv = wfTV .unitStruct tv := by cases tv <;> rfl
      rw [e1] at hF hd ⊢; rw [e2] at hw
      exact reads_frag ext L hext hflt hapE .unitStruct rfl (f + 1) hs t d tv hw hF hd
    | f32 =>
      cases tv with
      | f32 b =>
        simp only [valueOfL]
        rw [deTyped_f32, TL_scalar ext L d _ (fun _ h => by cases h) (fun _ h => by cases h), T_lit]
        exact h32 b (by simp [f32sOf]) (by simpa [wfTVx] using hw)
      | _ => simp [wfTVx] at hw
    | any =>
      cases tv with
      | any j =>
        simp only [wfTVx] at hw
        simp only [valueOfL] at hF hd ⊢
        have hv : VOK j := shapeW_of_shapeOK _ hcap j hw
        have hag := agree_any_L ext L hext hflt { po := env.cfg.po, fr := env.cfg.fr, ap := false } rfl {} d f t j hv hd hw hF
        have hfv : FromValue.fromValue { po := env.cfg.po, fr := env.cfg.fr, ap := false } {} .any j = .ok (.any j) := by
          simp [FromValue.fromValue, SJ.Proofs.FromValue.rebuild_id { po := env.cfg.po, fr := env.cfg.fr, ap := false } {} rfl j
            (finiteFloats_of_shapeW j hv)]
        rw [hfv] at hag
        exact hag
      | _ => simp [wfTVx] at hw
    | ignored => simp [wfTVx] at hw
    | newtype s' =>
      rw [deTyped_newtype]
      simp only [wfTVx] at hw
      simp only [valueOfL] at hF hd ⊢
      exact ih s' (by simp only [Schema.size] at hs; omega) t d tv hw hF h32 hd
    | option s' =>
      cases tv with
      | none =>
        simp only [valueOfL]
        exact reads_none ext L hflt s' f t d
      | some x =>
        simp only [wfTVx, Bool.and_eq_true, Bool.not_eq_true'] at hw
        simp only [valueOfL] at hF hd ⊢
        have hne : valueOfL ext.ryu32 s' x ≠ JV.null := by
          intro e
          have := hw.2
          rw [e] at this
          exact absurd this (by decide)
        have hr := ih s' (by simp only [Schema.size] at hs; omega) t d x hw.1 hF (fun b hb => h32 b (by simpa [f32sOf] using hb)) hd
        obtain ⟨c, tl, hT, hwc, _, hn⟩ := TL_headL ext L hext d _ (topOK_valueOfL ext hext _ hcap s' x hw.1)
        exact reads_some s' f t x _ hr ⟨c, tl, hT, hwc, hn hne⟩
      | _ => simp [wfTVx] at hw
    | seq s' =>
      cases tv with
      | seq xs =>
        simp only [wfTVx, List.all_eq_true] at hw
        simp only [valueOfL] at hF hd ⊢
        have hFs : Spec.WF.floatsRTs (specCfg env.cfg) ext (xs.map (valueOfL ext.ryu32 s')) = true := by
          simpa [Spec.WF.floatsRT] using hF
        refine reads_seq ext L hext hflt d s' f t _ xs hd (seqReads_map ext L _ (d + 1) _ xs fun x hx => ?_)
        have hmem : valueOfL ext.ryu32 s' x ∈ xs.map (valueOfL ext.ryu32 s') := List.mem_map.mpr ⟨x, hx, rfl⟩
        exact ihH s' (by simp only [Schema.size] at hs; omega) (t + 1) (d + 1) x (hw x hx) (frt_elem _ _ _ _ hmem hFs)
          (fun b hb => h32 b (by simp only [f32sOf]; exact f32s_elem xs x hx b hb)) (depthOK_elem t _ _ hmem hd)
      | _ => simp [wfTVx] at hw
    | tuple ss =>
      cases tv with
      | seq xs =>
        simp only [wfTVx] at hw
        simp only [valueOfL] at hF hd ⊢
        refine reads_tuple ext L hext hflt d ss f t _ xs hd ?_
        exact tupReads_gen ext L hext hflt hapE _ (deTyped env f (t + 1)) (t + 1) (d + 1) (fun s' => Schema.size s' ≤ f)
          (fun b => Spec.Program.finite32 b = true → Reads (deNumber env .f32) (.f32 b) (ext.ryu32 b))
          (fun s' x hq hwx hFx h32x hdx => ihH s' hq (t + 1) (d + 1) x hwx hFx h32x hdx) ss xs
          (fun s' hs' => by have := size_mem_list ss s' hs'; simp only [Schema.size] at hs; omega) hw
          (by simpa [Spec.WF.floatsRT] using hF) (fun b hb => h32 b (by simpa [f32sOf] using hb))
          (fun x hx => depthOK_elem t _ x hx hd)
      | _ => simp [wfTVx] at hw
    | map k s' =>
      cases tv with
      | map kvs =>
        simp only [wfTVx, List.all_eq_true, Bool.and_eq_true] at hw
        simp only [valueOfL] at hF hd ⊢
        have hFm : Spec.WF.floatsRTm (specCfg env.cfg) ext (kvs.map fun kv => (keyText k kv.1, valueOfL ext.ryu32 s' kv.2)) = true := by
          simpa [Spec.WF.floatsRT] using hF
        refine reads_map ext L d k (keyAgree_frag ext hext hflt k rfl) s' f t _ kvs hd
          (mapReads_map ext L k _ (d + 1) _ kvs fun kv hkv => ⟨(hw kv hkv).1, ?_⟩)
        have hmem : (keyText k kv.1, valueOfL ext.ryu32 s' kv.2) ∈ kvs.map fun kv => (keyText k kv.1, valueOfL ext.ryu32 s' kv.2) :=
          List.mem_map.mpr ⟨kv, hkv, rfl⟩
        exact ih s' (by simp only [Schema.size] at hs; omega) (t + 1) (d + 1) kv.2 (hw kv hkv).2 (frt_member _ _ _ _ hmem hFm)
          (fun b hb => h32 b (by simp only [f32sOf]; exact f32s_pair kvs kv hkv b hb)) (depthOK_member t _ _ hmem hd)
      | _ => simp [wfTVx] at hw
    | struct_ fs deny =>
      cases tv with
      | struct_ xs =>
        simp only [wfTVx, Bool.and_eq_true, namesOK, List.all_eq_true] at hw
        simp only [valueOfL] at hF hd ⊢
        rw [deTyped_struct]
        refine reads_deStruct ext L hflt d (deTyped env f) (fun t' s' => deTyped_pad f t' s') fs deny t _ xs hd hw.1.2 ?_
        exact fieldReads_gen ext L hext hflt hapE _ (deTyped env f (t + 1)) (t + 1) (d + 1) (fun s' => Schema.size s' ≤ f)
          (fun b => Spec.Program.finite32 b = true → Reads (deNumber env .f32) (.f32 b) (ext.ryu32 b))
          (fun s' x hq hwx hFx h32x hdx => ih s' hq (t + 1) (d + 1) x hwx hFx h32x hdx) fs xs
          (fun fld hfld => by have := size_mem_fields fs fld hfld; simp only [Schema.size] at hs; omega)
          (fun fld hfld => hw.1.1 fld.1 (List.mem_map.mpr ⟨fld, hfld, rfl⟩)) hw.2
          (by simpa [Spec.WF.floatsRT] using hF) (fun b hb => h32 b (by simpa [f32sOf] using hb))
          (fun kv hkv => depthOK_member t _ kv hkv hd)
      | _ => simp [wfTVx] at hw
    | enum_ vs =>
      cases tv with
      | variant i p =>
        simp only [wfTVx, Bool.and_eq_true, namesOK, List.all_eq_true] at hw
        obtain ⟨n, sh, hget, hws, hval⟩ := wfVariantX_get _ _ vs i p hw.2
        simp only [valueOfL] at hF hd ⊢
        rw [hval] at hF hd ⊢
        have hmem : (n, sh) ∈ vs := List.mem_of_getElem? hget
        have hu : Spec.Utf8.validUtf8 n = true := hw.1.1 n (List.mem_map.mpr ⟨(n, sh), hmem, rfl⟩)
        have hni : FromValue.nameIndex (variantNames vs) n = some i :=
          nameIndex_of_distinct _ i n hw.1.2 (by simp [variantNames, hget])
        have hszs : ∀ s' ∈ shapeSchemas sh, Schema.size s' ≤ f := by
          intro s' hs'
          have h1 := size_shape sh s' hs'
          have h2 := size_mem_variants vs (n, sh) hmem
          simp only [Schema.size] at hs
          simp only at h2
          omega
        have h32p : ∀ b ∈ f32sOf p, Spec.Program.finite32 b = true → Reads (deNumber env .f32) (.f32 b) (ext.ryu32 b) := fun b hb => h32 b (by simpa [f32sOf] using hb)
        cases sh with
        | unit =>
          have hp : p = .unit := by cases p <;> simp_all [wfShapeX]
          subst hp
          simp only [valueShapeL]
          exact reads_enum_unit ext L hflt d vs f t i n hu hni hget
        | newtype s' =>
          simp only [wfShapeX] at hws
          simp only [valueShapeL] at hF hd ⊢
          have hFx : Spec.WF.floatsRT (specCfg env.cfg) ext (valueOfL ext.ryu32 s' p) = true := by
            simpa [Spec.WF.floatsRT, Spec.WF.floatsRTm] using hF
          refine reads_enum_obj ext L hflt d vs f t i n _ _ p hu hni hget hd ?_
          have e : dePayload env (t + 1) (deTyped env f) (.newtype s') = deTyped env f (t + 1) s' := by funext r q; rfl
          rw [e]
          exact ih s' (hszs s' (by simp [shapeSchemas])) (t + 1) (d + 1) p hws hFx h32p
            (depthOK_member t [(n, _)] (n, _) (by simp) hd)
        | tuple ss =>
          cases p with
          | seq xs =>
            simp only [wfShapeX] at hws
            simp only [valueShapeL] at hF hd ⊢
            have hFx : Spec.WF.floatsRTs (specCfg env.cfg) ext (valueTupleL ext.ryu32 ss xs) = true := by
              simpa [Spec.WF.floatsRT, Spec.WF.floatsRTm] using hF
            have hdx : DepthOK env (t + 1) (.arr (valueTupleL ext.ryu32 ss xs)) :=
              depthOK_member t [(n, _)] (n, _) (by simp) hd
            refine reads_enum_obj ext L hflt d vs f t i n _ _ (.seq xs) hu hni hget hd ?_
            have e : dePayload env (t + 1) (deTyped env f) (.tuple ss) =
                deSeq env (t + 1) (fun r q => (tupleLoop env (deTyped env f (t + 1 + 1)) ss true [] r q).map .seq) := by funext r q; rfl
            rw [e]
            refine tupleArr_reads ext L hext hflt .seq (d + 1) _ ss (t + 1) _ xs hdx ?_
            exact tupReads_gen ext L hext hflt hapE _ (deTyped env f (t + 1 + 1)) (t + 1 + 1) (d + 1 + 1) (fun s' => Schema.size s' ≤ f)
              (fun b => Spec.Program.finite32 b = true → Reads (deNumber env .f32) (.f32 b) (ext.ryu32 b))
              (fun s' x hq hwx hFx h32x hdx => ihH s' hq (t + 1 + 1) (d + 1 + 1) x hwx hFx h32x hdx) ss xs
              (fun s' hs' => hszs s' (by simpa [shapeSchemas] using hs')) hws hFx (fun b hb => h32p b (by simpa [f32sOf] using hb))
              (fun x hx => depthOK_elem (t + 1) _ x hx hdx)
          | _ => simp [wfShapeX] at hws
        | struct_ fs =>
          cases p with
          | struct_ xs =>
            simp only [wfShapeX, Bool.and_eq_true, namesOK, List.all_eq_true] at hws
            simp only [valueShapeL] at hF hd ⊢
            have hFx : Spec.WF.floatsRTm (specCfg env.cfg) ext (valueFieldsL ext.ryu32 fs xs) = true := by
              simpa [Spec.WF.floatsRT, Spec.WF.floatsRTm] using hF
            have hdx : DepthOK env (t + 1) (.obj (valueFieldsL ext.ryu32 fs xs)) :=
              depthOK_member t [(n, _)] (n, _) (by simp) hd
            refine reads_enum_obj ext L hflt d vs f t i n _ _ (.struct_ xs) hu hni hget hd ?_
            have e : dePayload env (t + 1) (deTyped env f) (.struct_ fs) = deStruct env (t + 1) (deTyped env f) fs false := by
              funext r q; rfl
            rw [e]
            refine reads_deStruct ext L hflt (d + 1) (deTyped env f) (fun t' s' => deTyped_pad f t' s') fs false (t + 1) _ xs hdx hws.1.2 ?_
            exact fieldReads_gen ext L hext hflt hapE _ (deTyped env f (t + 1 + 1)) (t + 1 + 1) (d + 1 + 1) (fun s' => Schema.size s' ≤ f)
              (fun b => Spec.Program.finite32 b = true → Reads (deNumber env .f32) (.f32 b) (ext.ryu32 b))
              (fun s' x hq hwx hFx h32x hdx => ih s' hq (t + 1 + 1) (d + 1 + 1) x hwx hFx h32x hdx) fs xs
              (fun fld hfld => hszs fld.2 (by simp only [shapeSchemas]; exact List.mem_map.mpr ⟨fld, hfld, rfl⟩))
              (fun fld hfld => hws.1.1 fld.1 (List.mem_map.mpr ⟨fld, hfld, rfl⟩)) hws.2 hFx
              (fun b hb => h32p b (by simpa [f32sOf] using hb)) (fun kv hkv => depthOK_member (t + 1) _ kv hkv hdx)
          | _ => simp [wfShapeX] at hws
      | _ => simp [wfTVx] at hw

end

end SJ.Proofs.TypedRT
