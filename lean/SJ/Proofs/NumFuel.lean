import SJ.Proofs.Complete.Num
import SJ.Spec.Decimal
/-!
# The number conversion of the parser model never runs out of fuel (C14)

`Model.Num.f64FromPartsLoop` transcribes the `loop { match POW10.get(..) { .. None => { f /= 1e308;
exponent += 308 } } }` of `f64_from_parts` with explicit fuel `|exponent| / 308 + 3`. Each `None` round
raises a negative exponent by `Gen.fromPartsStep = 308`; a non-negative exponent ends the loop at once.
Nothing here depends on the contents or the length of the `POW10` table.

Also: `PartsWF`, what the machine's scanner guarantees about the parts it hands to the conversion, and
`partsOf_wf`: the parts of a grammatical literal satisfy it.
-/
namespace SJ.Proofs.NumLink
open SJ SJ.Spec.Ieee SJ.Spec.Decimal
open SJ.Model.Num (Parts NRes FRes convertDefault)

/-- what the machine's scanner guarantees about the parts it hands to the conversion
    (`Proofs.Sound.numInv_final`, `Proofs.Complete.scan_num`): ASCII digits everywhere, an integer
    part that is `0` or starts with `1`–`9`, and at least one digit after `.` / after `e[±]` -/
structure PartsWF (p : Parts) : Prop where
  intDigits : p.int.all isDigit = true
  intShape : (match p.int with
    | [] => false
    | [_] => true
    | d :: _ => d != 0x30) = true
  frac : ∀ fds, p.frac = some fds → fds ≠ [] ∧ fds.all isDigit = true
  exp : ∀ en eds, p.exp = some (en, eds) → eds ≠ [] ∧ eds.all isDigit = true


/-! ## fuel -/

theorem step_eq : (Gen.fromPartsStep : Int) = 308 := rfl

/-- every `None` round raises a negative exponent by 308 (and a non-negative exponent ends the loop):
    `|exponent| / 308 + 2` rounds suffice, whatever the table -/
theorem loopA_fuel_aux (fuel : Nat) : ∀ (f : UInt64) (e : Int),
    (if e < 0 then (-e).toNat / 308 + 2 else 1) ≤ fuel →
    Model.Num.f64FromPartsLoop fuel f e ≠ .outOfFuel := by
  induction fuel with
  | zero => intro f e h; split at h <;> omega
  | succ n ih =>
    intro f e h
    unfold Model.Num.f64FromPartsLoop
    simp only
    split
    · split
      · split <;> simp
      · simp
    · split
      · simp
      · split
        · simp
        · apply ih
          rw [step_eq]
          split at h
          · split <;> omega
          · omega

theorem loopA_fuel (f : UInt64) (e : Int) :
    Model.Num.f64FromPartsLoop (e.natAbs / Gen.fromPartsStep + 3) f e ≠ .outOfFuel := by
  apply loopA_fuel_aux
  rw [show Gen.fromPartsStep = 308 from rfl]
  split <;> omega

/-- `f64_from_parts` of the parser model, every significand and exponent -/
theorem f64FromParts_ne_outOfFuel (positive : Bool) (s : Nat) (e : Int) :
    Model.Num.f64FromParts positive s e ≠ .outOfFuel := by
  have hA := loopA_fuel (F64.ofU64 s) e
  unfold Model.Num.f64FromParts
  cases h : Model.Num.f64FromPartsLoop (e.natAbs / Gen.fromPartsStep + 3) (F64.ofU64 s) e with
  | ok f => simp
  | outOfRange => simp
  | outOfFuel => exact absurd h hA

theorem ofF_ne_outOfFuel (positive : Bool) (s : Nat) (e : Int) :
    Model.Num.ofF (Model.Num.f64FromParts positive s e) ≠ .outOfFuel := by
  have := f64FromParts_ne_outOfFuel positive s e
  cases h : Model.Num.f64FromParts positive s e with
  | ok f => intro h'; cases h'
  | outOfRange => intro h'; cases h'
  | outOfFuel => exact absurd h this

theorem exponentOverflow_ne_outOfFuel (a b c : Bool) : Model.Num.exponentOverflow a b c ≠ .outOfFuel := by
  unfold Model.Num.exponentOverflow; split <;> (intro h; cases h)

theorem parseExponent_ne_outOfFuel (positive : Bool) (sig : Nat) (st : Int) (en : Bool) (eds : Bytes)
    (hne : eds ≠ []) : Model.Num.parseExponent positive sig st en eds ≠ .outOfFuel := by
  unfold Model.Num.parseExponent
  split
  · exact absurd rfl hne
  · split
    · exact exponentOverflow_ne_outOfFuel _ _ _
    · exact ofF_ne_outOfFuel _ _ _

theorem parseDecimal_ne_outOfFuel (positive : Bool) (sig : Nat) (eb : Int) (fds : Bytes)
    (exp : Option (Bool × Bytes)) (hexp : ∀ en eds, exp = some (en, eds) → eds ≠ []) :
    Model.Num.parseDecimal positive sig eb fds exp ≠ .outOfFuel := by
  unfold Model.Num.parseDecimal
  simp only
  split
  · rename_i en eds
    exact parseExponent_ne_outOfFuel _ _ _ _ _ (hexp en eds rfl)
  · exact ofF_ne_outOfFuel _ _ _

/-- **C14 (number conversion).** On scanner-produced parts the fuelled `f64_from_parts` loop of the
    parser model never runs out of fuel: `NRes.outOfFuel` is unreachable. -/
theorem convertDefault_ne_outOfFuel (p : Parts) (hwf : PartsWF p) : convertDefault p ≠ .outOfFuel := by
  have hexp : ∀ en eds, p.exp = some (en, eds) → eds ≠ [] := fun en eds h => (hwf.exp en eds h).1
  unfold convertDefault
  simp only
  split
  · split
    · exact parseDecimal_ne_outOfFuel _ _ _ _ _ hexp
    · rename_i en eds _ he
      exact parseExponent_ne_outOfFuel _ _ _ _ _ (hexp en eds he)
    · exact ofF_ne_outOfFuel _ _ _
  · split
    · exact parseDecimal_ne_outOfFuel _ _ _ _ _ hexp
    · rename_i en eds _ he
      exact parseExponent_ne_outOfFuel _ _ _ _ _ (hexp en eds he)
    · repeat' split
      all_goals (intro h; cases h)

end SJ.Proofs.NumLink

namespace SJ.Proofs.NumLinkParser
open SJ SJ.Model.Num SJ.Proofs.Complete
open SJ.Spec.Grammar (NumParts isInt isFrac isExp)
open SJ.Spec.Canon (partsOf)
open SJ.Proofs.NumLink (PartsWF)

/-! ## the scanner's parts are well-formed -/

theorem partsOf_wf (p : NumParts) (hwf : p.WF = true) : PartsWF (partsOf p) := by
  obtain ⟨minus, int, frac, exp⟩ := p
  simp only [NumParts.WF, Bool.and_eq_true] at hwf
  obtain ⟨⟨hi, hf⟩, he⟩ := hwf
  refine ⟨isInt_all int hi, ?_, ?_, ?_⟩
  · rcases int_shape int hi with rfl | ⟨d, ds, rfl, _, hz, _⟩
    · rfl
    · simp only [partsOf]
      cases ds with
      | nil => rfl
      | cons x xs => simp only [bne_iff_ne, ne_eq]; simpa using hz
  · intro fds hfds
    simp only [partsOf] at hfds
    cases frac with
    | nil => simp at hfds
    | cons c ds =>
      simp only [List.isEmpty_cons, Bool.false_eq_true, if_false, List.drop_succ_cons, List.drop_zero,
        Option.some.injEq] at hfds
      subst hfds
      simp only [isFrac, Bool.and_eq_true] at hf
      refine ⟨?_, hf.2⟩
      intro h; rw [h] at hf; simp at hf
  · intro en eds hex
    have hex' : expOf exp = some (en, eds) := hex
    by_cases hne : exp = []
    · subst hne; simp [expOf] at hex'
    · obtain ⟨c, sgn, en', d, ds, _, _, _, hd, hds, hexpOf⟩ := exp_shape exp he hne
      rw [hexpOf] at hex'
      simp only [Option.some.injEq, Prod.mk.injEq] at hex'
      obtain ⟨_, rfl⟩ := hex'
      refine ⟨by simp, ?_⟩
      simp only [List.all_cons, Bool.and_eq_true]
      exact ⟨hd, hds⟩

end SJ.Proofs.NumLinkParser
