import SJ.Proofs.TypedRT
/-!
# The typed round trip on the written text: maps, structs (from objects), enums, `Option` (success direction; see `TypedRT.lean`)
-/
set_option linter.unusedSectionVars false
set_option linter.unusedVariables false

namespace SJ.Proofs.TypedRT
open SJ SJ.Gen SJ.Model SJ.Model.Typed
open SJ.Model.Stream (skipWs)
open SJ.Spec.Image (quote)
open SJ.Proofs.Typed SJ.Proofs.TypedPretty

variable (ext : Spec.Program.Ext) (L : Lay)

section
variable (hext : Spec.Program.ExtOK ext)
variable {env : Env} (hflt : env.flt = false)

/-! ## maps -/

/-- memberwise: the key string is the spelling of the key `a` (as `MapKeyDeserializer` reads it — and, by `KeyAgree`, `MapKey`),
    and `de` reads the member's value -/
inductive MapReads (kk : KeyKind) (de : Bytes → Nat → TOut) (d : Nat) : List (Bytes × JV) → List (TVal × TVal) → Prop
  | nil : MapReads kk de d [] []
  | cons {k : Bytes} {x : JV} {kvs : List (Bytes × JV)} {a y : TVal} {ys : List (TVal × TVal)} :
      Spec.Utf8.validUtf8 k = true → FromValue.keyDe kk k = .ok a → Reads de y (TL ext L d x) → MapReads kk de d kvs ys →
      MapReads kk de d ((k, x) :: kvs) ((a, y) :: ys)

theorem mapLoop_reads (d : Nat) (kk : KeyKind) (hk : KeyAgree (deKey env kk) (FromValue.keyDe kk)) (de : Bytes → Nat → TOut)
    (hpad : PadOK de) {C : Bytes} (hC : WsB C) :
    ∀ (kvs : List (Bytes × JV)) (ys : List (TVal × TVal)), MapReads ext L kk de d kvs ys →
    ∀ (first : Bool) (acc : List (TVal × TVal)) (n : Nat) (rest : Bytes) (pos : Nat),
      (LM ext L d first kvs ++ (C ++ 0x7d :: rest)).length < n →
      mapLoop env kk de n first acc (LM ext L d first kvs ++ (C ++ 0x7d :: rest)) pos =
        .ok (acc.reverse ++ ys) (0x7d :: rest) (pos + (LM ext L d first kvs).length + C.length) := by
  intro kvs ys h
  induction h with
  | nil =>
    intro first acc n rest pos hn
    cases n with
    | zero => omega
    | succ n =>
      simp only [LM_nil, List.nil_append, List.length_nil, Nat.add_zero, List.append_nil]
      unfold mapLoop
      rw [hasNextKey_close_pad first hC]
      simp [Res.bind]
  | @cons k x kvs a y ys hu hfk hag _ ih =>
    intro first acc n rest pos hn
    cases n with
    | zero => omega
    | succ n =>
      have htxt : LM ext L d first ((k, x) :: kvs) ++ (C ++ 0x7d :: rest) =
          (if first then [] else [0x2c]) ++ (L.sep d ++ (quote k ++ 0x3a :: (L.gap ++ (TL ext L d x ++
            (LMtail ext L d kvs ++ (C ++ 0x7d :: rest)))))) := by
        rw [LM_cons]; simp [List.append_assoc]
      have hlen : (LM ext L d first ((k, x) :: kvs)).length =
          (if first then 0 else 1) + (L.sep d).length + (quote k).length + 1 + L.gap.length + (TL ext L d x).length +
            (LMtail ext L d kvs).length := by
        rw [LM_cons]; cases first <;> simp <;> omega
      rw [htxt]
      unfold mapLoop
      rw [hasNextKey_member_L]
      simp only [Res.bind, Bool.not_true, Bool.false_eq_true, if_false]
      have hkey := hk k hu (L.gap ++ (TL ext L d x ++ (LMtail ext L d kvs ++ (C ++ 0x7d :: rest))))
        (pos + (if first then 0 else 1) + (L.sep d).length)
      rw [hfk] at hkey
      simp only at hkey
      rw [hkey]
      simp only [Res.bind, parseObjectColon_colon]
      rw [hpad L.gap L.hgap]
      have hel := hag (LMtail ext L d kvs ++ (C ++ 0x7d :: rest))
        (pos + (if first then 0 else 1) + (L.sep d).length + (quote k).length + 1 + L.gap.length) (sepOK_mtail_L ext L d kvs hC rest)
      rw [hel]
      simp only [Res.bind]
      have hrec := ih false ((a, y) :: acc) n rest
        (pos + (if first then 0 else 1) + (L.sep d).length + (quote k).length + 1 + L.gap.length + (TL ext L d x).length) (by
        rw [htxt] at hn
        simp only [LM, Bool.false_eq_true, if_false]
        simp only [List.length_append, List.length_cons] at hn ⊢
        omega)
      simp only [LM, Bool.false_eq_true, if_false] at hrec
      rw [hrec, hlen]
      simp only [List.reverse_cons, List.append_assoc, List.singleton_append]
      congr 1
      omega

/-- maps -/
theorem reads_map (d : Nat) (kk : KeyKind) (hk : KeyAgree (deKey env kk) (FromValue.keyDe kk)) (s : Schema) (f t : Nat)
    (kvs : List (Bytes × JV)) (ys : List (TVal × TVal)) (hd : DepthOK env t (.obj kvs))
    (h : MapReads ext L kk (deTyped env f (t + 1) s) (d + 1) kvs ys) :
    Reads (deTyped env (f + 1) t (.map kk s)) (.map ys) (TL ext L d (.obj kvs)) := by
  intro rest pos hs
  rw [deTyped_map]
  obtain ⟨C, hC, hTa, hde⟩ := deMap_obj_L ext L d t kvs hd
    (fun n r p => Res.map TVal.map (mapLoop env kk (deTyped env f (t + 1) s) n true [] r p)) rest pos
  have hloop := mapLoop_reads ext L (d + 1) kk hk (deTyped env f (t + 1) s) (deTyped_pad f (t + 1) s) hC kvs ys h true []
    ((LM ext L (d + 1) true kvs ++ (C ++ 0x7d :: rest)).length + 1) rest (pos + 1) (by omega)
  have hlenT : (TL ext L d (.obj kvs)).length = 1 + (LM ext L (d + 1) true kvs).length + C.length + 1 := by
    rw [hTa]; simp; omega
  rw [hde, hloop, hlenT]
  simp only [Res.map, Res.bind, closeWith, endMap_close, List.nil_append, List.reverse_nil]
  congr 1
  omega

/-! ## structs, from the object `Serialize` writes: the members are the fields, in order -/

/-- fieldwise: the member's key is the field's name, and the field's parser reads the member's value -/
inductive FieldReads (de : Schema → Bytes → Nat → TOut) (d : Nat) : List (Bytes × Schema) → List (Bytes × JV) → List TVal → Prop
  | nil : FieldReads de d [] [] []
  | cons {n : Bytes} {s : Schema} {fs : List (Bytes × Schema)} {x : JV} {kvs : List (Bytes × JV)} {y : TVal} {ys : List TVal} :
      Spec.Utf8.validUtf8 n = true → Reads (de s) y (TL ext L d x) → FieldReads de d fs kvs ys →
      FieldReads de d ((n, s) :: fs) ((n, x) :: kvs) (y :: ys)

theorem fieldReads_length {de : Schema → Bytes → Nat → TOut} {d : Nat} {fs : List (Bytes × Schema)} {kvs : List (Bytes × JV)}
    {ys : List TVal} (h : FieldReads ext L de d fs kvs ys) : fs.length = ys.length := by
  induction h with
  | nil => rfl
  | cons _ _ _ ih => simp [ih]

include hflt in
/-- derive's `visit_map` loop over the members written for the fields `suf`, the fields `pre` being filled already -/
theorem structLoop_reads (d : Nat) (de : Schema → Bytes → Nat → TOut) (hpad : ∀ s, PadOK (de s)) (deny : Bool) {C : Bytes} (hC : WsB C) :
    ∀ (suf : List (Bytes × Schema)) (kvs : List (Bytes × JV)) (ysuf : List TVal), FieldReads ext L de d suf kvs ysuf →
    ∀ (pre : List (Bytes × Schema)) (xpre : List TVal), pre.length = xpre.length →
      Model.TypedSer.distinctNames (fieldNames (pre ++ suf)) = true →
    ∀ (first : Bool) (n : Nat) (rest : Bytes) (pos : Nat),
      (LM ext L d first kvs ++ (C ++ 0x7d :: rest)).length < n →
      structLoop env de (pre ++ suf) deny n first (xpre.map some ++ suf.map fun _ => none)
          (LM ext L d first kvs ++ (C ++ 0x7d :: rest)) pos =
        .ok ((xpre ++ ysuf).map some) (0x7d :: rest) (pos + (LM ext L d first kvs).length + C.length) := by
  intro suf kvs ysuf h
  induction h with
  | nil =>
    intro pre xpre hp hdn first n rest pos hn
    cases n with
    | zero => omega
    | succ n =>
      simp only [LM_nil, List.nil_append, List.length_nil, Nat.add_zero, List.append_nil, List.map_nil]
      unfold structLoop
      rw [hasNextKey_close_pad first hC]
      simp [Res.bind]
  | @cons k s suf x kvs y ysuf hu hag _ ih =>
    intro pre xpre hp hdn first n rest pos hn
    cases n with
    | zero => omega
    | succ n =>
      have htxt : LM ext L d first ((k, x) :: kvs) ++ (C ++ 0x7d :: rest) =
          (if first then [] else [0x2c]) ++ (L.sep d ++ (quote k ++ 0x3a :: (L.gap ++ (TL ext L d x ++
            (LMtail ext L d kvs ++ (C ++ 0x7d :: rest)))))) := by
        rw [LM_cons]; simp [List.append_assoc]
      have hlen : (LM ext L d first ((k, x) :: kvs)).length =
          (if first then 0 else 1) + (L.sep d).length + (quote k).length + 1 + L.gap.length + (TL ext L d x).length +
            (LMtail ext L d kvs).length := by
        rw [LM_cons]; cases first <;> simp <;> omega
      have hget : (fieldNames (pre ++ (k, s) :: suf))[pre.length]? = some k := by simp [fieldNames]
      have hni := SJ.Proofs.TypedSer.nameIndex_of_distinct _ _ _ hdn hget
      have hfi : (pre ++ (k, s) :: suf)[pre.length]? = some (k, s) := by simp
      have hslot : (xpre.map some ++ ((k, s) :: suf).map fun _ => (none : Option TVal)).getD pre.length none = none := by
        rw [hp]; simp [List.getD]
      have hset : (xpre.map some ++ ((k, s) :: suf).map fun _ => (none : Option TVal)).set pre.length (some y) =
          (xpre ++ [y]).map some ++ suf.map fun _ => none := by
        rw [hp]; simp [List.set_append]
      rw [htxt]
      unfold structLoop
      rw [hasNextKey_member_L]
      simp only [Res.bind, Bool.not_true, Bool.false_eq_true, if_false]
      rw [parseStr_key hflt k _ hu]
      simp only [hni, hslot, Res.bind, parseObjectColon_colon, hfi]
      rw [hpad s L.gap L.hgap]
      have hel := hag (LMtail ext L d kvs ++ (C ++ 0x7d :: rest))
        (pos + (if first then 0 else 1) + (L.sep d).length + (quote k).length + 1 + L.gap.length) (sepOK_mtail_L ext L d kvs hC rest)
      rw [hel]
      simp only [Res.bind, hset]
      have hrec := ih (pre ++ [(k, s)]) (xpre ++ [y]) (by simp [hp]) (by simpa [List.append_assoc] using hdn) false n rest
        (pos + (if first then 0 else 1) + (L.sep d).length + (quote k).length + 1 + L.gap.length + (TL ext L d x).length) (by
        rw [htxt] at hn
        simp only [LM, Bool.false_eq_true, if_false]
        simp only [List.length_append, List.length_cons] at hn ⊢
        omega)
      simp only [LM, Bool.false_eq_true, if_false, List.append_assoc, List.singleton_append] at hrec
      rw [hrec, hlen]
      congr 1
      omega

include hflt in
/-- `deserialize_struct` on the object written for a struct (also the payload of a struct variant) -/
theorem reads_deStruct (d : Nat) (de : Nat → Schema → Bytes → Nat → TOut) (hpad : ∀ t s, PadOK (de t s)) (fs : List (Bytes × Schema))
    (deny : Bool) (t : Nat) (kvs : List (Bytes × JV)) (ys : List TVal) (hd : DepthOK env t (.obj kvs))
    (hdn : Model.TypedSer.distinctNames (fieldNames fs) = true) (h : FieldReads ext L (de (t + 1)) (d + 1) fs kvs ys) :
    Reads (deStruct env t de fs deny) (.struct_ ys) (TL ext L d (.obj kvs)) := by
  intro rest pos hs
  have key : ∃ C, WsB C ∧ TL ext L d (.obj kvs) = 0x7b :: (LM ext L (d + 1) true kvs ++ (C ++ [0x7d])) := by
    cases kvs with
    | nil => exact ⟨[], wsB_nil, by rw [TL_obj_nil]; rfl⟩
    | cons kv kvs => exact ⟨L.sep d, L.hsep d, by rw [TL_obj_cons]; rfl⟩
  obtain ⟨C, hC, hTa⟩ := key
  have hloop := structLoop_reads ext L hflt (d + 1) (de (t + 1)) (hpad (t + 1)) deny hC fs kvs ys h [] [] rfl (by simpa using hdn) true
    ((LM ext L (d + 1) true kvs ++ (C ++ 0x7d :: rest)).length + 1) rest (pos + 1) (by omega)
  simp only [List.nil_append, List.map_nil] at hloop
  have hde : deStruct env t de fs deny (0x7b :: (LM ext L (d + 1) true kvs ++ (C ++ 0x7d :: rest))) pos =
      closeWith env (endMap env) (structVisitMap env (de (t + 1)) fs deny
        (LM ext L (d + 1) true kvs ++ (C ++ 0x7d :: rest)) (pos + 1)) := by
    unfold deStruct
    rw [withPeek_cons env _ (by decide)]
    simp only [show ((0x7b : UInt8) == 0x5b) = false by decide, beq_self_eq_true, if_true, tooDeep_false_obj t kvs hd, Bool.false_eq_true, if_false]
  have hTo : TL ext L d (.obj kvs) ++ rest = 0x7b :: (LM ext L (d + 1) true kvs ++ (C ++ 0x7d :: rest)) := by rw [hTa]; simp
  have hlenT : (TL ext L d (.obj kvs)).length = 1 + (LM ext L (d + 1) true kvs).length + C.length + 1 := by
    rw [hTa]; simp; omega
  rw [hTo, hde]
  unfold structVisitMap
  rw [hloop]
  simp only [Res.bind, SJ.Proofs.TypedSer.finishFields_some fs ys (fieldReads_length ext L h), closeWith, endMap_close, hlenT]
  congr 1
  omega

/-! ## enums -/

include hflt in
/-- a unit variant: the variant's name as a string -/
theorem reads_enum_unit (d : Nat) (vs : List (Bytes × VariantShape)) (f t : Nat) (i : Nat) (n : Bytes)
    (hu : Spec.Utf8.validUtf8 n = true) (hni : FromValue.nameIndex (variantNames vs) n = some i) (hvi : vs[i]? = some (n, .unit)) :
    Reads (deTyped env (f + 1) t (.enum_ vs)) (.variant i .unit) (TL ext L d (.str n)) := by
  intro rest pos hs
  rw [deTyped_enum, TL_scalar ext L d _ (fun _ h => by cases h) (fun _ h => by cases h)]
  have hTq : T ext (.str n) = quote n := by rw [T_str_eq, quote_eq]
  rw [hTq]
  have hde : deEnum env t (deTyped env f) vs (quote n ++ rest) pos =
      (deVariantId env (variantNames vs) (quote n ++ rest) pos).bind fun iv r1 p1 =>
        match vs[(match iv with | .int i => i.toNat | _ => 0)]? with
        | some (_, VariantShape.unit) => .ok (.variant (match iv with | .int i => i.toNat | _ => 0) .unit) r1 p1
        | _ => .raw r1 p1 := by
    rw [quote_eq]
    simp only [List.cons_append]
    unfold deEnum
    rw [withPeek_cons env _ (by decide)]
    simp only [show ((0x22 : UInt8) == 0x7b) = false by decide, Bool.false_eq_true, if_false, beq_self_eq_true, if_true]
    rfl
  have hid := deVariantId_quote hflt (variantNames vs) n hu rest pos
  rw [hni] at hid
  rw [hde, hid]
  simp [Res.bind, hvi]

include hflt in
/-- a newtype / tuple / struct variant: `{"Variant": payload}` -/
theorem reads_enum_obj (d : Nat) (vs : List (Bytes × VariantShape)) (f t : Nat) (i : Nat) (n : Bytes) (sh : VariantShape) (x : JV)
    (payload : TVal) (hu : Spec.Utf8.validUtf8 n = true) (hni : FromValue.nameIndex (variantNames vs) n = some i)
    (hvi : vs[i]? = some (n, sh)) (hd : DepthOK env t (.obj [(n, x)]))
    (hp : Reads (dePayload env (t + 1) (deTyped env f) sh) payload (TL ext L (d + 1) x)) :
    Reads (deTyped env (f + 1) t (.enum_ vs)) (.variant i payload) (TL ext L d (.obj [(n, x)])) := by
  intro rest pos hs
  rw [deTyped_enum]
  have htd := tooDeep_false_obj t [(n, x)] hd
  have hC := L.hsep d
  have hTo : TL ext L d (.obj [(n, x)]) ++ rest =
      0x7b :: (L.sep (d + 1) ++ (quote n ++ 0x3a :: (L.gap ++ (TL ext L (d + 1) x ++ (L.sep d ++ 0x7d :: rest))))) := by
    rw [TL_obj_cons, LMembers_cons]; simp [List.append_assoc, LMtail]
  have hlenT : (TL ext L d (.obj [(n, x)])).length =
      1 + (L.sep (d + 1)).length + (quote n).length + 1 + L.gap.length + (TL ext L (d + 1) x).length + (L.sep d).length + 1 := by
    rw [TL_obj_cons, LMembers_cons]; simp [LMtail]; omega
  rw [hTo]
  have hid := deVariantId_quote hflt (variantNames vs) n hu
    (0x3a :: (L.gap ++ (TL ext L (d + 1) x ++ (L.sep d ++ 0x7d :: rest)))) (pos + 1 + (L.sep (d + 1)).length)
  rw [hni] at hid
  have hidp : deVariantId env (variantNames vs) (L.sep (d + 1) ++ (quote n ++ 0x3a :: (L.gap ++ (TL ext L (d + 1) x ++
        (L.sep d ++ 0x7d :: rest))))) (pos + 1) =
      deVariantId env (variantNames vs) (quote n ++ 0x3a :: (L.gap ++ (TL ext L (d + 1) x ++ (L.sep d ++ 0x7d :: rest))))
        (pos + 1 + (L.sep (d + 1)).length) := by
    unfold deVariantId
    rw [pad_deStr _ _ (L.hsep (d + 1))]
  have hpay := hp (L.sep d ++ 0x7d :: rest) (pos + 1 + (L.sep (d + 1)).length + (quote n).length + 1 + L.gap.length) (by
    have := sepOK_mtail_L ext L (d + 1) [] hC rest
    simpa [LMtail] using this)
  unfold deEnum
  rw [withPeek_cons env _ (by decide)]
  simp only [beq_self_eq_true, if_true, htd, Bool.false_eq_true, if_false]
  rw [hidp, hid]
  simp only [Res.bind, parseObjectColon_colon, Int.toNat_natCast, hvi]
  rw [pad_dePayload (t + 1) f sh L.gap L.hgap, hpay]
  simp only [Res.bind]
  rw [withPeek_pad _ hC, withPeek_cons env _ (by decide)]
  simp only [beq_self_eq_true, if_true, hlenT]
  congr 1
  omega

/-! ## `Option` -/

include hflt in
theorem reads_none (s : Schema) (f t d : Nat) : Reads (deTyped env (f + 1) t (.option s)) .none (TL ext L d .null) := by
  intro rest pos hs
  rw [deTyped_option]
  have hnull : TL ext L d .null = [0x6e, 0x75, 0x6c, 0x6c] := rfl
  simp only [hnull, List.cons_append, List.nil_append]
  rw [skipWs_cons (by decide)]
  simp only [beq_self_eq_true, if_true]
  have := parseIdent_exact env Gen.identNull rest (pos + 1)
  show (parseIdent env Gen.identNull (Gen.identNull ++ rest) (pos + 1)).bind _ = _
  rw [this]
  simp [Res.bind, Gen.identNull]

theorem reads_some (s : Schema) (f t : Nat) (y : TVal) (txt : Bytes) (h : Reads (deTyped env f t s) y txt)
    (hh : ∃ c tl, txt = c :: tl ∧ Machine.isWs c = false ∧ (c == 0x6e) = false) :
    Reads (deTyped env (f + 1) t (.option s)) (.some y) txt := by
  intro rest pos hs
  obtain ⟨c, tl, rfl, hw, hn⟩ := hh
  rw [deTyped_option]
  have h' := h rest pos hs
  simp only [List.cons_append] at h' ⊢
  rw [skipWs_cons hw]
  simp only [hn, Bool.false_eq_true, if_false]
  rw [h']
  simp [Res.map, Res.bind]

end

end SJ.Proofs.TypedRT
