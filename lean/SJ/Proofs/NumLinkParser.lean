import SJ.Proofs.Complete.Main
import SJ.Proofs.NumLink
import SJ.Proofs.NumInt
/-!
# What the parser machine does on a bare number literal

For an RFC 8259 number `p : NumParts` (`p.WF`), `parseTop env p.bytes` is

* `.ok (.num x)` when `Spec.Canon.numOf` of the configuration says `some x` (completeness, `drive_num`),
* `.err .NumberOutOfRange idx` when it says `none` — raised either by the conversion at the end of
  the literal or, for an exponent beyond `i32` with a non-zero significand, by the eager guard of
  `parse_exponent` on the overflowing digit.

`partsOf_wf` shows that the scanned parts of a grammatical literal satisfy `NumLink.PartsWF`, which
puts `NumLink.convertDefault_eq_floatDefault` at the parser's disposal.
-/
namespace SJ.Proofs.NumLinkParser
open SJ SJ.Gen SJ.Model.Machine SJ.Model.Num SJ.Proofs.Machine SJ.Proofs.CanonM SJ.Proofs.Complete
open SJ.Spec.Grammar (CST NumParts isInt isFrac isExp JsonText Derives Ws)
open SJ.Spec.Canon (partsOf numOf)
open SJ.Proofs.NumLink (PartsWF toNumLit numOfLit numOfNRes)
open SJ.Spec.Decimal (NumLit scale10)
open SJ.Spec.Ieee (Overflows64)

/-! ## accepted literals -/

theorem jsonText_num (p : NumParts) (hwf : p.WF = true) : JsonText p.bytes (.num p) :=
  ⟨[], p.bytes, [], by simp, by simp [Ws], by simp [Ws], Derives.num p hwf⟩

/-- a literal the configured conversion accepts is parsed to exactly that number -/
theorem parseTop_num_ok (env : Env) (henv : env.tgt = .value) (p : NumParts) (hwf : p.WF = true)
    (x : Num) (hx : numOf (specCfg env.cfg) p = some x) : parseTop env p.bytes = .ok (.num x) := by
  obtain ⟨v, hres, hp⟩ := complete_text env p.bytes (.num p) (jsonText_num p hwf) (fun _ =>
    ⟨Or.inr (by simp [Spec.Grammar.depth]), by simp [Spec.Grammar.surrogatesPaired],
      fun _ => by simp [Spec.Canon.stringsUtf8], by simp [Spec.Canon.numbersInRange, hx]⟩)
  have hc := hres.1 henv
  simp only [canonM, hx, Option.map_some, Option.some.injEq] at hc
  rw [hp, hc]

/-! ## rejected literals -/

/-- feeding succeeds up to a byte on which the step fails: that is the run's error -/
theorem run_feeds_err {env : Env} {s s' : St} {xs : Bytes} (h : Feeds env s xs s') (b : UInt8)
    (ys : Bytes) (c : Code) (a : Adj) (hs : step env s' b = .error (c, a)) (i : Nat) :
    run env s i (xs ++ b :: ys) = .err c (errIdx env a (i + xs.length)) := by
  induction xs generalizing s i with
  | nil =>
    simp only [Feeds, feedS, Except.ok.injEq] at h
    subst h
    simp only [List.nil_append, run, hs, List.length_nil, Nat.add_zero]
  | cons x xs ih =>
    unfold Feeds at h
    simp only [feedS] at h
    cases hx : step env s x with
    | ok s1 =>
      rw [hx] at h
      simp only [List.cons_append, run, hx, List.length_cons]
      rw [ih h (i + 1)]
      congr 2; omega
    | error e => rw [hx] at h; cases h

/-- the eager guard of `parse_exponent` fires on the digit that overflows `i32` -/
theorem step_exp_digit_overflow (env : Env) (st : List Frame) (neg : Bool) (int : Bytes) (hf : Bool)
    (frac : Bytes) (eds raw : Bytes) (d : UInt8) (hd : isDigit d = true)
    (hv : env.tgt = .value) (hap : env.cfg.ap = false)
    (hz : (int.reverse ++ frac.reverse).all (· == 0x30) = false)
    (hov : expOverflows (d :: eds).reverse = true) :
    step env ⟨.num ⟨.exp, neg, int, hf, frac, true, false, eds, raw⟩, st⟩ d
      = .error (.NumberOutOfRange, .incl) := by
  simp only [List.reverse_cons] at hov
  simp [step, step1, stepNum, hd, hv, hap, hz, hov]

/-- the first overflowing exponent digit -/
theorem expOverflows_go_split (cs : Bytes) : ∀ e, expOverflows.go e cs = true →
    ∃ pre x post, cs = pre ++ x :: post ∧ expOverflows.go e pre = false ∧
      expOverflows.go e (pre ++ [x]) = true := by
  induction cs with
  | nil => intro e h; simp [expOverflows.go] at h
  | cons c cs ih =>
    intro e h
    by_cases ho : Model.Num.overflowMacro e (dig c) i32Max = true
    · exact ⟨[], c, cs, rfl, rfl, by simp [expOverflows.go, ho]⟩
    · simp only [expOverflows.go, ho, Bool.false_eq_true, if_false] at h
      obtain ⟨pre, x, post, rfl, h1, h2⟩ := ih _ h
      refine ⟨c :: pre, x, post, rfl, ?_, ?_⟩
      · simp only [expOverflows.go, ho, Bool.false_eq_true, if_false]; exact h1
      · simp only [List.cons_append, expOverflows.go, ho, Bool.false_eq_true, if_false]; exact h2

theorem expOverflows_split (d : UInt8) (ds : Bytes) (h : expOverflows (d :: ds) = true) :
    ∃ pre x post, ds = pre ++ x :: post ∧ expOverflows (d :: pre) = false ∧
      expOverflows (d :: pre ++ [x]) = true :=
  expOverflows_go_split ds (dig d) h

/-- the literal up to (and including) its exponent, with the scanner's state spelled out -/
theorem scan_num_exp (env : Env) (ctx : ValCtx) (st : List Frame) (minus : Bool) (int frac : Bytes)
    (c : UInt8) (sgn : Bytes) (en : Bool) (d : UInt8) (ds : Bytes)
    (hi : isInt int = true) (hf : isFrac frac = true)
    (hc : (c == 0x65 || c == 0x45) = true)
    (hs : (sgn = [] ∧ en = false) ∨ (sgn = [0x2b] ∧ en = false) ∨ (sgn = [0x2d] ∧ en = true))
    (hd : isDigit d = true) (hds : ds.all isDigit = true)
    (hov : Armed env int.reverse (frac.drop 1).reverse en → expOverflows (d :: ds) = false) :
    Feeds env ⟨.val ctx, st⟩ (NumParts.bytes ⟨minus, int, frac, c :: (sgn ++ d :: ds)⟩)
      ⟨.num ⟨.exp, minus, int.reverse, !frac.isEmpty, (frac.drop 1).reverse, true, en,
        (d :: ds).reverse, (NumParts.bytes ⟨minus, int, frac, c :: (sgn ++ d :: ds)⟩).reverse⟩, st⟩ := by
  obtain ⟨ph, hph, fA⟩ := feeds_sign_int env ctx st minus int hi
  have hAB : ∃ ph2, (ph2 = .zero ∨ ph2 = .int ∨ ph2 = .frac) ∧
      Feeds env ⟨.val ctx, st⟩ (signBytes minus ++ int ++ frac)
        ⟨.num ⟨ph2, minus, int.reverse, !frac.isEmpty, (frac.drop 1).reverse, false, false, [],
          (signBytes minus ++ int ++ frac).reverse⟩, st⟩ := by
    by_cases hfe : frac = []
    · subst hfe
      exact ⟨ph, hph.imp id Or.inl, by simpa using fA⟩
    · refine ⟨.frac, Or.inr (Or.inr rfl), ?_⟩
      have := Feeds.append fA (feeds_frac env st ph hph minus int.reverse _ frac hf hfe)
      have hne : frac.isEmpty = false := by cases frac <;> simp_all
      simpa [hne] using this
  obtain ⟨ph2, hph2, fAB⟩ := hAB
  have := Feeds.append fAB (feeds_exp env st ph2 hph2 minus int.reverse (!frac.isEmpty)
    (frac.drop 1).reverse _ c sgn en d ds hc hs hd hds hov)
  simpa [NumParts.bytes, signBytes] using this

/-- a complete number whose conversion fails: `finish` reports `NumberOutOfRange` -/
theorem finish_num_err (env : Env) (henv : env.tgt = .value) (st : List Frame) (n : NumSt)
    (hg : GoodPhase n.phase) (hv : numValue env n = .error .NumberOutOfRange) :
    finish env ⟨.num n, st⟩ = .error .NumberOutOfRange := by
  unfold Model.Machine.finish
  simp only
  cases hph : n.phase <;> simp only [hph, GoodPhase] at hg ⊢
  all_goals simp [endNumber, henv, hv]

theorem numValue_err (env : Env) (hap : env.cfg.ap = false) (n : NumSt) (p : NumParts)
    (hn : n.parts = partsOf p) (hx : numOf (specCfg env.cfg) p = none) :
    numValue env n = .error .NumberOutOfRange := by
  unfold numValue
  unfold numOf Spec.Canon.convert at hx
  simp only [specCfg, hap, Bool.false_eq_true, if_false] at hx
  rw [hn]
  simp only [hap, Bool.false_eq_true, if_false]
  cases hfr : env.cfg.fr <;> simp only [hfr, Bool.false_eq_true, if_false, if_true] at hx ⊢
  · cases hc : convertDefault (partsOf p) <;> rw [hc] at hx <;> simp_all
  · cases hc : convertRoundtrip (partsOf p) <;> rw [hc] at hx <;> simp_all

/-- a literal the configured conversion rejects makes the parser fail with `NumberOutOfRange`
    (at the end of the literal, or on the exponent digit that overflows `i32`) -/
theorem parseTop_num_err (env : Env) (henv : env.tgt = .value) (hap : env.cfg.ap = false)
    (p : NumParts) (hwf : p.WF = true) (hx : numOf (specCfg env.cfg) p = none) :
    ∃ idx, idx ≤ p.bytes.length ∧ parseTop env p.bytes = .err .NumberOutOfRange idx := by
  by_cases heager : ∃ eds, (partsOf p).exp = some (false, eds) ∧
      ((partsOf p).int ++ (partsOf p).frac.getD []).all (· == 0x30) = false ∧ expOverflows eds = true
  · -- the eager guard
    obtain ⟨eds, hexp, hz, hov⟩ := heager
    obtain ⟨minus, int, frac, exp⟩ := p
    simp only [NumParts.WF, Bool.and_eq_true] at hwf
    obtain ⟨⟨hi, hf⟩, he⟩ := hwf
    have hexp' : expOf exp = some (false, eds) := hexp
    have hne : exp ≠ [] := by rintro rfl; simp [expOf] at hexp'
    obtain ⟨c, sgn, en, d, ds, rfl, hc, hs, hd, hds, hexpOf⟩ := exp_shape exp he hne
    rw [hexpOf] at hexp'
    simp only [Option.some.injEq, Prod.mk.injEq] at hexp'
    obtain ⟨rfl, rfl⟩ := hexp'
    obtain ⟨ds', x, post, rfl, hpre, hprex⟩ := expOverflows_split d ds hov
    · 
      simp only [List.all_append, List.all_cons, Bool.and_eq_true] at hds
      obtain ⟨hds', hxd, _⟩ := hds
      have hfeed := scan_num_exp env .top [] minus int frac c sgn false d ds' hi hf hc hs hd hds'
        (fun _ => hpre)
      have hz' : (int.reverse.reverse ++ (frac.drop 1).reverse.reverse).all (· == 0x30) = false := by
        simp only [List.reverse_reverse]
        have hz2 := hz
        simp only [partsOf] at hz2
        rw [fracOf_getD] at hz2
        exact hz2
      have hstep := step_exp_digit_overflow env [] minus int.reverse (!frac.isEmpty)
        (frac.drop 1).reverse (d :: ds').reverse
        (NumParts.bytes ⟨minus, int, frac, c :: (sgn ++ d :: ds')⟩).reverse x hxd henv hap hz'
        (by simpa using hprex)
      have hbytes : NumParts.bytes ⟨minus, int, frac, c :: (sgn ++ d :: (ds' ++ x :: post))⟩
          = NumParts.bytes ⟨minus, int, frac, c :: (sgn ++ d :: ds')⟩ ++ x :: post := by
        simp [NumParts.bytes]
      refine ⟨errIdx env .incl (0 + (NumParts.bytes ⟨minus, int, frac, c :: (sgn ++ d :: ds')⟩).length),
        ?_, ?_⟩
      · have hidx : ∀ i, errIdx env .incl i = i + 1 := by
          intro i; unfold errIdx; cases env.src <;> rfl
        rw [hbytes, hidx]
        simp only [List.length_append, List.length_cons]
        omega
      · unfold parseTop
        rw [hbytes]
        exact run_feeds_err hfeed x post _ _ hstep 0
  · -- no eager rejection: the whole literal is scanned, the conversion fails at its end
    obtain ⟨n, hf, hgood, hparts⟩ := scan_num env .top [] p hwf (by
      intro eds hexp _ _ hz
      cases ho : expOverflows eds with
      | false => rfl
      | true => exact absurd ⟨eds, hexp, hz, ho⟩ heager)
    refine ⟨p.bytes.length, Nat.le_refl _, ?_⟩
    unfold parseTop
    rw [show init = ⟨.val .top, []⟩ from rfl, hf.to_run 0,
      finish_num_err env henv [] n hgood (numValue_err env hap n p hparts hx)]
    simp

/-! ## the default configuration: the parser is (B) -/

/-- a grammar-level literal as the C08 development reads it: sign, integer digits, fraction digits
    (without the point), exponent sign and digits (without the `e`/`E` and an optional `+`) -/
def litOf (p : NumParts) : NumLit := toNumLit (partsOf p)

theorem litOf_wf (p : NumParts) (hwf : p.WF = true) : (litOf p).WF = true :=
  NumLink.toNumLit_wf _ (partsOf_wf p hwf)

theorem litOf_neg (p : NumParts) : (litOf p).neg = p.minus := rfl
theorem litOf_int (p : NumParts) : (litOf p).intDigits = p.int := rfl
theorem litOf_frac (p : NumParts) : (litOf p).fracDigits = p.frac.drop 1 := fracOf_getD p.frac

/-- without `float_roundtrip` and `arbitrary_precision`, the denotation's number is (B)'s -/
theorem numOf_eq_numOfLit (cfg : Spec.Canon.Cfg) (hfr : cfg.fr = false) (hap : cfg.ap = false)
    (p : NumParts) (hwf : p.WF = true) : numOf cfg p = numOfLit (litOf p) := by
  unfold litOf
  rw [← NumLink.numOfNRes_convertDefault _ (partsOf_wf p hwf)]
  unfold numOf Spec.Canon.convert
  simp only [hap, hfr, Bool.false_eq_true, if_false]
  cases convertDefault (partsOf p) <;> rfl

/-- **the parser model on a number literal, default configuration** -/
theorem parseTop_default (env : Env) (henv : env.tgt = .value) (hfr : env.cfg.fr = false)
    (hap : env.cfg.ap = false) (p : NumParts) (hwf : p.WF = true) :
    (∀ x, numOfLit (litOf p) = some x → parseTop env p.bytes = .ok (.num x)) ∧
    (numOfLit (litOf p) = none →
      ∃ idx, idx ≤ p.bytes.length ∧ parseTop env p.bytes = .err .NumberOutOfRange idx) := by
  have hn := numOf_eq_numOfLit (specCfg env.cfg) hfr hap p hwf
  constructor
  · intro x hx
    exact parseTop_num_ok env henv p hwf x (by rw [hn]; exact hx)
  · intro hx
    exact parseTop_num_err env henv hap p hwf (by rw [hn]; exact hx)

/-- a successful parse of the literal is the predicted number -/
theorem parseTop_default_ok (env : Env) (henv : env.tgt = .value) (hfr : env.cfg.fr = false)
    (hap : env.cfg.ap = false) (p : NumParts) (hwf : p.WF = true) (v : JV)
    (h : parseTop env p.bytes = .ok v) : ∃ x, numOfLit (litOf p) = some x ∧ v = .num x := by
  obtain ⟨h1, h2⟩ := parseTop_default env henv hfr hap p hwf
  cases hx : numOfLit (litOf p) with
  | none =>
    obtain ⟨idx, _, he⟩ := h2 hx
    rw [he] at h; cases h
  | some x =>
    rw [h1 x hx] at h
    cases h
    exact ⟨x, rfl, rfl⟩

/-- a rejected literal is one (B) rejects -/
theorem parseTop_default_err (env : Env) (henv : env.tgt = .value) (hfr : env.cfg.fr = false)
    (hap : env.cfg.ap = false) (p : NumParts) (hwf : p.WF = true) (c : Code) (idx : Nat)
    (h : parseTop env p.bytes = .err c idx) :
    numOfLit (litOf p) = none ∧ c = .NumberOutOfRange := by
  obtain ⟨h1, h2⟩ := parseTop_default env henv hfr hap p hwf
  cases hx : numOfLit (litOf p) with
  | none =>
    obtain ⟨idx', _, he⟩ := h2 hx
    rw [he] at h; cases h
    exact ⟨rfl, rfl⟩
  | some x => rw [h1 x hx] at h; cases h

/-- on the short domain the exact value is far from the overflow threshold -/
theorem exact_short_not_overflow (l : NumLit) (hD : l.sigVal < 10 ^ 15) (h2 : l.netExp ≤ 22) :
    ¬ Overflows64 l.exact.1 l.exact.2 := by
  unfold NumLit.exact scale10
  apply SJ.Proofs.Ieee.not_overflows64_of_lt
  split
  · rename_i hpos
    simp only
    have hk : l.netExp.toNat ≤ 22 := by omega
    have h1 : 10 ^ l.netExp.toNat ≤ 10 ^ 22 := Nat.pow_le_pow_right (by decide) hk
    have h10 : 0 < 10 ^ l.netExp.toNat := Nat.pos_of_ne_zero (by simp)
    have h3 : l.sigVal * 10 ^ l.netExp.toNat < 10 ^ 15 * 10 ^ 22 :=
      Nat.lt_of_lt_of_le (Nat.mul_lt_mul_of_pos_right hD h10) (Nat.mul_le_mul_left _ h1)
    have h4 : 10 ^ 15 * 10 ^ 22 ≤ 2 ^ 1023 * 1 := by decide +kernel
    omega
  · simp only
    have h10 : 0 < 10 ^ (-l.netExp).toNat := Nat.pos_of_ne_zero (by simp)
    have h3 : (10 : Nat) ^ 15 ≤ 2 ^ 1023 := by decide +kernel
    have : 2 ^ 1023 * 1 ≤ 2 ^ 1023 * 10 ^ (-l.netExp).toNat := Nat.mul_le_mul_left _ h10
    omega

/-! ## integer results are exact (C06, via (A)) -/

theorem isDigits_of_all (ds : Bytes) (h : ds.all Spec.Decimal.isDigit = true) : NumInt.IsDigits ds := by
  intro c hc
  have := List.all_eq_true.1 h c hc
  simpa [Spec.Decimal.isDigit] using this

theorem frac_exp_empty (p : NumParts) (hwf : p.WF = true)
    (h : NumLink.FloatPath (Model.FloatDefault.partsOfLiteral (litOf p)) → False) :
    p.frac = [] ∧ p.exp = [] ∧ (partsOf p).frac = none ∧ (partsOf p).exp = none := by
  have hw := partsOf_wf p hwf
  have hf : (partsOf p).frac = none := by
    cases hfr : (partsOf p).frac with
    | none => rfl
    | some fds =>
      exfalso; apply h
      apply NumLink.partsOfLiteral_floatPath
      left
      show (toNumLit (partsOf p)).fracDigits ≠ []
      simp only [toNumLit, hfr, Option.getD_some]
      exact (hw.frac fds hfr).1
  have he : (partsOf p).exp = none := by
    cases hex : (partsOf p).exp with
    | none => rfl
    | some e =>
      obtain ⟨en, eds⟩ := e
      exfalso; apply h
      apply NumLink.partsOfLiteral_floatPath
      right
      show (toNumLit (partsOf p)).expDigits ≠ []
      simp only [toNumLit, hex, Option.map_some, Option.getD_some]
      exact (hw.exp en eds hex).1
  refine ⟨?_, ?_, hf, he⟩
  · simp only [partsOf] at hf
    cases hp : p.frac with
    | nil => rfl
    | cons _ _ => rw [hp] at hf; simp at hf
  · have he' : expOf p.exp = none := he
    cases hp : p.exp with
    | nil => rfl
    | cons c r =>
      rw [hp] at he'
      simp only [expOf] at he'
      split at he'
      · split at he' <;> [cases he'; (split at he' <;> cases he')]
      · cases he'

/-- `N::PosInt(n)`: the literal is an unsigned integer literal and `n` is its exact value -/
theorem numOfLit_pos_exact (p : NumParts) (hwf : p.WF = true) (n : Nat)
    (h : numOfLit (litOf p) = some (.pos n)) :
    p.minus = false ∧ p.frac = [] ∧ p.exp = [] ∧ n = natOfDigits p.int ∧ n < 2 ^ 64 := by
  have hw := partsOf_wf p hwf
  have hu := NumLink.numOfLit_pos _ _ h
  obtain ⟨h1, h2, h3, h4⟩ := frac_exp_empty p hwf (fun hfp => hfp.1 n hu)
  have hc := (NumLink.convertDefault_u64_iff (partsOf p) hw n).2 hu
  have := (NumInt.convertDefault_eq_u64_iff (partsOf p) h3 h4 (isDigits_of_all _ hw.intDigits) n).1 hc
  exact ⟨this.1, h1, h2, this.2.1, this.2.2⟩

/-- `N::NegInt(k)`: a signed integer literal other than `-0`, `k` its exact value, within `i64` -/
theorem numOfLit_neg_exact (p : NumParts) (hwf : p.WF = true) (k : Int)
    (h : numOfLit (litOf p) = some (.neg k)) :
    p.minus = true ∧ p.frac = [] ∧ p.exp = [] ∧ k = -(natOfDigits p.int : Int) ∧
      0 < natOfDigits p.int ∧ natOfDigits p.int ≤ 2 ^ 63 := by
  have hw := partsOf_wf p hwf
  have hu := NumLink.numOfLit_neg _ _ h
  obtain ⟨h1, h2, h3, h4⟩ := frac_exp_empty p hwf (fun hfp => hfp.2 k hu)
  have hc := (NumLink.convertDefault_i64_iff (partsOf p) hw k).2 hu
  have := (NumInt.convertDefault_eq_i64_iff (partsOf p) h3 h4 (isDigits_of_all _ hw.intDigits) k).1 hc
  exact ⟨this.1, h1, h2, this.2.1, this.2.2.1, this.2.2.2⟩

end SJ.Proofs.NumLinkParser
