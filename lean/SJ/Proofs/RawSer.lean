import SJ.Model.SerRaw
/-!
# C19 helper lemmas: serialising programs that contain `RawValue`s

* `serR_erase`: `serR p = ser p.erase` — the extended serializer is `Model.Ser.ser` on the program in which
  every `RawValue` leaf is replaced by the `arbitrary_precision` number-literal leaf carrying the same text
  (in particular it IS `ser` on `RawValue`-free programs, `erase (leaf p) = p`), so every C03 theorem
  about `ser` transfers.
* one-hole contexts `Ctx` and `hole_verbatim`: whatever surrounds a `RawValue`, its text is handed to the
  writer as one buffer, unchanged, and neither the buffers before and after it, nor the formatter state
  afterwards, nor the success of the whole serialisation depend on the text.
-/
namespace SJ.Proofs.RawSer
open SJ SJ.Model.Ser SJ.Model.SerRaw SJ.Model.EscapeLocal

section
variable (ext : Ext) (f : Fmt)

theorem keySerR_erase : ∀ k : RVal, keySerR ext k = keySer ext k.erase
  | .leaf p => by simp [keySerR, RVal.erase]
  | .some k => by simp [keySerR, RVal.erase, keySer, keySerR_erase k]
  | .newtypeStruct k => by simp [keySerR, RVal.erase, keySer, keySerR_erase k]
  | .raw _ | .newtypeVariant _ _ | .seq _ _ | .tuple _ | .tupleStruct _ | .tupleVariant _ _ | .map _ _
  | .struct_ _ | .structVariant _ _ => by simp [keySerR, RVal.erase, keySer]

theorem length_eraseList : ∀ xs : List RVal, (eraseList xs).length = xs.length
  | [] => rfl
  | x :: xs => by simp [eraseList, length_eraseList xs]
theorem length_eraseFields : ∀ xs : List (Bytes × RVal), (eraseFields xs).length = xs.length
  | [] => rfl
  | (k, v) :: xs => by simp [eraseFields, length_eraseFields xs]

mutual
theorem serR_erase : ∀ (p : RVal) (st : FState), serR ext f p st = ser ext f p.erase st
  | .leaf p, st => by simp [serR, RVal.erase]
  | .raw t, st => by simp [serR, RVal.erase, ser]
  | .some p, st => by simpa [serR, RVal.erase, ser] using serR_erase p st
  | .newtypeStruct p, st => by simpa [serR, RVal.erase, ser] using serR_erase p st
  | .newtypeVariant v p, st => by simp only [serR, RVal.erase, ser, serR_erase p]
  | .seq hint xs, st => by simp only [serR, RVal.erase, ser, serRElems_erase xs]
  | .tuple xs, st => by simp only [serR, RVal.erase, ser, serRElems_erase xs, length_eraseList]
  | .tupleStruct xs, st => by simp only [serR, RVal.erase, ser, serRElems_erase xs, length_eraseList]
  | .tupleVariant v xs, st => by simp only [serR, RVal.erase, ser, serRElems_erase xs, length_eraseList]
  | .map hint es, st => by simp only [serR, RVal.erase, ser, serREntries_erase es]
  | .struct_ fs, st => by simp only [serR, RVal.erase, ser, serRFields_erase fs, length_eraseFields]
  | .structVariant v fs, st => by simp only [serR, RVal.erase, ser, serRFields_erase fs, length_eraseFields]

theorem serRElems_erase : ∀ (xs : List RVal) (s : State) (st : FState),
    serRElems ext f xs s st = serElems ext f (eraseList xs) s st
  | [], s, st => by simp [serRElems, eraseList, serElems]
  | x :: xs, s, st => by
    simp only [serRElems, eraseList, serElems, serR_erase x, serRElems_erase xs]
    rfl

theorem serREntries_erase : ∀ (es : List (RVal × RVal)) (s : State) (st : FState),
    serREntries ext f es s st = serEntries ext f (eraseEntries es) s st
  | [], s, st => by simp [serREntries, eraseEntries, serEntries]
  | (k, v) :: es, s, st => by
    simp only [serREntries, eraseEntries, serEntries, keySerR_erase, serR_erase v, serREntries_erase es]
    rfl

theorem serRFields_erase : ∀ (fs : List (Bytes × RVal)) (s : State) (st : FState),
    serRFields ext f fs s st = serFields ext f (eraseFields fs) s st
  | [], s, st => by simp [serRFields, eraseFields, serFields]
  | (k, v) :: fs, s, st => by
    simp only [serRFields, eraseFields, serFields, serR_erase v, serRFields_erase fs]
    rfl
end

end

/-! ## one-hole contexts -/

/-- a program with one hole in value position (not inside a map key: there a `RawValue` is an error) -/
inductive Ctx where
  | hole
  | some (c : Ctx)
  | newtypeStruct (c : Ctx)
  | newtypeVariant (variant : Bytes) (c : Ctx)
  | seq (hint : Option Nat) (pre : List RVal) (c : Ctx) (post : List RVal)
  | tuple (pre : List RVal) (c : Ctx) (post : List RVal)
  | tupleStruct (pre : List RVal) (c : Ctx) (post : List RVal)
  | tupleVariant (variant : Bytes) (pre : List RVal) (c : Ctx) (post : List RVal)
  | mapValue (hint : Option Nat) (pre : List (RVal × RVal)) (key : RVal) (c : Ctx) (post : List (RVal × RVal))
  | field (pre : List (Bytes × RVal)) (name : Bytes) (c : Ctx) (post : List (Bytes × RVal))
  | variantField (variant : Bytes) (pre : List (Bytes × RVal)) (name : Bytes) (c : Ctx) (post : List (Bytes × RVal))

def Ctx.plug : Ctx → RVal → RVal
  | .hole, x => x
  | .some c, x => .some (c.plug x)
  | .newtypeStruct c, x => .newtypeStruct (c.plug x)
  | .newtypeVariant v c, x => .newtypeVariant v (c.plug x)
  | .seq h pre c post, x => .seq h (pre ++ c.plug x :: post)
  | .tuple pre c post, x => .tuple (pre ++ c.plug x :: post)
  | .tupleStruct pre c post, x => .tupleStruct (pre ++ c.plug x :: post)
  | .tupleVariant v pre c post, x => .tupleVariant v (pre ++ c.plug x :: post)
  | .mapValue h pre k c post, x => .map h (pre ++ (k, c.plug x) :: post)
  | .field pre n c post, x => .struct_ (pre ++ (n, c.plug x) :: post)
  | .variantField v pre n c post, x => .structVariant v (pre ++ (n, c.plug x) :: post)

/-- `g text` either fails with an error that does not depend on the text, or writes `pre ++ [text] ++ post`
    with `pre`, `post` and the final formatter state independent of the text -/
def HoleW (g : Bytes → Except SerErr W) : Prop :=
  (∃ e, ∀ t, g t = .error e) ∨ (∃ pre post st', ∀ t, g t = .ok ⟨pre ++ [t] ++ post, st'⟩)

def HoleWS (g : Bytes → Except SerErr WS) : Prop :=
  (∃ e, ∀ t, g t = .error e) ∨ (∃ pre post s st', ∀ t, g t = .ok ⟨pre ++ [t] ++ post, s, st'⟩)

theorem HoleW.finishNewtypeVariant {g : Bytes → Except SerErr W} (f : Fmt) (a : W) (h : HoleW g) :
    HoleW fun t => finishNewtypeVariant f a (g t) := by
  rcases h with ⟨e, he⟩ | ⟨pre, post, st', hg⟩
  · exact .inl ⟨e, fun t => by simp [he, Model.Ser.finishNewtypeVariant]⟩
  · refine .inr ⟨a.bufs ++ pre, post ++ (endObjectValue f st').bufs ++ (endObject f (endObjectValue f st').st).bufs,
      (endObject f (endObjectValue f st').st).st, fun t => ?_⟩
    simp [hg, Model.Ser.finishNewtypeVariant, W.andThen]

theorem HoleWS.finishSeq {g : Bytes → Except SerErr WS} (f : Fmt) (o : WS) (h : HoleWS g) :
    HoleW fun t => finishSeq f o (g t) := by
  rcases h with ⟨e, he⟩ | ⟨pre, post, s, st', hg⟩
  · exact .inl ⟨e, fun t => by simp [he, Model.Ser.finishSeq]⟩
  · refine .inr ⟨o.bufs ++ pre, post ++ (seqEnd f s st').bufs, (seqEnd f s st').st, fun t => ?_⟩
    simp [hg, Model.Ser.finishSeq, W.andThen]

theorem HoleWS.finishMap {g : Bytes → Except SerErr WS} (f : Fmt) (o : WS) (h : HoleWS g) :
    HoleW fun t => finishMap f o (g t) := by
  rcases h with ⟨e, he⟩ | ⟨pre, post, s, st', hg⟩
  · exact .inl ⟨e, fun t => by simp [he, Model.Ser.finishMap]⟩
  · refine .inr ⟨o.bufs ++ pre, post ++ (mapEnd f s st').bufs, (mapEnd f s st').st, fun t => ?_⟩
    simp [hg, Model.Ser.finishMap, W.andThen]

theorem HoleWS.finishTupleVariant {g : Bytes → Except SerErr WS} (f : Fmt) (a : W) (o : WS) (h : HoleWS g) :
    HoleW fun t => finishTupleVariant f a o (g t) := by
  rcases h with ⟨e, he⟩ | ⟨pre, post, s, st', hg⟩
  · exact .inl ⟨e, fun t => by simp [he, Model.Ser.finishTupleVariant]⟩
  · refine .inr ⟨a.bufs ++ o.bufs ++ pre, post ++ (tupleVariantEnd f s st').bufs, (tupleVariantEnd f s st').st, fun t => ?_⟩
    simp [hg, Model.Ser.finishTupleVariant, W.andThen]

theorem HoleWS.finishStructVariant {g : Bytes → Except SerErr WS} (f : Fmt) (a : W) (o : WS) (h : HoleWS g) :
    HoleW fun t => finishStructVariant f a o (g t) := by
  rcases h with ⟨e, he⟩ | ⟨pre, post, s, st', hg⟩
  · exact .inl ⟨e, fun t => by simp [he, Model.Ser.finishStructVariant]⟩
  · refine .inr ⟨a.bufs ++ o.bufs ++ pre, post ++ (structVariantEnd f s st').bufs, (structVariantEnd f s st').st, fun t => ?_⟩
    simp [hg, Model.Ser.finishStructVariant, W.andThen]

section
variable (ext : Ext) (f : Fmt)

/-! ### the element / entry / field loops split at an append -/

theorem serRElems_append : ∀ (xs ys : List RVal) (s : State) (st : FState),
    serRElems ext f (xs ++ ys) s st =
      match serRElems ext f xs s st with
      | .error e => .error e
      | .ok r =>
        match serRElems ext f ys r.state r.st with
        | .error e => .error e
        | .ok t => .ok { bufs := r.bufs ++ t.bufs, state := t.state, st := t.st }
  | [], ys, s, st => by
    simp only [List.nil_append, serRElems]
    cases serRElems ext f ys s st <;> simp
  | x :: xs, ys, s, st => by
    simp only [List.cons_append, serRElems]
    cases hx : serR ext f x (beginArrayValue f (s == .first) st).st with
    | error e => rfl
    | ok r =>
      simp only [serRElems_append xs ys]
      cases serRElems ext f xs .rest (endArrayValue f r.st).st with
      | error e => rfl
      | ok r2 =>
        simp only
        cases serRElems ext f ys r2.state r2.st with
        | error e => rfl
        | ok t => simp

theorem serREntries_append : ∀ (xs ys : List (RVal × RVal)) (s : State) (st : FState),
    serREntries ext f (xs ++ ys) s st =
      match serREntries ext f xs s st with
      | .error e => .error e
      | .ok r =>
        match serREntries ext f ys r.state r.st with
        | .error e => .error e
        | .ok t => .ok { bufs := r.bufs ++ t.bufs, state := t.state, st := t.st }
  | [], ys, s, st => by
    simp only [List.nil_append, serREntries]
    cases serREntries ext f ys s st <;> simp
  | (k, v) :: xs, ys, s, st => by
    simp only [List.cons_append, serREntries]
    cases keySerR ext k with
    | error e => rfl
    | ok kb =>
      simp only
      cases serR ext f v _ with
      | error e => rfl
      | ok r =>
        simp only [serREntries_append xs ys]
        cases serREntries ext f xs .rest (endObjectValue f r.st).st with
        | error e => rfl
        | ok r2 =>
          simp only
          cases serREntries ext f ys r2.state r2.st with
          | error e => rfl
          | ok t => simp

theorem serRFields_append : ∀ (xs ys : List (Bytes × RVal)) (s : State) (st : FState),
    serRFields ext f (xs ++ ys) s st =
      match serRFields ext f xs s st with
      | .error e => .error e
      | .ok r =>
        match serRFields ext f ys r.state r.st with
        | .error e => .error e
        | .ok t => .ok { bufs := r.bufs ++ t.bufs, state := t.state, st := t.st }
  | [], ys, s, st => by
    simp only [List.nil_append, serRFields]
    cases serRFields ext f ys s st <;> simp
  | (k, v) :: xs, ys, s, st => by
    simp only [List.cons_append, serRFields]
    cases serR ext f v _ with
    | error e => rfl
    | ok r =>
      simp only [serRFields_append xs ys]
      cases serRFields ext f xs .rest (endObjectValue f r.st).st with
      | error e => rfl
      | ok r2 =>
        simp only
        cases serRFields ext f ys r2.state r2.st with
        | error e => rfl
        | ok t => simp

/-! ### a hole inside one element / entry / field -/

theorem hole_elems (x : Bytes → RVal) (hx : ∀ st, HoleW fun t => serR ext f (x t) st)
    (pre post : List RVal) (s : State) (st : FState) :
    HoleWS fun t => serRElems ext f (pre ++ x t :: post) s st := by
  unfold HoleWS
  simp only [serRElems_append]
  cases hpre : serRElems ext f pre s st with
  | error e => exact .inl ⟨e, fun _ => rfl⟩
  | ok r =>
    simp only [serRElems]
    rcases hx (beginArrayValue f (r.state == .first) r.st).st with ⟨e, he⟩ | ⟨p, q, st', hg⟩
    · exact .inl ⟨e, fun t => by simp [he]⟩
    · simp only [hg]
      cases serRElems ext f post .rest (endArrayValue f st').st with
      | error e => exact .inl ⟨e, fun _ => rfl⟩
      | ok t2 =>
        refine .inr ⟨r.bufs ++ (beginArrayValue f (r.state == .first) r.st).bufs ++ p,
          q ++ (endArrayValue f st').bufs ++ t2.bufs, t2.state, t2.st, fun t => ?_⟩
        simp

theorem hole_entries (x : Bytes → RVal) (hx : ∀ st, HoleW fun t => serR ext f (x t) st)
    (pre post : List (RVal × RVal)) (k : RVal) (s : State) (st : FState) :
    HoleWS fun t => serREntries ext f (pre ++ (k, x t) :: post) s st := by
  unfold HoleWS
  simp only [serREntries_append]
  cases hpre : serREntries ext f pre s st with
  | error e => exact .inl ⟨e, fun _ => rfl⟩
  | ok r =>
    simp only [serREntries]
    cases keySerR ext k with
    | error e => exact .inl ⟨e, fun _ => rfl⟩
    | ok kb =>
      simp only
      generalize hb : ((W.mk ((beginObjectKey f (r.state == .first) r.st).bufs ++ kb)
        (beginObjectKey f (r.state == .first) r.st).st).andThen (endObjectKey f)).andThen (beginObjectValue f) = b
      rcases hx b.st with ⟨e, he⟩ | ⟨p, q, st', hg⟩
      · exact .inl ⟨e, fun t => by simp [he]⟩
      · simp only [hg]
        cases serREntries ext f post .rest (endObjectValue f st').st with
        | error e => exact .inl ⟨e, fun _ => rfl⟩
        | ok t2 =>
          refine .inr ⟨r.bufs ++ b.bufs ++ p, q ++ (endObjectValue f st').bufs ++ t2.bufs, t2.state, t2.st, fun t => ?_⟩
          simp

theorem hole_fields (x : Bytes → RVal) (hx : ∀ st, HoleW fun t => serR ext f (x t) st)
    (pre post : List (Bytes × RVal)) (k : Bytes) (s : State) (st : FState) :
    HoleWS fun t => serRFields ext f (pre ++ (k, x t) :: post) s st := by
  unfold HoleWS
  simp only [serRFields_append]
  cases hpre : serRFields ext f pre s st with
  | error e => exact .inl ⟨e, fun _ => rfl⟩
  | ok r =>
    simp only [serRFields]
    generalize hb : ((W.mk ((beginObjectKey f (r.state == .first) r.st).bufs ++ escapeStr k)
      (beginObjectKey f (r.state == .first) r.st).st).andThen (endObjectKey f)).andThen (beginObjectValue f) = b
    rcases hx b.st with ⟨e, he⟩ | ⟨p, q, st', hg⟩
    · exact .inl ⟨e, fun t => by simp [he]⟩
    · simp only [hg]
      cases serRFields ext f post .rest (endObjectValue f st').st with
      | error e => exact .inl ⟨e, fun _ => rfl⟩
      | ok t2 =>
        refine .inr ⟨r.bufs ++ b.bufs ++ p, q ++ (endObjectValue f st').bufs ++ t2.bufs, t2.state, t2.st, fun t => ?_⟩
        simp

theorem length_plug_list (pre post : List RVal) (a b : RVal) :
    (pre ++ a :: post).length = (pre ++ b :: post).length := by simp
theorem length_plug_fields (pre post : List (Bytes × RVal)) (n : Bytes) (a b : RVal) :
    (pre ++ (n, a) :: post).length = (pre ++ (n, b) :: post).length := by simp

/-- **the hole theorem**: a `RawValue` at the hole of any context -/
theorem hole_verbatim : ∀ (c : Ctx) (st : FState), HoleW fun t => serR ext f (c.plug (.raw t)) st
  | .hole, st => .inr ⟨[], [], st, fun t => by simp [Ctx.plug, serR, write]⟩
  | .some c, st => by simpa [Ctx.plug, serR] using hole_verbatim c st
  | .newtypeStruct c, st => by simpa [Ctx.plug, serR] using hole_verbatim c st
  | .newtypeVariant v c, st => by
    simp only [Ctx.plug, serR]
    exact (hole_verbatim c _).finishNewtypeVariant f _
  | .seq h pre c post, st => by
    simp only [Ctx.plug, serR]
    exact (hole_elems ext f (fun t => c.plug (.raw t)) (fun st' => hole_verbatim c st') pre post _ _).finishSeq f _
  | .tuple pre c post, st => by
    simp only [Ctx.plug, serR, length_plug_list pre post _ (c.plug (.raw []))]
    exact (hole_elems ext f (fun t => c.plug (.raw t)) (fun st' => hole_verbatim c st') pre post _ _).finishSeq f _
  | .tupleStruct pre c post, st => by
    simp only [Ctx.plug, serR, length_plug_list pre post _ (c.plug (.raw []))]
    exact (hole_elems ext f (fun t => c.plug (.raw t)) (fun st' => hole_verbatim c st') pre post _ _).finishSeq f _
  | .tupleVariant v pre c post, st => by
    simp only [Ctx.plug, serR, length_plug_list pre post _ (c.plug (.raw []))]
    exact (hole_elems ext f (fun t => c.plug (.raw t)) (fun st' => hole_verbatim c st') pre post _ _).finishTupleVariant f _ _
  | .mapValue h pre k c post, st => by
    simp only [Ctx.plug, serR]
    exact (hole_entries ext f (fun t => c.plug (.raw t)) (fun st' => hole_verbatim c st') pre post k _ _).finishMap f _
  | .field pre n c post, st => by
    simp only [Ctx.plug, serR, length_plug_fields pre post n _ (c.plug (.raw []))]
    exact (hole_fields ext f (fun t => c.plug (.raw t)) (fun st' => hole_verbatim c st') pre post n _ _).finishMap f _
  | .variantField v pre n c post, st => by
    simp only [Ctx.plug, serR, length_plug_fields pre post n _ (c.plug (.raw []))]
    exact (hole_fields ext f (fun t => c.plug (.raw t)) (fun st' => hole_verbatim c st') pre post n _ _).finishStructVariant f _ _

end

end SJ.Proofs.RawSer
