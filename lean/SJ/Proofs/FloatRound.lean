import SJ.Proofs.FloatZero
import Mathlib.Tactic.Linarith
import Mathlib.Tactic.Positivity
import Mathlib.Tactic.FieldSimp
import Mathlib.Tactic.NormNum
import Mathlib.Algebra.Order.Field.Basic
/-!
# Error calculus for the default float path, on rationals

Magnitudes of doubles are naturals in units of `2^-1074` (`F64.mag`). Here they are cast to `ℚ` and
every operation of `f64_from_parts` is described by one predicate

    Near α h v x  :=  |v − x| ≤ α·x + h        (relative error `α`, absolute error `h`, both in units)

* `near_round`  : one IEEE rounding adds `u = 2^-53` relative **and** half a unit absolute — valid in every
  range (normal, subnormal, zero), which is what makes the analysis uniform;
* `near_quot`, `near_prod` : exact quotient / product of two approximations;
* `near_mono` : weakening.

Only `SJ/Proofs/*` may use Mathlib; nothing here is linked into the driver.
-/
namespace SJ.Proofs.FloatQ
open SJ SJ.Spec.Ieee SJ.Proofs.Ieee

/-! ## One more fact about `roundMag`, on naturals -/

/-- **Error bound in every range**: `|M − a/b| ≤ ε·a/b + 1/2` with `ε = 2^-(mbits+1)` -/
theorem roundMag_abs (F : Fmt) (a b : Nat) (hb : 0 < b) :
    2 * 2 ^ F.mbits * adiff (magOfBits F (roundMag F a b) * b) a ≤ a + 2 ^ F.mbits * b := by
  rw [mag_roundMag F a b hb]
  have hc : 0 < b * 2 ^ kOf F a b := Nat.mul_pos hb (two_pow_pos' _)
  have hbr := rne_bracket a (b * 2 ^ kOf F a b) hc
  have e0 : rne a (b * 2 ^ kOf F a b) * 2 ^ kOf F a b * b
      = rne a (b * 2 ^ kOf F a b) * (b * 2 ^ kOf F a b) := by ring
  rw [e0]
  generalize adiff (rne a (b * 2 ^ kOf F a b) * (b * 2 ^ kOf F a b)) a = d at hbr ⊢
  generalize hP : 2 ^ F.mbits = P
  rcases Nat.eq_zero_or_pos (kOf F a b) with hk | hk
  · rw [hk] at hbr
    simp only [Nat.pow_zero, Nat.mul_one] at hbr
    calc 2 * P * d = P * (2 * d) := by ring
      _ ≤ P * b := Nat.mul_le_mul_left _ hbr
      _ ≤ a + P * b := Nat.le_add_left _ _
  · obtain ⟨h1, _⟩ := kOf_pos F a b hk
    have h2 := (Nat.le_div_iff_mul_le hb).1 h1
    have h3 : P * (b * 2 ^ kOf F a b) ≤ a := by
      rw [← hP]
      calc 2 ^ F.mbits * (b * 2 ^ kOf F a b) = 2 ^ F.mbits * 2 ^ kOf F a b * b := by ring
        _ ≤ a := h2
    generalize b * 2 ^ kOf F a b = c at hbr h3
    calc 2 * P * d = P * (2 * d) := by ring
      _ ≤ P * c := Nat.mul_le_mul_left _ hbr
      _ ≤ a := h3
      _ ≤ a + P * b := Nat.le_add_right _ _

/-! ## Casting to `ℚ` -/

theorem adiff_cast (x y : Nat) : ((adiff x y : Nat) : ℚ) = |(x : ℚ) - (y : ℚ)| := by
  unfold adiff
  rcases Nat.le_total x y with h | h
  · have h1 : x - y = 0 := Nat.sub_eq_zero_of_le h
    have h2 : (x : ℚ) ≤ (y : ℚ) := by exact_mod_cast h
    rw [h1, Nat.zero_add, Nat.cast_sub h, abs_of_nonpos (by linarith)]
    ring
  · have h1 : y - x = 0 := Nat.sub_eq_zero_of_le h
    have h2 : (y : ℚ) ≤ (x : ℚ) := by exact_mod_cast h
    rw [h1, Nat.add_zero, Nat.cast_sub h, abs_of_nonneg (by linarith)]

/-- unit roundoff of binary64 -/
def u : ℚ := 1 / 2 ^ 53

/-- the scale of magnitudes: `|value| = mag / c` -/
@[irreducible] def c : ℚ := 2 ^ 1074

theorem two_pow_eq_c : (2 : ℚ) ^ 1074 = c := by unfold c; rfl
theorem c_pos : 0 < c := by rw [← two_pow_eq_c]; positivity
theorem u_pos : 0 < u := by unfold u; positivity
theorem c_cast : ((2 ^ 1074 : Nat) : ℚ) = c := by rw [← two_pow_eq_c]; push_cast; rfl

/-- `|v − x| ≤ α·x + h` -/
def Near (α h v x : ℚ) : Prop := |v - x| ≤ α * x + h

theorem near_mono {α h α' h' v x : ℚ} (hx : 0 ≤ x) (hα : α ≤ α') (hh : h ≤ h') (hn : Near α h v x) :
    Near α' h' v x := by
  unfold Near at *
  have : α * x ≤ α' * x := mul_le_mul_of_nonneg_right hα hx
  linarith

/-- the exact product of two relative approximations -/
theorem near_prod {α β f g X T : ℚ} (hX : 0 ≤ X) (hT : 0 ≤ T) (hα : 0 ≤ α)
    (hf : Near α 0 f X) (hg : Near β 0 g T) : Near (α + β + α * β) 0 (f * g) (X * T) := by
  unfold Near at *
  have hβ : 0 ≤ β * T := by
    have := abs_nonneg (g - T); linarith
  have e : f * g - X * T = (f - X) * T + X * (g - T) + (f - X) * (g - T) := by ring
  have h1 : |(f - X) * T| ≤ α * X * T := by
    rw [abs_mul, abs_of_nonneg hT]
    exact mul_le_mul_of_nonneg_right (by linarith) hT
  have h2 : |X * (g - T)| ≤ X * (β * T) := by
    rw [abs_mul, abs_of_nonneg hX]
    exact mul_le_mul_of_nonneg_left (by linarith) hX
  have h3 : |(f - X) * (g - T)| ≤ (α * X) * (β * T) := by
    rw [abs_mul]
    exact mul_le_mul (by linarith) (by linarith) (abs_nonneg _) (by positivity)
  rw [e]
  calc |(f - X) * T + X * (g - T) + (f - X) * (g - T)|
      ≤ |(f - X) * T + X * (g - T)| + |(f - X) * (g - T)| := abs_add_le _ _
    _ ≤ |(f - X) * T| + |X * (g - T)| + |(f - X) * (g - T)| := by
        have := abs_add_le ((f - X) * T) (X * (g - T)); linarith
    _ ≤ α * X * T + X * (β * T) + (α * X) * (β * T) := by linarith
    _ = (α + β + α * β) * (X * T) + 0 := by ring

/-- the exact quotient of an approximation by a relative approximation of a positive number -/
theorem near_quot {α h β f g X T : ℚ} (hX : 0 ≤ X) (hT : 0 < T) (hα : 0 ≤ α) (hh : 0 ≤ h)
    (hβ1 : β < 1) (hf : Near α h f X) (hg : Near β 0 g T) :
    Near ((α + β) / (1 - β)) (h / ((1 - β) * T)) (f / g) (X / T) := by
  unfold Near at *
  have hβ : 0 ≤ β := by
    have h0 := abs_nonneg (g - T)
    have : 0 ≤ β * T := by linarith
    by_contra hneg
    have : β * T < 0 := mul_neg_of_neg_of_pos (by linarith) hT
    linarith
  have hgl : (1 - β) * T ≤ g := by
    have := (abs_le.1 hg).1; linarith
  have hb1 : 0 < 1 - β := by linarith
  have hgpos : 0 < g := lt_of_lt_of_le (mul_pos hb1 hT) hgl
  have e : f / g - X / T = ((f - X) + X * (T - g) / T) / g := by
    field_simp
    ring
  have h1 : |X * (T - g) / T| ≤ β * X := by
    rw [abs_div, abs_mul, abs_of_nonneg hX, abs_of_pos hT, abs_sub_comm]
    rw [div_le_iff₀ hT]
    calc X * |g - T| ≤ X * (β * T + 0) := mul_le_mul_of_nonneg_left hg hX
      _ = β * X * T := by ring
  have h2 : |(f - X) + X * (T - g) / T| ≤ (α + β) * X + h := by
    have := abs_add_le (f - X) (X * (T - g) / T); linarith
  have hnum : 0 ≤ (α + β) * X + h := by positivity
  rw [e, abs_div, abs_of_pos hgpos]
  calc |(f - X) + X * (T - g) / T| / g ≤ ((α + β) * X + h) / g :=
        div_le_div_of_nonneg_right h2 (le_of_lt hgpos)
    _ ≤ ((α + β) * X + h) / ((1 - β) * T) :=
        div_le_div_of_nonneg_left hnum (mul_pos hb1 hT) hgl
    _ = (α + β) / (1 - β) * (X / T) + h / ((1 - β) * T) := by
        field_simp

/-- one rounding on top of an approximation of the exact operation -/
theorem near_round {γ h' hr v q Y : ℚ} (hv : Near u hr v q) (hq : Near γ h' q Y) :
    Near (γ + u + u * γ) ((1 + u) * h' + hr) v Y := by
  unfold Near at *
  have hu := u_pos
  have hq' := abs_le.1 hq
  have h1 : q ≤ Y + (γ * Y + h') := by linarith
  have h2 : u * q ≤ u * (Y + (γ * Y + h')) := mul_le_mul_of_nonneg_left h1 (le_of_lt hu)
  calc |v - Y| = |(v - q) + (q - Y)| := by ring_nf
    _ ≤ |v - q| + |q - Y| := abs_add_le _ _
    _ ≤ (u * q + hr) + (γ * Y + h') := by linarith
    _ ≤ (γ + u + u * γ) * Y + ((1 + u) * h' + hr) := by nlinarith

/-- dividing both sides by a positive constant -/
theorem near_scale {α v x k : ℚ} (hk : 0 < k) (hn : Near α 0 v x) : Near α 0 (v / k) (x / k) := by
  unfold Near at *
  have e : v / k - x / k = (v - x) / k := by ring
  rw [e, abs_div, abs_of_pos hk, div_le_iff₀ hk]
  have : α * (x / k) * k = α * x := by field_simp
  linarith

/-! ## The primitive operations -/

/-- a successful `roundNE64` of `num/den`: `u` relative plus half a unit, in every range -/
theorem round_near (neg : Bool) (num den : Nat) (hden : 0 < den) (r : UInt64)
    (h : roundNE64 neg num den = some r) :
    Near u (1 / 2) (F64.mag r : ℚ) ((num : ℚ) * c / (den : ℚ)) := by
  obtain ⟨hu, hr⟩ := roundNE64_some neg num den r h
  have hm : F64.mag r = magOfBits b64 (rmag64 num den) := by rw [hr, bits64_mag neg _ hu]
  have hab := roundMag_abs b64 (num * 2 ^ 1074) den hden
  rw [b64_mbits] at hab
  unfold rmag64 at hm
  rw [← hm] at hab
  have hq : ((2 * 2 ^ 52 * adiff (F64.mag r * den) (num * 2 ^ 1074) : Nat) : ℚ)
      ≤ ((num * 2 ^ 1074 + 2 ^ 52 * den : Nat) : ℚ) := by exact_mod_cast hab
  rw [Nat.cast_mul, adiff_cast] at hq
  push_cast at hq
  rw [two_pow_eq_c] at hq
  have hdq : (0 : ℚ) < den := by exact_mod_cast hden
  unfold Near u
  have e : (F64.mag r : ℚ) - (num : ℚ) * c / den = ((F64.mag r : ℚ) * den - num * c) / den := by
    field_simp
  rw [e, abs_div, abs_of_pos hdq, div_le_iff₀ hdq]
  have e2 : (1 / 2 ^ 53 * ((num : ℚ) * c / den) + 1 / 2) * den = (num * c + 2 ^ 52 * den) / (2 * 2 ^ 52) := by
    field_simp
  rw [e2, le_div_iff₀ (by positivity)]
  linarith

end SJ.Proofs.FloatQ
