import SJ.Proofs.TypedFuel
import SJ.Proofs.Machine
/-!
# A failing reader (C13, typed targets): with `env.flt` every site that asks for a byte beyond the
# delivered ones answers `Res.io`, so no `Eof…` code can be produced — every parser error of such a run
# is Syntax-classified (it was raised on a delivered byte).
-/
namespace SJ.Proofs.Typed
open SJ SJ.Gen SJ.Model SJ.Model.Typed
open SJ.Model.Machine (St Mode Frame Step step1 errIdx endNumber finishMode init)
open SJ.Model.Stream (skipWs)

/-- every parser error of the result is Syntax-classified -/
def Syn {α : Type} (r : Res α) : Prop := ∀ c i, r = .err c i → classify c = .syntax

theorem Syn.bind {α β : Type} {r : Res α} {k : α → Bytes → Nat → Res β} (h1 : Syn r)
    (h2 : ∀ a r1 p1, r = .ok a r1 p1 → Syn (k a r1 p1)) : Syn (r.bind k) := by
  intro c i e
  cases r with
  | ok a r1 p1 => exact h2 a r1 p1 rfl c i e
  | err c' i' => simp [Res.bind] at e; exact h1 c' i' (by rw [e.1, e.2]) ▸ (e.1 ▸ rfl)
  | _ => simp [Res.bind] at e

theorem Syn.map {α β : Type} {r : Res α} (f : α → β) (h : Syn r) : Syn (r.map f) :=
  Syn.bind h fun _ _ _ _ => by intro c i e; simp at e

theorem syn_ok {α : Type} {a : α} {r : Bytes} {p : Nat} : Syn (.ok a r p : Res α) := by intro c i e; simp at e
theorem syn_io {α : Type} : Syn (.io : Res α) := by intro c i e; simp at e
theorem syn_raw {α : Type} {r : Bytes} {p : Nat} : Syn (.raw r p : Res α) := by intro c i e; simp at e
theorem syn_data {α : Type} {i : Nat} : Syn (.data i : Res α) := by intro c i e; simp at e
theorem syn_fuel {α : Type} : Syn (.fuel : Res α) := by intro c i e; simp at e
theorem syn_err {α : Type} {c : Code} {i : Nat} (h : classify c = .syntax) : Syn (.err c i : Res α) := by
  intro c' i' e; simp at e; rw [← e.1]; exact h

theorem syn_atEof {α : Type} {env : Env} (hf : env.flt = true) {c : Code} {i : Nat} : Syn (atEof env c i : Res α) := by
  unfold atEof; rw [hf]; exact syn_io

/-- the machine under a failing reader: errors come from steps only -/
theorem runPfx_flt_err (menv : Machine.Env) (t : Nat) (s : St) (i : Nat) (bs : Bytes) (c : Code) (idx : Nat)
    (h : runPfx menv true t s i bs = .err c idx) : classify c = .syntax := by
  induction bs generalizing s i with
  | nil => simp [runPfx] at h
  | cons b bs ih =>
    unfold runPfx at h
    repeat' split at h
    all_goals first
      | (simp at h; done)
      | exact ih _ _ h
      | (rename_i c' a' hs; simp at h; obtain ⟨rfl, _⟩ := h
         exact (SJ.Proofs.Machine.step1_err menv _ b _ _ hs).2)
      | (simp at h; obtain ⟨rfl, _⟩ := h; rfl)

theorem syn_machine (menv : Machine.Env) (t : Nat) (s : St) (rest : Bytes) (pos : Nat) :
    Syn (machine menv true t s rest pos) := by
  intro c i e
  unfold machine at e
  split at e
  · simp at e
  · rename_i c' i' h
    simp at e; obtain ⟨rfl, _⟩ := e
    exact runPfx_flt_err _ _ _ _ _ _ _ h
  · simp at e

variable {env : Env} (hf : env.flt = true)
include hf

theorem syn_withPeek {α : Type} {c : Code} {rest : Bytes} {pos : Nat} {k : UInt8 → Bytes → Nat → Res α}
    (h : ∀ b r p, Syn (k b r p)) : Syn (withPeek env c rest pos k) := by
  unfold withPeek
  split
  · exact syn_atEof hf
  · exact h _ _ _

theorem syn_parseIdent (id rest : Bytes) (pos : Nat) : Syn (parseIdent env id rest pos) := by
  induction id generalizing rest pos with
  | nil => simp only [parseIdent]; exact syn_ok
  | cons e es ih =>
    cases rest with
    | nil => simp only [parseIdent]; exact syn_atEof hf
    | cons b r =>
      simp only [parseIdent]
      split
      · exact ih r (pos + 1)
      · exact syn_err rfl

theorem syn_peekInvalidType {α : Type} (rest : Bytes) (pos : Nat) : Syn (peekInvalidType env rest pos : Res α) := by
  cases rest with
  | nil => simp only [peekInvalidType]; exact syn_err rfl
  | cons b bs =>
    simp only [peekInvalidType]
    split
    · exact syn_data
    · have hm := syn_machine (valEnv env) 0 init (b :: bs) pos
      rw [hf]
      cases hx : machine (valEnv env) true 0 init (b :: bs) pos with
      | err c i => exact syn_err (hm c i hx)
      | ok a r p => exact syn_data
      | data i => exact syn_data
      | raw r p => exact syn_raw
      | io => exact syn_io
      | fuel => exact syn_fuel

theorem syn_ident_ok (id : Bytes) (v : TVal) (r : Bytes) (p : Nat) :
    Syn ((parseIdent env id r p).bind fun _ r' p' => (.ok v r' p' : TOut)) :=
  (syn_parseIdent hf id r p).bind fun _ _ _ _ => syn_ok

theorem syn_deBool (rest : Bytes) (pos : Nat) : Syn (deBool env rest pos) := by
  unfold deBool
  refine syn_withPeek hf fun _ _ _ => ?_
  repeat' split
  all_goals first
    | exact syn_ident_ok hf _ _ _ _
    | exact syn_peekInvalidType hf _ _

theorem syn_deUnit (rest : Bytes) (pos : Nat) : Syn (deUnit env rest pos) := by
  unfold deUnit
  refine syn_withPeek hf fun _ _ _ => ?_
  repeat' split
  all_goals first
    | exact syn_ident_ok hf _ _ _ _
    | exact syn_peekInvalidType hf _ _

omit hf in
theorem syn_fixPos {α : Type} {pk : Bool} {x : Res α} (h : Syn x) : Syn (fixPos env pk x) := by
  unfold fixPos; split
  · exact syn_data
  · exact h

omit hf in
theorem syn_ofVisit (v : FromValue.R) (r : Bytes) (p : Nat) : Syn (ofVisit v r p) := by
  unfold ofVisit; split
  · exact syn_ok
  · exact syn_raw

theorem syn_scanExpDigits (neg : Bool) (int : Bytes) (frac : Option Bytes) (en : Bool) (rest : Bytes) (pos : Nat) :
    Syn (scanExpDigits env neg int frac en rest pos) := by
  unfold scanExpDigits
  split
  · exact syn_atEof hf
  · dsimp only
    repeat' split
    all_goals first
      | exact syn_err rfl
      | exact syn_io
      | exact syn_ok

theorem syn_scanExp (neg : Bool) (int : Bytes) (frac : Option Bytes) (rest : Bytes) (pos : Nat) :
    Syn (scanExp env neg int frac rest pos) := by
  unfold scanExp
  split
  · exact syn_atEof hf
  · repeat' split
    all_goals exact syn_scanExpDigits hf _ _ _ _ _ _

theorem syn_scanAfterInt (neg : Bool) (int : Bytes) (rest : Bytes) (pos : Nat) :
    Syn (scanAfterInt env neg int rest pos) := by
  unfold scanAfterInt
  dsimp only
  repeat' split
  all_goals first
    | exact syn_atEof hf
    | exact syn_err rfl
    | exact syn_io
    | exact syn_ok
    | exact syn_scanExp hf _ _ _ _ _

theorem syn_scanInteger (neg : Bool) (rest : Bytes) (pos : Nat) : Syn (scanInteger env neg rest pos) := by
  unfold scanInteger
  repeat' split
  all_goals first
    | exact syn_atEof hf
    | exact syn_err rfl
    | exact syn_scanAfterInt hf _ _ _ _

theorem syn_scanNumber (rest : Bytes) (pos : Nat) : Syn (scanNumber env rest pos) := by
  unfold scanNumber
  repeat' split
  all_goals first
    | exact syn_atEof hf
    | exact syn_scanInteger hf _ _ _

theorem syn_deNumber (ty : NumTy) (rest : Bytes) (pos : Nat) : Syn (deNumber env ty rest pos) := by
  unfold deNumber
  refine syn_withPeek hf fun _ _ _ => ?_
  split
  · refine (syn_scanNumber hf _ _).bind fun parts r1 p1 _ => ?_
    repeat' split
    all_goals first
      | exact syn_ok
      | exact syn_err rfl
      | exact syn_fixPos (syn_ofVisit _ _ _)
  · exact syn_peekInvalidType hf _ _

theorem syn_scanDigits (acc rest : Bytes) (pos : Nat) : Syn (scanDigits env acc rest pos) := by
  induction rest generalizing acc pos with
  | nil => unfold scanDigits; rw [hf]; exact syn_io
  | cons c r ih =>
    unfold scanDigits
    split
    · exact ih _ _
    · exact syn_ok

theorem syn_scanInteger128 (rest : Bytes) (pos : Nat) : Syn (scanInteger128 env rest pos) := by
  unfold scanInteger128
  repeat' split
  all_goals first
    | exact syn_atEof hf
    | exact syn_err rfl
    | exact syn_io
    | exact syn_ok
    | exact syn_scanDigits hf _ _ _

theorem syn_deInt128 (w : IntTy) (rest : Bytes) (pos : Nat) : Syn (deInt128 env w rest pos) := by
  unfold deInt128
  refine syn_withPeek hf fun _ _ _ => ?_
  simp only
  repeat' split
  all_goals first
    | exact syn_err rfl
    | (refine (syn_scanInteger128 hf _ _).bind fun ds r1 p1 _ => ?_
       split
       · exact syn_ok
       · exact syn_err rfl)

theorem syn_deInt (w : IntTy) (rest : Bytes) (pos : Nat) : Syn (deInt env w rest pos) := by
  unfold deInt; split
  · exact syn_deInt128 hf _ _ _
  · exact syn_deNumber hf _ _ _

theorem syn_parseStr (rest : Bytes) (pos : Nat) : Syn (parseStr env rest pos) := by
  unfold parseStr
  rw [hf]
  refine (syn_machine _ _ _ _ _).bind fun v r1 p1 _ => ?_
  split <;> exact syn_ok

theorem syn_deStr (visit : Bytes → FromValue.R) (rest : Bytes) (pos : Nat) : Syn (deStr env visit rest pos) := by
  unfold deStr
  refine syn_withPeek hf fun _ _ _ => ?_
  split
  · exact (syn_parseStr hf _ _).bind fun s r1 p1 _ => syn_fixPos (syn_ofVisit _ _ _)
  · exact syn_peekInvalidType hf _ _

omit hf in
theorem stepRaw_err (st : RawSt) (b : UInt8) (c : Code) (h : stepRaw st b = .err c) : classify c = .syntax := by
  unfold stepRaw at h
  split at h
  all_goals (try dsimp only at h)
  all_goals (repeat' split at h)
  all_goals (try dsimp only at h)
  all_goals (repeat' split at h)
  all_goals first
    | (cases h; rfl)
    | cases h

theorem syn_runRaw (st : RawSt) (rest : Bytes) (pos : Nat) : Syn (runRaw env st rest pos) := by
  induction rest generalizing st pos with
  | nil => unfold runRaw; exact syn_atEof hf
  | cons b r ih =>
    unfold runRaw
    split
    · exact syn_ok
    · rename_i c h; exact syn_err (stepRaw_err _ _ _ h)
    · exact ih _ _
    · split
      · exact syn_ok
      · rename_i c h; exact syn_err (stepRaw_err _ _ _ h)
      · exact ih _ _
      · exact syn_err rfl

theorem syn_hasNextElement (first : Bool) (rest : Bytes) (pos : Nat) : Syn (hasNextElement env first rest pos) := by
  unfold hasNextElement
  refine syn_withPeek hf fun _ _ _ => ?_
  repeat' split
  all_goals first
    | exact syn_err rfl
    | exact syn_ok
    | (refine syn_withPeek hf fun _ _ _ => ?_
       repeat' split
       all_goals first
         | exact syn_err rfl
         | exact syn_ok)

theorem syn_nextElement (de : Bytes → Nat → TOut) (hde : ∀ r p, Syn (de r p)) (first : Bool) (rest : Bytes) (pos : Nat) :
    Syn (nextElement env de first rest pos) := by
  unfold nextElement
  refine (syn_hasNextElement hf _ _ _).bind fun more r p _ => ?_
  split
  · exact (hde r p).map _
  · exact syn_ok

theorem syn_seqLoop (de : Bytes → Nat → TOut) (hde : ∀ r p, Syn (de r p)) (n : Nat) (first : Bool) (acc : List TVal)
    (rest : Bytes) (pos : Nat) : Syn (seqLoop env de n first acc rest pos) := by
  induction n generalizing first acc rest pos with
  | zero => unfold seqLoop; exact syn_fuel
  | succ n ih =>
    unfold seqLoop
    refine (syn_nextElement hf de hde _ _ _).bind fun o r p _ => ?_
    split
    · exact syn_ok
    · exact ih _ _ _ _

theorem syn_tupleLoop (de : Schema → Bytes → Nat → TOut) (ss : List Schema) (hde : ∀ s ∈ ss, ∀ r p, Syn (de s r p))
    (first : Bool) (acc : List TVal) (rest : Bytes) (pos : Nat) : Syn (tupleLoop env de ss first acc rest pos) := by
  induction ss generalizing first acc rest pos with
  | nil => unfold tupleLoop; exact syn_ok
  | cons s ss ih =>
    unfold tupleLoop
    refine (syn_nextElement hf (de s) (hde s (by simp)) _ _ _).bind fun o r p _ => ?_
    split
    · exact syn_raw
    · exact ih (fun s' hs' => hde s' (by simp [hs'])) _ _ _ _

theorem syn_endSeq (rest : Bytes) (pos : Nat) : Syn (endSeq env rest pos).res := by
  unfold endSeq
  repeat' split
  all_goals first
    | exact syn_atEof hf
    | exact syn_err rfl
    | exact syn_ok
    | (split <;> exact syn_err rfl)

theorem syn_endMap (rest : Bytes) (pos : Nat) : Syn (endMap env rest pos).res := by
  unfold endMap
  repeat' split
  all_goals first
    | exact syn_atEof hf
    | exact syn_err rfl
    | exact syn_ok
    | (split <;> exact syn_err rfl)

omit hf in
theorem syn_closeWith {α : Type} (endFn : Bytes → Nat → EndState) (hend : ∀ r p, Syn (endFn r p).res) {ret : Res α}
    (h : Syn ret) : Syn (closeWith env endFn ret) := by
  unfold closeWith
  split
  · exact (hend _ _).bind fun _ _ _ _ => syn_ok
  · exact syn_data
  · exact h

theorem syn_deSeq (t : Nat) (visit : Bytes → Nat → TOut) (hv : ∀ r p, Syn (visit r p)) (rest : Bytes) (pos : Nat) :
    Syn (deSeq env t visit rest pos) := by
  unfold deSeq
  refine syn_withPeek hf fun _ _ _ => ?_
  split
  · split
    · exact syn_err rfl
    · exact syn_closeWith _ (syn_endSeq hf) (hv _ _)
  · exact syn_peekInvalidType hf _ _

theorem syn_deBytes (t : Nat) (rest : Bytes) (pos : Nat) : Syn (deBytes env t rest pos) := by
  unfold deBytes
  refine syn_withPeek hf fun _ _ _ => ?_
  split
  · exact (syn_runRaw hf _ _ _).map _
  · split
    · exact syn_deSeq hf t _ (fun r p => (syn_seqLoop hf _ (syn_deNumber hf _) _ _ _ _ _).map _) _ _
    · exact syn_peekInvalidType hf _ _

theorem syn_hasNextKey (first : Bool) (rest : Bytes) (pos : Nat) : Syn (hasNextKey env first rest pos) := by
  unfold hasNextKey
  refine syn_withPeek hf fun _ _ _ => ?_
  repeat' split
  all_goals first
    | exact syn_err rfl
    | exact syn_ok
    | (refine syn_withPeek hf fun _ _ _ => ?_
       repeat' split
       all_goals first
         | exact syn_err rfl
         | exact syn_ok)

theorem syn_parseObjectColon (rest : Bytes) (pos : Nat) : Syn (parseObjectColon env rest pos) := by
  unfold parseObjectColon
  refine syn_withPeek hf fun _ _ _ => ?_
  repeat' split
  all_goals first
    | exact syn_err rfl
    | exact syn_ok
    | (refine syn_withPeek hf fun _ _ _ => ?_
       repeat' split
       all_goals first
         | exact syn_err rfl
         | exact syn_ok)

theorem syn_keyStr (visit : Bytes → FromValue.R) (rest : Bytes) (pos : Nat) : Syn (keyStr env visit rest pos) := by
  unfold keyStr
  exact (syn_parseStr hf _ _).bind fun s r p _ => syn_ofVisit _ _ _

theorem syn_keyInt (w : IntTy) (rest : Bytes) (pos : Nat) : Syn (keyInt env w rest pos) := by
  unfold keyInt
  split
  · exact syn_atEof hf
  · split
    · exact syn_err rfl
    · refine (syn_deInt hf _ _ _).bind fun v r' p' _ => ?_
      repeat' split
      all_goals first
        | exact syn_atEof hf
        | exact syn_err rfl
        | exact syn_ok

theorem syn_keyBool (rest : Bytes) (pos : Nat) : Syn (keyBool env rest pos) := by
  unfold keyBool
  split
  · exact syn_atEof hf
  · repeat' split
    all_goals first
      | exact syn_ident_ok hf _ _ _ _
      | exact (syn_parseStr hf _ _).bind fun _ _ _ _ => syn_data

theorem syn_deVariantId (names : List Bytes) (rest : Bytes) (pos : Nat) : Syn (deVariantId env names rest pos) :=
  syn_deStr hf _ _ _

theorem syn_deKey (k : KeyKind) (rest : Bytes) (pos : Nat) : Syn (deKey env k rest pos) := by
  unfold deKey
  split
  · exact syn_keyStr hf _ _ _
  · exact syn_keyInt hf _ _ _
  · exact syn_keyBool hf _ _
  · exact syn_keyStr hf _ _ _
  · unfold keyUnitEnum
    refine (syn_deVariantId hf _ _ _).bind fun v r p _ => ?_
    split
    · exact syn_ok
    · exact syn_raw

theorem syn_mapLoop (k : KeyKind) (de : Bytes → Nat → TOut) (hde : ∀ r p, Syn (de r p)) (n : Nat) (first : Bool)
    (acc : List (TVal × TVal)) (rest : Bytes) (pos : Nat) : Syn (mapLoop env k de n first acc rest pos) := by
  induction n generalizing first acc rest pos with
  | zero => unfold mapLoop; exact syn_fuel
  | succ n ih =>
    unfold mapLoop
    refine (syn_hasNextKey hf _ _ _).bind fun more r p _ => ?_
    split
    · exact syn_ok
    · refine (syn_deKey hf k r p).bind fun kv r1 p1 _ => ?_
      refine (syn_parseObjectColon hf r1 p1).bind fun _ r2 p2 _ => ?_
      exact (hde r2 p2).bind fun v r3 p3 _ => ih _ _ _ _

theorem syn_deMap (t : Nat) (visit : Bytes → Nat → TOut) (hv : ∀ r p, Syn (visit r p)) (rest : Bytes) (pos : Nat) :
    Syn (deMap env t visit rest pos) := by
  unfold deMap
  refine syn_withPeek hf fun _ _ _ => ?_
  split
  · split
    · exact syn_err rfl
    · exact syn_closeWith _ (syn_endMap hf) (hv _ _)
  · exact syn_peekInvalidType hf _ _

theorem syn_ignoreValue (rest : Bytes) (pos : Nat) : Syn (ignoreValue env rest pos) := by
  unfold ignoreValue
  rw [hf]
  exact (syn_machine _ _ _ _ _).map _

theorem syn_structLoop (de : Schema → Bytes → Nat → TOut) (fs : List (Bytes × Schema))
    (hde : ∀ f ∈ fs, ∀ r p, Syn (de f.2 r p)) (deny : Bool) (n : Nat) (first : Bool) (slots : List (Option TVal))
    (rest : Bytes) (pos : Nat) : Syn (structLoop env de fs deny n first slots rest pos) := by
  induction n generalizing first slots rest pos with
  | zero => unfold structLoop; exact syn_fuel
  | succ n ih =>
    unfold structLoop
    refine (syn_hasNextKey hf _ _ _).bind fun more r p _ => ?_
    split
    · exact syn_ok
    · refine (syn_parseStr hf _ _).bind fun name r1 p1 _ => ?_
      split
      · split
        · exact syn_raw
        · refine (syn_parseObjectColon hf r1 p1).bind fun _ r2 p2 _ => ?_
          split
          · rename_i nm s hs
            exact (hde _ (mem_of_getElem? hs) r2 p2).bind fun v r3 p3 _ => ih _ _ _ _
          · exact syn_raw
      · split
        · exact syn_raw
        · refine (syn_parseObjectColon hf r1 p1).bind fun _ r2 p2 _ => ?_
          exact (syn_ignoreValue hf r2 p2).bind fun _ r3 p3 _ => ih _ _ _ _

theorem syn_deStruct (t : Nat) (de : Nat → Schema → Bytes → Nat → TOut) (fs : List (Bytes × Schema))
    (hde : ∀ f ∈ fs, ∀ d r p, Syn (de d f.2 r p)) (deny : Bool) (rest : Bytes) (pos : Nat) :
    Syn (deStruct env t de fs deny rest pos) := by
  unfold deStruct
  refine syn_withPeek hf fun _ _ _ => ?_
  split
  · split
    · exact syn_err rfl
    · refine syn_closeWith _ (syn_endSeq hf) ((syn_tupleLoop hf _ _ ?_ _ _ _ _).map _)
      intro s hs
      obtain ⟨f, hf', rfl⟩ := List.mem_map.mp hs
      exact hde f hf' _
  · split
    · split
      · exact syn_err rfl
      · refine syn_closeWith _ (syn_endMap hf) ?_
        unfold structVisitMap
        refine (syn_structLoop hf _ fs (fun f hf' => hde f hf' _) deny _ _ _ _ _).bind fun slots r p _ => ?_
        split
        · exact syn_ok
        · exact syn_raw
    · exact syn_peekInvalidType hf _ _

theorem syn_dePayload (t : Nat) (de : Nat → Schema → Bytes → Nat → TOut) (sh : VariantShape)
    (hde : ∀ s ∈ shapeSchemas sh, ∀ d r p, Syn (de d s r p)) (rest : Bytes) (pos : Nat) :
    Syn (dePayload env t de sh rest pos) := by
  unfold dePayload
  split
  · exact syn_deUnit hf _ _
  · exact hde _ (by simp [shapeSchemas]) _ _ _
  · exact syn_deSeq hf t _ (fun r p => (syn_tupleLoop hf _ _ (fun s hs => hde s (by simpa [shapeSchemas] using hs) _) _ _ _ _).map _) _ _
  · refine syn_deStruct hf t de _ (fun f hf' d => hde f.2 ?_ d) false _ _
    simp only [shapeSchemas, List.mem_map]
    exact ⟨f, hf', rfl⟩

theorem syn_deEnum (t : Nat) (de : Nat → Schema → Bytes → Nat → TOut) (vs : List (Bytes × VariantShape))
    (hde : ∀ v ∈ vs, ∀ s ∈ shapeSchemas v.2, ∀ d r p, Syn (de d s r p)) (rest : Bytes) (pos : Nat) :
    Syn (deEnum env t de vs rest pos) := by
  unfold deEnum
  refine syn_withPeek hf fun _ _ _ => ?_
  split
  · split
    · exact syn_err rfl
    · refine (syn_deVariantId hf _ _ _).bind fun iv r1 p1 _ => ?_
      refine (syn_parseObjectColon hf r1 p1).bind fun _ r2 p2 _ => ?_
      split
      · exact syn_raw
      · rename_i nm sh hs
        refine (syn_dePayload hf (t + 1) de sh (hde _ (mem_of_getElem? hs)) r2 p2).bind fun payload r3 p3 _ => ?_
        refine syn_withPeek hf fun _ _ _ => ?_
        split
        · exact syn_ok
        · exact syn_err rfl
  · split
    · refine (syn_deVariantId hf _ _ _).bind fun iv r1 p1 _ => ?_
      dsimp only
      split
      · exact syn_ok
      · exact syn_raw
    · exact syn_err rfl

/-- under a failing reader every parser error of `deTyped` is Syntax-classified -/
theorem syn_deTyped : ∀ (f t : Nat) (s : Schema) (rest : Bytes) (pos : Nat), Syn (deTyped env f t s rest pos) := by
  intro f
  induction f with
  | zero => intro t s rest pos; unfold deTyped; exact syn_fuel
  | succ f ih =>
    intro t s rest pos
    unfold deTyped
    split
    · exact syn_deBool hf _ _
    · exact syn_deInt hf _ _ _
    · exact syn_deNumber hf _ _ _
    · exact syn_deNumber hf _ _ _
    · exact syn_deStr hf _ _ _
    · exact syn_deStr hf _ _ _
    · exact syn_deBytes hf _ _ _
    · repeat' split
      all_goals first
        | exact syn_io
        | exact syn_ident_ok hf _ _ _ _
        | exact (ih _ _ _ _).map _
    · exact syn_deUnit hf _ _
    · exact syn_deUnit hf _ _
    · exact ih _ _ _ _
    · exact syn_deSeq hf t _ (fun r p => (syn_seqLoop hf _ (ih _ _) _ _ _ _ _).map _) _ _
    · exact syn_deSeq hf t _ (fun r p => (syn_tupleLoop hf _ _ (fun s' _ => ih _ s') _ _ _ _).map _) _ _
    · exact syn_deMap hf t _ (fun r p => (syn_mapLoop hf _ _ (ih _ _) _ _ _ _ _).map _) _ _
    · exact syn_deStruct hf t _ _ (fun fl _ d => ih d fl.2) _ _ _
    · exact syn_deEnum hf t _ _ (fun v _ s' _ d => ih d s') _ _
    · exact (syn_ignoreValue hf _ _).map _
    · rw [hf]; exact (syn_machine _ _ _ _ _).map _

end SJ.Proofs.Typed
