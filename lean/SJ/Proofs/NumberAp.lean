import SJ.Model.NumberAp
import SJ.Spec.NumberAcc
import SJ.Proofs.NumLitParse
import SJ.Proofs.Number
import SJ.Proofs.FloatZero
/-!
# `Number` under `arbitrary_precision`: the accessors on a stored literal

For every `p : NumParts` with `p.WF` (the RFC 8259 number grammar) the text `p.bytes` is read

* by `str::parse::<iN/uN>` (`Model.NumberAp.parseInt`) as `Spec.NumberAcc.accInt w (litOf p)` — `parseInt_bytes`;
* by dec2flt's grammar (`floatParts`) with the very digits the specification's reader `Spec.Decimal.NumLit.parse`
  takes off the bytes — `floatParts_of_parse` (for every byte string `NumLit.parse` accepts);
* by `str::parse::<f64>` + `is_finite` (`asF64`) as `Spec.NumberAcc.nearestF64 (litOf p)` — `asF64_bytes`;
  the guards of `f64OfLit` are shown harmless in `f64OfLit_eq` (`10^401 > 2^1024`, `10^-400 < 2^-1075`).

No float code is evaluated on open terms: `roundNE64` is only rewritten with `roundNE64_none_iff`,
`roundNE64_of_tiny`, `roundNE64_some`.
-/
namespace SJ.Proofs.NumberAp
open SJ SJ.Spec.Ieee SJ.Spec.Decimal SJ.Spec.NumberAcc SJ.Model.NumberAp SJ.Proofs.NumLinkParser SJ.Proofs.Complete
  SJ.Proofs.Ieee
open SJ.Spec.Grammar (NumParts isInt isFrac isExp)
open SJ.Model.FromValue (rustParseInt signSplit parseDigits rangeChecked)

/-! ## dec2flt's grammar contains the RFC 8259 number grammar, with the same digits -/

theorem floatExp_eq (neg : Bool) (int frac rest : Bytes) : floatExp neg int frac rest = parseExp neg int frac rest := rfl

theorem intOk_ne (int : Bytes) (h : intOk int = true) : int.isEmpty = false := by
  cases int with
  | nil => simp [intOk] at h
  | cons _ _ => rfl

theorem floatRest_of_parseRest (neg : Bool) (bs : Bytes) (l : NumLit) (h : parseRest neg bs = some l) :
    floatRest neg bs = some l := by
  unfold parseRest at h
  simp only at h
  split at h
  · cases h
  · rename_i hok
    simp only [Bool.not_eq_true, Bool.not_eq_false'] at hok
    have hne := intOk_ne _ hok
    unfold floatRest
    simp only [hne, Bool.false_and, Bool.false_eq_true, if_false]
    generalize (takeDigits bs).2 = rest at h ⊢
    have key : fracRes rest = none ∨ fracRes rest = some (floatFrac rest) := by
      by_cases h46 : ∃ r, rest = 0x2e :: r
      · obtain ⟨r, rfl⟩ := h46
        simp only [fracRes, floatFrac]
        split
        · exact Or.inl rfl
        · exact Or.inr rfl
      · have h1 : fracRes rest = some ([], rest) := by
          unfold fracRes; split
          · rename_i r; exact absurd ⟨r, rfl⟩ h46
          · rfl
        have h2 : floatFrac rest = ([], rest) := by
          unfold floatFrac; split
          · rename_i r; exact absurd ⟨r, rfl⟩ h46
          · rfl
        rw [h1, h2]; exact Or.inr rfl
    rcases key with hk | hk
    · rw [hk] at h; cases h
    · rw [hk] at h; exact h

theorem parse_nil : NumLit.parse [] = none := rfl

theorem floatParts_of_parse (bs : Bytes) (l : NumLit) (h : NumLit.parse bs = some l) :
    floatParts bs = some l := by
  cases bs with
  | nil => rw [parse_nil] at h; cases h
  | cons d r =>
    by_cases hd : d = 0x2d
    · subst hd
      rw [parse_minus] at h
      exact floatRest_of_parseRest true r l h
    · rw [parse_nominus d r hd] at h
      by_cases hp : d = 0x2b
      · subst hp
        exfalso
        unfold parseRest at h
        simp [takeDigits, isDigit, intOk] at h
      · have : floatParts (d :: r) = floatRest false (d :: r) := by
          unfold floatParts
          split
          · rename_i heq; simp at heq; exact absurd heq.1 hd
          · rename_i heq; simp at heq; exact absurd heq.1 hp
          · rfl
        rw [this]
        exact floatRest_of_parseRest false (d :: r) l h

/-! ## the guards of `f64OfLit` -/

theorem digitVal_le9 (d : UInt8) (h : isDigit d = true) : digitVal d ≤ 9 := by
  unfold isDigit at h
  simp only [Bool.and_eq_true, decide_eq_true_eq] at h
  have h1 := UInt8.le_iff_toNat_le.mp h.1
  have h2 := UInt8.le_iff_toNat_le.mp h.2
  unfold digitVal
  simp at h1 h2
  omega

theorem foldl_lt (ds : Bytes) (h : ds.all isDigit = true) : ∀ a : Nat,
    ds.foldl (fun a d => a * 10 + digitVal d) a + 1 ≤ (a + 1) * 10 ^ ds.length := by
  induction ds with
  | nil => intro a; simp
  | cons d ds ih =>
    intro a
    simp only [List.all_cons, Bool.and_eq_true] at h
    have h9 := digitVal_le9 d h.1
    have := ih h.2 (a * 10 + digitVal d)
    simp only [List.foldl_cons, List.length_cons]
    calc _ ≤ (a * 10 + digitVal d + 1) * 10 ^ ds.length := this
      _ ≤ ((a + 1) * 10) * 10 ^ ds.length := Nat.mul_le_mul_right _ (by omega)
      _ = (a + 1) * 10 ^ (ds.length + 1) := by rw [Nat.pow_succ, Nat.mul_assoc, Nat.mul_comm 10]

theorem digitsVal_lt (ds : Bytes) (h : ds.all isDigit = true) : digitsVal ds < 10 ^ ds.length := by
  have := foldl_lt ds h 0
  unfold digitsVal
  omega

theorem pow_big : (2 : Nat) ^ 1024 ≤ 10 ^ 401 := by decide +kernel
theorem pow_small : 2 * (2 : Nat) ^ 1074 ≤ 10 ^ 400 := by decide +kernel

theorem overflow_of_big (m e : Nat) (hm : 1 ≤ m) (he : 401 ≤ e) : Overflows64 (m * 10 ^ e) 1 := by
  unfold Overflows64
  rw [Nat.mul_one]
  have h1 : (10 : Nat) ^ 401 ≤ 10 ^ e := Nat.pow_le_pow_right (by decide) he
  have h2 : 10 ^ e ≤ m * 10 ^ e := Nat.le_mul_of_pos_left _ hm
  exact Nat.le_trans (Nat.sub_le _ _) (Nat.le_trans pow_big (Nat.le_trans h1 h2))

theorem tiny_of_small (m len k : Nat) (hm : m < 10 ^ len) (hk : len + 400 ≤ k) : 2 * (m * 2 ^ 1074) ≤ 10 ^ k := by
  have e1 : 2 * (m * 2 ^ 1074) = m * (2 * 2 ^ 1074) := by
    rw [Nat.mul_comm 2, Nat.mul_assoc, Nat.mul_comm (2 ^ 1074)]
  rw [e1]
  exact Nat.le_trans (Nat.mul_le_mul (Nat.le_of_lt hm) pow_small)
    (Nat.le_trans (Nat.le_of_eq (Nat.pow_add _ _ _).symm) (Nat.pow_le_pow_right (by decide) hk))

/-- the digit strings of the literal are ASCII digits (part of `NumLit.WF`) -/
def DigitsOK (l : NumLit) : Prop := l.intDigits.all isDigit = true ∧ l.fracDigits.all isDigit = true

theorem exact_den_pos (l : NumLit) : 0 < l.exact.2 := by
  unfold NumLit.exact scale10
  split
  · exact Nat.one_pos
  · exact Nat.pos_of_ne_zero (by simp)

/-- **the guards of `f64OfLit` do not change the result**: it is the correctly rounded exact value,
    `±inf` on overflow -/
theorem f64OfLit_eq (l : NumLit) (hd : DigitsOK l) :
    f64OfLit l = (roundNE64 l.neg l.exact.1 l.exact.2).getD (F64.inf l.neg) := by
  unfold f64OfLit
  split
  · rename_i hz
    have hz : l.sigVal = 0 := by simpa using hz
    have : roundNE64 l.neg l.exact.1 l.exact.2 = some (F64.zero l.neg) := by
      apply FloatDefault.roundNE64_of_tiny _ _ _ (exact_den_pos l)
      have : l.exact.1 = 0 := by
        unfold NumLit.exact scale10; rw [hz]; split <;> simp
      rw [this, Nat.zero_mul, Nat.mul_zero]; exact Nat.zero_le _
    rw [this]; rfl
  · rename_i hnz
    have hpos : 1 ≤ l.sigVal := by
      have : l.sigVal ≠ 0 := by simpa using hnz
      omega
    split
    · rename_i hbig
      have hex : l.exact = (l.sigVal * 10 ^ l.netExp.toNat, 1) := by
        unfold NumLit.exact scale10; rw [if_pos (by omega)]
      have : roundNE64 l.neg l.exact.1 l.exact.2 = none := by
        rw [roundNE64_none_iff _ _ _ (exact_den_pos l), hex]
        exact overflow_of_big _ _ hpos (by omega)
      rw [this]; rfl
    · split
      · rename_i _ hsmall
        have hneg : ¬ l.netExp ≥ 0 := by omega
        have hex : l.exact = (l.sigVal, 10 ^ (-l.netExp).toNat) := by
          unfold NumLit.exact scale10; rw [if_neg hneg]
        have hlt : l.sigVal < 10 ^ l.digits.length := by
          apply digitsVal_lt
          unfold NumLit.digits
          rw [List.all_append, hd.1, hd.2]; rfl
        have : roundNE64 l.neg l.exact.1 l.exact.2 = some (F64.zero l.neg) := by
          apply FloatDefault.roundNE64_of_tiny _ _ _ (exact_den_pos l)
          rw [hex]
          simp only
          exact tiny_of_small _ _ _ hlt (by omega)
        rw [this]; rfl
      · rfl

/-! ## integer accessors -/

theorem natOfDigits_eq (ds : Bytes) : Model.Num.natOfDigits ds = digitsVal ds := rfl

theorem frac_all (frac : Bytes) (h : isFrac frac = true) : frac.all Spec.Grammar.isDigit = frac.isEmpty := by
  cases frac with
  | nil => rfl
  | cons c ds =>
    simp only [isFrac, Bool.and_eq_true, beq_iff_eq] at h
    obtain ⟨⟨rfl, _⟩, _⟩ := h
    rfl

theorem exp_all (exp : Bytes) (h : isExp exp = true) : exp.all Spec.Grammar.isDigit = exp.isEmpty := by
  cases exp with
  | nil => rfl
  | cons c r =>
    simp only [isExp, Bool.and_eq_true, Bool.or_eq_true, beq_iff_eq] at h
    rcases h.1 with rfl | rfl <;> rfl

theorem litOf_exp (p : NumParts) : (litOf p).expDigits = ((expOf p.exp).map (·.2)).getD [] := rfl

theorem isIntLit_litOf (p : NumParts) (hwf : p.WF = true) :
    isIntLit (litOf p) = (p.frac.isEmpty && p.exp.isEmpty) := by
  simp only [NumParts.WF, Bool.and_eq_true] at hwf
  obtain ⟨⟨_, hf⟩, he⟩ := hwf
  unfold isIntLit
  rw [litOf_frac, litOf_exp]
  congr 1
  · cases hfr : p.frac with
    | nil => rfl
    | cons c ds =>
      rw [hfr] at hf
      simp only [isFrac, Bool.and_eq_true, beq_iff_eq, Bool.not_eq_true'] at hf
      cases ds with
      | nil => simp at hf
      | cons _ _ => rfl
  · cases hex : p.exp with
    | nil => rfl
    | cons c r =>
      rw [hex] at he
      simp only [isExp, Bool.and_eq_true] at he
      cases r with
      | nil => simp at he
      | cons s ds =>
        simp only [expOf]
        have h2 := he.2
        simp only at h2
        by_cases h1 : s = 0x2d
        · subst h1
          simp only [beq_self_eq_true, Bool.true_or, if_true, Bool.and_eq_true, Bool.not_eq_true'] at h2 ⊢
          cases ds with
          | nil => simp at h2
          | cons _ _ => rfl
        · by_cases h3 : s = 0x2b
          · subst h3
            simp only [show ((0x2b : UInt8) == 0x2d) = false by decide, beq_self_eq_true, Bool.or_true, if_true,
              Bool.and_eq_true, Bool.not_eq_true', Bool.false_eq_true, if_false] at h2 ⊢
            cases ds with
            | nil => simp at h2
            | cons _ _ => rfl
          · have e1 : (s == 0x2d) = false := by simpa using h1
            have e2 : (s == 0x2b) = false := by simpa using h3
            simp only [e1, e2, Bool.false_eq_true, if_false]
            rfl

theorem digit_ne_sign (d : UInt8) (h : Spec.Grammar.isDigit d = true) : (d == 0x2b) = false ∧ (d == 0x2d) = false := by
  unfold Spec.Grammar.isDigit at h
  simp only [Bool.and_eq_true, decide_eq_true_eq] at h
  have h1 := UInt8.le_iff_toNat_le.mp h.1
  constructor <;> (apply beq_false_of_ne; rintro rfl; simp at h1)

theorem int_head (int : Bytes) (h : isInt int = true) : ∃ d ds, int = d :: ds ∧ Spec.Grammar.isDigit d = true := by
  rcases int_shape int h with rfl | ⟨d, ds, rfl, hd, _, _⟩
  · exact ⟨_, _, rfl, by decide⟩
  · exact ⟨d, ds, rfl, hd⟩

/-- **`str::parse::<iN/uN>()` on a stored literal** -/
theorem parseInt_bytes (w : IntTy) (p : NumParts) (hwf : p.WF = true) :
    parseInt w p.bytes = accInt w (litOf p) := by
  have hil := isIntLit_litOf p hwf
  have hwf' := hwf
  simp only [NumParts.WF, Bool.and_eq_true] at hwf'
  obtain ⟨⟨hi, hf⟩, he⟩ := hwf'
  obtain ⟨d, ds, hint, hd⟩ := int_head p.int hi
  have hall : (p.int ++ p.frac ++ p.exp).all Spec.Grammar.isDigit = (p.frac.isEmpty && p.exp.isEmpty) := by
    rw [List.all_append, List.all_append, (SJ.Proofs.Number.isInt_all p.int hi).1, frac_all _ hf, exp_all _ he]; simp
  have hne : (p.int ++ p.frac ++ p.exp).isEmpty = false := by rw [hint]; rfl
  have hsplit : signSplit w (p.int ++ p.frac ++ p.exp) = (false, p.int ++ p.frac ++ p.exp) := by
    rw [hint]
    simp only [List.cons_append, signSplit, (digit_ne_sign d hd).1, (digit_ne_sign d hd).2, Bool.false_eq_true, if_false,
      Bool.false_and]
  unfold parseInt rustParseInt accInt
  rw [hil]
  cases hm : p.minus with
  | false =>
    have hb : p.bytes = p.int ++ p.frac ++ p.exp := by simp [NumParts.bytes, hm]
    rw [hb, hsplit]
    simp only [parseDigits, hne, hall, Bool.false_or, litOf_neg, hm, Bool.false_and, Bool.false_eq_true, if_false]
    cases hfe : (p.frac.isEmpty && p.exp.isEmpty) with
    | false => simp
    | true =>
      simp only [Bool.and_eq_true, List.isEmpty_iff] at hfe
      simp only [Bool.not_true, Bool.false_eq_true, if_false, rangeChecked, intVal, litOf_neg, hm, litOf_int, hfe.1, hfe.2,
        List.append_nil, natOfDigits_eq]
  | true =>
    have hb : p.bytes = 0x2d :: (p.int ++ p.frac ++ p.exp) := by simp [NumParts.bytes, hm]
    rw [hb]
    cases hs : w.signed with
    | true =>
      have : signSplit w (0x2d :: (p.int ++ p.frac ++ p.exp)) = (true, p.int ++ p.frac ++ p.exp) := by
        simp [signSplit, hs]
      rw [this]
      simp only [parseDigits, hne, hall, Bool.false_or, litOf_neg, hm, Bool.not_true, Bool.and_false, Bool.false_eq_true,
        if_false, if_true]
      cases hfe : (p.frac.isEmpty && p.exp.isEmpty) with
      | false => simp
      | true =>
        simp only [Bool.and_eq_true, List.isEmpty_iff] at hfe
        simp only [Bool.not_true, Bool.false_eq_true, if_false, rangeChecked, intVal, litOf_neg, hm, litOf_int, hfe.1, hfe.2,
          List.append_nil, natOfDigits_eq, if_true]
    | false =>
      have : signSplit w (0x2d :: (p.int ++ p.frac ++ p.exp)) = (false, 0x2d :: (p.int ++ p.frac ++ p.exp)) := by
        simp [signSplit, hs]
      rw [this]
      have hnd : (0x2d :: (p.int ++ p.frac ++ p.exp)).all Spec.Grammar.isDigit = false := by
        simp only [List.all_cons, show Spec.Grammar.isDigit 0x2d = false by decide, Bool.false_and]
      simp only [parseDigits, hnd, List.isEmpty_cons, Bool.false_or, Bool.not_false, if_true, litOf_neg, hm, Bool.not_false,
        Bool.and_true]
      cases (p.frac.isEmpty && p.exp.isEmpty) <;> simp

/-! ## `as_f64`, `as_f32`, `is_f64` -/

theorem digitsOK_litOf (p : NumParts) (hwf : p.WF = true) : DigitsOK (litOf p) := by
  have h := litOf_wf p hwf
  unfold NumLit.WF at h
  simp only [Bool.and_eq_true] at h
  exact ⟨h.1.1.1.1, h.1.1.1.2⟩

theorem floatParts_bytes (p : NumParts) (hwf : p.WF = true) : floatParts p.bytes = some (litOf p) :=
  floatParts_of_parse _ _ (parse_bytes p hwf)

theorem finite64_round (neg : Bool) (num den : Nat) :
    finite64 (some ((roundNE64 neg num den).getD (F64.inf neg))) = roundNE64 neg num den := by
  cases h : roundNE64 neg num den with
  | none =>
    simp only [Option.getD_none, finite64, F64.inf_not_finite, Bool.false_eq_true, if_false]
  | some b =>
    obtain ⟨hu, rfl⟩ := roundNE64_some neg num den b h
    simp only [Option.getD_some, finite64, bits64_finite neg _ hu, if_true]

/-- **`as_f64` of a stored literal is the nearest finite binary64 of its exact value, or `None`** -/
theorem asF64_bytes (p : NumParts) (hwf : p.WF = true) : asF64 p.bytes = nearestF64 (litOf p) := by
  unfold asF64 parseF64 nearestF64
  rw [floatParts_bytes p hwf]
  simp only
  rw [f64OfLit_eq _ (digitsOK_litOf p hwf), finite64_round]

theorem hasFloatChar_bytes (p : NumParts) (hwf : p.WF = true) : hasFloatChar p.bytes = !isIntLit (litOf p) := by
  rw [isIntLit_litOf p hwf]
  have hwf' := hwf
  simp only [NumParts.WF, Bool.and_eq_true] at hwf'
  obtain ⟨⟨hi, hf⟩, he⟩ := hwf'
  have hint : p.int.any (fun c => c == 0x2e || c == 0x65 || c == 0x45) = false := by
    have hd := (SJ.Proofs.Number.isInt_all p.int hi).1
    rw [List.any_eq_false]
    intro c hc
    have := List.all_eq_true.1 hd c hc
    have h1 := SJ.Proofs.Number.isDigit_ne c this
    simp only [Bool.not_eq_true, Bool.or_eq_false_iff]
    unfold Spec.Grammar.isDigit at this
    simp only [Bool.and_eq_true, decide_eq_true_eq] at this
    have a1 := UInt8.le_iff_toNat_le.mp this.1
    have a2 := UInt8.le_iff_toNat_le.mp this.2
    refine ⟨⟨?_, ?_⟩, ?_⟩ <;> (apply beq_false_of_ne; rintro rfl; simp at a1 a2)
  have hfrac : p.frac.any (fun c => c == 0x2e || c == 0x65 || c == 0x45) = !p.frac.isEmpty := by
    cases hfr : p.frac with
    | nil => rfl
    | cons c ds =>
      rw [hfr] at hf
      simp only [isFrac, Bool.and_eq_true, beq_iff_eq] at hf
      obtain ⟨⟨rfl, _⟩, _⟩ := hf
      rfl
  have hexp : p.exp.any (fun c => c == 0x2e || c == 0x65 || c == 0x45) = !p.exp.isEmpty := by
    cases hex : p.exp with
    | nil => rfl
    | cons c r =>
      rw [hex] at he
      simp only [isExp, Bool.and_eq_true, Bool.or_eq_true, beq_iff_eq] at he
      rcases he.1 with rfl | rfl <;> rfl
  unfold hasFloatChar NumParts.bytes
  rw [List.any_append, List.any_append, List.any_append, hint, hfrac, hexp]
  cases p.minus <;> cases p.frac.isEmpty <;> cases p.exp.isEmpty <;> rfl

theorem isF64_bytes (p : NumParts) (hwf : p.WF = true) :
    isF64 p.bytes = (!isIntLit (litOf p) && (nearestF64 (litOf p)).isSome) := by
  unfold isF64
  rw [hasFloatChar_bytes p hwf, asF64_bytes p hwf]
  generalize (nearestF64 (litOf p)).isSome = b
  cases isIntLit (litOf p) <;> cases b <;> rfl

/-! ### binary32 -/

theorem roundNE32_of_tiny (neg : Bool) (num den : Nat) (hden : 0 < den) (h : 2 * (num * 2 ^ 149) ≤ den) :
    roundNE32 neg num den = some (f32Zero neg) := by
  rw [roundNE32_eq']
  have : rmag32 num den = 0 := FloatDefault.roundMag_eq_zero b32 _ _ hden h
  rw [this, if_pos (by decide)]
  cases neg <;> rfl

theorem pow_big32 : (2 : Nat) ^ 128 ≤ 10 ^ 401 := by decide +kernel
theorem pow_small32 : 2 * (2 : Nat) ^ 149 ≤ 10 ^ 400 := by decide +kernel

theorem overflow32_of_big (m e : Nat) (hm : 1 ≤ m) (he : 401 ≤ e) : Overflows32 (m * 10 ^ e) 1 := by
  unfold Overflows32
  rw [Nat.mul_one]
  have h1 : (10 : Nat) ^ 401 ≤ 10 ^ e := Nat.pow_le_pow_right (by decide) he
  have h2 : 10 ^ e ≤ m * 10 ^ e := Nat.le_mul_of_pos_left _ hm
  exact Nat.le_trans (Nat.sub_le _ _) (Nat.le_trans pow_big32 (Nat.le_trans h1 h2))

theorem tiny32_of_small (m len k : Nat) (hm : m < 10 ^ len) (hk : len + 400 ≤ k) : 2 * (m * 2 ^ 149) ≤ 10 ^ k := by
  have e1 : 2 * (m * 2 ^ 149) = m * (2 * 2 ^ 149) := by
    rw [Nat.mul_comm 2, Nat.mul_assoc, Nat.mul_comm (2 ^ 149)]
  rw [e1]
  exact Nat.le_trans (Nat.mul_le_mul (Nat.le_of_lt hm) pow_small32)
    (Nat.le_trans (Nat.le_of_eq (Nat.pow_add _ _ _).symm) (Nat.pow_le_pow_right (by decide) hk))

theorem f32OfLit_eq (l : NumLit) (hd : DigitsOK l) :
    f32OfLit l = (roundNE32 l.neg l.exact.1 l.exact.2).getD (F32.inf l.neg) := by
  unfold f32OfLit
  split
  · rename_i hz
    have hz : l.sigVal = 0 := by simpa using hz
    have : roundNE32 l.neg l.exact.1 l.exact.2 = some (f32Zero l.neg) := by
      apply roundNE32_of_tiny _ _ _ (exact_den_pos l)
      have : l.exact.1 = 0 := by
        unfold NumLit.exact scale10; rw [hz]; split <;> simp
      rw [this, Nat.zero_mul, Nat.mul_zero]; exact Nat.zero_le _
    rw [this]; rfl
  · rename_i hnz
    have hpos : 1 ≤ l.sigVal := by
      have : l.sigVal ≠ 0 := by simpa using hnz
      omega
    split
    · rename_i hbig
      have hex : l.exact = (l.sigVal * 10 ^ l.netExp.toNat, 1) := by
        unfold NumLit.exact scale10; rw [if_pos (by omega)]
      have : roundNE32 l.neg l.exact.1 l.exact.2 = none := by
        rw [roundNE32_none_iff _ _ _ (exact_den_pos l), hex]
        exact overflow32_of_big _ _ hpos (by omega)
      rw [this]; rfl
    · split
      · rename_i _ hsmall
        have hneg : ¬ l.netExp ≥ 0 := by omega
        have hex : l.exact = (l.sigVal, 10 ^ (-l.netExp).toNat) := by
          unfold NumLit.exact scale10; rw [if_neg hneg]
        have hlt : l.sigVal < 10 ^ l.digits.length := by
          apply digitsVal_lt
          unfold NumLit.digits
          rw [List.all_append, hd.1, hd.2]; rfl
        have : roundNE32 l.neg l.exact.1 l.exact.2 = some (f32Zero l.neg) := by
          apply roundNE32_of_tiny _ _ _ (exact_den_pos l)
          rw [hex]
          simp only
          exact tiny32_of_small _ _ _ hlt (by omega)
        rw [this]; rfl
      · rfl

theorem F32.inf_not_finite (neg : Bool) : F32.isFinite (F32.inf neg) = false := by cases neg <;> decide

theorem finite32_round (neg : Bool) (num den : Nat) :
    finite32 (some ((roundNE32 neg num den).getD (F32.inf neg))) = roundNE32 neg num den := by
  cases h : roundNE32 neg num den with
  | none =>
    simp only [Option.getD_none, finite32, F32.inf_not_finite, Bool.false_eq_true, if_false]
  | some b =>
    obtain ⟨hu, rfl⟩ := roundNE32_some neg num den b h
    simp only [Option.getD_some, finite32, bits32_finite neg _ hu, if_true]

/-- `as_f32` of a stored literal: the nearest finite binary32 of its exact value (ONE rounding), or `None` -/
theorem asF32_bytes (p : NumParts) (hwf : p.WF = true) : asF32 p.bytes = nearestF32 (litOf p) := by
  unfold asF32 parseF32 nearestF32
  rw [floatParts_bytes p hwf]
  simp only
  rw [f32OfLit_eq _ (digitsOK_litOf p hwf), finite32_round]

end SJ.Proofs.NumberAp
