import SJ.Proofs.StreamSources
import SJ.Proofs.RawNestedTop
import SJ.Proofs.Utf8Text
import SJ.Proofs.RawMap
/-!
# C09 helper lemmas: raw captures do not depend on the input source

* a grammar value begins and ends with an ASCII byte, so inside valid UTF-8 input it is valid UTF-8 on its
  own (`derives_valid_in_context`): the `from_utf8` check that only the byte sources make on a captured span
  never fires on input that could have been a `&str`;
* `rawTop_slice_reader`, `rawTop_str_slice`; `captured_str_of_valid` for array elements.
-/
namespace SJ.Proofs.RawSources
open SJ SJ.Gen SJ.Model.Machine SJ.Model.Stream SJ.Model.Raw SJ.Proofs.Machine SJ.Props.C09 SJ.Proofs.Utf8
open SJ.Proofs.StreamSources SJ.Proofs.RawSpan SJ.Proofs.RawNested SJ.Proofs.StreamValues
open SJ.Spec.Utf8 (validUtf8)
open SJ.Spec.Grammar (CST Ws Derives NumParts isInt isFrac isExp isDigit19)

/-! ## a value starts and ends with an ASCII byte -/

theorem gdigit_ascii {b : UInt8} (h : Spec.Grammar.isDigit b = true) : b < 0x80 := by
  simp only [Spec.Grammar.isDigit, Bool.and_eq_true, decide_eq_true_eq] at h
  have := h.2
  exact UInt8.lt_of_le_of_lt this (by decide)

theorem all_digit_ascii {ds : Bytes} (h : ds.all Spec.Grammar.isDigit = true) : ∀ x ∈ ds, x < 0x80 := by
  intro x hx
  exact gdigit_ascii (List.all_eq_true.mp h x hx)

theorem int_ascii {int : Bytes} (h : isInt int = true) : ∀ x ∈ int, x < 0x80 := by
  cases int with
  | nil => simp [isInt] at h
  | cons d ds =>
    cases ds with
    | nil => simp only [isInt] at h; intro x hx; simp at hx; subst hx; exact gdigit_ascii h
    | cons d2 ds =>
      simp only [isInt, Bool.and_eq_true] at h
      intro x hx
      simp only [List.mem_cons] at hx
      rcases hx with rfl | hx
      · have := h.1; simp only [isDigit19, Bool.and_eq_true, decide_eq_true_eq] at this
        exact UInt8.lt_of_le_of_lt this.2 (by decide)
      · exact all_digit_ascii h.2 x (List.mem_cons.mpr hx)

theorem frac_ascii {frac : Bytes} (h : isFrac frac = true) : ∀ x ∈ frac, x < 0x80 := by
  cases frac with
  | nil => intro x hx; simp at hx
  | cons c ds =>
    simp only [isFrac, Bool.and_eq_true, beq_iff_eq] at h
    intro x hx
    simp only [List.mem_cons] at hx
    rcases hx with rfl | hx
    · rw [h.1.1]; decide
    · exact all_digit_ascii h.2 x hx

theorem exp_ascii {exp : Bytes} (h : isExp exp = true) : ∀ x ∈ exp, x < 0x80 := by
  cases exp with
  | nil => intro x hx; simp at hx
  | cons c r =>
    simp only [isExp, Bool.and_eq_true, Bool.or_eq_true, beq_iff_eq] at h
    have hc : c < 0x80 := by rcases h.1 with h1 | h1 <;> (rw [h1]; decide)
    cases r with
    | nil => exact absurd h.2 (by simp)
    | cons s ds =>
      have h2 := h.2
      intro x hx
      simp only [List.mem_cons] at hx
      by_cases hs : s = 0x2d ∨ s = 0x2b
      · simp only [if_pos hs, Bool.and_eq_true] at h2
        rcases hx with rfl | rfl | hx
        · exact hc
        · rcases hs with hs | hs <;> (rw [hs]; decide)
        · exact all_digit_ascii h2.2 x hx
      · simp only [if_neg hs, Bool.and_eq_true] at h2
        rcases hx with rfl | rfl | hx
        · exact hc
        · exact gdigit_ascii h2.1
        · exact all_digit_ascii h2.2 x hx

theorem num_ascii (p : NumParts) (h : p.WF = true) : ∀ x ∈ p.bytes, x < 0x80 := by
  simp only [NumParts.WF, Bool.and_eq_true] at h
  intro x hx
  simp only [NumParts.bytes, List.mem_append] at hx
  rcases hx with ((hx | hx) | hx) | hx
  · split at hx
    · simp at hx; subst hx; decide
    · simp at hx
  · exact int_ascii h.1.1 x hx
  · exact frac_ascii h.1.2 x hx
  · exact exp_ascii h.2 x hx

/-- first and last byte of a value are ASCII: `v = a :: _` and `v = _ ++ [z]` -/
theorem derives_ends_ascii {v : Bytes} {t : CST} (h : Derives v t) :
    (∃ a r, v = a :: r ∧ a < 0x80) ∧ (∃ m z, v = m ++ [z] ∧ z < 0x80) := by
  cases h with
  | null => exact ⟨⟨0x6e, _, rfl, by decide⟩, ⟨[0x6e, 0x75, 0x6c], 0x6c, rfl, by decide⟩⟩
  | true_ => exact ⟨⟨0x74, _, rfl, by decide⟩, ⟨[0x74, 0x72, 0x75], 0x65, rfl, by decide⟩⟩
  | false_ => exact ⟨⟨0x66, _, rfl, by decide⟩, ⟨[0x66, 0x61, 0x6c, 0x73], 0x65, rfl, by decide⟩⟩
  | str items _ =>
    exact ⟨⟨0x22, items.flatMap Spec.Grammar.StrItem.bytes ++ [0x22], by simp [Spec.Grammar.strBytes], by decide⟩,
      ⟨[0x22] ++ items.flatMap Spec.Grammar.StrItem.bytes, 0x22, by simp [Spec.Grammar.strBytes], by decide⟩⟩
  | arrEmpty w _ => exact ⟨⟨0x5b, w ++ [0x5d], by simp, by decide⟩, ⟨[0x5b] ++ w, 0x5d, rfl, by decide⟩⟩
  | arr w₁ body w₂ xs _ _ _ _ =>
    exact ⟨⟨0x5b, w₁ ++ body ++ w₂ ++ [0x5d], by simp, by decide⟩, ⟨[0x5b] ++ w₁ ++ body ++ w₂, 0x5d, rfl, by decide⟩⟩
  | objEmpty w _ => exact ⟨⟨0x7b, w ++ [0x7d], by simp, by decide⟩, ⟨[0x7b] ++ w, 0x7d, rfl, by decide⟩⟩
  | obj w₁ body w₂ ms _ _ _ _ =>
    exact ⟨⟨0x7b, w₁ ++ body ++ w₂ ++ [0x7d], by simp, by decide⟩, ⟨[0x7b] ++ w₁ ++ body ++ w₂, 0x7d, rfl, by decide⟩⟩
  | num p hwf =>
    have hall := num_ascii p hwf
    obtain ⟨b, r, hbr, _⟩ := num_head p hwf
    refine ⟨⟨b, r, hbr, hall b (by rw [hbr]; simp)⟩, ?_⟩
    have hne : p.bytes ≠ [] := by rw [hbr]; simp
    exact ⟨p.bytes.dropLast, p.bytes.getLast hne, (List.dropLast_concat_getLast hne).symm,
      hall _ (List.getLast_mem hne)⟩

/-- a value embedded in valid UTF-8 input is valid UTF-8 by itself -/
theorem derives_valid_in_context {v : Bytes} {t : CST} (h : Derives v t) (pre post : Bytes)
    (hv : validUtf8 (pre ++ v ++ post) = true) : validUtf8 v = true := by
  obtain ⟨⟨a, r, hva, ha⟩, ⟨m, z, hvz, hz⟩⟩ := derives_ends_ascii h
  have h1 : validUtf8 (v ++ post) = true := by
    have : pre ++ v ++ post = pre ++ a :: (r ++ post) := by rw [hva]; simp
    rw [this] at hv
    have := (validUtf8_cut_before ha hv).2
    rw [hva]; simpa using this
  have : v ++ post = m ++ z :: post := by rw [hvz]; simp
  rw [this] at h1
  have := (validUtf8_cut_after hz h1).1
  rw [hvz]; exact this

/-! ## top-level capture -/

theorem rawTop_slice_reader (cfg : Cfg) (bs : Bytes) : rawTop cfg .slice bs = rawTop cfg .reader bs := by
  unfold rawTop
  have := runPrefix_slice_reader cfg .ignored (skipWs bs 0).1 init (skipWs bs 0).2
  simp only [envOf] at this
  generalize skipWs bs 0 = sk at this
  obtain ⟨r, p⟩ := sk
  simp only at this ⊢
  rw [this]
  rfl

theorem rawTop_str_slice (cfg : Cfg) (bs : Bytes) (hv : validUtf8 bs = true) :
    rawTop cfg .str bs = rawTop cfg .slice bs := by
  unfold rawTop
  have hr := skipWs_valid bs 0 hv
  have hrun := runPrefix_str_slice cfg .ignored (skipWs bs 0).1 init (skipWs bs 0).2 hr
  simp only [envStr, envSlice] at hrun
  have hhead : ∀ b r', (skipWs bs 0).1 = b :: r' → isWs b = false := by
    intro b r' h
    exact skipWs_head bs 0 b r' (skipWs bs 0).2 (by rw [← h])
  generalize skipWs bs 0 = sk at hr hrun hhead
  obtain ⟨r, p⟩ := sk
  simp only at hr hrun hhead ⊢
  rw [hrun]
  cases hp : runPrefix { cfg := cfg, src := .slice, tgt := .ignored } init p r with
  | err c idx => rfl
  | ok v e =>
    simp only
    have hs : runPrefix { cfg := cfg, src := .str, tgt := .ignored } init p r = .ok v e := by rw [hrun, hp]
    obtain ⟨_, _, t, hd⟩ := runPrefix_span { cfg := cfg, src := .str, tgt := .ignored } rfl p r v e hhead hs
    have hcv : validUtf8 (r.take (e - p)) = true := by
      have := derives_valid_in_context hd [] (r.drop (e - p)) (by simpa [List.take_append_drop] using hr)
      exact this
    simp [hcv]

/-! ## array elements -/

theorem tail_mem_split {tail : Bytes} {cs : List Bytes} (h : Tail tail cs) :
    ∀ c ∈ cs, ∃ pre post, tail = pre ++ c ++ post := by
  induction h with
  | nil w _ => intro c hc; simp at hc
  | cons w₁ w₂ c' rest cs _ _ _ ih =>
    intro c hc
    simp only [List.mem_cons] at hc
    rcases hc with rfl | hc
    · exact ⟨w₁ ++ [0x2c] ++ w₂, rest, by simp⟩
    · obtain ⟨pre, post, rfl⟩ := ih c hc
      exact ⟨w₁ ++ [0x2c] ++ w₂ ++ c' ++ pre, post, by simp⟩

theorem inner_mem_split {inner : Bytes} {cs : List Bytes} (h : Inner inner cs) :
    ∀ c ∈ cs, ∃ pre post, inner = pre ++ c ++ post := by
  cases cs with
  | nil => intro c hc; simp at hc
  | cons c' cs =>
    obtain ⟨w, tail, _, rfl, ht⟩ := h
    intro c hc
    simp only [List.mem_cons] at hc
    rcases hc with rfl | hc
    · exact ⟨w, tail, rfl⟩
    · obtain ⟨pre, post, rfl⟩ := tail_mem_split ht c hc
      exact ⟨w ++ c' ++ pre, post, by simp⟩

/-- on valid UTF-8 input the captures that the `&str` source makes pass the byte sources' UTF-8 check -/
theorem captured_of_valid (env env' : SJ.Model.Typed.Env) (w₀ inner w₃ : Bytes) (cs : List Bytes)
    (hv : validUtf8 (w₀ ++ [0x5b] ++ inner ++ [0x5d] ++ w₃) = true) (hin : Inner inner cs)
    (hcap : ∀ c ∈ cs, Captured env c) : ∀ c ∈ cs, Captured env' c := by
  intro c hc
  obtain ⟨t, hd⟩ := (hcap c hc).1
  refine ⟨⟨t, hd⟩, fun _ => ?_⟩
  obtain ⟨pre, post, rfl⟩ := inner_mem_split hin c hc
  exact derives_valid_in_context hd (w₀ ++ [0x5b] ++ pre) (post ++ [0x5d] ++ w₃) (by simpa [List.append_assoc] using hv)

/-! ## object values -/

open SJ.Proofs.RawMap SJ.Proofs.RawKey SJ.Spec.Grammar in
theorem mtail_mem_split {tail : Bytes} {ms : List Mem} (h : MTail tail ms) :
    ∀ m ∈ ms, (∃ pre post, tail = pre ++ strBytes m.1 ++ post) ∧ (∃ pre post, tail = pre ++ m.2.2 ++ post) := by
  induction h with
  | nil w _ => intro m hm; simp at hm
  | cons w₁ w₂ k s w₃ w₄ c rest ms _ _ _ _ _ ih =>
    intro m hm
    simp only [List.mem_cons] at hm
    rcases hm with rfl | hm
    · exact ⟨⟨w₁ ++ [0x2c] ++ w₂, w₃ ++ [0x3a] ++ w₄ ++ c ++ rest, by simp⟩,
        ⟨w₁ ++ [0x2c] ++ w₂ ++ strBytes k ++ w₃ ++ [0x3a] ++ w₄, rest, by simp⟩⟩
    · obtain ⟨⟨p1, q1, h1⟩, ⟨p2, q2, h2⟩⟩ := ih m hm
      refine ⟨⟨w₁ ++ [0x2c] ++ w₂ ++ strBytes k ++ w₃ ++ [0x3a] ++ w₄ ++ c ++ p1, q1, ?_⟩,
        ⟨w₁ ++ [0x2c] ++ w₂ ++ strBytes k ++ w₃ ++ [0x3a] ++ w₄ ++ c ++ p2, q2, ?_⟩⟩
      · rw [h1]; simp
      · rw [h2]; simp

open SJ.Proofs.RawMap SJ.Proofs.RawKey SJ.Spec.Grammar in
theorem minner_mem_split {inner : Bytes} {ms : List Mem} (h : MInner inner ms) :
    ∀ m ∈ ms, (∃ pre post, inner = pre ++ strBytes m.1 ++ post) ∧ (∃ pre post, inner = pre ++ m.2.2 ++ post) := by
  cases ms with
  | nil => intro m hm; simp at hm
  | cons m0 ms =>
    obtain ⟨k, s, c⟩ := m0
    obtain ⟨w, w₃, w₄, tail, _, _, _, rfl, ht⟩ := h
    intro m hm
    simp only [List.mem_cons] at hm
    rcases hm with rfl | hm
    · exact ⟨⟨w, w₃ ++ [0x3a] ++ w₄ ++ c ++ tail, by simp⟩, ⟨w ++ strBytes k ++ w₃ ++ [0x3a] ++ w₄, tail, by simp⟩⟩
    · obtain ⟨⟨p1, q1, h1⟩, ⟨p2, q2, h2⟩⟩ := mtail_mem_split ht m hm
      refine ⟨⟨w ++ strBytes k ++ w₃ ++ [0x3a] ++ w₄ ++ c ++ p1, q1, ?_⟩,
        ⟨w ++ strBytes k ++ w₃ ++ [0x3a] ++ w₄ ++ c ++ p2, q2, ?_⟩⟩
      · rw [h1]; simp
      · rw [h2]; simp

open SJ.Proofs.RawMap SJ.Proofs.RawKey SJ.Spec.Grammar in
/-- on valid UTF-8 input the entries that the `&str` source accepts pass the byte sources' UTF-8 checks
    (the key: its literal is valid UTF-8, hence so is its decoding; the value: as for array elements) -/
theorem memOK_of_valid (env env' : SJ.Model.Typed.Env) (w₀ inner w₃ : Bytes) (ms : List Mem)
    (hv : validUtf8 (w₀ ++ [0x7b] ++ inner ++ [0x7d] ++ w₃) = true) (hin : MInner inner ms)
    (hcap : ∀ m ∈ ms, MemOK env m) : ∀ m ∈ ms, MemOK env' m := by
  intro m hm
  obtain ⟨hk, ⟨t, hd⟩, _⟩ := hcap m hm
  obtain ⟨⟨p1, q1, h1⟩, ⟨p2, q2, h2⟩⟩ := minner_mem_split hin m hm
  refine ⟨⟨hk.wf, hk.dec, hk.sur, fun _ => ?_⟩, ⟨t, hd⟩, fun _ => ?_⟩
  · have hraw : validUtf8 (strBytes m.1) = true :=
      derives_valid_in_context (Derives.str m.1 hk.wf) (w₀ ++ [0x7b] ++ p1) (q1 ++ [0x7d] ++ w₃)
        (by rw [h1] at hv; simpa [List.append_assoc] using hv)
    have := SJ.Proofs.Utf8.stringsUtf8_str m.1 hk.wf hk.sur hraw
    rw [hk.dec] at this
    simpa using this
  · exact derives_valid_in_context hd (w₀ ++ [0x7b] ++ p2) (q2 ++ [0x7d] ++ w₃)
      (by rw [h2] at hv; simpa [List.append_assoc] using hv)

end SJ.Proofs.RawSources
