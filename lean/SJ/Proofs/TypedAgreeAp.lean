import SJ.Proofs.TypedAgreeExcl
import SJ.Proofs.TypedSameAp
import SJ.Proofs.ViaValueValue
import SJ.Proofs.RustParseF64
import SJ.Spec.SchemaAp
import SJ.Model.FromValueAp
/-!
# The text leg of C16 under `arbitrary_precision`: the leaves that read a number LITERAL

With the feature a `Value` holds number literals in any RFC 8259 spelling (`Num.lit s`), `to_string` prints them verbatim
(`T_numLit`) and `Number`'s `Deserializer` converts them with `str::parse` (`FromValue.rustParseInt`, `rustParseF64`), while the
typed text deserializer runs the JSON number scanner on the very same bytes. The container lemmas of the text leg are
independent of the representation (`agree_core`); this file supplies the leaves:

* `agree_int_ap` — the twelve integer targets on any value of an `arbitrary_precision` build: `deInt_lit` (text:
  `Spec.NumberAcc.targetInt`) against `parseInt_bytes` (`Value`: `accInt`); they agree unless a signed 8–64-bit target meets the
  literal `-0` (`apNegZero`, open finding `C16-ap-negative-zero`); a 128-bit target on a literal with a fraction or an
  exponent leaves the rejection to its caller (`Agree1w`), as without the feature;
* `agree_f64_ap` — the `f64` target: `deNumber_lit` against `rustParseF64_bytes`; they agree where the literal is of finite range
  (`apNonFinite`, open finding `C16-ap-non-finite-f64`) and the configured JSON conversion is correctly rounded on it
  (`apAccurate`: the float hypothesis);
* `agree_any_ap` — the `Value` target on a value whose literals `Number::deserialize_any` hands back verbatim (`anyFixed`; the
  others are the open findings `C16-ap-negative-zero`, second half, and `C16-ap-display-form`);
* the inherited conditions (`posClosed_allPos`) and the assembled statement `agree_all_ap`.
-/
set_option linter.unusedSectionVars false
set_option linter.unusedVariables false

namespace SJ.Proofs.Typed
open SJ SJ.Gen SJ.Model SJ.Model.Typed SJ.Model.Num SJ.Proofs.NumInt
open SJ.Spec.NumberAcc SJ.Proofs.ViaValue SJ.Proofs.NumLinkParser
open SJ.Spec.Grammar (NumParts isInt isFrac isExp)
open SJ.Spec.Number (splitNumber)

/-! ## a numeric request on input that does not start like a number -/

theorem deNumber_notNumStart (env : Env) (ty : NumTy) {c : UInt8} (hw : Machine.isWs c = false) (hn : isNumStart c = false)
    (tl : Bytes) (pos : Nat) : ∀ x r p, deNumber env ty (c :: tl) pos ≠ .ok x r p := by
  intro x r p
  unfold deNumber
  rw [withPeek_cons env _ hw]
  simp only [hn, Bool.false_eq_true, if_false]
  exact peekInvalidType_not_ok _ _ _ _ _ _

theorem deInt_notNumStart (env : Env) (w : IntTy) {c : UInt8} (hw : Machine.isWs c = false) (hn : isNumStart c = false)
    (tl : Bytes) (pos : Nat) : ∀ x r p, deInt env w (c :: tl) pos ≠ .ok x r p := by
  intro x r p
  have hn' := hn
  unfold isNumStart at hn'
  simp only [Bool.or_eq_false_iff] at hn'
  unfold deInt
  split
  · unfold deInt128
    rw [withPeek_cons env _ hw]
    simp only [hn'.1, Bool.false_eq_true, if_false]
    unfold scanInteger128
    have h0 : (c == 0x30) = false := by
      cases hd : (c == 0x30) with
      | false => rfl
      | true =>
        have : c = 0x30 := by simpa using hd
        subst this
        have := hn'.2
        simp [Machine.isDigit] at this
    simp only [h0, hn'.2, Bool.false_eq_true, if_false, Res.bind]
    simp
  · exact deNumber_notNumStart env _ hw hn tl pos x r p

/-! ## the literal `-0` -/

theorem digitsVal_ge (ds : Bytes) : ∀ a : Nat, a ≤ ds.foldl (fun a d => a * 10 + Spec.Decimal.digitVal d) a := by
  induction ds with
  | nil => intro a; exact Nat.le_refl _
  | cons d ds ih =>
    intro a
    simp only [List.foldl_cons]
    exact Nat.le_trans (by omega) (ih _)

/-- an integer part worth zero is the single digit `0` -/
theorem int_zero (int : Bytes) (hi : isInt int = true) (h0 : Spec.Decimal.digitsVal int = 0) : int = [0x30] := by
  rcases SJ.Proofs.Complete.int_shape int hi with h | ⟨d, ds, rfl, hd, hz, _⟩
  · exact h
  · exfalso
    unfold Spec.Decimal.digitsVal at h0
    simp only [List.foldl_cons, Nat.zero_mul, Nat.zero_add] at h0
    have hge := digitsVal_ge ds (Spec.Decimal.digitVal d)
    have hpos : 1 ≤ Spec.Decimal.digitVal d := by
      have hd' : Spec.Grammar.isDigit d = true := hd
      unfold Spec.Grammar.isDigit at hd'
      simp only [Bool.and_eq_true, decide_eq_true_eq] at hd'
      have h1 := UInt8.le_iff_toNat_le.mp hd'.1
      have hne : d ≠ 0x30 := by simpa using hz
      have : d.toNat ≠ 48 := fun e => hne (UInt8.toNat_inj.mp (by simpa using e))
      unfold Spec.Decimal.digitVal
      simp at h1
      omega
    omega

/-- the literal the statement calls negative zero is spelled `-0` -/
theorem negZero_bytes (p : NumParts) (hwf : p.WF = true) (h : isNegZero (litOf p) = true) : p.bytes = [0x2d, 0x30] := by
  unfold isNegZero at h
  simp only [Bool.and_eq_true, beq_iff_eq] at h
  obtain ⟨⟨hil, hneg⟩, h0⟩ := h
  rw [SJ.Proofs.NumberAp.isIntLit_litOf p hwf] at hil
  simp only [Bool.and_eq_true, List.isEmpty_iff] at hil
  rw [litOf_neg] at hneg
  rw [litOf_int] at h0
  have hwf' := hwf
  simp only [NumParts.WF, Bool.and_eq_true] at hwf'
  have hint := int_zero p.int hwf'.1.1 h0
  simp [NumParts.bytes, hneg, hint, hil.1, hil.2]

variable (ext : Spec.Program.Ext) (hext : Spec.Program.ExtOK ext)
include hext

/-! ## integer targets -/

/-- **the integer targets under `arbitrary_precision`**: `self.n.parse::<iN>()` of the stored literal against the typed text
    deserializer on the same bytes. `hnz`: not a signed 8–64-bit target on the literal `-0`. -/
theorem agree_int_ap {env : Env} (hflt : env.flt = false) (cfg' : FromValue.Cfg) (hap : cfg'.ap = true) (ext' : FromValue.Ext)
    (w : IntTy) (v : JV) (hv : VOKa v) (hnz : apNegZero (.int w) v = false) :
    Agree1w (deInt env w) (FromValue.fromValue cfg' ext' (.int w) v) (T ext v) := by
  intro rest pos hs
  cases v with
  | num n =>
    cases n with
    | lit s =>
      obtain ⟨hwf, hbytes⟩ := SJ.Proofs.Number.splitNumber_of_isNumber s (voka_lit hv)
      generalize hp : splitNumber s = p at hwf hbytes
      subst hbytes
      have hval : FromValue.fromValue cfg' ext' (.int w) (.num (.lit p.bytes)) =
          (match accInt w (litOf p) with | some x => .ok (.int x) | none => FromValue.fail) := by
        have := SJ.Proofs.NumberAp.parseInt_bytes w p hwf
        unfold Model.NumberAp.parseInt at this
        simp only [FromValue.fromValue, FromValue.deInt, FromValue.numberInt, hap, if_true, FromValue.litOf, this]
        cases accInt w (litOf p) <;> rfl
      have htxt := deInt_lit hflt w p hwf rest pos (SJ.Proofs.TypedFloat.term_of_sep hs)
      -- outside the exception the two verdicts coincide
      have htg : targetInt w (litOf p) = accInt w (litOf p) := by
        unfold targetInt
        cases hb : (decide (w.bits ≤ 64) && isNegZero (litOf p)) with
        | false => simp
        | true =>
          simp only [Bool.and_eq_true, decide_eq_true_eq] at hb
          simp only [if_true]
          have hs' : w.signed = false := by
            cases h : w.signed
            · rfl
            · exfalso
              have hb2 := negZero_bytes p hwf hb.2
              simp [apNegZero, h, hb.1, hb2] at hnz
          have hneg : (litOf p).neg = true := by
            have := hb.2; unfold isNegZero at this
            simp only [Bool.and_eq_true] at this; exact this.1.2
          have hil : isIntLit (litOf p) = true := by
            have := hb.2; unfold isNegZero at this
            simp only [Bool.and_eq_true] at this; exact this.1.1
          unfold accInt
          simp [hil, hneg, hs']
      rw [hval, T_numLit]
      rw [htg] at htxt
      cases hacc : accInt w (litOf p) with
      | some x => exact htxt.1 x hacc
      | none =>
        intro x r q hok
        rcases htxt.2 hacc with hno | ⟨_, _, y, c, tl, q', hok', hc⟩
        · exact absurd hok (hno x r q)
        · rw [hok'] at hok
          simp only [Res.ok.injEq] at hok
          refine ⟨c, tl ++ rest, by rw [← hok.2.1]; rfl, ?_⟩
          rcases hc with hc | hc
          · exact .inl (by simpa using hc)
          · simp only [Bool.or_eq_true, beq_iff_eq] at hc
            exact .inr hc
    | pos _ => simp [VOKa, shapeA] at hv
    | neg _ => simp [VOKa, shapeA] at hv
    | float _ => simp [VOKa, shapeA] at hv
  | null | bool _ | str _ | arr _ | obj _ =>
    obtain ⟨c, tl, hT, hc⟩ := T_head_g ext hext _ hv.g
    have hw := (headOf_facts hc).1
    have ht := (headOf_tests hc).2.2.2.1
    simp only [FromValue.fromValue, FromValue.deInt, FromValue.fail]
    intro x r p hok
    rw [hT] at hok
    exact absurd hok (deInt_notNumStart env w hw ht _ pos x r p)

/-! ## the `f64` target -/

omit hext in
theorem withAp_self (env : Env) : SJ.Proofs.TypedAp.withAp (SJ.Proofs.TypedAp.withAp env false) env.cfg.ap = env := by
  obtain ⟨⟨po, fr, ap, lo⟩, src, flt⟩ := env
  rfl

omit hext in
/-- `deserialize_number` does not consult the feature on input that starts like a number -/
theorem deNumber_noAp (env : Env) (ty : NumTy) {c : UInt8} (hn : isNumStart c = true) (tl : Bytes) (pos : Nat) :
    deNumber env ty (c :: tl) pos = deNumber (SJ.Proofs.TypedAp.withAp env false) ty (c :: tl) pos := by
  have := SJ.Proofs.TypedAp.deNumber_ap_of_start (SJ.Proofs.TypedAp.withAp env false) env.cfg.ap ty (c :: tl) pos (by
    intro b r p hsk
    rw [skipWs_cons (SJ.Proofs.ViaValue.isNumStart_not_ws hn)] at hsk
    cases hsk
    exact hn)
  rw [withAp_self] at this
  exact this

omit hext in
/-- the number of a literal in a build without the feature depends on `float_roundtrip` only -/
theorem numOf_noAp (c : Spec.Canon.Cfg) (hc : c.ap = false) (p : NumParts) :
    Spec.Canon.numOf c p = Spec.Canon.numOf { fr := c.fr } p := by
  simp [Spec.Canon.numOf, Spec.Canon.convert, hc]

omit hext in
/-- serde's `f64` visitor on the number the parser hands over (`visit_u64` / `visit_i64`: `as f64`; `visit_f64`) -/
theorem numberF64_noAp (n : Num) (b : UInt64) (h : Spec.PrimEq.numAsF64 n = some b) :
    FromValue.numberF64 {} n = .ok (.f64 b) := by
  cases n with
  | pos u =>
    simp only [Spec.PrimEq.numAsF64, Option.some.injEq] at h
    subst h
    simp [FromValue.numberF64, FromValue.intToF64, Spec.PrimEq.intAsF64, Spec.Ieee.F64.roundOrInf]
  | neg i =>
    simp only [Spec.PrimEq.numAsF64, Option.some.injEq] at h
    subst h
    simp [FromValue.numberF64, FromValue.intToF64, Spec.PrimEq.intAsF64, Spec.Ieee.F64.roundOrInf]
  | float x =>
    simp only [Spec.PrimEq.numAsF64, Option.some.injEq] at h
    subst h
    simp [FromValue.numberF64]
  | lit s => simp [Spec.PrimEq.numAsF64] at h

omit hext in
/-- what the two hypotheses on an `f64` position say of a literal: it has a finite nearest binary64 `b`, and the configured
    conversion returns a number that serde's `f64` visitor turns into `b` -/
theorem accurate_facts (fr : Bool) (l : Bytes) (hfin : apNonFinite .f64 (.num (.lit l)) = false)
    (hacc : apAccurate fr .f64 (.num (.lit l)) = true) :
    ∃ b n, litNearest l = some b ∧ Spec.Canon.numOf { fr := fr } (splitNumber l) = some n ∧ Spec.PrimEq.numAsF64 n = some b := by
  simp only [apNonFinite, apAccurate] at hfin hacc
  generalize litNearest l = o at hfin hacc
  cases o with
  | none => simp at hfin
  | some b =>
    simp only [accOpt, beq_iff_eq] at hacc
    unfold litConv at hacc
    cases hn : Spec.Canon.numOf { fr := fr } (splitNumber l) with
    | none => rw [hn] at hacc; cases hacc
    | some n =>
      rw [hn] at hacc
      exact ⟨b, n, rfl, rfl, hacc⟩

/-- **the `f64` target under `arbitrary_precision`**: `visitor.visit_f64(self.n.parse()?)` (std's correctly rounded, saturating
    `str::parse::<f64>`) against `deserialize_f64` of the text deserializer on the same bytes. `hfin`: the literal is of finite
    range; `hacc`: the JSON number conversion of the build is correctly rounded on it. -/
theorem agree_f64_ap {env : Env} (hflt : env.flt = false) (cfg' : FromValue.Cfg) (hap : cfg'.ap = true) (ext' : FromValue.Ext)
    (v : JV) (hv : VOKa v) (hfin : apNonFinite .f64 v = false) (hacc : apAccurate env.cfg.fr .f64 v = true) :
    Agree1 (deNumber env .f64) (FromValue.fromValue cfg' ext' .f64 v) (T ext v) := by
  intro rest pos hs
  cases v with
  | num n =>
    cases n with
    | lit s =>
      obtain ⟨b, n, hnear, hnum, hvis⟩ := accurate_facts env.cfg.fr s hfin hacc
      obtain ⟨hwf, hbytes⟩ := SJ.Proofs.Number.splitNumber_of_isNumber s (voka_lit hv)
      generalize hp : splitNumber s = p at hwf hbytes hnum
      subst hbytes
      -- the `Value` side: the nearest binary64
      have hval : FromValue.fromValue cfg' ext' .f64 (.num (.lit p.bytes)) = .ok (.f64 b) := by
        simp only [FromValue.fromValue, FromValue.numberF64, hap, if_true, FromValue.litOf]
        rw [SJ.Proofs.NumberAp.rustParseF64_bytes p hwf, ← SJ.Proofs.NumberAp.litNearest_bytes p hwf, hnear]
        rfl
      -- the text side: the configured conversion, run without consulting the feature
      obtain ⟨c, tl, hct, hns⟩ := bytes_head p hwf rest
      have hflt0 : (SJ.Proofs.TypedAp.withAp env false).flt = false := hflt
      have hx : Spec.Canon.numOf (SJ.Proofs.CanonM.specCfg (SJ.Proofs.TypedAp.withAp env false).cfg) p = some n := by
        rw [numOf_noAp _ rfl]; exact hnum
      have hty : ((SJ.Proofs.TypedAp.withAp env false).cfg.fr && NumTy.f64 == NumTy.f32) = false := by
        have : (NumTy.f64 == NumTy.f32) = false := rfl
        rw [this]; simp
      have hde := SJ.Proofs.TypedFloat.deNumber_lit hflt0 rfl .f64 hty p hwf n hx rest pos hs
      rw [hval, T_numLit]
      simp only
      rw [hct, deNumber_noAp env .f64 hns, ← hct, hde]
      simp only [visitNumber, numberF64_noAp n b hvis, ofVisit, fixPos]
    | pos _ => simp [VOKa, shapeA] at hv
    | neg _ => simp [VOKa, shapeA] at hv
    | float _ => simp [VOKa, shapeA] at hv
  | null | bool _ | str _ | arr _ | obj _ =>
    obtain ⟨c, tl, hT, hc⟩ := T_head_g ext hext _ hv.g
    have hw := (headOf_facts hc).1
    have ht := (headOf_tests hc).2.2.2.1
    simp only [FromValue.fromValue, FromValue.fail]
    intro x r p
    rw [hT]
    exact deNumber_notNumStart env _ hw ht _ pos x r p

/-! ## `Value` targets -/

omit hext in
theorem numberAny_ap (cfg' : FromValue.Cfg) (hap : cfg'.ap = true) (ext' : FromValue.Ext) (n : Num) :
    FromValue.numberAny cfg' ext' n = FromValue.numberAny { ap := true } ext' n := by
  unfold FromValue.numberAny
  simp only [hap, if_true]

omit hext in
mutual
/-- `Value::deserialize(v)` rebuilds `v` when `Number::deserialize_any` hands every literal back verbatim -/
theorem rebuild_fixed (cfg' : FromValue.Cfg) (hap : cfg'.ap = true) (ext' : FromValue.Ext) :
    ∀ v : JV, shapeA v = true → JV.allLits (FromValue.litFixed ext') v = true → FromValue.rebuild cfg' ext' v = v
  | .null, _, _ => by simp [FromValue.rebuild]
  | .bool _, _, _ => by simp [FromValue.rebuild]
  | .str _, _, _ => by simp [FromValue.rebuild]
  | .num n, hs, h => by
    cases n with
    | lit l =>
      simp only [JV.allLits, FromValue.litFixed, beq_iff_eq] at h
      simp only [FromValue.rebuild, numberAny_ap cfg' hap, h]
    | pos _ => simp [shapeA] at hs
    | neg _ => simp [shapeA] at hs
    | float _ => simp [shapeA] at hs
  | .arr xs, hs, h => by
    simp only [shapeA] at hs
    simp only [JV.allLits] at h
    simp only [FromValue.rebuild, rebuildList_fixed cfg' hap ext' xs hs h]
  | .obj kvs, hs, h => by
    simp only [shapeA] at hs
    simp only [JV.allLits] at h
    simp only [FromValue.rebuild, rebuildMembers_fixed cfg' hap ext' kvs hs h]
theorem rebuildList_fixed (cfg' : FromValue.Cfg) (hap : cfg'.ap = true) (ext' : FromValue.Ext) :
    ∀ xs : List JV, shapeAs xs = true → JV.allLitsList (FromValue.litFixed ext') xs = true → FromValue.rebuildList cfg' ext' xs = xs
  | [], _, _ => by simp [FromValue.rebuildList]
  | x :: xs, hs, h => by
    simp only [shapeAs, Bool.and_eq_true] at hs
    simp only [JV.allLitsList, Bool.and_eq_true] at h
    simp only [FromValue.rebuildList, rebuild_fixed cfg' hap ext' x hs.1 h.1, rebuildList_fixed cfg' hap ext' xs hs.2 h.2]
theorem rebuildMembers_fixed (cfg' : FromValue.Cfg) (hap : cfg'.ap = true) (ext' : FromValue.Ext) :
    ∀ kvs : List (Bytes × JV), shapeAm kvs = true → JV.allLitsMembers (FromValue.litFixed ext') kvs = true →
      FromValue.rebuildMembers cfg' ext' kvs = kvs
  | [], _, _ => by simp [FromValue.rebuildMembers]
  | (k, x) :: kvs, hs, h => by
    simp only [shapeAm, Bool.and_eq_true] at hs
    simp only [JV.allLitsMembers, Bool.and_eq_true] at h
    simp only [FromValue.rebuildMembers, rebuild_fixed cfg' hap ext' x hs.1.2 h.1, rebuildMembers_fixed cfg' hap ext' kvs hs.2 h.2]
end

omit hext in
mutual
theorem noFloat_of_shapeA : ∀ v : JV, shapeA v = true → Spec.WF.noFloat v = true
  | .null, _ | .bool _, _ | .str _, _ => rfl
  | .num n, h => by cases n <;> simp_all [shapeA, Spec.WF.noFloat]
  | .arr xs, h => by
    simp only [shapeA] at h
    simp only [Spec.WF.noFloat]
    exact noFloats_of_shapeAs xs h
  | .obj kvs, h => by
    simp only [shapeA] at h
    simp only [Spec.WF.noFloat]
    exact noFloatm_of_shapeAm kvs h
theorem noFloats_of_shapeAs : ∀ xs : List JV, shapeAs xs = true → Spec.WF.noFloats xs = true
  | [], _ => rfl
  | x :: xs, h => by
    simp only [shapeAs, Bool.and_eq_true] at h
    simp only [Spec.WF.noFloats, Bool.and_eq_true]
    exact ⟨noFloat_of_shapeA x h.1, noFloats_of_shapeAs xs h.2⟩
theorem noFloatm_of_shapeAm : ∀ kvs : List (Bytes × JV), shapeAm kvs = true → Spec.WF.noFloatm kvs = true
  | [], _ => rfl
  | (k, x) :: kvs, h => by
    simp only [shapeAm, Bool.and_eq_true] at h
    simp only [Spec.WF.noFloatm, Bool.and_eq_true]
    exact ⟨noFloat_of_shapeA x h.1.2, noFloatm_of_shapeAm kvs h.2⟩
end

/-- **the `Value` target under `arbitrary_precision`**: `from_str::<Value>` keeps every literal (the machine under the feature),
    `from_value::<Value>(v)` rebuilds `v` when every literal of `v` is handed back verbatim by `Number::deserialize_any` -/
theorem agree_any_ap {env : Env} (hflt : env.flt = false) (cfg' : FromValue.Cfg) (hap : cfg'.ap = true) (ext' : FromValue.Ext)
    (f t : Nat) (v : JV) (hv : VOKa v) (hd : DepthOK env t v)
    (hs : Spec.WF.shapeOK (SJ.Proofs.CanonM.specCfg env.cfg) v = true)
    (hfix : FromValue.apAnyMoved ext' .any v = false) :
    Agree1 (deTyped env (f + 1) t .any) (FromValue.fromValue cfg' ext' .any v) (T ext v) := by
  have hl : JV.allLits (FromValue.litFixed ext') v = true := by simpa [FromValue.apAnyMoved] using hfix
  exact agree_any_g ext hext hflt cfg' ext' f t v hv.g hd hs
    (SJ.Proofs.RoundTrip.floatsRT_of_noFloat _ ext v (noFloat_of_shapeA v hv))
    (by simp only [FromValue.fromValue, rebuild_fixed cfg' hap ext' v hv hl])

/-! ## conditions tested wherever a leaf target meets a value are inherited -/

omit hext in
theorem allPosField_spec (q : Schema → JV → Bool) : ∀ (fs : List (Bytes × Schema)) (k : Bytes) (x : JV) (i : Nat) (nm : Bytes) (s : Schema),
    FromValue.nameIndex (fieldNames fs) k = some i → fs[i]? = some (nm, s) → Schema.allPosField q fs k x = Schema.allPos q s x
  | [], k, x, i, nm, s, h, _ => by simp [fieldNames, FromValue.nameIndex] at h
  | (n, s0) :: fs, k, x, i, nm, s, h, hfi => by
    simp only [fieldNames, List.map_cons, FromValue.nameIndex] at h
    simp only [Schema.allPosField]
    by_cases hn : (n == k) = true
    · simp only [hn, if_true, Option.some.injEq] at h ⊢
      subst h
      simp only [List.getElem?_cons_zero, Option.some.injEq, Prod.mk.injEq] at hfi
      rw [hfi.2]
    · simp only [hn, Bool.false_eq_true, if_false] at h ⊢
      cases hr : FromValue.nameIndex (List.map (fun x => x.1) fs) k with
      | none => simp [hr] at h
      | some j =>
        simp only [hr, Option.map_some, Option.some.injEq] at h
        subst h
        simp only [List.getElem?_cons_succ] at hfi
        exact allPosField_spec q fs k x j nm s (by simpa [fieldNames] using hr) hfi

omit hext in
theorem allPosVariants_mem (q : Schema → JV → Bool) : ∀ (vs : List (Bytes × VariantShape)) (k : Bytes) (x : JV) (sh : VariantShape),
    (k, sh) ∈ vs → Schema.allPosVariants q vs k x = true → VariantShape.allPos q sh x = true
  | [], _, _, _, h, _ => by simp at h
  | (n, sh0) :: vs, k, x, sh, h, hf => by
    simp only [Schema.allPosVariants, Bool.and_eq_true, Bool.or_eq_true, Bool.not_eq_true'] at hf
    rcases List.mem_cons.mp h with h | h
    · cases h
      rcases hf.1 with hne | hv
      · simp at hne
      · exact hv
    · exact allPosVariants_mem q vs k x sh h hf.2

omit hext in
theorem tupR_allPosList (q : Schema → JV → Bool) : ∀ (ss : List Schema) (xs : List JV), Schema.allPosList q ss xs = true →
    TupR (fun s v => Schema.allPos q s v = true) ss xs
  | [], _, _ => trivial
  | _ :: _, [], _ => trivial
  | s :: ss, x :: xs, h => by
    simp only [Schema.allPosList, Bool.and_eq_true] at h
    exact ⟨h.1, tupR_allPosList q ss xs h.2⟩

omit hext in
theorem tupR_allPosFields (q : Schema → JV → Bool) : ∀ (fs : List (Bytes × Schema)) (xs : List JV), Schema.allPosFieldsArr q fs xs = true →
    TupR (fun s v => Schema.allPos q s v = true) (fs.map (·.2)) xs
  | [], _, _ => trivial
  | _ :: _, [], _ => trivial
  | (n, s) :: fs, x :: xs, h => by
    simp only [Schema.allPosFieldsArr, Bool.and_eq_true] at h
    exact ⟨h.1, tupR_allPosFields q fs xs h.2⟩

omit hext in
/-- `Schema.allPos q` is inherited along the positions the induction visits -/
theorem posClosed_allPos (q : Schema → JV → Bool) : PosClosed (fun s v => Schema.allPos q s v = true) where
  option := fun s v h hn => by cases v <;> simp_all [Schema.allPos]
  newtype := fun s v h => by simpa [Schema.allPos] using h
  seq := fun s xs h x hx => by
    simp only [Schema.allPos, List.all_eq_true] at h
    exact h x hx
  tuple := fun ss xs h => tupR_allPosList q ss xs (by simpa [Schema.allPos] using h)
  map := fun k s kvs h kv hx => by
    simp only [Schema.allPos, List.all_eq_true] at h
    exact h kv hx
  structArr := fun fs d xs h => tupR_allPosFields q fs xs (by simpa [Schema.allPos] using h)
  structObj := fun fs d kvs h kv hx i nm s hni hfi => by
    simp only [Schema.allPos, List.all_eq_true] at h
    have := h kv hx
    rw [allPosField_spec q fs kv.1 kv.2 i nm s hni hfi] at this
    exact this
  enumPayload := fun vs k x kvs h sh hmem => by
    have hv : VariantShape.allPos q sh x = true := allPosVariants_mem q vs k x sh hmem (by simpa [Schema.allPos] using h)
    cases sh with
    | unit => trivial
    | newtype s => simpa [RShape, VariantShape.allPos] using hv
    | tuple ss => simpa [RShape, VariantShape.allPos, Schema.allPos] using hv
    | struct_ fs => simpa [RShape, VariantShape.allPos, Schema.allPos] using hv

omit hext in
mutual
/-- a stronger test everywhere gives the weaker one everywhere -/
theorem allPos_mono (q q' : Schema → JV → Bool) (h : ∀ s v, q s v = true → q' s v = true) :
    ∀ (s : Schema) (v : JV), Schema.allPos q s v = true → Schema.allPos q' s v = true
  | .option s, v, hq => by
    cases v <;> simp_all only [Schema.allPos] <;> exact allPos_mono q q' h s _ hq
  | .newtype s, v, hq => by
    simp only [Schema.allPos] at hq ⊢
    exact allPos_mono q q' h s v hq
  | .seq s, v, hq => by
    cases v with
    | arr xs =>
      simp only [Schema.allPos, List.all_eq_true] at hq ⊢
      exact fun x hx => allPos_mono q q' h s x (hq x hx)
    | _ => simp [Schema.allPos]
  | .tuple ss, v, hq => by
    cases v with
    | arr xs =>
      simp only [Schema.allPos] at hq ⊢
      exact allPosList_mono q q' h ss xs hq
    | _ => simp [Schema.allPos]
  | .map k s, v, hq => by
    cases v with
    | obj kvs =>
      simp only [Schema.allPos, List.all_eq_true] at hq ⊢
      exact fun kv hx => allPos_mono q q' h s kv.2 (hq kv hx)
    | _ => simp [Schema.allPos]
  | .struct_ fs d, v, hq => by
    cases v with
    | arr xs =>
      simp only [Schema.allPos] at hq ⊢
      exact allPosFieldsArr_mono q q' h fs xs hq
    | obj kvs =>
      simp only [Schema.allPos, List.all_eq_true] at hq ⊢
      exact fun kv hx => allPosField_mono q q' h fs kv.1 kv.2 (hq kv hx)
    | _ => simp [Schema.allPos]
  | .enum_ vs, v, hq => by
    cases v with
    | obj kvs =>
      cases kvs with
      | nil => simp [Schema.allPos]
      | cons kv kvs =>
        obtain ⟨k, x⟩ := kv
        simp only [Schema.allPos] at hq ⊢
        exact allPosVariants_mono q q' h vs k x hq
    | _ => simp [Schema.allPos]
  | .bytes, v, hq => by
    simp only [Schema.allPos, Bool.and_eq_true] at hq ⊢
    refine ⟨h _ _ hq.1, ?_⟩
    cases v with
    | arr xs =>
      have := hq.2
      simp only [List.all_eq_true] at this ⊢
      exact fun x hx => h _ _ (this x hx)
    | _ => rfl
  | .bool, v, hq | .int _, v, hq | .f64, v, hq | .f32, v, hq | .char, v, hq | .string, v, hq | .unit, v, hq
  | .unitStruct, v, hq | .ignored, v, hq | .any, v, hq => by
    simp only [Schema.allPos] at hq ⊢
    exact h _ _ hq
theorem allPosList_mono (q q' : Schema → JV → Bool) (h : ∀ s v, q s v = true → q' s v = true) :
    ∀ (ss : List Schema) (xs : List JV), Schema.allPosList q ss xs = true → Schema.allPosList q' ss xs = true
  | [], _, _ => by simp [Schema.allPosList]
  | s :: ss, xs, hq => by
    cases xs with
    | nil => simp [Schema.allPosList]
    | cons x xs =>
      simp only [Schema.allPosList, Bool.and_eq_true] at hq ⊢
      exact ⟨allPos_mono q q' h s x hq.1, allPosList_mono q q' h ss xs hq.2⟩
theorem allPosFieldsArr_mono (q q' : Schema → JV → Bool) (h : ∀ s v, q s v = true → q' s v = true) :
    ∀ (fs : List (Bytes × Schema)) (xs : List JV), Schema.allPosFieldsArr q fs xs = true → Schema.allPosFieldsArr q' fs xs = true
  | [], _, _ => by simp [Schema.allPosFieldsArr]
  | (n, s) :: fs, xs, hq => by
    cases xs with
    | nil => simp [Schema.allPosFieldsArr]
    | cons x xs =>
      simp only [Schema.allPosFieldsArr, Bool.and_eq_true] at hq ⊢
      exact ⟨allPos_mono q q' h s x hq.1, allPosFieldsArr_mono q q' h fs xs hq.2⟩
theorem allPosField_mono (q q' : Schema → JV → Bool) (h : ∀ s v, q s v = true → q' s v = true) :
    ∀ (fs : List (Bytes × Schema)) (k : Bytes) (x : JV), Schema.allPosField q fs k x = true → Schema.allPosField q' fs k x = true
  | [], _, _, _ => by simp [Schema.allPosField]
  | (n, s) :: fs, k, x, hq => by
    simp only [Schema.allPosField] at hq ⊢
    split
    · rename_i hn; rw [if_pos hn] at hq; exact allPos_mono q q' h s x hq
    · rename_i hn; rw [if_neg hn] at hq; exact allPosField_mono q q' h fs k x hq
theorem allPosVariants_mono (q q' : Schema → JV → Bool) (h : ∀ s v, q s v = true → q' s v = true) :
    ∀ (vs : List (Bytes × VariantShape)) (k : Bytes) (x : JV), Schema.allPosVariants q vs k x = true → Schema.allPosVariants q' vs k x = true
  | [], _, _, _ => by simp [Schema.allPosVariants]
  | (n, sh) :: vs, k, x, hq => by
    simp only [Schema.allPosVariants, Bool.and_eq_true, Bool.or_eq_true, Bool.not_eq_true'] at hq ⊢
    exact ⟨hq.1.imp id (allPosShape_mono q q' h sh x), allPosVariants_mono q q' h vs k x hq.2⟩
theorem allPosShape_mono (q q' : Schema → JV → Bool) (h : ∀ s v, q s v = true → q' s v = true) :
    ∀ (sh : VariantShape) (x : JV), VariantShape.allPos q sh x = true → VariantShape.allPos q' sh x = true
  | .unit, _, _ => rfl
  | .newtype s, x, hq => by
    simp only [VariantShape.allPos] at hq ⊢
    exact allPos_mono q q' h s x hq
  | .tuple ss, x, hq => by
    cases x with
    | arr xs =>
      simp only [VariantShape.allPos] at hq ⊢
      exact allPosList_mono q q' h ss xs hq
    | _ => simp [VariantShape.allPos]
  | .struct_ fs, x, hq => by
    cases x with
    | arr xs =>
      simp only [VariantShape.allPos] at hq ⊢
      exact allPosFieldsArr_mono q q' h fs xs hq
    | obj kvs =>
      simp only [VariantShape.allPos, List.all_eq_true] at hq ⊢
      exact fun kv hx => allPosField_mono q q' h fs kv.1 kv.2 (hq kv hx)
    | _ => simp [VariantShape.allPos]
end

/-! ## the executable forms the driver evaluates are the tests of the theorem -/

omit hext in
theorem litNearestX_eq (l : Bytes) : FromValue.litNearestX l = litNearest l := by
  unfold FromValue.litNearestX
  split
  · rename_i h
    obtain ⟨hwf, hbytes⟩ := SJ.Proofs.Number.splitNumber_of_isNumber l ((SJ.Proofs.Number.isNumber_iff l).1 h)
    have h1 := SJ.Proofs.NumberAp.asF64_bytes (splitNumber l) hwf
    have h2 := SJ.Proofs.NumberAp.litNearest_bytes (splitNumber l) hwf
    rw [hbytes] at h1 h2
    rw [h1, h2]
  · rfl

omit hext in
theorem apNonFiniteX_eq : FromValue.apNonFiniteX = apNonFinite := by
  funext s v
  cases s <;> cases v <;> try rfl
  rename_i n
  cases n <;> try rfl
  simp only [FromValue.apNonFiniteX, apNonFinite, litNearestX_eq]

omit hext in
theorem apAccurateX_eq (fr : Bool) : FromValue.apAccurateX fr = apAccurate fr := by
  funext s v
  cases s <;> cases v <;> try rfl
  rename_i n
  cases n <;> try rfl
  simp only [FromValue.apAccurateX, apAccurate, litNearestX_eq]

omit hext in
/-- the exclusion the executable statement of op `c16` applies under `arbitrary_precision` is the disjunction of the three
    exclusions of `c16_text_agrees_ap_partial` -/
theorem c16ApExcluded_eq (ext' : FromValue.Ext) (s : Schema) (v : JV) :
    FromValue.c16ApExcluded ext' s v =
      (!(s.allPos (fun s v => !apNegZero s v) v) || !(s.allPos (fun s v => !apNonFinite s v) v) ||
        !(s.allPos (fun s v => !FromValue.apAnyMoved ext' s v) v)) := by
  unfold FromValue.c16ApExcluded
  rw [apNonFiniteX_eq]

/-! ## the assembled statement -/

variable {a : Bool}

/-- **the text leg under `arbitrary_precision`**: for every schema of the fragment (`Value` targets included when `a = true`) and
    every value an `arbitrary_precision` build can hold, within the depth budget, outside the statement's exclusion (`svArr`)
    and outside the three open findings (no signed 8–64-bit integer target on the literal `-0`; no `f64` target on a literal
    beyond the finite range; no `Value` target on a value with a literal that `Number::deserialize_any` re-renders), with the
    float hypothesis `apAccurate` (the JSON number conversion of the build is correctly rounded on the literals that meet an
    `f64` target): the typed deserializer on the text `to_string` writes returns what `from_value` returns, and fails — or
    returns inside a number, which every caller rejects — when it fails. -/
theorem agree_all_ap {env : Env} (hflt : env.flt = false) (hapE : env.cfg.ap = true) (cfg' : FromValue.Cfg) (hap : cfg'.ap = true)
    (ext' : FromValue.Ext) :
    ∀ (f : Nat) (s : Schema), Schema.size s ≤ f → fragP a s = true →
      ∀ (t : Nat) (v : JV), DepthOK env t v → Schema.svArr s v = false →
      Spec.WF.shapeOK (SJ.Proofs.CanonM.specCfg env.cfg) v = true →
      Schema.allPos (fun s v => !apNegZero s v) s v = true →
      Schema.allPos (fun s v => !apNonFinite s v) s v = true →
      Schema.allPos (apAccurate env.cfg.fr) s v = true →
      Schema.allPos (fun s v => !FromValue.apAnyMoved ext' s v) s v = true →
      Agree1w (deTyped env f t s) (FromValue.fromValue cfg' ext' s v) (T ext v) := by
  intro f s hs hfr t v hd hx hsh h1 h2 h3 h4
  have hcap : (SJ.Proofs.CanonM.specCfg env.cfg).ap = true := hapE
  have voka : ∀ v, Spec.WF.shapeOK (SJ.Proofs.CanonM.specCfg env.cfg) v = true → VOKa v :=
    fun v h => shapeA_of_shapeOK _ hcap v h
  have hcl := ((((closed_RC16x ext (SJ.Proofs.CanonM.specCfg env.cfg)).and (posClosed_allPos (fun s v => !apNegZero s v))).and
    (posClosed_allPos (fun s v => !apNonFinite s v))).and (posClosed_allPos (apAccurate env.cfg.fr))).and
    (posClosed_allPos (fun s v => !FromValue.apAnyMoved ext' s v))
  refine agree_core ext hext hflt cfg' ext' _ hcl ?_ f s hs hfr t v (voka v hsh).g hd
    ⟨⟨⟨⟨⟨hx, hsh, .inr (floatsPointed_of_noFloat ext v (noFloat_of_shapeA v (voka v hsh)))⟩, h1⟩, h2⟩, h3⟩, h4⟩
  exact {
    int := fun w v hr _ => by
      obtain ⟨⟨⟨⟨⟨_, hsh, _⟩, h1⟩, _⟩, _⟩, _⟩ := hr
      exact agree_int_ap ext hext hflt cfg' hap ext' w v (voka v hsh) (by simpa [Schema.allPos] using h1)
    f64 := fun v hr _ => by
      obtain ⟨⟨⟨⟨⟨_, hsh, _⟩, _⟩, h2⟩, h3⟩, _⟩ := hr
      exact (agree_f64_ap ext hext hflt cfg' hap ext' v (voka v hsh) (by simpa [Schema.allPos] using h2)
        (by simpa [Schema.allPos] using h3)).weak
    u8 := fun xs hr _ x hx => by
      obtain ⟨⟨⟨⟨⟨_, hsh, _⟩, _⟩, _⟩, _⟩, _⟩ := hr
      exact agree_int_ap ext hext hflt cfg' hap ext' .u8 x (voka_elem xs x hx (voka _ hsh)) (by
        cases x with
        | num n => cases n <;> simp [apNegZero, IntTy.signed]
        | _ => rfl)
    any := fun _ f t v hr _ hd => by
      obtain ⟨⟨⟨⟨⟨_, hsh, _⟩, _⟩, _⟩, _⟩, h4⟩ := hr
      exact (agree_any_ap ext hext hflt cfg' hap ext' f t v (voka v hsh) hd hsh (by simpa [Schema.allPos] using h4)).weak }

end SJ.Proofs.Typed
