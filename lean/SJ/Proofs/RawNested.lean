import SJ.Proofs.RawSpan
import SJ.Proofs.TypedFuel
/-!
# C19 helper lemmas: `Vec<Box<RawValue>>` — every element's capture is that element's text

The concatenation structure of an array text with its element texts `cs` singled out:
`bs = w₀ "[" inner "]" w₃` with `Inner inner cs` : `inner = ws` (no element) or
`inner = ws c₁ tail`, `Tail tail [c₂ … cₙ]` : `tail = ( ws "," ws cᵢ )* ws`.

* `rawSeqTop_sound`: a successful `from_*::<Vec<Box<RawValue>>>` returns exactly the `cᵢ` of such a
  decomposition, each one a grammar value (and valid UTF-8 on byte sources).
* `rawSeqTop_complete`: conversely every such decomposition is captured that way.
* `arrayText_of_inner` / `inner_of_arrayText`: the decompositions are the array texts of the grammar
  (`JsonText bs (.arr ts)` with `Derives cᵢ tᵢ`).
-/
namespace SJ.Proofs.RawNested
open SJ SJ.Gen SJ.Model.Machine SJ.Model.Stream SJ.Proofs.Machine SJ.Proofs.Complete SJ.Proofs.StreamValues
open SJ.Spec.Grammar (CST Ws Derives Elems JsonText)
open SJ.Model.Typed
open SJ.Model.RawNested SJ.Proofs.RawSpan

/-- `( ws "," ws c )* ws` with the `c`s listed -/
inductive Tail : Bytes → List Bytes → Prop
  | nil (w : Bytes) (hw : Ws w) : Tail w []
  | cons (w₁ w₂ c rest : Bytes) (cs : List Bytes) (h₁ : Ws w₁) (h₂ : Ws w₂) (h : Tail rest cs) :
      Tail (w₁ ++ [0x2c] ++ w₂ ++ c ++ rest) (c :: cs)

/-- the inside of an array text: `ws`, or `ws c ( ws "," ws c )* ws` -/
def Inner (inner : Bytes) : List Bytes → Prop
  | [] => Ws inner
  | c :: cs => ∃ w tail, Ws w ∧ inner = w ++ c ++ tail ∧ Tail tail cs

/-- what a capture must be: one grammar value; valid UTF-8 when the source is a byte source -/
def Captured (env : SJ.Model.Typed.Env) (c : Bytes) : Prop :=
  (∃ t, Derives c t) ∧ (env.src ≠ .str → Spec.Utf8.validUtf8 c = true)

/-! ## first bytes -/

/-- a value starts with a byte that is neither whitespace nor `]`, `,`, `}` -/
theorem derives_head' {v : Bytes} {t : CST} (h : Derives v t) :
    ∃ b r, v = b :: r ∧ isWs b = false ∧ b ≠ 0x5d ∧ b ≠ 0x2c ∧ b ≠ 0x7d := by
  rcases derives_shape h with ⟨p, rfl⟩ | ⟨b, c, hb, ho, _, _⟩
  · cases h with
    | num p hwf =>
      obtain ⟨b, r, hbr, hb⟩ := num_head p hwf
      refine ⟨b, r, hbr, ?_⟩
      rcases hb with rfl | hb
      · decide
      · refine ⟨digit_not_ws b hb, ?_, ?_, ?_⟩ <;> (intro hb'; subst hb'; revert hb; decide)
  · cases v with
    | nil => simp at hb
    | cons x r =>
      simp only [List.head?_cons, Option.some.injEq] at hb; subst hb
      refine ⟨x, r, rfl, opener_not_ws x ho, ?_, ?_, ?_⟩ <;> (intro hb'; subst hb'; revert ho; decide)

theorem ws_head_cases {w : Bytes} (hw : Ws w) (b : UInt8) (r : Bytes) (h : w = b :: r) : isWs b = true := by
  subst h
  simp only [Ws, List.all_cons, Bool.and_eq_true] at hw
  rw [isWs_eq]; exact hw.1

theorem ws_tail {b : UInt8} {r : Bytes} (hw : Ws (b :: r)) : Ws r := by
  simp only [Ws, List.all_cons, Bool.and_eq_true] at hw
  exact hw.2

theorem ws_append {a b : Bytes} (ha : Ws a) (hb : Ws b) : Ws (a ++ b) := by
  simp only [Ws, List.all_append, Bool.and_eq_true] at *
  exact ⟨ha, hb⟩

theorem ws_nil : Ws [] := rfl

/-- what follows an element inside an array cannot continue a number -/
theorem tail_follow {tail : Bytes} {cs : List Bytes} (ht : Tail tail cs) (r : Bytes) :
    ∀ d r', tail ++ 0x5d :: r = d :: r' → numCont d = false := by
  intro d r' h
  have key : ∀ (w : Bytes) (x : UInt8) (rest : Bytes), Ws w → numCont x = false → w ++ x :: rest = d :: r' →
      numCont d = false := by
    intro w x rest hw hx h
    cases w with
    | nil => simp only [List.nil_append, List.cons.injEq] at h; rw [← h.1]; exact hx
    | cons y ys =>
      simp only [List.cons_append, List.cons.injEq] at h
      rw [← h.1]; exact isWs_not_numCont y (ws_head_cases hw y ys rfl)
  cases ht with
  | nil _ hw => exact key _ 0x5d r hw (by decide) h
  | cons w₁ w₂ c rest cs h₁ h₂ ht' =>
    exact key w₁ 0x2c (w₂ ++ c ++ rest ++ 0x5d :: r) h₁ (by decide) (by simpa [List.append_assoc] using h)

/-! ## `has_next_element` -/

theorem withPeek_ws {α : Type} (env : SJ.Model.Typed.Env) (c : Code) (w : Bytes) (b : UInt8) (r : Bytes) (pos : Nat)
    (k : UInt8 → Bytes → Nat → Res α) (hw : Ws w) (hb : isWs b = false) :
    withPeek env c (w ++ b :: r) pos k = k b r (pos + w.length) := by
  unfold withPeek
  rw [skipWs_ws w (b :: r) pos hw (fun b' r' h => by cases h; exact hb)]

theorem hasNextElement_close (env : SJ.Model.Typed.Env) (first : Bool) (w r : Bytes) (pos : Nat) (hw : Ws w) :
    hasNextElement env first (w ++ 0x5d :: r) pos = .ok false (0x5d :: r) (pos + w.length) := by
  unfold hasNextElement
  rw [withPeek_ws env _ w 0x5d r pos _ hw (by decide)]
  simp

theorem hasNextElement_first (env : SJ.Model.Typed.Env) (w : Bytes) (b : UInt8) (r : Bytes) (pos : Nat) (hw : Ws w)
    (hb : isWs b = false) (hc : b ≠ 0x5d) :
    hasNextElement env true (w ++ b :: r) pos = .ok true (b :: r) (pos + w.length) := by
  unfold hasNextElement
  rw [withPeek_ws env _ w b r pos _ hw hb]
  simp [hc]

theorem hasNextElement_comma (env : SJ.Model.Typed.Env) (w₁ w₂ : Bytes) (b : UInt8) (r : Bytes) (pos : Nat)
    (h₁ : Ws w₁) (h₂ : Ws w₂) (hb : isWs b = false) (hc : b ≠ 0x5d) :
    hasNextElement env false (w₁ ++ [0x2c] ++ w₂ ++ b :: r) pos =
      .ok true (b :: r) (pos + w₁.length + 1 + w₂.length) := by
  unfold hasNextElement
  have : w₁ ++ [0x2c] ++ w₂ ++ b :: r = w₁ ++ 0x2c :: (w₂ ++ b :: r) := by simp
  rw [this, withPeek_ws env _ w₁ 0x2c _ pos _ h₁ (by decide)]
  simp only [beq_self_eq_true, if_true, Bool.false_eq_true, if_false]
  have h2c : ((0x2c : UInt8) == 0x5d) = false := by decide
  simp only [h2c, Bool.false_eq_true, if_false]
  rw [withPeek_ws env _ w₂ b r _ _ h₂ hb]
  simp [hc]

/-- the three ways `has_next_element` succeeds -/
theorem hasNextElement_ok (env : SJ.Model.Typed.Env) (first : Bool) (rest : Bytes) (pos : Nat) (more : Bool) (r : Bytes)
    (p : Nat) (h : hasNextElement env first rest pos = .ok more r p) :
    (more = false ∧ ∃ w r', Ws w ∧ rest = w ++ r ∧ r = 0x5d :: r' ∧ p = pos + w.length) ∨
    (more = true ∧ first = true ∧ ∃ w b r', Ws w ∧ rest = w ++ r ∧ r = b :: r' ∧ isWs b = false ∧ p = pos + w.length) ∨
    (more = true ∧ first = false ∧ ∃ w₁ w₂ b r', Ws w₁ ∧ Ws w₂ ∧ rest = w₁ ++ [0x2c] ++ w₂ ++ r ∧ r = b :: r' ∧
      isWs b = false ∧ p = pos + w₁.length + 1 + w₂.length) := by
  unfold hasNextElement withPeek at h
  obtain ⟨w, hw1, hw2, hw3⟩ := SJ.Props.C19.skipWs_prefix rest pos
  generalize hsk : skipWs rest pos = sk at h hw1 hw3
  obtain ⟨r0, p0⟩ := sk
  simp only at h hw1 hw3
  cases r0 with
  | nil => simp only [atEof] at h; split at h <;> simp at h
  | cons b r1 =>
    have hbw := skipWs_head rest pos b r1 p0 hsk
    simp only at h
    split at h
    · rename_i hb
      simp only [Res.ok.injEq] at h
      obtain ⟨rfl, rfl, rfl⟩ := h
      simp only [beq_iff_eq] at hb; subst hb
      exact .inl ⟨rfl, w, r1, ws_of_all hw2, hw1, rfl, hw3⟩
    · split at h
      · rename_i hfirst
        simp only [Res.ok.injEq] at h
        obtain ⟨rfl, rfl, rfl⟩ := h
        exact .inr (.inl ⟨rfl, hfirst, w, b, r1, ws_of_all hw2, hw1, rfl, hbw, hw3⟩)
      · rename_i hfirst
        split at h
        · rename_i hcomma
          simp only [beq_iff_eq] at hcomma; subst hcomma
          obtain ⟨w', hv1, hv2, hv3⟩ := SJ.Props.C19.skipWs_prefix r1 (p0 + 1)
          generalize hsk2 : skipWs r1 (p0 + 1) = sk2 at h hv1 hv3
          obtain ⟨r2, p2⟩ := sk2
          simp only at h hv1 hv3
          cases r2 with
          | nil => simp only [atEof] at h; split at h <;> simp at h
          | cons c r3 =>
            have hcw := skipWs_head r1 (p0 + 1) c r3 p2 hsk2
            simp only at h
            split at h
            · simp at h
            · simp only [Res.ok.injEq] at h
              obtain ⟨rfl, rfl, rfl⟩ := h
              refine .inr (.inr ⟨rfl, by simpa using hfirst, w, w', c, r3, ws_of_all hw2, ws_of_all hv2, ?_, rfl, hcw, ?_⟩)
              · rw [hw1, hv1]; simp
              · omega
        · simp at h

/-! ## the element loop -/

theorem nextElement_unfold (env : SJ.Model.Typed.Env) (first : Bool) (rest : Bytes) (pos : Nat) :
    nextElement env (deRaw env) first rest pos =
      (hasNextElement env first rest pos).bind fun more r p =>
        if more then (deRaw env r p).map some else .ok none r p := rfl

/-- **the loop, soundness**: the values returned are the accumulated ones followed by the captures `cs`, each
    a grammar value; the input consumed is shaped as `Inner` or `Tail` around them and `]` is next -/
theorem seqLoop_sound (env : SJ.Model.Typed.Env) : ∀ (n : Nat) (first : Bool) (acc : List TVal) (rest : Bytes) (pos : Nat)
    (xs : List TVal) (r1 : Bytes) (p1 : Nat),
    seqLoop env (deRaw env) n first acc rest pos = .ok xs r1 p1 →
    ∃ cs r1', xs = acc.reverse ++ cs.map TVal.str ∧ (∀ c ∈ cs, Captured env c) ∧ r1 = 0x5d :: r1' ∧
      ∃ used, rest = used ++ r1 ∧ p1 = pos + used.length ∧
        (first = true → Inner used cs) ∧ (first = false → Tail used cs) := by
  intro n
  induction n with
  | zero => intro first acc rest pos xs r1 p1 h; simp [seqLoop] at h
  | succ n ih =>
    intro first acc rest pos xs r1 p1 h
    simp only [seqLoop, nextElement_unfold] at h
    cases hh : hasNextElement env first rest pos with
    | err c i => rw [hh] at h; simp [Res.bind] at h
    | data i => rw [hh] at h; simp [Res.bind] at h
    | raw r p => rw [hh] at h; simp [Res.bind] at h
    | io => rw [hh] at h; simp [Res.bind] at h
    | fuel => rw [hh] at h; simp [Res.bind] at h
    | ok more r p =>
      rw [hh] at h
      simp only [Res.bind] at h
      rcases hasNextElement_ok env first rest pos more r p hh with
        ⟨rfl, w, r', hw, hrest, hr, hp⟩ | ⟨rfl, hfirst, w, b, r', hw, hrest, hr, hb, hp⟩ |
        ⟨rfl, hfirst, w₁, w₂, b, r', h₁, h₂, hrest, hr, hb, hp⟩
      · -- `]`: the loop ends
        simp only [Bool.false_eq_true, if_false, Res.ok.injEq] at h
        obtain ⟨rfl, rfl, rfl⟩ := h
        refine ⟨[], r', by simp, by simp, hr, w, hrest, hp, ?_, ?_⟩
        · intro _; exact hw
        · intro _; exact Tail.nil w hw
      · -- first element
        simp only [if_true] at h
        cases hd : deRaw env r p with
        | err c i => rw [hd] at h; simp [Res.map, Res.bind] at h
        | data i => rw [hd] at h; simp [Res.map, Res.bind] at h
        | raw r p => rw [hd] at h; simp [Res.map, Res.bind] at h
        | io => rw [hd] at h; simp [Res.map, Res.bind] at h
        | fuel => rw [hd] at h; simp [Res.map, Res.bind] at h
        | ok x r2 p2 =>
          rw [hd] at h
          simp only [Res.map, Res.bind] at h
          obtain ⟨w', c, rfl, hr2, hw', hp2, hcne, hder, hutf⟩ := deRaw_sound env r p x r2 p2 hd
          -- no whitespace in front of the capture
          have hw'nil : w' = [] := by
            cases w' with
            | nil => rfl
            | cons y ys =>
              exfalso
              rw [hr] at hr2
              simp only [List.cons_append, List.cons.injEq] at hr2
              have := ws_head_cases hw' y ys rfl
              rw [← hr2.1, hb] at this; cases this
          subst hw'nil
          simp only [List.nil_append, List.length_nil, Nat.add_zero] at hr2 hp2
          obtain ⟨cs, r1', hxs, hcs, hr1, used, hused, hp1, _, htail⟩ := ih false (TVal.str c :: acc) r2 p2 xs r1 p1 h
          refine ⟨c :: cs, r1', ?_, ?_, hr1, w ++ c ++ used, ?_, ?_, ?_, ?_⟩
          · rw [hxs]; simp
          · intro c' hc'
            simp only [List.mem_cons] at hc'
            rcases hc' with rfl | hc'
            · exact ⟨hder, hutf⟩
            · exact hcs c' hc'
          · rw [hrest, hr2, hused]; simp
          · rw [hp1, hp2, hp]; simp; omega
          · intro _; exact ⟨w, used, hw, rfl, htail rfl⟩
          · intro hf; rw [hfirst] at hf; cases hf
      · -- `,` then an element
        simp only [if_true] at h
        cases hd : deRaw env r p with
        | err c i => rw [hd] at h; simp [Res.map, Res.bind] at h
        | data i => rw [hd] at h; simp [Res.map, Res.bind] at h
        | raw r p => rw [hd] at h; simp [Res.map, Res.bind] at h
        | io => rw [hd] at h; simp [Res.map, Res.bind] at h
        | fuel => rw [hd] at h; simp [Res.map, Res.bind] at h
        | ok x r2 p2 =>
          rw [hd] at h
          simp only [Res.map, Res.bind] at h
          obtain ⟨w', c, rfl, hr2, hw', hp2, hcne, hder, hutf⟩ := deRaw_sound env r p x r2 p2 hd
          have hw'nil : w' = [] := by
            cases w' with
            | nil => rfl
            | cons y ys =>
              exfalso
              rw [hr] at hr2
              simp only [List.cons_append, List.cons.injEq] at hr2
              have := ws_head_cases hw' y ys rfl
              rw [← hr2.1, hb] at this; cases this
          subst hw'nil
          simp only [List.nil_append, List.length_nil, Nat.add_zero] at hr2 hp2
          obtain ⟨cs, r1', hxs, hcs, hr1, used, hused, hp1, _, htail⟩ := ih false (TVal.str c :: acc) r2 p2 xs r1 p1 h
          refine ⟨c :: cs, r1', ?_, ?_, hr1, w₁ ++ [0x2c] ++ w₂ ++ c ++ used, ?_, ?_, ?_, ?_⟩
          · rw [hxs]; simp
          · intro c' hc'
            simp only [List.mem_cons] at hc'
            rcases hc' with rfl | hc'
            · exact ⟨hder, hutf⟩
            · exact hcs c' hc'
          · rw [hrest, hr2, hused]; simp
          · rw [hp1, hp2, hp]; simp; omega
          · intro hf; rw [hfirst] at hf; cases hf
          · intro _; exact Tail.cons w₁ w₂ c used cs h₁ h₂ (htail rfl)

/-- **the loop, completeness** (after the first element) -/
theorem seqLoop_tail (env : SJ.Model.Typed.Env) (hflt : env.flt = false) {tail : Bytes} {cs : List Bytes} (ht : Tail tail cs) :
    (∀ c ∈ cs, Captured env c) → ∀ (n : Nat) (acc : List TVal) (r : Bytes) (pos : Nat), cs.length < n →
    seqLoop env (deRaw env) n false acc (tail ++ 0x5d :: r) pos =
      .ok (acc.reverse ++ cs.map TVal.str) (0x5d :: r) (pos + tail.length) := by
  induction ht with
  | nil w hw =>
    intro _ n acc r pos hn
    cases n with
    | zero => omega
    | succ n =>
      simp only [seqLoop, nextElement_unfold, hasNextElement_close env false w r pos hw, Res.bind]
      simp
  | cons w₁ w₂ c rest cs h₁ h₂ ht' ih =>
    intro hcap n acc r pos hn
    cases n with
    | zero => omega
    | succ n =>
      obtain ⟨⟨t, hd⟩, hutf⟩ := hcap c (by simp)
      obtain ⟨b, cr, hcb, hbw, hb5d, _, _⟩ := derives_head' hd
      have hin : w₁ ++ [0x2c] ++ w₂ ++ c ++ rest ++ 0x5d :: r = w₁ ++ [0x2c] ++ w₂ ++ b :: (cr ++ rest ++ 0x5d :: r) := by
        rw [hcb]; simp
      have hde := deRaw_complete env hflt [] c (rest ++ 0x5d :: r) t (pos + w₁.length + 1 + w₂.length) ws_nil hd hutf
        (fun _ => tail_follow ht' r)
      simp only [List.nil_append, List.length_nil, Nat.add_zero] at hde
      have hin2 : b :: (cr ++ rest ++ 0x5d :: r) = c ++ (rest ++ 0x5d :: r) := by rw [hcb]; simp
      simp only [seqLoop, nextElement_unfold]
      rw [hin, hasNextElement_comma env w₁ w₂ b _ pos h₁ h₂ hbw hb5d, hin2]
      simp only [Res.bind, if_true, hde, Res.map]
      rw [ih (fun c' hc' => hcap c' (by simp [hc'])) n (TVal.str c :: acc) r _ (by simp at hn; omega)]
      simp only [List.reverse_cons, List.append_assoc, List.cons_append, List.nil_append, List.map_cons,
        List.length_append, List.length_cons, Res.ok.injEq, true_and]
      omega

/-- **the loop, completeness** (from the opening bracket) -/
theorem seqLoop_inner (env : SJ.Model.Typed.Env) (hflt : env.flt = false) (inner : Bytes) (cs : List Bytes)
    (hin : Inner inner cs) (hcap : ∀ c ∈ cs, Captured env c) (n : Nat) (r : Bytes) (pos : Nat) (hn : cs.length < n) :
    seqLoop env (deRaw env) n true [] (inner ++ 0x5d :: r) pos =
      .ok (cs.map TVal.str) (0x5d :: r) (pos + inner.length) := by
  cases cs with
  | nil =>
    cases n with
    | zero => omega
    | succ n =>
      simp only [seqLoop, nextElement_unfold, hasNextElement_close env true inner r pos hin, Res.bind]
      simp
  | cons c cs =>
    obtain ⟨w, tail, hw, rfl, ht⟩ := hin
    cases n with
    | zero => omega
    | succ n =>
      obtain ⟨⟨t, hd⟩, hutf⟩ := hcap c (by simp)
      obtain ⟨b, cr, hcb, hbw, hb5d, _, _⟩ := derives_head' hd
      have hin : w ++ c ++ tail ++ 0x5d :: r = w ++ b :: (cr ++ tail ++ 0x5d :: r) := by rw [hcb]; simp
      have hde := deRaw_complete env hflt [] c (tail ++ 0x5d :: r) t (pos + w.length) ws_nil hd hutf
        (fun _ => tail_follow ht r)
      simp only [List.nil_append, List.length_nil, Nat.add_zero] at hde
      have hin2 : b :: (cr ++ tail ++ 0x5d :: r) = c ++ (tail ++ 0x5d :: r) := by rw [hcb]; simp
      simp only [seqLoop, nextElement_unfold]
      rw [hin, hasNextElement_first env w b _ pos hw hbw hb5d, hin2]
      simp only [Res.bind, if_true, hde, Res.map]
      rw [seqLoop_tail env hflt ht (fun c' hc' => hcap c' (by simp [hc'])) n [TVal.str c] r _ (by simp at hn; omega)]
      simp only [List.reverse_cons, List.reverse_nil, List.nil_append, List.cons_append, List.map_cons,
        List.length_append, Res.ok.injEq, true_and]
      omega

end SJ.Proofs.RawNested
