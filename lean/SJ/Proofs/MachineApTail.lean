import SJ.Proofs.MachineApTok
/-!
# `token_tail_accepts`, `token_tail_sound`, and the specific errors
-/
namespace SJ.Proofs.MachineAp
open SJ SJ.Gen SJ.Model.Machine SJ.Proofs.Sound
open SJ.Spec.Grammar (StrItem StrWF strBytes Ws IsNumber isHex surrogatesPairedStr isHighSurrogate isLowSurrogate uniVal)
open SJ.Spec.Denote (decodeItems)
open SJ.Spec.PrivateToken (TokenTail)
open SJ.Model.MachineAp (triggered liftStep ofMachine TPhase stepTok fromStr Fail)
open SJ.Proofs.Complete (Feeds sst scan_value step_quote_close)

/-- a string that decodes has its surrogate escapes paired -/
theorem paired_of_decode : ∀ (items : List StrItem) (dec : Bytes), decodeItems items = some dec →
    surrogatesPairedStr items = true
  | [], _, _ => rfl
  | .raw b :: rest, dec, h => by
    simp only [decodeItems, Option.map_eq_some_iff] at h
    obtain ⟨d, hd, _⟩ := h
    simpa [surrogatesPairedStr] using paired_of_decode rest d hd
  | .esc c :: rest, dec, h => by
    simp only [decodeItems, Option.map_eq_some_iff] at h
    obtain ⟨d, hd, _⟩ := h
    simpa [surrogatesPairedStr] using paired_of_decode rest d hd
  | .uni a b c d :: rest, dec, h => by
    unfold decodeItems at h
    unfold surrogatesPairedStr
    simp only at h ⊢
    split at h
    · rename_i hhi
      simp only [hhi, if_true]
      split at h
      · rename_i e f g hh rest'
        split at h
        · rename_i hlo
          simp only [Option.map_eq_some_iff] at h
          obtain ⟨d', hd', _⟩ := h
          simp [hlo, paired_of_decode rest' d' hd']
        · cases h
      · cases h
    · rename_i hhi
      simp only [hhi, Bool.false_eq_true, if_false]
      split at h
      · cases h
      · rename_i hlo
        simp only [hlo, Bool.false_eq_true, if_false]
        simp only [Option.map_eq_some_iff] at h
        obtain ⟨d', hd', _⟩ := h
        exact paired_of_decode rest d' hd'

/-! ## forwards: a well-shaped tail is read as the number -/

theorem tail_string (env : Env) (hv : env.tgt = .value) (fs : List Frame) (items : List StrItem) (txt : Bytes)
    (hwf : StrWF items = true) (hdec : decodeItems items = some txt)
    (hutf : env.src ≠ .str → Spec.Utf8.validUtf8 txt = true) (i : Nat) (r : Bytes) :
    arun env (.tok .val fs) i (strBytes items ++ r) =
      match fromStr txt with
      | .ok () => arun env (.tok (.endMap txt) fs) (i + (strBytes items).length) r
      | .error (c, k) => .custom c (lineCol txt k).1 (lineCol txt k).2 := by
  obtain ⟨dec, e', hd, hf⟩ := scan_value env hv [] false items hwf (paired_of_decode items txt hdec) [] false
  rw [hdec] at hd
  simp only [Option.some.injEq] at hd
  subst hd
  have hclose : stepStr env ⟨.str (sst (txt.reverse ++ []) false e'), []⟩ (sst (txt.reverse ++ []) false e') 0x22 =
      .next ⟨.done (.str txt), []⟩ := by
    apply stepStr_of_step
    rw [step_quote_close env [] (txt.reverse ++ []) e' (fun _ hs => by simpa using hutf hs)]
    simp [complete, hv]
  have h1 : strBytes items ++ r = 0x22 :: (items.flatMap StrItem.bytes ++ (0x22 :: r)) := by
    simp [strBytes]
  rw [h1, arun_cons_ok env _ _ i 0x22 _ (step_val_quote env fs)]
  have hf' : Feeds env ⟨.str {}, []⟩ (items.flatMap StrItem.bytes) ⟨.str (sst (txt.reverse ++ []) false e'), []⟩ := hf
  rw [str_feed env fs _ _ _ (i + 1) _ hf']
  have hstep := step_str_close env fs _ txt hclose
  cases hfs : fromStr txt with
  | ok u =>
    cases u
    rw [hfs] at hstep
    simp only at hstep
    rw [arun_cons_ok env _ _ _ 0x22 r hstep]
    simp only
    congr 1
    simp [strBytes]; omega
  | error e =>
    obtain ⟨c, k⟩ := e
    rw [hfs] at hstep
    simp only at hstep
    show Model.MachineAp.run env _ _ (0x22 :: r) = _
    unfold Model.MachineAp.run
    rw [show Model.MachineAp.step env _ 0x22 = _ from hstep]

theorem val_ws_stable (env : Env) (fs : List Frame) : ∀ b, isWs b = true → astep env (.tok .val fs) b = .ok (.tok .val fs) :=
  fun b hb => step_val_ws env fs b hb

/-- **a well-shaped tail is read as the number `txt`** — from the state right after a first key equal to the token, in
    any context `fs` -/
theorem token_tail_accepts (env : Env) (hap : env.cfg.ap = true) (hv : env.tgt = .value) (fs : List Frame)
    (rest txt rest' : Bytes) (h : TokenTail rest txt rest') (i : Nat) :
    arun env (.base ⟨.afterKey, .obj [] Model.MachineAp.token :: fs⟩) i rest =
      arun env (.base (complete fs (.num (.lit txt)))) (i + (rest.length - rest'.length)) rest' := by
  obtain ⟨w₁, w₂, items, w₃, rfl, hw₁, hw₂, hw₃, hwf, hdec, hnum⟩ := h
  have hfs : fromStr txt = .ok () := (fromStr_ok_iff txt).mpr hnum
  simp only [List.append_assoc]
  rw [arun_ws env _ (fun b hb => step_afterKey_ws env _ b hb) w₁ i _ hw₁]
  rw [List.singleton_append, arun_cons_ok env _ _ _ 0x3a _ (step_afterKey_colon env hap hv fs)]
  rw [arun_ws env _ (val_ws_stable env fs) w₂ _ _ hw₂]
  rw [tail_string env hv fs items txt hwf hdec (fun _ => isNumber_utf8 txt hnum), hfs]
  simp only
  rw [arun_ws env _ (fun b hb => step_endMap_ws env fs txt b hb) w₃ _ _ hw₃]
  rw [List.singleton_append, arun_cons_ok env _ _ _ 0x7d _ (step_endMap_close env fs txt)]
  congr 1
  simp; omega

/-! ## backwards: an accepted tail is well-shaped -/

theorem arun_nil (env : Env) (s : ASt) (i : Nat) :
    arun env s i [] = (match Model.MachineAp.finish env s with
      | .ok v => .ok v
      | .error (.err c) => .err c i
      | .error .data => .data i) := by
  show Model.MachineAp.run env s i [] = _
  unfold Model.MachineAp.run; rfl

/-- `peek_invalid_type` never succeeds -/
theorem other_not_ok (env : Env) (fs : List Frame) : ∀ (bs : Bytes) (inner : St) (i : Nat) (v : JV),
    arun env (.tok (.other inner) fs) i bs ≠ .ok v
  | [], inner, i, v, h => by
    rw [arun_nil] at h
    simp only [Model.MachineAp.finish] at h
    cases hf : finish env inner <;> rw [hf] at h <;> cases h
  | b :: bs, inner, i, v, h => by
    obtain ⟨s', hs, hr⟩ := arun_cons_ok' env _ i b bs v h
    rw [step_other] at hs
    cases h1 : step1 env inner b with
    | next s1 =>
      rw [h1] at hs
      simp only at hs
      split at hs
      · cases hs
      · simp only [Except.ok.injEq] at hs
        subst hs
        exact other_not_ok env fs bs s1 (i + 1) v hr
    | again s1 => rw [h1] at hs; cases hs
    | err c a => rw [h1] at hs; cases hs

theorem endMap_sound (env : Env) (fs : List Frame) (txt : Bytes) : ∀ (bs : Bytes) (i : Nat) (v : JV),
    arun env (.tok (.endMap txt) fs) i bs = .ok v →
    ∃ w r, bs = w ++ 0x7d :: r ∧ Ws w ∧ arun env (.base (complete fs (.num (.lit txt)))) (i + w.length + 1) r = .ok v
  | [], i, v, h => by rw [arun_nil] at h; cases h
  | b :: bs, i, v, h => by
    obtain ⟨s', hs, hr⟩ := arun_cons_ok' env _ i b bs v h
    by_cases hw : isWs b = true
    · rw [step_endMap_ws env fs txt b hw] at hs
      simp only [Except.ok.injEq] at hs; subst hs
      obtain ⟨w, r, rfl, hw', hr'⟩ := endMap_sound env fs txt bs (i + 1) v hr
      refine ⟨b :: w, r, rfl, ?_, ?_⟩
      · simp only [Ws, List.all_cons, Bool.and_eq_true]
        exact ⟨by rw [← isWs_eq]; exact hw, hw'⟩
      · rw [← hr']; congr 1; simp; omega
    · have hw' : isWs b = false := by simpa using hw
      by_cases h1 : (b == 0x7d) = true
      · have : b = 0x7d := by simpa using h1
        subst this
        rw [step_endMap_close env fs txt] at hs
        simp only [Except.ok.injEq] at hs; subst hs
        exact ⟨[], bs, rfl, by simp [Ws], by simpa using hr⟩
      · by_cases h2 : (b == 0x2c) = true
        · have : b = 0x2c := by simpa using h2
          subst this
          rw [step_endMap_comma env fs txt] at hs; cases hs
        · rw [step_endMap_other env fs txt b hw' (by simpa using h1) (by simpa using h2)] at hs; cases hs

theorem str_sound (env : Env) (hv : env.tgt = .value) (fs : List Frame) : ∀ (bs : Bytes) (st : StrSt)
    (items : List StrItem) (tail : Bytes) (i : Nat) (v : JV), st.isKey = false → StrInv env st items tail →
    arun env (.tok (.str st) fs) i bs = .ok v →
    ∃ cont items' txt r, bs = cont ++ 0x22 :: r ∧ items.flatMap StrItem.bytes ++ tail ++ cont = items'.flatMap StrItem.bytes ∧
      StrWF items' = true ∧ decodeItems items' = some txt ∧ fromStr txt = .ok () ∧
      arun env (.tok (.endMap txt) fs) (i + cont.length + 1) r = .ok v
  | [], st, items, tail, i, v, _, _, h => by rw [arun_nil] at h; cases h
  | b :: bs, st, items, tail, i, v, hk, hinv, h => by
    obtain ⟨s', hs, hr⟩ := arun_cons_ok' env _ i b bs v h
    rw [step_str] at hs
    cases h1 : stepStr env ⟨.str st, []⟩ st b with
    | err c a => rw [h1] at hs; cases hs
    | again s1 => rw [h1] at hs; cases hs
    | next s1 =>
      rw [h1] at hs
      simp only at hs
      rcases stepStr_next env _ st b s1 items tail hinv h1 with
        ⟨st', items', tail', rfl, hk', hinv', hflat⟩ | ⟨hb, htail, hend⟩
      · simp only [Except.ok.injEq] at hs
        subst hs
        obtain ⟨cont, items'', txt, r, rfl, hfl, hwf, hdec, hfs, hrun⟩ :=
          str_sound env hv fs bs st' items' tail' (i + 1) v (hk' ▸ hk) hinv' hr
        refine ⟨b :: cont, items'', txt, r, rfl, ?_, hwf, hdec, hfs, ?_⟩
        · rw [← hfl, hflat]; simp
        · rw [← hrun]; congr 1; simp; omega
      · subst hb htail
        obtain ⟨_, rfl⟩ := endStr_scratch env _ st s1 hend
        simp only [hv, if_true] at hs
        have hd : decodeItems items = some st.out.reverse := (hinv.sv.val hv).1
        cases hfs : fromStr st.out.reverse with
        | error e => obtain ⟨c, k⟩ := e; rw [hfs] at hs; cases hs
        | ok u =>
          cases u
          rw [hfs] at hs
          simp only [Except.ok.injEq] at hs
          subst hs
          exact ⟨[], items, st.out.reverse, bs, rfl, by simp, hinv.sv.wf, hd, hfs, by simpa using hr⟩

theorem val_sound (env : Env) (hv : env.tgt = .value) (fs : List Frame) : ∀ (bs : Bytes) (i : Nat) (v : JV),
    arun env (.tok .val fs) i bs = .ok v →
    ∃ w items txt r, bs = w ++ strBytes items ++ r ∧ Ws w ∧ StrWF items = true ∧ decodeItems items = some txt ∧
      fromStr txt = .ok () ∧ arun env (.tok (.endMap txt) fs) (i + w.length + (strBytes items).length) r = .ok v
  | [], i, v, h => by rw [arun_nil] at h; cases h
  | b :: bs, i, v, h => by
    obtain ⟨s', hs, hr⟩ := arun_cons_ok' env _ i b bs v h
    by_cases hw : isWs b = true
    · rw [step_val_ws env fs b hw] at hs
      simp only [Except.ok.injEq] at hs; subst hs
      obtain ⟨w, items, txt, r, rfl, hw', hwf, hdec, hfs, hrun⟩ := val_sound env hv fs bs (i + 1) v hr
      refine ⟨b :: w, items, txt, r, by simp, ?_, hwf, hdec, hfs, ?_⟩
      · simp only [Ws, List.all_cons, Bool.and_eq_true]
        exact ⟨by rw [← isWs_eq]; exact hw, hw'⟩
      · rw [← hrun]; congr 1; simp; omega
    · have hw' : isWs b = false := by simpa using hw
      by_cases hq : (b == 0x22) = true
      · have : b = 0x22 := by simpa using hq
        subst this
        rw [step_val_quote env fs] at hs
        simp only [Except.ok.injEq] at hs; subst hs
        obtain ⟨cont, items, txt, r, rfl, hfl, hwf, hdec, hfs, hrun⟩ :=
          str_sound env hv fs bs {} [] [] (i + 1) v rfl (StrInv.init env false) hr
        simp only [List.flatMap_nil, List.nil_append] at hfl
        subst hfl
        refine ⟨[], items, txt, r, by simp [strBytes], by simp [Ws], hwf, hdec, hfs, ?_⟩
        rw [← hrun]; congr 1; simp [strBytes]; omega
      · exfalso
        have hq' : (b == 0x22) = false := by simpa using hq
        by_cases hc : (b == 0x5b || b == 0x7b) = true
        · rw [step_val_container env fs b hc] at hs; cases hs
        · rw [step_val_scalar env fs b hw' hq' (by simpa using hc)] at hs
          cases h1 : startValue env ⟨.val .top, []⟩ b with
          | next s1 =>
            rw [h1] at hs
            simp only [Except.ok.injEq] at hs
            subst hs
            exact other_not_ok env fs bs s1 (i + 1) v hr
          | again s1 => rw [h1] at hs; cases hs
          | err c a => rw [h1] at hs; cases hs

theorem afterKey_sound (env : Env) (hap : env.cfg.ap = true) (hv : env.tgt = .value) (fs : List Frame) :
    ∀ (bs : Bytes) (i : Nat) (v : JV),
    arun env (.base ⟨.afterKey, .obj [] Model.MachineAp.token :: fs⟩) i bs = .ok v →
    ∃ w r, bs = w ++ 0x3a :: r ∧ Ws w ∧ arun env (.tok .val fs) (i + w.length + 1) r = .ok v
  | [], i, v, h => by rw [arun_nil] at h; cases h
  | b :: bs, i, v, h => by
    obtain ⟨s', hs, hr⟩ := arun_cons_ok' env _ i b bs v h
    by_cases hw : isWs b = true
    · rw [step_afterKey_ws env _ b hw] at hs
      simp only [Except.ok.injEq] at hs; subst hs
      obtain ⟨w, r, rfl, hw', hrun⟩ := afterKey_sound env hap hv fs bs (i + 1) v hr
      refine ⟨b :: w, r, rfl, ?_, ?_⟩
      · simp only [Ws, List.all_cons, Bool.and_eq_true]
        exact ⟨by rw [← isWs_eq]; exact hw, hw'⟩
      · rw [← hrun]; congr 1; simp; omega
    · have hw' : isWs b = false := by simpa using hw
      by_cases hc : (b == 0x3a) = true
      · have : b = 0x3a := by simpa using hc
        subst this
        rw [step_afterKey_colon env hap hv fs] at hs
        simp only [Except.ok.injEq] at hs; subst hs
        exact ⟨[], bs, rfl, by simp [Ws], by simpa using hr⟩
      · rw [step_afterKey_other env _ b hw' (by simpa using hc)] at hs; cases hs

/-- **whatever is accepted after a first key equal to the token is a well-shaped tail**, and the run continues with the
    number in place of the object -/
theorem token_tail_sound (env : Env) (hap : env.cfg.ap = true) (hv : env.tgt = .value) (fs : List Frame)
    (rest : Bytes) (i : Nat) (v : JV)
    (h : arun env (.base ⟨.afterKey, .obj [] Model.MachineAp.token :: fs⟩) i rest = .ok v) :
    ∃ txt rest', TokenTail rest txt rest' ∧
      arun env (.base (complete fs (.num (.lit txt)))) (i + (rest.length - rest'.length)) rest' = .ok v := by
  obtain ⟨w₁, r₁, rfl, hw₁, h1⟩ := afterKey_sound env hap hv fs rest i v h
  obtain ⟨w₂, items, txt, r₂, rfl, hw₂, hwf, hdec, hfs, h2⟩ := val_sound env hv fs r₁ _ v h1
  obtain ⟨w₃, r₃, rfl, hw₃, h3⟩ := endMap_sound env fs txt r₂ _ v h2
  refine ⟨txt, r₃, ⟨w₁, w₂, items, w₃, by simp, hw₁, hw₂, hw₃, hwf, hdec, (fromStr_ok_iff txt).mp hfs⟩, ?_⟩
  rw [← h3]; congr 1; simp; omega

end SJ.Proofs.MachineAp
