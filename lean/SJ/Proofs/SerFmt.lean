import SJ.Model.Ser
import SJ.Spec.Image
/-!
# C03 helper lemmas, part 1: what each `Formatter` method writes, formatter-independently

`sepOf f` / `gapOf f` are the two parameters of the structural printer `Spec.Image.layoutWith` that
correspond to a formatter; `Dep f st n` says "as far as the formatter can tell, the nesting depth is
`n`" and `HasV` / `NoV` abstract `has_value`. Every lemma is proved by cases on the formatter, with
the literal byte strings coming from `SJ.Gen.Ser` (so a changed literal in the source breaks them).
-/
namespace SJ.Proofs.SerFmt
open SJ SJ.Model.Ser SJ.Spec.Image

def sepOf : Fmt → Nat → Bytes
  | .compact, _ => []
  | .pretty ind, n => newline ind n

def gapOf : Fmt → Bytes
  | .compact => []
  | .pretty _ => [0x20]

/-- the depth the formatter believes it is at (`CompactFormatter` has no opinion) -/
def Dep : Fmt → FState → Nat → Prop
  | .compact, _, _ => True
  | .pretty _, st, n => st.currentIndent = n ∧ st.underflow = false

def HasV : Fmt → FState → Prop
  | .compact, _ => True
  | .pretty _, st => st.hasValue = true

def NoV : Fmt → FState → Prop
  | .compact, _ => True
  | .pretty _, st => st.hasValue = false

theorem flatten_indentBufs (n : Nat) (s : Bytes) :
    (indentBufs n s).flatten = (List.replicate n s).flatten := rfl

/-! ### literals (these are the facts that tie the proofs to `SJ.Gen.Ser`) -/
theorem gen_lits :
    Gen.cBeginArray = [0x5b] ∧ Gen.cEndArray = [0x5d] ∧ Gen.cBeginObject = [0x7b] ∧ Gen.cEndObject = [0x7d] ∧
    Gen.cArrayValueRest = [0x2c] ∧ Gen.cObjectKeyRest = [0x2c] ∧ Gen.cObjectValue = [0x3a] ∧
    Gen.pBeginArray = [0x5b] ∧ Gen.pEndArray = [0x5d] ∧ Gen.pBeginObject = [0x7b] ∧ Gen.pEndObject = [0x7d] ∧
    Gen.pEndArrayNl = [0x0a] ∧ Gen.pEndObjectNl = [0x0a] ∧
    Gen.pArrayValueFirst = [0x0a] ∧ Gen.pArrayValueRest = [0x2c, 0x0a] ∧
    Gen.pObjectKeyFirst = [0x0a] ∧ Gen.pObjectKeyRest = [0x2c, 0x0a] ∧ Gen.pObjectValue = [0x3a, 0x20] ∧
    Gen.serNull = litNull ∧ Gen.serTrue = litTrue ∧ Gen.serFalse = litFalse ∧
    Gen.serBeginString = [0x22] ∧ Gen.serEndString = [0x22] := by
  refine ⟨rfl, rfl, rfl, rfl, rfl, rfl, rfl, rfl, rfl, rfl, rfl, rfl, rfl, rfl, rfl, rfl, rfl, rfl, rfl, rfl, rfl, rfl, rfl⟩

/-! ### begin / end of containers -/

theorem beginArray_bufs (f : Fmt) (st : FState) : (beginArray f st).bufs.flatten = [0x5b] := by
  cases f <;> rfl
theorem beginArray_dep (f : Fmt) (st : FState) (n : Nat) (h : Dep f st n) :
    Dep f (beginArray f st).st (n + 1) := by
  cases f with
  | compact => trivial
  | pretty ind => simp only [Dep] at h ⊢; simp [beginArray, h]
theorem beginArray_nov (f : Fmt) (st : FState) : NoV f (beginArray f st).st := by
  cases f <;> simp [NoV, beginArray]

theorem beginObject_bufs (f : Fmt) (st : FState) : (beginObject f st).bufs.flatten = [0x7b] := by
  cases f <;> rfl
theorem beginObject_dep (f : Fmt) (st : FState) (n : Nat) (h : Dep f st n) :
    Dep f (beginObject f st).st (n + 1) := by
  cases f with
  | compact => trivial
  | pretty ind => simp only [Dep] at h ⊢; simp [beginObject, h]
theorem beginObject_nov (f : Fmt) (st : FState) : NoV f (beginObject f st).st := by
  cases f <;> simp [NoV, beginObject]

theorem endArray_dep (f : Fmt) (st : FState) (n : Nat) (h : Dep f st (n + 1)) :
    Dep f (endArray f st).st n := by
  cases f with
  | compact => trivial
  | pretty ind => simp only [Dep] at h ⊢; simp [endArray, FState.decIndent, h]
theorem endArray_hasv (f : Fmt) (st : FState) (n : Nat) (h : Dep f st (n + 1)) (hv : HasV f st) :
    (endArray f st).bufs.flatten = sepOf f n ++ [0x5d] := by
  cases f with
  | compact => rfl
  | pretty ind =>
    simp only [Dep, HasV] at h hv
    simp [endArray, FState.decIndent, h, hv, sepOf, newline, indentBufs, gen_lits]
theorem endArray_nov (f : Fmt) (st : FState) (hv : NoV f st) :
    (endArray f st).bufs.flatten = [0x5d] := by
  cases f with
  | compact => rfl
  | pretty ind =>
    simp only [NoV] at hv
    simp [endArray, FState.decIndent, hv, gen_lits]

theorem endObject_dep (f : Fmt) (st : FState) (n : Nat) (h : Dep f st (n + 1)) :
    Dep f (endObject f st).st n := by
  cases f with
  | compact => trivial
  | pretty ind => simp only [Dep] at h ⊢; simp [endObject, FState.decIndent, h]
theorem endObject_hasv (f : Fmt) (st : FState) (n : Nat) (h : Dep f st (n + 1)) (hv : HasV f st) :
    (endObject f st).bufs.flatten = sepOf f n ++ [0x7d] := by
  cases f with
  | compact => rfl
  | pretty ind =>
    simp only [Dep, HasV] at h hv
    simp [endObject, FState.decIndent, h, hv, sepOf, newline, indentBufs, gen_lits]
theorem endObject_nov (f : Fmt) (st : FState) (hv : NoV f st) :
    (endObject f st).bufs.flatten = [0x7d] := by
  cases f with
  | compact => rfl
  | pretty ind =>
    simp only [NoV] at hv
    simp [endObject, FState.decIndent, hv, gen_lits]

/-! ### element / key / value hooks -/

theorem beginArrayValue_bufs (f : Fmt) (first : Bool) (st : FState) (n : Nat) (h : Dep f st n) :
    (beginArrayValue f first st).bufs.flatten = (if first then [] else [0x2c]) ++ sepOf f n := by
  cases f with
  | compact => cases first <;> rfl
  | pretty ind =>
    simp only [Dep] at h
    cases first <;> simp [beginArrayValue, h, sepOf, newline, indentBufs, gen_lits]
theorem beginArrayValue_st (f : Fmt) (first : Bool) (st : FState) : (beginArrayValue f first st).st = st := by
  cases f <;> rfl

theorem beginObjectKey_bufs (f : Fmt) (first : Bool) (st : FState) (n : Nat) (h : Dep f st n) :
    (beginObjectKey f first st).bufs.flatten = (if first then [] else [0x2c]) ++ sepOf f n := by
  cases f with
  | compact => cases first <;> rfl
  | pretty ind =>
    simp only [Dep] at h
    cases first <;> simp [beginObjectKey, h, sepOf, newline, indentBufs, gen_lits]
theorem beginObjectKey_st (f : Fmt) (first : Bool) (st : FState) : (beginObjectKey f first st).st = st := by
  cases f <;> rfl

theorem endArrayValue_bufs (f : Fmt) (st : FState) : (endArrayValue f st).bufs = [] := by cases f <;> rfl
theorem endArrayValue_dep (f : Fmt) (st : FState) (n : Nat) (h : Dep f st n) : Dep f (endArrayValue f st).st n := by
  cases f with
  | compact => trivial
  | pretty ind => exact h
theorem endArrayValue_hasv (f : Fmt) (st : FState) : HasV f (endArrayValue f st).st := by
  cases f <;> simp [HasV, endArrayValue]

theorem endObjectValue_bufs (f : Fmt) (st : FState) : (endObjectValue f st).bufs = [] := by cases f <;> rfl
theorem endObjectValue_dep (f : Fmt) (st : FState) (n : Nat) (h : Dep f st n) : Dep f (endObjectValue f st).st n := by
  cases f with
  | compact => trivial
  | pretty ind => exact h
theorem endObjectValue_hasv (f : Fmt) (st : FState) : HasV f (endObjectValue f st).st := by
  cases f <;> simp [HasV, endObjectValue]

theorem endObjectKey_bufs (f : Fmt) (st : FState) : (endObjectKey f st).bufs = [] := rfl
theorem endObjectKey_st (f : Fmt) (st : FState) : (endObjectKey f st).st = st := rfl

theorem beginObjectValue_bufs (f : Fmt) (st : FState) :
    (beginObjectValue f st).bufs.flatten = [0x3a] ++ gapOf f := by cases f <;> rfl
theorem beginObjectValue_st (f : Fmt) (st : FState) : (beginObjectValue f st).st = st := by cases f <;> rfl

end SJ.Proofs.SerFmt
