import SJ.Proofs.LexMathBh
/-!
# The limb-level `bhcomp` does not panic inside the exponent range it is called with

`imul_pow5` has a second route (binary expansion over the large powers, `large::imul`, Karatsuba) that can panic. It is
taken only when `x.len() + POW5[⌊log2 n⌋].len() ≥ 2·KARATSUBA_CUTOFF = 64`. In `bhcomp` the operand is either the
mantissa (at most `MAX_DIGITS` decimal digits: 40 limbs) with `0 ≤ n < 1024` (beyond that the value exceeds every
finite float and `fallback_path` has already returned infinity), or the one-limb `b + h` with `n < 2048` (beyond that
the value is below `10^-1280`): both stay on the first route. `hi64` is applied to a normalised vector. Hence no panic.
-/
namespace SJ.Proofs.LexMath
open SJ SJ.Gen SJ.Model.Num SJ.Model.Lexical SJ.Model.LexMath SJ.Model.LexBhLimbs SJ.Proofs.NumInt SJ.Proofs.LexMathTables

theorem length_le_of_value_lt {x : Limbs} {n : Nat} (hn : Normal x) (h : value x < 2 ^ (64 * n)) : x.length ≤ n := by
  by_contra hc
  have hne : x ≠ [] := by intro e; subst e; simp at hc
  have h1 := value_ge_of_normal hn hne
  have : (2 : Nat) ^ (64 * n) ≤ 2 ^ (64 * (x.length - 1)) := Nat.pow_le_pow_right (by norm_num) (by omega)
  omega

theorem pow5_len_19 {i : Nat} (hi : i < 10) {lp : Limbs} (h : largePow5Limbs[i]? = some lp) : lp.length ≤ 19 := by
  have := List.all_eq_true.mp large_pow5_short.1 i (List.mem_range.mpr hi)
  rw [h] at this; simpa using this

theorem pow5_len_38 {i : Nat} (hi : i < 11) {lp : Limbs} (h : largePow5Limbs[i]? = some lp) : lp.length ≤ 38 := by
  have := List.all_eq_true.mp large_pow5_short.2 i (List.mem_range.mpr hi)
  rw [h] at this; simpa using this

/-- the mantissa `parse_mantissa` builds has at most `MAX_DIGITS` decimal digits -/
theorem parseMantissa_lt (c : FC) (hmax : 2 ≤ c.maxDigits) (integer fraction : Bytes) (hdi : IsDigits integer)
    (hdf : IsDigits fraction) : parseMantissa c integer fraction < 10 ^ c.maxDigits := by
  have hlen : pow10_64.length - 2 = 18 := by rw [consts.2.2.2.2.1]
  have hd : IsDigits (integer ++ fraction) := fun x hx => by
    rcases List.mem_append.mp hx with h | h
    · exact hdi x h
    · exact hdf x h
  unfold parseMantissa
  rw [hlen]
  simp only []
  obtain ⟨e1, e2, e3, e4⟩ := SJ.Proofs.LexBh.parseMantissaLoop_spec (c.maxDigits - 1) (integer ++ fraction) 0 0 0 0
    (by omega) (by omega) (fun _ => rfl)
  generalize parseMantissaLoop (c.maxDigits - 1) 18 (integer ++ fraction) 0 0 0 0 = r at *
  obtain ⟨counter, v, i, result⟩ := r
  simp only [] at e1 e2 e3 e4 ⊢
  simp only [Nat.zero_mul, Nat.zero_add, Nat.sub_zero, Nat.add_zero] at e1 e2
  have hres : (if (counter != 0) = true then result * pow10_64.getD counter 0 + v else result) =
      natOfDigits ((integer ++ fraction).take (c.maxDigits - 1)) := by
    by_cases hc0 : counter = 0
    · have hv := e4 hc0
      subst hc0
      simp only [bne_self_eq_false, Bool.false_eq_true, if_false]
      rw [← e1, hv]; simp
    · have : (counter != 0) = true := by simpa using hc0
      rw [if_pos this, SJ.Proofs.LexBh.pow10_64_get counter (by omega), e1]
  rw [hres]
  have hN := SJ.Proofs.LexBh.natOfDigits_lt ((integer ++ fraction).take (c.maxDigits - 1))
    (fun x hx => hd x (List.mem_of_mem_take hx))
  have hk : ((integer ++ fraction).take (c.maxDigits - 1)).length ≤ c.maxDigits - 1 := by
    rw [List.length_take]; exact Nat.min_le_left _ _
  have hpow : (10 : Nat) ^ ((integer ++ fraction).take (c.maxDigits - 1)).length ≤ 10 ^ (c.maxDigits - 1) :=
    Nat.pow_le_pow_right (by norm_num) hk
  have hsucc : (10 : Nat) ^ c.maxDigits = 10 ^ (c.maxDigits - 1) * 10 := by
    rw [← Nat.pow_succ]; congr 1; omega
  have hP : 0 < (10 : Nat) ^ (c.maxDigits - 1) := Nat.pow_pos (by norm_num)
  split
  · split <;> omega
  · omega

theorem largeAtofL_total (c : FC) (m : Limbs) (e : Int) (hv : Valid m) (hn : Normal m) (hl : m.length ≤ 40)
    (he0 : 0 ≤ e) (he : e < 1024) : ∃ r, largeAtofL c m e = some r := by
  unfold largeAtofL
  rw [asU32_of_nonneg he0 (by omega)]
  have hlt : e.toNat < 1024 := by omega
  obtain ⟨w, hw⟩ := small_imulPow5_total (x := m) (n := e.toNat) (by omega) (fun lp hlp => by
    by_cases h0 : e.toNat = 0
    · rw [h0] at hlp
      have := pow5_len_19 (i := Nat.log2 0) (by decide) hlp
      rw [consts.2.1]; omega
    · have hlog : Nat.log2 e.toNat < 10 := (Nat.log2_lt h0).mpr (by simpa using hlt)
      have := pow5_len_19 hlog hlp
      rw [consts.2.1]; omega)
  have ⟨a1, a2, a3⟩ := small_imulPow5_some hv hw
  have ⟨b1, b2, b3⟩ := math_imulPow2_spec w e.toNat a2
  have hhi := hi64_refines _ b2 (b3 (a3 hn))
  have hbig : Math.imulPow10 m e.toNat = some (Math.imulPow2 w e.toNat) := by
    simp [Math.imulPow10, Math.imulPow5, hw]
  rw [hbig]
  simp only [Option.bind_eq_bind, Option.bind_some, hhi]
  exact ⟨_, rfl⟩

theorem smallAtofL_total (c : FC) (m : Limbs) (e : Int) (f : Nat) (he : e < 0) (he2 : -2048 < e) :
    ∃ r, smallAtofL c m e f = some r := by
  unfold smallAtofL
  have hm64 : (bhExtended c f).mant < 2 ^ 64 := by
    unfold bhExtended; exact Nat.mod_lt _ (Nat.two_pow_pos 64)
  have ⟨_, _, _, f4⟩ := math_fromU64_spec _ hm64
  have hne : (-e != 0) = true := by simp; omega
  have hlt : (-e).toNat < 2048 := by omega
  have h0 : (-e).toNat ≠ 0 := by omega
  obtain ⟨w, hw⟩ := small_imulPow5_total (x := Math.fromU64 (bhExtended c f).mant) (n := (-e).toNat) (by omega)
    (fun lp hlp => by
      have hlog : Nat.log2 (-e).toNat < 11 := (Nat.log2_lt h0).mpr (by simpa using hlt)
      have := pow5_len_38 hlog hlp
      rw [consts.2.1]; omega)
  simp only [hne, if_true, asU32_of_nonneg (show (0 : Int) ≤ -e by omega) (show -e < 2 ^ 32 by omega), Math.imulPow5, hw,
    Option.bind_eq_bind, Option.bind_some]
  split <;> exact ⟨_, rfl⟩

/-- `bhcomp`'s `scaled_exponent` -/
def bhScaled (c : FC) (integer fraction : Bytes) (exponent : Int) : Int :=
  let digitsStart := if integer.length == 0 then (fraction.takeWhile (· == 0x30)).length else 0
  scientificExponent exponent integer.length digitsStart + 1 -
    ((min c.maxDigits (integer.length + fraction.length - digitsStart) : Nat) : Int)

/-- **no panic in range.** For digit strings with a non-zero mantissa and `-2048 < scaled_exponent < 1024` the
    limb-level `bhcomp` returns. -/
theorem bhcompL_total (single : Bool) (b : Nat) (integer fraction : Bytes) (exponent : Int) (hdi : IsDigits integer)
    (hdf : IsDigits fraction) (hm : bhMantissa (fc single) integer fraction ≠ 0)
    (h1 : -2048 < bhScaled (fc single) integer fraction exponent) (h2 : bhScaled (fc single) integer fraction exponent < 1024) :
    ∃ r, bhcompL (fc single) b integer fraction exponent = some r := by
  unfold bhcompL
  unfold bhMantissa at hm
  unfold bhScaled at h1 h2
  simp only [] at h1 h2 ⊢
  generalize hfr : (if (integer.length == 0) = true then
      ((fraction.takeWhile (· == 0x30)).length, fraction.drop (fraction.takeWhile (· == 0x30)).length)
      else (0, fraction)) = pr
  have hfr1 : pr.1 = (if (integer.length == 0) = true then (fraction.takeWhile (· == 0x30)).length else 0) := by
    rw [← hfr]; split <;> rfl
  have hfr2 : pr.2 = (if (integer.length == 0) = true then fraction.drop ((fraction.takeWhile (· == 0x30)).length)
      else fraction) := by
    rw [← hfr]; split <;> rfl
  rw [← hfr2] at hm
  rw [← hfr1] at h1 h2
  have hdf' : IsDigits pr.2 := by
    rw [hfr2]; split
    · exact fun x hx => hdf x (List.mem_of_mem_drop hx)
    · exact hdf
  have ⟨q1, q2, q3⟩ := parseMantissaL_refines (fc single) integer pr.2 hdi hdf'
  have hmax : 2 ≤ (fc single).maxDigits := by cases single <;> simp [fc, f32Consts, f64Consts]
  have hlt := parseMantissa_lt (fc single) hmax integer pr.2 hdi hdf'
  have hlen : (parseMantissaL (fc single) integer pr.2).length ≤ 40 := by
    apply length_le_of_value_lt (q3 hm)
    rw [q1]
    have : (10 : Nat) ^ (fc single).maxDigits ≤ 10 ^ 769 := Nat.pow_le_pow_right (by norm_num) (maxDigits_le single)
    exact Nat.lt_of_lt_of_le hlt (Nat.le_trans this (Nat.le_of_lt ten_pow_769_lt))
  split
  · rename_i hse; exact largeAtofL_total _ _ _ q2 (q3 hm) hlen hse h2
  · rename_i hse; exact smallAtofL_total _ _ _ b (by omega) h1

/-- under the hypotheses of `bhcomp_eq` the big-integer mantissa is not zero -/
theorem bhMantissa_ne_zero (c : FC) (hmax : 2 ≤ c.maxDigits) (integer fraction : Bytes)
    (hpos : 0 < natOfDigits (integer ++ fraction))
    (hz : c.maxDigits - 1 < (SJ.Proofs.LexBh.sigDigits integer fraction).length →
      0 < natOfDigits ((SJ.Proofs.LexBh.sigDigits integer fraction).drop (c.maxDigits - 1))) :
    bhMantissa c integer fraction ≠ 0 := by
  unfold bhMantissa
  by_cases hint : integer = []
  · subst hint
    simp only [List.length_nil, beq_self_eq_true, if_true]
    have hsig : SJ.Proofs.LexBh.sigDigits [] fraction = fraction.drop (fraction.takeWhile (· == 0x30)).length := by
      unfold SJ.Proofs.LexBh.sigDigits; simp
    rw [hsig] at hz
    rw [SJ.Proofs.LexBh.parseMantissa_eq c hmax [] _ (by simpa using hz)]
    split
    · omega
    · simp only [List.nil_append] at hpos ⊢
      rw [SJ.Proofs.LexBh.drop_takeWhile_eq, SJ.Proofs.LexBh.natOfDigits_dropWhile_zero]; omega
  · have hil : (integer.length == 0) = false := by
      cases integer with
      | nil => exact absurd rfl hint
      | cons a l => simp
    have hsig : SJ.Proofs.LexBh.sigDigits integer fraction = integer ++ fraction := by
      unfold SJ.Proofs.LexBh.sigDigits; rw [hil]; rfl
    rw [hsig] at hz
    simp only [hil, Bool.false_eq_true, if_false]
    rw [SJ.Proofs.LexBh.parseMantissa_eq c hmax integer fraction hz]
    split <;> omega

end SJ.Proofs.LexMath
