import SJ.Proofs.Earliest
import SJ.Proofs.Complete.NumConv
/-!
# Completions of number states

Whatever mantissa has been scanned, the exponent `e-9999999999` makes the literal convert (the
i32 `overflow!` guard of `parse_exponent` fires and, the exponent being negative, the result is
±0.0 — in both float builds). So every number state in which a negative exponent can still be
written is viable; only states committed to a non-negative exponent (`…e+`, `…e5`) depend on the
magnitude of the mantissa (`NumSideOK`).
-/
namespace SJ.Proofs.Earliest
open SJ SJ.Gen SJ.Model.Machine SJ.Model.Num SJ.Proofs.Machine SJ.Proofs.Complete

def nines : Bytes := [0x39, 0x39, 0x39, 0x39, 0x39, 0x39, 0x39, 0x39, 0x39, 0x39]
def eTail : Bytes := 0x65 :: 0x2d :: nines

def numTail (n : NumSt) : Bytes :=
  match n.phase with
  | .afterMinus => 0x30 :: eTail
  | .zero | .int | .frac => eTail
  | .fracStart => 0x30 :: eTail
  | .expStart => 0x2d :: nines
  | .expSign => if n.expNeg then nines else [0x30]
  | .exp => if n.expNeg then nines else []

/-! ## ten nines overflow the exponent accumulator -/

theorem go9 (e : Nat) (r : Bytes) :
    expOverflows.go e (0x39 :: r) = if Model.Num.overflowMacro e 9 Model.Num.i32Max then true else expOverflows.go (e * 10 + 9) r := rfl

theorem go_up (B B' : Nat) (r : Bytes) (hB : B' ≤ B * 10 + 9)
    (h : ∀ e, B' ≤ e → expOverflows.go e r = true) :
    ∀ e, B ≤ e → expOverflows.go e (0x39 :: r) = true := by
  intro e he
  rw [go9]
  split
  · rfl
  · exact h _ (by omega)

theorem go_last (r : Bytes) : ∀ e, 214748365 ≤ e → expOverflows.go e (0x39 :: r) = true := by
  intro e he
  rw [go9]
  have : Model.Num.overflowMacro e 9 Model.Num.i32Max = true := by
    simp [Model.Num.overflowMacro, Model.Num.i32Max]; omega
  simp [this]

theorem go_nines (e : Nat) : expOverflows.go e nines = true := by
  have h1 := go_last []
  have h2 := go_up 21474836 _ _ (by omega) h1
  have h3 := go_up 2147483 _ _ (by omega) h2
  have h4 := go_up 214748 _ _ (by omega) h3
  have h5 := go_up 21474 _ _ (by omega) h4
  have h6 := go_up 2147 _ _ (by omega) h5
  have h7 := go_up 214 _ _ (by omega) h6
  have h8 := go_up 21 _ _ (by omega) h7
  have h9 := go_up 2 _ _ (by omega) h8
  exact go_up 0 _ _ (by omega) h9 e (Nat.zero_le _)

theorem go_append_nines (e : Nat) (ds : Bytes) : expOverflows.go e (ds ++ nines) = true := by
  induction ds generalizing e with
  | nil => exact go_nines e
  | cons c cs ih =>
    simp only [List.cons_append, expOverflows.go]
    split
    · rfl
    · exact ih _

theorem expOverflows_nines (ds : Bytes) : expOverflows (ds ++ nines) = true := by
  cases ds with
  | nil => exact go_nines _
  | cons d r => exact go_append_nines _ r

/-! ## a literal with such an exponent converts -/

theorem parseExponent_big (positive : Bool) (sig : Nat) (start : Int) (ds : Bytes) :
    ∃ b, parseExponent positive sig start true (ds ++ nines) = .f64 b := by
  have key : ∀ d r, d :: r = ds ++ nines → ∃ b, parseExponent positive sig start true (d :: r) = .f64 b := by
    intro d r h
    have hov : expOverflows (d :: r) = true := h ▸ expOverflows_nines ds
    have hgo : parseExponent.go (dig d) r = none := parseExponent_go_none _ _ hov
    simp only [parseExponent, hgo, exponentOverflow]
    simp
  cases hds : ds ++ nines with
  | nil => cases ds <;> simp [nines] at hds
  | cons d r => exact key d r hds.symm

theorem convertDefault_big (p : Parts) (ds : Bytes) (h : p.exp = some (true, ds ++ nines)) :
    ∃ b, convertDefault p = .f64 b := by
  unfold convertDefault
  simp only [h]
  split
  all_goals
    cases hf : p.frac with
    | some fds =>
      simp only [parseDecimal]
      exact parseExponent_big _ _ _ _
    | none => exact parseExponent_big _ _ _ _

theorem convertRoundtrip_big (p : Parts) (ds : Bytes) (h : p.exp = some (true, ds ++ nines)) :
    ∃ b, convertRoundtrip p = .f64 b := by
  have hi : intClass p = none := by
    unfold intClass; rw [h]; split <;> simp_all
  unfold convertRoundtrip
  simp only [hi, h, expOverflows_nines, if_true, exponentOverflow]
  simp

theorem numValue_big (env : Env) (n : NumSt) (ds : Bytes) (h1 : n.hasExp = true)
    (h2 : n.expNeg = true) (h3 : n.expDigits.reverse = ds ++ nines) : ∃ v, numValue env n = .ok v := by
  have hp : n.parts.exp = some (true, ds ++ nines) := by simp [NumSt.parts, h1, h2, h3]
  unfold numValue
  simp only
  split
  · exact ⟨_, rfl⟩
  · by_cases hfr : env.cfg.fr = true
    · obtain ⟨b, hb⟩ := convertRoundtrip_big _ _ hp
      simp only [hfr, if_true, hb]; exact ⟨_, rfl⟩
    · obtain ⟨b, hb⟩ := convertDefault_big _ _ hp
      simp only [hfr, hb]; exact ⟨_, rfl⟩

/-! ## feeding the tail, for an arbitrary scanned state -/

theorem step_num (env : Env) (fs : List Frame) (n : NumSt) (b : UInt8) (s' : St)
    (h : stepNum env ⟨.num n, fs⟩ n b = .next s') : step env ⟨.num n, fs⟩ b = .ok s' := by
  unfold step step1; simp only [h]

theorem step_minus_zero' (env : Env) (fs : List Frame) (n : NumSt) (hp : n.phase = .afterMinus) :
    step env ⟨.num n, fs⟩ 0x30
      = .ok ⟨.num { n with raw := 0x30 :: n.raw, phase := .zero, int := [0x30] }, fs⟩ := by
  apply step_num; simp [stepNum, hp]

theorem step_fracStart' (env : Env) (fs : List Frame) (n : NumSt) (hp : n.phase = .fracStart) :
    step env ⟨.num n, fs⟩ 0x30
      = .ok ⟨.num { n with raw := 0x30 :: n.raw, phase := .frac, frac := [0x30] }, fs⟩ := by
  apply step_num; simp [stepNum, hp, isDigit]

theorem step_e' (env : Env) (fs : List Frame) (n : NumSt)
    (hp : n.phase = .zero ∨ n.phase = .int ∨ n.phase = .frac) :
    step env ⟨.num n, fs⟩ 0x65
      = .ok ⟨.num { n with raw := 0x65 :: n.raw, phase := .expStart, hasExp := true }, fs⟩ := by
  apply step_num
  rcases hp with hp | hp | hp <;> simp [stepNum, hp, isDigit]

theorem step_expStart_minus' (env : Env) (fs : List Frame) (n : NumSt) (hp : n.phase = .expStart) :
    step env ⟨.num n, fs⟩ 0x2d
      = .ok ⟨.num { n with raw := 0x2d :: n.raw, phase := .expSign, expNeg := true }, fs⟩ := by
  apply step_num; simp [stepNum, hp]

theorem step_expSign_digit' (env : Env) (fs : List Frame) (n : NumSt) (hp : n.phase = .expSign)
    (d : UInt8) (hd : isDigit d = true) :
    step env ⟨.num n, fs⟩ d
      = .ok ⟨.num { n with raw := d :: n.raw, phase := .exp, expDigits := [d] }, fs⟩ := by
  apply step_num; simp [stepNum, hp, hd]

theorem step_exp_neg_digit' (env : Env) (fs : List Frame) (n : NumSt) (hp : n.phase = .exp)
    (hn : n.expNeg = true) (d : UInt8) (hd : isDigit d = true) :
    step env ⟨.num n, fs⟩ d
      = .ok ⟨.num { n with raw := d :: n.raw, expDigits := d :: n.expDigits }, fs⟩ := by
  apply step_num; simp [stepNum, hp, hd, hn]

/-- the properties of the scanned state that make its value convert -/
structure NegBig (n : NumSt) : Prop where
  phase : n.phase = .exp
  hasExp : n.hasExp = true
  expNeg : n.expNeg = true
  big : ∃ ds, n.expDigits.reverse = ds ++ nines

theorem feeds_exp_neg_digits (env : Env) (fs : List Frame) (ds : Bytes) (hds : ∀ d ∈ ds, isDigit d = true) :
    ∀ n : NumSt, n.phase = .exp → n.expNeg = true →
      Feeds env ⟨.num n, fs⟩ ds
        ⟨.num { n with raw := ds.reverse ++ n.raw, expDigits := ds.reverse ++ n.expDigits }, fs⟩ := by
  induction ds with
  | nil => intro n _ _; exact Feeds.nil _ _
  | cons d r ih =>
    intro n hp hn
    have h1 := step_exp_neg_digit' env fs n hp hn d (hds d (by simp))
    have h2 := ih (fun x hx => hds x (by simp [hx]))
      { n with raw := d :: n.raw, expDigits := d :: n.expDigits } hp hn
    have := Feeds.cons h1 h2
    simpa using this

theorem nines_digits : ∀ d ∈ nines, isDigit d = true := by decide

/-- in the exponent with a minus sign: ten nines -/
theorem feeds_exp_nines (env : Env) (fs : List Frame) (n : NumSt) (hp : n.phase = .exp)
    (he : n.hasExp = true) (hn : n.expNeg = true) :
    ∃ n', Feeds env ⟨.num n, fs⟩ nines ⟨.num n', fs⟩ ∧ NegBig n' :=
  ⟨_, feeds_exp_neg_digits env fs nines nines_digits n hp hn,
    ⟨hp, he, hn, ⟨n.expDigits.reverse, by simp⟩⟩⟩

theorem feeds_expSign_nines (env : Env) (fs : List Frame) (n : NumSt) (hp : n.phase = .expSign)
    (he : n.hasExp = true) (hn : n.expNeg = true) :
    ∃ n', Feeds env ⟨.num n, fs⟩ nines ⟨.num n', fs⟩ ∧ NegBig n' := by
  have h1 := step_expSign_digit' env fs n hp 0x39 (by decide)
  have h2 := feeds_exp_neg_digits env fs [0x39, 0x39, 0x39, 0x39, 0x39, 0x39, 0x39, 0x39, 0x39]
    (by decide) { n with raw := 0x39 :: n.raw, phase := .exp, expDigits := [0x39] } rfl hn
  exact ⟨_, Feeds.cons h1 h2, ⟨rfl, he, hn, ⟨[], rfl⟩⟩⟩

theorem feeds_expStart_tail (env : Env) (fs : List Frame) (n : NumSt) (hp : n.phase = .expStart)
    (he : n.hasExp = true) :
    ∃ n', Feeds env ⟨.num n, fs⟩ (0x2d :: nines) ⟨.num n', fs⟩ ∧ NegBig n' := by
  obtain ⟨n', h2, hb⟩ := feeds_expSign_nines env fs
    { n with raw := 0x2d :: n.raw, phase := .expSign, expNeg := true } rfl he rfl
  exact ⟨n', Feeds.cons (step_expStart_minus' env fs n hp) h2, hb⟩

theorem feeds_eTail (env : Env) (fs : List Frame) (n : NumSt)
    (hp : n.phase = .zero ∨ n.phase = .int ∨ n.phase = .frac) :
    ∃ n', Feeds env ⟨.num n, fs⟩ eTail ⟨.num n', fs⟩ ∧ NegBig n' := by
  obtain ⟨n', h2, hb⟩ := feeds_expStart_tail env fs
    { n with raw := 0x65 :: n.raw, phase := .expStart, hasExp := true } rfl rfl
  exact ⟨n', Feeds.cons (step_e' env fs n hp) h2, hb⟩

/-- every state in which a negative exponent can still be written reaches a convertible literal -/
theorem feeds_numTail (env : Env) (fs : List Frame) (n : NumSt)
    (hexp : n.phase = .expStart ∨ n.phase = .expSign ∨ n.phase = .exp → n.hasExp = true)
    (hneg : n.phase = .expSign ∨ n.phase = .exp → n.expNeg = true) :
    ∃ n', Feeds env ⟨.num n, fs⟩ (numTail n) ⟨.num n', fs⟩ ∧ NegBig n' := by
  unfold numTail
  cases hp : n.phase <;> simp only [hp] at hexp hneg ⊢
  · obtain ⟨n', h2, hb⟩ := feeds_eTail env fs
      { n with raw := 0x30 :: n.raw, phase := .zero, int := [0x30] } (Or.inl rfl)
    exact ⟨n', Feeds.cons (step_minus_zero' env fs n hp) h2, hb⟩
  · exact feeds_eTail env fs n (Or.inl hp)
  · exact feeds_eTail env fs n (Or.inr (Or.inl hp))
  · obtain ⟨n', h2, hb⟩ := feeds_eTail env fs
      { n with raw := 0x30 :: n.raw, phase := .frac, frac := [0x30] } (Or.inr (Or.inr rfl))
    exact ⟨n', Feeds.cons (step_fracStart' env fs n hp) h2, hb⟩
  · exact feeds_eTail env fs n (Or.inr (Or.inr hp))
  · exact feeds_expStart_tail env fs n hp (hexp (by simp))
  · simp only [hneg (by simp), if_true]
    exact feeds_expSign_nines env fs n hp (hexp (by simp)) (hneg (by simp))
  · simp only [hneg (by simp), if_true]
    exact feeds_exp_nines env fs n hp (hexp (by simp)) (hneg (by simp))

/-! ## viability -/

theorem goodPhase_exp {n : NumSt} (h : n.phase = .exp) : GoodPhase n.phase := by rw [h]; trivial

/-- a number state in the exponent digits whose value converts is pending completion -/
theorem viable_num_done (env : Env) (fs : List Frame) (n : NumSt) (hp : n.phase = .exp)
    (hv : env.tgt = .value → ∃ v, numValue env n = .ok v) : Viable env ⟨.num n, fs⟩ := by
  have : ∃ v, endNumber env ⟨.num n, fs⟩ n = .ok (complete fs v) := by
    unfold endNumber
    by_cases ht : env.tgt = .value
    · obtain ⟨v, hv⟩ := hv ht
      exact ⟨v, by simp [ht, hv]⟩
    · exact ⟨.null, by simp [ht]⟩
  obtain ⟨v, hv⟩ := this
  exact viable_pending env fs v _ (Or.inr ⟨n, rfl, goodPhase_exp hp, hv⟩)

/-- the side condition of a number state: once a non-negative exponent is committed to, the
    literal closed as early as possible (`0` appended after a bare sign) must convert -/
def NumSideOK (env : Env) (n : NumSt) : Prop :=
  env.tgt = .value → n.expNeg = false →
    (n.phase = .expSign →
      ∃ v, numValue env { n with raw := 0x30 :: n.raw, phase := .exp, expDigits := [0x30] } = .ok v) ∧
    (n.phase = .exp → ∃ v, numValue env n = .ok v)

theorem viable_num (env : Env) (fs : List Frame) (n : NumSt)
    (hexp : n.phase = .expStart ∨ n.phase = .expSign ∨ n.phase = .exp → n.hasExp = true)
    (hside : NumSideOK env n) : Viable env ⟨.num n, fs⟩ := by
  by_cases hpos : (n.phase = .expSign ∨ n.phase = .exp) ∧ n.expNeg = false
  · obtain ⟨hph, hn⟩ := hpos
    rcases hph with hp | hp
    · refine Viable.of_feeds (Feeds.one (step_expSign_digit' env fs n hp 0x30 (by decide))) ?_
      exact viable_num_done env fs _ rfl (fun ht => (hside ht hn).1 hp)
    · exact viable_num_done env fs n hp (fun ht => (hside ht hn).2 hp)
  · have hneg : n.phase = .expSign ∨ n.phase = .exp → n.expNeg = true := by
      intro h
      cases hn : n.expNeg with
      | true => rfl
      | false => exact absurd ⟨h, hn⟩ hpos
    obtain ⟨n', hf, hb⟩ := feeds_numTail env fs n hexp hneg
    obtain ⟨ds, hds⟩ := hb.big
    exact Viable.of_feeds hf (viable_num_done env fs n' hb.phase
      (fun _ => numValue_big env n' ds hb.hasExp hb.expNeg hds))

end SJ.Proofs.Earliest
