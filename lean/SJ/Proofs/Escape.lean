import SJ.Spec.Str
import SJ.Model.Escape
import SJ.Proofs.Bytes256
/-! Helper lemmas for C05 (serializer side): table facts and the loop invariant of
    `format_escaped_str_contents`. -/
namespace SJ.Proofs.Escape
open SJ SJ.Model.Escape SJ.Spec.Str

theorem escapeTable_length : Gen.escapeTable.length = 256 := by decide +kernel

/-- what the loop body does with one byte: `none` = not escaped (`continue`),
    `some bs` = the escape buffer written; `some []` would be the `unreachable!()` panic. -/
def perByte (b : UInt8) : Option Bytes :=
  if escapeOf b == Gen.escapeNone then none
  else some ((fromEscapeTable (escapeOf b) b).map writeCharEscape |>.getD [])

/-- the table fact checked for one byte value: entry zero ⇔ the statement leaves the byte verbatim;
    otherwise an arm of `from_escape_table` matches and the bytes written are the statement's. -/
def entryOk (b : UInt8) : Bool :=
  if escapeOf b == Gen.escapeNone then !needsEscape b && escapeByte b == [b]
  else needsEscape b && (fromEscapeTable (escapeOf b) b).isSome
        && ((fromEscapeTable (escapeOf b) b).map writeCharEscape == some (escapeByte b))

theorem entryOk_all : ∀ b : UInt8, entryOk b = true :=
  Bytes256.all256 entryOk (by decide +kernel) (by decide +kernel) (by decide +kernel) (by decide +kernel)

/-- bytes that need escaping are ASCII and so is their escaped spelling -/
def asciiOk (b : UInt8) : Bool := !needsEscape b || ((escapeByte b).all (· < 0x80) && decide (b < 0x80))

theorem asciiOk_all : ∀ b : UInt8, asciiOk b = true :=
  Bytes256.all256 asciiOk (by decide +kernel) (by decide +kernel) (by decide +kernel) (by decide +kernel)

theorem asciiOnly (b : UInt8) (h : needsEscape b = true) :
    (escapeByte b).all (· < 0x80) = true ∧ b < 0x80 := by
  have h' := asciiOk_all b
  simpa [asciiOk, h] using h'

/-- not escaped: table entry is zero, the statement leaves the byte alone -/
theorem entry_zero {b : UInt8} (h : (escapeOf b == Gen.escapeNone) = true) :
    needsEscape b = false ∧ escapeByte b = [b] := by
  have := entryOk_all b
  simp only [entryOk, h, if_true, Bool.and_eq_true, Bool.not_eq_true', beq_iff_eq] at this
  exact this

/-- escaped: an arm matches and what is written is the statement's spelling -/
theorem entry_nonzero {b : UInt8} (h : (escapeOf b == Gen.escapeNone) = false) :
    needsEscape b = true ∧ ∃ ce, fromEscapeTable (escapeOf b) b = some ce ∧ writeCharEscape ce = escapeByte b := by
  have := entryOk_all b
  simp only [entryOk, h, Bool.false_eq_true, if_false, Bool.and_eq_true, beq_iff_eq] at this
  obtain ⟨⟨h1, h2⟩, h3⟩ := this
  refine ⟨h1, ?_⟩
  cases hf : fromEscapeTable (escapeOf b) b with
  | none => simp [hf] at h2
  | some ce => exact ⟨ce, rfl, by simpa [hf] using h3⟩

theorem slice_prefix (pre rest : Bytes) (start : Nat) :
    slice (pre ++ rest) start pre.length = pre.drop start := by
  simp [slice]

/-- Loop invariant of `format_escaped_str_contents`: with `pre` already iterated
    (`i = pre.length`), `start ≤ i` and nothing written for `pre[start..]`, the buffers written
    from here on concatenate to `pre[start..]` followed by the escaped spelling of the rest. -/
theorem contents_flatten (rest pre : Bytes) (start : Nat) (hs : start ≤ pre.length) :
    (contents (pre ++ rest) rest pre.length start).flatten = pre.drop start ++ rest.flatMap escapeByte := by
  induction rest generalizing pre start with
  | nil =>
    simp only [contents, List.append_nil, List.flatMap_nil]
    by_cases h : start = pre.length
    · simp [h]
    · have : (start == pre.length) = false := by simpa using h
      simp [this, slice]
  | cons byte rest ih =>
    have hv : pre ++ byte :: rest = (pre ++ [byte]) ++ rest := by simp
    have hl : pre.length + 1 = (pre ++ [byte]).length := by simp
    simp only [contents]
    cases hz : (escapeOf byte == Gen.escapeNone) with
    | true =>
      obtain ⟨_, he⟩ := entry_zero hz
      simp only [if_true]
      rw [hv, hl, ih (pre ++ [byte]) start (by simp; omega)]
      simp [List.drop_append_of_le_length hs, he]
    | false =>
      obtain ⟨_, ce, hce, hw⟩ := entry_nonzero hz
      simp only [Bool.false_eq_true, if_false, hce]
      rw [List.flatten_append, List.flatten_cons, hw]
      have hfrag : (if start < pre.length then [slice (pre ++ byte :: rest) start pre.length] else []).flatten
          = pre.drop start := by
        by_cases h : start < pre.length
        · simp [h, slice_prefix]
        · have : start = pre.length := by omega
          simp [this]
      rw [hfrag, hv, hl, ih (pre ++ [byte]) _ (Nat.le_refl _)]
      simp

theorem escapedBytes_eq (s : Bytes) : escapedBytes s = escapeSpec s := by
  have h := contents_flatten s [] 0 (Nat.zero_le _)
  simp only [List.nil_append, List.length_nil, List.drop_zero] at h
  simp [escapedBytes, formatEscapedStr, h, escapeSpec, Gen.beginString, Gen.endString]

/-- `buf` is a maximal run of bytes of `s` that need no escaping: it occurs in `s`, is non-empty,
    and is delimited on each side by an end of `s` or by a byte that must be escaped (and such
    bytes are ASCII: `asciiOnly`). -/
def IsMaximalRun (s buf : Bytes) : Prop :=
  ∃ pre post, s = pre ++ buf ++ post ∧ buf ≠ [] ∧ (∀ b ∈ buf, needsEscape b = false) ∧
    (∀ p b, pre = p ++ [b] → needsEscape b = true) ∧ (∀ b q, post = b :: q → needsEscape b = true)

theorem contents_buffers (rest pre : Bytes) (start : Nat) (hs : start ≤ pre.length)
    (hrun : ∀ b ∈ pre.drop start, needsEscape b = false)
    (hleft : ∀ p b, pre.take start = p ++ [b] → needsEscape b = true) :
    ∀ buf ∈ contents (pre ++ rest) rest pre.length start,
      (∃ b, needsEscape b = true ∧ buf = escapeByte b) ∨ IsMaximalRun (pre ++ rest) buf := by
  induction rest generalizing pre start with
  | nil =>
    intro buf hb
    simp only [contents, List.append_nil] at hb
    by_cases h : start = pre.length
    · simp [h] at hb
    · have hne : (start == pre.length) = false := by simpa using h
      simp only [hne, Bool.false_eq_true, if_false, List.mem_singleton] at hb
      right
      refine ⟨pre.take start, [], ?_, ?_, ?_, hleft, by simp⟩
      · simp [hb, slice]
      · subst hb; simp [slice]; omega
      · subst hb; simpa [slice] using hrun
  | cons byte rest ih =>
    have hv : pre ++ byte :: rest = (pre ++ [byte]) ++ rest := by simp
    have hl : pre.length + 1 = (pre ++ [byte]).length := by simp
    intro buf hb
    simp only [contents] at hb
    cases hz : (escapeOf byte == Gen.escapeNone) with
    | true =>
      obtain ⟨hn, _⟩ := entry_zero hz
      simp only [hz, if_true] at hb
      rw [hv, hl] at hb
      rw [hv]
      refine ih (pre ++ [byte]) start (by simp; omega) ?_ ?_ buf hb
      · intro b hb'
        rw [List.drop_append_of_le_length hs] at hb'
        rcases List.mem_append.mp hb' with h | h
        · exact hrun b h
        · simp at h; subst h; exact hn
      · intro p b hp
        rw [List.take_append_of_le_length hs] at hp
        exact hleft p b hp
    | false =>
      obtain ⟨hn, ce, hce, hw⟩ := entry_nonzero hz
      simp only [hz, Bool.false_eq_true, if_false, hce, List.mem_append, List.mem_cons] at hb
      rcases hb with hb | hb | hb
      · -- the fragment before the escape
        right
        by_cases h : start < pre.length
        · simp only [h, if_true, List.mem_singleton] at hb
          rw [slice_prefix] at hb
          refine ⟨pre.take start, byte :: rest, ?_, ?_, ?_, hleft, ?_⟩
          · simp [hb]
          · subst hb; simp; omega
          · subst hb; exact hrun
          · intro b q hq; simp at hq; rw [← hq.1]; exact hn
        · simp [h] at hb
      · left; exact ⟨byte, hn, by rw [hb, hw]⟩
      · rw [hv, hl] at hb
        rw [hv]
        refine ih (pre ++ [byte]) _ (Nat.le_refl _) ?_ ?_ buf hb
        · simp
        · intro p b hp
          simp only [List.take_length] at hp
          have := List.append_inj' hp (by simp)
          simp at this
          rw [← this.2]; exact hn

theorem formatEscapedStr_buffers (s : Bytes) :
    ∀ buf ∈ formatEscapedStr s,
      buf = [0x22] ∨ (∃ b, needsEscape b = true ∧ buf = escapeByte b) ∨ IsMaximalRun s buf := by
  intro buf hb
  simp only [formatEscapedStr, List.mem_append, List.mem_singleton] at hb
  rcases hb with (hb | hb) | hb
  · left; exact hb
  · right
    have := contents_buffers s [] 0 (Nat.zero_le _) (by simp) (by simp)
    simpa using this buf (by simpa using hb)
  · left; exact hb

end SJ.Proofs.Escape
