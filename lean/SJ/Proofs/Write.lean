import SJ.Model.Write
/-!
# C13 (writer): `write_all` and the serializer's run over an arbitrary `io::Write`

For every policy of the writer (`Model.Write.Writer.policy`: any function of the call history and the
buffer offered) and every `fuel`:

* `writeLoop_spec` — `write_all(buf)`: the bytes accepted are `buf.take k`; the new `write` calls are a
  run against the policy (`Run`), none but the last is *fatal* (`WRes.fatal`: `Ok(0)`, `Ok(n)` beyond the
  buffer, an error other than `Interrupted`); the outcome is `ok` iff the whole buffer was delivered;
  `err e` iff the last call was fatal, with `e` = the policy's own error or `WRITE_ALL_EOF` after
  `Ok(0)` (`Post`);
* `runBufs_spec` — the same for the serializer's buffer list (`Writer.runBufs`), with the list of
  buffers handed to `write_all` (`Writer.handed`);
* `runBufs_vec` — `Vec<u8>` takes everything.
-/
namespace SJ.Proofs.Write
open SJ SJ.Model.Write

/-- `new` is what a sequence of `write` calls against policy `pol`, after history `log0`, looks like -/
def Run (pol : List Call → Bytes → WRes) : List Call → List Call → Prop
  | _, [] => True
  | log0, c :: cs => c.res = pol log0 c.buf ∧ Run pol (log0 ++ [c]) cs

theorem run_append (pol : List Call → Bytes → WRes) : ∀ (a b log0 : List Call),
    Run pol log0 (a ++ b) ↔ Run pol log0 a ∧ Run pol (log0 ++ a) b
  | [], b, log0 => by simp [Run]
  | c :: a, b, log0 => by
    simp [Run, run_append pol a b (log0 ++ [c]), and_assoc]

/-- no call of `cs` is fatal -/
def NoFatal (cs : List Call) : Prop := ∀ c ∈ cs, c.res.fatal c.buf = false

theorem noFatal_nil : NoFatal [] := fun _ h => by cases h

theorem noFatal_append {a b : List Call} (ha : NoFatal a) (hb : NoFatal b) : NoFatal (a ++ b) := fun c hc => by
  rcases List.mem_append.1 hc with h | h
  · exact ha c h
  · exact hb c h

theorem noFatal_cons {c : Call} {cs : List Call} (hc : c.res.fatal c.buf = false) (hcs : NoFatal cs) :
    NoFatal (c :: cs) := fun d hd => by
  rcases List.mem_cons.1 hd with h | h
  · subst h; exact hc
  · exact hcs d h

/-- the error `write_all` makes of a fatal last call -/
def LastIs (c : Call) (e : IoError) : Prop :=
  (c.res = .ok 0 ∧ e = writeAllEof) ∨ (c.res = .err e ∧ e.isInterrupted = false)

/-- what the outcome says, given the bytes to deliver (`full`), the bytes accepted (`bytes`) and the new
    calls (`new`) -/
def Post (fuel : Nat) (full bytes : Bytes) (new : List Call) : Out → Prop
  | .ok => bytes = full ∧ NoFatal new
  | .hang => bytes.length < full.length ∧ NoFatal new ∧ fuel ≤ new.length
  | .err e => bytes.length < full.length ∧ ∃ pre c, new = pre ++ [c] ∧ NoFatal pre ∧ LastIs c e
  | .panic => ∃ pre c n, new = pre ++ [c] ∧ NoFatal pre ∧ c.res = .ok n ∧ c.buf.length < n

/-- how the writer after (`w'`) extends the writer before (`w`) -/
structure Extends (w w' : Writer) (bytes : Bytes) (new : List Call) : Prop where
  acc : w'.accepted = w.accepted ++ bytes
  log : w'.log = w.log ++ new
  pol : w'.policy = w.policy
  run : Run w.policy w.log new

theorem extends_refl (w : Writer) : Extends w w [] [] := ⟨by simp, by simp, rfl, trivial⟩

theorem extends_trans {w w' w'' : Writer} {b1 b2 : Bytes} {n1 n2 : List Call}
    (h1 : Extends w w' b1 n1) (h2 : Extends w' w'' b2 n2) : Extends w w'' (b1 ++ b2) (n1 ++ n2) :=
  ⟨by rw [h2.acc, h1.acc, List.append_assoc], by rw [h2.log, h1.log, List.append_assoc], by rw [h2.pol, h1.pol],
   (run_append _ _ _ _).2 ⟨h1.run, by have := h2.run; rwa [h1.pol, h1.log] at this⟩⟩

/-- one `write` call -/
theorem write_extends (w : Writer) (buf : Bytes) :
    Extends w (w.write buf).1 (match (w.write buf).2 with | .ok n => buf.take n | .err _ => [])
      [{ buf := buf, res := (w.write buf).2 }] ∧ (w.write buf).1.handed = w.handed :=
  ⟨⟨rfl, rfl, rfl, ⟨rfl, trivial⟩⟩, rfl⟩

/-- prepend non-fatal calls that delivered `b` -/
theorem post_prepend {fuel : Nat} {b full bytes : Bytes} {n1 new : List Call} (h1 : NoFatal n1) :
    ∀ {o : Out}, Post fuel full bytes new o → Post fuel (b ++ full) (b ++ bytes) (n1 ++ new) o
  | .ok, ⟨hb, hn⟩ => ⟨by rw [hb], noFatal_append h1 hn⟩
  | .hang, ⟨hl, hn, hf⟩ => ⟨by simp only [List.length_append]; omega, noFatal_append h1 hn,
      by simp only [List.length_append]; omega⟩
  | .err _, ⟨hl, pre, c, hnew, hpre, hc⟩ => ⟨by simp only [List.length_append]; omega, n1 ++ pre, c,
      by rw [hnew, List.append_assoc], noFatal_append h1 hpre, hc⟩
  | .panic, ⟨pre, c, n, hnew, hpre, hc⟩ => ⟨n1 ++ pre, c, n, by rw [hnew, List.append_assoc],
      noFatal_append h1 hpre, hc⟩

/-- more to deliver afterwards does not change what a failure says -/
theorem post_weaken {fuel : Nat} {full bytes rest : Bytes} {new : List Call} :
    ∀ {o : Out}, o ≠ .ok → Post fuel full bytes new o → Post fuel (full ++ rest) bytes new o
  | .ok, h, _ => absurd rfl h
  | .hang, _, ⟨hl, hn, hf⟩ => ⟨by simp only [List.length_append]; omega, hn, hf⟩
  | .err _, _, ⟨hl, h⟩ => ⟨by simp only [List.length_append]; omega, h⟩
  | .panic, _, h => h

/-- one more non-fatal call `c` in front, which delivered `b`, and one more unit of fuel -/
theorem post_step {fuel : Nat} {b full bytes : Bytes} {c : Call} {new : List Call} (hc : c.res.fatal c.buf = false) :
    ∀ {o : Out}, Post fuel full bytes new o → Post (fuel + 1) (b ++ full) (b ++ bytes) (c :: new) o
  | .ok, ⟨hb, hn⟩ => ⟨by rw [hb], noFatal_cons hc hn⟩
  | .hang, ⟨hl, hn, hf⟩ => ⟨by simp only [List.length_append]; omega, noFatal_cons hc hn,
      by simp only [List.length_cons]; omega⟩
  | .err _, ⟨hl, pre, d, hnew, hpre, hd⟩ => ⟨by simp only [List.length_append]; omega, c :: pre, d,
      by rw [hnew, List.cons_append], noFatal_cons hc hpre, hd⟩
  | .panic, ⟨pre, d, n, hnew, hpre, hd⟩ => ⟨c :: pre, d, n, by rw [hnew, List.cons_append],
      noFatal_cons hc hpre, hd⟩

/-- **`write_all`, the loop.** -/
theorem writeLoop_spec : ∀ (fuel : Nat) (w : Writer) (buf : Bytes),
    ∃ bytes new, Extends w (writeLoop fuel w buf).1 bytes new ∧ bytes <+: buf ∧
      Post fuel buf bytes new (writeLoop fuel w buf).2 ∧ (writeLoop fuel w buf).1.handed = w.handed
  | fuel, w, [] => ⟨[], [], by
      unfold writeLoop; exact ⟨extends_refl w, List.prefix_refl _, ⟨rfl, noFatal_nil⟩, rfl⟩⟩
  | 0, w, x :: xs => ⟨[], [], by
      unfold writeLoop
      exact ⟨extends_refl w, List.nil_prefix, ⟨by simp, noFatal_nil, Nat.le_refl _⟩, rfl⟩⟩
  | fuel + 1, w, x :: xs => by
    obtain ⟨hext, hh⟩ := write_extends w (x :: xs)
    unfold writeLoop
    simp only [List.isEmpty_cons, Bool.false_eq_true, ↓reduceIte]
    generalize hw : w.write (x :: xs) = wr at hext hh
    obtain ⟨w1, r⟩ := wr
    cases r with
    | ok n =>
      cases n with
      | zero =>
        refine ⟨[], _, by simpa using hext, List.nil_prefix, ⟨by simp, [], _, rfl, noFatal_nil, .inl ⟨rfl, rfl⟩⟩, hh⟩
      | succ n =>
        simp only
        by_cases hn : n + 1 ≤ (x :: xs).length
        · simp only [hn, ↓reduceIte]
          obtain ⟨bytes, new, he, hp, hpost, hhd⟩ := writeLoop_spec fuel w1 ((x :: xs).drop (n + 1))
          have hc : WRes.fatal (x :: xs) (.ok (n + 1)) = false := by
            simp only [WRes.fatal]; exact decide_eq_false (by omega)
          refine ⟨(x :: xs).take (n + 1) ++ bytes, _ :: new, extends_trans hext he, ?_, ?_, by rw [hhd, hh]⟩
          · obtain ⟨t, ht⟩ := hp
            exact ⟨t, by rw [List.append_assoc, ht, List.take_append_drop]⟩
          · have := post_step (b := (x :: xs).take (n + 1)) (c := { buf := x :: xs, res := .ok (n + 1) }) hc hpost
            rwa [List.take_append_drop] at this
        · simp only [hn, ↓reduceIte]
          exact ⟨_, _, hext, List.take_prefix _ _, ⟨[], _, n + 1, rfl, noFatal_nil, rfl, by show (x :: xs).length < n + 1; omega⟩, hh⟩
    | err e =>
      simp only
      cases hi : e.isInterrupted with
      | false =>
        simp only [Bool.false_eq_true, ↓reduceIte]
        exact ⟨[], _, by simpa using hext, List.nil_prefix,
          ⟨by simp, [], _, rfl, noFatal_nil, .inr ⟨rfl, hi⟩⟩, hh⟩
      | true =>
        simp only [↓reduceIte]
        obtain ⟨bytes, new, he, hp, hpost, hhd⟩ := writeLoop_spec fuel w1 (x :: xs)
        have hc : WRes.fatal (x :: xs) (.err e) = false := by simp [WRes.fatal, hi]
        refine ⟨bytes, _ :: new, by simpa using extends_trans hext he, hp, ?_, by rw [hhd, hh]⟩
        have := post_step (b := []) (c := { buf := x :: xs, res := .err e }) hc hpost
        simpa only [List.nil_append] using this

/-- **`write_all`.** -/
theorem writeAll_spec (fuel : Nat) (w : Writer) (buf : Bytes) :
    ∃ bytes new, Extends w (w.writeAll fuel buf).1 bytes new ∧ bytes <+: buf ∧
      Post fuel buf bytes new (w.writeAll fuel buf).2 ∧ (w.writeAll fuel buf).1.handed = w.handed ++ [buf] := by
  obtain ⟨bytes, new, he, hp, hpost, hh⟩ := writeLoop_spec fuel { w with handed := w.handed ++ [buf] } buf
  exact ⟨bytes, new, ⟨he.acc, he.log, he.pol, he.run⟩, hp, hpost, hh⟩

/-- **The serializer's `write_all` calls.** `j` buffers were handed over; the last one handed is the one
    that failed, if any. -/
theorem runBufs_spec (fuel : Nat) : ∀ (bufs : List Bytes) (w : Writer),
    ∃ bytes new j, Extends w (w.runBufs fuel bufs).1 bytes new ∧ bytes <+: bufs.flatten ∧
      Post fuel bufs.flatten bytes new (w.runBufs fuel bufs).2 ∧
      (w.runBufs fuel bufs).1.handed = w.handed ++ bufs.take j ∧
      ((w.runBufs fuel bufs).2 = .ok → bufs.length ≤ j) ∧
      ((w.runBufs fuel bufs).2 ≠ .ok → 0 < j ∧ j ≤ bufs.length ∧ (bufs.take (j - 1)).flatten <+: bytes)
  | [], w => ⟨[], [], 0, by
      simp only [Writer.runBufs]
      exact ⟨extends_refl w, List.prefix_refl _, ⟨rfl, noFatal_nil⟩, by simp, by simp, by simp⟩⟩
  | b :: bs, w => by
    obtain ⟨bytes1, new1, he1, hp1, hpost1, hh1⟩ := writeAll_spec fuel w b
    simp only [Writer.runBufs]
    generalize hw : w.writeAll fuel b = wr at he1 hpost1 hh1
    obtain ⟨w1, o⟩ := wr
    cases o with
    | ok =>
      simp only
      obtain ⟨hb, hn1⟩ := hpost1
      subst hb
      obtain ⟨bytes2, new2, j, he2, hp2, hpost2, hh2, hj1, hj2⟩ := runBufs_spec fuel bs w1
      refine ⟨bytes1 ++ bytes2, new1 ++ new2, j + 1, extends_trans he1 he2, ?_, ?_, ?_, ?_, ?_⟩
      · obtain ⟨t, ht⟩ := hp2
        exact ⟨t, by rw [List.flatten_cons, ← ht, List.append_assoc]⟩
      · rw [List.flatten_cons]; exact post_prepend hn1 hpost2
      · rw [hh2, hh1]; simp
      · intro h; have := hj1 h; simp only [List.length_cons]; omega
      · intro h
        obtain ⟨h0, h1, h2⟩ := hj2 h
        refine ⟨by omega, by simp only [List.length_cons]; omega, ?_⟩
        obtain ⟨t, ht⟩ := h2
        refine ⟨t, ?_⟩
        have : j + 1 - 1 = (j - 1) + 1 := by omega
        rw [this, List.take_succ_cons, List.flatten_cons, List.append_assoc, ht]
    | err e =>
      refine ⟨bytes1, new1, 1, he1, ?_, ?_, by simpa using hh1, by simp, fun _ => ⟨by omega, by simp, by simp⟩⟩
      · rw [List.flatten_cons]; exact hp1.trans (List.prefix_append _ _)
      · rw [List.flatten_cons]; exact post_weaken (by simp) hpost1
    | hang =>
      refine ⟨bytes1, new1, 1, he1, ?_, ?_, by simpa using hh1, by simp, fun _ => ⟨by omega, by simp, by simp⟩⟩
      · rw [List.flatten_cons]; exact hp1.trans (List.prefix_append _ _)
      · rw [List.flatten_cons]; exact post_weaken (by simp) hpost1
    | panic =>
      refine ⟨bytes1, new1, 1, he1, ?_, ?_, by simpa using hh1, by simp, fun _ => ⟨by omega, by simp, by simp⟩⟩
      · rw [List.flatten_cons]; exact hp1.trans (List.prefix_append _ _)
      · rw [List.flatten_cons]; exact post_weaken (by simp) hpost1

/-- `Vec<u8>`: every non-empty buffer is taken whole in one call -/
theorem writeLoop_vec (fuel : Nat) (w : Writer) (buf : Bytes) (hw : w.policy = Writer.vec.policy) :
    (writeLoop (fuel + 1) w buf).2 = .ok ∧ (writeLoop (fuel + 1) w buf).1.accepted = w.accepted ++ buf ∧
      (writeLoop (fuel + 1) w buf).1.policy = w.policy := by
  cases buf with
  | nil => unfold writeLoop; simp
  | cons x xs =>
    unfold writeLoop
    simp only [List.isEmpty_cons, Bool.false_eq_true, ↓reduceIte, Writer.write, hw, Writer.vec, List.length_cons]
    simp only [Nat.le_refl, ↓reduceIte, List.drop_succ_cons, List.drop_length]
    unfold writeLoop
    simp

theorem runBufs_vec (fuel : Nat) : ∀ (bufs : List Bytes) (w : Writer), w.policy = Writer.vec.policy →
    (w.runBufs (fuel + 1) bufs).2 = .ok ∧ (w.runBufs (fuel + 1) bufs).1.accepted = w.accepted ++ bufs.flatten
  | [], w, _ => by simp [Writer.runBufs]
  | b :: bs, w, hw => by
    obtain ⟨h1, h2, h3⟩ := writeLoop_vec fuel { w with handed := w.handed ++ [b] } b hw
    simp only [Writer.runBufs, Writer.writeAll]
    generalize hwr : writeLoop (fuel + 1) { w with handed := w.handed ++ [b] } b = wr at h1 h2 h3
    obtain ⟨w1, o⟩ := wr
    simp only at h1 h2 h3
    subst h1
    simp only
    obtain ⟨h4, h5⟩ := runBufs_vec fuel bs w1 (by rw [h3]; exact hw)
    exact ⟨h4, by rw [h5, h2]; simp⟩

end SJ.Proofs.Write
