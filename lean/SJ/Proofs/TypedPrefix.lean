import SJ.Proofs.TypedFuel
import SJ.Proofs.Machine
/-!
# Prefixes (C10, typed targets): the run on `a ++ b` against the run on `a`

`Pre A b N full pre` relates the outcome `full` of a parsing function on `a ++ b` with its outcome `pre`
on the prefix `a` (whose end is the absolute index `N`), *when `full` is a success*:

* `same`  — the prefix run gives the same result, decided inside `a` (the unread input is `r` resp. `r ++ b`);
* `cut`   — the prefix run succeeds at the very end of `a` because the input ended (a number literal cut short);
* `eof`   — the prefix run fails at `N` with an allowed code (`A`: the `Eof…` codes, and `NumberOutOfRange` where a
            number literal that is complete at the cut is converted);
* `fail`  — `full` is not a success: nothing is claimed.

`PreS` is the relation without `cut` (functions that never succeed *because* the input ended).
Everything here is for `env.flt = false` (a clean end of input).
-/
set_option linter.unusedSectionVars false
set_option linter.unusedVariables false

namespace SJ.Proofs.Typed
open SJ SJ.Gen SJ.Model SJ.Model.Typed
open SJ.Model.Machine (St Mode Frame Step step1 errIdx endNumber finishMode init)
open SJ.Model.Stream (skipWs)

/-- `C` relates the results in the `cut` case (for number literals: the parts of the literal cut short) -/
inductive PreC {α : Type} (C : α → α → Prop) (A : Code → Prop) (b : Bytes) (N : Nat) : Res α → Res α → Prop
  | same {x : α} {r : Bytes} {p : Nat} (hp : p + r.length = N) : PreC C A b N (.ok x (r ++ b) p) (.ok x r p)
  | cut {x : α} {r : Bytes} {p : Nat} {y : α} (hc : C x y) : PreC C A b N (.ok x r p) (.ok y [] N)
  | eof {x : α} {r : Bytes} {p : Nat} {c : Code} (hc : A c) : PreC C A b N (.ok x r p) (.err c N)
  | fail {full pre : Res α} (h : ∀ x r p, full ≠ .ok x r p) : PreC C A b N full pre

abbrev Pre {α : Type} (A : Code → Prop) (b : Bytes) (N : Nat) : Res α → Res α → Prop := PreC (fun _ _ => True) A b N

theorem PreC.weaken {α : Type} {C : α → α → Prop} {A : Code → Prop} {b : Bytes} {N : Nat} {full pre : Res α}
    (h : PreC C A b N full pre) : Pre A b N full pre := by
  cases h with
  | same hp => exact .same hp
  | cut hc => exact .cut trivial
  | eof hc => exact .eof hc
  | fail h => exact .fail h

inductive PreS {α : Type} (A : Code → Prop) (b : Bytes) (N : Nat) : Res α → Res α → Prop
  | same {x : α} {r : Bytes} {p : Nat} (hp : p + r.length = N) : PreS A b N (.ok x (r ++ b) p) (.ok x r p)
  | eof {x : α} {r : Bytes} {p : Nat} {c : Code} (hc : A c) : PreS A b N (.ok x r p) (.err c N)
  | fail {full pre : Res α} (h : ∀ x r p, full ≠ .ok x r p) : PreS A b N full pre

/-- the outcome of a run that starts at the end of the prefix: a success that consumed nothing, or an allowed error there -/
def AtEnd {α : Type} (A : Code → Prop) (N : Nat) (x : Res α) : Prop :=
  (∃ y, x = .ok y [] N) ∨ (∃ c, x = .err c N ∧ A c)

variable {A : Code → Prop} {b : Bytes} {N : Nat}

theorem PreS.toPre {α : Type} {full pre : Res α} (h : PreS A b N full pre) : Pre A b N full pre := by
  cases h with
  | same hp => exact .same hp
  | eof hc => exact .eof hc
  | fail h => exact .fail h

theorem Pre.of_atEnd {α : Type} (full : Res α) {pre : Res α} (h : AtEnd A N pre) : Pre A b N full pre := by
  cases full with
  | ok x r p =>
    rcases h with ⟨y, rfl⟩ | ⟨c, rfl, hc⟩
    · exact .cut trivial
    · exact .eof hc
  | _ => exact .fail (by simp)

theorem PreS.of_err {α : Type} (full : Res α) {c : Code} (hc : A c) : PreS A b N full (.err c N) := by
  cases full with
  | ok x r p => exact .eof hc
  | _ => exact .fail (by simp)

theorem Pre.of_not_ok {α : Type} {full pre : Res α} (h : ∀ x r p, full ≠ .ok x r p) : Pre A b N full pre := .fail h
theorem PreS.of_not_ok {α : Type} {full pre : Res α} (h : ∀ x r p, full ≠ .ok x r p) : PreS A b N full pre := .fail h

theorem bind_not_ok {α β : Type} {r : Res α} {k : α → Bytes → Nat → Res β} (h : ∀ x r' p, r ≠ .ok x r' p) :
    ∀ y r' p, r.bind k ≠ .ok y r' p := by
  intro y r' p e
  obtain ⟨a, r1, p1, ha, _⟩ := bind_ok e
  exact h a r1 p1 ha

/-- sequencing (the continuations may differ in their fuel) -/
theorem Pre.bind {α β : Type} {full pre : Res α} {k k' : α → Bytes → Nat → Res β} (h : Pre A b N full pre)
    (hk : ∀ x r p, p + r.length = N → Pre A b N (k x (r ++ b) p) (k' x r p))
    (hE : ∀ y, AtEnd A N (k' y [] N)) : Pre A b N (full.bind k) (pre.bind k') := by
  cases h with
  | same hp => exact hk _ _ _ hp
  | cut _ => exact Pre.of_atEnd _ (hE _)
  | eof hc => exact Pre.of_atEnd _ (.inr ⟨_, rfl, hc⟩)
  | fail h => exact .fail (bind_not_ok h)

/-- sequencing, with the facts about the first step available to the continuation -/
theorem Pre.bind' {α β : Type} {full pre : Res α} {k k' : α → Bytes → Nat → Res β} (h : Pre A b N full pre)
    (hk : ∀ x r p, p + r.length = N → full = .ok x (r ++ b) p → pre = .ok x r p → Pre A b N (k x (r ++ b) p) (k' x r p))
    (hE : ∀ y, pre = .ok y [] N → AtEnd A N (k' y [] N)) : Pre A b N (full.bind k) (pre.bind k') := by
  cases h with
  | same hp => exact hk _ _ _ hp rfl rfl
  | cut _ => exact Pre.of_atEnd _ (hE _ rfl)
  | eof hc => exact Pre.of_atEnd _ (.inr ⟨_, rfl, hc⟩)
  | fail h => exact .fail (bind_not_ok h)

theorem PreS.bind' {α β : Type} {full pre : Res α} {k k' : α → Bytes → Nat → Res β} (h : PreS A b N full pre)
    (hk : ∀ x r p, p + r.length = N → full = .ok x (r ++ b) p → pre = .ok x r p → Pre A b N (k x (r ++ b) p) (k' x r p)) :
    Pre A b N (full.bind k) (pre.bind k') := by
  cases h with
  | same hp => exact hk _ _ _ hp rfl rfl
  | eof hc => exact Pre.of_atEnd _ (.inr ⟨_, rfl, hc⟩)
  | fail h => exact .fail (bind_not_ok h)

theorem PreS.bind {α β : Type} {full pre : Res α} {k k' : α → Bytes → Nat → Res β} (h : PreS A b N full pre)
    (hk : ∀ x r p, p + r.length = N → Pre A b N (k x (r ++ b) p) (k' x r p)) : Pre A b N (full.bind k) (pre.bind k') := by
  cases h with
  | same hp => exact hk _ _ _ hp
  | eof hc => exact Pre.of_atEnd _ (.inr ⟨_, rfl, hc⟩)
  | fail h => exact .fail (bind_not_ok h)

theorem PreS.bindS {α β : Type} {full pre : Res α} {k k' : α → Bytes → Nat → Res β} (h : PreS A b N full pre)
    (hk : ∀ x r p, p + r.length = N → PreS A b N (k x (r ++ b) p) (k' x r p)) : PreS A b N (full.bind k) (pre.bind k') := by
  cases h with
  | same hp => exact hk _ _ _ hp
  | eof hc => exact PreS.of_err _ hc
  | fail h => exact .fail (bind_not_ok h)

theorem Pre.map {α β : Type} {full pre : Res α} (f : α → β) (h : Pre A b N full pre) : Pre A b N (full.map f) (pre.map f) := by
  cases h with
  | same hp => exact .same hp
  | cut _ => exact .cut trivial
  | eof hc => exact .eof hc
  | fail h => exact .fail (bind_not_ok h)

theorem PreS.map {α β : Type} {full pre : Res α} (f : α → β) (h : PreS A b N full pre) : PreS A b N (full.map f) (pre.map f) := by
  cases h with
  | same hp => exact .same hp
  | eof hc => exact .eof hc
  | fail h => exact .fail (bind_not_ok h)

theorem AtEnd.map {α β : Type} {x : Res α} (f : α → β) (h : AtEnd A N x) : AtEnd A N (x.map f) := by
  rcases h with ⟨y, rfl⟩ | ⟨c, rfl, hc⟩
  · exact .inl ⟨f y, rfl⟩
  · exact .inr ⟨c, rfl, hc⟩

theorem AtEnd.bind {α β : Type} {x : Res α} {k : α → Bytes → Nat → Res β} (h : AtEnd A N x)
    (hk : ∀ y, AtEnd A N (k y [] N)) : AtEnd A N (x.bind k) := by
  rcases h with ⟨y, rfl⟩ | ⟨c, rfl, hc⟩
  · exact hk y
  · exact .inr ⟨c, rfl, hc⟩

theorem atEnd_ok {α : Type} (y : α) : AtEnd A N (.ok y [] N : Res α) := .inl ⟨y, rfl⟩
theorem atEnd_err {α : Type} {c : Code} (hc : A c) : AtEnd A N (.err c N : Res α) := .inr ⟨c, rfl, hc⟩

/-- a function of the unread input and its index, related on every split `a ++ b` whose prefix ends at `N` -/
def PreF {α : Type} (A : Code → Prop) (b : Bytes) (N : Nat) (f : Bytes → Nat → Res α) : Prop :=
  ∀ a pos, pos + a.length = N → Pre A b N (f (a ++ b) pos) (f a pos)
def PreSF {α : Type} (A : Code → Prop) (b : Bytes) (N : Nat) (f : Bytes → Nat → Res α) : Prop :=
  ∀ a pos, pos + a.length = N → PreS A b N (f (a ++ b) pos) (f a pos)
def EndF {α : Type} (A : Code → Prop) (N : Nat) (f : Bytes → Nat → Res α) : Prop := AtEnd A N (f [] N)

/-! ## whitespace -/

theorem skipWs_append (a b : Bytes) (pos : Nat) :
    (∃ c a' p, skipWs a pos = (c :: a', p) ∧ skipWs (a ++ b) pos = (c :: (a' ++ b), p)) ∨
    (skipWs a pos = ([], pos + a.length) ∧ skipWs (a ++ b) pos = skipWs b (pos + a.length)) := by
  induction a generalizing pos with
  | nil => right; simp [skipWs]
  | cons x a ih =>
    simp only [List.cons_append, skipWs]
    split
    · rcases ih (pos + 1) with ⟨c, a', p, h1, h2⟩ | ⟨h1, h2⟩
      · exact .inl ⟨c, a', p, h1, h2⟩
      · right
        simp only [List.length_cons]
        rw [h1, h2]
        exact ⟨by congr 1; omega, by congr 1; omega⟩
    · exact .inl ⟨x, a, pos, rfl, rfl⟩

section
variable {env : Env} (hflt : env.flt = false)
variable (hAe : ∀ c, classify c = .eof → A c)
include hflt hAe

omit hAe in
theorem atEof_eq {α : Type} (c : Code) (i : Nat) : (atEof env c i : Res α) = .err c i := by
  unfold atEof; simp [hflt]

/-- `parse_whitespace` then a byte: on the prefix either the same byte is found, or the input ended -/
theorem pre_withPeek {α : Type} {c : Code} (hc : classify c = .eof) {k k' : UInt8 → Bytes → Nat → Res α}
    (hk : ∀ x r p, p + (r.length + 1) = N → Pre A b N (k x (r ++ b) p) (k' x r p)) :
    ∀ a pos, pos + a.length = N → Pre A b N (withPeek env c (a ++ b) pos k) (withPeek env c a pos k') := by
  intro a pos hN
  unfold withPeek
  rcases skipWs_append a b pos with ⟨x, a', p, h1, h2⟩ | ⟨h1, h2⟩
  · rw [h1, h2]
    have := skipWs_eq h1
    simp only [List.length_cons] at this
    exact hk x a' p (by omega)
  · rw [h1]
    simp only
    rw [atEof_eq hflt, hN]
    exact Pre.of_atEnd _ (atEnd_err (hAe c hc))

theorem preS_withPeek {α : Type} {c : Code} (hc : classify c = .eof) {k k' : UInt8 → Bytes → Nat → Res α}
    (hk : ∀ x r p, p + (r.length + 1) = N → PreS A b N (k x (r ++ b) p) (k' x r p)) :
    ∀ a pos, pos + a.length = N → PreS A b N (withPeek env c (a ++ b) pos k) (withPeek env c a pos k') := by
  intro a pos hN
  unfold withPeek
  rcases skipWs_append a b pos with ⟨x, a', p, h1, h2⟩ | ⟨h1, h2⟩
  · rw [h1, h2]
    have := skipWs_eq h1
    simp only [List.length_cons] at this
    exact hk x a' p (by omega)
  · rw [h1]
    simp only
    rw [atEof_eq hflt, hN]
    exact PreS.of_err _ (hAe c hc)

theorem end_withPeek {α : Type} {c : Code} (hc : classify c = .eof) {k : UInt8 → Bytes → Nat → Res α} :
    AtEnd A N (withPeek env c [] N k) := by
  unfold withPeek
  simp only [skipWs]
  rw [atEof_eq hflt]
  exact atEnd_err (hAe c hc)

/-! ## `parse_ident`, scalars without numbers -/

theorem preS_parseIdent (id : Bytes) : PreSF A b N (parseIdent env id) := by
  induction id with
  | nil => intro a pos hN; simp only [parseIdent]; exact .same hN
  | cons e es ih =>
    intro a pos hN
    cases a with
    | nil =>
      simp only [List.nil_append, parseIdent]
      rw [atEof_eq hflt]
      simp only [List.length_nil, Nat.add_zero] at hN
      rw [hN]
      exact PreS.of_err _ (hAe _ rfl)
    | cons x a' =>
      simp only [List.cons_append, parseIdent]
      split
      · exact ih a' (pos + 1) (by simp only [List.length_cons] at hN; omega)
      · exact .fail (by simp)

theorem preS_ident_ok (id : Bytes) (v : TVal) :
    PreSF A b N (fun r p => (parseIdent env id r p).bind fun _ r' p' => (.ok v r' p' : TOut)) := by
  intro a pos hN
  exact (preS_parseIdent hflt hAe id a pos hN).bindS fun _ r p hp => .same hp

omit hflt hAe in
theorem pre_peekInvalidType {α : Type} {rest : Bytes} {pos : Nat} {pre : Res α} :
    Pre A b N (peekInvalidType env rest pos : Res α) pre :=
  .fail (peekInvalidType_not_ok env rest pos)

omit hflt hAe in
theorem preS_peekInvalidType {α : Type} {rest : Bytes} {pos : Nat} {pre : Res α} :
    PreS A b N (peekInvalidType env rest pos : Res α) pre :=
  .fail (peekInvalidType_not_ok env rest pos)

theorem preS_deBool : PreSF A b N (deBool env) := by
  unfold deBool
  refine preS_withPeek hflt hAe rfl fun x r p hp => ?_
  split
  · exact preS_ident_ok hflt hAe _ _ r (p + 1) (by omega)
  · split
    · exact preS_ident_ok hflt hAe _ _ r (p + 1) (by omega)
    · exact preS_peekInvalidType

theorem preS_deUnit : PreSF A b N (deUnit env) := by
  unfold deUnit
  refine preS_withPeek hflt hAe rfl fun x r p hp => ?_
  split
  · exact preS_ident_ok hflt hAe _ _ r (p + 1) (by omega)
  · exact preS_peekInvalidType

/-! ## number literals (`parse_integer`) -/

omit hflt hAe in
theorem digitsOf_append (a b : Bytes) :
    (∃ c r, (digitsOf a).2 = c :: r ∧ digitsOf (a ++ b) = ((digitsOf a).1, (digitsOf a).2 ++ b)) ∨
    ((digitsOf a).2 = [] ∧ (digitsOf a).1 = a ∧ digitsOf (a ++ b) = (a ++ (digitsOf b).1, (digitsOf b).2)) := by
  induction a with
  | nil => right; simp [digitsOf]
  | cons x a ih =>
    simp only [List.cons_append, digitsOf]
    split
    · rcases ih with ⟨c, r, h1, h2⟩ | ⟨h1, h2, h3⟩
      · exact .inl ⟨c, r, h1, by rw [h2]⟩
      · exact .inr ⟨h1, by rw [h2], by rw [h3]⟩
    · exact .inl ⟨x, a, rfl, rfl⟩

omit hflt hAe in
theorem expOverflowIdx_append (e k : Nat) (xs ys : Bytes) (j : Nat) (h : expOverflowIdx e k xs = some j) :
    expOverflowIdx e k (xs ++ ys) = some j := by
  induction xs generalizing e k with
  | nil => simp [expOverflowIdx] at h
  | cons c cs ih =>
    simp only [List.cons_append, expOverflowIdx] at h ⊢
    split
    · rename_i hc; simp only [hc, if_true] at h; exact h
    · rename_i hc; simp only [hc] at h; exact ih _ _ h


/-- the parts of an integer literal against the parts of a prefix of it that is complete when the input ends there:
    same sign, still no fraction and exponent, and the integer digits are a prefix -/
def IntCut (parts parts' : Num.Parts) : Prop :=
  parts.frac = none → parts.exp = none →
    parts'.neg = parts.neg ∧ parts'.frac = none ∧ parts'.exp = none ∧ ∃ tl, parts.int = parts'.int ++ tl

def PreCF {α : Type} (C : α → α → Prop) (A : Code → Prop) (b : Bytes) (N : Nat) (f : Bytes → Nat → Res α) : Prop :=
  ∀ a pos, pos + a.length = N → PreC C A b N (f (a ++ b) pos) (f a pos)

omit hflt hAe in
theorem PreC.of_end_ok {α : Type} {C : α → α → Prop} (full : Res α) (y : α) (h : ∀ x r p, full = .ok x r p → C x y) :
    PreC C A b N full (.ok y [] N) := by
  cases full with
  | ok x r p => exact .cut (h x r p rfl)
  | _ => exact .fail (by simp)

omit hflt hAe in
theorem PreC.of_end_err {α : Type} {C : α → α → Prop} (full : Res α) {c : Code} (hc : A c) : PreC C A b N full (.err c N) := by
  cases full with
  | ok x r p => exact .eof hc
  | _ => exact .fail (by simp)

omit hflt hAe in
theorem scanExpDigits_parts (neg : Bool) (int : Bytes) (frac : Option Bytes) (en : Bool) (rest : Bytes) (pos : Nat)
    (parts : Num.Parts) (r : Bytes) (p : Nat) (h : scanExpDigits env neg int frac en rest pos = .ok parts r p) :
    parts.exp ≠ none ∧ parts.frac = frac ∧ parts.int = int ∧ parts.neg = neg := by
  unfold scanExpDigits at h
  split at h
  · exact absurd h (atEof_ne_ok _ _ _ _ _ _)
  · dsimp only at h
    repeat' split at h
    all_goals first
      | (simp at h; done)
      | (cases h; simp [mkParts])

omit hflt hAe in
theorem scanExp_parts (neg : Bool) (int : Bytes) (frac : Option Bytes) (rest : Bytes) (pos : Nat)
    (parts : Num.Parts) (r : Bytes) (p : Nat) (h : scanExp env neg int frac rest pos = .ok parts r p) :
    parts.exp ≠ none ∧ parts.frac = frac ∧ parts.int = int ∧ parts.neg = neg := by
  unfold scanExp at h
  split at h
  · exact absurd h (atEof_ne_ok _ _ _ _ _ _)
  · repeat' split at h
    all_goals exact scanExpDigits_parts _ _ _ _ _ _ _ _ _ h

omit hflt hAe in
theorem scanAfterInt_parts (neg : Bool) (int : Bytes) (rest : Bytes) (pos : Nat)
    (parts : Num.Parts) (r : Bytes) (p : Nat) (h : scanAfterInt env neg int rest pos = .ok parts r p) :
    parts.int = int ∧ parts.neg = neg ∧ (∀ c tl, rest = c :: tl → (c == 0x2e) = true → parts.frac ≠ none) := by
  unfold scanAfterInt at h
  split at h
  · split at h
    · simp at h
    · cases h; exact ⟨rfl, rfl, fun c tl e => by cases e⟩
  · rename_i c r0
    by_cases h1 : (c == 0x2e) = true
    · simp only [if_pos h1] at h
      have key : parts.int = int ∧ parts.neg = neg ∧ parts.frac ≠ none := by
        repeat' split at h
        all_goals first
          | (simp at h; done)
          | exact absurd h (atEof_ne_ok _ _ _ _ _ _)
          | (cases h; simp [mkParts])
          | (have := scanExp_parts _ _ _ _ _ _ _ _ h; exact ⟨this.2.2.1, this.2.2.2, by rw [this.2.1]; simp⟩)
      exact ⟨key.1, key.2.1, fun _ _ _ _ => key.2.2⟩
    · simp only [if_neg h1] at h
      have key : parts.int = int ∧ parts.neg = neg := by
        split at h
        · have := scanExp_parts _ _ _ _ _ _ _ _ h; exact ⟨this.2.2.1, this.2.2.2⟩
        · cases h; simp [mkParts]
      exact ⟨key.1, key.2, fun c' tl e hc => by cases e; exact absurd hc h1⟩

theorem preC_scanExpDigits (neg : Bool) (int : Bytes) (frac : Option Bytes) (en : Bool) :
    PreCF IntCut A b N (scanExpDigits env neg int frac en) := by
  intro a pos hN
  cases a with
  | nil =>
    have : scanExpDigits env neg int frac en [] pos = .err .EofWhileParsingValue pos := by
      simp [scanExpDigits, atEof_eq hflt]
    rw [this]
    simp only [List.length_nil, Nat.add_zero] at hN
    rw [hN]
    exact PreC.of_end_err _ (hAe _ rfl)
  | cons d r2 =>
    simp only [List.cons_append, scanExpDigits]
    have hlen := digitsOf_length r2
    simp only [List.length_cons] at hN
    by_cases hd : (!Machine.isDigit d) = true
    · simp only [if_pos hd]; exact .fail (by simp)
    · simp only [if_neg hd]
      rcases digitsOf_append r2 b with ⟨c, r3, h2, h3⟩ | ⟨h2, h3, h4⟩
      · rw [h3]
        dsimp only
        have hne : (digitsOf r2).2.isEmpty = false := by rw [h2]; rfl
        have hne' : ((digitsOf r2).2 ++ b).isEmpty = false := by rw [h2]; rfl
        have hp : pos + 1 + (digitsOf r2).1.length + (digitsOf r2).2.length = N := by omega
        cases ho : expOverflowIdx (Num.dig d) 1 (digitsOf r2).1 with
        | some k =>
          dsimp only
          split
          · exact .fail (by simp)
          · simp only [hne, hne', Bool.false_and]
            exact .same hp
        | none =>
          dsimp only
          simp only [hne, hne', Bool.false_and]
          exact .same hp
      · -- the prefix ends inside the exponent digits
        rw [h2, h3]
        have hp : pos + 1 + r2.length = N := by omega
        cases ho : expOverflowIdx (Num.dig d) 1 r2 with
        | some k =>
          dsimp only
          by_cases hz : ((!(int ++ frac.getD []).all fun x => x == 0x30) && !en) = true
          · -- the overflow fires inside the prefix: the full run reports it as well
            rw [h4]
            dsimp only
            rw [expOverflowIdx_append _ _ _ _ _ ho]
            dsimp only
            simp only [if_pos hz]
            exact .fail (by simp)
          · simp only [if_neg hz, hflt, Bool.and_false, Bool.false_eq_true, ↓reduceIte]
            rw [hp]
            refine PreC.of_end_ok _ _ fun x r p hx _ he => ?_
            exfalso
            repeat' split at hx
            all_goals first
              | (simp at hx; done)
              | (cases hx; simp [mkParts] at he)
        | none =>
          dsimp only
          simp only [hflt, Bool.and_false, Bool.false_eq_true, ↓reduceIte]
          rw [hp]
          refine PreC.of_end_ok _ _ fun x r p hx _ he => ?_
          exfalso
          repeat' split at hx
          all_goals first
            | (simp at hx; done)
            | (cases hx; simp [mkParts] at he)

theorem preC_scanExp (neg : Bool) (int : Bytes) (frac : Option Bytes) : PreCF IntCut A b N (scanExp env neg int frac) := by
  intro a pos hN
  cases a with
  | nil =>
    have : scanExp env neg int frac [] pos = .err .EofWhileParsingValue pos := by simp [scanExp, atEof_eq hflt]
    rw [this]
    simp only [List.length_nil, Nat.add_zero] at hN
    rw [hN]
    exact PreC.of_end_err _ (hAe _ rfl)
  | cons c r =>
    simp only [List.cons_append, scanExp]
    simp only [List.length_cons] at hN
    by_cases h1 : (c == 0x2b) = true
    · simp only [if_pos h1]
      exact preC_scanExpDigits hflt hAe neg int frac false r (pos + 1) (by omega)
    · by_cases h2 : (c == 0x2d) = true
      · simp only [if_neg h1, if_pos h2]
        exact preC_scanExpDigits hflt hAe neg int frac true r (pos + 1) (by omega)
      · simp only [if_neg h1, if_neg h2]
        exact preC_scanExpDigits hflt hAe neg int frac false (c :: r) pos (by simp only [List.length_cons]; omega)

theorem preC_scanAfterInt (neg : Bool) (int : Bytes) : PreCF IntCut A b N (scanAfterInt env neg int) := by
  intro a pos hN
  cases a with
  | nil =>
    have : scanAfterInt env neg int [] pos = .ok (mkParts neg int none none) [] pos := by simp [scanAfterInt, hflt]
    rw [this]
    simp only [List.length_nil, Nat.add_zero] at hN
    rw [hN]
    refine PreC.of_end_ok _ _ fun x r p hx _ _ => ?_
    have := scanAfterInt_parts _ _ _ _ _ _ _ hx
    exact ⟨by rw [this.2.1]; rfl, rfl, rfl, [], by rw [this.1]; simp [mkParts]⟩
  | cons c r =>
    simp only [List.cons_append, scanAfterInt]
    simp only [List.length_cons] at hN
    have hlen := digitsOf_length r
    by_cases h1 : (c == 0x2e) = true
    · simp only [if_pos h1]
      rcases digitsOf_append r b with ⟨c2, r3, h2, h3⟩ | ⟨h2, h3, h4⟩
      · rw [h3]
        dsimp only
        rw [h2]
        simp only [List.cons_append]
        rw [h2] at hlen
        simp only [List.length_cons] at hlen
        by_cases he : (digitsOf r).1.isEmpty = true
        · simp only [if_pos he]; exact .fail (by simp)
        · simp only [if_neg he]
          by_cases h5 : (c2 == 0x65 || c2 == 0x45) = true
          · simp only [if_pos h5]
            exact preC_scanExp hflt hAe neg int _ r3 (pos + 1 + (digitsOf r).1.length + 1) (by omega)
          · simp only [if_neg h5]
            show PreC IntCut A b N (.ok _ ((c2 :: r3) ++ b) _) (.ok _ (c2 :: r3) _)
            exact .same (by simp only [List.length_cons]; omega)
      · -- the prefix ends inside the fraction digits
        rw [h2, h3]
        dsimp only
        by_cases he : r.isEmpty = true
        · have hr : r = [] := by simpa using he
          subst hr
          simp only [List.isEmpty_nil, if_true, atEof_eq hflt, List.length_nil]
          simp only [List.length_nil] at hN
          rw [show pos + 1 + 0 = N by omega]
          exact PreC.of_end_err _ (hAe _ rfl)
        · simp only [if_neg he, hflt, Bool.false_eq_true, ↓reduceIte]
          rw [show pos + 1 + r.length = N by omega]
          refine PreC.of_end_ok _ _ fun x r' p hx hf _ => ?_
          exfalso
          rw [h4] at hx
          dsimp only at hx
          repeat' split at hx
          all_goals first
            | (simp at hx; done)
            | exact absurd hx (atEof_ne_ok _ _ _ _ _ _)
            | (cases hx; simp [mkParts] at hf)
            | (have := scanExp_parts _ _ _ _ _ _ _ _ hx; rw [this.2.1] at hf; simp at hf)
    · simp only [if_neg h1]
      by_cases h2 : (c == 0x65 || c == 0x45) = true
      · simp only [if_pos h2]
        exact preC_scanExp hflt hAe neg int none r (pos + 1) (by omega)
      · simp only [if_neg h2]
        show PreC IntCut A b N (.ok _ ((c :: r) ++ b) _) (.ok _ (c :: r) _)
        exact .same (by simp only [List.length_cons]; omega)

theorem preC_scanInteger (neg : Bool) : PreCF IntCut A b N (scanInteger env neg) := by
  intro a pos hN
  have cutI : ∀ (full : Res Num.Parts) (int tl : Bytes), (∀ x r p, full = .ok x r p → x.int = int ++ tl ∧ x.neg = neg) →
      PreC IntCut A b N full (.ok (mkParts neg int none none) [] N) := fun full int tl h =>
    PreC.of_end_ok full _ fun x r p hx _ _ => ⟨by rw [(h x r p hx).2]; rfl, rfl, rfl, tl, (h x r p hx).1⟩
  cases a with
  | nil =>
    have : scanInteger env neg [] pos = .err .EofWhileParsingValue pos := by simp [scanInteger, atEof_eq hflt]
    rw [this]
    simp only [List.length_nil, Nat.add_zero] at hN
    rw [hN]
    exact PreC.of_end_err _ (hAe _ rfl)
  | cons c r =>
    simp only [List.cons_append, scanInteger]
    simp only [List.length_cons] at hN
    by_cases h1 : (c == 0x30) = true
    · simp only [if_pos h1]
      cases r with
      | nil =>
        have : scanAfterInt env neg [c] [] (pos + 1) = .ok (mkParts neg [c] none none) [] (pos + 1) := by simp [scanAfterInt, hflt]
        simp only [this]
        simp only [List.length_nil] at hN
        rw [show pos + 1 = N by omega]
        refine cutI _ [c] [] fun x r p hx => ?_
        simp only [List.nil_append] at hx
        split at hx
        · cases hx; exact ⟨by simp [mkParts], rfl⟩
        · split at hx
          · simp at hx
          · have := scanAfterInt_parts _ _ _ _ _ _ _ hx; exact ⟨by rw [this.1]; simp, this.2.1⟩
      | cons d tl =>
        simp only [List.cons_append]
        split
        · exact .fail (by simp)
        · exact preC_scanAfterInt hflt hAe neg [c] (d :: tl) (pos + 1) (by omega)
    · simp only [if_neg h1]
      split
      · have hlen := digitsOf_length r
        rcases digitsOf_append r b with ⟨c2, r3, h2, h3⟩ | ⟨h2, h3, h4⟩
        · rw [h3]
          dsimp only
          exact preC_scanAfterInt hflt hAe neg _ (digitsOf r).2 (pos + 1 + (digitsOf r).1.length) (by omega)
        · rw [h2, h3]
          have : scanAfterInt env neg (c :: r) [] (pos + 1 + r.length) = .ok (mkParts neg (c :: r) none none) [] (pos + 1 + r.length) := by
            simp [scanAfterInt, hflt]
          rw [this, show pos + 1 + r.length = N by omega, h4]
          dsimp only
          refine cutI _ (c :: r) (digitsOf b).1 fun x r' p hx => ?_
          have := scanAfterInt_parts _ _ _ _ _ _ _ hx
          exact ⟨by rw [this.1]; simp, this.2.1⟩
      · exact .fail (by simp)

theorem preC_scanNumber : PreCF IntCut A b N (scanNumber env) := by
  intro a pos hN
  cases a with
  | nil =>
    have : scanNumber env [] pos = .err .EofWhileParsingValue pos := by simp [scanNumber, atEof_eq hflt]
    rw [this]
    simp only [List.length_nil, Nat.add_zero] at hN
    rw [hN]
    exact PreC.of_end_err _ (hAe _ rfl)
  | cons x r =>
    simp only [List.cons_append, scanNumber]
    simp only [List.length_cons] at hN
    split
    · exact preC_scanInteger hflt hAe true r (pos + 1) (by omega)
    · exact preC_scanInteger hflt hAe false (x :: r) pos (by simp only [List.length_cons]; omega)

theorem pre_scanNumber : PreF A b N (scanNumber env) := fun a pos hN => (preC_scanNumber hflt hAe a pos hN).weaken

omit hflt hAe in
theorem parserNumber_not_lit (p : Num.Parts) (n : SJ.Num) (h : parserNumber env p = some n) : ∀ s, n ≠ .lit s := by
  intro s hs
  unfold parserNumber at h
  split at h <;> simp at h <;> subst h <;> cases hs

omit hflt hAe in
/-- serde's float visitors accept every `ParserNumber` -/
theorem visitNumber_float_ok (ty : NumTy) (hty : ∀ w, ty ≠ .int w) (p : Num.Parts) (n : SJ.Num)
    (h : parserNumber env p = some n) : ∃ v, visitNumber ty n = .ok v := by
  have hl := parserNumber_not_lit p n h
  cases ty with
  | int w => exact absurd rfl (hty w)
  | f64 => cases n <;> simp [visitNumber, FromValue.numberF64] <;> exact absurd rfl (hl _)
  | f32 => cases n <;> simp [visitNumber, FromValue.numberF32] <;> exact absurd rfl (hl _)

omit hflt hAe in
theorem pre_ofVisit_fix (v : FromValue.R) (pk : Bool) (r : Bytes) (p : Nat) (hp : p + r.length = N) :
    Pre A b N (fixPos env pk (ofVisit v (r ++ b) p)) (fixPos env pk (ofVisit v r p)) := by
  cases v with
  | ok t => exact .same hp
  | error e => exact .fail (by simp [ofVisit, fixPos])

/-- `deserialize_f64` / `deserialize_f32`: the visitor accepts every number, so a literal cut short still gives a value
    (or is out of range: `NumberOutOfRange` at the end of the prefix) -/
theorem pre_deNumber_float (hAn : A .NumberOutOfRange) (ty : NumTy) (hty : ∀ w, ty ≠ .int w) : PreF A b N (deNumber env ty) := by
  unfold deNumber
  refine pre_withPeek hflt hAe rfl fun x r p hp => ?_
  split
  · refine (pre_scanNumber hflt hAe (x :: r) p (by simp only [List.length_cons]; omega)).bind (fun parts r' p' hp' => ?_) (fun parts => ?_)
    · split
      · split
        · exact .same hp'
        · exact .fail (by simp)
      · split
        · exact pre_ofVisit_fix _ _ _ _ hp'
        · exact .fail (by simp)
    · split
      · split
        · exact atEnd_ok _
        · exact atEnd_err hAn
      · split
        · rename_i n hn
          obtain ⟨v, hv⟩ := visitNumber_float_ok (env := env) ty hty _ n hn
          rw [hv]
          exact atEnd_ok _
        · exact atEnd_err hAn
  · exact pre_peekInvalidType

/-! ## 128-bit integers -/

theorem pre_scanDigits (acc : Bytes) : PreF A b N (scanDigits env acc) := by
  intro a
  induction a generalizing acc with
  | nil =>
    intro pos hN
    have : scanDigits env acc [] pos = .ok acc.reverse [] pos := by simp [scanDigits, hflt]
    rw [this]
    simp only [List.length_nil, Nat.add_zero] at hN
    rw [hN]
    exact Pre.of_atEnd _ (atEnd_ok _)
  | cons c r ih =>
    intro pos hN
    simp only [List.cons_append, scanDigits]
    simp only [List.length_cons] at hN
    by_cases hd : Machine.isDigit c = true
    · simp only [if_pos hd]
      exact ih (c :: acc) (pos + 1) (by omega)
    · simp only [if_neg hd]
      show Pre A b N (.ok _ ((c :: r) ++ b) _) (.ok _ (c :: r) _)
      exact .same (by simp only [List.length_cons]; omega)

theorem pre_scanInteger128 : PreF A b N (scanInteger128 env) := by
  intro a pos hN
  cases a with
  | nil =>
    have : scanInteger128 env [] pos = .err .EofWhileParsingValue pos := by simp [scanInteger128, atEof_eq hflt]
    rw [this]
    simp only [List.length_nil, Nat.add_zero] at hN
    rw [hN]
    exact Pre.of_atEnd _ (atEnd_err (hAe _ rfl))
  | cons c r =>
    simp only [List.cons_append, scanInteger128]
    simp only [List.length_cons] at hN
    by_cases h1 : (c == 0x30) = true
    · simp only [if_pos h1]
      cases r with
      | nil =>
        simp only [hflt, Bool.false_eq_true, ↓reduceIte]
        simp only [List.length_nil] at hN
        rw [show pos + 1 = N by omega]
        exact Pre.of_atEnd _ (atEnd_ok _)
      | cons d tl =>
        simp only [List.cons_append]
        split
        · exact .fail (by simp)
        · show Pre A b N (.ok _ ((d :: tl) ++ b) _) (.ok _ (d :: tl) _)
          exact .same (by simp only [List.length_cons] at hN ⊢; omega)
    · simp only [if_neg h1]
      split
      · exact pre_scanDigits hflt hAe [c] r (pos + 1) (by omega)
      · exact .fail (by simp)

omit hflt hAe in
theorem errorIdx_nil (pos : Nat) (pk : Bool) : errorIdx env [] pos pk = pos := by simp [errorIdx]

/-! ## the machine as a sub-parser -/

omit hflt hAe in
theorem finishMode_err (menv : Machine.Env) (s : St) (c : Code) (h : finishMode menv s = .error c) : classify c = .eof := by
  unfold finishMode at h
  repeat' split at h
  all_goals first
    | (simp at h; done)
    | (simp at h; subst h; rfl)

omit hflt hAe in
theorem finishT_err (menv : Machine.Env) (t : Nat) (s : St) (c : Code) (h : finishT menv t s = .error c) :
    classify c = .eof ∨ c = .NumberOutOfRange := by
  unfold finishT at h
  split at h
  · rename_i n _
    split at h
    · simp at h; subst h; left; rfl
    · simp at h; subst h; left; rfl
    · simp at h; subst h; left; rfl
    · simp at h; subst h; left; rfl
    · split at h
      · split at h
        · simp at h
        · exact .inl (finishMode_err _ _ _ h)
      · rename_i c' a hc
        simp at h; subst h
        exact .inr (SJ.Proofs.Machine.endNumber_err menv s n c' a hc).1
  · exact .inl (finishMode_err _ _ _ h)

omit hflt hAe in
/-- the machine on `a ++ b` against the machine on `a`: the value is decided inside `a`, or the run on `a` ends at
    the end of `a` — with a value (a number ended by the end of input) or an `Eof…` / `NumberOutOfRange` error -/
theorem runPfx_pre (menv : Machine.Env) (t : Nat) (Q : Code → Prop) (hfin : ∀ s c, finishT menv t s = .error c → Q c)
    (a b : Bytes) : ∀ (s : St) (i : Nat) (v : JV) (e : Nat),
    runPfx menv false t s i (a ++ b) = .ok v e →
    (e ≤ i + a.length ∧ runPfx menv false t s i a = .ok v e) ∨
    (∃ v', runPfx menv false t s i a = .ok v' (i + a.length)) ∨
    (∃ c, runPfx menv false t s i a = .err c (i + a.length) ∧ Q c) := by
  induction a with
  | nil =>
    intro s i v e _
    right
    simp only [runPfx, Bool.false_eq_true, ↓reduceIte, List.length_nil, Nat.add_zero]
    cases hf : finishT menv t s with
    | ok v' => exact .inl ⟨v', rfl⟩
    | error c => exact .inr ⟨c, rfl, hfin _ _ hf⟩
  | cons x a ih =>
    intro s i v e h
    simp only [List.cons_append] at h
    unfold runPfx at h ⊢
    have lift : ∀ s', runPfx menv false t s' (i + 1) (a ++ b) = .ok v e →
        (e ≤ i + (x :: a).length ∧ runPfx menv false t s' (i + 1) a = .ok v e) ∨
        (∃ v', runPfx menv false t s' (i + 1) a = .ok v' (i + (x :: a).length)) ∨
        (∃ c, runPfx menv false t s' (i + 1) a = .err c (i + (x :: a).length) ∧ Q c) := by
      intro s' h'
      have := ih s' (i + 1) v e h'
      simp only [List.length_cons]
      rw [show i + (a.length + 1) = i + 1 + a.length by omega]
      rcases this with ⟨h1, h2⟩ | h2 | h2
      · exact .inl ⟨h1, h2⟩
      · exact .inr (.inl h2)
      · exact .inr (.inr h2)
    cases hs : step1 menv s x with
    | err c a' => rw [hs] at h; simp at h
    | next s' =>
      rw [hs] at h
      simp only at h ⊢
      cases hc : completed t s' with
      | some v' =>
        rw [hc] at h
        simp at h
        obtain ⟨rfl, rfl⟩ := h
        exact .inl ⟨by simp only [List.length_cons]; omega, rfl⟩
      | none =>
        rw [hc] at h
        exact lift s' h
    | again s' =>
      rw [hs] at h
      simp only at h ⊢
      cases hc : completed t s' with
      | some v' =>
        rw [hc] at h
        simp at h
        obtain ⟨rfl, rfl⟩ := h
        exact .inl ⟨by omega, rfl⟩
      | none =>
        rw [hc] at h
        simp only at h ⊢
        cases hs2 : step1 menv s' x with
        | err c a' => rw [hs2] at h; simp at h
        | next s'' =>
          rw [hs2] at h
          simp only at h ⊢
          cases hc2 : completed t s'' with
          | some v' =>
            rw [hc2] at h
            simp at h
            obtain ⟨rfl, rfl⟩ := h
            exact .inl ⟨by simp only [List.length_cons]; omega, rfl⟩
          | none =>
            rw [hc2] at h
            exact lift s'' h
        | again s'' => rw [hs2] at h; simp at h

omit hflt hAe in
theorem drop_append_le {α : Type} (a b : List α) (k : Nat) (h : k ≤ a.length) : (a ++ b).drop k = a.drop k ++ b := by
  induction a generalizing k with
  | nil => simp at h; subst h; simp
  | cons x a ih =>
    cases k with
    | zero => simp
    | succ k => simp only [List.cons_append, List.drop_succ_cons]; exact ih k (by simpa using h)

omit hflt in
/-- the end-of-input table of the `Value` parser: `Eof…` codes and `NumberOutOfRange` -/
theorem finA_value (hAn : A .NumberOutOfRange) (menv : Machine.Env) (t : Nat) : ∀ s c, finishT menv t s = .error c → A c :=
  fun s c h => (finishT_err menv t s c h).elim (hAe c) (fun e => e ▸ hAn)

omit hflt in
/-- the end-of-input table of `ignore_value`: `Eof…` codes only (numbers are not converted) -/
theorem finA_ignored (menv : Machine.Env) (htgt : menv.tgt = .ignored) (t : Nat) : ∀ s c, finishT menv t s = .error c → A c := by
  intro s c h
  apply hAe
  unfold finishT at h
  split at h
  · split at h
    · simp at h; subst h; rfl
    · simp at h; subst h; rfl
    · simp at h; subst h; rfl
    · simp at h; subst h; rfl
    · split at h
      · split at h
        · simp at h
        · exact finishMode_err _ _ _ h
      · rename_i c' a' hc
        unfold Machine.endNumber at hc
        simp [htgt] at hc
  · exact finishMode_err _ _ _ h

/-- one value on the machine, from any state; `hfin`: what the machine's end-of-input table may answer -/
theorem pre_machine (menv : Machine.Env) (t : Nat) (s : St) (hfin : ∀ s' c, finishT menv t s' = .error c → A c) :
    PreF A b N (machine menv false t s) := by
  intro a pos hN
  unfold machine
  cases hf : runPfx menv false t s pos (a ++ b) with
  | err c i => exact .fail (by simp)
  | io => exact .fail (by simp)
  | ok v e =>
    have hge := runPfx_ge _ _ _ _ _ _ _ _ hf
    rcases runPfx_pre menv t A hfin a b s pos v e hf with ⟨h1, h2⟩ | ⟨v', h2⟩ | ⟨c, h2, hc⟩
    · rw [h2]
      simp only
      rw [drop_append_le a b (e - pos) (by omega)]
      exact .same (by simp only [List.length_drop]; omega)
    · rw [h2]
      simp only
      have : a.drop (pos + a.length - pos) = [] := by simp
      rw [this, hN]
      exact .cut trivial
    · rw [h2]
      simp only
      rw [hN]
      exact .eof hc

theorem end_machine (menv : Machine.Env) (t : Nat) (s : St) (hfin : ∀ s' c, finishT menv t s' = .error c → A c) :
    AtEnd A N (machine menv false t s [] N) := by
  unfold machine
  simp only [runPfx, Bool.false_eq_true, ↓reduceIte]
  cases hf : finishT menv t s with
  | ok v => simp only [Nat.sub_self, List.drop_nil]; exact atEnd_ok _
  | error c => exact atEnd_err (hfin _ _ hf)

/-! ### strings: a string literal never ends because the input ended -/

/-- inside a string literal at top level of the sub-parser -/
def IsStr (s : St) : Prop := ∃ st, s = { mode := .str st, stack := [] }

omit hflt hAe in
theorem isStr_step (menv : Machine.Env) (s : St) (hs : IsStr s) (x : UInt8) :
    (∃ c a, step1 menv s x = .err c a) ∨
    (∃ s', step1 menv s x = .next s' ∧ (IsStr s' ∨ ∃ v, s' = { mode := .done v, stack := [] })) := by
  obtain ⟨st, rfl⟩ := hs
  simp only [step1, Machine.stepStr]
  repeat' split
  all_goals first
    | exact .inl ⟨_, _, rfl⟩
    | exact .inr ⟨_, rfl, .inl ⟨_, rfl⟩⟩
    | (simp only [Machine.endStr]
       repeat' split
       all_goals first
         | exact .inl ⟨_, _, rfl⟩
         | exact .inr ⟨_, rfl, .inr ⟨_, rfl⟩⟩
         | exact .inr ⟨_, rfl, .inl ⟨_, rfl⟩⟩)

omit hflt hAe in
theorem runPfx_str_pre (menv : Machine.Env) (t : Nat) (a b : Bytes) : ∀ (s : St) (i : Nat) (v : JV) (e : Nat), IsStr s →
    runPfx menv false t s i (a ++ b) = .ok v e →
    (e ≤ i + a.length ∧ runPfx menv false t s i a = .ok v e) ∨
    runPfx menv false t s i a = .err .EofWhileParsingString (i + a.length) := by
  induction a with
  | nil =>
    intro s i v e hs _
    right
    obtain ⟨st, rfl⟩ := hs
    simp [runPfx, finishT, finishMode]
  | cons x a ih =>
    intro s i v e hs h
    simp only [List.cons_append] at h
    unfold runPfx at h ⊢
    rcases isStr_step menv s hs x with ⟨c, a', he⟩ | ⟨s', hn, hs'⟩
    · rw [he] at h; simp at h
    · rw [hn] at h ⊢
      simp only at h ⊢
      rcases hs' with hs' | ⟨v', rfl⟩
      · have hc : completed t s' = none := by obtain ⟨st, rfl⟩ := hs'; rfl
        rw [hc] at h ⊢
        simp only at h ⊢
        rcases ih s' (i + 1) v e hs' h with ⟨h1, h2⟩ | h2
        · exact .inl ⟨by simp only [List.length_cons]; omega, h2⟩
        · right; rw [h2]; simp only [List.length_cons]; congr 1; omega
      · have hc : completed t { mode := .done v', stack := [] } = some v' := rfl
        rw [hc] at h ⊢
        simp at h
        obtain ⟨rfl, rfl⟩ := h
        exact .inl ⟨by simp only [List.length_cons]; omega, rfl⟩

theorem preS_parseStr : PreSF A b N (parseStr env) := by
  intro a pos hN
  unfold parseStr machine
  rw [hflt]
  cases hf : runPfx (valEnv env) false 0 { mode := .str {} } pos (a ++ b) with
  | err c i => exact .fail (by simp [Res.bind])
  | io => exact .fail (by simp [Res.bind])
  | ok v e =>
    have hge := runPfx_ge _ _ _ _ _ _ _ _ hf
    rcases runPfx_str_pre (valEnv env) 0 a b _ pos v e ⟨_, rfl⟩ hf with ⟨h1, h2⟩ | h2
    · rw [h2]
      simp only [Res.bind]
      rw [drop_append_le a b (e - pos) (by omega)]
      have hp : e + (a.drop (e - pos)).length = N := by simp only [List.length_drop]; omega
      split <;> exact .same hp
    · rw [h2]
      simp only [Res.bind]
      rw [hN]
      exact PreS.of_err _ (hAe _ rfl)

/-! ## strings -/

omit hflt hAe in
theorem preS_ofVisit_fix (v : FromValue.R) (pk : Bool) (r : Bytes) (p : Nat) (hp : p + r.length = N) :
    PreS A b N (fixPos env pk (ofVisit v (r ++ b) p)) (fixPos env pk (ofVisit v r p)) := by
  cases v with
  | ok t => exact .same hp
  | error e => exact .fail (by simp [ofVisit, fixPos])

omit hflt hAe in
theorem preS_ofVisit (v : FromValue.R) (r : Bytes) (p : Nat) (hp : p + r.length = N) :
    PreS A b N (ofVisit v (r ++ b) p) (ofVisit v r p) := by
  cases v with
  | ok t => exact .same hp
  | error e => exact .fail (by simp [ofVisit])

theorem preS_deStr (visit : Bytes → FromValue.R) : PreSF A b N (deStr env visit) := by
  unfold deStr
  refine preS_withPeek hflt hAe rfl fun x r p hp => ?_
  split
  · exact (preS_parseStr hflt hAe r (p + 1) (by omega)).bindS fun s r' p' hp' => preS_ofVisit_fix _ _ _ _ hp'
  · exact preS_peekInvalidType

theorem end_deStr (visit : Bytes → FromValue.R) : EndF A N (deStr env visit) := end_withPeek hflt hAe rfl

theorem preS_runRaw : ∀ (st : RawSt), PreSF A b N (runRaw env st) := by
  intro st a
  induction a generalizing st with
  | nil =>
    intro pos hN
    simp only [List.nil_append]
    have : runRaw env st [] pos = .err .EofWhileParsingString pos := by simp [runRaw, atEof_eq hflt]
    rw [this]
    simp only [List.length_nil, Nat.add_zero] at hN
    rw [hN]
    exact PreS.of_err _ (hAe _ rfl)
  | cons x r ih =>
    intro pos hN
    simp only [List.cons_append, runRaw]
    simp only [List.length_cons] at hN
    cases h1 : stepRaw st x with
    | done => exact .same (by omega)
    | err c => exact .fail (by simp)
    | next st' => exact ih st' (pos + 1) (by omega)
    | again st' =>
      simp only
      cases h2 : stepRaw st' x with
      | done => exact .same (by omega)
      | err c => exact .fail (by simp)
      | next st'' => exact ih st'' (pos + 1) (by omega)
      | again _ => exact .fail (by simp)

/-! ## sequences -/

theorem preS_hasNextElement (first : Bool) : PreSF A b N (hasNextElement env first) := by
  unfold hasNextElement
  refine preS_withPeek hflt hAe rfl fun x r p hp => ?_
  split
  · show PreS A b N (.ok _ ((x :: r) ++ b) _) (.ok _ (x :: r) _)
    exact .same (by simp only [List.length_cons]; omega)
  · split
    · show PreS A b N (.ok _ ((x :: r) ++ b) _) (.ok _ (x :: r) _)
      exact .same (by simp only [List.length_cons]; omega)
    · split
      · refine preS_withPeek hflt hAe rfl (fun c r' q hq => ?_) r (p + 1) (by omega)
        split
        · exact .fail (by simp)
        · show PreS A b N (.ok _ ((c :: r') ++ b) _) (.ok _ (c :: r') _)
          exact .same (by simp only [List.length_cons]; omega)
      · exact .fail (by simp)

theorem hasNextElement_nil (first : Bool) : hasNextElement env first [] N = .err .EofWhileParsingList N := by
  simp [hasNextElement, withPeek, skipWs, atEof_eq hflt]

theorem pre_nextElement (de : Bytes → Nat → TOut) (hp : PreF A b N de) (first : Bool) : PreF A b N (nextElement env de first) := by
  intro a pos hN
  unfold nextElement
  refine (preS_hasNextElement hflt hAe first a pos hN).bind fun more r p hp' => ?_
  split
  · exact (hp r p hp').map _
  · exact .same hp'

theorem nextElement_nil (de : Bytes → Nat → TOut) (first : Bool) : nextElement env de first [] N = .err .EofWhileParsingList N := by
  simp [nextElement, hasNextElement_nil hflt hAe, Res.bind]

theorem pre_seqLoop (de : Bytes → Nat → TOut) (hg : Good de) (hp : PreF A b N de) :
    ∀ (n' n : Nat) (first : Bool) (acc : List TVal) (a : Bytes) (pos : Nat), a.length < n' → (a ++ b).length < n →
      pos + a.length = N → Pre A b N (seqLoop env de n first acc (a ++ b) pos) (seqLoop env de n' first acc a pos) := by
  intro n'
  induction n' with
  | zero => intro n first acc a pos h; omega
  | succ n' ih =>
    intro n first acc a pos h1 h2 hN
    cases n with
    | zero => omega
    | succ m =>
      unfold seqLoop
      have hspec := nextElement_spec env de hg first a pos
      refine (pre_nextElement hflt hAe de hp first a pos hN).bind' (fun o r p hp' hfull hpre => ?_) (fun o hpre => ?_)
      · cases o with
        | none => exact .same hp'
        | some v =>
          have hl := hspec.2 _ _ _ hpre
          have hlt := hl.2.1 (by simp)
          simp only [List.length_append] at h2
          exact ih m false (v :: acc) r p (by omega) (by simp only [List.length_append]; omega) hp'
      · cases o with
        | none => exact atEnd_ok _
        | some v =>
          have hl := hspec.2 _ _ _ hpre
          have hlt := hl.2.1 (by simp)
          simp only [List.length_nil] at hlt
          cases n' with
          | zero => omega
          | succ k =>
            simp only
            unfold seqLoop
            rw [nextElement_nil hflt hAe]
            exact atEnd_err (hAe _ rfl)

omit hflt hAe in
/-- `has_next_element` answers `false` only with the `]` peeked -/
theorem hasNextElement_false (first : Bool) (rest : Bytes) (pos : Nat) (r : Bytes) (p : Nat)
    (h : hasNextElement env first rest pos = .ok false r p) : r ≠ [] := by
  unfold hasNextElement withPeek at h
  simp only at h
  repeat' split at h
  all_goals first
    | (simp at h; done)
    | (cases h; simp)
    | exact absurd h (atEof_ne_ok _ _ _ _ _ _)

omit hflt hAe in
theorem nextElement_none (de : Bytes → Nat → TOut) (first : Bool) (rest : Bytes) (pos : Nat) (r : Bytes) (p : Nat)
    (h : nextElement env de first rest pos = .ok none r p) : r ≠ [] := by
  unfold nextElement at h
  obtain ⟨more, r1, p1, h1, h2⟩ := bind_ok h
  cases more with
  | true => simp only [if_true] at h2; obtain ⟨v, _, hv⟩ := map_ok h2; cases hv
  | false =>
    simp at h2
    obtain ⟨rfl, rfl⟩ := h2
    exact hasNextElement_false first rest pos _ _ h1

theorem pre_tupleLoop (de : Schema → Bytes → Nat → TOut) (ss : List Schema) (hp : ∀ s ∈ ss, PreF A b N (de s)) :
    ∀ (first : Bool) (acc : List TVal), PreF A b N (tupleLoop env de ss first acc) := by
  induction ss with
  | nil => intro first acc a pos hN; simp only [tupleLoop]; exact .same hN
  | cons s ss ih =>
    intro first acc a pos hN
    unfold tupleLoop
    refine (pre_nextElement hflt hAe (de s) (hp s (by simp)) first a pos hN).bind' (fun o r p hp' _ _ => ?_) (fun o hpre => ?_)
    · cases o with
      | none => exact .fail (by simp)
      | some v => exact ih (fun s' hs' => hp s' (by simp [hs'])) false (v :: acc) r p hp'
    · cases o with
      | none => exact absurd rfl (nextElement_none (de s) first a pos [] N hpre)
      | some v =>
        cases ss with
        | nil => simp only [tupleLoop]; exact atEnd_ok _
        | cons s2 ss2 =>
          simp only
          unfold tupleLoop
          rw [nextElement_nil hflt hAe]
          exact atEnd_err (hAe _ rfl)

theorem preS_endSeq : PreSF A b N (fun r p => (endSeq env r p).res) := by
  intro a pos hN
  show PreS A b N (endSeq env (a ++ b) pos).res (endSeq env a pos).res
  unfold endSeq
  rcases skipWs_append a b pos with ⟨x, a', p, h1, h2⟩ | ⟨h1, h2⟩
  · rw [h1, h2]
    have := skipWs_eq h1
    simp only [List.length_cons] at this
    dsimp only
    by_cases hx : (x == 0x5d) = true
    · simp only [if_pos hx]; exact .same (by omega)
    · simp only [if_neg hx]
      by_cases hc : (x == 0x2c) = true
      · simp only [if_pos hc]
        rcases skipWs_append a' b (p + 1) with ⟨y, a'', q, h3, h4⟩ | ⟨h3, h4⟩
        · rw [h3, h4]; exact .fail (by simp)
        · rw [h3]
          -- `[1,` cut after the comma: trailing characters at the end of the prefix — but then the full text is rejected too
          cases hs : skipWs b (p + 1 + a'.length) with
          | mk r2 q =>
            rw [h4, hs]
            cases r2 <;> exact .fail (by simp)
      · simp only [if_neg hc]; exact .fail (by simp)
  · rw [h1]
    simp only
    rw [atEof_eq hflt, hN]
    exact PreS.of_err _ (hAe _ rfl)

theorem endSeq_nil : (endSeq env [] N).res = .err .EofWhileParsingList N := by
  simp [endSeq, skipWs, atEof_eq hflt]

omit hflt hAe in
theorem closeWith_not_ok {α : Type} (endFn : Bytes → Nat → EndState) {ret : Res α} (h : ∀ x r p, ret ≠ .ok x r p) :
    ∀ x r p, closeWith env endFn ret ≠ .ok x r p := by
  intro x r p
  cases ret with
  | ok x' r' p' => exact absurd rfl (h x' r' p')
  | _ => simp [closeWith]

omit hflt in
theorem pre_closeWith {α : Type} (endFn : Bytes → Nat → EndState) (hend : PreSF A b N (fun r p => (endFn r p).res))
    (hnil : ∃ c, (endFn [] N).res = .err c N ∧ classify c = .eof) {full pre : Res α} (h : Pre A b N full pre) :
    Pre A b N (closeWith env endFn full) (closeWith env endFn pre) := by
  obtain ⟨c0, hc0, hc0e⟩ := hnil
  cases h with
  | same hp =>
    simp only [closeWith]
    exact (hend _ _ hp).bind fun _ r p hp' => .same hp'
  | cut _ =>
    refine Pre.of_atEnd _ ?_
    simp only [closeWith, hc0, Res.bind]
    exact atEnd_err (hAe _ hc0e)
  | eof hc =>
    refine Pre.of_atEnd _ ?_
    simp only [closeWith]
    exact atEnd_err hc
  | fail h => exact .fail (closeWith_not_ok endFn h)

theorem pre_deSeq (t : Nat) (visit visit' : Bytes → Nat → TOut)
    (hv : ∀ a pos, pos + a.length = N → Pre A b N (visit (a ++ b) pos) (visit' a pos)) :
    ∀ a pos, pos + a.length = N → Pre A b N (deSeq env t visit (a ++ b) pos) (deSeq env t visit' a pos) := by
  unfold deSeq
  refine pre_withPeek hflt hAe rfl fun x r p hp => ?_
  split
  · split
    · exact .fail (by simp)
    · exact pre_closeWith hAe _ (preS_endSeq hflt hAe) ⟨_, endSeq_nil hflt hAe, rfl⟩ (hv r (p + 1) (by omega))
  · exact pre_peekInvalidType

theorem end_deSeq (t : Nat) (visit : Bytes → Nat → TOut) : EndF A N (deSeq env t visit) := end_withPeek hflt hAe rfl

/-! ## integers (a hypothesis here: `IntPre`, discharged in `TypedPrefixInt` by digit-prefix arithmetic) -/

/-- the integer targets satisfy the prefix relation (a digit-prefix of an in-range integer is in range) -/
def IntPre (A : Code → Prop) (b : Bytes) (N : Nat) (env : Env) : Prop := ∀ w, PreF A b N (deInt env w)

theorem deNumber_nil (ty : NumTy) : deNumber env ty [] N = .err .EofWhileParsingValue N := by
  simp [deNumber, withPeek, skipWs, atEof_eq hflt]

theorem deInt_nil (w : IntTy) : deInt env w [] N = .err .EofWhileParsingValue N := by
  unfold deInt
  split
  · simp [deInt128, withPeek, skipWs, atEof_eq hflt]
  · exact deNumber_nil hflt hAe _

theorem pre_deBytes (hint : IntPre A b N env) (t : Nat) : PreF A b N (deBytes env t) := by
  unfold deBytes
  refine pre_withPeek hflt hAe rfl fun x r p hp => ?_
  split
  · exact ((preS_runRaw hflt hAe {} r (p + 1) (by omega)).map _).toPre
  · split
    · refine pre_deSeq hflt hAe t _ _ (fun a pos hN => ?_) (x :: r) p (by simp only [List.length_cons]; omega)
      have h8 : PreF A b N (deNumber env (.int .u8)) := hint .u8
      exact (pre_seqLoop hflt hAe _ (deNumber_shr env _) h8 _ _ _ _ a pos (by omega) (by omega) hN).map _
    · exact pre_peekInvalidType

/-! ## maps -/

theorem preS_hasNextKey (first : Bool) : PreSF A b N (hasNextKey env first) := by
  unfold hasNextKey
  refine preS_withPeek hflt hAe rfl fun x r p hp => ?_
  split
  · show PreS A b N (.ok _ ((x :: r) ++ b) _) (.ok _ (x :: r) _)
    exact .same (by simp only [List.length_cons]; omega)
  · split
    · split
      · show PreS A b N (.ok _ ((x :: r) ++ b) _) (.ok _ (x :: r) _)
        exact .same (by simp only [List.length_cons]; omega)
      · exact .fail (by simp)
    · split
      · refine preS_withPeek hflt hAe rfl (fun c r' q hq => ?_) r (p + 1) (by omega)
        split
        · show PreS A b N (.ok _ ((c :: r') ++ b) _) (.ok _ (c :: r') _)
          exact .same (by simp only [List.length_cons]; omega)
        · split <;> exact .fail (by simp)
      · exact .fail (by simp)

theorem hasNextKey_nil (first : Bool) : hasNextKey env first [] N = .err .EofWhileParsingObject N := by
  simp [hasNextKey, withPeek, skipWs, atEof_eq hflt]

theorem preS_parseObjectColon : PreSF A b N (parseObjectColon env) := by
  unfold parseObjectColon
  refine preS_withPeek hflt hAe rfl fun x r p hp => ?_
  split
  · exact .same (by omega)
  · exact .fail (by simp)

theorem parseObjectColon_nil : parseObjectColon env [] N = .err .EofWhileParsingObject N := by
  simp [parseObjectColon, withPeek, skipWs, atEof_eq hflt]

theorem preS_endMap : PreSF A b N (fun r p => (endMap env r p).res) := by
  intro a pos hN
  show PreS A b N (endMap env (a ++ b) pos).res (endMap env a pos).res
  unfold endMap
  rcases skipWs_append a b pos with ⟨x, a', p, h1, h2⟩ | ⟨h1, h2⟩
  · rw [h1, h2]
    have := skipWs_eq h1
    simp only [List.length_cons] at this
    dsimp only
    by_cases hx : (x == 0x7d) = true
    · simp only [if_pos hx]; exact .same (by omega)
    · simp only [if_neg hx]; exact .fail (by simp)
  · rw [h1]
    simp only
    rw [atEof_eq hflt, hN]
    exact PreS.of_err _ (hAe _ rfl)

theorem endMap_nil : (endMap env [] N).res = .err .EofWhileParsingObject N := by
  simp [endMap, skipWs, atEof_eq hflt]

omit hflt hAe in
theorem drop1_append (a b : Bytes) (h : a ≠ []) : (a ++ b).drop 1 = a.drop 1 ++ b := by
  cases a with
  | nil => exact absurd rfl h
  | cons x a => simp

theorem preS_keyStr (visit : Bytes → FromValue.R) (a : Bytes) (pos : Nat) (ha : a ≠ []) (hN : pos + a.length = N) :
    PreS A b N (keyStr env visit (a ++ b) pos) (keyStr env visit a pos) := by
  unfold keyStr
  rw [drop1_append a b ha]
  have := drop1 ha
  exact (preS_parseStr hflt hAe (a.drop 1) (pos + 1) (by omega)).bindS fun s r p hp => preS_ofVisit _ _ _ hp

theorem pre_keyInt (hint : IntPre A b N env) (w : IntTy) (a : Bytes) (pos : Nat) (ha : a ≠ []) (hN : pos + a.length = N) :
    Pre A b N (keyInt env w (a ++ b) pos) (keyInt env w a pos) := by
  unfold keyInt
  rw [drop1_append a b ha]
  have hd := drop1 ha
  cases hr : a.drop 1 with
  | nil =>
    simp only
    rw [hr] at hd
    rw [atEof_eq hflt, show pos + 1 = N by simp only [List.length_nil] at hd; omega]
    exact Pre.of_atEnd _ (atEnd_err (hAe _ rfl))
  | cons x r =>
    rw [hr] at hd
    simp only [List.length_cons] at hd
    simp only [List.cons_append]
    by_cases hx : (!isNumStart x) = true
    · simp only [if_pos hx]; exact .fail (by simp)
    · simp only [if_neg hx]
      refine (hint w (x :: r) (pos + 1) (by simp only [List.length_cons]; omega)).bind (fun v r' p' hp' => ?_) (fun v => ?_)
      · cases r' with
        | nil =>
          simp only [List.length_nil, Nat.add_zero] at hp'
          simp only
          rw [atEof_eq hflt, hp']
          exact Pre.of_atEnd _ (atEnd_err (hAe _ rfl))
        | cons c r'' =>
          simp only [List.cons_append]
          simp only [List.length_cons] at hp'
          split
          · exact .same (by omega)
          · exact .fail (by simp)
      · simp only
        rw [atEof_eq hflt]
        exact atEnd_err (hAe _ rfl)

theorem preS_keyBool (a : Bytes) (pos : Nat) (ha : a ≠ []) (hN : pos + a.length = N) :
    PreS A b N (keyBool env (a ++ b) pos) (keyBool env a pos) := by
  unfold keyBool
  rw [drop1_append a b ha]
  have hd := drop1 ha
  cases hr : a.drop 1 with
  | nil =>
    simp only
    rw [hr] at hd
    rw [atEof_eq hflt, show pos + 1 = N by simp only [List.length_nil] at hd; omega]
    exact PreS.of_err _ (hAe _ rfl)
  | cons x r =>
    rw [hr] at hd
    simp only [List.length_cons] at hd
    simp only [List.cons_append]
    by_cases h1 : (x == 0x74) = true
    · simp only [if_pos h1]
      exact preS_ident_ok hflt hAe _ _ r (pos + 2) (by omega)
    · simp only [if_neg h1]
      by_cases h2 : (x == 0x66) = true
      · simp only [if_pos h2]
        exact preS_ident_ok hflt hAe _ _ r (pos + 2) (by omega)
      · simp only [if_neg h2]
        exact (preS_parseStr hflt hAe (x :: r) (pos + 1) (by simp only [List.length_cons]; omega)).bindS fun _ _ _ _ => .fail (by simp)

theorem preS_deVariantId (names : List Bytes) : PreSF A b N (deVariantId env names) := preS_deStr hflt hAe _

theorem preS_keyUnitEnum (names : List Bytes) : PreSF A b N (keyUnitEnum env names) := by
  intro a pos hN
  unfold keyUnitEnum
  refine (preS_deVariantId hflt hAe names a pos hN).bindS fun v r p hp => ?_
  split
  · exact .same hp
  · exact .fail (by simp)

theorem pre_deKey (hint : IntPre A b N env) (k : KeyKind) (a : Bytes) (pos : Nat) (ha : a ≠ []) (hN : pos + a.length = N) :
    Pre A b N (deKey env k (a ++ b) pos) (deKey env k a pos) := by
  unfold deKey
  split
  · exact (preS_keyStr hflt hAe _ a pos ha hN).toPre
  · exact pre_keyInt hflt hAe hint _ a pos ha hN
  · exact (preS_keyBool hflt hAe a pos ha hN).toPre
  · exact (preS_keyStr hflt hAe _ a pos ha hN).toPre
  · exact (preS_keyUnitEnum hflt hAe _ a pos hN).toPre

theorem mapLoop_nil (k : KeyKind) (de : Bytes → Nat → TOut) (n : Nat) (first : Bool) (acc : List (TVal × TVal)) :
    mapLoop env k de (n + 1) first acc [] N = .err .EofWhileParsingObject N := by
  simp [mapLoop, hasNextKey_nil hflt hAe, Res.bind]

theorem pre_mapLoop (hint : IntPre A b N env) (k : KeyKind) (de : Bytes → Nat → TOut) (hg : Good de) (hp : PreF A b N de) :
    ∀ (n' n : Nat) (first : Bool) (acc : List (TVal × TVal)) (a : Bytes) (pos : Nat), a.length < n' → (a ++ b).length < n →
      pos + a.length = N → Pre A b N (mapLoop env k de n first acc (a ++ b) pos) (mapLoop env k de n' first acc a pos) := by
  intro n'
  induction n' with
  | zero => intro n first acc a pos h; omega
  | succ n' ih =>
    intro n first acc a pos h1 h2 hN
    cases n with
    | zero => omega
    | succ m =>
      unfold mapLoop
      refine (preS_hasNextKey hflt hAe first a pos hN).bind' fun more r p hpr _ hpre => ?_
      have hl0 := (hasNextKey_le env first a pos).2 _ _ _ hpre
      by_cases hm : (!more) = true
      · simp only [if_pos hm]; exact .same hpr
      · simp only [if_neg hm]
        have hm' : more = true := by simpa using hm
        subst hm'
        have hne := hasNextKey_true env first a pos r p hpre
        refine (pre_deKey hflt hAe hint k r p hne hpr).bind' (fun kv r1 p1 hp1 _ hpre1 => ?_) (fun kv _ => ?_)
        · have hl1 := (deKey_le env k r p hne).2 _ _ _ hpre1
          refine (preS_parseObjectColon hflt hAe r1 p1 hp1).bind' fun _ r2 p2 hp2 _ hpre2 => ?_
          have hl2 := (parseObjectColon_le env r1 p1).2 _ _ _ hpre2
          refine (hp r2 p2 hp2).bind' (fun v r3 p3 hp3 _ hpre3 => ?_) (fun v hpre3 => ?_)
          · have hl3 := (hg r2 p2).2 _ _ _ hpre3
            simp only [List.length_append] at h2
            exact ih m false ((kv, v) :: acc) r3 p3 (by omega) (by simp only [List.length_append]; omega) hp3
          · have hl3 := (hg r2 p2).2 _ _ _ hpre3
            simp only [List.length_nil] at hl3
            cases n' with
            | zero => omega
            | succ j => rw [mapLoop_nil hflt hAe]; exact atEnd_err (hAe _ rfl)
        · simp only [parseObjectColon_nil hflt hAe, Res.bind]
          exact atEnd_err (hAe _ rfl)

theorem pre_deMap (t : Nat) (visit visit' : Bytes → Nat → TOut)
    (hv : ∀ a pos, pos + a.length = N → Pre A b N (visit (a ++ b) pos) (visit' a pos)) :
    ∀ a pos, pos + a.length = N → Pre A b N (deMap env t visit (a ++ b) pos) (deMap env t visit' a pos) := by
  unfold deMap
  refine pre_withPeek hflt hAe rfl fun x r p hp => ?_
  split
  · split
    · exact .fail (by simp)
    · exact pre_closeWith hAe _ (preS_endMap hflt hAe) ⟨_, endMap_nil hflt hAe, rfl⟩ (hv r (p + 1) (by omega))
  · exact pre_peekInvalidType

/-! ## structs -/

omit hflt hAe in
theorem hasNextKey_false (first : Bool) (rest : Bytes) (pos : Nat) (r : Bytes) (p : Nat)
    (h : hasNextKey env first rest pos = .ok false r p) : r ≠ [] := by
  unfold hasNextKey withPeek at h
  simp only at h
  repeat' split at h
  all_goals first
    | (simp at h; done)
    | (cases h; simp)
    | exact absurd h (atEof_ne_ok _ _ _ _ _ _)

omit hflt hAe in
/-- the field loop ends only on the closing brace, which stays unread -/
theorem structLoop_ok_ne_nil (de : Schema → Bytes → Nat → TOut) (fs : List (Bytes × Schema)) (deny : Bool) :
    ∀ (n : Nat) (first : Bool) (slots : List (Option TVal)) (rest : Bytes) (pos : Nat) (sl : List (Option TVal)) (r : Bytes) (p : Nat),
      structLoop env de fs deny n first slots rest pos = .ok sl r p → r ≠ [] := by
  intro n
  induction n with
  | zero => intro first slots rest pos sl r p h; simp [structLoop] at h
  | succ n ih =>
    intro first slots rest pos sl r p h
    unfold structLoop at h
    obtain ⟨more, r0, p0, h0, h1⟩ := bind_ok h
    cases more with
    | false =>
      simp at h1
      obtain ⟨_, rfl, _⟩ := h1
      exact hasNextKey_false first rest pos _ _ h0
    | true =>
      simp only [Bool.not_true, Bool.false_eq_true, if_false] at h1
      obtain ⟨name, r1, p1, _, h2⟩ := bind_ok h1
      split at h2
      · split at h2
        · simp at h2
        · obtain ⟨_, r2, p2, _, h3⟩ := bind_ok h2
          split at h3
          · obtain ⟨v, r3, p3, _, h4⟩ := bind_ok h3
            exact ih _ _ _ _ _ _ _ h4
          · simp at h3
      · split at h2
        · simp at h2
        · obtain ⟨_, r2, p2, _, h3⟩ := bind_ok h2
          obtain ⟨_, r3, p3, _, h4⟩ := bind_ok h3
          exact ih _ _ _ _ _ _ _ h4

theorem structLoop_nil (de : Schema → Bytes → Nat → TOut) (fs : List (Bytes × Schema)) (deny : Bool) (n : Nat) (first : Bool)
    (slots : List (Option TVal)) : structLoop env de fs deny (n + 1) first slots [] N = .err .EofWhileParsingObject N := by
  simp [structLoop, hasNextKey_nil hflt hAe, Res.bind]

theorem pre_ignoreValue : PreF A b N (ignoreValue env) := by
  intro a pos hN
  unfold ignoreValue
  rw [hflt]
  exact (pre_machine hflt hAe (ignEnv env) 0 init (finA_ignored hAe _ rfl 0) a pos hN).map _

theorem end_ignoreValue : EndF A N (ignoreValue env) := by
  unfold EndF ignoreValue
  rw [hflt]
  exact (end_machine hflt hAe (ignEnv env) 0 init (finA_ignored hAe _ rfl 0)).map _

theorem pre_structLoop (de : Schema → Bytes → Nat → TOut) (fs : List (Bytes × Schema))
    (hde : ∀ f ∈ fs, Good (de f.2) ∧ PreF A b N (de f.2)) (deny : Bool) :
    ∀ (n' n : Nat) (first : Bool) (slots : List (Option TVal)) (a : Bytes) (pos : Nat), a.length < n' → (a ++ b).length < n →
      pos + a.length = N →
      Pre A b N (structLoop env de fs deny n first slots (a ++ b) pos) (structLoop env de fs deny n' first slots a pos) := by
  intro n'
  induction n' with
  | zero => intro n first slots a pos h; omega
  | succ n' ih =>
    intro n first slots a pos h1 h2 hN
    cases n with
    | zero => omega
    | succ m =>
      unfold structLoop
      refine (preS_hasNextKey hflt hAe first a pos hN).bind' fun more r p hpr _ hpre => ?_
      have hl0 := (hasNextKey_le env first a pos).2 _ _ _ hpre
      by_cases hm : (!more) = true
      · simp only [if_pos hm]; exact .same hpr
      · simp only [if_neg hm]
        have hm' : more = true := by simpa using hm
        subst hm'
        have hne := hasNextKey_true env first a pos r p hpre
        have hd := drop1 hne
        rw [drop1_append r b hne]
        have hps := parseStr_le env (r.drop 1) (p + 1)
        refine (preS_parseStr hflt hAe (r.drop 1) (p + 1) (by omega)).bind' fun name r1 p1 hp1 _ hpre1 => ?_
        have hl1 := hps.2 _ _ _ hpre1
        simp only [List.length_append] at h2
        have tail : ∀ (sl : List (Option TVal)) (r3 : Bytes) (p3 : Nat), r3.length < r1.length → p3 + r3.length = N →
            Pre A b N (structLoop env de fs deny m false sl (r3 ++ b) p3) (structLoop env de fs deny n' false sl r3 p3) :=
          fun sl r3 p3 hlt hp3 => ih m false sl r3 p3 (by omega) (by simp only [List.length_append]; omega) hp3
        have tailE : ∀ (sl : List (Option TVal)), 0 < r1.length → AtEnd A N (structLoop env de fs deny n' false sl [] N) := by
          intro sl hpos
          cases n' with
          | zero => omega
          | succ j => rw [structLoop_nil hflt hAe]; exact atEnd_err (hAe _ rfl)
        cases hi : FromValue.nameIndex (fieldNames fs) name with
        | some i =>
          simp only
          cases hsl : slots.getD i none with
          | some _ => simp only; exact .fail (by simp)
          | none =>
            simp only
            refine (preS_parseObjectColon hflt hAe r1 p1 hp1).bind' fun _ r2 p2 hp2 _ hpre2 => ?_
            have hl2 := (parseObjectColon_le env r1 p1).2 _ _ _ hpre2
            cases hfi : fs[i]? with
            | none => simp only; exact .fail (by simp)
            | some fl =>
              obtain ⟨nm, sch⟩ := fl
              simp only
              have hmem := hde _ (mem_of_getElem? hfi)
              refine (hmem.2 r2 p2 hp2).bind' (fun v r3 p3 hp3 _ hpre3 => ?_) (fun v hpre3 => ?_)
              · have hl3 := (hmem.1 r2 p2).2 _ _ _ hpre3
                exact tail _ r3 p3 (by omega) hp3
              · have hl3 := (hmem.1 r2 p2).2 _ _ _ hpre3
                simp only [List.length_nil] at hl3
                exact tailE _ (by omega)
        | none =>
          simp only
          by_cases hdn : deny = true
          · simp only [if_pos hdn]; exact .fail (by simp)
          · simp only [if_neg hdn]
            refine (preS_parseObjectColon hflt hAe r1 p1 hp1).bind' fun _ r2 p2 hp2 _ hpre2 => ?_
            have hl2 := (parseObjectColon_le env r1 p1).2 _ _ _ hpre2
            refine (pre_ignoreValue hflt hAe r2 p2 hp2).bind' (fun _ r3 p3 hp3 _ hpre3 => ?_) (fun _ hpre3 => ?_)
            · have hl3 := (ignoreValue_shr env r2 p2).2 _ _ _ hpre3
              exact tail _ r3 p3 (by omega) hp3
            · have hl3 := (ignoreValue_shr env r2 p2).2 _ _ _ hpre3
              simp only [List.length_nil] at hl3
              exact tailE _ (by omega)

theorem pre_structVisitMap (de : Schema → Bytes → Nat → TOut) (fs : List (Bytes × Schema))
    (hde : ∀ f ∈ fs, Good (de f.2) ∧ PreF A b N (de f.2)) (deny : Bool) : PreF A b N (structVisitMap env de fs deny) := by
  intro a pos hN
  unfold structVisitMap
  refine (pre_structLoop hflt hAe de fs hde deny _ _ true _ a pos (by omega) (by omega) hN).bind' (fun sl r p hp _ _ => ?_)
    (fun sl hpre => ?_)
  · cases FromValue.finishFields fs sl with
    | ok vs => exact .same hp
    | error e => exact .fail (by simp)
  · exact absurd rfl (structLoop_ok_ne_nil de fs deny _ _ _ _ _ _ _ _ hpre)

theorem pre_deStruct (t : Nat) (de : Nat → Schema → Bytes → Nat → TOut) (fs : List (Bytes × Schema))
    (hde : ∀ f ∈ fs, ∀ d, Good (de d f.2) ∧ PreF A b N (de d f.2)) (deny : Bool) : PreF A b N (deStruct env t de fs deny) := by
  unfold deStruct
  refine pre_withPeek hflt hAe rfl fun x r p hp => ?_
  split
  · split
    · exact .fail (by simp)
    · refine pre_closeWith hAe _ (preS_endSeq hflt hAe) ⟨_, endSeq_nil hflt hAe, rfl⟩ ?_
      refine (pre_tupleLoop hflt hAe _ _ ?_ true [] r (p + 1) (by omega)).map _
      intro s hs
      obtain ⟨f, hf, rfl⟩ := List.mem_map.mp hs
      exact (hde f hf _).2
  · split
    · split
      · exact .fail (by simp)
      · exact pre_closeWith hAe _ (preS_endMap hflt hAe) ⟨_, endMap_nil hflt hAe, rfl⟩
          (pre_structVisitMap hflt hAe _ fs (fun f hf => hde f hf _) deny r (p + 1) (by omega))
    · exact pre_peekInvalidType

theorem end_deStruct (t : Nat) (de : Nat → Schema → Bytes → Nat → TOut) (fs : List (Bytes × Schema)) (deny : Bool) :
    EndF A N (deStruct env t de fs deny) := end_withPeek hflt hAe rfl

/-! ## enums -/

theorem pre_dePayload (t : Nat) (de : Nat → Schema → Bytes → Nat → TOut) (sh : VariantShape)
    (hde : ∀ s ∈ shapeSchemas sh, ∀ d, Good (de d s) ∧ PreF A b N (de d s)) : PreF A b N (dePayload env t de sh) := by
  intro a pos hN
  unfold dePayload
  split
  · exact (preS_deUnit hflt hAe a pos hN).toPre
  · exact (hde _ (by simp [shapeSchemas]) _).2 a pos hN
  · refine pre_deSeq hflt hAe t _ _ (fun a' pos' hN' => ?_) a pos hN
    exact (pre_tupleLoop hflt hAe _ _ (fun s hs => (hde s (by simpa [shapeSchemas] using hs) _).2) true [] a' pos' hN').map _
  · refine pre_deStruct hflt hAe t de _ (fun f hf d => hde f.2 ?_ d) false a pos hN
    simp only [shapeSchemas, List.mem_map]
    exact ⟨f, hf, rfl⟩

theorem end_dePayload (t : Nat) (de : Nat → Schema → Bytes → Nat → TOut) (sh : VariantShape)
    (hde : ∀ s ∈ shapeSchemas sh, ∀ d, EndF A N (de d s)) : EndF A N (dePayload env t de sh) := by
  unfold EndF dePayload
  split
  · exact end_withPeek hflt hAe rfl
  · exact hde _ (by simp [shapeSchemas]) _
  · exact end_withPeek hflt hAe rfl
  · exact end_withPeek hflt hAe rfl

theorem pre_deEnum (t : Nat) (de : Nat → Schema → Bytes → Nat → TOut) (vs : List (Bytes × VariantShape))
    (hde : ∀ v ∈ vs, ∀ s ∈ shapeSchemas v.2, ∀ d, Good (de d s) ∧ PreF A b N (de d s))
    (hend : ∀ v ∈ vs, ∀ s ∈ shapeSchemas v.2, ∀ d, EndF A N (de d s)) : PreF A b N (deEnum env t de vs) := by
  unfold deEnum
  refine pre_withPeek hflt hAe rfl fun x r p hp => ?_
  split
  · split
    · exact .fail (by simp)
    · refine (preS_deVariantId hflt hAe _ r (p + 1) (by omega)).bind fun iv r1 p1 hp1 => ?_
      dsimp only
      refine (preS_parseObjectColon hflt hAe r1 p1 hp1).bind fun _ r2 p2 hp2 => ?_
      cases hv : vs[(match iv with | .int i => i.toNat | _ => 0)]? with
      | none => simp only; exact .fail (by simp)
      | some vsh =>
        obtain ⟨nm, sh⟩ := vsh
        simp only
        have hmem := mem_of_getElem? hv
        refine (pre_dePayload hflt hAe (t + 1) de sh (hde _ hmem) r2 p2 hp2).bind (fun payload r3 p3 hp3 => ?_) (fun payload => ?_)
        · refine pre_withPeek hflt hAe rfl (fun c r4 q hq => ?_) r3 p3 hp3
          split
          · exact .same (by omega)
          · exact .fail (by simp)
        · exact end_withPeek hflt hAe rfl
  · split
    · refine ((preS_deVariantId hflt hAe _ (x :: r) p (by simp only [List.length_cons]; omega)).bindS fun iv r1 p1 hp1 => ?_).toPre
      dsimp only
      split
      · exact .same hp1
      · exact .fail (by simp)
    · exact .fail (by simp)

/-! ## `deTyped` -/

omit hflt hAe in
theorem rangeSite_mem_list : ∀ (ss : List Schema) (s : Schema), s ∈ ss → Schema.rangeSite s = true → Schema.rangeSiteList ss = true
  | [], _, h, _ => by simp at h
  | x :: r, s, h, hr => by
    simp only [Schema.rangeSiteList, Bool.or_eq_true]
    rcases List.mem_cons.mp h with rfl | h
    · exact .inl hr
    · exact .inr (rangeSite_mem_list r s h hr)

omit hflt hAe in
theorem rangeSite_mem_fields : ∀ (fs : List (Bytes × Schema)) (f : Bytes × Schema), f ∈ fs → Schema.rangeSite f.2 = true →
    Schema.rangeSiteFields fs = true
  | [], _, h, _ => by simp at h
  | (n, x) :: r, f, h, hr => by
    simp only [Schema.rangeSiteFields, Bool.or_eq_true]
    rcases List.mem_cons.mp h with rfl | h
    · exact .inl hr
    · exact .inr (rangeSite_mem_fields r f h hr)

omit hflt hAe in
theorem rangeSite_shape (sh : VariantShape) (s : Schema) (h : s ∈ shapeSchemas sh) (hr : Schema.rangeSite s = true) :
    VariantShape.rangeSite sh = true := by
  cases sh with
  | unit => simp [shapeSchemas] at h
  | newtype s' => simp [shapeSchemas] at h; subst h; simpa [VariantShape.rangeSite] using hr
  | tuple ss => simp only [shapeSchemas] at h; simpa [VariantShape.rangeSite] using rangeSite_mem_list ss s h hr
  | struct_ fs =>
    simp only [shapeSchemas, List.mem_map] at h
    obtain ⟨f, hf, rfl⟩ := h
    simpa [VariantShape.rangeSite] using rangeSite_mem_fields fs f hf hr

omit hflt hAe in
theorem rangeSite_mem_variants : ∀ (vs : List (Bytes × VariantShape)) (v : Bytes × VariantShape), v ∈ vs →
    VariantShape.rangeSite v.2 = true → Schema.rangeSiteVariants vs = true
  | [], _, h, _ => by simp at h
  | (n, x) :: r, v, h, hr => by
    simp only [Schema.rangeSiteVariants, Bool.or_eq_true]
    rcases List.mem_cons.mp h with rfl | h
    · exact .inl hr
    · exact .inr (rangeSite_mem_variants r v h hr)

/-- the prefix relation for `deTyped`; `NumberOutOfRange` has to be allowed only when the schema has a target that
    converts number literals to floats while parsing -/
theorem pre_deTyped (hint : IntPre A b N env) : ∀ (f : Nat) (s : Schema), Schema.size s ≤ f →
    (Schema.rangeSite s = true → A .NumberOutOfRange) → ∀ t,
    PreF A b N (deTyped env f t s) ∧ EndF A N (deTyped env f t s) := by
  intro f
  induction f with
  | zero => intro s hs; have := size_pos s; omega
  | succ f ih =>
    intro s hs hAn t
    have hgood := fun s' (h' : Schema.size s' ≤ f) t' => deTyped_good env f s' h' t'
    cases s with
    | bool => rw [deTyped_bool]; exact ⟨fun a pos hN => (preS_deBool hflt hAe a pos hN).toPre, end_withPeek hflt hAe rfl⟩
    | int w =>
      rw [deTyped_int]
      exact ⟨hint w, by unfold EndF; rw [deInt_nil hflt hAe]; exact atEnd_err (hAe _ rfl)⟩
    | f64 =>
      rw [deTyped_f64]
      exact ⟨pre_deNumber_float hflt hAe (hAn rfl) _ (by intro w h; cases h), by unfold EndF; rw [deNumber_nil hflt hAe]; exact atEnd_err (hAe _ rfl)⟩
    | f32 =>
      rw [deTyped_f32]
      exact ⟨pre_deNumber_float hflt hAe (hAn rfl) _ (by intro w h; cases h), by unfold EndF; rw [deNumber_nil hflt hAe]; exact atEnd_err (hAe _ rfl)⟩
    | char => rw [deTyped_char]; exact ⟨fun a pos hN => (preS_deStr hflt hAe _ a pos hN).toPre, end_withPeek hflt hAe rfl⟩
    | string => rw [deTyped_string]; exact ⟨fun a pos hN => (preS_deStr hflt hAe _ a pos hN).toPre, end_withPeek hflt hAe rfl⟩
    | bytes => rw [deTyped_bytes]; exact ⟨pre_deBytes hflt hAe hint t, end_withPeek hflt hAe rfl⟩
    | unit => rw [deTyped_unit]; exact ⟨fun a pos hN => (preS_deUnit hflt hAe a pos hN).toPre, end_withPeek hflt hAe rfl⟩
    | unitStruct => rw [deTyped_unitStruct]; exact ⟨fun a pos hN => (preS_deUnit hflt hAe a pos hN).toPre, end_withPeek hflt hAe rfl⟩
    | ignored =>
      rw [deTyped_ignored]
      exact ⟨fun a pos hN => (pre_ignoreValue hflt hAe a pos hN).map _, (end_ignoreValue hflt hAe).map _⟩
    | any =>
      rw [deTyped_any, hflt]
      exact ⟨fun a pos hN => (pre_machine hflt hAe _ t _ (finA_value hAe (hAn rfl) _ t) a pos hN).map _,
        (end_machine hflt hAe _ t _ (finA_value hAe (hAn rfl) _ t)).map _⟩
    | newtype s' =>
      have hs' : Schema.size s' ≤ f := by simp only [Schema.size] at hs; omega
      rw [deTyped_newtype]
      exact ih s' hs' (fun h => hAn (by simpa [Schema.rangeSite] using h)) t
    | option s' =>
      have hs' : Schema.size s' ≤ f := by simp only [Schema.size] at hs; omega
      have hi := ih s' hs' (fun h => hAn (by simpa [Schema.rangeSite] using h)) t
      rw [deTyped_option]
      refine ⟨?_, ?_⟩
      · intro a pos hN
        dsimp only
        rcases skipWs_append a b pos with ⟨x, a', p, h1, h2⟩ | ⟨h1, h2⟩
        · rw [h1, h2]
          have := skipWs_eq h1
          simp only [List.length_cons] at this
          dsimp only
          by_cases hx : (x == 0x6e) = true
          · simp only [if_pos hx]
            exact (preS_ident_ok hflt hAe _ _ a' (p + 1) (by omega)).toPre
          · simp only [if_neg hx]
            exact (hi.1 (x :: a') p (by simp only [List.length_cons]; omega)).map _
        · rw [h1]
          simp only [hflt, Bool.false_eq_true, ↓reduceIte]
          rw [hN]
          exact Pre.of_atEnd _ (hi.2.map _)
      · unfold EndF
        simp only [skipWs, hflt, Bool.false_eq_true, ↓reduceIte]
        exact hi.2.map _
    | seq s' =>
      have hs' : Schema.size s' ≤ f := by simp only [Schema.size] at hs; omega
      have hi := ih s' hs' (fun h => hAn (by simpa [Schema.rangeSite] using h)) (t + 1)
      rw [deTyped_seq]
      refine ⟨?_, end_withPeek hflt hAe rfl⟩
      refine pre_deSeq hflt hAe t _ _ fun a pos hN => ?_
      exact (pre_seqLoop hflt hAe _ (hgood s' hs' (t + 1)) hi.1 _ _ _ _ a pos (by omega) (by omega) hN).map _
    | tuple ss =>
      rw [deTyped_tuple]
      refine ⟨?_, end_withPeek hflt hAe rfl⟩
      refine pre_deSeq hflt hAe t _ _ fun a pos hN => ?_
      refine (pre_tupleLoop hflt hAe _ ss (fun s' hs' => (ih s' ?_
        (fun h => hAn (by simpa [Schema.rangeSite] using rangeSite_mem_list ss s' hs' h)) (t + 1)).1) true [] a pos hN).map _
      have := size_mem_list ss s' hs'
      simp only [Schema.size] at hs; omega
    | map k s' =>
      have hs' : Schema.size s' ≤ f := by simp only [Schema.size] at hs; omega
      have hi := ih s' hs' (fun h => hAn (by simpa [Schema.rangeSite] using h)) (t + 1)
      rw [deTyped_map]
      refine ⟨?_, end_withPeek hflt hAe rfl⟩
      refine pre_deMap hflt hAe t _ _ fun a pos hN => ?_
      exact (pre_mapLoop hflt hAe hint k _ (hgood s' hs' (t + 1)) hi.1 _ _ _ _ a pos (by omega) (by omega) hN).map _
    | struct_ fs deny =>
      rw [deTyped_struct]
      refine ⟨?_, end_withPeek hflt hAe rfl⟩
      refine pre_deStruct hflt hAe t _ fs (fun fl hf d => ?_) deny
      have hsz : Schema.size fl.2 ≤ f := by
        have := size_mem_fields fs fl hf
        simp only [Schema.size] at hs; omega
      exact ⟨hgood _ hsz d, (ih _ hsz (fun h => hAn (by simpa [Schema.rangeSite] using rangeSite_mem_fields fs fl hf h)) d).1⟩
    | enum_ vs =>
      rw [deTyped_enum]
      refine ⟨?_, end_withPeek hflt hAe rfl⟩
      have hsz : ∀ v ∈ vs, ∀ s' ∈ shapeSchemas v.2, Schema.size s' ≤ f := by
        intro v hv s' hs'
        have h1 := size_mem_variants vs v hv
        have h2 := size_shape v.2 s' hs'
        simp only [Schema.size] at hs; omega
      have hr : ∀ v ∈ vs, ∀ s' ∈ shapeSchemas v.2, Schema.rangeSite s' = true → A .NumberOutOfRange := fun v hv s' hs' h =>
        hAn (by simpa [Schema.rangeSite] using rangeSite_mem_variants vs v hv (rangeSite_shape v.2 s' hs' h))
      exact pre_deEnum hflt hAe t _ vs (fun v hv s' hs' d => ⟨hgood _ (hsz v hv s' hs') d, (ih _ (hsz v hv s' hs') (hr v hv s' hs') d).1⟩)
        (fun v hv s' hs' d => (ih _ (hsz v hv s' hs') (hr v hv s' hs') d).2)

end

end SJ.Proofs.Typed
