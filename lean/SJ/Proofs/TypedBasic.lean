import SJ.Model.Typed
/-!
# Basic facts about the typed text deserializer model: whitespace, the machine as a sub-parser,
# progress (every successful parse consumes input), fuel
-/
namespace SJ.Proofs.Typed
open SJ SJ.Gen SJ.Model SJ.Model.Typed
open SJ.Model.Machine (St Mode Frame Step step1 errIdx endNumber finishMode init)
open SJ.Model.Stream (skipWs)

/-! ## `Res` -/

theorem bind_ok {α β : Type} {r : Res α} {k : α → Bytes → Nat → Res β} {b : β} {r' : Bytes} {p' : Nat}
    (h : r.bind k = .ok b r' p') : ∃ a r1 p1, r = .ok a r1 p1 ∧ k a r1 p1 = .ok b r' p' := by
  cases r <;> simp [Res.bind] at h
  exact ⟨_, _, _, rfl, h⟩

theorem bind_ne_fuel {α β : Type} {r : Res α} {k : α → Bytes → Nat → Res β} (h1 : r ≠ .fuel)
    (h2 : ∀ a r1 p1, r = .ok a r1 p1 → k a r1 p1 ≠ .fuel) : r.bind k ≠ .fuel := by
  cases r <;> simp_all [Res.bind]

theorem map_ok {α β : Type} {r : Res α} {f : α → β} {b : β} {r' : Bytes} {p' : Nat}
    (h : r.map f = .ok b r' p') : ∃ a, r = .ok a r' p' ∧ b = f a := by
  cases r <;> simp [Res.map, Res.bind] at h
  obtain ⟨rfl, rfl, rfl⟩ := h
  exact ⟨_, rfl, rfl⟩

theorem map_ne_fuel {α β : Type} {r : Res α} {f : α → β} (h : r ≠ .fuel) : r.map f ≠ .fuel := by
  cases r <;> simp_all [Res.map, Res.bind]

theorem map_eq_fuel {α β : Type} {r : Res α} {f : α → β} : r.map f = .fuel ↔ r = .fuel := by
  cases r <;> simp [Res.map, Res.bind]

/-- `Shr rest pos r`: `r` is not out of fuel, and a success left strictly less input than `rest` and
    advanced the position by what it consumed -/
def Shr {α : Type} (rest : Bytes) (pos : Nat) (r : Res α) : Prop :=
  r ≠ .fuel ∧ ∀ a r' p', r = .ok a r' p' → r'.length < rest.length ∧ p' + r'.length = pos + rest.length

/-- … left at most `rest` -/
def ShrLe {α : Type} (rest : Bytes) (pos : Nat) (r : Res α) : Prop :=
  r ≠ .fuel ∧ ∀ a r' p', r = .ok a r' p' → r'.length ≤ rest.length ∧ p' + r'.length = pos + rest.length

theorem Shr.le {α : Type} {rest : Bytes} {pos : Nat} {r : Res α} (h : Shr rest pos r) : ShrLe rest pos r :=
  ⟨h.1, fun a r' p' e => ⟨Nat.le_of_lt (h.2 a r' p' e).1, (h.2 a r' p' e).2⟩⟩

theorem Shr.map {α β : Type} {rest : Bytes} {pos : Nat} {r : Res α} (f : α → β) (h : Shr rest pos r) : Shr rest pos (r.map f) :=
  ⟨map_ne_fuel h.1, fun _ _ _ e => by obtain ⟨a, ha, _⟩ := map_ok e; exact h.2 _ _ _ ha⟩

theorem ShrLe.map {α β : Type} {rest : Bytes} {pos : Nat} {r : Res α} (f : α → β) (h : ShrLe rest pos r) : ShrLe rest pos (r.map f) :=
  ⟨map_ne_fuel h.1, fun _ _ _ e => by obtain ⟨a, ha, _⟩ := map_ok e; exact h.2 _ _ _ ha⟩

/-- sequencing: a shrinking step followed by a non-growing one shrinks -/
theorem Shr.bind_le {α β : Type} {rest : Bytes} {pos : Nat} {r : Res α} {k : α → Bytes → Nat → Res β}
    (h1 : Shr rest pos r) (h2 : ∀ a r1 p1, r = .ok a r1 p1 → ShrLe r1 p1 (k a r1 p1)) : Shr rest pos (r.bind k) := by
  refine ⟨bind_ne_fuel h1.1 fun a r1 p1 e => (h2 a r1 p1 e).1, fun b r' p' e => ?_⟩
  obtain ⟨a, r1, p1, ha, hk⟩ := bind_ok e
  have := h1.2 _ _ _ ha
  have := (h2 _ _ _ ha).2 _ _ _ hk
  omega

theorem ShrLe.bind_shr {α β : Type} {rest : Bytes} {pos : Nat} {r : Res α} {k : α → Bytes → Nat → Res β}
    (h1 : ShrLe rest pos r) (h2 : ∀ a r1 p1, r = .ok a r1 p1 → Shr r1 p1 (k a r1 p1)) : Shr rest pos (r.bind k) := by
  refine ⟨bind_ne_fuel h1.1 fun a r1 p1 e => (h2 a r1 p1 e).1, fun b r' p' e => ?_⟩
  obtain ⟨a, r1, p1, ha, hk⟩ := bind_ok e
  have := h1.2 _ _ _ ha
  have := (h2 _ _ _ ha).2 _ _ _ hk
  omega

theorem ShrLe.bind_le {α β : Type} {rest : Bytes} {pos : Nat} {r : Res α} {k : α → Bytes → Nat → Res β}
    (h1 : ShrLe rest pos r) (h2 : ∀ a r1 p1, r = .ok a r1 p1 → ShrLe r1 p1 (k a r1 p1)) : ShrLe rest pos (r.bind k) := by
  refine ⟨bind_ne_fuel h1.1 fun a r1 p1 e => (h2 a r1 p1 e).1, fun b r' p' e => ?_⟩
  obtain ⟨a, r1, p1, ha, hk⟩ := bind_ok e
  have := h1.2 _ _ _ ha
  have := (h2 _ _ _ ha).2 _ _ _ hk
  omega

theorem shr_of_not_ok {α : Type} {rest : Bytes} {pos : Nat} {r : Res α} (h1 : r ≠ .fuel) (h2 : ∀ a r' p', r ≠ .ok a r' p') :
    Shr rest pos r := ⟨h1, fun a r' p' e => absurd e (h2 a r' p')⟩

/-- the same result seen from an earlier state (`rest'` is longer by what lies between the positions) -/
theorem ShrLe.mono {α : Type} {rest rest' : Bytes} {pos pos' : Nat} {r : Res α} (h : ShrLe rest pos r)
    (hl : rest.length ≤ rest'.length) (hp : pos + rest.length = pos' + rest'.length) : ShrLe rest' pos' r :=
  ⟨h.1, fun a r' p' e => by have := h.2 a r' p' e; omega⟩

theorem Shr.mono {α : Type} {rest rest' : Bytes} {pos pos' : Nat} {r : Res α} (h : Shr rest pos r)
    (hl : rest.length ≤ rest'.length) (hp : pos + rest.length = pos' + rest'.length) : Shr rest' pos' r :=
  ⟨h.1, fun a r' p' e => by have := h.2 a r' p' e; omega⟩

/-- a non-growing result after at least one consumed byte -/
theorem ShrLe.step {α : Type} {rest rest' : Bytes} {pos pos' : Nat} {r : Res α} (h : ShrLe rest pos r)
    (hl : rest.length < rest'.length) (hp : pos + rest.length = pos' + rest'.length) : Shr rest' pos' r :=
  ⟨h.1, fun a r' p' e => by have := h.2 a r' p' e; omega⟩

/-! ## whitespace -/

theorem skipWs_length (rest : Bytes) (pos : Nat) : (skipWs rest pos).1.length ≤ rest.length := by
  induction rest generalizing pos with
  | nil => simp [skipWs]
  | cons b r ih =>
    simp only [skipWs]
    split
    · exact Nat.le_trans (ih _) (by simp)
    · simp

theorem skipWs_pos (rest : Bytes) (pos : Nat) :
    (skipWs rest pos).2 + (skipWs rest pos).1.length = pos + rest.length := by
  induction rest generalizing pos with
  | nil => simp [skipWs]
  | cons b r ih =>
    simp only [skipWs]
    split
    · rw [ih]; simp only [List.length_cons]; omega
    · simp

theorem skipWs_eq {rest : Bytes} {pos : Nat} {r : Bytes} {p : Nat} (h : skipWs rest pos = (r, p)) :
    r.length ≤ rest.length ∧ p + r.length = pos + rest.length := by
  have h1 := skipWs_length rest pos
  have h2 := skipWs_pos rest pos
  rw [h] at h1 h2
  exact ⟨h1, h2⟩

/-! ## the machine as a sub-parser -/

theorem atEof_ne_ok {α : Type} (env : Env) (c : Code) (pos : Nat) (a : α) (r : Bytes) (p : Nat) :
    (atEof env c pos : Res α) ≠ .ok a r p := by
  unfold atEof; split <;> simp

theorem atEof_ne_fuel {α : Type} (env : Env) (c : Code) (pos : Nat) : (atEof env c pos : Res α) ≠ .fuel := by
  unfold atEof; split <;> simp

theorem runPfx_ge (menv : Machine.Env) (flt : Bool) (t : Nat) (s : St) (i : Nat) (bs : Bytes) (v : JV) (e : Nat)
    (h : runPfx menv flt t s i bs = .ok v e) : i ≤ e := by
  induction bs generalizing s i with
  | nil => unfold runPfx at h; repeat' split at h
           all_goals first | (simp at h; done) | (simp at h; omega)
  | cons b bs ih =>
    unfold runPfx at h
    repeat' split at h
    all_goals first
      | (simp at h; done)
      | (simp at h; omega)
      | (have := ih _ _ h; omega)

theorem runPfx_le (menv : Machine.Env) (flt : Bool) (t : Nat) (s : St) (i : Nat) (bs : Bytes) (v : JV) (e : Nat)
    (h : runPfx menv flt t s i bs = .ok v e) : e ≤ i + bs.length := by
  induction bs generalizing s i with
  | nil => unfold runPfx at h; repeat' split at h
           all_goals first | (simp at h; done) | (simp at h; omega)
  | cons b bs ih =>
    unfold runPfx at h
    repeat' split at h
    all_goals first
      | (simp at h; done)
      | (simp at h; simp only [List.length_cons]; omega)
      | (have := ih _ _ h; simp only [List.length_cons]; omega)

/-- only a number can end on a byte without consuming it -/
theorem step1_again (menv : Machine.Env) (s : St) (b : UInt8) (s' : St) (h : step1 menv s b = .again s') :
    ∃ n, s.mode = .num n := by
  unfold step1 at h
  split at h
  · repeat' split at h
    all_goals first
      | (simp at h; done)
      | (unfold Machine.closeArr at h; split at h <;> simp at h)
      | (unfold Machine.startValue at h; repeat' split at h
         all_goals (simp at h))
  · repeat' split at h
    all_goals (simp at h)
  · exact ⟨_, by assumption⟩
  · rename_i st _
    unfold Machine.stepStr at h
    simp only at h
    repeat' split at h
    all_goals first
      | (simp at h; done)
      | (unfold Machine.endStr at h; simp only at h; repeat' split at h
         all_goals (simp at h))
  all_goals
    repeat' split at h
    all_goals first
      | (simp at h; done)
      | (unfold Machine.closeArr at h; split at h <;> simp at h)
      | (unfold Machine.closeObj at h; split at h <;> simp at h)

/-- start states of the sub-parser: expecting a value, or inside a string right after the quote -/
def Startable (s : St) : Prop := s.mode = .val .top ∨ ∃ st, s.mode = .str st

theorem startable_not_num {s : St} (h : Startable s) : ∀ n, s.mode ≠ .num n := by
  intro n hn
  rcases h with h | ⟨st, h⟩ <;> rw [h] at hn <;> cases hn

theorem startable_init : Startable init := Or.inl rfl
theorem startable_str : Startable { mode := .str {} } := Or.inr ⟨_, rfl⟩
theorem startable_pad (t : Nat) : Startable { mode := .val .top, stack := padStack t } := Or.inl rfl

theorem runPfx_nil_not_ok (menv : Machine.Env) (flt : Bool) (t : Nat) (s : St) (hs : Startable s) (i : Nat) (v : JV) (e : Nat) :
    runPfx menv flt t s i [] ≠ .ok v e := by
  unfold runPfx
  split
  · simp
  · unfold finishT
    rcases hs with h | ⟨st, h⟩ <;> simp [h, finishMode]

theorem runPfx_gt (menv : Machine.Env) (flt : Bool) (t : Nat) (s : St) (hs : ∀ n, s.mode ≠ .num n) (i : Nat)
    (b : UInt8) (bs : Bytes) (v : JV) (e : Nat) (h : runPfx menv flt t s i (b :: bs) = .ok v e) : i < e := by
  unfold runPfx at h
  split at h
  · simp at h
  · split at h
    · simp at h; omega
    · have := runPfx_ge _ _ _ _ _ _ _ _ h; omega
  · rename_i s' hs'
    obtain ⟨n, hn⟩ := step1_again _ _ _ _ hs'
    exact absurd hn (hs n)

/-- a value read by the machine from a start state consumed at least one byte -/
theorem machine_shr (menv : Machine.Env) (flt : Bool) (t : Nat) (s : St) (hs : Startable s) (rest : Bytes) (pos : Nat) :
    Shr rest pos (machine menv flt t s rest pos) := by
  unfold machine
  constructor
  · split <;> simp
  · intro a r' p' h
    split at h
    · rename_i v e he
      simp at h
      obtain ⟨_, rfl, rfl⟩ := h
      have h2 := runPfx_le _ _ _ _ _ _ _ _ he
      cases rest with
      | nil => exact absurd he (runPfx_nil_not_ok _ _ _ _ hs _ _ _)
      | cons b bs =>
        have h1 := runPfx_gt _ _ _ _ (startable_not_num hs) _ _ _ _ _ he
        simp only [List.length_drop, List.length_cons] at *
        omega
    · simp at h
    · simp at h

end SJ.Proofs.Typed
