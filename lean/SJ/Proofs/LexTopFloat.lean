import SJ.Proofs.LexTopParse
/-!
# C07 top level, part 3: `deFloatRoundtrip single = Model.Num.convertRoundtrip` / `convertRoundtripSingle`

For both targets (`single = false`: binary64; `single = true`: binary32, the result handed on as the exactly widened
`f64`) and every well-formed literal within the digit-count bound: what `de.rs` + lexical compute under
`float_roundtrip` is the specification — integers classified, otherwise the nearest value with ties to even, sign kept
(including `-0.0`), underflow to `±0`, `NumberOutOfRange` iff the rounded value is not finite, the exponent-overflow rule.
No hypothesis about the moderate path or the digits dropped by bhcomp remains.
-/
namespace SJ.Proofs.LexTopFloat
open SJ SJ.Gen SJ.Model.Lexical SJ.Model.Num SJ.Spec.Ieee
open SJ.Proofs.Ieee SJ.Proofs.LexRound SJ.Proofs.LexBh SJ.Proofs.LexFast SJ.Proofs.LexSplit SJ.Proofs.NumInt
open SJ.Proofs.LexCorrect SJ.Proofs.LexTopParse

/-- the shape shared by `convertRoundtrip.conv` and `convertRoundtripSingle.conv`, for any format and any way `wrap`
    of handing the pattern on -/
theorem conv_shape {c : FC} {F : Fmt} (h : FCok c F) (p : Parts) (hN : litN p ≠ 0) (wrap : Nat → UInt64)
    (hz : F64.zero p.neg = wrap (if p.neg then F.signBit + 0 else 0)) (hpos : 0 < F.infBits) :
    (match exact p with
      | .zero => NRes.f64 (F64.zero p.neg)
      | .tiny => .f64 (F64.zero p.neg)
      | .huge => .outOfRange
      | .rat n d => match (if d == 0 then none else roundBits F p.neg n d) with
        | some b => .f64 (wrap b)
        | none => .outOfRange) =
    (if roundMag F (dNum F (litN p) (litE p)) (dDen (litE p)) < F.infBits then
        NRes.f64 (wrap (if p.neg then F.signBit + roundMag F (dNum F (litN p) (litE p)) (dDen (litE p))
                      else roundMag F (dNum F (litN p) (litE p)) (dDen (litE p))))
      else .outOfRange) := by
  generalize hR : roundMag F (dNum F (litN p) (litE p)) (dDen (litE p)) = R
  rcases exact_cases h p hN with ⟨hx, hr⟩ | ⟨hx, hr⟩ | ⟨n, d, hx, hd, hr⟩
  · rw [hx]; rw [hR] at hr
    simp only []
    rw [if_neg (by omega)]
  · rw [hx]; rw [hR] at hr
    simp only []
    rw [hr, if_pos hpos, hz]
  · rw [hx]; rw [hR] at hr
    simp only []
    have hd0 : (d == 0) = false := by simp; omega
    rw [hd0]
    simp only [Bool.false_eq_true, if_false]
    rw [roundBits_of F p.neg n d _ hr]
    by_cases hlt : R < F.infBits
    · rw [if_pos hlt, if_pos hlt]
    · rw [if_neg hlt, if_neg hlt]

theorem conv32_eq (p : Parts) (hN : litN p ≠ 0) :
    convertRoundtripSingle.conv p = finish32 p.neg (roundMag b32 (dNum b32 (litN p) (litE p)) (dDen (litE p))) := by
  have := conv_shape fcok32 p hN (fun b => F32.toF64 (UInt32.ofNat b)) (zero_toF64 p.neg) (by decide)
  unfold finish32
  rw [← this]
  unfold convertRoundtripSingle.conv
  cases exact p with
  | zero => rfl
  | tiny => rfl
  | huge => rfl
  | rat n d =>
    simp only []
    by_cases hd : (d == 0) = true
    · rw [hd]; rfl
    · have : (d == 0) = false := by simpa using hd
      rw [this]
      simp only [Bool.false_eq_true, if_false]
      rw [SJ.Proofs.LexCorrect.roundNE32_eq]
      cases roundBits b32 p.neg n d <;> rfl

/-! ## both targets at once -/

/-- the specification for the target: `convertRoundtrip` (binary64) or `convertRoundtripSingle` (binary32) -/
def specG (single : Bool) (p : Parts) : NRes := if single then convertRoundtripSingle p else convertRoundtrip p

def convG (single : Bool) (p : Parts) : NRes := if single then convertRoundtripSingle.conv p else convertRoundtrip.conv p

def finishG (single neg : Bool) (R : Nat) : NRes := if single then finish32 neg R else finish64 neg R

theorem specG_eq (single : Bool) (p : Parts) : specG single p =
    match intClass p with
    | some r => r
    | none =>
      match p.exp with
      | some (en, eds) =>
        if expOverflows eds then exponentOverflow (!p.neg) ((p.int ++ p.frac.getD []).all (· == 0x30)) (!en)
        else convG single p
      | none => convG single p := by
  cases single
  · unfold specG convG convertRoundtrip
    simp only [Bool.false_eq_true, if_false]
    rfl
  · unfold specG convG convertRoundtripSingle
    simp only [if_true]
    rfl

theorem finishFloatG (single positive : Bool) (R : Nat) :
    finishFloat single positive (clampInf (fmtOf single) R) = finishG single (!positive) R := by
  cases single
  · have hF : fmtOf false = b64 := rfl
    rw [hF]; unfold finishG
    simp only [Bool.false_eq_true, if_false]
    exact finishFloat64 positive R
  · have hF : fmtOf true = b32 := rfl
    rw [hF]; unfold finishG
    simp only [if_true]
    exact finishFloat32 positive R

theorem convG_eq (single : Bool) (p : Parts) (hN : litN p ≠ 0) :
    convG single p = finishG single p.neg
      (roundMag (fmtOf single) (dNum (fmtOf single) (litN p) (litE p)) (dDen (litE p))) := by
  cases single
  · have hF : fmtOf false = b64 := rfl
    rw [hF]; unfold convG finishG
    simp only [Bool.false_eq_true, if_false]
    exact conv64_eq p hN
  · have hF : fmtOf true = b32 := rfl
    rw [hF]; unfold convG finishG
    simp only [if_true]
    exact conv32_eq p hN

theorem convG_zero (single : Bool) (p : Parts) (h0 : litN p = 0) : convG single p = .f64 (F64.zero p.neg) := by
  have hb : (litN p == 0) = true := by simpa using h0
  cases single
  · unfold convG
    simp only [Bool.false_eq_true, if_false]
    unfold convertRoundtrip.conv
    rw [exact_eq, hb, if_pos rfl]
  · unfold convG
    simp only [if_true]
    unfold convertRoundtripSingle.conv
    rw [exact_eq, hb, if_pos rfl]

theorem finishG_zero (single neg : Bool) : finishG single neg 0 = .f64 (F64.zero neg) := by
  cases single
  · unfold finishG
    simp only [Bool.false_eq_true, if_false]
    unfold finish64
    rw [if_pos (by have := infBits64_lt; unfold Fmt.infBits b64; norm_num), zero_eq]
  · unfold finishG
    simp only [if_true]
    unfold finish32
    rw [if_pos (by rw [infBits32]; norm_num), zero_toF64]

/-- `-(0 as f32) as f64` and `-(0 as f64)` are `-0.0` -/
theorem neg_zeroG (single : Bool) :
    (if single then F32.toF64 (F32.neg (F32.ofU64 0)) else F64.neg (F64.ofU64 0)) = F64.zero true := by
  cases single <;> decide +kernel

theorem neg_ofNat32 (R : Nat) (hR : R < 2 ^ 31) : F32.neg (UInt32.ofNat R) = UInt32.ofNat (b32.signBit + R) := by
  apply UInt32.toNat_inj.1
  unfold F32.neg
  rw [UInt32.toNat_add, UInt32.toNat_ofNat', UInt32.toNat_ofNat', signBit32]
  have h1 : (0x80000000 : UInt32).toNat = 2 ^ 31 := by decide
  rw [h1]
  omega

/-- `-(n as f32) as f64` for `n : u64` is the binary32 rounding of `-n`, widened -/
theorem neg_ofU64_32 (N : Nat) (hN : N ≤ u64Max) :
    NRes.f64 (F32.toF64 (F32.neg (F32.ofU64 N))) = finish32 true (roundMag b32 (dNum b32 N 0) (dDen 0)) := by
  have h := fcok32
  obtain ⟨h80, _⟩ := u64_lt_80 N hN
  have hfin := finite_of_small h N h80
  have e1 : dNum b32 N 0 = N * 2 ^ b32.qexp := by unfold dNum; simp
  have e2 : dDen 0 = 1 := rfl
  rw [e1, e2]
  have ht := roundOrInf32_toNat N 1
  unfold clampInf at ht
  rw [if_pos hfin] at ht
  have hi := infBits32
  have hof : F32.ofU64 N = UInt32.ofNat (roundMag b32 (N * 2 ^ b32.qexp) 1) := by
    apply UInt32.toNat_inj.1
    have : F32.ofU64 N = F32.roundOrInf false N 1 := rfl
    rw [this, ht, UInt32.toNat_ofNat']
    exact (Nat.mod_eq_of_lt (by omega)).symm
  unfold finish32
  rw [hof, if_pos hfin, neg_ofNat32 _ (by omega)]
  simp

theorem neg_ofU64G (single : Bool) (N : Nat) (hN : N ≤ u64Max) :
    NRes.f64 (if single then F32.toF64 (F32.neg (F32.ofU64 N)) else F64.neg (F64.ofU64 N)) =
      finishG single true (roundMag (fmtOf single) (dNum (fmtOf single) N 0) (dDen 0)) := by
  cases single
  · have hF : fmtOf false = b64 := rfl
    rw [hF]; unfold finishG
    simp only [Bool.false_eq_true, if_false]
    exact neg_ofU64 N hN
  · have hF : fmtOf true = b32 := rfl
    rw [hF]; unfold finishG
    simp only [if_true]
    exact neg_ofU64_32 N hN

/-- **both targets.** `deFloatRoundtrip single` is the specification -/
theorem deFloat_eq (single : Bool) (p : Parts) (wf : WF p) (hlen : (p.int ++ p.frac.getD []).length + 20 < 2 ^ 29) :
    deFloatRoundtrip single p = specG single p := by
  have h := fcokOf single
  have hpres := deCall_presents single p wf
  unfold deFloatRoundtrip
  rw [specG_eq]
  cases hcall : deCall single p with
  | number r =>
    rw [hcall] at hpres
    obtain ⟨hfr, hexp, hN, hr⟩ := hpres
    have hNint : litN p = natOfDigits p.int := by simp [litN, hfr]
    simp only [runCall]
    unfold intClass
    simp only [hfr, hexp]
    rw [hr, ← hNint]
    simp only [u64Max] at hN
    cases hneg : p.neg
    · simp only [Bool.not_false, if_true]
      rw [if_pos (by omega)]
    · simp only [Bool.not_true, Bool.false_eq_true, if_false]
      by_cases h0 : litN p = 0
      · have hb : (litN p == 0) = true := by simpa using h0
        simp only [hb, if_true]
        rw [if_neg (by omega), convG_zero single p h0, h0, hneg, neg_zeroG]
      · have hb : (litN p == 0) = false := by simpa using h0
        simp only [hb, Bool.false_eq_true, if_false]
        by_cases h63 : litN p ≤ 2 ^ 63
        · rw [if_pos h63, if_pos ⟨by omega, h63⟩]
        · rw [if_neg h63, if_neg (by omega)]
          rw [convG_eq single p h0, hneg]
          have hE : litE p = 0 := by simp [litE, litExp, hexp, hfr]
          rw [hE]
          exact neg_ofU64G single (litN p) (by simp only [u64Max]; omega)
  | expOverflow zs pe =>
    rw [hcall] at hpres
    obtain ⟨en, eds, hexp, hov, hzs, hpe⟩ := hpres
    simp only [runCall]
    have hic : intClass p = none := by unfold intClass; rw [hexp]; cases p.frac <;> rfl
    rw [hic]
    simp only [hexp, hov, if_true]
    rw [hzs, hpe]
    have := all_zero_iff (p.int ++ p.frac.getD []) (isDigits_append wf.int_digits wf.frac_digits)
    rw [this]; rfl
  | concise sig e =>
    rw [hcall] at hpres
    obtain ⟨hsig, hs64, he, hfit⟩ := hpres
    simp only [runCall]
    have hs64' := (u64_lt_80 sig hs64).2
    rw [parseConcise_ok single sig e hs64']
    unfold roundDec
    rw [finishFloatG]
    simp only [Bool.not_not]
    obtain ⟨hx1, hx2⟩ := litExp_bound p wf hfit
    have hEle : litE p ≤ 2147483647 := by unfold litE; omega
    rw [he, hsig, roundMag_sat h (litN p) (litE p) (hsig ▸ hs64') hEle]
    have hic : intClass p = none := by
      unfold intClass
      cases hfr : p.frac with
      | some f => rfl
      | none =>
        cases hexp : p.exp with
        | some e => rfl
        | none =>
          exfalso
          unfold deCall at hcall
          rcases goInt_spec 0 p.int wf.int_digits (by simp [u64Max]) with ⟨g1, _⟩ | ⟨pre, c', post, _, _, _, g3⟩
          · rw [g1] at hcall; simp only [hfr, hexp] at hcall; split at hcall <;> cases hcall
          · rw [g3] at hcall; simp only [parseLongInteger, hfr, hexp, f64LongFromParts] at hcall; cases hcall
    rw [hic]
    have hconv : (match p.exp with
        | some (en, eds) =>
          if expOverflows eds then exponentOverflow (!p.neg) ((p.int ++ p.frac.getD []).all (· == 0x30)) (!en)
          else convG single p
        | none => convG single p) = convG single p := by
      cases hexp : p.exp with
      | none => rfl
      | some e' =>
        obtain ⟨en, eds⟩ := e'
        simp only []
        rw [hfit en eds hexp]
        simp
    simp only []
    rw [hconv]
    by_cases h0 : litN p = 0
    · rw [convG_zero single p h0, h0]
      unfold dNum
      simp only [Nat.zero_mul, roundMag_zero]
      rw [finishG_zero]
    · rw [convG_eq single p h0]
  | truncated integer fraction e =>
    rw [hcall] at hpres
    obtain ⟨hNv, hEv, hdi, hdf, hbig, hhead, he1, he2, hfit, hsl⟩ := hpres
    simp only [runCall]
    have hlen' : integer.length + fraction.length < 2 ^ 29 := by omega
    rw [parseTruncated_ok single integer fraction e hdi hdf hhead (by rw [hNv]; simp only [u64Max] at hbig; omega) hlen' he1 he2]
    rw [hNv, hEv]
    unfold roundDec
    rw [finishFloatG]
    simp only [Bool.not_not]
    have h0 : litN p ≠ 0 := by simp only [u64Max] at hbig; omega
    rw [← convG_eq single p h0]
    have hic : intClass p = none := by
      unfold intClass
      cases hfr : p.frac with
      | some f => rfl
      | none =>
        cases hexp : p.exp with
        | some e => rfl
        | none =>
          simp only []
          have hNint : litN p = natOfDigits p.int := by simp [litN, hfr]
          rw [← hNint]
          simp only [u64Max] at hbig
          cases p.neg
          · simp only [Bool.not_false, if_true]; rw [if_neg (by omega)]
          · simp only [Bool.not_true, Bool.false_eq_true, if_false]
            have hb : (litN p == 0) = false := by simpa using h0
            rw [hb]; simp only [Bool.false_eq_true, if_false]
            rw [if_neg (by omega)]
    rw [hic]
    simp only []
    cases hexp : p.exp with
    | none => rfl
    | some e' =>
      obtain ⟨en, eds⟩ := e'
      simp only []
      rw [hfit en eds hexp]
      simp

end SJ.Proofs.LexTopFloat
