import SJ.Proofs.TypedAgreeStr
/-!
# The text leg of C16 on map targets: `MapAccess` / `MapKey` on a printed object against `MapDeserializer` /
# `MapKeyDeserializer` (string, char, unit-enum and bool keys here; integer keys in `TypedAgreeKeyInt`)
-/
set_option linter.unusedSectionVars false
set_option linter.unusedVariables false

namespace SJ.Proofs.Typed
open SJ SJ.Gen SJ.Model SJ.Model.Typed
open SJ.Model.Stream (skipWs)
open SJ.Spec.Image (render imageOfValue imageOfValues imageOfMembers layoutWith layoutElems layoutMembers quote escItem strItems)
open SJ.Spec.Grammar (StrItem)

variable (ext : Spec.Program.Ext)

/-! ## the compact text of an object -/

/-- the members of an object, comma-separated -/
def Tmembers : List (Bytes × JV) → Bytes
  | [] => []
  | (k, x) :: r => quote k ++ [0x3a] ++ T ext x ++ (if r.isEmpty then [] else [0x2c]) ++ Tmembers r

/-- the text that follows a member inside an object -/
def Tmtail : List (Bytes × JV) → Bytes
  | [] => []
  | kv :: r => 0x2c :: Tmembers ext (kv :: r)

theorem layoutMembers_values (d : Nat) : ∀ kvs : List (Bytes × JV),
    layoutMembers (fun _ => []) [] d (imageOfMembers ext kvs) = Tmembers ext kvs
  | [] => by simp [imageOfMembers, layoutMembers, Tmembers]
  | (k, x) :: kvs => by
    simp only [imageOfMembers, layoutMembers, Tmembers, T, render, List.nil_append, List.append_nil]
    rw [layoutWith_depth d 0, layoutMembers_values d kvs]
    cases kvs with
    | nil => simp [imageOfMembers]
    | cons kv r => obtain ⟨k', x'⟩ := kv; simp [imageOfMembers]

theorem T_obj_eq (kvs : List (Bytes × JV)) : T ext (.obj kvs) = 0x7b :: (Tmembers ext kvs ++ [0x7d]) := by
  simp only [T, render, imageOfValue, layoutWith]
  rw [layoutMembers_values]
  cases kvs with
  | nil => simp [imageOfMembers, Tmembers]
  | cons kv r => obtain ⟨k, x⟩ := kv; simp [imageOfMembers]

theorem Tmembers_cons (k : Bytes) (x : JV) (r : List (Bytes × JV)) :
    Tmembers ext ((k, x) :: r) = quote k ++ 0x3a :: (T ext x ++ Tmtail ext r) := by
  cases r <;> simp [Tmembers, Tmtail]

theorem quote_length (k : Bytes) : (quote k).length = (strBody k).length + 2 := by
  rw [quote_eq]; simp

/-! ## `has_next_key`, `parse_object_colon`, `end_map` on printed text -/

section
variable {env : Env}

theorem hasNextKey_close (first : Bool) (rest : Bytes) (pos : Nat) :
    hasNextKey env first (0x7d :: rest) pos = .ok false (0x7d :: rest) pos := by
  unfold hasNextKey
  rw [withPeek_cons env _ (by decide)]
  simp

theorem hasNextKey_first (k tl : Bytes) (pos : Nat) :
    hasNextKey env true (quote k ++ tl) pos = .ok true (quote k ++ tl) pos := by
  rw [quote_eq]
  simp only [List.cons_append]
  unfold hasNextKey
  rw [withPeek_cons env _ (by decide)]
  simp

theorem hasNextKey_comma (k tl : Bytes) (pos : Nat) :
    hasNextKey env false (0x2c :: (quote k ++ tl)) pos = .ok true (quote k ++ tl) (pos + 1) := by
  rw [quote_eq]
  simp only [List.cons_append]
  unfold hasNextKey
  rw [withPeek_cons env _ (by decide)]
  simp only [show ((0x2c : UInt8) == 0x7d) = false by decide, Bool.false_eq_true, if_false, beq_self_eq_true, if_true]
  rw [withPeek_cons env _ (by decide)]
  simp

theorem parseObjectColon_colon (tl : Bytes) (pos : Nat) : parseObjectColon env (0x3a :: tl) pos = .ok () tl (pos + 1) := by
  unfold parseObjectColon
  rw [withPeek_cons env _ (by decide)]
  simp

theorem endMap_close (rest : Bytes) (pos : Nat) : (endMap env (0x7d :: rest) pos).res = .ok () rest (pos + 1) := by
  unfold endMap
  rw [skipWs_cons (by decide)]
  simp

theorem deMap_open (t : Nat) (visit : Bytes → Nat → TOut) (tl : Bytes) (pos : Nat) (htd : tooDeep env t = false) :
    deMap env t visit (0x7b :: tl) pos = closeWith env (endMap env) (visit tl (pos + 1)) := by
  unfold deMap
  rw [withPeek_cons env _ (by decide)]
  simp only [beq_self_eq_true, if_true, htd, Bool.false_eq_true, if_false]

theorem tooDeep_false_obj (t : Nat) (kvs : List (Bytes × JV)) (h : DepthOK env t (.obj kvs)) : tooDeep env t = false := by
  unfold tooDeep
  rcases h with h | h
  · simp [h]
  · simp only [Spec.WF.depthJV] at h
    have : ¬ (t + 1 ≥ Gen.remainingDepthInit) := by simp [Gen.remainingDepthInit]; omega
    simp [this]

theorem depth_mem_obj : ∀ (kvs : List (Bytes × JV)) (kv : Bytes × JV), kv ∈ kvs → Spec.WF.depthJV kv.2 ≤ Spec.WF.depthJVm kvs
  | [], _, h => by simp at h
  | (k, y) :: ys, kv, h => by
    simp only [Spec.WF.depthJVm]
    rcases List.mem_cons.mp h with rfl | h
    · simp only []; omega
    · have := depth_mem_obj ys kv h; omega

theorem depthOK_member (t : Nat) (kvs : List (Bytes × JV)) (kv : Bytes × JV) (hx : kv ∈ kvs) (h : DepthOK env t (.obj kvs)) :
    DepthOK env (t + 1) kv.2 := by
  rcases h with h | h
  · exact .inl h
  · right
    simp only [Spec.WF.depthJV] at h
    have := depth_mem_obj kvs kv hx
    omega

theorem vok_member : ∀ (kvs : List (Bytes × JV)) (kv : Bytes × JV), kv ∈ kvs → VOK (.obj kvs) →
    Spec.Utf8.validUtf8 kv.1 = true ∧ VOK kv.2 := by
  intro kvs kv hx hv
  have h1 : shapeWm kvs = true := by simpa [VOK, shapeW] using hv
  clear hv
  induction kvs with
  | nil => simp at hx
  | cons y ys ih =>
    obtain ⟨k, y⟩ := y
    simp only [shapeWm, Bool.and_eq_true] at h1
    rcases List.mem_cons.mp hx with rfl | hx
    · exact ⟨h1.1.1, h1.1.2⟩
    · exact ih hx h1.2

theorem voka_member : ∀ (kvs : List (Bytes × JV)) (kv : Bytes × JV), kv ∈ kvs → VOKa (.obj kvs) →
    Spec.Utf8.validUtf8 kv.1 = true ∧ VOKa kv.2 := by
  intro kvs kv hx hv
  have h1 : shapeAm kvs = true := by simpa [VOKa, shapeA] using hv
  clear hv
  induction kvs with
  | nil => simp at hx
  | cons y ys ih =>
    obtain ⟨k, y⟩ := y
    simp only [shapeAm, Bool.and_eq_true] at h1
    rcases List.mem_cons.mp hx with rfl | hx
    · exact ⟨h1.1.1, h1.1.2⟩
    · exact ih hx h1.2

theorem vokg_member (kvs : List (Bytes × JV)) (kv : Bytes × JV) (hx : kv ∈ kvs) (hv : VOKg (.obj kvs)) :
    Spec.Utf8.validUtf8 kv.1 = true ∧ VOKg kv.2 := by
  rcases hv with hv | hv
  · exact ⟨(vok_member kvs kv hx hv).1, .inl (vok_member kvs kv hx hv).2⟩
  · exact ⟨(voka_member kvs kv hx hv).1, .inr (voka_member kvs kv hx hv).2⟩

end

/-! ## keys -/

/-- a key parser of `MapKey` (on the text of a key, which a `:` follows) against `MapKeyDeserializer` on the key string -/
def KeyAgree (dk : Bytes → Nat → TOut) (fk : Bytes → FromValue.R) : Prop :=
  ∀ (k : Bytes), Spec.Utf8.validUtf8 k = true → ∀ (tl : Bytes) (pos : Nat),
    match fk k with
    | .ok a => dk (quote k ++ 0x3a :: tl) pos = .ok a (0x3a :: tl) (pos + (quote k).length)
    | .error _ => ∀ x r p, dk (quote k ++ 0x3a :: tl) pos ≠ .ok x r p

section
variable {env : Env} (hflt : env.flt = false)
include hflt

/-- `MapKey::deserialize_any` (string, char, identifier keys): `parse_str`, then the visitor -/
theorem keyAgree_str (visit : Bytes → FromValue.R) : KeyAgree (keyStr env visit) visit := by
  intro k hu tl pos
  have key : keyStr env visit (quote k ++ 0x3a :: tl) pos = ofVisit (visit k) (0x3a :: tl) (pos + (quote k).length) := by
    rw [quote_length, quote_eq]
    unfold keyStr
    simp only [List.cons_append, List.append_assoc, List.drop_succ_cons, List.drop_zero, List.singleton_append]
    rw [parseStr_quote env hflt k (fun _ => hu)]
    simp only [Res.bind]
    congr 1
    omega
  rw [key]
  cases visit k with
  | ok a => simp [ofVisit]
  | error e => intro x r p; simp [ofVisit]

/-- unit-variant keys: `deserialize_enum` → the identifier by `deserialize_str`, `unit_variant()` of `UnitVariantAccess` -/
theorem keyAgree_unitEnum (names : List Bytes) : KeyAgree (keyUnitEnum env names) (FromValue.keyDe (.unitEnum names)) := by
  intro k hu tl pos
  have hq := deStr_quote' hflt (fun s => (visitVariantId names s).map fun i => .int i) k hu (0x3a :: tl) pos
  simp only [FromValue.keyDe]
  unfold keyUnitEnum deVariantId
  rw [hq]
  unfold visitVariantId
  cases FromValue.nameIndex names k with
  | none => intro x r p; simp [ofVisit, fixPos, Except.map, Res.bind, Functor.map]
  | some i => simp [ofVisit, fixPos, Except.map, Res.bind, Functor.map]

end

/-! ### bool keys: only the exact spellings `"true"` / `"false"` -/

/-- a byte the serializer writes as it is -/
def plainByte (b : UInt8) : Bool := match escItem b with | .raw c => c == b && b != 0x22 && b != 0x5c | _ => false

/-- the first byte of an item: the byte itself when it is plain, a backslash otherwise -/
def itemHeadOK (b : UInt8) : Bool :=
  match escItem b with
  | .raw c => c == b && b != 0x22 && b != 0x5c
  | .esc _ => true
  | .uni _ _ _ _ => true

theorem itemHead_table : ∀ n : Nat, n < 256 → itemHeadOK (UInt8.ofNat n) = true := by decide +kernel

theorem itemHead_spec (b : UInt8) : itemHeadOK b = true := by simpa using itemHead_table b.toNat b.toNat_lt

/-- the bytes of an item: the byte itself (not `"`, not `\`), or an escape sequence starting with `\` -/
theorem item_bytes_cases (b : UInt8) :
    ((escItem b).bytes = [b] ∧ b ≠ 0x22 ∧ b ≠ 0x5c) ∨ ∃ tl, (escItem b).bytes = 0x5c :: tl := by
  have h := itemHead_spec b
  unfold itemHeadOK at h
  cases hi : escItem b with
  | raw c =>
    rw [hi] at h
    simp only [Bool.and_eq_true, beq_iff_eq, bne_iff_ne, ne_eq] at h
    left
    obtain ⟨⟨rfl, h2⟩, h3⟩ := h
    exact ⟨rfl, h2, h3⟩
  | esc c => right; exact ⟨_, rfl⟩
  | uni a b c d => right; exact ⟨_, rfl⟩

theorem strBody_cons (b : UInt8) (s : Bytes) : strBody (b :: s) = (escItem b).bytes ++ strBody s := by
  simp [strBody, strItems]

/-- a key whose escaped spelling, closed by its quote, starts with the plain word `w` and a quote is `w` -/
theorem strBody_plain_word : ∀ (w : Bytes), (∀ c ∈ w, c ≠ 0x22 ∧ c ≠ 0x5c) → ∀ (k X r' : Bytes),
    strBody k ++ 0x22 :: X = w ++ 0x22 :: r' → k = w
  | [], _, k, X, r', h => by
    cases k with
    | nil => rfl
    | cons b k' =>
      rw [strBody_cons] at h
      rcases item_bytes_cases b with ⟨hb, h2, _⟩ | ⟨tl, hb⟩
      · rw [hb] at h; simp at h; exact absurd h.1 h2
      · rw [hb] at h; simp at h
  | c :: w, hw, k, X, r', h => by
    have hc := hw c (by simp)
    cases k with
    | nil => simp [strBody, strItems] at h; exact absurd h.1.symm hc.1
    | cons b k' =>
      rw [strBody_cons] at h
      rcases item_bytes_cases b with ⟨hb, _, _⟩ | ⟨tl, hb⟩
      · rw [hb] at h
        simp only [List.cons_append, List.nil_append, List.cons.injEq] at h
        obtain ⟨rfl, h⟩ := h
        rw [strBody_plain_word w (fun c hc => hw c (by simp [hc])) k' X r' h]
      · rw [hb] at h
        simp only [List.cons_append, List.cons.injEq] at h
        exact absurd h.1.symm hc.2

theorem parseIdent_ok (env : Env) : ∀ (id text : Bytes) (pos : Nat) (r : Bytes) (p : Nat),
    parseIdent env id text pos = .ok () r p → text = id ++ r
  | [], text, pos, r, p, h => by simp [parseIdent] at h; simp [h.1]
  | e :: es, [], pos, r, p, h => by simp [parseIdent] at h; exact absurd h (atEof_ne_ok _ _ _ _ _ _)
  | e :: es, b :: text, pos, r, p, h => by
    simp only [parseIdent] at h
    split at h
    · rename_i hb
      have := parseIdent_ok env es text _ r p h
      simp at hb
      rw [this, hb]; rfl
    · simp at h

theorem keyBool_cons (env : Env) (b : UInt8) (rr : Bytes) (pos : Nat) : keyBool env (0x22 :: b :: rr) pos =
    if b == 0x74 then (parseIdent env identTrueQ rr (pos + 2)).bind fun _ r' p' => .ok (.bool true) r' p'
    else if b == 0x66 then (parseIdent env identFalseQ rr (pos + 2)).bind fun _ r' p' => .ok (.bool false) r' p'
    else (parseStr env (b :: rr) (pos + 1)).bind fun _ r' p' => .data (errorIdx env r' p' false) := rfl

section
variable {env : Env} (hflt : env.flt = false)
include hflt

theorem keyAgree_bool : KeyAgree (keyBool env) (FromValue.keyDe .bool) := by
  intro k hu tl pos
  simp only [FromValue.keyDe]
  by_cases ht : k = FromValue.strTrue
  · subst ht
    simp only [beq_self_eq_true, if_true]
    show keyBool env (0x22 :: 0x74 :: (identTrueQ ++ 0x3a :: tl)) pos = _
    unfold keyBool
    simp only [List.drop_succ_cons, List.drop_zero, beq_self_eq_true, if_true]
    rw [parseIdent_exact]
    simp [Res.bind, identTrueQ, Gen.identTrue, quote_length, strBody, strItems, escItem, FromValue.strTrue, StrItem.bytes]
  · by_cases hf : k = FromValue.strFalse
    · subst hf
      simp only [show (FromValue.strFalse == FromValue.strTrue) = false by decide, Bool.false_eq_true, if_false, beq_self_eq_true, if_true]
      show keyBool env (0x22 :: 0x66 :: (identFalseQ ++ 0x3a :: tl)) pos = _
      unfold keyBool
      simp only [List.drop_succ_cons, List.drop_zero, beq_self_eq_true, if_true,
        show ((0x66 : UInt8) == 0x74) = false by decide, Bool.false_eq_true, if_false]
      rw [parseIdent_exact]
      simp [Res.bind, identFalseQ, Gen.identFalse, quote_length, strBody, strItems, escItem, FromValue.strFalse, StrItem.bytes]
    · have h1 : (k == FromValue.strTrue) = false := by simpa using ht
      have h2 : (k == FromValue.strFalse) = false := by simpa using hf
      simp only [h1, h2, Bool.false_eq_true, if_false, FromValue.fail]
      intro x r p
      rw [quote_eq]
      simp only [List.cons_append, List.append_assoc, List.nil_append]
      obtain ⟨b, rr, hb⟩ : ∃ b rr, strBody k ++ 0x22 :: 0x3a :: tl = b :: rr := by
        cases h : strBody k ++ 0x22 :: 0x3a :: tl with
        | nil => simp at h
        | cons b rr => exact ⟨b, rr, rfl⟩
      rw [hb, keyBool_cons]
      split
      · rename_i hbt
        have hbt' : b = 0x74 := by simpa using hbt
        subst hbt'
        intro e
        obtain ⟨_, r1, p1, he, _⟩ := bind_ok e
        have := parseIdent_ok env _ _ _ _ _ he
        rw [this] at hb
        exact ht (strBody_plain_word [0x74, 0x72, 0x75, 0x65] (by decide) k (0x3a :: tl) r1 (by rw [hb]; rfl))
      · split
        · rename_i _ hbf
          have hbf' : b = 0x66 := by simpa using hbf
          subst hbf'
          intro e
          obtain ⟨_, r1, p1, he, _⟩ := bind_ok e
          have := parseIdent_ok env _ _ _ _ _ he
          rw [this] at hb
          exact hf (strBody_plain_word [0x66, 0x61, 0x6c, 0x73, 0x65] (by decide) k (0x3a :: tl) r1 (by rw [hb]; rfl))
        · intro e
          obtain ⟨_, r1, p1, _, he⟩ := bind_ok e
          simp at he

end

/-! ## the map visitor over a printed object -/

section
variable (hext : Spec.Program.ExtOK ext)
variable {env : Env} (hflt : env.flt = false) (cfg' : FromValue.Cfg) (hap : cfg'.ap = false) (ext' : FromValue.Ext)

/-- the separator that follows a member's value is admissible (`,` or `}`) -/
theorem sepOK_mtail (kvs : List (Bytes × JV)) (rest : Bytes) : SepOK (Tmtail ext kvs ++ 0x7d :: rest) := by
  cases kvs with
  | nil => exact .inr ⟨0x7d, rest, rfl, .inr (.inr (.inl rfl))⟩
  | cons x xs => exact .inr ⟨0x2c, _, rfl, .inl rfl⟩

/-- the text of the members still to be read: all of them (`first`), or a comma and the rest -/
def Tm (first : Bool) (kvs : List (Bytes × JV)) : Bytes := if first then Tmembers ext kvs else Tmtail ext kvs

theorem Tm_nil (first : Bool) : Tm ext first [] = [] := by cases first <;> rfl

theorem Tm_cons (first : Bool) (k : Bytes) (x : JV) (r : List (Bytes × JV)) :
    Tm ext first ((k, x) :: r) = (if first then [] else [0x2c]) ++ (quote k ++ 0x3a :: (T ext x ++ Tmtail ext r)) := by
  cases first
  · simp only [Tm, Bool.false_eq_true, if_false, Tmtail, Tmembers_cons]; rfl
  · simp only [Tm, if_true, Tmembers_cons, List.nil_append]

/-- `has_next_key` in front of a member -/
theorem hasNextKey_member (first : Bool) (k tl : Bytes) (pos : Nat) :
    hasNextKey env first ((if first then [] else [0x2c]) ++ (quote k ++ tl)) pos =
      .ok true (quote k ++ tl) (pos + (if first then 0 else 1)) := by
  cases first
  · simp only [Bool.false_eq_true, if_false, List.singleton_append]; exact hasNextKey_comma k tl pos
  · simp only [if_true, List.nil_append, Nat.add_zero]; exact hasNextKey_first k tl pos

/-- after a member's value, `.` / `e` / `E` is neither `,` nor `}` -/
theorem hasNextKey_bad {r : Bytes} (h : BadHead r) (pos : Nat) : ∀ b r' p', hasNextKey env false r pos ≠ .ok b r' p' := by
  obtain ⟨c, tl, rfl, hw, _, h2, h7⟩ := badHead_facts h
  intro b r' p'
  unfold hasNextKey
  rw [withPeek_cons env _ hw]
  simp [h7, h2]

theorem mapLoop_bad (kk : KeyKind) (de : Bytes → Nat → TOut) {r : Bytes} (h : BadHead r) :
    ∀ (n : Nat) (acc : List (TVal × TVal)) (pos : Nat) a r' p', mapLoop env kk de n false acc r pos ≠ .ok a r' p' := by
  intro n
  cases n with
  | zero => intro acc pos a r' p'; simp [mapLoop]
  | succ n =>
    intro acc pos
    unfold mapLoop
    exact bind_not_ok (hasNextKey_bad h pos)

theorem endMap_bad {r : Bytes} (h : BadHead r) (pos : Nat) : ∀ u r' p', (endMap env r pos).res ≠ .ok u r' p' := by
  obtain ⟨c, tl, rfl, hw, _, _, h7⟩ := badHead_facts h
  intro u r' p'
  unfold endMap
  rw [skipWs_cons hw]
  simp [h7]

/-- entries of an object read by `MapAccess` with key parser `deKey kk` and value parser `de`, against `mapAll` -/
theorem mapLoop_text (kk : KeyKind) (hk : KeyAgree (deKey env kk) (FromValue.keyDe kk)) (de : Bytes → Nat → TOut)
    (fv : JV → FromValue.R) :
    ∀ (kvs : List (Bytes × JV)), (∀ kv ∈ kvs, Spec.Utf8.validUtf8 kv.1 = true ∧ Agree1w de (fv kv.2) (T ext kv.2)) →
    ∀ (first : Bool) (acc : List (TVal × TVal)) (n : Nat) (rest : Bytes) (pos : Nat),
      (Tm ext first kvs ++ 0x7d :: rest).length < n →
      match FromValue.mapAll (FromValue.keyDe kk) fv kvs with
      | .ok ys => mapLoop env kk de n first acc (Tm ext first kvs ++ 0x7d :: rest) pos =
          .ok (acc.reverse ++ ys) (0x7d :: rest) (pos + (Tm ext first kvs).length)
      | .error _ => ∀ a r p, mapLoop env kk de n first acc (Tm ext first kvs ++ 0x7d :: rest) pos ≠ .ok a r p := by
  intro kvs
  induction kvs with
  | nil =>
    intro _ first acc n rest pos hn
    cases n with
    | zero => omega
    | succ n =>
      simp only [FromValue.mapAll, Tm_nil, List.nil_append, List.length_nil, Nat.add_zero]
      unfold mapLoop
      rw [hasNextKey_close]
      simp [Res.bind]
  | cons kv kvs ih =>
    intro hx first acc n rest pos hn
    obtain ⟨k, x⟩ := kv
    obtain ⟨hu, hag⟩ := hx (k, x) (by simp)
    have ih' := ih (fun y hy => hx y (by simp [hy]))
    cases n with
    | zero => omega
    | succ n =>
      have htxt : Tm ext first ((k, x) :: kvs) ++ 0x7d :: rest =
          (if first then [] else [0x2c]) ++ (quote k ++ 0x3a :: (T ext x ++ (Tmtail ext kvs ++ 0x7d :: rest))) := by
        rw [Tm_cons]; simp [List.append_assoc]
      have hlen : (Tm ext first ((k, x) :: kvs)).length =
          (if first then 0 else 1) + (quote k).length + 1 + (T ext x).length + (Tmtail ext kvs).length := by
        rw [Tm_cons]; cases first <;> simp <;> omega
      rw [htxt]
      unfold mapLoop
      rw [hasNextKey_member]
      simp only [Res.bind, Bool.not_true, Bool.false_eq_true, if_false]
      have hkey := hk k hu (T ext x ++ (Tmtail ext kvs ++ 0x7d :: rest)) (pos + (if first then 0 else 1))
      simp only [FromValue.mapAll]
      cases hfk : FromValue.keyDe kk k with
      | error e =>
        rw [hfk] at hkey
        simp only at hkey ⊢
        exact bind_not_ok hkey
      | ok a =>
        rw [hfk] at hkey
        simp only at hkey ⊢
        rw [hkey]
        simp only [Res.bind, parseObjectColon_colon]
        have hel := hag (Tmtail ext kvs ++ 0x7d :: rest) (pos + (if first then 0 else 1) + (quote k).length + 1) (sepOK_mtail ext kvs rest)
        cases hfx : fv x with
        | error e =>
          rw [hfx] at hel
          simp only at hel ⊢
          exact bind_bad hel fun v r1 p1 hb => mapLoop_bad kk de hb n _ p1
        | ok y =>
          rw [hfx] at hel
          simp only at hel ⊢
          rw [hel]
          simp only [Res.bind]
          have hrec := ih' false ((a, y) :: acc) n rest (pos + (if first then 0 else 1) + (quote k).length + 1 + (T ext x).length) (by
            rw [htxt] at hn
            simp only [Tm, Bool.false_eq_true, if_false]
            simp only [List.length_append, List.length_cons] at hn ⊢
            omega)
          simp only [Tm, Bool.false_eq_true, if_false] at hrec
          cases hall : FromValue.mapAll (FromValue.keyDe kk) fv kvs with
          | error e =>
            rw [hall] at hrec
            simp only at hrec ⊢
            exact hrec
          | ok ys =>
            rw [hall] at hrec
            simp only at hrec ⊢
            rw [hrec, hlen]
            simp only [List.reverse_cons, List.append_assoc, List.singleton_append]
            congr 1
            omega

include hext hflt in
/-- maps: `deserialize_map` with the key kind's `MapKey` method against `MapDeserializer` + `MapKeyDeserializer` -/
theorem agree_map (kk : KeyKind) (hk : KeyAgree (deKey env kk) (FromValue.keyDe kk)) (s : Schema) (f t : Nat) (v : JV)
    (hv : VOKg v) (hd : DepthOK env t v)
    (ih : ∀ kvs, v = .obj kvs → ∀ kv ∈ kvs, Agree1w (deTyped env f (t + 1) s) (FromValue.fromValue cfg' ext' s kv.2) (T ext kv.2)) :
    Agree1 (deTyped env (f + 1) t (.map kk s)) (FromValue.fromValue cfg' ext' (.map kk s) v) (T ext v) := by
  intro rest pos hs
  obtain ⟨c, tl, hT, hc⟩ := T_head_g ext hext v hv
  have hw := (headOf_facts hc).1
  have ht := headOf_tests hc
  rw [deTyped_map]
  cases v with
  | obj kvs =>
    have hel : ∀ kv ∈ kvs, Spec.Utf8.validUtf8 kv.1 = true ∧
        Agree1w (deTyped env f (t + 1) s) (FromValue.fromValue cfg' ext' s kv.2) (T ext kv.2) :=
      fun kv hx => ⟨(vokg_member kvs kv hx hv).1, ih kvs rfl kv hx⟩
    have hloop := mapLoop_text ext kk hk (deTyped env f (t + 1) s) (FromValue.fromValue cfg' ext' s) kvs hel true []
      ((Tmembers ext kvs ++ 0x7d :: rest).length + 1) rest (pos + 1) (by simp [Tm])
    simp only [Tm, if_true] at hloop
    simp only [FromValue.fromValue]
    rw [T_obj_eq]
    simp only [List.cons_append, List.append_assoc, List.nil_append]
    have hde := deMap_open t (fun r p => Res.map TVal.map (mapLoop env kk (deTyped env f (t + 1) s) (List.length r + 1) true [] r p))
      (Tmembers ext kvs ++ 0x7d :: rest) pos (tooDeep_false_obj t kvs hd)
    cases hall : FromValue.mapAll (FromValue.keyDe kk) (FromValue.fromValue cfg' ext' s) kvs with
    | error e =>
      rw [hall] at hloop
      simp only at hloop
      simp only [Except.map]
      intro x r p
      rw [hde]
      exact closeWith_not_ok _ (map_not_ok hloop) x r p
    | ok ys =>
      rw [hall] at hloop
      simp only at hloop
      simp only [Except.map]
      rw [hde, hloop]
      simp only [Res.map, Res.bind, closeWith, endMap_close, List.nil_append, List.reverse_nil, List.length_cons, List.length_append,
        List.length_nil]
      congr 1
      omega
  | null | bool _ | num _ | str _ | arr _ =>
    simp only [FromValue.fromValue, FromValue.fail]
    intro x r p
    rw [hT]
    simp only [List.cons_append]
    unfold deMap
    rw [withPeek_cons env _ hw]
    simp only [ht.2.2.2.2.2.2.2.1, Bool.false_eq_true, if_false]
    exact peekInvalidType_not_ok _ _ _ _ _ _

end

end SJ.Proofs.Typed
