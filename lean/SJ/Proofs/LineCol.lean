import SJ.Model.Machine
import SJ.Model.LineCol
/-!
# The two position computations of the crate equal the specification `lineCol`

`lineCol bs k` (`Model/Machine.lean`) folds over the first `k` bytes: a newline moves to the next line,
column 0; any other byte adds one to the column. Conventions, all three computations alike:

* the result describes the position *after* `k` bytes: `lineCol bs 0 = (1, 0)`; the `k`-th byte (1-based) of
  a document without newlines is reported in column `k`;
* just after a newline the column is 0 (`lineCol_after_newline`): an error "at" a newline byte — index counting
  the newline — is reported on the NEXT line in column 0, never as column `n + 1` of the line the newline ends;
* `\r` is an ordinary byte (one column).

Contents: `lineCol` step lemmas; `LCIter.feed` = `lineCol` (`feed_lineCol`), `byte_offset` = bytes handed
out; the reader invariant `Inv` (preserved by `next` / `peek` / `discard`, so it holds after every sequence
of calls: `inv_run`); the contract of the naive `memrchr` / `memchr_iter().count()`; `sliceLineCol` = `lineCol`.
-/
namespace SJ.Proofs.LineCol
open SJ SJ.Model.Machine SJ.Model.LineCol

/-- one step of `lineCol`'s fold -/
abbrev lcStep (lc : Nat × Nat) (b : UInt8) : Nat × Nat := if b == 0x0a then (lc.1 + 1, 0) else (lc.1, lc.2 + 1)

theorem lineCol_eq_fold (bs : Bytes) (k : Nat) : lineCol bs k = (bs.take k).foldl lcStep (1, 0) := rfl

theorem lineCol_zero (bs : Bytes) : lineCol bs 0 = (1, 0) := by simp [lineCol]

/-- `lineCol` looks at the first `k` bytes only -/
theorem lineCol_take (bs : Bytes) (k : Nat) : lineCol (bs.take k) k = lineCol bs k := by
  simp [lineCol, List.take_take]

theorem lineCol_append_left (xs ys : Bytes) : lineCol (xs ++ ys) xs.length = lineCol xs xs.length := by
  simp [lineCol]

/-- past the end nothing more is counted -/
theorem lineCol_of_length_le (bs : Bytes) (k : Nat) (h : bs.length ≤ k) : lineCol bs k = lineCol bs bs.length := by
  simp [lineCol, List.take_of_length_le h]

/-- **one more byte**: the position after `k + 1` bytes from the position after `k` and the byte `bs[k]` -/
theorem lineCol_succ (bs : Bytes) (k : Nat) (h : k < bs.length) :
    lineCol bs (k + 1) = lcStep (lineCol bs k) bs[k] := by
  simp only [lineCol_eq_fold]
  rw [List.take_add_one, List.foldl_append]
  simp [List.getElem?_eq_getElem h]

/-- … spelled out: a newline starts the next line in column 0 -/
theorem lineCol_succ_newline (bs : Bytes) (k : Nat) (h : k < bs.length) (hb : bs[k] = 0x0a) :
    lineCol bs (k + 1) = ((lineCol bs k).1 + 1, 0) := by
  rw [lineCol_succ bs k h]; simp [lcStep, hb]

/-- … any other byte (`\r` included) is one more column on the same line -/
theorem lineCol_succ_other (bs : Bytes) (k : Nat) (h : k < bs.length) (hb : bs[k] ≠ 0x0a) :
    lineCol bs (k + 1) = ((lineCol bs k).1, (lineCol bs k).2 + 1) := by
  rw [lineCol_succ bs k h]; simp [lcStep, hb]

/-- the column just after a newline is 0, whatever came before -/
theorem lineCol_after_newline (pre post : Bytes) :
    (lineCol (pre ++ 0x0a :: post) (pre.length + 1)).2 = 0 := by
  have h : pre.length < (pre ++ 0x0a :: post).length := by simp
  rw [lineCol_succ_newline _ _ h (by simp)]

/-! ## `LineColIterator` -/

theorem feed_append (it : LCIter) (xs ys : Bytes) : it.feed (xs ++ ys) = (it.feed xs).feed ys := by
  induction xs generalizing it with
  | nil => rfl
  | cons b r ih => simp only [List.cons_append, LCIter.feed]; exact ih _

/-- `line`/`col` follow `lineCol`'s fold from wherever they stand; `byte_offset()` grows by one per byte -/
theorem feed_fold (it : LCIter) (xs : Bytes) :
    ((it.feed xs).line, (it.feed xs).col) = xs.foldl lcStep (it.line, it.col) ∧
    (it.feed xs).byteOffset = it.byteOffset + xs.length := by
  induction xs generalizing it with
  | nil => simp [LCIter.feed]
  | cons b r ih =>
    simp only [LCIter.feed, List.foldl_cons, List.length_cons]
    obtain ⟨h1, h2⟩ := ih (it.next b)
    rw [h1, h2]
    by_cases hb : (b == 0x0a) = true
    · simp only [LCIter.next, LCIter.onItem, hb, if_true, lcStep, LCIter.byteOffset]
      exact ⟨trivial, by omega⟩
    · simp only [LCIter.next, LCIter.onItem, if_neg hb, lcStep, LCIter.byteOffset]
      exact ⟨trivial, by omega⟩

/-- **the iterator's counters are `lineCol`**: after the first `k` bytes of `bs` (`k ≤ |bs|`) have been handed out,
    `(line(), col()) = lineCol bs k` and `byte_offset() = k` -/
theorem feed_lineCol (bs : Bytes) (k : Nat) (hk : k ≤ bs.length) :
    ((LCIter.new.feed (bs.take k)).line, (LCIter.new.feed (bs.take k)).col) = lineCol bs k ∧
    (LCIter.new.feed (bs.take k)).byteOffset = k := by
  obtain ⟨h1, h2⟩ := feed_fold LCIter.new (bs.take k)
  refine ⟨h1, ?_⟩
  rw [h2]; simp [LCIter.new, LCIter.byteOffset, List.length_take]; omega

/-- the invariant `start_of_line + col = bytes handed out` is what makes `byte_offset()` right; in particular
    `start_of_line` is the index of the first byte of the current line -/
theorem feed_startOfLine (bs : Bytes) (k : Nat) (hk : k ≤ bs.length) :
    (LCIter.new.feed (bs.take k)).startOfLine = k - (lineCol bs k).2 := by
  obtain ⟨h1, h2⟩ := feed_lineCol bs k hk
  have hc : (LCIter.new.feed (bs.take k)).col = (lineCol bs k).2 := by rw [← h1]
  simp only [LCIter.byteOffset] at h2
  omega

/-! ## the reader: invariant of `IoPos` -/

/-- a reader over `bs` that has handed out `pulled` bytes; the peek slot is empty or holds the last of them -/
structure Inv (bs : Bytes) (r : IoPos) (pulled : Nat) : Prop where
  le : pulled ≤ bs.length
  iter : r.iter = LCIter.new.feed (bs.take pulled)
  rest : r.rest = bs.drop pulled
  ch : r.ch = none ∨ ∃ k, pulled = k + 1 ∧ r.ch = bs[k]?

theorem inv_new (bs : Bytes) : Inv bs (IoPos.new bs) 0 :=
  ⟨Nat.zero_le _, by simp [IoPos.new, LCIter.feed], by simp [IoPos.new], .inl rfl⟩

theorem Inv.position {bs : Bytes} {r : IoPos} {p : Nat} (h : Inv bs r p) : r.position = lineCol bs p := by
  unfold IoPos.position; rw [h.iter]; exact (feed_lineCol bs p h.le).1

theorem Inv.peekPosition {bs : Bytes} {r : IoPos} {p : Nat} (h : Inv bs r p) : r.peekPosition = lineCol bs p :=
  h.position

/-- `iter.byte_offset() - 1` does not underflow: a byte in the peek slot has been handed out -/
theorem Inv.byteOffset_no_underflow {bs : Bytes} {r : IoPos} {p : Nat} (h : Inv bs r p) (hc : r.ch.isSome) :
    1 ≤ r.iter.byteOffset := by
  rw [h.iter, (feed_lineCol bs p h.le).2]
  rcases h.ch with h0 | ⟨k, hk, _⟩
  · rw [h0] at hc; cases hc
  · omega

/-- `byte_offset()` is the number of bytes CONSUMED: those handed out, minus the one waiting in the peek slot -/
theorem Inv.byteOffset {bs : Bytes} {r : IoPos} {p : Nat} (h : Inv bs r p) :
    r.byteOffset = if r.ch.isSome then p - 1 else p := by
  unfold IoPos.byteOffset
  rw [h.iter, (feed_lineCol bs p h.le).2]
  cases r.ch <;> rfl

theorem take_succ_getElem (bs : Bytes) (p : Nat) (b : UInt8) (rest : Bytes) (h : bs.drop p = b :: rest) :
    p < bs.length ∧ bs.take (p + 1) = bs.take p ++ [b] ∧ bs.drop (p + 1) = rest ∧ bs[p]? = some b := by
  have hlt : p < bs.length := by
    rcases Nat.lt_or_ge p bs.length with h' | h'
    · exact h'
    · rw [List.drop_of_length_le h'] at h; cases h
  have hd := List.drop_eq_getElem_cons hlt
  rw [h] at hd
  injection hd with h1 h2
  refine ⟨hlt, ?_, h2.symm, ?_⟩
  · rw [List.take_add_one, List.getElem?_eq_getElem hlt, h1]; rfl
  · rw [List.getElem?_eq_getElem hlt, h1]

/-- `self.iter.next()`: one more byte handed out, or the end -/
theorem Inv.pull {bs : Bytes} {r : IoPos} {p : Nat} (h : Inv bs r p) :
    (r.pull.1 = none ∧ p = bs.length ∧ Inv bs { r.pull.2 with ch := none } p) ∨
    (∃ b, r.pull.1 = some b ∧ bs[p]? = some b ∧ Inv bs { r.pull.2 with ch := none } (p + 1) ∧
      Inv bs { r.pull.2 with ch := some b } (p + 1)) := by
  unfold IoPos.pull
  have hr := h.rest
  cases hrest : r.rest with
  | nil =>
    left
    rw [hrest] at hr
    have hp : p = bs.length := by
      have := congrArg List.length hr; simp at this; have := h.le; omega
    exact ⟨rfl, hp, ⟨h.le, by simpa [LCIter.onItem] using h.iter, by simp [← hr], .inl rfl⟩⟩
  | cons b rest =>
    right
    rw [hrest] at hr
    obtain ⟨hlt, htake, hdrop, hget⟩ := take_succ_getElem bs p b rest hr.symm
    have hiter : r.iter.onItem (.ok b) = LCIter.new.feed (bs.take (p + 1)) := by
      rw [htake, feed_append, ← h.iter]; rfl
    refine ⟨b, rfl, hget, ⟨hlt, hiter, hdrop.symm, .inl rfl⟩, ⟨hlt, hiter, hdrop.symm, .inr ⟨p, rfl, hget.symm⟩⟩⟩

/-- `next()`, `peek()` and `discard()` keep the invariant -/
theorem Inv.step {bs : Bytes} {r : IoPos} {p : Nat} (h : Inv bs r p) (o : Op) : ∃ p', Inv bs (r.step o) p' := by
  cases o with
  | discard => exact ⟨p, ⟨h.le, h.iter, h.rest, .inl rfl⟩⟩
  | next =>
    unfold IoPos.step IoPos.next
    cases hc : r.ch with
    | some c => exact ⟨p, ⟨h.le, h.iter, h.rest, .inl rfl⟩⟩
    | none =>
      have hr : r = { r with ch := none } := by cases r; simp_all
      rcases h.pull with ⟨_, _, hi⟩ | ⟨b, _, _, hi, _⟩
      · refine ⟨p, ?_⟩
        have : r.pull.2 = { r.pull.2 with ch := none } := by
          unfold IoPos.pull; cases r.rest <;> simp [hc]
        simp only; rw [this]; exact hi
      · refine ⟨p + 1, ?_⟩
        have : r.pull.2 = { r.pull.2 with ch := none } := by
          unfold IoPos.pull; cases r.rest <;> simp [hc]
        simp only; rw [this]; exact hi
  | peek =>
    unfold IoPos.step IoPos.peek
    cases hc : r.ch with
    | some c => exact ⟨p, h⟩
    | none =>
      rcases h.pull with ⟨h1, _, hi⟩ | ⟨b, h1, _, _, hi⟩
      · refine ⟨p, ?_⟩
        have h2 : r.pull.2 = { r.pull.2 with ch := none } := by
          unfold IoPos.pull; cases r.rest <;> simp [hc]
        have h3 : r.pull = (none, r.pull.2) := by rw [← h1]
        simp only; rw [h3]; simp only; rw [h2]; exact hi
      · refine ⟨p + 1, ?_⟩
        have h3 : r.pull = (some b, r.pull.2) := by rw [← h1]
        simp only; rw [h3]; exact hi

/-- after ANY sequence of `next` / `peek` / `discard` calls on a fresh reader the invariant holds -/
theorem inv_run (bs : Bytes) (ops : List Op) : ∃ p, Inv bs ((IoPos.new bs).run ops) p := by
  suffices ∀ r p, Inv bs r p → ∃ p', Inv bs (r.run ops) p' from this _ 0 (inv_new bs)
  induction ops with
  | nil => intro r p h; exact ⟨p, h⟩
  | cons o os ih =>
    intro r p h
    obtain ⟨p', h'⟩ := h.step o
    exact ih _ p' h'

/-- the driver's reconstruction satisfies the invariant -/
theorem inv_at (bs : Bytes) (pulled : Nat) (peeked : Bool) (h : pulled ≤ bs.length) :
    Inv bs (IoPos.at bs pulled peeked) pulled := by
  refine ⟨h, rfl, rfl, ?_⟩
  unfold IoPos.at
  cases peeked with
  | false => exact .inl rfl
  | true =>
    cases pulled with
    | zero => exact .inl rfl
    | succ k => exact .inr ⟨k, rfl, rfl⟩

theorem readerLineCol_eq (bs : Bytes) (k : Nat) (h : k ≤ bs.length) : readerLineCol bs k = lineCol bs k :=
  (inv_at bs k false h).position

/-! ## the naive `memchr` functions meet memchr's contract -/

/-- induction from the right (core has no `List.reverseRecOn`) -/
theorem snoc_induction {P : Bytes → Prop} (nil : P []) (snoc : ∀ xs b, P xs → P (xs ++ [b])) (xs : Bytes) : P xs := by
  have : ∀ ys : Bytes, P ys.reverse := by
    intro ys
    induction ys with
    | nil => exact nil
    | cons b r ih => rw [List.reverse_cons]; exact snoc _ _ ih
  simpa using this xs.reverse

theorem memrchrFrom_append (n : UInt8) (xs : Bytes) (b : UInt8) (i : Nat) (last : Option Nat) :
    memrchrFrom n (xs ++ [b]) i last = if b == n then some (i + xs.length) else memrchrFrom n xs i last := by
  induction xs generalizing i last with
  | nil => simp [memrchrFrom]
  | cons x r ih =>
    simp only [List.cons_append, memrchrFrom, List.length_cons]
    rw [ih]
    have : i + 1 + r.length = i + (r.length + 1) := by omega
    rw [this]

theorem memrchr_append (n : UInt8) (xs : Bytes) (b : UInt8) :
    memrchr n (xs ++ [b]) = if b == n then some xs.length else memrchr n xs := by
  unfold memrchr; rw [memrchrFrom_append]; simp

theorem memrchr_nil (n : UInt8) : memrchr n [] = none := rfl

/-- contract of `memrchr`, found case: the index holds the needle and no later index does -/
theorem memrchr_some_iff (n : UInt8) (hay : Bytes) (p : Nat) :
    memrchr n hay = some p ↔ (hay[p]? = some n ∧ ∀ j, p < j → hay[j]? ≠ some n) := by
  induction hay using snoc_induction generalizing p with
  | nil => simp [memrchr_nil]
  | snoc xs b ih =>
    rw [memrchr_append]
    by_cases hb : (b == n) = true
    · have hbn : b = n := by simpa using hb
      simp only [hb, if_true]
      constructor
      · intro h; injection h with h; subst h
        refine ⟨by simp [hbn], fun j hj => ?_⟩
        rw [List.getElem?_eq_none (by simp; omega)]; simp
      · rintro ⟨h1, h2⟩
        rcases Nat.lt_trichotomy p xs.length with hlt | heq | hgt
        · exact absurd (by simp [hbn]) (h2 xs.length hlt)
        · rw [heq]
        · rw [List.getElem?_eq_none (by simp; omega)] at h1; cases h1
    · rw [if_neg hb]
      have hbn : b ≠ n := by simpa using hb
      rw [ih]
      constructor
      · rintro ⟨h1, h2⟩
        have hlt : p < xs.length := by
          rcases Nat.lt_or_ge p xs.length with h' | h'
          · exact h'
          · rw [List.getElem?_eq_none h'] at h1; cases h1
        refine ⟨by rw [List.getElem?_append_left hlt]; exact h1, fun j hj => ?_⟩
        rcases Nat.lt_trichotomy j xs.length with hl | he | hg
        · rw [List.getElem?_append_left hl]; exact h2 j hj
        · subst he; simp [hbn]
        · rw [List.getElem?_eq_none (by simp; omega)]; simp
      · rintro ⟨h1, h2⟩
        have hlt : p < xs.length := by
          rcases Nat.lt_trichotomy p xs.length with hl | he | hg
          · exact hl
          · subst he; simp at h1; exact absurd h1 hbn
          · rw [List.getElem?_eq_none (by simp; omega)] at h1; cases h1
        refine ⟨by rw [List.getElem?_append_left hlt] at h1; exact h1, fun j hj => ?_⟩
        rcases Nat.lt_or_ge j xs.length with hl | hg
        · have := h2 j hj; rwa [List.getElem?_append_left hl] at this
        · rw [List.getElem?_eq_none hg]; simp

/-- contract of `memrchr`, not-found case -/
theorem memrchr_none_iff (n : UInt8) (hay : Bytes) : memrchr n hay = none ↔ ∀ x ∈ hay, x ≠ n := by
  induction hay using snoc_induction with
  | nil => simp [memrchr_nil]
  | snoc xs b ih =>
    rw [memrchr_append]
    by_cases hb : (b == n) = true
    · have hbn : b = n := by simpa using hb
      simp [hbn]
    · have hbn : b ≠ n := by simpa using hb
      rw [if_neg hb]
      rw [ih]
      constructor
      · intro h x hx
        rcases List.mem_append.mp hx with h' | h'
        · exact h x h'
        · simp at h'; rw [h']; exact hbn
      · intro h x hx; exact h x (List.mem_append.mpr (.inl hx))

/-- contract of `memchr_iter(n, hay).count()` -/
theorem memchrCount_eq_filter (n : UInt8) (hay : Bytes) : memchrCount n hay = (hay.filter (· == n)).length := by
  induction hay with
  | nil => rfl
  | cons b r ih =>
    simp only [memchrCount, List.filter_cons]
    by_cases hb : (b == n) = true
    · simp [hb, ih]; omega
    · simp [hb, ih]

theorem memchrCount_append (n : UInt8) (xs ys : Bytes) : memchrCount n (xs ++ ys) = memchrCount n xs + memchrCount n ys := by
  induction xs with
  | nil => simp [memchrCount]
  | cons b r ih => simp only [List.cons_append, memchrCount, ih]; omega

/-! ## `position_of_index` -/

/-- `start_of_line` as `position_of_index` computes it on the first `i` bytes `xs` -/
def startOf (xs : Bytes) : Nat :=
  match memrchr 0x0a xs with
  | some position => position + 1
  | none => 0

theorem startOf_append (xs : Bytes) (b : UInt8) :
    startOf (xs ++ [b]) = if b == 0x0a then xs.length + 1 else startOf xs := by
  unfold startOf; rw [memrchr_append]
  by_cases hb : (b == 0x0a) = true <;> simp [hb]

/-- `start_of_line ≤ i` (so `i - start_of_line` does not underflow and `&slice[..start_of_line]` is in
    bounds), and every newline of the first `i` bytes lies before `start_of_line` -/
theorem startOf_inv (xs : Bytes) :
    startOf xs ≤ xs.length ∧ memchrCount 0x0a (xs.take (startOf xs)) = memchrCount 0x0a xs := by
  induction xs using snoc_induction with
  | nil => simp [startOf, memrchr_nil]
  | snoc xs b ih =>
    rw [startOf_append]
    by_cases hb : (b == 0x0a) = true
    · simp only [hb, if_true, List.length_append, List.length_singleton]
      refine ⟨Nat.le_refl _, ?_⟩
      rw [List.take_of_length_le (by simp)]
    · rw [if_neg hb]
      simp only [List.length_append, List.length_singleton]
      refine ⟨by omega, ?_⟩
      rw [List.take_append_of_le_length ih.1, ih.2, memchrCount_append]
      simp [memchrCount, hb]

/-- the body of `position_of_index` on exactly the bytes it looks at -/
def posOf (xs : Bytes) : Nat × Nat := (1 + memchrCount 0x0a (xs.take (startOf xs)), xs.length - startOf xs)

theorem posOf_fold (xs : Bytes) : posOf xs = xs.foldl lcStep (1, 0) := by
  induction xs using snoc_induction with
  | nil => simp [posOf, startOf, memrchr_nil, memchrCount]
  | snoc xs b ih =>
    rw [List.foldl_append, ← ih]
    have hinv := startOf_inv xs
    have hinv' := startOf_inv (xs ++ [b])
    unfold posOf
    rw [hinv'.2, hinv.2, memchrCount_append, startOf_append]
    by_cases hb : (b == 0x0a) = true
    · simp [lcStep, hb, memchrCount]; omega
    · simp [lcStep, hb, memchrCount]; omega

theorem sliceLineCol_eq_posOf (bs : Bytes) (i : Nat) (h : i ≤ bs.length) : sliceLineCol bs i = posOf (bs.take i) := by
  have hs := (startOf_inv (bs.take i)).1
  have hl : (bs.take i).length = i := by simp [List.length_take]; omega
  unfold sliceLineCol posOf
  show (1 + memchrCount 0x0a (bs.take (startOf (bs.take i))), i - startOf (bs.take i)) = _
  rw [hl, List.take_take, Nat.min_eq_left (by omega)]

/-- **`position_of_index` is `lineCol`** for every index within the slice -/
theorem sliceLineCol_eq (bs : Bytes) (i : Nat) (h : i ≤ bs.length) : sliceLineCol bs i = lineCol bs i := by
  rw [sliceLineCol_eq_posOf bs i h, posOf_fold]; rfl

/-- the `start_of_line` it computes is the one the iterator maintains -/
theorem startOf_eq_iter (bs : Bytes) (i : Nat) (h : i ≤ bs.length) :
    startOf (bs.take i) = (LCIter.new.feed (bs.take i)).startOfLine := by
  rw [feed_startOfLine bs i h, ← sliceLineCol_eq bs i h, sliceLineCol_eq_posOf bs i h]
  have hs := (startOf_inv (bs.take i)).1
  have hl : (bs.take i).length = i := by simp [List.length_take]; omega
  simp only [posOf, hl] at hs ⊢; omega

theorem positionOfIndex_eq (bs : Bytes) (i : Nat) (h : i ≤ bs.length) : positionOfIndex bs i = some (lineCol bs i) := by
  simp [positionOfIndex, h, sliceLineCol_eq bs i h]

theorem positionOfIndex_panics (bs : Bytes) (i : Nat) (h : bs.length < i) : positionOfIndex bs i = none := by
  simp [positionOfIndex]; omega

/-! ## reader and slice in step

The same sequence of `next` / `peek` / `discard` calls (in `de.rs`'s discipline) on an `IoRead` and on a `SliceRead`
over the same bytes: the calls return the same bytes, `byte_offset()` is the same, and the positions the two report
are related exactly as `de.rs` assumes when it chooses between `error` (`position()`) and `peek_error`
(`peek_position()`): with nothing pending both `position()`s agree; with a peeked byte pending the reader's `position()`
(which already counts that byte) is the slice's `peek_position()`. -/

theorem Inv.next_spec {bs : Bytes} {r : IoPos} {p : Nat} (h : Inv bs r p) :
    (r.ch.isSome = true ∧ Inv bs r.next.2 p ∧ r.next.2.ch = none ∧ r.next.1 = r.ch) ∨
    (r.ch = none ∧ p = bs.length ∧ Inv bs r.next.2 p ∧ r.next.2.ch = none ∧ r.next.1 = none) ∨
    (r.ch = none ∧ p < bs.length ∧ Inv bs r.next.2 (p + 1) ∧ r.next.2.ch = none ∧ r.next.1 = bs[p]?) := by
  unfold IoPos.next
  cases hc : r.ch with
  | some c => exact .inl ⟨rfl, ⟨h.le, h.iter, h.rest, .inl rfl⟩, rfl, rfl⟩
  | none =>
    have h2 : r.pull.2 = { r.pull.2 with ch := none } := by
      unfold IoPos.pull; cases r.rest <;> simp [hc]
    have h2' : r.pull.2.ch = none := by rw [h2]
    rcases h.pull with ⟨h1, hp, hi⟩ | ⟨b, h1, hg, hi, _⟩
    · exact .inr (.inl ⟨rfl, hp, by simp only; rw [h2]; exact hi, h2', h1⟩)
    · exact .inr (.inr ⟨rfl, hi.le, by simp only; rw [h2]; exact hi, h2', by simp only; rw [h1, hg]⟩)

theorem Inv.peek_spec {bs : Bytes} {r : IoPos} {p : Nat} (h : Inv bs r p) :
    (r.ch.isSome = true ∧ r.peek.2 = r ∧ r.peek.1 = r.ch) ∨
    (r.ch = none ∧ p = bs.length ∧ Inv bs r.peek.2 p ∧ r.peek.2.ch = none ∧ r.peek.1 = none) ∨
    (r.ch = none ∧ p < bs.length ∧ Inv bs r.peek.2 (p + 1) ∧ r.peek.2.ch = bs[p]? ∧ r.peek.1 = bs[p]?) := by
  unfold IoPos.peek
  cases hc : r.ch with
  | some c => exact .inl ⟨rfl, rfl, rfl⟩
  | none =>
    rcases h.pull with ⟨h1, hp, hi⟩ | ⟨b, h1, hg, _, hi⟩
    · have h2 : r.pull.2 = { r.pull.2 with ch := none } := by
        unfold IoPos.pull; cases r.rest <;> simp [hc]
      have h3 : r.pull = (none, r.pull.2) := by rw [← h1]
      refine .inr (.inl ⟨rfl, hp, ?_, ?_, ?_⟩)
      · simp only; rw [h3]; simp only; rw [h2]; exact hi
      · simp only; rw [h3]; simp only; rw [h2]
      · simp only; rw [h3]
    · have h3 : r.pull = (some b, r.pull.2) := by rw [← h1]
      refine .inr (.inr ⟨rfl, hi.le, ?_, ?_, ?_⟩)
      · simp only; rw [h3]; exact hi
      · simp only; rw [h3]; simp only; exact hg.symm
      · simp only; rw [h3]; simp only; exact hg.symm

/-- reader `r` and slice reader `s` over `bs` have consumed the same bytes -/
def Sync (bs : Bytes) (r : IoPos) (s : SlicePos) : Prop :=
  ∃ p, Inv bs r p ∧ s.slice = bs ∧ s.index = r.byteOffset

theorem sync_new (bs : Bytes) : Sync bs (IoPos.new bs) ⟨bs, 0⟩ :=
  ⟨0, inv_new bs, rfl, rfl⟩

/-- a pending peeked byte is the slice's current byte -/
theorem Sync.pending {bs : Bytes} {r : IoPos} {s : SlicePos} (h : Sync bs r s) (hc : r.ch.isSome = true) :
    s.index < bs.length ∧ r.ch = bs[s.index]? := by
  obtain ⟨p, hi, hs, hx⟩ := h
  rw [hi.byteOffset, if_pos hc] at hx
  rcases hi.ch with h0 | ⟨k, hk, hch⟩
  · rw [h0] at hc; cases hc
  · have := hi.le
    subst hk
    exact ⟨by omega, by rw [hx, hch]; rfl⟩

theorem Sync.index_le {bs : Bytes} {r : IoPos} {s : SlicePos} (h : Sync bs r s) : s.index ≤ bs.length := by
  obtain ⟨p, hi, hs, hx⟩ := h
  rw [hi.byteOffset] at hx
  have := hi.le
  split at hx <;> omega

/-- the two `next()`s and the two `peek()`s return the same byte (or both the end of input) -/
theorem Sync.results {bs : Bytes} {r : IoPos} {s : SlicePos} (h : Sync bs r s) :
    r.next.1 = s.next.1 ∧ r.peek.1 = s.peek.1 := by
  have hle := h.index_le
  obtain ⟨p, hi, hs, hx⟩ := h
  have hbo := hi.byteOffset
  unfold SlicePos.next SlicePos.peek
  rw [hs]
  constructor
  · rcases hi.next_spec with ⟨hc, _, _, hr⟩ | ⟨hc, hp, _, _, hr⟩ | ⟨hc, hp, _, _, hr⟩
    · obtain ⟨hlt, hch⟩ := Sync.pending ⟨p, hi, hs, hx⟩ hc
      rw [if_pos hlt, hr, hch]
    · rw [hc] at hbo; simp at hbo
      rw [if_neg (by omega), hr]
    · rw [hc] at hbo; simp at hbo
      rw [if_pos (by omega), hr, hx, hbo]
  · rcases hi.peek_spec with ⟨hc, _, hr⟩ | ⟨hc, hp, _, _, hr⟩ | ⟨hc, hp, _, _, hr⟩
    · obtain ⟨hlt, hch⟩ := Sync.pending ⟨p, hi, hs, hx⟩ hc
      rw [if_pos hlt, hr, hch]
    · rw [hc] at hbo; simp at hbo
      rw [if_neg (by omega), hr]
    · rw [hc] at hbo; simp at hbo
      rw [if_pos (by omega), hr, hx, hbo]

theorem SlicePos.next_lt (s : SlicePos) (h : s.index < s.slice.length) :
    s.next = (s.slice[s.index]?, { s with index := s.index + 1 }) := by
  unfold SlicePos.next; rw [if_pos h]
theorem SlicePos.next_ge (s : SlicePos) (h : ¬ s.index < s.slice.length) : s.next = (none, s) := by
  unfold SlicePos.next; rw [if_neg h]
theorem SlicePos.peek_snd (s : SlicePos) : s.peek.2 = s := by
  unfold SlicePos.peek; split <;> rfl

/-- one call keeps reader and slice in step (`discard` only while a peeked byte is pending) -/
theorem Sync.step {bs : Bytes} {r : IoPos} {s : SlicePos} (h : Sync bs r s) (o : Op)
    (hd : o = .discard → r.ch.isSome = true) : Sync bs (r.step o) (s.step o) := by
  have hle := h.index_le
  obtain ⟨p, hi, hs, hx⟩ := h
  have hbo := hi.byteOffset
  cases o with
  | discard =>
    have hc := hd rfl
    obtain ⟨hlt, _⟩ := Sync.pending ⟨p, hi, hs, hx⟩ hc
    have hi' : Inv bs r.discard p := ⟨hi.le, hi.iter, hi.rest, .inl rfl⟩
    refine ⟨p, hi', hs, ?_⟩
    show s.index + 1 = r.discard.byteOffset
    rw [hi'.byteOffset]
    rw [if_pos hc] at hbo
    rcases hi.ch with h0 | ⟨k, hk, _⟩
    · rw [h0] at hc; cases hc
    · simp [IoPos.discard]; omega
  | next =>
    show Sync bs r.next.2 s.next.2
    rcases hi.next_spec with ⟨hc, hi', hc', _⟩ | ⟨hc, hp, hi', hc', _⟩ | ⟨hc, hp, hi', hc', _⟩
    · obtain ⟨hlt, _⟩ := Sync.pending ⟨p, hi, hs, hx⟩ hc
      rw [SlicePos.next_lt s (by rw [hs]; exact hlt)]
      refine ⟨p, hi', hs, ?_⟩
      show s.index + 1 = _
      rw [hi'.byteOffset, hc']
      rw [if_pos hc] at hbo
      rcases hi.ch with h0 | ⟨k, hk, _⟩
      · rw [h0] at hc; cases hc
      · simp; omega
    · rw [hc] at hbo; simp at hbo
      rw [SlicePos.next_ge s (by rw [hs]; omega)]
      refine ⟨p, hi', hs, ?_⟩
      show s.index = _
      rw [hi'.byteOffset, hc']; simp; omega
    · rw [hc] at hbo; simp at hbo
      rw [SlicePos.next_lt s (by rw [hs]; omega)]
      refine ⟨p + 1, hi', hs, ?_⟩
      show s.index + 1 = _
      rw [hi'.byteOffset, hc']; simp; omega
  | peek =>
    show Sync bs r.peek.2 s.peek.2
    rw [SlicePos.peek_snd]
    rcases hi.peek_spec with ⟨hc, hr, _⟩ | ⟨hc, hp, hi', hc', _⟩ | ⟨hc, hp, hi', hc', _⟩
    · rw [hr]; exact ⟨p, hi, hs, hx⟩
    · rw [hc] at hbo; simp at hbo
      refine ⟨p, hi', hs, ?_⟩
      rw [hi'.byteOffset, hc']; simp; omega
    · rw [hc] at hbo; simp at hbo
      refine ⟨p + 1, hi', hs, ?_⟩
      rw [hi'.byteOffset, hc', List.getElem?_eq_getElem hp]; simp; omega

theorem Sync.run {bs : Bytes} {r : IoPos} {s : SlicePos} (h : Sync bs r s) (ops : List Op) (hd : Disciplined r ops) :
    Sync bs (r.run ops) (s.run ops) := by
  induction ops generalizing r s with
  | nil => exact h
  | cons o os ih => exact ih (h.step o hd.1) hd.2

/-- **positions in step.** Nothing pending: the two `position()`s agree. A peeked byte pending: the reader's
    `position()` (= its `peek_position()`) is the slice's `peek_position()`, and is one byte ahead of the slice's
    `position()`; `byte_offset()` agrees in both cases. No call panics. -/
theorem Sync.positions {bs : Bytes} {r : IoPos} {s : SlicePos} (h : Sync bs r s) :
    s.byteOffset = r.byteOffset ∧ r.peekPosition = r.position ∧
    s.position = some (lineCol bs s.index) ∧ s.peekPosition = some (lineCol bs (min bs.length (s.index + 1))) ∧
    (r.ch = none → s.position = some r.position) ∧
    (r.ch.isSome = true → s.peekPosition = some r.position ∧ r.position = lineCol bs (s.index + 1)) := by
  have hle := h.index_le
  have hpend := h.pending
  obtain ⟨p, hi, hs, hx⟩ := h
  have hbo := hi.byteOffset
  have h1 : s.position = some (lineCol bs s.index) := by
    unfold SlicePos.position; rw [hs]; exact positionOfIndex_eq bs _ hle
  have h2 : s.peekPosition = some (lineCol bs (min bs.length (s.index + 1))) := by
    unfold SlicePos.peekPosition; rw [hs]; exact positionOfIndex_eq bs _ (Nat.min_le_left _ _)
  refine ⟨hx, rfl, h1, h2, ?_, ?_⟩
  · intro hc
    rw [hc] at hbo; simp at hbo
    rw [h1, hi.position, hx, hbo]
  · intro hc
    obtain ⟨hlt, _⟩ := hpend hc
    rw [if_pos hc] at hbo
    rcases hi.ch with h0 | ⟨k, hk, _⟩
    · rw [h0] at hc; cases hc
    · have hp : p = s.index + 1 := by omega
      rw [h2, hi.position, hp, Nat.min_eq_right (by omega)]
      exact ⟨rfl, rfl⟩

end SJ.Proofs.LineCol
