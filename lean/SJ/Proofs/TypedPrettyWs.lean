import SJ.Proofs.TypedAgreeAll
/-!
# The typed reader skips whitespace wherever the pretty printer puts it

`parse_whitespace()` opens every `deserialize_*` entry point, `has_next_element` / `has_next_key` (before the element or
key, and again after the comma), `parse_object_colon`, `end_seq` / `end_map`, the closing brace of `deserialize_enum` and
`Deserializer::end`. This file states it as equations: a run on `W ++ X` with `W` JSON whitespace is the run on `X` started
`|W|` bytes later (`PadOK`), for every entry point over the typed universe (`deTyped_pad`), and the token lemmas of the
container loops with whitespace in front of `,` `]` `}` `:` and of the next element / key.
-/
set_option linter.unusedSectionVars false
set_option linter.unusedVariables false

namespace SJ.Proofs.TypedPretty
open SJ SJ.Gen SJ.Model SJ.Model.Typed
open SJ.Model.Stream (skipWs)
open SJ.Model.Machine (St step1)
open SJ.Proofs.Typed

/-- a byte string of JSON whitespace -/
def WsB (W : Bytes) : Prop := ∀ c ∈ W, Machine.isWs c = true

theorem wsB_nil : WsB [] := fun _ h => by simp at h

theorem wsB_append {A B : Bytes} (ha : WsB A) (hb : WsB B) : WsB (A ++ B) := by
  intro c hc
  rcases List.mem_append.mp hc with h | h
  · exact ha c h
  · exact hb c h

theorem skipWs_pad {W : Bytes} (h : WsB W) (X : Bytes) (pos : Nat) : skipWs (W ++ X) pos = skipWs X (pos + W.length) := by
  induction W generalizing pos with
  | nil => simp
  | cons w W ih =>
    have hw : Machine.isWs w = true := h w (by simp)
    have hW : WsB W := fun c hc => h c (by simp [hc])
    simp only [List.cons_append, skipWs, hw, if_true, List.length_cons]
    rw [ih hW]
    congr 1
    omega

variable {env : Env}

theorem withPeek_pad {α : Type} (c : Code) {W : Bytes} (h : WsB W) (X : Bytes) (pos : Nat) (k : UInt8 → Bytes → Nat → Res α) :
    withPeek env c (W ++ X) pos k = withPeek env c X (pos + W.length) k := by
  unfold withPeek
  rw [skipWs_pad h]

/-- leading whitespace is skipped: the run on `W ++ X` is the run on `X`, `|W|` bytes later -/
def PadOK (de : Bytes → Nat → TOut) : Prop := ∀ W, WsB W → ∀ X pos, de (W ++ X) pos = de X (pos + W.length)

theorem pad_deBool : PadOK (deBool env) := fun W h X pos => by unfold deBool; rw [withPeek_pad _ h]
theorem pad_deUnit : PadOK (deUnit env) := fun W h X pos => by unfold deUnit; rw [withPeek_pad _ h]
theorem pad_deNumber (ty : NumTy) : PadOK (deNumber env ty) := fun W h X pos => by unfold deNumber; rw [withPeek_pad _ h]
theorem pad_deInt128 (w : IntTy) : PadOK (deInt128 env w) := fun W h X pos => by unfold deInt128; rw [withPeek_pad _ h]
theorem pad_deInt (w : IntTy) : PadOK (deInt env w) := fun W h X pos => by
  unfold deInt; split
  · exact pad_deInt128 w W h X pos
  · exact pad_deNumber _ W h X pos
theorem pad_deStr (visit : Bytes → FromValue.R) : PadOK (deStr env visit) := fun W h X pos => by
  unfold deStr; rw [withPeek_pad _ h]
theorem pad_deSeq (t : Nat) (visit : Bytes → Nat → TOut) : PadOK (deSeq env t visit) := fun W h X pos => by
  unfold deSeq; rw [withPeek_pad _ h]
theorem pad_deBytes (t : Nat) : PadOK (deBytes env t) := fun W h X pos => by unfold deBytes; rw [withPeek_pad _ h]
theorem pad_deMap (t : Nat) (visit : Bytes → Nat → TOut) : PadOK (deMap env t visit) := fun W h X pos => by
  unfold deMap; rw [withPeek_pad _ h]
theorem pad_deStruct (t : Nat) (de : Nat → Schema → Bytes → Nat → TOut) (fs : List (Bytes × Schema)) (deny : Bool) :
    PadOK (deStruct env t de fs deny) := fun W h X pos => by unfold deStruct; rw [withPeek_pad _ h]
theorem pad_deEnum (t : Nat) (de : Nat → Schema → Bytes → Nat → TOut) (vs : List (Bytes × VariantShape)) :
    PadOK (deEnum env t de vs) := fun W h X pos => by unfold deEnum; rw [withPeek_pad _ h]

/-! ## the machine as a sub-parser (`Value`, `IgnoredAny`): the value dispatch skips whitespace -/

theorem runPfx_pad (menv : Machine.Env) (flt : Bool) (t : Nat) (s : St) (ctx : Machine.ValCtx) (hs : s.mode = .val ctx)
    {W : Bytes} (h : WsB W) (X : Bytes) (i : Nat) :
    runPfx menv flt t s i (W ++ X) = runPfx menv flt t s (i + W.length) X := by
  induction W generalizing i with
  | nil => simp
  | cons w W ih =>
    have hw : Machine.isWs w = true := h w (by simp)
    have hW : WsB W := fun c hc => h c (by simp [hc])
    have hstep : step1 menv s w = .next s := by unfold step1; rw [hs]; simp [hw]
    have hcomp : completed t s = none := by unfold completed; rw [hs]
    simp only [List.cons_append]
    rw [runPfx, hstep]
    simp only [hcomp]
    rw [ih hW, List.length_cons]
    congr 1
    omega

theorem machine_pad (menv : Machine.Env) (flt : Bool) (t : Nat) (s : St) (ctx : Machine.ValCtx) (hs : s.mode = .val ctx)
    {W : Bytes} (h : WsB W) (X : Bytes) (pos : Nat) :
    machine menv flt t s (W ++ X) pos = machine menv flt t s X (pos + W.length) := by
  unfold machine
  rw [runPfx_pad menv flt t s ctx hs h]
  cases hr : runPfx menv flt t s (pos + W.length) X with
  | ok v e =>
    have hge := runPfx_ge menv flt t s _ X v e hr
    simp only
    congr 1
    have : e - pos = W.length + (e - (pos + W.length)) := by omega
    rw [this, ← List.drop_drop, List.drop_left]
  | err c i => rfl
  | io => rfl

theorem pad_ignoreValue {W : Bytes} (h : WsB W) (X : Bytes) (pos : Nat) :
    ignoreValue env (W ++ X) pos = ignoreValue env X (pos + W.length) := by
  unfold ignoreValue
  rw [machine_pad _ _ _ _ .top rfl h]

/-- **leading whitespace**: every entry point of the typed deserializer skips it -/
theorem deTyped_pad : ∀ (f t : Nat) (s : Schema), PadOK (deTyped env f t s) := by
  intro f
  induction f with
  | zero => intro t s W h X pos; rfl
  | succ f ih =>
    intro t s
    cases s with
    | bool => rw [deTyped_bool]; exact pad_deBool
    | int w => rw [deTyped_int]; exact pad_deInt w
    | f64 => rw [deTyped_f64]; exact pad_deNumber _
    | f32 => rw [deTyped_f32]; exact pad_deNumber _
    | char => rw [deTyped_char]; exact pad_deStr _
    | string => rw [deTyped_string]; exact pad_deStr _
    | bytes => rw [deTyped_bytes]; exact pad_deBytes t
    | unit => rw [deTyped_unit]; exact pad_deUnit
    | unitStruct => rw [deTyped_unitStruct]; exact pad_deUnit
    | newtype s' => rw [deTyped_newtype]; exact ih t s'
    | option s' =>
      intro W h X pos
      rw [deTyped_option]
      simp only
      rw [skipWs_pad h]
    | seq s' => rw [deTyped_seq]; exact pad_deSeq _ _
    | tuple ss => rw [deTyped_tuple]; exact pad_deSeq _ _
    | map k s' => rw [deTyped_map]; exact pad_deMap _ _
    | struct_ fs deny => rw [deTyped_struct]; exact pad_deStruct _ _ _ _
    | enum_ vs => rw [deTyped_enum]; exact pad_deEnum _ _ _
    | ignored =>
      intro W h X pos
      rw [deTyped_ignored]
      simp only
      rw [pad_ignoreValue h]
    | any =>
      intro W h X pos
      rw [deTyped_any]
      simp only
      rw [machine_pad _ _ _ _ .top rfl h]

/-! ## the tokens of the container loops, behind whitespace -/

theorem hasNextElement_close_pad (first : Bool) {C : Bytes} (hC : WsB C) (rest : Bytes) (pos : Nat) :
    hasNextElement env first (C ++ 0x5d :: rest) pos = .ok false (0x5d :: rest) (pos + C.length) := by
  unfold hasNextElement
  rw [withPeek_pad _ hC, withPeek_cons env _ (by decide)]
  simp

theorem hasNextElement_first_pad {W : Bytes} (hW : WsB W) {c : UInt8} (hw : Machine.isWs c = false) (h5 : (c == 0x5d) = false)
    (tl : Bytes) (pos : Nat) :
    hasNextElement env true (W ++ c :: tl) pos = .ok true (c :: tl) (pos + W.length) := by
  unfold hasNextElement
  rw [withPeek_pad _ hW, withPeek_cons env _ hw]
  simp [h5]

theorem hasNextElement_comma_pad {W : Bytes} (hW : WsB W) {c : UInt8} (hw : Machine.isWs c = false) (h5 : (c == 0x5d) = false)
    (tl : Bytes) (pos : Nat) :
    hasNextElement env false (0x2c :: (W ++ c :: tl)) pos = .ok true (c :: tl) (pos + 1 + W.length) := by
  unfold hasNextElement
  rw [withPeek_cons env _ (by decide)]
  simp only [show ((0x2c : UInt8) == 0x5d) = false by decide, Bool.false_eq_true, if_false, beq_self_eq_true, if_true]
  rw [withPeek_pad _ hW, withPeek_cons env _ hw]
  simp [h5]

theorem hasNextKey_close_pad (first : Bool) {C : Bytes} (hC : WsB C) (rest : Bytes) (pos : Nat) :
    hasNextKey env first (C ++ 0x7d :: rest) pos = .ok false (0x7d :: rest) (pos + C.length) := by
  unfold hasNextKey
  rw [withPeek_pad _ hC, withPeek_cons env _ (by decide)]
  simp

theorem hasNextKey_first_pad {W : Bytes} (hW : WsB W) (k tl : Bytes) (pos : Nat) :
    hasNextKey env true (W ++ (Spec.Image.quote k ++ tl)) pos = .ok true (Spec.Image.quote k ++ tl) (pos + W.length) := by
  rw [quote_eq]
  simp only [List.cons_append]
  unfold hasNextKey
  rw [withPeek_pad _ hW, withPeek_cons env _ (by decide)]
  simp

theorem hasNextKey_comma_pad {W : Bytes} (hW : WsB W) (k tl : Bytes) (pos : Nat) :
    hasNextKey env false (0x2c :: (W ++ (Spec.Image.quote k ++ tl))) pos =
      .ok true (Spec.Image.quote k ++ tl) (pos + 1 + W.length) := by
  rw [quote_eq]
  simp only [List.cons_append]
  unfold hasNextKey
  rw [withPeek_cons env _ (by decide)]
  simp only [show ((0x2c : UInt8) == 0x7d) = false by decide, Bool.false_eq_true, if_false, beq_self_eq_true, if_true]
  rw [withPeek_pad _ hW, withPeek_cons env _ (by decide)]
  simp

end SJ.Proofs.TypedPretty
