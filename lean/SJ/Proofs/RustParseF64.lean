import SJ.Proofs.NumberAp
import SJ.Proofs.RoundTripNum
import SJ.Spec.SchemaAp
/-!
# `Model.FromValue.rustParseF64` on a stored literal is the correctly rounded exact value

`Model.FromValue.rustParseF64` models `self.n.parse::<f64>()` of `Number::deserialize_f64` under `arbitrary_precision`
(std's `dec2flt`, ASSUMED correctly rounded; overflow saturates to `±inf`) with two guards against astronomically large powers
of ten (`litRat`: exponent above 5000 / below −5000 − digits). This file proves the guards harmless on the bytes of an
RFC 8259 number: `rustParseF64 p.bytes = (Spec.NumberAcc.nearestF64 (litOf p)).getD ±inf` — the same value `Number::as_f64`
(`Model.NumberAp.asF64`, `asF64_bytes`) filters for finiteness. No float code is evaluated on open terms.
-/
namespace SJ.Proofs.NumberAp
open SJ SJ.Spec.Ieee SJ.Spec.Decimal SJ.Spec.NumberAcc SJ.Model.NumberAp SJ.Proofs.NumLinkParser SJ.Proofs.Complete
  SJ.Proofs.Ieee
open SJ.Spec.Grammar (NumParts isInt isFrac isExp)
open SJ.Model.FromValue (rustParseF64 litRat litParts litExp ndigits)

/-- the exponent of the `Value` side's reader is the signed exponent of `partsOf` -/
theorem litExp_eq (exp : Bytes) :
    litExp exp = (if ((expOf exp).map (·.1)).getD false then -(digitsVal (((expOf exp).map (·.2)).getD []) : Int)
      else (digitsVal (((expOf exp).map (·.2)).getD []) : Int)) := by
  cases exp with
  | nil => rfl
  | cons c r =>
    cases r with
    | nil => rfl
    | cons s ds =>
      simp only [litExp, expOf]
      by_cases h1 : (s == 0x2d) = true
      · simp [h1, natOfDigits_eq]
      · by_cases h2 : (s == 0x2b) = true
        · simp [h1, h2, natOfDigits_eq]
        · simp [h1, h2, natOfDigits_eq]

/-- what `litParts` reads off the bytes of a literal: sign, significand and net exponent of `litOf` -/
theorem litParts_bytes (p : NumParts) (hwf : p.WF = true) :
    litParts p.bytes = ((litOf p).neg, (litOf p).sigVal, (litOf p).netExp) := by
  unfold litParts
  rw [SJ.Proofs.Number.splitNumber_parts p hwf]
  have hl : litOf p = ⟨p.minus, p.int, p.frac.drop 1, ((expOf p.exp).map (·.1)).getD false, ((expOf p.exp).map (·.2)).getD []⟩ := by
    have h3 := litOf_frac p
    obtain ⟨m, i, f, e⟩ := p
    show (⟨_, _, _, _, _⟩ : NumLit) = _
    simp only at h3
    congr 1
  rw [hl]
  simp only [NumLit.sigVal, NumLit.digits, NumLit.netExp, NumLit.expVal, litExp_eq, natOfDigits_eq]

theorem natDigits_all (m : Nat) : (Spec.Number.natDigits m).all isDigit = true := by
  rw [List.all_eq_true]
  intro c hc
  have := SJ.Proofs.RoundTripNum.isDigits_natDigits m c hc
  simp [isDigit, this.1, this.2]

theorem lt_pow_ndigits (m : Nat) : m < 10 ^ ndigits m := by
  have h := digitsVal_lt (Spec.Number.natDigits m) (natDigits_all m)
  have e : digitsVal (Spec.Number.natDigits m) = m := SJ.Proofs.RoundTripNum.natOfDigits_natDigits m
  rw [e] at h
  exact h

/-- **`str::parse::<f64>` of a stored literal, as `Number::deserialize_f64` uses it**: the binary64 nearest to the exact
    value, `±inf` when that is not finite -/
theorem rustParseF64_bytes (p : NumParts) (hwf : p.WF = true) :
    rustParseF64 p.bytes = (nearestF64 (litOf p)).getD (F64.inf (litOf p).neg) := by
  unfold rustParseF64 litRat nearestF64
  rw [litParts_bytes p hwf]
  generalize litOf p = l
  simp only
  by_cases hz : (l.sigVal == 0) = true
  · simp only [hz, if_true]
    have hz' : l.sigVal = 0 := by simpa using hz
    have h1 : roundNE64 l.neg 0 1 = some (F64.zero l.neg) :=
      FloatDefault.roundNE64_of_tiny _ _ _ Nat.one_pos (by simp)
    have h2 : roundNE64 l.neg l.exact.1 l.exact.2 = some (F64.zero l.neg) := by
      apply FloatDefault.roundNE64_of_tiny _ _ _ (exact_den_pos l)
      have : l.exact.1 = 0 := by
        unfold NumLit.exact scale10; rw [hz']; split <;> simp
      rw [this, Nat.zero_mul, Nat.mul_zero]; exact Nat.zero_le _
    rw [h1, h2]
  · simp only [hz, Bool.false_eq_true, if_false]
    have hpos : 1 ≤ l.sigVal := by
      have : l.sigVal ≠ 0 := by simpa using hz
      omega
    by_cases hbig : l.netExp > 5000
    · simp only [hbig, if_true]
      have hex : l.exact = (l.sigVal * 10 ^ l.netExp.toNat, 1) := by
        unfold NumLit.exact scale10; rw [if_pos (by omega)]
      have : roundNE64 l.neg l.exact.1 l.exact.2 = none := by
        rw [roundNE64_none_iff _ _ _ (exact_den_pos l), hex]
        exact overflow_of_big _ _ hpos (by omega)
      rw [this]; rfl
    · simp only [hbig, if_false]
      by_cases hsmall : l.netExp < -5000 - (ndigits l.sigVal : Int)
      · simp only [hsmall, if_true]
        have hneg : ¬ l.netExp ≥ 0 := by omega
        have hex : l.exact = (l.sigVal, 10 ^ (-l.netExp).toNat) := by
          unfold NumLit.exact scale10; rw [if_neg hneg]
        have h1 : roundNE64 l.neg 0 1 = some (F64.zero l.neg) :=
          FloatDefault.roundNE64_of_tiny _ _ _ Nat.one_pos (by simp)
        have h2 : roundNE64 l.neg l.exact.1 l.exact.2 = some (F64.zero l.neg) := by
          apply FloatDefault.roundNE64_of_tiny _ _ _ (exact_den_pos l)
          rw [hex]
          simp only
          exact tiny_of_small _ _ _ (lt_pow_ndigits l.sigVal) (by omega)
        rw [h1, h2]
      · simp only [hsmall, if_false]
        unfold NumLit.exact scale10
        by_cases hge : l.netExp ≥ 0
        · simp only [hge, if_true]
        · simp only [hge, if_false]

/-- the literal's nearest binary64 as the specification reads it off the bytes (`Spec/SchemaAp.lean`) -/
theorem litNearest_bytes (p : NumParts) (hwf : p.WF = true) : litNearest p.bytes = nearestF64 (litOf p) := by
  unfold litNearest
  rw [parse_bytes p hwf]

end SJ.Proofs.NumberAp
