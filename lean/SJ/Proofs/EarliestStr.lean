import SJ.Proofs.Utf8
import SJ.Proofs.Earliest
/-!
# Completions of string states

An escape in progress is finished first (`escTail`): `\` ↦ `\n`, `\u` ↦ `\u0000`, a pending leading
surrogate gets the trailing surrogate `\udc00`; then (only between items) the bytes `ext` that
complete a truncated UTF-8 sequence; then the closing quote, and for a key `:null}`.

The only side condition is the UTF-8 check that byte sources apply to `Value` strings when the
closing quote is reached (`Utf8Viable`).
-/
namespace SJ.Proofs.Earliest
open SJ SJ.Gen SJ.Model.Machine SJ.Proofs.Machine SJ.Proofs.Complete
open SJ.Spec.Utf8 (validUtf8 cont)
open SJ.Spec.Grammar (isHighSurrogate isLowSurrogate uniVal isHex isUnescaped)
open SJ.Spec.Denote (utf8)

/-! ## UTF-8 -/

theorem validUtf8_append (a b : Bytes) (ha : validUtf8 a = true) (hb : validUtf8 b = true) :
    validUtf8 (a ++ b) = true := by
  fun_induction validUtf8 a
  all_goals (try (simp at ha; done))
  all_goals (try simp only [Bool.and_eq_true] at ha)
  all_goals (simp only [List.cons_append, List.nil_append])
  · exact hb
  · rw [validUtf8.eq_def]; simp [*]
  all_goals (rw [validUtf8]; simp [*])

/-- every surrogate pair `(n1, U+DC00)` encodes to well-formed UTF-8 -/
theorem pairs_valid :
    (List.range 1024).all (fun k => validUtf8 (utf8 (0x10000 + k * 0x400 + 0))) = true := by
  decide +kernel

theorem pair_valid (n1 : Nat) (h : isHighSurrogate n1 = true) :
    validUtf8 (utf8 (0x10000 + (n1 - 0xD800) * 0x400 + 0)) = true := by
  simp only [isHighSurrogate, Bool.and_eq_true, decide_eq_true_eq] at h
  have := List.all_eq_true.mp pairs_valid (n1 - 0xD800) (List.mem_range.mpr (by omega))
  simpa using this

/-! ## finishing the escape in progress -/

def escTail : EscSt → Bytes
  | .none => []
  | .bs => [0x6e]
  | .hex _ none => [0x30, 0x30, 0x30, 0x30]
  | .hex _ (some _) => [0x64, 0x63, 0x30, 0x30]
  | .lead1 _ => [0x5c, 0x75, 0x64, 0x63, 0x30, 0x30]
  | .lead2 _ => [0x75, 0x64, 0x63, 0x30, 0x30]

/-- the pending leading surrogate (if any) is one -/
def LeadOK : EscSt → Prop
  | .hex _ (some n1) | .lead1 n1 | .lead2 n1 => isHighSurrogate n1 = true
  | _ => True

/-- no hex digit of a `\u` group has been read yet -/
def HexFresh : EscSt → Prop
  | .hex acc _ => acc = []
  | _ => True

theorem feeds_tail_bs (env : Env) (fs : List Frame) (o : Bytes) (k e : Bool) :
    Feeds env ⟨.str { out := o, esc := .bs, isKey := k, escaped := e }, fs⟩ [0x6e]
      ⟨.str (sst (0x0a :: o) k e), fs⟩ := by
  apply Feeds.one
  simp [step, step1, stepStr, Spec.Grammar.isSimpleEscape, Spec.Denote.simpleEscape]

theorem feeds_tail_hex (env : Env) (fs : List Frame) (o : Bytes) (k e : Bool) :
    ∃ x, Feeds env ⟨.str { out := o, esc := .hex [] none, isKey := k, escaped := e }, fs⟩
      [0x30, 0x30, 0x30, 0x30] ⟨.str (sst (x ++ o) k e), fs⟩ ∧ validUtf8 x.reverse = true := by
  have h3 := feeds_u3 env fs o k e none 0x30 0x30 0x30
  rcases tgt_cases env with hv | hv
  · refine ⟨(utf8 (uniVal 0x30 0x30 0x30 0x30)).reverse, ?_, by decide⟩
    exact Feeds.append h3 (Feeds.one (step_hex_last_bmp env hv fs o k e 0x30 0x30 0x30 0x30
      (by decide) (by decide) (by decide) (by decide) (by decide) (by decide)))
  · refine ⟨[], ?_, by decide⟩
    exact Feeds.append h3 (Feeds.one (step_hex_last_ignored env hv fs o k e none 0x30 0x30 0x30 0x30
      (by decide) (by decide) (by decide) (by decide)))

theorem feeds_tail_low (env : Env) (fs : List Frame) (o : Bytes) (k e : Bool) (n1 : Nat) :
    ∃ x, Feeds env ⟨.str { out := o, esc := .hex [] (some n1), isKey := k, escaped := e }, fs⟩
      [0x64, 0x63, 0x30, 0x30] ⟨.str (sst (x ++ o) k e), fs⟩ ∧
      (isHighSurrogate n1 = true → validUtf8 x.reverse = true) := by
  have h3 := feeds_u3 env fs o k e (some n1) 0x64 0x63 0x30
  rcases tgt_cases env with hv | hv
  · refine ⟨(utf8 (0x10000 + (n1 - 0xD800) * 0x400 + (uniVal 0x64 0x63 0x30 0x30 - 0xDC00))).reverse,
      ?_, fun h => ?_⟩
    · exact Feeds.append h3 (Feeds.one (step_hex_last_low env hv fs o k e n1 0x64 0x63 0x30 0x30
        (by decide) (by decide) (by decide) (by decide) (by decide)))
    · have hz : uniVal 0x64 0x63 0x30 0x30 - 0xDC00 = 0 := by decide
      rw [hz, List.reverse_reverse]; exact pair_valid n1 h
  · refine ⟨[], ?_, fun _ => by decide⟩
    exact Feeds.append h3 (Feeds.one (step_hex_last_ignored env hv fs o k e (some n1)
      0x64 0x63 0x30 0x30 (by decide) (by decide) (by decide) (by decide)))

theorem feeds_tail_lead2 (env : Env) (fs : List Frame) (o : Bytes) (k e : Bool) (n1 : Nat) :
    Feeds env ⟨.str { out := o, esc := .lead2 n1, isKey := k, escaped := e }, fs⟩ [0x75]
      ⟨.str { out := o, esc := .hex [] (some n1), isKey := k, escaped := e }, fs⟩ := by
  apply Feeds.one; simp [step, step1, stepStr]

/-- the escape in progress is finished by `escTail`; the text it contributes is well-formed -/
theorem feeds_escTail (env : Env) (fs : List Frame) (o : Bytes) (esc : EscSt) (k e : Bool)
    (hf : HexFresh esc) :
    ∃ x e', Feeds env ⟨.str { out := o, esc := esc, isKey := k, escaped := e }, fs⟩ (escTail esc)
        ⟨.str (sst (x ++ o) k e'), fs⟩ ∧
      (LeadOK esc → validUtf8 x.reverse = true) ∧ (esc = .none → x = []) := by
  cases esc with
  | none => exact ⟨[], e, Feeds.nil _ _, fun _ => rfl, fun _ => rfl⟩
  | bs => exact ⟨[0x0a], e, feeds_tail_bs env fs o k e, fun _ => by decide, fun h => by cases h⟩
  | hex acc lead =>
    simp only [HexFresh] at hf; subst hf
    cases lead with
    | none =>
      obtain ⟨x, h1, h2⟩ := feeds_tail_hex env fs o k e
      exact ⟨x, e, h1, fun _ => h2, fun h => by cases h⟩
    | some n1 =>
      obtain ⟨x, h1, h2⟩ := feeds_tail_low env fs o k e n1
      exact ⟨x, e, h1, h2, fun h => by cases h⟩
  | lead1 n1 =>
    obtain ⟨x, h1, h2⟩ := feeds_tail_low env fs o k e n1
    exact ⟨x, e, Feeds.append (feeds_lead env fs o k e n1) h1, h2, fun h => by cases h⟩
  | lead2 n1 =>
    obtain ⟨x, h1, h2⟩ := feeds_tail_low env fs o k e n1
    exact ⟨x, e, Feeds.append (feeds_tail_lead2 env fs o k e n1) h1, h2, fun h => by cases h⟩

/-! ## completing a truncated UTF-8 sequence -/

theorem feeds_ext (env : Env) (fs : List Frame) (o : Bytes) (k e : Bool) (ext : Bytes)
    (h : ∀ b ∈ ext, (0x80 : UInt8) ≤ b) :
    Feeds env ⟨.str (sst o k e), fs⟩ ext ⟨.str (sst (ext.reverse ++ o) k e), fs⟩ := by
  induction ext generalizing o with
  | nil => exact Feeds.nil _ _
  | cons b r ih =>
    have hb : isUnescaped b = true := by
      have := h b (by simp)
      simp only [isUnescaped, Bool.and_eq_true, decide_eq_true_eq, bne_iff_ne, ne_eq]
      refine ⟨⟨?_, ?_⟩, ?_⟩
      · exact UInt8.le_trans (by decide) this
      · rintro rfl; exact absurd this (by decide)
      · rintro rfl; exact absurd this (by decide)
    have := Feeds.append (feeds_raw env fs o k e b hb) (ih (b :: o) (fun x hx => h x (by simp [hx])))
    simpa using this

/-! ## the UTF-8 side condition of a string state -/

/-- the text collected so far can still pass the UTF-8 check: between items it is a prefix of a
    well-formed string (a truncated sequence can be completed), inside an escape it is well-formed -/
def Utf8Viable (st : StrSt) : Prop :=
  match st.esc with
  | .none => ∃ ext : Bytes, (∀ b ∈ ext, (0x80 : UInt8) ≤ b) ∧ validUtf8 (st.out.reverse ++ ext) = true
  | _ => validUtf8 st.out.reverse = true

/-- scanning to the closing quote: the final text passes the check -/
theorem feeds_to_quote (env : Env) (fs : List Frame) (st : StrSt) (hf : HexFresh st.esc)
    (hl : LeadOK st.esc) (hu : env.tgt = .value → env.src ≠ .str → Utf8Viable st) :
    ∃ ys o' e', Feeds env ⟨.str st, fs⟩ ys ⟨.str (sst o' st.isKey e'), fs⟩ ∧
      (env.tgt = .value → env.src ≠ .str → validUtf8 o'.reverse = true) := by
  obtain ⟨o, esc, k, e⟩ := st
  obtain ⟨x, e', h1, hx, hnone⟩ := feeds_escTail env fs o esc k e hf
  by_cases hside : env.tgt = .value ∧ env.src ≠ .str
  · have hu' := hu hside.1 hside.2
    cases esc with
    | none =>
      obtain ⟨ext, hext, hv⟩ := hu'
      have hx0 := hnone rfl
      subst hx0
      refine ⟨_, _, e', Feeds.append h1 (feeds_ext env fs _ k e' ext hext), fun _ _ => ?_⟩
      simpa using hv
    | _ =>
      refine ⟨_, _, e', h1, fun _ _ => ?_⟩
      have : validUtf8 o.reverse = true := hu'
      simpa using validUtf8_append _ _ this (hx hl)
  · exact ⟨_, _, e', h1, fun a b => absurd ⟨a, b⟩ hside⟩

theorem viable_strVal (env : Env) (fs : List Frame) (st : StrSt) (hk : st.isKey = false)
    (hf : HexFresh st.esc) (hl : LeadOK st.esc)
    (hu : env.tgt = .value → env.src ≠ .str → Utf8Viable st) : Viable env ⟨.str st, fs⟩ := by
  obtain ⟨ys, o', e', h1, h2⟩ := feeds_to_quote env fs st hf hl hu
  rw [hk] at h1
  exact Viable.of_feeds (Feeds.append h1 (Feeds.one (step_quote_close env fs o' e' h2)))
    (viable_complete env fs _)

theorem viable_strKey (env : Env) (ms : List (Bytes × JV)) (k0 : Bytes) (fs : List Frame)
    (st : StrSt) (hk : st.isKey = true) (hf : HexFresh st.esc) (hl : LeadOK st.esc)
    (hu : env.tgt = .value → env.src ≠ .str → Utf8Viable st) :
    Viable env ⟨.str st, .obj ms k0 :: fs⟩ := by
  obtain ⟨ys, o', e', h1, h2⟩ := feeds_to_quote env (.obj ms k0 :: fs) st hf hl hu
  rw [hk] at h1
  exact Viable.of_feeds (Feeds.append h1 (Feeds.one (step_quote_close_key env ms k0 fs o' e' h2)))
    (viable_afterKey env _ _ _)

end SJ.Proofs.Earliest
