import SJ.Proofs.Ieee64
import SJ.Model.FloatDefault
/-!
# Helper lemmas for C08: the default number → f64 path
-/
namespace SJ.Proofs.FloatDefault
open SJ SJ.Spec.Ieee SJ.Spec.Decimal SJ.Model.FloatDefault SJ.Proofs.Ieee

/-! ## The `overflow!` macro and the `POW10` table (both regenerated from the source) -/

/-- the macro body, as written in the source, is `a * 10 + b > c` for a digit `b` -/
theorem overflow_eq (a b c : Nat) (hb : b ≤ 9) : overflow a b c = decide (a * 10 + b > c) := by
  unfold overflow Gen.overflowMacro
  rw [Bool.eq_iff_iff]
  simp only [Bool.and_eq_true, Bool.or_eq_true, decide_eq_true_eq]
  omega

/-- entry `i` of `POW10` is the literal `1e<i>`, for all 309 entries -/
theorem pow10Exps_eq : Gen.pow10Exps = List.range 309 := by decide +kernel

theorem pow10_table_length : Gen.pow10Exps.length = 309 ∧ Gen.pow10Declared = 309 := by
  constructor <;> decide +kernel

theorem pow10_table_correct : ∀ i, i < 309 → Gen.pow10Exps[i]? = some i := by
  intro i hi
  rw [pow10Exps_eq]
  simp [hi]

theorem pow10_eq (i : Nat) : pow10 i = if i < 309 then some (litPow10 i) else none := by
  unfold pow10
  rw [pow10Exps_eq]
  by_cases h : i < 309 <;> simp [h]

theorem fromParts_consts : Gen.fromPartsBigExp = 308 ∧ Gen.fromPartsStep = 308 := ⟨rfl, rfl⟩

/-! ## The loop never runs out of fuel -/

theorem loop_fuel_aux : ∀ (fuel : Nat) (f : UInt64) (e : Int),
    (if e < 0 then (-e).toNat + 1 else 1) ≤ fuel → loop fuel f e ≠ .outOfFuel := by
  intro fuel
  induction fuel with
  | zero => intro f e h; split at h <;> omega
  | succ n ih =>
    intro f e h
    unfold loop
    split
    · split
      · simp only; split <;> simp
      · simp
    · split
      · simp
      · split
        · simp
        · apply ih
          have hs : (Gen.fromPartsStep : Int) = 308 := rfl
          rw [hs]
          split at h
          · split <;> omega
          · omega

/-- `LoopResult.outOfFuel` is unreachable from `f64FromParts` -/
theorem loop_fuel (f : UInt64) (e : Int) : loop (fuelFor e) f e ≠ .outOfFuel := by
  apply loop_fuel_aux
  unfold fuelFor
  split <;> omega

end SJ.Proofs.FloatDefault
