import SJ.Proofs.Pow10Table
/-!
# Helper lemmas for C08: the default number → f64 path
-/
namespace SJ.Proofs.FloatDefault
open SJ SJ.Spec.Ieee SJ.Spec.Decimal SJ.Model.FloatDefault SJ.Proofs.Ieee

/-! ## The loop never runs out of fuel -/

theorem loop_fuel_aux : ∀ (fuel : Nat) (f : UInt64) (e : Int),
    (if e < 0 then (-e).toNat + 1 else 1) ≤ fuel → loop fuel f e ≠ .outOfFuel := by
  intro fuel
  induction fuel with
  | zero => intro f e h; split at h <;> omega
  | succ n ih =>
    intro f e h
    unfold loop
    split
    · split
      · simp only; split <;> simp
      · simp
    · split
      · simp
      · split
        · simp
        · apply ih
          have hs : (Gen.fromPartsStep : Int) = 308 := rfl
          rw [hs]
          split at h
          · split <;> omega
          · omega

/-- `LoopResult.outOfFuel` is unreachable from `f64FromParts` -/
theorem loop_fuel (f : UInt64) (e : Int) : loop (fuelFor e) f e ≠ .outOfFuel := by
  apply loop_fuel_aux
  unfold fuelFor
  split <;> omega


/-! ## Exactness of `f64_from_parts` on the short domain -/

theorem wrappingAbsUsize_small (e : Int) (h1 : -400 ≤ e) (_h2 : e ≤ 400) :
    wrappingAbsUsize e = e.natAbs := by
  unfold wrappingAbsUsize i32Min
  rw [if_neg (by omega)]

/-- `significand < 2^53` and `|exponent| ≤ 22`: one correctly rounded operation on two exactly
    represented operands, so the result is the correctly rounded value of `significand · 10^exponent` -/
theorem f64FromParts_exact (positive : Bool) (s : Nat) (e : Int) (hs : s < 2 ^ 53)
    (he1 : -22 ≤ e) (he2 : e ≤ 22) :
    f64FromParts positive s e = roundNE64 (!positive) (scale10 s e).1 (scale10 s e).2 := by
  obtain ⟨ha1, hafin, hasign⟩ := F64.ofU64_finite s (by omega)
  have hamag := F64.ofU64_exact s hs
  have hk : e.natAbs ≤ 22 := by omega
  obtain ⟨hbfin, hbsign, hbz, _⟩ := litPow10_facts e.natAbs (by omega)
  have hbmag := litPow10_exact e.natAbs hk
  have hfuel : fuelFor e = (e.natAbs + 1) + 1 := rfl
  unfold f64FromParts
  rw [hfuel]
  unfold loop
  rw [wrappingAbsUsize_small e (by omega) (by omega), pow10_eq, if_pos (by omega)]
  simp only
  have h10 : 0 < 10 ^ e.natAbs := Nat.pos_of_ne_zero (by simp)
  by_cases hpos : e ≥ 0
  · -- multiplication
    rw [if_pos hpos]
    have hsc : scale10 s e = (s * 10 ^ e.natAbs, 1) := by
      unfold scale10; rw [if_pos hpos]
      have : e.toNat = e.natAbs := by omega
      rw [this]
    rw [hsc]
    simp only
    rw [F64.mul_finite _ _ hafin hbfin, hasign, hbsign, hamag, hbmag]
    have hno : ¬ Overflows64 (s * 10 ^ e.natAbs) 1 := by
      apply not_overflows64_of_lt
      have h1 : 10 ^ e.natAbs ≤ 10 ^ 22 := Nat.pow_le_pow_right (by decide) hk
      have h2 : s * 10 ^ e.natAbs < 2 ^ 53 * 10 ^ 22 :=
        Nat.lt_of_lt_of_le (Nat.mul_lt_mul_of_pos_right hs h10) (Nat.mul_le_mul_left _ h1)
      have h3 : 2 ^ 53 * 10 ^ 22 ≤ 2 ^ 1023 * 1 := by decide +kernel
      omega
    have hcongr : roundNE64 false (s * 2 ^ 1074 * (10 ^ e.natAbs * 2 ^ 1074)) (2 ^ 1074 * 2 ^ 1074)
        = roundNE64 false (s * 10 ^ e.natAbs) 1 := by
      apply roundNE64_congr _ _ _ _ _ (Nat.mul_pos (two_pow_pos' _) (two_pow_pos' _)) (by decide)
      ring
    obtain ⟨r, hr, hrfin, _⟩ := (roundNE64_correct false (s * 10 ^ e.natAbs) 1 (by decide)).1 hno
    have hval : F64.roundOrInf (false != false) (s * 2 ^ 1074 * (10 ^ e.natAbs * 2 ^ 1074))
        (2 ^ 1074 * 2 ^ 1074) = r := by
      unfold F64.roundOrInf
      rw [show (false != false) = false from rfl, hcongr, hr]; rfl
    rw [hval, F64.finite_not_inf r hrfin]
    simp only [Bool.false_eq_true, if_false]
    cases positive
    · simp only [Bool.false_eq_true, if_false, Bool.not_false]
      have := roundNE64_neg false (s * 10 ^ e.natAbs) 1
      rw [hr] at this; exact this
    · simp only [if_true, Bool.not_true]; exact hr.symm
  · -- division
    rw [if_neg hpos]
    have hsc : scale10 s e = (s, 10 ^ e.natAbs) := by
      unfold scale10; rw [if_neg hpos]
      have : (-e).toNat = e.natAbs := by omega
      rw [this]
    rw [hsc]
    simp only
    rw [F64.div_finite _ _ hafin hbfin hbz, hasign, hbsign, hamag, hbmag]
    have hno : ¬ Overflows64 s (10 ^ e.natAbs) := by
      apply not_overflows64_of_lt
      have h3 : 2 ^ 53 ≤ 2 ^ 1023 := by decide +kernel
      have : 2 ^ 1023 * 1 ≤ 2 ^ 1023 * 10 ^ e.natAbs := Nat.mul_le_mul_left _ h10
      omega
    have hcongr : roundNE64 false (s * 2 ^ 1074) (10 ^ e.natAbs * 2 ^ 1074)
        = roundNE64 false s (10 ^ e.natAbs) := by
      apply roundNE64_congr _ _ _ _ _ (Nat.mul_pos h10 (two_pow_pos' _)) h10
      ring
    obtain ⟨r, hr, hrfin, _⟩ := (roundNE64_correct false s (10 ^ e.natAbs) h10).1 hno
    have hval : F64.roundOrInf (false != false) (s * 2 ^ 1074) (10 ^ e.natAbs * 2 ^ 1074) = r := by
      unfold F64.roundOrInf
      rw [show (false != false) = false from rfl, hcongr, hr]; rfl
    rw [hval]
    cases positive
    · simp only [Bool.false_eq_true, if_false, Bool.not_false]
      have := roundNE64_neg false s (10 ^ e.natAbs)
      rw [hr] at this; exact this
    · simp only [if_true, Bool.not_true]; exact hr.symm

end SJ.Proofs.FloatDefault
