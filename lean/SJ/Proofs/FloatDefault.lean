import SJ.Proofs.Pow10Table
/-!
# Helper lemmas for C08: the default number → f64 path
-/
namespace SJ.Proofs.FloatDefault
open SJ SJ.Spec.Ieee SJ.Spec.Decimal SJ.Model.FloatDefault SJ.Proofs.Ieee

/-! ## The loop never runs out of fuel -/

theorem loop_fuel_aux : ∀ (fuel : Nat) (f : UInt64) (e : Int),
    (if e < 0 then (-e).toNat + 1 else 1) ≤ fuel → loop fuel f e ≠ .outOfFuel := by
  intro fuel
  induction fuel with
  | zero => intro f e h; split at h <;> omega
  | succ n ih =>
    intro f e h
    unfold loop
    split
    · split
      · simp only; split <;> simp
      · simp
    · split
      · simp
      · split
        · simp
        · apply ih
          have hs : (Gen.fromPartsStep : Int) = 308 := rfl
          rw [hs]
          split at h
          · split <;> omega
          · omega

/-- `LoopResult.outOfFuel` is unreachable from `f64FromParts` -/
theorem loop_fuel (f : UInt64) (e : Int) : loop (fuelFor e) f e ≠ .outOfFuel := by
  apply loop_fuel_aux
  unfold fuelFor
  split <;> omega


/-! ## Exactness of `f64_from_parts` on the short domain -/

theorem wrappingAbsUsize_small (e : Int) (h1 : -400 ≤ e) (_h2 : e ≤ 400) :
    wrappingAbsUsize e = e.natAbs := by
  unfold wrappingAbsUsize i32Min
  rw [if_neg (by omega)]

/-- `significand < 2^53` and `|exponent| ≤ 22`: one correctly rounded operation on two exactly
    represented operands, so the result is the correctly rounded value of `significand · 10^exponent` -/
theorem f64FromParts_exact (positive : Bool) (s : Nat) (e : Int) (hs : s < 2 ^ 53)
    (he1 : -22 ≤ e) (he2 : e ≤ 22) :
    f64FromParts positive s e = roundNE64 (!positive) (scale10 s e).1 (scale10 s e).2 := by
  obtain ⟨ha1, hafin, hasign⟩ := F64.ofU64_finite s (by omega)
  have hamag := F64.ofU64_exact s hs
  have hk : e.natAbs ≤ 22 := by omega
  obtain ⟨hbfin, hbsign, hbz, _⟩ := litPow10_facts e.natAbs (by omega)
  have hbmag := litPow10_exact e.natAbs hk
  have hfuel : fuelFor e = (e.natAbs + 1) + 1 := rfl
  unfold f64FromParts
  rw [hfuel]
  unfold loop
  rw [wrappingAbsUsize_small e (by omega) (by omega), pow10_eq, if_pos (by omega)]
  simp only
  have h10 : 0 < 10 ^ e.natAbs := Nat.pos_of_ne_zero (by simp)
  by_cases hpos : e ≥ 0
  · -- multiplication
    rw [if_pos hpos]
    have hsc : scale10 s e = (s * 10 ^ e.natAbs, 1) := by
      unfold scale10; rw [if_pos hpos]
      have : e.toNat = e.natAbs := by omega
      rw [this]
    rw [hsc]
    simp only
    rw [F64.mul_finite _ _ hafin hbfin, hasign, hbsign, hamag, hbmag]
    have hno : ¬ Overflows64 (s * 10 ^ e.natAbs) 1 := by
      apply not_overflows64_of_lt
      have h1 : 10 ^ e.natAbs ≤ 10 ^ 22 := Nat.pow_le_pow_right (by decide) hk
      have h2 : s * 10 ^ e.natAbs < 2 ^ 53 * 10 ^ 22 :=
        Nat.lt_of_lt_of_le (Nat.mul_lt_mul_of_pos_right hs h10) (Nat.mul_le_mul_left _ h1)
      have h3 : 2 ^ 53 * 10 ^ 22 ≤ 2 ^ 1023 * 1 := by decide +kernel
      omega
    have hcongr : roundNE64 false (s * 2 ^ 1074 * (10 ^ e.natAbs * 2 ^ 1074)) (2 ^ 1074 * 2 ^ 1074)
        = roundNE64 false (s * 10 ^ e.natAbs) 1 := by
      apply roundNE64_congr _ _ _ _ _ (Nat.mul_pos (two_pow_pos' _) (two_pow_pos' _)) (by decide)
      ring
    obtain ⟨r, hr, hrfin, _⟩ := (roundNE64_correct false (s * 10 ^ e.natAbs) 1 (by decide)).1 hno
    have hval : F64.roundOrInf (false != false) (s * 2 ^ 1074 * (10 ^ e.natAbs * 2 ^ 1074))
        (2 ^ 1074 * 2 ^ 1074) = r := by
      unfold F64.roundOrInf
      rw [show (false != false) = false from rfl, hcongr, hr]; rfl
    rw [hval, F64.finite_not_inf r hrfin]
    simp only [Bool.false_eq_true, if_false]
    cases positive
    · simp only [Bool.false_eq_true, if_false, Bool.not_false]
      have := roundNE64_neg false (s * 10 ^ e.natAbs) 1
      rw [hr] at this; exact this
    · simp only [if_true, Bool.not_true]; exact hr.symm
  · -- division
    rw [if_neg hpos]
    have hsc : scale10 s e = (s, 10 ^ e.natAbs) := by
      unfold scale10; rw [if_neg hpos]
      have : (-e).toNat = e.natAbs := by omega
      rw [this]
    rw [hsc]
    simp only
    rw [F64.div_finite _ _ hafin hbfin hbz, hasign, hbsign, hamag, hbmag]
    have hno : ¬ Overflows64 s (10 ^ e.natAbs) := by
      apply not_overflows64_of_lt
      have h3 : 2 ^ 53 ≤ 2 ^ 1023 := by decide +kernel
      have : 2 ^ 1023 * 1 ≤ 2 ^ 1023 * 10 ^ e.natAbs := Nat.mul_le_mul_left _ h10
      omega
    have hcongr : roundNE64 false (s * 2 ^ 1074) (10 ^ e.natAbs * 2 ^ 1074)
        = roundNE64 false s (10 ^ e.natAbs) := by
      apply roundNE64_congr _ _ _ _ _ (Nat.mul_pos h10 (two_pow_pos' _)) h10
      ring
    obtain ⟨r, hr, hrfin, _⟩ := (roundNE64_correct false s (10 ^ e.natAbs) h10).1 hno
    have hval : F64.roundOrInf (false != false) (s * 2 ^ 1074) (10 ^ e.natAbs * 2 ^ 1074) = r := by
      unfold F64.roundOrInf
      rw [show (false != false) = false from rfl, hcongr, hr]; rfl
    rw [hval]
    cases positive
    · simp only [Bool.false_eq_true, if_false, Bool.not_false]
      have := roundNE64_neg false s (10 ^ e.natAbs)
      rw [hr] at this; exact this
    · simp only [if_true, Bool.not_true]; exact hr.symm


/-! ## Finite and signed -/

theorem max_lt_threshold :
    (2 ^ 53 - 1) * 2 ^ 2045 < (2 ^ 1024 - 2 ^ 970) * 2 ^ 1074 := by decide +kernel

/-- dividing a finite non-negative double by a power of ten `≥ 1` stays finite and non-negative -/
theorem div_pow_finite (f pow : UInt64) (hf : F64.isFinite f = true) (hs : F64.sign f = false)
    (hp : F64.isFinite pow = true) (hps : F64.sign pow = false) (hpz : F64.isZero pow = false)
    (hpm : 2 ^ 1074 ≤ F64.mag pow) :
    F64.isFinite (F64.div f pow) = true ∧ F64.sign (F64.div f pow) = false := by
  rw [F64.div_finite f pow hf hp hpz, hs, hps]
  have hden : 0 < F64.mag pow := by omega
  have hno : ¬ Overflows64 (F64.mag f) (F64.mag pow) := by
    unfold Overflows64
    have h1 := F64.mag_le_max f hf
    have h2 := max_lt_threshold
    have h3 : (2 ^ 1024 - 2 ^ 970) * 2 ^ 1074 ≤ (2 ^ 1024 - 2 ^ 970) * F64.mag pow :=
      Nat.mul_le_mul_left _ hpm
    omega
  rcases roundOrInf_cases (false != false) (F64.mag f) (F64.mag pow) hden with ⟨_, _, h2, h3⟩ | ⟨h, _⟩
  · exact ⟨h2, h3⟩
  · exact absurd h hno

theorem mul_finite_or_inf (f pow : UInt64) (hf : F64.isFinite f = true) (hs : F64.sign f = false)
    (hp : F64.isFinite pow = true) (hps : F64.sign pow = false) :
    (F64.isFinite (F64.mul f pow) = true ∧ F64.sign (F64.mul f pow) = false) ∨
    F64.isInf (F64.mul f pow) = true := by
  rw [F64.mul_finite f pow hf hp, hs, hps]
  have hden : 0 < 2 ^ 1074 * 2 ^ 1074 := Nat.mul_pos (two_pow_pos' _) (two_pow_pos' _)
  rcases roundOrInf_cases (false != false) (F64.mag f * F64.mag pow) _ hden with ⟨_, _, h2, h3⟩ | ⟨_, h⟩
  · left; exact ⟨h2, h3⟩
  · right; rw [h]; exact F64.inf_isInf _

theorem loop_finite : ∀ (fuel : Nat) (f : UInt64) (e : Int) (r : UInt64),
    F64.isFinite f = true → F64.sign f = false → loop fuel f e = .done r →
    F64.isFinite r = true ∧ F64.sign r = false := by
  intro fuel
  induction fuel with
  | zero => intro f e r _ _ h; simp [loop] at h
  | succ n ih =>
    intro f e r hf hs h
    unfold loop at h
    rw [pow10_eq] at h
    by_cases hidx : wrappingAbsUsize e < 309
    · rw [if_pos hidx] at h
      simp only at h
      obtain ⟨hp, hps, hpz, hpm⟩ := litPow10_facts _ hidx
      by_cases hpos : e ≥ 0
      · rw [if_pos hpos] at h
        rcases mul_finite_or_inf f _ hf hs hp hps with ⟨h1, h2⟩ | hinf
        · rw [F64.finite_not_inf _ h1] at h
          simp only [Bool.false_eq_true, if_false, LoopResult.done.injEq] at h
          subst h; exact ⟨h1, h2⟩
        · rw [hinf] at h; simp at h
      · rw [if_neg hpos] at h
        simp only [LoopResult.done.injEq] at h
        subst h
        exact div_pow_finite f _ hf hs hp hps hpz hpm
    · rw [if_neg hidx] at h
      simp only at h
      by_cases hz : F64.isZero f = true
      · rw [if_pos hz] at h
        simp only [LoopResult.done.injEq] at h
        subst h; exact ⟨hf, hs⟩
      · rw [if_neg hz] at h
        by_cases hpos : e ≥ 0
        · rw [if_pos hpos] at h; simp at h
        · rw [if_neg hpos] at h
          obtain ⟨hp, hps, hpz, hpm⟩ := litPow10_facts Gen.fromPartsBigExp (by decide)
          obtain ⟨h1, h2⟩ := div_pow_finite f _ hf hs hp hps hpz hpm
          exact ih _ _ r h1 h2 h

/-- `f64_from_parts` never returns NaN or an infinity, and the result carries the requested sign -/
theorem f64FromParts_finite_signed (positive : Bool) (s : Nat) (e : Int) (r : UInt64)
    (hs : s < 2 ^ 64) (h : f64FromParts positive s e = some r) :
    F64.isFinite r = true ∧ F64.sign r = !positive := by
  obtain ⟨_, hafin, hasign⟩ := F64.ofU64_finite s hs
  unfold f64FromParts at h
  split at h
  · rename_i f hl
    obtain ⟨h1, h2⟩ := loop_finite _ _ _ f hafin hasign hl
    simp only [Option.some.injEq] at h
    subst h
    cases positive
    · simp only [Bool.false_eq_true, if_false, Bool.not_false]
      rw [F64.neg_finite, F64.neg_sign, h2]; exact ⟨h1, rfl⟩
    · simp only [if_true, Bool.not_true]; exact ⟨h1, h2⟩
  · cases h
  · cases h

end SJ.Proofs.FloatDefault
