import SJ.Proofs.EarliestMain
import SJ.Proofs.Bytes256
import SJ.Spec.Pos
/-!
# Faults inside a string literal are reported before the literal ends (C11, upper bound)

`lenient` is the scan of `Spec.Pos.literalEnd` (every `\` escapes the next byte; the first unescaped
`"` closes). `StrTrack esc body`: the bytes `body` the machine has consumed since the opening quote
contain no closing quote for the lenient scan, and where that scan stands (`esc`).
`Track`: the decomposition `consumed = pre ++ '"' :: body` for every string state reached by feeding.

The one place where the machine and the lenient scan part company is a `\u` group: the machine takes
the four bytes after `\u` whatever they are (`decode_four_hex_digits` looks at them together), so a
quote among them does not close the literal for the machine; the fault is then `InvalidEscape` at the
group's fourth byte (`str_fault_core`, second alternative).
-/
namespace SJ.Proofs.EarliestStrBound
open SJ SJ.Gen SJ.Model.Machine SJ.Proofs.Machine SJ.Proofs.Complete SJ.Proofs.Earliest
open SJ.Spec.Grammar (isHex)

/-- the scan of `literalEnd.go` over `body`: `none` once a closing quote was found, else whether the
    last byte was an escaping backslash -/
def lenient : Bytes → Bool → Option Bool
  | [], e => some e
  | b :: r, e =>
    if e then lenient r false
    else if b == 0x5c then lenient r true
    else if b == 0x22 then none
    else lenient r false

theorem lenient_append (xs ys : Bytes) (e : Bool) :
    lenient (xs ++ ys) e = (lenient xs e).bind (fun e' => lenient ys e') := by
  induction xs generalizing e with
  | nil => simp [lenient]
  | cons b r ih =>
    simp only [List.cons_append, lenient]
    repeat' split
    all_goals first | exact ih _ | rfl

theorem lenient_append_some {xs ys : Bytes} {e e' : Bool} (h : lenient xs e = some e') :
    lenient (xs ++ ys) e = lenient ys e' := by
  rw [lenient_append, h]; rfl

theorem go_ge (r : Bytes) (p : Nat) (e : Bool) : p ≤ Spec.Pos.literalEnd.go r p e := by
  induction r generalizing p e with
  | nil => simp [Spec.Pos.literalEnd.go]
  | cons b r ih =>
    simp only [Spec.Pos.literalEnd.go]
    repeat' split
    all_goals first | (have := ih (p + 1) false; omega) | (have := ih (p + 1) true; omega) | omega

theorem go_cons_gt (b : UInt8) (r : Bytes) (p : Nat) (e : Bool) :
    p + 1 ≤ Spec.Pos.literalEnd.go (b :: r) p e := by
  simp only [Spec.Pos.literalEnd.go]
  repeat' split
  all_goals first | exact go_ge _ _ _ | omega

theorem go_of_lenient (xs rest : Bytes) (p : Nat) (e e' : Bool) (h : lenient xs e = some e') :
    Spec.Pos.literalEnd.go (xs ++ rest) p e = Spec.Pos.literalEnd.go rest (p + xs.length) e' := by
  induction xs generalizing p e with
  | nil => simp only [lenient, Option.some.injEq] at h; subst h; simp
  | cons b r ih =>
    simp only [lenient] at h
    simp only [List.cons_append, Spec.Pos.literalEnd.go, List.length_cons]
    have hp : p + (r.length + 1) = p + 1 + r.length := by omega
    rw [hp]
    split
    · rename_i he; rw [if_pos he] at h; exact ih _ _ h
    · rename_i he; rw [if_neg he] at h
      split
      · rename_i hb; rw [if_pos hb] at h; exact ih _ _ h
      · rename_i hb; rw [if_neg hb] at h
        split
        · rename_i hq; rw [if_pos hq] at h; cases h
        · rename_i hq; rw [if_neg hq] at h; exact ih _ _ h

theorem isHex_plain (x : UInt8) (h : isHex x = true) : (x == 0x5c) = false ∧ (x == 0x22) = false := by
  have key := SJ.Proofs.Bytes256.all256 (fun y => !isHex y || ((y != 0x5c) && (y != 0x22)))
    (by decide) (by decide) (by decide) (by decide) x
  simp only [h, Bool.not_true, Bool.false_or, Bool.and_eq_true, bne_iff_ne, ne_eq] at key
  exact ⟨by simpa using key.1, by simpa using key.2⟩

theorem lenient_hex (xs : Bytes) (h : ∀ x ∈ xs, isHex x = true) : lenient xs false = some false := by
  induction xs with
  | nil => rfl
  | cons b r ih =>
    obtain ⟨h1, h2⟩ := isHex_plain b (h b (by simp))
    simp only [lenient, h1, h2, Bool.false_eq_true, if_false]
    exact ih (fun x hx => h x (by simp [hx]))

/-- where the lenient scan stands, read off the machine's escape state -/
def StrTrack (esc : EscSt) (body : Bytes) : Prop :=
  match esc with
  | .none | .lead1 _ => lenient body false = some false
  | .bs | .lead2 _ => ∃ body0, body = body0 ++ [0x5c] ∧ lenient body0 false = some false
  | .hex acc _ => ∃ body0, body = body0 ++ [0x5c, 0x75] ++ acc ∧ lenient body0 false = some false ∧ acc.length < 4

theorem lenient_snoc_plain {body : Bytes} {b : UInt8} (h : lenient body false = some false)
    (h1 : (b == 0x5c) = false) (h2 : (b == 0x22) = false) : lenient (body ++ [b]) false = some false := by
  rw [lenient_append_some h]; simp [lenient, h1, h2]

theorem lenient_esc_pair {body0 : Bytes} (b : UInt8) (h : lenient body0 false = some false) :
    lenient (body0 ++ [0x5c] ++ [b]) false = some false := by
  rw [List.append_assoc, lenient_append_some h]; simp [lenient]

theorem lenient_group {body0 : Bytes} (acc : Bytes) (h : lenient body0 false = some false)
    (hx : ∀ x ∈ acc, isHex x = true) : lenient (body0 ++ [0x5c, 0x75] ++ acc) false = some false := by
  rw [List.append_assoc, lenient_append_some h]
  show lenient (0x5c :: 0x75 :: acc) false = some false
  simp only [lenient, Bool.false_eq_true, if_false, beq_self_eq_true, if_true]
  exact lenient_hex acc hx

theorem hex4_all_hex (l : List UInt8) (n : Nat) (h : hex4 l = some n) : ∀ x ∈ l, isHex x = true := by
  obtain ⟨a, b, c, d, rfl, ha, hb, hc, hd, _⟩ := Sound.hex4_some l n h
  intro x hx
  simp only [List.mem_cons, List.not_mem_nil, or_false] at hx
  rcases hx with rfl | rfl | rfl | rfl <;> assumption

theorem endStr_not_str (env : Env) (s : St) (st : StrSt) (s' : St) (h : endStr env s st = .next s')
    (st' : StrSt) : s'.mode ≠ .str st' := by
  unfold endStr at h
  simp only at h
  repeat' split at h
  all_goals first
    | (simp at h; done)
    | (simp only [Step.next.injEq] at h; subst h; first | exact complete_not_str _ _ _ | simp)

/-- one successful step inside a string keeps track of the lenient scan -/
theorem stepStr_track (env : Env) (s : St) (st : StrSt) (b : UInt8) (s' : St) (st' : StrSt) (body : Bytes)
    (h : stepStr env s st b = .next s') (hm : s'.mode = .str st') (ht : StrTrack st.esc body) :
    StrTrack st'.esc (body ++ [b]) := by
  obtain ⟨o, e, k, x⟩ := st
  cases e with
  | none =>
    simp only [stepStr] at h
    have ht' : lenient body false = some false := ht
    split at h
    · exact absurd hm (endStr_not_str env s _ s' h st')
    split at h
    · rename_i hq hb
      simp only [Step.next.injEq] at h; subst h
      simp only [Mode.str.injEq] at hm; subst hm
      simp only [beq_iff_eq] at hb; subst hb
      exact ⟨body, rfl, ht'⟩
    split at h
    · cases h
    · rename_i hq hb _
      simp only [Step.next.injEq] at h; subst h
      simp only [Mode.str.injEq] at hm; subst hm
      exact lenient_snoc_plain ht' (by simpa using hb) (by simpa using hq)
  | bs =>
    simp only [stepStr] at h
    obtain ⟨body0, rfl, h0⟩ := ht
    split at h
    · rename_i hb
      simp only [Step.next.injEq] at h; subst h
      simp only [Mode.str.injEq] at hm; subst hm
      simp only [beq_iff_eq] at hb; subst hb
      exact ⟨body0, by simp, h0, by simp⟩
    split at h
    · simp only [Step.next.injEq] at h; subst h
      simp only [Mode.str.injEq] at hm; subst hm
      exact lenient_esc_pair b h0
    · cases h
  | hex acc lead =>
    simp only [stepStr] at h
    obtain ⟨body0, rfl, h0, _⟩ := ht
    have hb : body0 ++ [0x5c, 0x75] ++ acc ++ [b] = body0 ++ [0x5c, 0x75] ++ (acc ++ [b]) := by simp
    split at h
    · rename_i hlen
      simp only [Step.next.injEq] at h; subst h
      simp only [Mode.str.injEq] at hm; subst hm
      exact ⟨body0, hb, h0, hlen⟩
    · split at h
      · cases h
      · rename_i n hn
        have hall := hex4_all_hex _ n hn
        have hgood : lenient (body0 ++ [0x5c, 0x75] ++ acc ++ [b]) false = some false := by
          rw [hb]; exact lenient_group _ h0 hall
        repeat' split at h
        all_goals first
          | (cases h; done)
          | (simp only [Step.next.injEq] at h; subst h
             simp only [Mode.str.injEq] at hm; subst hm
             exact hgood)
  | lead1 n1 =>
    simp only [stepStr] at h
    have ht' : lenient body false = some false := ht
    split at h
    · rename_i hb
      simp only [Step.next.injEq] at h; subst h
      simp only [Mode.str.injEq] at hm; subst hm
      simp only [beq_iff_eq] at hb; subst hb
      exact ⟨body, rfl, ht'⟩
    · cases h
  | lead2 n1 =>
    simp only [stepStr] at h
    obtain ⟨body0, rfl, h0⟩ := ht
    split at h
    · rename_i hb
      simp only [Step.next.injEq] at h; subst h
      simp only [Mode.str.injEq] at hm; subst hm
      simp only [beq_iff_eq] at hb; subst hb
      exact ⟨body0, by simp, h0, by simp⟩
    · cases h

/-- what a failing step inside a string says about the lenient scan of the literal so far: no closing
    quote — or the fault is `InvalidEscape` at the fourth byte of a `\u` group -/
theorem stepStr_err_track (env : Env) (s : St) (st : StrSt) (b : UInt8) (c : Code) (a : Adj) (body : Bytes)
    (h : stepStr env s st b = .err c a) (ht : StrTrack st.esc body) :
    (∃ e, lenient body false = some e) ∨
    (c = .InvalidEscape ∧ ∃ body0 acc, body = body0 ++ [0x5c, 0x75] ++ acc ∧ acc.length = 3 ∧
      lenient body0 false = some false) := by
  obtain ⟨o, e, k, x⟩ := st
  cases e with
  | none => exact Or.inl ⟨false, ht⟩
  | lead1 n1 => exact Or.inl ⟨false, ht⟩
  | bs =>
    obtain ⟨body0, rfl, h0⟩ := ht
    exact Or.inl ⟨true, by rw [lenient_append_some h0]; simp [lenient]⟩
  | lead2 n1 =>
    obtain ⟨body0, rfl, h0⟩ := ht
    exact Or.inl ⟨true, by rw [lenient_append_some h0]; simp [lenient]⟩
  | hex acc lead =>
    obtain ⟨body0, rfl, h0, hlt⟩ := ht
    simp only [stepStr] at h
    have hl : (acc ++ [b]).length = acc.length + 1 := by simp
    split at h
    · cases h
    · rename_i hlen
      rw [hl] at hlen
      split at h
      · -- a byte of the group is not a hex digit
        simp only [Step.err.injEq] at h
        exact Or.inr ⟨h.1.symm, body0, acc, rfl, by omega, h0⟩
      · rename_i n hn
        have hall := hex4_all_hex _ n hn
        left
        refine ⟨false, lenient_group acc h0 (fun x hx => hall x (by simp [hx]))⟩

/-! ## entering a string -/

theorem closeArr_not_str (env : Env) (s s' : St) (h : closeArr env s = .next s') (st' : StrSt) :
    s'.mode ≠ .str st' := by
  unfold closeArr at h; split at h <;> simp at h; subst h; exact complete_not_str _ _ _

theorem closeObj_not_str (env : Env) (s s' : St) (h : closeObj env s = .next s') (st' : StrSt) :
    s'.mode ≠ .str st' := by
  unfold closeObj at h; split at h <;> simp at h; subst h; exact complete_not_str _ _ _

theorem startValue_enter (env : Env) (s : St) (b : UInt8) (s' : St) (st' : StrSt)
    (h : startValue env s b = .next s') (hm : s'.mode = .str st') : b = 0x22 := by
  unfold startValue at h
  repeat' split at h
  all_goals first
    | (simp at h; done)
    | (simp only [Step.next.injEq] at h; subst h; simp at hm; done)
    | (rename_i hb; simpa using hb)

theorem stepNum_not_str (env : Env) (s : St) (n : NumSt) (b : UInt8) (s' : St) (st' : StrSt)
    (h : stepNum env s n b = .next s') : s'.mode ≠ .str st' := by
  unfold stepNum at h
  simp only at h
  repeat' split at h
  all_goals first
    | (simp at h; done)
    | (simp only [Step.next.injEq] at h; subst h; simp)

/-- from outside a string, only a quote leads into one -/
theorem step1_enter (env : Env) (s : St) (b : UInt8) (s' : St) (st' : StrSt) (hs : ∀ st, s.mode ≠ .str st)
    (h : step1 env s b = .next s') (hm : s'.mode = .str st') : b = 0x22 := by
  unfold step1 at h
  split at h
  · repeat' split at h
    all_goals first
      | (simp at h; done)
      | exact absurd hm (closeArr_not_str env _ _ h st')
      | exact startValue_enter env _ b s' st' h hm
      | (simp only [Step.next.injEq] at h; subst h; simp_all; done)
  · repeat' split at h
    all_goals first
      | (simp at h; done)
      | (simp only [Step.next.injEq] at h; subst h; first | exact absurd hm (complete_not_str _ _ _) | simp at hm)
  · exact absurd hm (stepNum_not_str env _ _ b s' st' h)
  · rename_i st hmode; exact absurd hmode (hs st)
  all_goals
    repeat' split at h
    all_goals first
      | (simp at h; done)
      | exact absurd hm (closeArr_not_str env _ _ h st')
      | exact absurd hm (closeObj_not_str env _ _ h st')
      | (rename_i hb; simp only [Step.next.injEq] at h; subst h; simpa using hb)
      | (simp only [Step.next.injEq] at h; subst h; simp_all; done)

theorem step_enter (env : Env) (s : St) (b : UInt8) (s' : St) (st' : StrSt) (hs : ∀ st, s.mode ≠ .str st)
    (h : step env s b = .ok s') (hm : s'.mode = .str st') : b = 0x22 ∧ st'.esc = .none := by
  unfold step at h
  split at h
  · rename_i s1 h1
    simp only [Except.ok.injEq] at h; subst h
    exact ⟨step1_enter env s b s1 st' hs h1 hm, (step1_plain env s b s1 hs h1).1 st' hm⟩
  · cases h
  · rename_i s0 h0
    obtain ⟨v, rfl⟩ := step1_again env s b s0 h0
    split at h
    · rename_i s2 h2
      simp only [Except.ok.injEq] at h; subst h
      exact ⟨step1_enter env _ b s2 st' (fun st => complete_not_str _ _ st) h2 hm,
        (step1_plain env _ b s2 (fun st => complete_not_str _ _ st) h2).1 st' hm⟩
    · cases h
    · cases h

/-! ## the invariant along a run -/

/-- every string state reached after `p`: `p = pre ++ '"' :: body`, the machine was outside any string
    after `pre`, and `body` is tracked by the lenient scan -/
def Track (env : Env) (p : Bytes) (s : St) : Prop :=
  ∀ st, s.mode = .str st → ∃ pre body s0, p = pre ++ 0x22 :: body ∧ Feeds env init pre s0 ∧
    (∀ st0, s0.mode ≠ .str st0) ∧ StrTrack st.esc body

theorem track_step (env : Env) (p : Bytes) (s s' : St) (b : UInt8) (hp : Feeds env init p s)
    (ht : Track env p s) (h : step env s b = .ok s') : Track env (p ++ [b]) s' := by
  intro st' hm'
  by_cases hs : ∃ st, s.mode = .str st
  · obtain ⟨st, hm⟩ := hs
    obtain ⟨pre, body, s0, rfl, hf0, hs0, htr⟩ := ht st hm
    obtain ⟨mode, fs⟩ := s
    simp only at hm; subst hm
    have h1 : step1 env ⟨.str st, fs⟩ b = stepStr env ⟨.str st, fs⟩ st b := rfl
    unfold step at h
    rw [h1] at h
    split at h
    · rename_i s1 hs1
      simp only [Except.ok.injEq] at h; subst h
      exact ⟨pre, body ++ [b], s0, by simp, hf0, hs0, stepStr_track env _ st b s1 st' body hs1 hm' htr⟩
    · cases h
    · rename_i s1 hs1; exact absurd hs1 (Sound.stepStr_not_again env _ st b s1)
  · have hs' : ∀ st, s.mode ≠ .str st := fun st hst => hs ⟨st, hst⟩
    obtain ⟨rfl, he⟩ := step_enter env s b s' st' hs' h hm'
    refine ⟨p, [], s, rfl, hp, hs', ?_⟩
    rw [he]; rfl

theorem track_feeds_aux (env : Env) (n : Nat) : ∀ (p : Bytes) (s : St), p.length = n →
    Feeds env init p s → Track env p s := by
  induction n with
  | zero =>
    intro p s hn h
    have : p = [] := List.eq_nil_of_length_eq_zero hn
    subst this
    simp only [Feeds, feedS, Except.ok.injEq] at h; subst h
    intro st hm; simp [init] at hm
  | succ n ih =>
    intro p s hn h
    rcases List.eq_nil_or_concat p with rfl | ⟨p0, b, rfl⟩
    · simp at hn
    rw [List.concat_eq_append] at h hn ⊢
    obtain ⟨s1, hf1, hst⟩ := feeds_snoc h
    exact track_step env p0 s1 s b hf1 (ih p0 s1 (by simpa using hn) hf1) hst

theorem track_feeds (env : Env) (p : Bytes) (s : St) (h : Feeds env init p s) : Track env p s :=
  track_feeds_aux env p.length p s rfl h

/-- **faults inside a string literal (machine level).** The machine consumes `p`, is inside a string and
    fails on the next byte: `p = pre ++ '"' :: body` with the machine outside any string after `pre`, and
    the lenient scan of `body` finds no closing quote — unless the fault is `InvalidEscape` at the fourth
    byte of a `\u` group, where this holds of the bytes up to and including `\u`. -/
theorem str_fault_core (env : Env) (p : Bytes) (b : UInt8) (st : StrSt) (fs : List Frame) (c : Code) (a : Adj)
    (hf : Feeds env init p ⟨.str st, fs⟩) (hst : step env ⟨.str st, fs⟩ b = .error (c, a)) :
    ∃ pre body s0, p = pre ++ 0x22 :: body ∧ Feeds env init pre s0 ∧ (∀ st0, s0.mode ≠ .str st0) ∧
      ((∃ e, lenient body false = some e) ∨
       (c = .InvalidEscape ∧ ∃ body0 acc, body = body0 ++ [0x5c, 0x75] ++ acc ∧ acc.length = 3 ∧
         lenient body0 false = some false)) := by
  obtain ⟨pre, body, s0, rfl, hf0, hs0, htr⟩ := track_feeds env p _ hf st rfl
  refine ⟨pre, body, s0, rfl, hf0, hs0, ?_⟩
  have h1 : step1 env ⟨.str st, fs⟩ b = stepStr env ⟨.str st, fs⟩ st b := rfl
  unfold step at hst
  rw [h1] at hst
  split at hst
  · cases hst
  · rename_i c' a' hs1
    simp only [Except.error.injEq, Prod.mk.injEq] at hst
    obtain ⟨rfl, rfl⟩ := hst
    exact stepStr_err_track env _ st b _ _ body hs1 htr
  · rename_i s1 hs1; exact absurd hs1 (Sound.stepStr_not_again env _ st b s1)

/-- the same in terms of positions: `start` is the index of the opening quote, the fault is reported at
    byte count `p.length + 1`, and `Spec.Pos.literalEnd` is the independent lenient scan for the end of the
    literal (index just past the closing quote, or the input length) -/
theorem str_fault_bound (env : Env) (p : Bytes) (b : UInt8) (rest : Bytes) (st : StrSt) (fs : List Frame)
    (c : Code) (a : Adj) (hf : Feeds env init p ⟨.str st, fs⟩) (hst : step env ⟨.str st, fs⟩ b = .error (c, a)) :
    ∃ start, start + 2 ≤ p.length + 1 ∧ (p ++ b :: rest)[start]? = some 0x22 ∧
      (∃ s0, Feeds env init ((p ++ b :: rest).take start) s0 ∧ ∀ st0, s0.mode ≠ .str st0) ∧
      (p.length + 1 ≤ Spec.Pos.literalEnd (p ++ b :: rest) start ∨
       (c = .InvalidEscape ∧ (∃ x, (p ++ b :: rest).take (p.length + 1 - 4) = x ++ [0x5c, 0x75]) ∧
         start + 3 ≤ p.length + 1 - 4 ∧ p.length + 1 - 4 ≤ Spec.Pos.literalEnd (p ++ b :: rest) start)) := by
  obtain ⟨pre, body, s0, rfl, hf0, hs0, hcase⟩ := str_fault_core env p b st fs c a hf hst
  refine ⟨pre.length, by simp, by simp, ⟨s0, by simpa using hf0, hs0⟩, ?_⟩
  have hd : ((pre ++ 0x22 :: body) ++ b :: rest).drop (pre.length + 1) = body ++ b :: rest := by
    have : (pre ++ 0x22 :: body) ++ b :: rest = (pre ++ [0x22]) ++ (body ++ b :: rest) := by simp
    rw [this]
    exact List.drop_left' (by simp)
  have hle : Spec.Pos.literalEnd ((pre ++ 0x22 :: body) ++ b :: rest) pre.length =
      Spec.Pos.literalEnd.go (body ++ b :: rest) (pre.length + 1) false := by
    unfold Spec.Pos.literalEnd; rw [hd]
  rw [hle]
  have hlen : (pre ++ 0x22 :: body).length = pre.length + 1 + body.length := by simp; omega
  rcases hcase with ⟨e, he⟩ | ⟨hc, body0, acc, rfl, h3, h0⟩
  · left
    rw [go_of_lenient body (b :: rest) _ false e he, hlen]
    exact go_cons_gt b rest _ e
  · right
    have hg : lenient (body0 ++ [0x5c, 0x75]) false = some false := by
      have := lenient_group [] h0 (by simp)
      simpa using this
    have hsplit : body0 ++ [0x5c, 0x75] ++ acc ++ b :: rest = (body0 ++ [0x5c, 0x75]) ++ (acc ++ b :: rest) := by
      simp
    rw [hsplit, go_of_lenient _ _ _ false false hg]
    have hl2 : (pre ++ 0x22 :: (body0 ++ [0x5c, 0x75] ++ acc)).length + 1 - 4 = pre.length + 1 + (body0.length + 2) := by
      simp; omega
    rw [hl2]
    refine ⟨hc, ⟨pre ++ 0x22 :: body0, ?_⟩, by omega, ?_⟩
    · have : (pre ++ 0x22 :: (body0 ++ [0x5c, 0x75] ++ acc)) ++ b :: rest =
          (pre ++ 0x22 :: body0 ++ [0x5c, 0x75]) ++ (acc ++ b :: rest) := by simp
      rw [this]
      exact List.take_left' (by simp; omega)
    · have := go_ge (acc ++ b :: rest) (pre.length + 1 + (body0 ++ [0x5c, 0x75]).length) false
      simpa using this

/-! ## the codes of string faults come from string states -/

/-- the codes raised inside a string literal -/
def strCode (c : Code) : Bool :=
  c == .ControlCharacterWhileParsingString || c == .InvalidEscape || c == .InvalidUnicodeCodePoint ||
  c == .LoneLeadingSurrogateInHexEscape || c == .UnexpectedEndOfHexEscape

theorem closeArr_code (env : Env) (s : St) (c : Code) (a : Adj) (h : closeArr env s = .err c a) :
    strCode c = false := by
  unfold closeArr at h; split at h <;> simp at h; rw [← h.1]; rfl

theorem closeObj_code (env : Env) (s : St) (c : Code) (a : Adj) (h : closeObj env s = .err c a) :
    strCode c = false := by
  unfold closeObj at h; split at h <;> simp at h; rw [← h.1]; rfl

theorem startValue_code (env : Env) (s : St) (b : UInt8) (c : Code) (a : Adj)
    (h : startValue env s b = .err c a) : strCode c = false := by
  unfold startValue at h
  repeat' split at h
  all_goals first | (simp at h; done) | (simp only [Step.err.injEq] at h; rw [← h.1]; rfl)

theorem stepNum_code (env : Env) (s : St) (n : NumSt) (b : UInt8) (c : Code) (a : Adj)
    (h : stepNum env s n b = .err c a) : strCode c = false := by
  unfold stepNum at h
  simp only at h
  repeat' split at h
  all_goals first
    | (simp at h; done)
    | (simp only [Step.err.injEq] at h; rw [← h.1]; rfl)
    | (rename_i c' a' hc; simp only [Step.err.injEq] at h
       rw [← h.1, (endNumber_err env _ _ _ _ hc).1]; rfl)

theorem step1_code (env : Env) (s : St) (b : UInt8) (c : Code) (a : Adj) (hs : ∀ st, s.mode ≠ .str st)
    (h : step1 env s b = .err c a) : strCode c = false := by
  unfold step1 at h
  split at h
  · repeat' split at h
    all_goals first
      | (simp at h; done)
      | exact closeArr_code env _ c a h
      | exact startValue_code env _ b c a h
      | (simp only [Step.err.injEq] at h; rw [← h.1]; rfl)
      | (simp only [Step.err.injEq] at h; rw [← h.1]; split <;> rfl)
  · repeat' split at h
    all_goals first
      | (simp at h; done)
      | (simp only [Step.err.injEq] at h; rw [← h.1]; rfl)
  · exact stepNum_code env _ _ b c a h
  · rename_i st hmode; exact absurd hmode (hs st)
  all_goals
    repeat' split at h
    all_goals first
      | (simp at h; done)
      | exact closeArr_code env _ c a h
      | exact closeObj_code env _ c a h
      | (simp only [Step.err.injEq] at h; rw [← h.1]; rfl)

/-- a step failing with one of the string codes starts in a string state -/
theorem step_code_str (env : Env) (s : St) (b : UInt8) (c : Code) (a : Adj)
    (h : step env s b = .error (c, a)) (hc : strCode c = true) : ∃ st, s.mode = .str st := by
  by_cases hs : ∃ st, s.mode = .str st
  · exact hs
  · exfalso
    have hs' : ∀ st, s.mode ≠ .str st := fun st hst => hs ⟨st, hst⟩
    unfold step at h
    split at h
    · cases h
    · rename_i c' a' h1
      simp only [Except.error.injEq, Prod.mk.injEq] at h
      obtain ⟨rfl, rfl⟩ := h
      rw [step1_code env s b _ _ hs' h1] at hc; cases hc
    · rename_i s0 h0
      obtain ⟨v, rfl⟩ := step1_again env s b s0 h0
      split at h
      · cases h
      · rename_i c' a' h1
        simp only [Except.error.injEq, Prod.mk.injEq] at h
        obtain ⟨rfl, rfl⟩ := h
        rw [step1_code env _ b _ _ (fun st => complete_not_str _ _ st) h1] at hc; cases hc
      · simp only [Except.error.injEq, Prod.mk.injEq] at h
        rw [← h.1] at hc; cases hc

end SJ.Proofs.EarliestStrBound
