import SJ.Proofs.EarliestStr
import SJ.Proofs.EarliestNum
import SJ.Proofs.EarliestStep
/-!
# Every consumed prefix is viable (up to the side conditions and the `\u` slack)

`viable_of_inv`: a reachable state that meets the side conditions `SideOK` has an accepted
completion. `viable_prefix`: the same for the state after any prefix `p` the machine consumes;
inside a `\u` group (where hex digits are only checked after the fourth one) the claim is about
the prefix that ends right after `\u`.
-/
namespace SJ.Proofs.Earliest
open SJ SJ.Gen SJ.Model.Machine SJ.Model.Num SJ.Proofs.Machine SJ.Proofs.Complete SJ.Proofs.Sound

/-- **Side conditions of a state** (all vacuous for skipped content):

* a number that is committed to a non-negative exponent by a bare `e+` (`arbitrary_precision` off):
  the mantissa itself must convert (closing the literal as early as possible with `0`);
* a string of a `Value` read from a byte source: the text collected so far must still be able to
  pass the UTF-8 check at the closing quote (`Utf8Viable`).

No condition on depth (a value position is completed with a scalar), on pending surrogates (they are
completed with `\udc00`) or on any other state. -/
def SideOK (env : Env) (s : St) : Prop :=
  match s.mode with
  | .num n => env.tgt = .value → env.cfg.ap = false → n.phase = .expSign → n.expNeg = false →
      ∃ v, numValue env { n with raw := 0x30 :: n.raw, phase := .exp, expDigits := [0x30] } = .ok v
  | .str st => env.tgt = .value → env.src ≠ .str → Utf8Viable st
  | _ => True

/-- a number in its exponent digits with a non-negative exponent converts as it stands -/
def ExpOK (env : Env) (s : St) : Prop :=
  ∀ n, s.mode = .num n → env.tgt = .value → env.cfg.ap = false → n.phase = .exp → n.expNeg = false →
    ∃ v, numValue env n = .ok v

theorem sideOK_ignored (env : Env) (h : env.tgt = .ignored) (s : St) : SideOK env s := by
  unfold SideOK; split <;> first | trivial | (intro hv; rw [h] at hv; cases hv)

theorem expOK_ignored (env : Env) (h : env.tgt = .ignored) (s : St) : ExpOK env s := by
  intro n _ hv; rw [h] at hv; cases hv

theorem numValue_ap (env : Env) (h : env.cfg.ap = true) (n : NumSt) : ∃ v, numValue env n = .ok v := by
  unfold numValue; simp [h]

/-! ## facts read off the shape invariant -/

theorem leadOK_of_escInv {esc : EscSt} {tail : Bytes} (h : EscInv esc tail) : LeadOK esc := by
  cases h with
  | none => trivial
  | bs => trivial
  | hex0 acc h => trivial
  | lead1 a b c d n1 h => exact h.hi
  | lead2 a b c d n1 h => exact h.hi
  | hex1 a b c d n1 acc h _ => exact h.hi

theorem hexLen_of_escInv {acc : List UInt8} {lead : Option Nat} {tail : Bytes}
    (h : EscInv (.hex acc lead) tail) : acc.length < 4 := by
  cases h with
  | hex0 acc h => exact h
  | hex1 a b c d n1 acc _ h => exact h

theorem hasExp_of_numInv {n : NumSt} (h : NumInv n)
    (hp : n.phase = .expStart ∨ n.phase = .expSign ∨ n.phase = .exp) : n.hasExp = true := by
  obtain ⟨ep, _, hph⟩ := h
  unfold PhaseInv at hph
  rcases hp with hp | hp | hp <;> simp only [hp] at hph
  · exact hph.2.2.1
  · exact hph.2.2.1
  · exact hph.2.2.1

/-- the string scanner's invariant, extracted from `Inv` -/
theorem strInv_of_inv {env : Env} {st : StrSt} {fs : List Frame} {cs : Bytes}
    (hi : Inv env ⟨.str st, fs⟩ cs) : ∃ items tail, StrInv env st items tail := by
  cases hi with
  | strVal _ _ pre items tail _ hp hk hinv hc => exact ⟨items, tail, hinv⟩
  | strKey _ _ pre mems key inner items tail _ hp hd ho hk hinv hc => exact ⟨items, tail, hinv⟩

/-! ## the completion theorem -/

theorem numSideOK_of (env : Env) (s : St) (n : NumSt) (hm : s.mode = .num n) (hside : SideOK env s)
    (hexp : ExpOK env s) : NumSideOK env n := by
  intro hv hn
  by_cases hap : env.cfg.ap = true
  · exact ⟨fun _ => numValue_ap env hap _, fun _ => numValue_ap env hap _⟩
  · have hap' : env.cfg.ap = false := by simpa using hap
    refine ⟨fun hp => ?_, fun hp => hexp n hm hv hap' hp hn⟩
    unfold SideOK at hside
    rw [hm] at hside
    exact hside hv hap' hp hn

/-- **every reachable state that meets the side conditions can be completed** -/
theorem viable_of_inv (env : Env) (s : St) (cs : Bytes) (hi : Inv env s cs) (hl : LitNE s)
    (hside : SideOK env s) (hexp : ExpOK env s)
    (hhex : ∀ st, s.mode = .str st → HexFresh st.esc) : Viable env s := by
  cases hi with
  | val ctx fs cs hp hf => exact viable_val env ctx fs
  | lit rest v fs pre done t cs hp hd hs hc => exact viable_lit env fs v rest (hl rest v rfl)
  | num n fs pre cs hp hn hc =>
    exact viable_num env fs n (hasExp_of_numInv hn) (numSideOK_of env _ n rfl hside hexp)
  | strVal st fs pre items tail cs hp hk hinv hc =>
    exact viable_strVal env fs st hk (hhex st rfl) (leadOK_of_escInv hinv.esc) hside
  | strKey st fs pre mems key inner items tail cs hp hd ho hk hinv hc =>
    exact viable_strKey env mems key fs st hk (hhex st rfl) (leadOK_of_escInv hinv.esc) hside
  | afterElem es fs pre inner w cs hp hd hb hw hc => exact viable_afterElem env es fs
  | objFirst key fs pre w cs hp hd hw hc => exact viable_objFirst env [] key fs
  | objNextKey mems key fs pre inner cs hp hd ho hc => exact viable_objNextKey env mems key fs
  | afterKey mems key fs pre inner k w₁ cs hp hd ho hk hks hw hc => exact viable_afterKey env mems key fs
  | afterMember mems key fs pre inner w cs hp hd hb hw hc => exact viable_afterMember env mems key fs
  | done v w vb w' t cs hw hd hs hw' hc => exact viable_done env v

/-! ## prefixes -/

theorem inv_of_feeds {env : Env} {p : Bytes} {s : St} (h : Feeds env init p s) : Inv env s p := by
  have := feed_inv env init [] 0 p s _ (Inv.init env) (h.to_feed 0)
  simpa using this

/-- how many bytes of the consumed prefix belong to a `\u` group whose digits are not yet checked -/
def hexPending (s : St) : Nat :=
  match s.mode with
  | .str st => (match st.esc with | .hex acc _ => acc.length | _ => 0)
  | _ => 0

theorem hexPending_zero {s : St} (h : hexPending s = 0) : ∀ st, s.mode = .str st → HexFresh st.esc := by
  intro st hm
  unfold hexPending at h
  rw [hm] at h
  cases he : st.esc with
  | hex acc lead => simp only [he] at h; exact List.eq_nil_of_length_eq_zero h
  | _ => trivial

theorem hexPending_lt {env : Env} {s : St} {cs : Bytes} (hi : Inv env s cs) : hexPending s < 4 := by
  unfold hexPending
  split
  · rename_i st hm
    split
    · rename_i acc lead he
      obtain ⟨mode, fs⟩ := s
      simp only at hm; subst hm
      obtain ⟨items, tail, hinv⟩ := strInv_of_inv hi
      have := hinv.esc
      rw [he] at this
      exact hexLen_of_escInv this
    · omega
  · omega

/-- right after `\u` the consumed input ends with `\u` -/
theorem ends_with_bs_u {env : Env} {st : StrSt} {fs : List Frame} {cs : Bytes} {lead : Option Nat}
    (hi : Inv env ⟨.str st, fs⟩ cs) (he : st.esc = .hex [] lead) : ∃ x, cs = x ++ [0x5c, 0x75] := by
  have key : ∀ tail, EscInv (.hex [] lead) tail → ∃ y, tail = y ++ [0x5c, 0x75] := by
    intro tail h
    cases h with
    | hex0 _ _ => exact ⟨[], rfl⟩
    | hex1 a b c d n1 _ _ _ => exact ⟨[0x5c, 0x75, a, b, c, d], rfl⟩
  cases hi with
  | strVal _ _ pre items tail _ hp hk hinv hc =>
    have := hinv.esc; rw [he] at this
    obtain ⟨y, rfl⟩ := key tail this
    exact ⟨pre ++ [0x22] ++ items.flatMap Spec.Grammar.StrItem.bytes ++ y, by rw [hc]; simp⟩
  | strKey _ _ pre mems key' inner items tail _ hp hd ho hk hinv hc =>
    have := hinv.esc; rw [he] at this
    obtain ⟨y, rfl⟩ := key tail this
    exact ⟨pre ++ [0x7b] ++ inner ++ [0x22] ++ items.flatMap Spec.Grammar.StrItem.bytes ++ y, by rw [hc]; simp⟩

/-- **the prefix consumed so far, minus the unchecked digits of a `\u` group, is viable** -/
theorem viable_prefix (env : Env) (p : Bytes) (s : St) (hf : Feeds env init p s)
    (hside : SideOK env s) (hexp : ExpOK env s) :
    hexPending s ≤ p.length ∧
    (hexPending s ≠ 0 → ∃ x, p.take (p.length - hexPending s) = x ++ [0x5c, 0x75]) ∧
    ∃ s0, Feeds env init (p.take (p.length - hexPending s)) s0 ∧ Viable env s0 := by
  by_cases h0 : hexPending s = 0
  · refine ⟨by omega, fun h => absurd h0 h, s, by simpa [h0] using hf, ?_⟩
    exact viable_of_inv env s p (inv_of_feeds hf) (feeds_litNE env init s p hf litNE_init) hside hexp
      (hexPending_zero h0)
  · -- inside a `\u` group
    obtain ⟨mode, fs⟩ := s
    cases mode with
    | str st =>
      cases he : st.esc with
      | hex acc lead =>
        have hk : hexPending ⟨.str st, fs⟩ = acc.length := by simp [hexPending, he]
        obtain ⟨q, rfl, hq⟩ := feeds_unhex env init (by simp [init]) acc.length acc p st fs lead rfl hf he
        rw [hk]
        refine ⟨by simp, fun _ => ?_, _, by simpa using hq, ?_⟩
        · obtain ⟨x, hx⟩ := ends_with_bs_u (inv_of_feeds hq) rfl
          exact ⟨x, by simpa using hx⟩
        refine viable_of_inv env _ q (inv_of_feeds hq) (feeds_litNE env init _ q hq litNE_init) ?_ ?_ ?_
        · -- the UTF-8 condition only looks at `out`, and both states are inside an escape
          unfold SideOK at hside ⊢
          simp only at hside ⊢
          intro hv hs
          have := hside hv hs
          unfold Utf8Viable at this ⊢
          rw [he] at this
          exact this
        · intro n hm; cases hm
        · intro st' hm
          simp only [Mode.str.injEq] at hm; subst hm
          rfl
      | _ => simp [hexPending, he] at h0
    | _ => simp [hexPending] at h0

/-! ## the step that raises the error -/

/-- an error of `feed` is raised by one step, after a prefix that was consumed -/
theorem feed_err_split (env : Env) (s : St) (i : Nat) (xs : Bytes) (c : Code) (j : Nat)
    (h : feed env s i xs = .error (c, j)) :
    ∃ p b rest s1 a, xs = p ++ b :: rest ∧ Feeds env s p s1 ∧ step env s1 b = .error (c, a) ∧
      j = errIdx env a (i + p.length) := by
  induction xs generalizing s i with
  | nil => simp [feed] at h
  | cons x xs ih =>
    simp only [feed] at h
    cases hs : step env s x with
    | ok s' =>
      rw [hs] at h
      obtain ⟨p, b, rest, s1, a, rfl, hf, hst, hj⟩ := ih s' (i + 1) h
      exact ⟨x :: p, b, rest, s1, a, rfl, Feeds.cons hs hf, hst, by rw [hj]; simp only [List.length_cons]; congr 1; omega⟩
    | error e =>
      obtain ⟨c', a⟩ := e
      rw [hs] at h
      simp only [Except.error.injEq, Prod.mk.injEq] at h
      obtain ⟨rfl, rfl⟩ := h
      exact ⟨[], x, xs, s, a, rfl, Feeds.nil _ _, hs, rfl⟩

/-- a step from the exponent digits of a number fails with `NumberOutOfRange` or not at all, unless
    the number converts -/
theorem expOK_of_step_err (env : Env) (s : St) (b : UInt8) (c : Code) (a : Adj)
    (h : step env s b = .error (c, a)) (hc : c ≠ .NumberOutOfRange) : ExpOK env s := by
  intro n hm hv hap hp hn
  cases hnv : numValue env n with
  | ok v => exact ⟨v, rfl⟩
  | error c' =>
    exfalso
    obtain ⟨mode, fs⟩ := s
    simp only at hm; subst hm
    have hen : endNumber env ⟨.num n, fs⟩ n = .error (c', .incl) := by simp [endNumber, hv, hnv]
    have hc' := numValue_err env n c' hnv
    have h1 : ∃ r, step1 env ⟨.num n, fs⟩ b = r ∧
        (r = .err .NumberOutOfRange .incl ∨ (∃ s', r = .next s') ∨ r = .err c' .incl) := by
      refine ⟨_, rfl, ?_⟩
      simp only [step1, stepNum, hp, hen]
      split
      · split
        · exact Or.inl rfl
        · exact Or.inr (Or.inl ⟨_, rfl⟩)
      · exact Or.inr (Or.inr rfl)
    obtain ⟨r, hr, hcases⟩ := h1
    unfold step at h
    rw [hr] at h
    rcases hcases with rfl | ⟨s', rfl⟩ | rfl
    · simp only [Except.error.injEq, Prod.mk.injEq] at h; exact hc h.1.symm
    · simp at h
    · simp only [Except.error.injEq, Prod.mk.injEq] at h; exact hc (h.1.symm.trans hc')

/-- inside a `\u` group only the fourth digit can raise an error -/
theorem hex_step_err (env : Env) (st : StrSt) (fs : List Frame) (b : UInt8) (c : Code) (a : Adj)
    (acc : List UInt8) (lead : Option Nat) (h : step env ⟨.str st, fs⟩ b = .error (c, a))
    (he : st.esc = .hex acc lead) :
    3 ≤ acc.length ∧ (c = .InvalidEscape ∨ c = .LoneLeadingSurrogateInHexEscape) := by
  have key : ∀ c a, stepStr env ⟨.str st, fs⟩ st b = .err c a →
      3 ≤ acc.length ∧ (c = .InvalidEscape ∨ c = .LoneLeadingSurrogateInHexEscape) := by
    intro c a h
    have hl : (acc ++ [b]).length = acc.length + 1 := by simp
    by_cases hlen : acc.length + 1 < 4
    · simp [stepStr, he, hl, hlen] at h
    · simp only [stepStr, he, hl, hlen, if_false] at h
      refine ⟨by omega, ?_⟩
      repeat' split at h
      all_goals first
        | (simp at h; done)
        | (simp only [Step.err.injEq] at h; simp [← h.1])
  have h1 : step1 env ⟨.str st, fs⟩ b = stepStr env ⟨.str st, fs⟩ st b := rfl
  unfold step at h
  rw [h1] at h
  split at h
  · simp at h
  · rename_i c' a' hs
    simp only [Except.error.injEq, Prod.mk.injEq] at h
    obtain ⟨rfl, rfl⟩ := h
    exact key _ _ hs
  · rename_i s' hs; exact absurd hs (Sound.stepStr_not_again env _ st b s')

theorem hexPending_pos {s : St} (h : hexPending s ≠ 0) :
    ∃ st fs acc lead, s = ⟨.str st, fs⟩ ∧ st.esc = .hex acc lead ∧ hexPending s = acc.length := by
  obtain ⟨mode, fs⟩ := s
  cases mode with
  | str st =>
    cases he : st.esc with
    | hex acc lead => exact ⟨st, fs, acc, lead, rfl, he, by simp [hexPending, he]⟩
    | _ => simp [hexPending, he] at h
  | _ => simp [hexPending] at h

/-- acceptance of `q ++ ys` from the state reached after `q` -/
theorem parseTop_of_viable (env : Env) (q : Bytes) (s0 : St) (hq : Feeds env init q s0)
    (hv : Viable env s0) : ∃ ys v, parseTop env (q ++ ys) = .ok v := by
  obtain ⟨ys, s', v, hf, hfin⟩ := hv
  exact ⟨ys, v, (run_ok_iff env init 0 (q ++ ys) v).mpr ⟨s', Feeds.append hq hf, hfin⟩⟩

/-- **the bytes before the offending one are viable** (machine level; `Props.C11.c11_earliest`) -/
theorem earliest_core (env : Env) (p : Bytes) (b : UInt8) (s1 : St) (c : Code) (a : Adj)
    (hf : Feeds env init p s1) (hst : step env s1 b = .error (c, a)) (hexp : ExpOK env s1)
    (hside : SideOK env s1) :
    (∃ ys v, parseTop env (p ++ ys) = .ok v) ∨
    ((c = .InvalidEscape ∨ c = .LoneLeadingSurrogateInHexEscape) ∧ 3 ≤ p.length ∧
      (∃ x, p.take (p.length - 3) = x ++ [0x5c, 0x75]) ∧
      ∃ ys v, parseTop env (p.take (p.length - 3) ++ ys) = .ok v) := by
  obtain ⟨hle, hbu, s0, hq, hv⟩ := viable_prefix env p s1 hf hside hexp
  by_cases h0 : hexPending s1 = 0
  · left
    rw [h0] at hq
    simp only [Nat.sub_zero, List.take_length] at hq
    exact parseTop_of_viable env p s0 hq hv
  · right
    obtain ⟨st, fs, acc, lead, rfl, he, hk⟩ := hexPending_pos h0
    obtain ⟨h3, hcode⟩ := hex_step_err env st fs b c a acc lead hst he
    have h4 := hexPending_lt (inv_of_feeds hf)
    have hk3 : hexPending ⟨.str st, fs⟩ = 3 := by omega
    have hbu' := hbu h0
    rw [hk3] at hq hle hbu'
    exact ⟨hcode, hle, hbu', parseTop_of_viable env _ s0 hq hv⟩

/-! ## the surrogate rule is not applied to skipped content -/

theorem startValue_lone (env : Env) (s : St) (b : UInt8) (a : Adj) :
    startValue env s b ≠ .err .LoneLeadingSurrogateInHexEscape a := by
  intro h
  unfold startValue at h
  repeat' split at h
  all_goals (simp at h)

theorem stepNum_lone (env : Env) (s : St) (n : NumSt) (b : UInt8) (a : Adj) :
    stepNum env s n b ≠ .err .LoneLeadingSurrogateInHexEscape a := by
  intro h
  unfold stepNum at h; simp only at h
  repeat' split at h
  all_goals first
    | (simp at h; done)
    | (rename_i c' a' hc; simp only [Step.err.injEq] at h
       have := (endNumber_err env _ _ _ _ hc).1; rw [h.1] at this; cases this)

theorem stepStr_lone (env : Env) (henv : env.tgt = .ignored) (s : St) (st : StrSt) (b : UInt8) (a : Adj) :
    stepStr env s st b ≠ .err .LoneLeadingSurrogateInHexEscape a := by
  intro h
  unfold stepStr at h; simp only at h
  repeat' split at h
  all_goals first
    | (simp at h; done)
    | (simp [henv] at *; done)
    | (unfold endStr at h; simp only at h; repeat' split at h
       all_goals (simp at h))

theorem step1_lone (env : Env) (henv : env.tgt = .ignored) (s : St) (b : UInt8) (a : Adj) :
    step1 env s b ≠ .err .LoneLeadingSurrogateInHexEscape a := by
  intro h
  unfold step1 at h
  split at h
  · repeat' split at h
    all_goals first
      | (simp at h; done)
      | (unfold closeArr at h; split at h <;> simp at h; done)
      | exact startValue_lone env _ _ _ h
  · repeat' split at h
    all_goals (simp at h)
  · exact stepNum_lone env _ _ _ _ h
  · exact stepStr_lone env henv _ _ _ _ h
  all_goals
    repeat' split at h
    all_goals first
      | (simp at h; done)
      | (unfold closeArr at h; split at h <;> simp at h; done)
      | (unfold closeObj at h; split at h <;> simp at h; done)

theorem lone_not_ignored (env : Env) (henv : env.tgt = .ignored) (s : St) (b : UInt8) (a : Adj)
    (h : step env s b = .error (.LoneLeadingSurrogateInHexEscape, a)) : False := by
  unfold step at h
  split at h
  · simp at h
  · rename_i c' a' h1
    simp only [Except.error.injEq, Prod.mk.injEq] at h
    obtain ⟨rfl, rfl⟩ := h
    exact step1_lone env henv s b _ h1
  · rename_i s' _
    split at h
    · simp at h
    · rename_i c' a' h1
      simp only [Except.error.injEq, Prod.mk.injEq] at h
      obtain ⟨rfl, rfl⟩ := h
      exact step1_lone env henv s' b _ h1
    · simp at h

/-- a failing parse whose error does not come from `finish` fails in one step after a consumed prefix -/
theorem parse_err_step (env : Env) (bs : Bytes) (c : Code) (idx : Nat)
    (h : parseTop env bs = .err c idx) (hnf : ∀ s, finish env s ≠ .error c) :
    ∃ p b rest s1, bs = p ++ b :: rest ∧ Feeds env init p s1 ∧ step env s1 b = .error (c, .incl) ∧
      idx = p.length + 1 := by
  unfold parseTop at h
  rw [run_eq_feed_finish] at h
  cases hf : feed env init 0 bs with
  | error e =>
    obtain ⟨c', j⟩ := e; rw [hf] at h
    simp only [Outcome.err.injEq] at h
    obtain ⟨rfl, rfl⟩ := h
    obtain ⟨p, b, rest, s1, a, rfl, hfeed, hst, hj⟩ := feed_err_split env init 0 _ c' j hf
    have ha := (step_err env s1 b c' a hst).1
    subst ha
    refine ⟨p, b, rest, s1, rfl, hfeed, hst, ?_⟩
    rw [hj]; unfold errIdx; split <;> first | omega | (rename_i h _; cases h)
  | ok r =>
    obtain ⟨s', j⟩ := r; rw [hf] at h
    cases hfin : finish env s' with
    | ok v => simp [hfin] at h
    | error c' =>
      simp only [hfin, Outcome.err.injEq] at h
      exact absurd (h.1 ▸ hfin) (hnf s')

end SJ.Proofs.Earliest
