import SJ.Proofs.C19Utf8
import SJ.Proofs.Utf8Str
import SJ.Proofs.RawMap
/-!
# C19 helper lemmas: keys and value texts of a well-formed UTF-8 object text are well-formed UTF-8

`minner_valid`: in `w₀ "{" inner "}" w₃` with `MInner inner ms` and every member value a grammar value, every key
literal `strBytes k` and every value text `c` is valid UTF-8 when the whole text is (both start with an ASCII byte —
`"` / the head of a value — and are followed by whitespace, `:`, `,` or `}`: `validUtf8_mid`).
`keyOK_of_valid`: so the decoded key is valid UTF-8 (`Proofs.Utf8.decodeItems_utf8`).
-/
namespace SJ.Proofs.C19Utf8
open SJ SJ.Spec.Utf8 SJ.Proofs.Utf8 SJ.Proofs.RawNested SJ.Proofs.StreamValues SJ.Proofs.RawMap SJ.Proofs.RawKey
open SJ.Spec.Grammar (CST StrItem Ws Derives StrWF strBytes surrogatesPairedStr)
open SJ.Spec.Denote (decodeItems)

theorem strBytes_sa (k : List StrItem) : SA (strBytes k) :=
  ⟨0x22, k.flatMap StrItem.bytes ++ [0x22], by simp [strBytes], by decide⟩

theorem colon_sa (r : Bytes) : SA ([0x3a] ++ r) := ⟨0x3a, r, rfl, by decide⟩

/-- `( ws "," ws member )* ws` followed by an ASCII byte starts with an ASCII byte -/
theorem mtail_sa {tail : Bytes} {ms : List Mem} (h : MTail tail ms) {post : Bytes} (hp : SA post) : SA (tail ++ post) := by
  cases h with
  | nil w hw => exact SA.ws_append hw hp
  | cons w₁ w₂ k s w₃ w₄ c rest ms h₁ h₂ h₃ h₄ h =>
    have : w₁ ++ [0x2c] ++ w₂ ++ strBytes k ++ w₃ ++ [0x3a] ++ w₄ ++ c ++ rest ++ post =
        w₁ ++ ([0x2c] ++ (w₂ ++ strBytes k ++ w₃ ++ [0x3a] ++ w₄ ++ c ++ rest ++ post)) := by simp
    rw [this]
    exact SA.ws_append h₁ ⟨0x2c, _, rfl, by decide⟩

/-- one member `pre key w₃ ":" w₄ c follow`: key literal and value text are well-formed -/
theorem member_valid (pre : Bytes) (k : List StrItem) (w₃ w₄ c follow : Bytes) (h₃ : Ws w₃) (hc : SA c) (hf : SA follow)
    (hv : validUtf8 (pre ++ strBytes k ++ w₃ ++ [0x3a] ++ w₄ ++ c ++ follow) = true) :
    validUtf8 (strBytes k) = true ∧ validUtf8 c = true := by
  constructor
  · have e : pre ++ strBytes k ++ w₃ ++ [0x3a] ++ w₄ ++ c ++ follow =
        pre ++ strBytes k ++ (w₃ ++ ([0x3a] ++ (w₄ ++ c ++ follow))) := by simp
    rw [e] at hv
    exact validUtf8_mid _ _ _ (strBytes_sa k) (Or.inr (SA.ws_append h₃ (colon_sa _))) hv
  · have e : pre ++ strBytes k ++ w₃ ++ [0x3a] ++ w₄ ++ c ++ follow =
        (pre ++ strBytes k ++ w₃ ++ [0x3a] ++ w₄) ++ c ++ follow := by simp
    rw [e] at hv
    exact validUtf8_mid _ _ _ hc (Or.inr hf) hv

/-- the members of a tail -/
theorem mtail_valid {tail : Bytes} {ms : List Mem} (h : MTail tail ms) :
    ∀ (pre post : Bytes), SA post → (∀ m ∈ ms, ∃ t, Derives m.2.2 t) → validUtf8 (pre ++ tail ++ post) = true →
      ∀ m ∈ ms, validUtf8 (strBytes m.1) = true ∧ validUtf8 m.2.2 = true := by
  induction h with
  | nil w hw => intro _ _ _ _ _ m hm; cases hm
  | cons w₁ w₂ k s w₃ w₄ c rest ms h₁ h₂ h₃ h₄ h ih =>
    intro pre post hp hd hv m hm
    rcases List.mem_cons.mp hm with rfl | hm
    · obtain ⟨t, ht⟩ := hd (k, s, c) (by simp)
      have e : pre ++ (w₁ ++ [0x2c] ++ w₂ ++ strBytes k ++ w₃ ++ [0x3a] ++ w₄ ++ c ++ rest) ++ post =
          (pre ++ w₁ ++ [0x2c] ++ w₂) ++ strBytes k ++ w₃ ++ [0x3a] ++ w₄ ++ c ++ (rest ++ post) := by simp
      rw [e] at hv
      exact member_valid _ k w₃ w₄ c _ h₃ (derives_sa ht) (mtail_sa h hp) hv
    · have e : pre ++ (w₁ ++ [0x2c] ++ w₂ ++ strBytes k ++ w₃ ++ [0x3a] ++ w₄ ++ c ++ rest) ++ post =
          (pre ++ w₁ ++ [0x2c] ++ w₂ ++ strBytes k ++ w₃ ++ [0x3a] ++ w₄ ++ c) ++ rest ++ post := by simp
      rw [e] at hv
      exact ih _ post hp (fun m' h' => hd m' (by simp [h'])) hv m hm

/-- **object texts**: every key literal and every value text of a well-formed object text is well-formed -/
theorem minner_valid (ms : List Mem) (w₀ inner w₃ : Bytes) (hin : MInner inner ms) (hd : ∀ m ∈ ms, ∃ t, Derives m.2.2 t)
    (hv : validUtf8 (w₀ ++ [0x7b] ++ inner ++ [0x7d] ++ w₃) = true) :
    ∀ m ∈ ms, validUtf8 (strBytes m.1) = true ∧ validUtf8 m.2.2 = true := by
  cases ms with
  | nil => intro m hm; cases hm
  | cons m0 ms =>
    obtain ⟨k, s, c⟩ := m0
    obtain ⟨w, w3, w4, tail, hw, hw3, hw4, rfl, ht⟩ := hin
    have hp : SA ([0x7d] ++ w₃) := ⟨0x7d, w₃, rfl, by decide⟩
    intro m hm
    rcases List.mem_cons.mp hm with rfl | hm
    · obtain ⟨t, hdt⟩ := hd (k, s, c) (by simp)
      have e : w₀ ++ [0x7b] ++ (w ++ strBytes k ++ w3 ++ [0x3a] ++ w4 ++ c ++ tail) ++ [0x7d] ++ w₃ =
          (w₀ ++ [0x7b] ++ w) ++ strBytes k ++ w3 ++ [0x3a] ++ w4 ++ c ++ (tail ++ ([0x7d] ++ w₃)) := by simp
      rw [e] at hv
      exact member_valid _ k w3 w4 c _ hw3 (derives_sa hdt) (mtail_sa ht hp) hv
    · have e : w₀ ++ [0x7b] ++ (w ++ strBytes k ++ w3 ++ [0x3a] ++ w4 ++ c ++ tail) ++ [0x7d] ++ w₃ =
          (w₀ ++ [0x7b] ++ w ++ strBytes k ++ w3 ++ [0x3a] ++ w4 ++ c) ++ tail ++ ([0x7d] ++ w₃) := by simp
      rw [e] at hv
      exact mtail_valid ht _ _ hp (fun m' h' => hd m' (by simp [h'])) hv m hm

/-- a key: well-formed literal, paired escapes, decoding to `s` — the part of `KeyOK` that is not about UTF-8 -/
def KeyLit (items : List StrItem) (s : Bytes) : Prop :=
  StrWF items = true ∧ decodeItems items = some s ∧ surrogatesPairedStr items = true

theorem keyLit_of_ok {env : SJ.Model.Typed.Env} {items : List StrItem} {s : Bytes} (h : KeyOK env items s) : KeyLit items s :=
  ⟨h.wf, h.dec, h.sur⟩

/-- the decoded key of a well-formed key literal is well-formed -/
theorem keyOK_of_valid (env : SJ.Model.Typed.Env) {items : List StrItem} {s : Bytes} (h : KeyLit items s)
    (hv : env.src ≠ .str → validUtf8 (strBytes items) = true) : KeyOK env items s := by
  refine ⟨h.1, h.2.1, h.2.2, fun hs => ?_⟩
  obtain ⟨s', hdec, hs'⟩ := decodeItems_utf8 items h.1 h.2.2 (hv hs)
  rw [h.2.1] at hdec
  cases hdec
  exact hs'

end SJ.Proofs.C19Utf8
