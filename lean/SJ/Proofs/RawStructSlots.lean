import SJ.Proofs.RawStruct
/-!
# C19 helper lemmas: which member a struct field is taken from

`assign` (derive's `visit_map` as a fold over the members) followed by `finishSlots` (`missing_field`), read field by
field: field `i` is taken from THE member whose key selects it (`nameIndex (names fs) key = some i`: the first field of
that name) — there is exactly one such member, or none and the field is an `Option` and `None`.
-/
namespace SJ.Proofs.RawStruct
open SJ SJ.Gen SJ.Model.Typed
open SJ.Model.FromValue (nameIndex)
open SJ.Model.RawStruct SJ.Proofs.RawMap

/-- the field a member's key selects -/
def idxOf (fs : List (Bytes × FieldTy)) (m : Mem) : Option Nat := nameIndex (names fs) m.2.1

/-- the value a field of type `ty` takes from a member whose value text is `c` -/
def fieldVal : FieldTy → Bytes → Option TVal
  | .raw, c => some (.str c)
  | .optRaw, c => some (optVal c)
  | .typed _, _ => none

theorem getD_set_self {α : Type} (l : List α) (i : Nat) (a d : α) (h : i < l.length) : (l.set i a).getD i d = a := by
  simp [List.getD_eq_getElem?_getD, h]

theorem getD_set_ne {α : Type} (l : List α) (i j : Nat) (a d : α) (h : i ≠ j) : (l.set i a).getD j d = l.getD j d := by
  simp [List.getD_eq_getElem?_getD, h]

theorem assign1_spec (fs : List (Bytes × FieldTy)) (deny : Bool) (slots slots' : List (Option TVal)) (m : Mem)
    (h : assign1 fs deny slots m = some slots') :
    (∃ i f v, idxOf fs m = some i ∧ slots.getD i none = none ∧ fs[i]? = some f ∧ fieldVal f.2 m.2.2 = some v ∧
      slots' = slots.set i (some v)) ∨ (idxOf fs m = none ∧ slots' = slots) := by
  unfold assign1 at h
  unfold idxOf
  cases hni : nameIndex (names fs) m.2.1 with
  | none =>
    rw [hni] at h
    simp only at h
    split at h
    · cases h
    · simp only [Option.some.injEq] at h; exact .inr ⟨rfl, h.symm⟩
  | some i =>
    rw [hni] at h
    simp only at h
    cases hsl : slots.getD i none with
    | some _ => rw [hsl] at h; cases h
    | none =>
      rw [hsl] at h
      simp only at h
      cases hfi : fs[i]? with
      | none => rw [hfi] at h; cases h
      | some f =>
        obtain ⟨fname, ty⟩ := f
        rw [hfi] at h
        cases ty with
        | raw => simp only [Option.some.injEq] at h; exact .inl ⟨i, (fname, .raw), _, rfl, hsl, hfi, rfl, h.symm⟩
        | optRaw => simp only [Option.some.injEq] at h; exact .inl ⟨i, (fname, .optRaw), _, rfl, hsl, hfi, rfl, h.symm⟩
        | typed s => cases h

/-- `assign`, slot by slot -/
theorem assign_slot (fs : List (Bytes × FieldTy)) (deny : Bool) : ∀ (ms : List Mem) (slots out : List (Option TVal)),
    slots.length = fs.length → assign fs deny ms slots = some out →
    out.length = fs.length ∧ ∀ i, i < fs.length →
      ((∀ m ∈ ms, idxOf fs m ≠ some i) ∧ out.getD i none = slots.getD i none) ∨
      (∃ pre m post f v, ms = pre ++ m :: post ∧ idxOf fs m = some i ∧ (∀ m' ∈ pre ++ post, idxOf fs m' ≠ some i) ∧
        slots.getD i none = none ∧ fs[i]? = some f ∧ fieldVal f.2 m.2.2 = some v ∧ out.getD i none = some v)
  | [], slots, out, hl, h => by
    simp only [assign, Option.some.injEq] at h
    subst h
    exact ⟨hl, fun i _ => .inl ⟨by simp, rfl⟩⟩
  | m :: ms, slots, out, hl, h => by
    simp only [assign] at h
    cases h1 : assign1 fs deny slots m with
    | none => rw [h1] at h; cases h
    | some slots' =>
      rw [h1] at h
      simp only [Option.bind] at h
      rcases assign1_spec fs deny slots slots' m h1 with ⟨j, f, v, hj, hsj, hfj, hv, hs'⟩ | ⟨hj, hs'⟩
      · subst hs'
        have hjl : j < slots.length := by
          rw [hl]
          have := SJ.Proofs.Typed.nameIndex_lt _ _ _ hj
          simpa [names] using this
        obtain ⟨hol, ih⟩ := assign_slot fs deny ms (slots.set j (some v)) out (by simpa using hl) h
        refine ⟨hol, fun i hi => ?_⟩
        by_cases hij : j = i
        · subst hij
          rcases ih j hi with ⟨hno, ho⟩ | ⟨pre, m', post, f', v', _, _, _, hs', _⟩
          · rw [getD_set_self _ _ _ _ hjl] at ho
            exact .inr ⟨[], m, ms, f, v, rfl, hj, by simpa using hno, hsj, hfj, hv, ho⟩
          · rw [getD_set_self _ _ _ _ hjl] at hs'; cases hs'
        · rcases ih i hi with ⟨hno, ho⟩ | ⟨pre, m', post, f', v', hms, hi', hno, hs', hf', hv', ho⟩
          · rw [getD_set_ne _ _ _ _ _ hij] at ho
            refine .inl ⟨fun m' hm' => ?_, ho⟩
            simp only [List.mem_cons] at hm'
            rcases hm' with rfl | hm'
            · rw [hj]; intro hc; cases hc; exact hij rfl
            · exact hno m' hm'
          · rw [getD_set_ne _ _ _ _ _ hij] at hs'
            refine .inr ⟨m :: pre, m', post, f', v', by rw [hms]; rfl, hi', fun m'' hm'' => ?_, hs', hf', hv', ho⟩
            simp only [List.cons_append, List.mem_cons] at hm''
            rcases hm'' with rfl | hm''
            · rw [hj]; intro hc; cases hc; exact hij rfl
            · exact hno m'' hm''
      · subst hs'
        obtain ⟨hol, ih⟩ := assign_slot fs deny ms slots' out hl h
        refine ⟨hol, fun i hi => ?_⟩
        rcases ih i hi with ⟨hno, ho⟩ | ⟨pre, m', post, f', v', hms, hi', hno, hs', hf', hv', ho⟩
        · refine .inl ⟨fun m' hm' => ?_, ho⟩
          simp only [List.mem_cons] at hm'
          rcases hm' with rfl | hm'
          · rw [hj]; intro hc; cases hc
          · exact hno m' hm'
        · refine .inr ⟨m :: pre, m', post, f', v', by rw [hms]; rfl, hi', fun m'' hm'' => ?_, hs', hf', hv', ho⟩
          simp only [List.cons_append, List.mem_cons] at hm''
          rcases hm'' with rfl | hm''
          · rw [hj]; intro hc; cases hc
          · exact hno m'' hm''

/-- `finishSlots`, field by field: a filled slot is the field's value; an empty one must belong to an `Option` field -/
theorem finishSlots_get : ∀ (fs : List (Bytes × FieldTy)) (slots : List (Option TVal)) (vs : List TVal), RawOnly fs →
    finishSlots fs slots = .ok vs →
    vs.length = fs.length ∧ ∀ (i : Nat) (f : Bytes × FieldTy), fs[i]? = some f →
      (∀ v, slots.getD i none = some v → vs[i]? = some v) ∧
      (slots.getD i none = none → f.2 = .optRaw ∧ vs[i]? = some .none)
  | [], slots, vs, _, h => by
    simp only [finishSlots, Except.ok.injEq] at h
    subst h
    exact ⟨rfl, fun i f hf => by simp at hf⟩
  | (n, ty) :: fs, slots, vs, hfs, h => by
    have h0 : slots.getD 0 none = slots.headD none := by cases slots <;> rfl
    have tailstep : ∀ (v0 : TVal),
        (match finishSlots fs slots.tail with
          | .error e => (Except.error e : Except Unit (List TVal))
          | .ok vs => .ok (v0 :: vs)) = .ok vs →
        (∀ v, slots.getD 0 none = some v → v0 = v) → (slots.getD 0 none = none → ty = .optRaw ∧ v0 = .none) →
        vs.length = ((n, ty) :: fs).length ∧ ∀ (i : Nat) (f : Bytes × FieldTy), ((n, ty) :: fs)[i]? = some f →
          (∀ v, slots.getD i none = some v → vs[i]? = some v) ∧
          (slots.getD i none = none → f.2 = .optRaw ∧ vs[i]? = some .none) := by
      intro v0 h k1 k2
      cases htl : finishSlots fs slots.tail with
      | error e => rw [htl] at h; cases h
      | ok vs' =>
        rw [htl] at h
        simp only [Except.ok.injEq] at h
        subst h
        obtain ⟨hl, ih⟩ := finishSlots_get fs slots.tail vs' (fun f hf => hfs f (by simp [hf])) htl
        refine ⟨by simp [hl], fun i f hf => ?_⟩
        cases i with
        | zero =>
          simp only [List.getElem?_cons_zero, Option.some.injEq] at hf
          subst hf
          exact ⟨fun v hv => by simp [k1 v hv], fun hnone => ⟨(k2 hnone).1, by simp [(k2 hnone).2]⟩⟩
        | succ j =>
          simp only [List.getElem?_cons_succ] at hf
          have hj : slots.getD (j + 1) none = slots.tail.getD j none := by cases slots <;> simp [List.getD]
          obtain ⟨h1, h2⟩ := ih j f hf
          rw [hj]
          simp only [List.getElem?_cons_succ]
          exact ⟨h1, h2⟩
    simp only [finishSlots] at h
    cases hh : slots.headD none with
    | some v1 =>
      rw [hh] at h
      simp only at h
      exact tailstep v1 h (fun v hv => by rw [h0, hh] at hv; cases hv; rfl) (fun hc => by rw [h0, hh] at hc; cases hc)
    | none =>
      rw [hh] at h
      simp only at h
      rcases hfs (n, ty) (by simp) with hty | hty
      · simp only at hty; subst hty; simp [missing, SJ.Model.FromValue.fail] at h
      · simp only at hty; subst hty
        simp only [missing] at h
        exact tailstep .none h (fun v hv => by rw [h0, hh] at hv; cases hv) (fun _ => ⟨rfl, rfl⟩)

end SJ.Proofs.RawStruct
