import SJ.Proofs.Utf8Value
import SJ.Proofs.TypedBasic
/-!
# Every value the machine builds from a byte source holds valid UTF-8 only (state invariant)

`SV s`: every value and every key stored in the state `s` (a finished value, the value of a literal in
progress, the elements / members / pending key of every open frame) satisfies `JV.stringsValid`. For the
`Value` target on a byte source (`as_str` checks every decoded string at its closing quote: `endStr`) the
invariant is preserved by every step, from ANY start state that satisfies it — in particular from the
string state `parse_str` starts in and from a stack of padding frames (`Model.Typed.runPfx`). Unlike
`Proofs/Utf8Value.lean` (through soundness and the grammar) this is a direct invariant, so it applies to
the sub-parser runs of the typed deserializer.
-/
namespace SJ.Proofs.TypedUtf8
open SJ SJ.Gen SJ.Model.Machine SJ.Proofs.Utf8
open SJ.Spec.Utf8 (validUtf8)

def FrameSV : Frame → Prop
  | .arr es => JV.stringsValidList es = true
  | .obj ms k => JV.stringsValidMembers ms = true ∧ validUtf8 k = true

def ModeSV : Mode → Prop
  | .lit _ v => v.stringsValid = true
  | .done v => v.stringsValid = true
  | _ => True

def SV (s : St) : Prop := ModeSV s.mode ∧ ∀ f ∈ s.stack, FrameSV f

def StepSV : Step → Prop
  | .next s => SV s
  | .again s => SV s
  | .err _ _ => True

theorem sv_complete {fs : List Frame} {v : JV} (hfs : ∀ f ∈ fs, FrameSV f) (hv : v.stringsValid = true) :
    SV (complete fs v) := by
  unfold complete
  split
  · exact ⟨hv, by simp⟩
  · rename_i es fs'
    refine ⟨trivial, fun f hf => ?_⟩
    simp only [List.mem_cons] at hf
    rcases hf with rfl | hf
    · have := hfs (.arr es) (by simp)
      simp only [FrameSV, JV.stringsValidList, Bool.and_eq_true] at this ⊢
      exact ⟨hv, this⟩
    · exact hfs f (by simp [hf])
  · rename_i ms k fs'
    refine ⟨trivial, fun f hf => ?_⟩
    simp only [List.mem_cons] at hf
    rcases hf with rfl | hf
    · have := hfs (.obj ms k) (by simp)
      simp only [FrameSV, JV.stringsValidMembers, Bool.and_eq_true] at this ⊢
      exact ⟨⟨⟨this.2, hv⟩, this.1⟩, this.2⟩
    · exact hfs f (by simp [hf])

theorem validList_reverse (es : List JV) (h : JV.stringsValidList es = true) :
    JV.stringsValidList es.reverse = true := by
  rw [stringsValidList_iff] at h ⊢
  intro e he
  exact h e (by simpa using he)

theorem mem_btInsert (k : Bytes) (v : JV) (l : List (Bytes × JV)) (e : Bytes × JV) (h : e ∈ btInsert k v l) :
    e = (k, v) ∨ e ∈ l := by
  induction l with
  | nil => simp [btInsert] at h; exact Or.inl h
  | cons x r ih =>
    obtain ⟨k', v'⟩ := x
    simp only [btInsert] at h
    split at h
    · simp only [List.mem_cons] at h
      rcases h with h | h
      · exact Or.inl h
      · exact Or.inr (by simp [h])
    · split at h
      · simp only [List.mem_cons] at h
        rcases h with h | h | h
        · exact Or.inl h
        · exact Or.inr (by simp [h])
        · exact Or.inr (by simp [h])
      · simp only [List.mem_cons] at h
        rcases h with h | h
        · exact Or.inr (by simp [h])
        · rcases ih h with h | h
          · exact Or.inl h
          · exact Or.inr (by simp [h])

theorem mem_ixInsert (k : Bytes) (v : JV) (l : List (Bytes × JV)) (e : Bytes × JV) (h : e ∈ ixInsert k v l) :
    e = (k, v) ∨ e ∈ l := by
  induction l with
  | nil => simp [ixInsert] at h; exact Or.inl h
  | cons x r ih =>
    obtain ⟨k', v'⟩ := x
    simp only [ixInsert] at h
    split at h
    · rename_i hk
      simp only [List.mem_cons] at h
      rcases h with h | h
      · exact Or.inl (by rw [h, hk])
      · exact Or.inr (by simp [h])
    · simp only [List.mem_cons] at h
      rcases h with h | h
      · exact Or.inr (by simp [h])
      · rcases ih h with h | h
        · exact Or.inl h
        · exact Or.inr (by simp [h])

theorem mkObj_valid (cfg : Cfg) (ms : List (Bytes × JV))
    (h : ∀ e ∈ ms, validUtf8 e.1 = true ∧ JV.stringsValid e.2 = true) : (mkObj cfg ms).stringsValid = true := by
  unfold mkObj
  simp only [JV.stringsValid]
  rw [stringsValidMembers_iff]
  have key : ∀ (ms acc : List (Bytes × JV)),
      (∀ e ∈ ms, validUtf8 e.1 = true ∧ JV.stringsValid e.2 = true) →
      (∀ e ∈ acc, validUtf8 e.1 = true ∧ JV.stringsValid e.2 = true) →
      ∀ e ∈ ms.foldl (fun m kv => if cfg.po then ixInsert kv.1 kv.2 m else btInsert kv.1 kv.2 m) acc,
        validUtf8 e.1 = true ∧ JV.stringsValid e.2 = true := by
    intro ms
    induction ms with
    | nil => intro acc _ hacc e he; exact hacc e he
    | cons x r ih =>
      intro acc hms hacc e he
      simp only [List.foldl_cons] at he
      refine ih _ (fun e' he' => hms e' (by simp [he'])) ?_ e he
      intro e' he'
      split at he'
      · rcases mem_ixInsert _ _ _ _ he' with rfl | h'
        · exact hms x (by simp)
        · exact hacc e' h'
      · rcases mem_btInsert _ _ _ _ he' with rfl | h'
        · exact hms x (by simp)
        · exact hacc e' h'
  exact key ms [] h (by simp)

theorem closeArr_sv (env : Env) (s : St) (h : SV s) : StepSV (closeArr env s) := by
  unfold closeArr
  split
  · rename_i es fs hst
    have hfs : ∀ f ∈ fs, FrameSV f := fun f hf => h.2 f (by rw [hst]; simp [hf])
    have hes : FrameSV (.arr es) := h.2 _ (by rw [hst]; simp)
    refine sv_complete hfs ?_
    split
    · exact validList_reverse es hes
    · rfl
  · trivial

theorem closeObj_sv (env : Env) (s : St) (h : SV s) : StepSV (closeObj env s) := by
  unfold closeObj
  split
  · rename_i ms k fs hst
    have hfs : ∀ f ∈ fs, FrameSV f := fun f hf => h.2 f (by rw [hst]; simp [hf])
    have hms : FrameSV (.obj ms k) := h.2 _ (by rw [hst]; simp)
    refine sv_complete hfs ?_
    split
    · refine mkObj_valid _ _ (fun e he => ?_)
      exact (stringsValidMembers_iff ms).mp hms.1 e (by simpa using he)
    · rfl
  · trivial

theorem startValue_sv (env : Env) (s : St) (b : UInt8) (h : SV s) : StepSV (startValue env s b) := by
  unfold startValue
  repeat' split
  all_goals first
    | trivial
    | exact ⟨trivial, h.2⟩
    | exact ⟨rfl, h.2⟩
    | (refine ⟨trivial, fun f hf => ?_⟩
       simp only [List.mem_cons] at hf
       rcases hf with rfl | hf
       · first | rfl | exact ⟨rfl, rfl⟩
       · exact h.2 f hf)

theorem numValue_valid (env : Env) (n : NumSt) (v : JV) (h : numValue env n = .ok v) : v.stringsValid = true := by
  unfold numValue at h
  simp only at h
  split at h
  · cases h; rfl
  · split at h <;> first | (cases h; rfl) | cases h

theorem endNumber_sv (env : Env) (s : St) (n : NumSt) (s' : St) (h : SV s) (he : endNumber env s n = .ok s') : SV s' := by
  unfold endNumber at he
  split at he
  · split at he
    · rename_i v hv
      cases he
      exact sv_complete h.2 (numValue_valid env n v hv)
    · cases he
  · cases he
    exact sv_complete h.2 rfl

theorem stepNum_sv (env : Env) (s : St) (n : NumSt) (b : UInt8) (h : SV s) : StepSV (stepNum env s n b) := by
  have hfin : StepSV (match endNumber env s n with | .ok s' => .again s' | .error (c, a) => .err c a) := by
    cases he : endNumber env s n with
    | ok s' => exact endNumber_sv env s n s' h he
    | error e => obtain ⟨c, a⟩ := e; trivial
  cases hp : n.phase <;> simp only [stepNum, hp]
  all_goals
    repeat' split
    all_goals first
      | trivial
      | exact ⟨trivial, h.2⟩
      | exact hfin
      | (simp only [*] at hfin; exact hfin)

/-- the closing quote: on a byte source the decoded text is checked before it becomes a key or a value -/
theorem endStr_sv (env : Env) (hv : env.tgt = .value) (hsrc : env.src ≠ .str) (s : St) (st : StrSt) (h : SV s) :
    StepSV (endStr env s st) := by
  unfold endStr
  simp only
  split
  · trivial
  · rename_i hchk
    have hvalid : validUtf8 st.out.reverse = true := by
      cases hb : validUtf8 st.out.reverse with
      | true => rfl
      | false =>
        exfalso; apply hchk
        have : (env.src != .str) = true := by
          cases hs : env.src <;> first | exact absurd hs hsrc | rfl
        simp [hv, this, hb]
    split
    · split
      · rename_i ms k fs hst
        refine ⟨trivial, fun f hf => ?_⟩
        simp only [List.mem_cons] at hf
        rcases hf with rfl | hf
        · exact ⟨(h.2 (.obj ms k) (by rw [hst]; simp)).1, hvalid⟩
        · exact h.2 f (by rw [hst]; simp [hf])
      · trivial
    · refine sv_complete h.2 ?_
      first
        | exact hvalid
        | (split
           · exact hvalid
           · rfl)

theorem stepStr_sv (env : Env) (hv : env.tgt = .value) (hsrc : env.src ≠ .str) (s : St) (st : StrSt) (b : UInt8)
    (h : SV s) : StepSV (stepStr env s st b) := by
  have hend := endStr_sv env hv hsrc s st h
  unfold stepStr
  simp only
  repeat' split
  all_goals first
    | trivial
    | exact hend
    | exact ⟨trivial, h.2⟩

theorem step1_sv (env : Env) (hv : env.tgt = .value) (hsrc : env.src ≠ .str) (s : St) (b : UInt8) (h : SV s) :
    StepSV (step1 env s b) := by
  have hca := closeArr_sv env s h
  have hco := closeObj_sv env s h
  have hsv := startValue_sv env s b h
  unfold step1
  split
  · repeat' split
    all_goals first
      | trivial
      | exact hca
      | exact hsv
      | exact ⟨by simp_all [ModeSV], h.2⟩
  · rename_i rest v hm
    have hvv : v.stringsValid = true := by have := h.1; rw [hm] at this; exact this
    repeat' split
    all_goals first
      | trivial
      | exact sv_complete h.2 hvv
      | exact ⟨hvv, h.2⟩
  · exact stepNum_sv env s _ b h
  · exact stepStr_sv env hv hsrc s _ b h
  all_goals
    repeat' split
    all_goals first
      | trivial
      | exact hca
      | exact hco
      | exact ⟨trivial, h.2⟩
      | exact ⟨by simp_all [ModeSV], h.2⟩

open SJ.Model.Typed in
theorem completed_valid (t : Nat) (s : St) (v : JV) (h : SV s) (hc : completed t s = some v) :
    v.stringsValid = true := by
  unfold completed at hc
  split at hc
  · rename_i v' hm
    cases hc
    have := h.1; rw [hm] at this; exact this
  · split at hc
    · split at hc
      · rename_i v' es fs hst
        cases hc
        have := h.2 (.arr (v :: es)) (by rw [hst]; simp)
        simp only [FrameSV, JV.stringsValidList, Bool.and_eq_true] at this
        exact this.1
      · cases hc
    · cases hc
  · cases hc

theorem finishMode_valid (env : Env) (s : St) (v : JV) (h : SV s) (hf : finishMode env s = .ok v) :
    v.stringsValid = true := by
  unfold finishMode at hf
  split at hf
  all_goals first
    | (cases hf; done)
    | (rename_i v' hm; cases hf; have := h.1; rw [hm] at this; exact this)
    | (split at hf <;> cases hf)

open SJ.Model.Typed in
theorem finishT_valid (env : SJ.Model.Machine.Env) (t : Nat) (s : St) (v : JV) (h : SV s) (hf : finishT env t s = .ok v) :
    v.stringsValid = true := by
  unfold finishT at hf
  split at hf
  · rename_i n hm
    split at hf
    all_goals first
      | (cases hf; done)
      | (split at hf
         · rename_i s' he
           have hs' := endNumber_sv env s n s' h he
           split at hf
           · rename_i v' hc; cases hf; exact completed_valid t s' _ hs' hc
           · exact finishMode_valid env s' v hs' hf
         · cases hf)
  · exact finishMode_valid env s v h hf

open SJ.Model.Typed in
/-- **the machine as a sub-parser**: from a state satisfying `SV`, on a byte source, the value it returns
    holds valid UTF-8 only -/
theorem runPfx_valid (env : SJ.Model.Machine.Env) (hv : env.tgt = Tgt.value) (hsrc : env.src ≠ Src.str) (flt : Bool) (t : Nat) (bs : Bytes) :
    ∀ (s : St) (i : Nat) (v : JV) (e : Nat), SV s → runPfx env flt t s i bs = .ok v e → v.stringsValid = true := by
  induction bs with
  | nil =>
    intro s i v e h hr
    unfold runPfx at hr
    split at hr
    · cases hr
    · split at hr
      · rename_i v' hf; cases hr; exact finishT_valid env t s _ h hf
      · cases hr
  | cons b bs ih =>
    intro s i v e h hr
    have h1 := step1_sv env hv hsrc s b h
    unfold runPfx at hr
    split at hr
    · cases hr
    · rename_i s' hs'
      rw [hs'] at h1
      split at hr
      · rename_i v' hc; cases hr; exact completed_valid t s' _ h1 hc
      · exact ih _ _ _ _ h1 hr
    · rename_i s' hs'
      rw [hs'] at h1
      split at hr
      · rename_i v' hc; cases hr; exact completed_valid t s' _ h1 hc
      · have h2 := step1_sv env hv hsrc s' b h1
        split at hr
        · cases hr
        · rename_i s'' hs''
          rw [hs''] at h2
          split at hr
          · rename_i v' hc; cases hr; exact completed_valid t s'' _ h2 hc
          · exact ih _ _ _ _ h2 hr
        · cases hr

theorem sv_str : SV { mode := .str {} } := ⟨trivial, by simp⟩
theorem sv_init : SV init := ⟨trivial, by simp [init]⟩

open SJ.Model.Typed in
theorem sv_pad (t : Nat) : SV { mode := .val .top, stack := padStack t } := by
  refine ⟨trivial, fun f hf => ?_⟩
  simp only [padStack, List.mem_replicate] at hf
  rw [hf.2]; rfl

end SJ.Proofs.TypedUtf8
