import SJ.Model.MachineAp
import SJ.Proofs.Sound.Num
import SJ.Proofs.Complete.Num
/-!
# `Number::from_str` (model `MachineAp.fromStr`) accepts exactly the RFC 8259 number literals

`fromStr_ok_iff : fromStr txt = .ok () ↔ IsNumber txt`. Both directions reuse the number lemmas of C01 / C02 (the scanner
is the machine's `stepNum`): soundness through the scanner invariant `NumInv`, completeness through `scan_num`.
-/
namespace SJ.Proofs.MachineAp
open SJ SJ.Gen SJ.Model.Machine SJ.Proofs.Sound SJ.Proofs.Complete
open SJ.Spec.Grammar (NumParts IsNumber isInt isFrac isExp isDigit19)
open SJ.Model.MachineAp (fromStr fromStrLoop numEnv consumedSite)

/-! ## soundness -/

theorem fromStrLoop_sound : ∀ (bs : Bytes) (n : NumSt) (i : Nat), NumInv n → fromStrLoop n i bs = .ok () →
    ∃ p : NumParts, p.WF = true ∧ p.bytes = n.raw.reverse ++ bs
  | [], n, i, hi, h => by
    have hf : FinalPhase n.phase := by
      unfold fromStrLoop at h
      cases hph : n.phase <;> simp [hph] at h <;> trivial
    obtain ⟨p, hwf, hb, _⟩ := numInv_final n hi hf
    exact ⟨p, hwf, by simpa using hb⟩
  | b :: bs, n, i, hi, h => by
    unfold fromStrLoop at h
    cases hs : stepNum numEnv { mode := .num n, stack := [] } n b with
    | next s' =>
      obtain ⟨n', rfl, hraw, hi'⟩ := stepNum_next numEnv _ n b s' hi hs
      rw [hs] at h
      simp only at h
      obtain ⟨p, hwf, hb⟩ := fromStrLoop_sound bs n' (i + 1) hi' h
      exact ⟨p, hwf, by rw [hb, hraw]; simp⟩
    | again s' => rw [hs] at h; simp at h
    | err c a => rw [hs] at h; simp only at h; split at h <;> simp at h

theorem digit19_of (b : UInt8) (hd : isDigit b = true) (hz : (b == 0x30) = false) : isDigit19 b = true := by
  simp only [beq_eq_false_iff_ne, ne_eq, ← UInt8.toNat_inj] at hz
  simp only [isDigit, isDigit19, Bool.and_eq_true, decide_eq_true_eq, UInt8.le_iff_toNat_le] at hd ⊢
  simp at hd hz ⊢
  omega

theorem step_done (env : Env) (v : JV) (fs : List Frame) (b : UInt8) (s1 : St)
    (h : step env ⟨.done v, fs⟩ b = .ok s1) : s1 = ⟨.done v, fs⟩ := by
  by_cases hw : isWs b = true
  · simp [step, step1, hw] at h; exact h.symm
  · simp [step, step1, hw] at h

/-- the scanner state after the first byte of a literal -/
theorem start_numInv (b : UInt8) (hb : (b == 0x2d || isDigit b) = true) :
    ∃ n, startValue numEnv { mode := .val .top, stack := [] } b = .next { mode := .num n, stack := [] } ∧
      n.raw = [b] ∧ NumInv n := by
  by_cases h1 : (b == 0x2d) = true
  · have hb' : b = 0x2d := by simpa using h1
    subst hb'
    refine ⟨{ phase := .afterMinus, neg := true, raw := [0x2d] }, rfl, rfl, [], rfl, ?_⟩
    simp [PhaseInv, NoFrac, NoExp]
  · have hd : isDigit b = true := by simpa [h1] using hb
    by_cases h2 : (b == 0x30) = true
    · have hb' : b = 0x30 := by simpa using h2
      subst hb'
      refine ⟨{ phase := .zero, int := [0x30], raw := [0x30] }, rfl, rfl, [], rfl, ?_⟩
      simp [PhaseInv, NoFrac, NoExp]
    · have h2' : (b == 0x30) = false := by simpa using h2
      refine ⟨{ phase := .int, int := [b], raw := [b] }, ?_, rfl, [], ?_, ?_⟩
      · unfold startValue
        simp only [digit_ne b 0x6e hd (by decide), digit_ne b 0x74 hd (by decide),
          digit_ne b 0x66 hd (by decide), digit_ne b 0x2d hd (by decide), h2', hd]
        rfl
      · simp [numParts, NumParts.bytes]
      · simp only [PhaseInv, NoFrac, NoExp, and_true]
        exact ⟨b, [], rfl, digit19_of b hd h2', rfl⟩

theorem fromStr_sound (txt : Bytes) (h : fromStr txt = .ok ()) : IsNumber txt := by
  unfold fromStr at h
  cases txt with
  | nil => simp at h
  | cons b bs =>
    simp only at h
    split at h
    · rename_i hb
      obtain ⟨n, hs, hraw, hi⟩ := start_numInv b hb
      rw [hs] at h
      simp only at h
      obtain ⟨p, hwf, hp⟩ := fromStrLoop_sound bs n 1 hi h
      exact ⟨p, hwf, by rw [hp, hraw]; rfl⟩
    · simp at h

/-! ## completeness -/

theorem feeds_done (env : Env) : ∀ (bs : Bytes) (v : JV) (s' : St), Feeds env ⟨.done v, []⟩ bs s' → s' = ⟨.done v, []⟩
  | [], v, s', h => by simpa [Feeds, feedS] using h.symm
  | b :: bs, v, s', h => by
    unfold Feeds at h
    simp only [feedS] at h
    cases hs : step env ⟨.done v, []⟩ b with
    | error e => rw [hs] at h; cases h
    | ok s1 =>
      rw [hs] at h
      have : s1 = ⟨.done v, []⟩ := step_done env v [] b s1 hs
      subst this
      exact feeds_done env bs v s' h

/-- a successful number step stays in a number state on the same stack (no invariant needed) -/
theorem stepNum_next_shape (env : Env) (s : St) (n : NumSt) (b : UInt8) (s' : St)
    (h : stepNum env s n b = .next s') : ∃ n', s' = { s with mode := .num n' } := by
  unfold stepNum at h
  simp only at h
  repeat' split at h
  all_goals first | (cases h; done) | exact ⟨_, (Step.next.inj h).symm⟩

theorem endNumber_done (env : Env) (n : NumSt) (s' : St) (h : endNumber env ⟨.num n, []⟩ n = .ok s') :
    ∃ v, s' = ⟨.done v, []⟩ := by
  unfold endNumber at h
  simp only at h
  split at h
  · split at h
    · simp only [Except.ok.injEq] at h; exact ⟨_, h.symm⟩
    · cases h
  · simp only [Except.ok.injEq] at h; exact ⟨_, h.symm⟩

theorem fromStrLoop_complete : ∀ (bs : Bytes) (n n' : NumSt) (i : Nat),
    Feeds numEnv ⟨.num n, []⟩ bs ⟨.num n', []⟩ → GoodPhase n'.phase → fromStrLoop n i bs = .ok ()
  | [], n, n', i, h, hg => by
    have : n = n' := by simpa [Feeds, feedS] using h
    subst this
    unfold fromStrLoop
    cases hph : n.phase <;> simp [hph, GoodPhase] at hg ⊢
  | b :: bs, n, n', i, h, hg => by
    unfold Feeds at h
    simp only [feedS] at h
    cases hs : step numEnv ⟨.num n, []⟩ b with
    | error e => rw [hs] at h; cases h
    | ok s1 =>
      rw [hs] at h
      unfold fromStrLoop
      cases hn : stepNum numEnv ⟨.num n, []⟩ n b with
      | next s' =>
        have hstep : step numEnv ⟨.num n, []⟩ b = .ok s' := by simp [step, step1, hn]
        rw [hstep] at hs
        simp only [Except.ok.injEq] at hs
        subst hs
        obtain ⟨n1, rfl⟩ := stepNum_next_shape numEnv _ n b s' hn
        simp only
        exact fromStrLoop_complete bs n1 n' (i + 1) h hg
      | err c a =>
        have hstep : step numEnv ⟨.num n, []⟩ b = .error (c, a) := by simp [step, step1, hn]
        rw [hstep] at hs; cases hs
      | again s' =>
        exfalso
        obtain ⟨hen, _⟩ := stepNum_again numEnv _ n b s' hn
        obtain ⟨v, rfl⟩ := endNumber_done numEnv n s' hen
        have h1 : s1 = ⟨.done v, []⟩ := by
          by_cases hw : isWs b = true
          · have : step numEnv ⟨.num n, []⟩ b = .ok ⟨.done v, []⟩ := by simp [step, step1, hn, hw]
            rw [this] at hs; simpa using hs.symm
          · have : step numEnv ⟨.num n, []⟩ b = .error (.TrailingCharacters, .incl) := by simp [step, step1, hn, hw]
            rw [this] at hs; cases hs
        subst h1
        have := feeds_done numEnv bs v _ h
        cases this

theorem digit_of_19 (d : UInt8) (h : isDigit19 d = true) : isDigit d = true := by
  simp only [isDigit, isDigit19, Bool.and_eq_true, decide_eq_true_eq, UInt8.le_iff_toNat_le] at h ⊢
  simp at h ⊢
  omega

theorem first_byte (p : NumParts) (hwf : p.WF = true) :
    ∃ b bs, p.bytes = b :: bs ∧ (b == 0x2d || isDigit b) = true := by
  obtain ⟨minus, int, frac, exp⟩ := p
  simp only [NumParts.WF, Bool.and_eq_true] at hwf
  obtain ⟨⟨hi, _⟩, _⟩ := hwf
  cases minus with
  | true => exact ⟨0x2d, int ++ frac ++ exp, by simp [NumParts.bytes], by decide⟩
  | false =>
    cases int with
    | nil => simp [isInt] at hi
    | cons d ds =>
      refine ⟨d, ds ++ frac ++ exp, by simp [NumParts.bytes], ?_⟩
      have hd : isDigit d = true := by
        cases ds with
        | nil => rw [← gdigit_eq]; simpa [isInt] using hi
        | cons e es =>
          simp only [isInt, Bool.and_eq_true] at hi
          exact digit_of_19 d hi.1
      simp [hd]

theorem fromStr_complete (txt : Bytes) (h : IsNumber txt) : fromStr txt = .ok () := by
  obtain ⟨p, hwf, rfl⟩ := h
  obtain ⟨n', hfeeds, hg, _⟩ := scan_num numEnv .top [] p hwf (fun _ _ _ hap => by simp [numEnv] at hap)
  obtain ⟨b, bs, hbs, hb⟩ := first_byte p hwf
  rw [hbs] at hfeeds ⊢
  unfold fromStr
  simp only [hb, if_true]
  obtain ⟨n, hs, _, _⟩ := start_numInv b hb
  rw [hs]
  simp only
  unfold Feeds at hfeeds
  simp only [feedS] at hfeeds
  have hnw : isWs b = false := by
    rcases Bool.or_eq_true _ _ ▸ hb with h1 | h1
    · have : b = 0x2d := by simpa using h1
      subst this; decide
    · exact digit_not_ws b h1
  have hstep : step numEnv ⟨.val .top, []⟩ b = .ok ⟨.num n, []⟩ := by
    have h5d : (b == 0x5d) = false := by
      rcases Bool.or_eq_true _ _ ▸ hb with h1 | h1
      · have : b = 0x2d := by simpa using h1
        subst this; decide
      · cases hx : (b == 0x5d) with
        | false => rfl
        | true => have : b = 0x5d := by simpa using hx
                  subst this; revert h1; decide
    unfold step step1
    simp only [hnw, h5d, Bool.false_and, if_false, Bool.false_eq_true]
    rw [hs]
  rw [hstep] at hfeeds
  exact fromStrLoop_complete bs n n' 1 hfeeds hg

/-- **`Number::from_str` accepts exactly the RFC 8259 number literals** (no `+`, no whitespace, no leading zeros, `1.`
    and `1e` rejected; `-0`, `1e400` accepted) -/
theorem fromStr_ok_iff (txt : Bytes) : fromStr txt = .ok () ↔ IsNumber txt :=
  ⟨fromStr_sound txt, fromStr_complete txt⟩

end SJ.Proofs.MachineAp
