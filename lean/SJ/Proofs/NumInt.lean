import SJ.Model.Num
/-!
# Integer literals: the `overflow!` guard and the u64 / i64 / float classification (C06, C02)

* `overflowMacro_spec`: the guard `a >= c/10 && (a > c/10 || b > c%10)` is `a*10 + b > c`;
* `goInt_*`: the digit loop of `parse_integer` returns the exact value iff it fits in `u64`, and
  otherwise the value of the longest prefix that fits plus the number of remaining digits;
* `convertDefault_int*`, `convertRoundtrip_int*`: a literal without fraction/exponent becomes
  `u64`/`i64` exactly when it lies in [i64::MIN, u64::MAX] (and is not `-0`), otherwise a float.
-/
namespace SJ.Proofs.NumInt
open SJ SJ.Spec.Ieee SJ.Model.Num

/-! ## the guard -/

theorem overflowMacro_spec (a b c : Nat) (hb : b < 10) :
    overflowMacro a b c = decide (a * 10 + b > c) := by
  rw [Bool.eq_iff_iff]
  simp only [overflowMacro, Bool.and_eq_true, Bool.or_eq_true, decide_eq_true_eq]
  omega

/-! ## digits -/

/-- all bytes are ASCII digits `0`..`9` -/
def IsDigits (ds : Bytes) : Prop := ∀ c ∈ ds, (0x30 : UInt8) ≤ c ∧ c ≤ 0x39

instance (ds : Bytes) : Decidable (IsDigits ds) := by unfold IsDigits; infer_instance

theorem dig_lt_10 (c : UInt8) (h : (0x30 : UInt8) ≤ c ∧ c ≤ 0x39) : dig c < 10 := by
  have h1 := UInt8.le_iff_toNat_le.1 h.1
  have h2 := UInt8.le_iff_toNat_le.1 h.2
  simp only [dig]
  change 48 ≤ c.toNat at h1
  change c.toNat ≤ 57 at h2
  omega

/-- value of a digit string continuing from accumulator `sig` -/
def val (sig : Nat) (ds : Bytes) : Nat := ds.foldl (fun a d => a * 10 + dig d) sig

theorem natOfDigits_eq_val (ds : Bytes) : natOfDigits ds = val 0 ds := rfl

theorem val_cons (sig : Nat) (c : UInt8) (cs : Bytes) : val sig (c :: cs) = val (sig * 10 + dig c) cs := by
  unfold val; rw [List.foldl_cons]

theorem val_append (sig : Nat) (a b : Bytes) : val sig (a ++ b) = val (val sig a) b := by
  simp [val, List.foldl_append]

theorem le_val (sig : Nat) (ds : Bytes) : sig ≤ val sig ds := by
  induction ds generalizing sig with
  | nil => exact Nat.le_refl _
  | cons c cs ih => rw [val_cons]; have := ih (sig * 10 + dig c); omega

/-- a longer prefix has a larger-or-equal value -/
theorem val_prefix_le (sig : Nat) (a b : Bytes) : val sig a ≤ val sig (a ++ b) := by
  rw [val_append]; exact le_val _ _

/-! ## the digit loop of `parse_integer` -/

/-- the whole string fits: the loop returns its value and no overflow marker -/
theorem goInt_fits (sig : Nat) (ds : Bytes) (hd : IsDigits ds) (h : val sig ds ≤ u64Max) :
    convertDefault.goInt sig ds = (val sig ds, none) := by
  induction ds generalizing sig with
  | nil => rfl
  | cons c cs ih =>
    have hc := dig_lt_10 c (hd c (List.mem_cons_self ..))
    have hcs : IsDigits cs := fun x hx => hd x (List.mem_cons_of_mem _ hx)
    rw [val_cons] at h ⊢
    have := le_val (sig * 10 + dig c) cs
    rw [convertDefault.goInt, overflowMacro_spec _ _ _ hc]
    have : ¬ (sig * 10 + dig c > u64Max) := by omega
    simp only [this, decide_false, Bool.false_eq_true, if_false]
    exact ih _ hcs h

/-- the string does not fit: the loop stops at the first digit `c` whose inclusion would exceed
    `u64::MAX`, returning the value of the prefix before it and the number of digits from `c` on -/
theorem goInt_overflows (sig : Nat) (ds : Bytes) (hd : IsDigits ds) (h : val sig ds > u64Max)
    (hs : sig ≤ u64Max) :
    ∃ pre c post, ds = pre ++ c :: post ∧ val sig pre ≤ u64Max ∧ val sig (pre ++ [c]) > u64Max ∧
      convertDefault.goInt sig ds = (val sig pre, some (post.length + 1)) := by
  induction ds generalizing sig with
  | nil => simp only [val, List.foldl_nil] at h; omega
  | cons c cs ih =>
    have hc := dig_lt_10 c (hd c (List.mem_cons_self ..))
    have hcs : IsDigits cs := fun x hx => hd x (List.mem_cons_of_mem _ hx)
    rw [convertDefault.goInt, overflowMacro_spec _ _ _ hc]
    by_cases hov : sig * 10 + dig c > u64Max
    · refine ⟨[], c, cs, rfl, hs, ?_, ?_⟩
      · exact hov
      · simp [hov, val]
    · obtain ⟨pre, c', post, rfl, h1, h2, h3⟩ := ih (sig * 10 + dig c) hcs h (by omega)
      refine ⟨c :: pre, c', post, rfl, h1, h2, ?_⟩
      simp only [hov, decide_false, Bool.false_eq_true, if_false, h3, val_cons]

/-- **the loop, from 0**: no overflow marker iff the value fits in `u64`, and then the value is exact -/
theorem goInt_none_iff (ds : Bytes) (hd : IsDigits ds) :
    (convertDefault.goInt 0 ds).2 = none ↔ natOfDigits ds ≤ u64Max := by
  constructor
  · intro h
    by_cases hle : natOfDigits ds ≤ u64Max
    · exact hle
    · obtain ⟨_, _, _, _, _, _, h3⟩ := goInt_overflows 0 ds hd (by rw [natOfDigits_eq_val] at hle; omega)
        (by simp [u64Max])
      rw [h3] at h; cases h
  · intro h; rw [goInt_fits 0 ds hd h]

theorem goInt_eq_of_fits (ds : Bytes) (hd : IsDigits ds) (h : natOfDigits ds ≤ u64Max) :
    convertDefault.goInt 0 ds = (natOfDigits ds, none) := goInt_fits 0 ds hd h

/-- overflow: `ds = pre ++ c :: post` with `pre` the longest prefix whose value is ≤ u64::MAX
    (every longer prefix contains `pre ++ [c]`, whose value already exceeds it; prefix values are
    monotone, `val_prefix_le`); the loop returns that value and `|c :: post|`. -/
theorem goInt_eq_of_overflows (ds : Bytes) (hd : IsDigits ds) (h : natOfDigits ds > u64Max) :
    ∃ pre c post, ds = pre ++ c :: post ∧ natOfDigits pre ≤ u64Max ∧
      natOfDigits (pre ++ [c]) > u64Max ∧
      convertDefault.goInt 0 ds = (natOfDigits pre, some (post.length + 1)) :=
  goInt_overflows 0 ds hd h (by simp [u64Max])

/-! ## `parse_integer` / `parse_number` on a literal without fraction and exponent -/

/-- never an integer -/
def NotInt (r : NRes) : Prop := (∀ n, r ≠ .u64 n) ∧ (∀ k, r ≠ .i64 k)

/-- a float or the "number out of range" error -/
def FloatOrRange (r : NRes) : Prop := (∃ b, r = .f64 b) ∨ r = .outOfRange

theorem FloatOrRange.notInt {r : NRes} (h : FloatOrRange r) : NotInt r := by
  rcases h with ⟨b, rfl⟩ | rfl <;> constructor <;> intro _ h <;> cases h

/-- `f64_from_parts` with a non-negative exponent never runs out of fuel: float or out of range -/
theorem f64FromParts_nat (positive : Bool) (sig k : Nat) :
    FloatOrRange (ofF (f64FromParts positive sig (k : Int))) := by
  unfold f64FromParts
  have hk : (k : Int) ≥ 0 := Int.natCast_nonneg k
  rw [show (k : Int).natAbs / Gen.fromPartsStep + 3 = (k / Gen.fromPartsStep + 2) + 1 by simp]
  rw [f64FromPartsLoop]
  simp only [hk, if_true]
  unfold FloatOrRange
  repeat' split
  all_goals simp_all [ofF]

/-- the value fits in `u64`: u64 if unsigned; with a minus sign i64 if 0 < n ≤ 2^63, else the float
    `-(n as f64)` (this is how `-0` becomes negative zero) -/
theorem convertDefault_fits (p : Parts) (hf : p.frac = none) (he : p.exp = none)
    (hd : IsDigits p.int) (h : natOfDigits p.int ≤ u64Max) :
    convertDefault p =
      if p.neg = false then .u64 (natOfDigits p.int)
      else if natOfDigits p.int = 0 ∨ 2 ^ 63 < natOfDigits p.int then
        .f64 (F64.neg (F64.ofU64 (natOfDigits p.int)))
      else .i64 (-(natOfDigits p.int : Int)) := by
  unfold convertDefault
  simp only [hf, he, goInt_eq_of_fits _ hd h]
  generalize natOfDigits p.int = n at h ⊢
  simp only [u64Max] at h
  cases p.neg
  · simp
  · simp only [Bool.not_true, Bool.false_eq_true, Bool.true_eq_false, if_false, beq_iff_eq, ge_iff_le]
    by_cases h1 : 2 ^ 63 ≤ n
    · by_cases h2 : n = 2 ^ 63
      · subst h2; simp
      · have e1 : ¬ ((n : Int) - 2 ^ 64 = -2 ^ 63) := by omega
        have e2 : (0 : Int) ≤ -((n : Int) - 2 ^ 64) := by omega
        have e3 : (n = 0 ∨ 2 ^ 63 < n) := by omega
        simp only [h1, if_true, e1, if_false, e2, e3]
    · have e1 : ¬ ((n : Int) = -2 ^ 63) := by omega
      simp only [h1, if_false, e1]
      by_cases h0 : n = 0
      · subst h0; simp
      · have e2 : ¬ ((0 : Int) ≤ -(n : Int)) := by omega
        have e3 : ¬ (n = 0 ∨ 2 ^ 63 < n) := by omega
        simp only [e2, if_false, e3]

/-- the value exceeds `u64::MAX`: `parse_long_integer` — the float `sig · 10^extra` (sign applied)
    from the longest prefix that fits and the count of dropped digits, or "number out of range" -/
theorem convertDefault_overflows (p : Parts) (hf : p.frac = none) (he : p.exp = none)
    (hd : IsDigits p.int) (h : natOfDigits p.int > u64Max) :
    ∃ pre c post, p.int = pre ++ c :: post ∧ natOfDigits pre ≤ u64Max ∧
      natOfDigits (pre ++ [c]) > u64Max ∧
      convertDefault p = ofF (f64FromParts (!p.neg) (natOfDigits pre) ((post.length + 1 : Nat) : Int)) := by
  obtain ⟨pre, c, post, h0, h1, h2, h3⟩ := goInt_eq_of_overflows _ hd h
  refine ⟨pre, c, post, h0, h1, h2, ?_⟩
  unfold convertDefault
  simp only [hf, he, h3]

theorem convertDefault_overflows_float (p : Parts) (hf : p.frac = none) (he : p.exp = none)
    (hd : IsDigits p.int) (h : natOfDigits p.int > u64Max) : FloatOrRange (convertDefault p) := by
  obtain ⟨pre, c, post, _, _, _, h3⟩ := convertDefault_overflows p hf he hd h
  rw [h3]; exact f64FromParts_nat _ _ _

/-- **`convertDefault = .u64 n`** iff no minus sign and `n` is the literal's value and fits in u64 -/
theorem convertDefault_eq_u64_iff (p : Parts) (hf : p.frac = none) (he : p.exp = none)
    (hd : IsDigits p.int) (n : Nat) :
    convertDefault p = .u64 n ↔ p.neg = false ∧ n = natOfDigits p.int ∧ n < 2 ^ 64 := by
  by_cases h : natOfDigits p.int ≤ u64Max
  · rw [convertDefault_fits p hf he hd h]
    simp only [u64Max] at h
    cases p.neg
    · simp only [if_true, NRes.u64.injEq, true_and]
      constructor
      · rintro rfl; exact ⟨rfl, by omega⟩
      · rintro ⟨rfl, _⟩; rfl
    · simp only [Bool.true_eq_false, if_false, false_and, iff_false]
      split <;> intro h <;> cases h
  · have hn := (convertDefault_overflows_float p hf he hd (by omega)).notInt
    simp only [u64Max] at h
    constructor
    · intro e; exact absurd e (hn.1 n)
    · rintro ⟨_, rfl, h2⟩; omega

/-- **`convertDefault = .i64 k`** iff minus sign, `k = -value`, and 0 < value ≤ 2^63 -/
theorem convertDefault_eq_i64_iff (p : Parts) (hf : p.frac = none) (he : p.exp = none)
    (hd : IsDigits p.int) (k : Int) :
    convertDefault p = .i64 k ↔
      p.neg = true ∧ k = -(natOfDigits p.int : Int) ∧ 0 < natOfDigits p.int ∧
        natOfDigits p.int ≤ 2 ^ 63 := by
  by_cases h : natOfDigits p.int ≤ u64Max
  · rw [convertDefault_fits p hf he hd h]
    cases p.neg
    · simp only [if_true, Bool.false_eq_true, false_and, iff_false]
      intro h; cases h
    · simp only [Bool.true_eq_false, if_false, true_and]
      split
      · rename_i hc
        constructor
        · intro h; cases h
        · rintro ⟨_, h1, h2⟩; omega
      · rename_i hc
        simp only [NRes.i64.injEq]
        constructor
        · rintro rfl; exact ⟨rfl, by omega, by omega⟩
        · rintro ⟨rfl, _⟩; rfl
  · have hn := (convertDefault_overflows_float p hf he hd (by omega)).notInt
    simp only [u64Max] at h
    constructor
    · intro e; exact absurd e (hn.2 k)
    · rintro ⟨_, _, _, h2⟩; omega

/-- in every case the result is `u64`, `i64`, a float or "out of range" — never `outOfFuel` -/
theorem convertDefault_int_total (p : Parts) (hf : p.frac = none) (he : p.exp = none)
    (hd : IsDigits p.int) :
    (∃ n, convertDefault p = .u64 n) ∨ (∃ k, convertDefault p = .i64 k) ∨
      FloatOrRange (convertDefault p) := by
  by_cases h : natOfDigits p.int ≤ u64Max
  · rw [convertDefault_fits p hf he hd h]
    split
    · exact .inl ⟨_, rfl⟩
    · split
      · exact .inr (.inr (.inl ⟨_, rfl⟩))
      · exact .inr (.inl ⟨_, rfl⟩)
  · exact .inr (.inr (convertDefault_overflows_float p hf he hd (by omega)))

/-- `intClass` says integer ⇒ the default build returns exactly that integer -/
theorem convertDefault_of_intClass_some (p : Parts) (hd : IsDigits p.int) (r : NRes)
    (h : intClass p = some r) : convertDefault p = r := by
  unfold intClass at h
  split at h
  · rename_i hf he
    simp only [Bool.not_eq_true', beq_iff_eq] at h
    split at h
    · rename_i hneg
      split at h
      · cases h
        exact (convertDefault_eq_u64_iff p hf he hd _).2 ⟨hneg, rfl, by assumption⟩
      · cases h
    · rename_i hneg
      split at h
      · cases h
      · split at h
        · cases h
          rename_i h0 h1
          exact (convertDefault_eq_i64_iff p hf he hd _).2 ⟨by simpa using hneg, rfl, by omega, h1⟩
        · cases h
  · cases h

/-- `intClass` says not an integer ⇒ the default build does not return an integer -/
theorem convertDefault_of_intClass_none (p : Parts) (hf : p.frac = none) (he : p.exp = none)
    (hd : IsDigits p.int) (h : intClass p = none) : FloatOrRange (convertDefault p) := by
  rcases convertDefault_int_total p hf he hd with ⟨n, e⟩ | ⟨k, e⟩ | e
  · have := (convertDefault_eq_u64_iff p hf he hd n).1 e
    simp [intClass, hf, he, this.1, ← this.2.1, this.2.2] at h
  · have := (convertDefault_eq_i64_iff p hf he hd k).1 e
    have h0 : ¬ natOfDigits p.int = 0 := by omega
    simp [intClass, hf, he, this.1, h0, this.2.2.2] at h
  · exact e

/-- the literal `-0` is the float negative zero -/
theorem convertDefault_neg_zero (p : Parts) (hf : p.frac = none) (he : p.exp = none)
    (hd : IsDigits p.int) (hneg : p.neg = true) (h0 : natOfDigits p.int = 0) :
    convertDefault p = .f64 0x8000000000000000 := by
  rw [convertDefault_fits p hf he hd (by rw [h0]; simp [u64Max])]
  simp only [hneg, h0, Bool.true_eq_false, if_false, true_or, if_true]
  have : F64.neg (F64.ofU64 0) = 0x8000000000000000 := by decide +kernel
  simp [this]

/-! ## `float_roundtrip` build -/

theorem convertRoundtrip_of_intClass_some (p : Parts) (r : NRes) (h : intClass p = some r) :
    convertRoundtrip p = r := by
  simp only [convertRoundtrip, h]

theorem exponentOverflow_float (a b c : Bool) : FloatOrRange (exponentOverflow a b c) := by
  unfold exponentOverflow FloatOrRange
  split
  · exact .inr rfl
  · exact .inl ⟨_, rfl⟩

theorem conv_float (p : Parts) : FloatOrRange (convertRoundtrip.conv p) := by
  unfold convertRoundtrip.conv FloatOrRange
  cases exact p with
  | zero => exact .inl ⟨_, rfl⟩
  | tiny => exact .inl ⟨_, rfl⟩
  | huge => exact .inr rfl
  | rat n d =>
    simp only
    cases (if d == 0 then none else roundNE64 p.neg n d) with
    | some b => exact .inl ⟨_, rfl⟩
    | none => exact .inr rfl

theorem convertRoundtrip_of_intClass_none (p : Parts) (h : intClass p = none) :
    FloatOrRange (convertRoundtrip p) := by
  simp only [convertRoundtrip, h]
  split
  · split
    · exact exponentOverflow_float ..
    · exact conv_float p
  · exact conv_float p

end SJ.Proofs.NumInt
