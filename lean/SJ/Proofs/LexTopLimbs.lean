import SJ.Proofs.LexMathTotal
import SJ.Proofs.LexTopFloat
import SJ.Model.LexicalLimbs
/-!
# C07: the limb-level closure composed with the top level

`c07_limbs_total` needs `-2048 < scaled_exponent < 1024` and a non-zero big-integer mantissa. Here: every call of `bhcomp`
made by `parse_concise_float` / `parse_truncated_float` satisfies both. `bhcomp` is reached only when `moderate_path`
rejects, and it rejects only for a mantissa exponent in `[-350, 310)` (`moderate_invalid_range`); the `u64` mantissa
holds between 1 and 20 significant digits and at most `MAX_DIGITS ≤ 769` digits are counted, so
`scaled_exponent = mantissa_exponent + (significant digits consumed) − min(MAX_DIGITS, significant digits)` lies in
`[-1118, 330)`. Hence the pipeline with `bhcomp` on limb vectors (`Model.LexicalLimbs`) never panics and returns what
the `Nat`-level pipeline returns.
-/
namespace SJ.Proofs.LexTopLimbs
open SJ SJ.Gen SJ.Model.Lexical SJ.Model.Num SJ.Model.LexBhLimbs SJ.Model.LexicalLimbs SJ.Spec.Ieee
open SJ.Proofs.Ieee SJ.Proofs.LexRound SJ.Proofs.LexBh SJ.Proofs.LexFast SJ.Proofs.LexSplit SJ.Proofs.NumInt
open SJ.Proofs.LexCorrect SJ.Proofs.LexTopParse SJ.Proofs.LexTopBh SJ.Proofs.LexMath

/-! ## arithmetic -/

theorem scaled_arith (me : Int) (S t maxD : Nat) (h1 : -350 ≤ me) (h2 : me < 310) (ht : t < S) (hS : S ≤ t + 20)
    (hmax : maxD ≤ 769) :
    -2048 < me + (S : Int) - t - ((min maxD S : Nat) : Int) ∧ me + (S : Int) - t - ((min maxD S : Nat) : Int) < 1024 := by
  omega

/-- a `u64` mantissa followed by `t` cut digits, of a number with `S` significant digits: `t < S ≤ t + 20` -/
theorem sig_bounds (V S m t r : Nat) (hlo : 10 ^ (S - 1) ≤ V) (hhi : V < 10 ^ S) (hV : V = m * 10 ^ t + r) (hr : r < 10 ^ t)
    (hm0 : 0 < m) (hm : m < 2 ^ 64) : t < S ∧ S ≤ t + 20 := by
  have hpt : 0 < 10 ^ t := Nat.pos_of_ne_zero (by simp)
  constructor
  · by_contra hc
    have : (10 : Nat) ^ S ≤ 10 ^ t := Nat.pow_le_pow_right (by norm_num) (by omega)
    have : 10 ^ t ≤ m * 10 ^ t := Nat.le_mul_of_pos_left _ hm0
    omega
  · by_contra hc
    have h1 : (10 : Nat) ^ (t + 20) ≤ 10 ^ (S - 1) := Nat.pow_le_pow_right (by norm_num) (by omega)
    have h2 : (10 : Nat) ^ (t + 20) = 10 ^ t * 10 ^ 20 := Nat.pow_add ..
    have h3 : m * 10 ^ t + r < (m + 1) * 10 ^ t := by rw [Nat.add_mul, Nat.one_mul]; omega
    have h4 : (m + 1) * 10 ^ t ≤ 2 ^ 64 * 10 ^ t := Nat.mul_le_mul_right _ (by omega)
    have h5 : 2 ^ 64 * 10 ^ t ≤ 10 ^ t * 10 ^ 20 := by
      rw [Nat.mul_comm]; exact Nat.mul_le_mul_left _ (by norm_num)
    omega

/-! ## the big-integer mantissa of a call is not zero -/

theorem bhMantissa_ne_zero_all (c : FC) (hmax : 2 ≤ c.maxDigits) (integer fraction : Bytes) (hdi : IsDigits integer)
    (hdf : IsDigits fraction) (hhead : ∀ d r, integer = d :: r → d ≠ 0x30)
    (hpos : 0 < natOfDigits (integer ++ fraction)) : bhMantissa c integer fraction ≠ 0 := by
  by_cases hz : c.maxDigits - 1 < (sigDigits integer fraction).length →
      0 < natOfDigits ((sigDigits integer fraction).drop (c.maxDigits - 1))
  · exact bhMantissa_ne_zero c hmax integer fraction hpos hz
  · have hlt : c.maxDigits - 1 < (sigDigits integer fraction).length := by
      by_contra hc; exact hz (fun h' => absurd h' hc)
    have hzero : natOfDigits ((sigDigits integer fraction).drop (c.maxDigits - 1)) = 0 := by
      by_contra hc; exact hz (fun _ => Nat.pos_of_ne_zero hc)
    obtain ⟨K', hK'⟩ : ∃ K', c.maxDigits - 1 = K' + 1 := ⟨c.maxDigits - 2, by omega⟩
    unfold bhMantissa
    by_cases hint : integer = []
    · subst hint
      simp only [List.length_nil, beq_self_eq_true, if_true, List.nil_append] at hpos ⊢
      have hsigdef : sigDigits [] fraction = fraction.dropWhile (· == 0x30) := by
        unfold sigDigits; simp [drop_takeWhile_eq]
      rw [hsigdef] at hlt hzero
      rw [drop_takeWhile_eq]
      generalize hsig : fraction.dropWhile (· == 0x30) = sig at *
      have hNsig : natOfDigits sig = natOfDigits fraction := by rw [← hsig]; exact natOfDigits_dropWhile_zero _
      have hsd : IsDigits sig := by rw [← hsig, ← drop_takeWhile_eq]; exact isDigits_drop hdf _
      rw [parseMantissa_zero c hmax [] sig (by simpa using hsd) (by simpa using hlt) (by simpa using hzero)]
      simp only [List.nil_append]
      cases sig with
      | nil => simp at hlt
      | cons d r =>
        have hd0 : d ≠ 0x30 := by
          have := dropWhile_head (· == 0x30) fraction d r hsig
          simpa using this
        have htake : (d :: r).take (c.maxDigits - 1) = d :: r.take K' := by rw [hK', List.take_succ_cons]
        rw [htake]
        have := natOfDigits_ge d (r.take K') (htake ▸ isDigits_take hsd (c.maxDigits - 1)) hd0
        have hp : 0 < 10 ^ (r.take K').length := Nat.pos_of_ne_zero (by simp)
        omega
    · have hil : (integer.length == 0) = false := by
        cases integer with
        | nil => exact absurd rfl hint
        | cons a l => simp
      have hsigdef : sigDigits integer fraction = integer ++ fraction := by unfold sigDigits; rw [hil]; rfl
      rw [hsigdef] at hlt hzero
      simp only [hil, Bool.false_eq_true, if_false]
      rw [parseMantissa_zero c hmax integer fraction (isDigits_append hdi hdf) hlt hzero]
      cases integer with
      | nil => exact absurd rfl hint
      | cons d r =>
        have hd0 := hhead d r rfl
        have htake : (d :: r ++ fraction).take (c.maxDigits - 1) = d :: (r ++ fraction).take K' := by
          rw [hK']; rfl
        rw [htake]
        have := natOfDigits_ge d ((r ++ fraction).take K')
          (htake ▸ isDigits_take (isDigits_append hdi hdf) (c.maxDigits - 1)) hd0
        have hp : 0 < 10 ^ ((r ++ fraction).take K').length := Nat.pos_of_ne_zero (by simp)
        omega

/-! ## `scaled_exponent` at the call sites -/

/-- the significant digits (`sigDigits`): their number `S` and `10^(S-1) ≤ value < 10^S` -/
theorem sig_value_bounds (integer fraction : Bytes) (hdi : IsDigits integer) (hdf : IsDigits fraction)
    (hhead : ∀ d r, integer = d :: r → d ≠ 0x30) (hpos : 0 < natOfDigits (integer ++ fraction)) :
    10 ^ ((sigDigits integer fraction).length - 1) ≤ natOfDigits (integer ++ fraction) ∧
    natOfDigits (integer ++ fraction) < 10 ^ (sigDigits integer fraction).length := by
  by_cases hint : integer = []
  · subst hint
    have hsigdef : sigDigits [] fraction = fraction.dropWhile (· == 0x30) := by
      unfold sigDigits; simp [drop_takeWhile_eq]
    rw [hsigdef]
    simp only [List.nil_append] at hpos ⊢
    generalize hsig : fraction.dropWhile (· == 0x30) = sig at *
    have hNsig : natOfDigits sig = natOfDigits fraction := by rw [← hsig]; exact natOfDigits_dropWhile_zero _
    have hsd : IsDigits sig := by rw [← hsig, ← drop_takeWhile_eq]; exact isDigits_drop hdf _
    rw [← hNsig]
    refine ⟨?_, natOfDigits_lt sig hsd⟩
    cases sig with
    | nil => rw [← hNsig] at hpos; simp [natOfDigits] at hpos
    | cons d r =>
      have hd0 : d ≠ 0x30 := by
        have := dropWhile_head (· == 0x30) fraction d r hsig
        simpa using this
      simpa using natOfDigits_ge d r hsd hd0
  · have hil : (integer.length == 0) = false := by
      cases integer with
      | nil => exact absurd rfl hint
      | cons a l => simp
    have hsigdef : sigDigits integer fraction = integer ++ fraction := by unfold sigDigits; rw [hil]; rfl
    rw [hsigdef]
    refine ⟨?_, natOfDigits_lt _ (isDigits_append hdi hdf)⟩
    cases integer with
    | nil => exact absurd rfl hint
    | cons d r =>
      have := natOfDigits_ge d (r ++ fraction) (isDigits_append hdi hdf) (hhead d r rfl)
      simpa using this

/-- `bhcomp`'s `scaled_exponent` in terms of the exponent of the last digit and the number of significant digits -/
theorem bhScaled_eq (c : FC) (integer fraction : Bytes) (exponent : Int) (hexp1 : -(2 ^ 30 : Int) < exponent)
    (hexp2 : exponent < 2 ^ 30) (hlen : integer.length + fraction.length < 2 ^ 30) :
    bhScaled c integer fraction exponent =
      (exponent - fraction.length) + ((sigDigits integer fraction).length : Int) -
        ((min c.maxDigits (sigDigits integer fraction).length : Nat) : Int) := by
  unfold bhScaled sigDigits
  by_cases hint : integer = []
  · subst hint
    simp only [List.length_nil, beq_self_eq_true, if_true, Nat.zero_add]
    obtain ⟨start, hstart⟩ : ∃ s, s = (fraction.takeWhile (· == 0x30)).length := ⟨_, rfl⟩
    rw [← hstart]
    have hsl : start ≤ fraction.length := by rw [hstart]; exact (List.takeWhile_prefix _).length_le
    have hsci : scientificExponent exponent 0 start = exponent - start - 1 := by
      unfold scientificExponent intoI32
      simp only [beq_self_eq_true, if_true]
      simp only [List.length_nil, Nat.zero_add] at hlen
      rw [if_neg (by omega), satI32_id' (exponent - (start : Int)) (by omega) (by omega), satI32_id' _ (by omega) (by omega)]
    rw [hsci, List.length_drop]
    omega
  · have hil : (integer.length == 0) = false := by
      cases integer with
      | nil => exact absurd rfl hint
      | cons a l => simp
    have hilpos : 1 ≤ integer.length := by
      cases integer with
      | nil => exact absurd rfl hint
      | cons a l => simp
    simp only [hil, Bool.false_eq_true, if_false, Nat.sub_zero]
    have hsci : scientificExponent exponent integer.length 0 = exponent + integer.length - 1 := by
      unfold scientificExponent intoI32
      rw [hil]
      simp only [Bool.false_eq_true, if_false]
      rw [if_neg (by omega), satI32_id' _ (by omega) (by omega)]
      omega
    rw [hsci, List.length_append]
    push_cast
    omega

/-- **the call of `bhcomp` made by `parse_truncated_float` / `fallback_path` is in range** -/
theorem bhScaled_range (single : Bool) (integer fr : Bytes) (e : Int) (hdi : IsDigits integer) (hdfr : IsDigits fr)
    (hhead : ∀ d r, integer = d :: r → d ≠ 0x30) (hpos : 0 < natOfDigits (integer ++ fr))
    (hlen : (integer ++ fr).length < 2 ^ 29)
    (hr1 : -350 ≤ mantissaExponent e fr.length (truncatedMantissa (integer ++ fr) 0).2)
    (hr2 : mantissaExponent e fr.length (truncatedMantissa (integer ++ fr) 0).2 < 310) :
    -2048 < bhScaled (fc single) integer fr e ∧ bhScaled (fc single) integer fr e < 1024 := by
  obtain ⟨r, hv, hr, hw, hbig, htle, _⟩ := truncatedMantissa_spec (integer ++ fr) (isDigits_append hdi hdfr) 0 (by norm_num)
  rw [← natOfDigits_eq_val] at hv
  generalize hm : (truncatedMantissa (integer ++ fr) 0).1 = m at *
  generalize ht : (truncatedMantissa (integer ++ fr) 0).2 = t at *
  have hm0 : 0 < m := by
    by_contra hc
    have hmz : m = 0 := by omega
    by_cases ht0 : t = 0
    · subst hmz; subst ht0
      simp at hv hr
      omega
    · have := hbig ht0
      omega
  simp only [List.length_append] at hlen htle
  obtain ⟨hb1, hb2⟩ := mantissaExponent_range e fr.length t (by omega) (by omega) hr1 hr2
  obtain ⟨s1, s2⟩ := sig_value_bounds integer fr hdi hdfr hhead hpos
  obtain ⟨q1, q2⟩ := sig_bounds _ _ m t r s1 s2 hv hr hm0 hw
  have hme : mantissaExponent e fr.length t = e - fr.length + t := by
    unfold mantissaExponent
    by_cases hc : fr.length > t
    · rw [if_pos hc, intoI32_id _ (by omega), satI32_id' _ (by omega) (by omega)]; omega
    · rw [if_neg hc, intoI32_id _ (by omega), satI32_id' _ (by omega) (by omega)]; omega
  rw [hme] at hr1 hr2
  rw [bhScaled_eq (fc single) integer fr e hb1 hb2 (by omega)]
  have := scaled_arith (e - fr.length + t) (sigDigits integer fr).length t (fc single).maxDigits hr1 hr2 q1 q2
    (maxDigits_le single)
  omega

/-- **the call of `bhcomp` made by `parse_concise_float` is in range** -/
theorem bhScaled_range_concise (single : Bool) (m : Nat) (e : Int) (_hm0 : 0 < m) (hm : m < 2 ^ 64) (h1 : -350 ≤ e)
    (h2 : e < 310) : -2048 < bhScaled (fc single) (itoa m) [] e ∧ bhScaled (fc single) (itoa m) [] e < 1024 := by
  obtain ⟨i1, i2, i3, i4, i5⟩ := itoa_spec m hm
  rw [bhScaled_eq (fc single) (itoa m) [] e (by omega) (by omega) (by simp only [List.length_nil]; omega)]
  have hne : ((itoa m).length == 0) = false := by
    cases hi : itoa m with
    | nil => rw [hi] at i5; simp at i5
    | cons a l => simp
  have hsig : sigDigits (itoa m) [] = itoa m := by unfold sigDigits; rw [hne]; simp
  rw [hsig]
  have hmaxd := (fcokOf single).maxd
  have hmin : min (fc single).maxDigits (itoa m).length = (itoa m).length := by omega
  rw [hmin]
  simp only [List.length_nil, Nat.cast_zero, sub_zero]
  omega

/-! ## the pipeline on limb vectors never panics and equals the `Nat`-level pipeline -/

theorem hmaxOf (single : Bool) : 2 ≤ (fc single).maxDigits := by
  have := (fcokOf single).maxd; omega

theorem bhcompL_ok (single : Bool) (b : Nat) (integer fraction : Bytes) (exponent : Int) (hdi : IsDigits integer)
    (hdf : IsDigits fraction) (hhead : ∀ d r, integer = d :: r → d ≠ 0x30)
    (hpos : 0 < natOfDigits (integer ++ fraction))
    (h1 : -2048 < bhScaled (fc single) integer fraction exponent) (h2 : bhScaled (fc single) integer fraction exponent < 1024) :
    bhcompL (fc single) b integer fraction exponent = some (bhcomp (fc single) b integer fraction exponent) := by
  have hm := bhMantissa_ne_zero_all (fc single) (hmaxOf single) integer fraction hdi hdf hhead hpos
  obtain ⟨r, hr⟩ := bhcompL_total single b integer fraction exponent hdi hdf hm h1 h2
  rw [hr, bhcompL_refines single b integer fraction exponent hdi hdf hm r hr]

/-- `parse_concise_float` on limb vectors -/
theorem parseConciseL_eq (single : Bool) (m : Nat) (e : Int) (hm : m < 2 ^ 64) :
    parseConciseFloatL single m e = some (parseConciseFloat single m e) := by
  unfold parseConciseFloatL parseConciseFloat
  by_cases h0 : m = 0
  · subst h0
    have hf : fastPath single 0 e = some 0 := by simp [fastPath]
    rw [hf]
  · cases hf : fastPath single m e with
    | some f => rfl
    | none =>
      simp only []
      cases hv : (moderatePath (fc single) m e false).2 with
      | true => simp only [if_true]
      | false =>
        simp only [Bool.false_eq_true, if_false]
        cases hsp : isSpecial (fc single) (intoDownwardFloat (fc single) (moderatePath (fc single) m e false).1) with
        | true => simp only [if_true]
        | false =>
          simp only [Bool.false_eq_true, if_false]
          obtain ⟨hr1, hr2⟩ := moderate_invalid_range _ _ _ _ hv
          obtain ⟨i1, i2, i3, i4, i5⟩ := itoa_spec m hm
          obtain ⟨s1, s2⟩ := bhScaled_range_concise single m e (by omega) hm hr1 hr2
          exact bhcompL_ok single _ (itoa m) [] e i2 (by intro c hc; cases hc) (i3 (by omega))
            (by rw [List.append_nil, i1]; omega) s1 s2

/-- `parse_truncated_float` on limb vectors -/
theorem parseTruncatedL_eq (single : Bool) (integer fraction : Bytes) (e : Int)
    (hdi : IsDigits integer) (hdf : IsDigits fraction) (hhead : ∀ d r, integer = d :: r → d ≠ 0x30)
    (hpos : 0 < natOfDigits (integer ++ fraction)) (hlen : integer.length + fraction.length < 2 ^ 29) :
    parseTruncatedFloatL single integer fraction e = some (parseTruncatedFloat single integer fraction e) := by
  obtain ⟨z, hzs⟩ := trim_spec fraction
  unfold parseTruncatedFloatL parseTruncatedFloat
  generalize htr : trimTrailingZeros fraction = fr at *
  have hdfr : IsDigits fr := isDigits_of_append_left (hzs ▸ hdf)
  have hfl : fraction.length = fr.length + z := by
    have := congrArg List.length hzs
    simpa using this
  have hN : natOfDigits (integer ++ fraction) = natOfDigits (integer ++ fr) * 10 ^ z := by
    conv_lhs => rw [hzs, ← List.append_assoc, natOfDigits_append, natOfDigits_replicate_zero]
    simp
  have hpos' : 0 < natOfDigits (integer ++ fr) := by
    rw [hN] at hpos
    by_contra hc
    have : natOfDigits (integer ++ fr) = 0 := by omega
    rw [this] at hpos; simp at hpos
  simp only []
  unfold fallbackPathL fallbackPath
  simp only []
  cases hv : (moderatePath (fc single) (truncatedMantissa (integer ++ fr) 0).1
      (mantissaExponent e fr.length (truncatedMantissa (integer ++ fr) 0).2) true).2 with
  | true => simp only [if_true]
  | false =>
    simp only [Bool.false_eq_true, if_false]
    cases hsp : isSpecial (fc single) (intoDownwardFloat (fc single) (moderatePath (fc single)
        (truncatedMantissa (integer ++ fr) 0).1 (mantissaExponent e fr.length (truncatedMantissa (integer ++ fr) 0).2) true).1) with
    | true => simp only [if_true]
    | false =>
      simp only [Bool.false_eq_true, if_false]
      obtain ⟨hr1, hr2⟩ := moderate_invalid_range _ _ _ _ hv
      obtain ⟨s1, s2⟩ := bhScaled_range single integer fr e hdi hdfr hhead hpos'
        (by simp only [List.length_append]; omega) hr1 hr2
      exact bhcompL_ok single _ integer fr e hdi hdfr hhead hpos' s1 s2

/-- **`de.rs` + lexical with the slow path on limb vectors = the `Nat`-level model, and no panic** -/
theorem deFloatL_eq (single : Bool) (p : Parts) (wf : WF p) (hlen : (p.int ++ p.frac.getD []).length + 20 < 2 ^ 29) :
    deFloatRoundtripL single p = some (deFloatRoundtrip single p) := by
  have hpres := deCall_presents single p wf
  unfold deFloatRoundtripL deFloatRoundtrip
  cases hcall : deCall single p with
  | number r => rfl
  | expOverflow zs pe => rfl
  | concise sig e =>
    rw [hcall] at hpres
    obtain ⟨hsig, hs64, he, hfit⟩ := hpres
    simp only [runCallL, runCall]
    rw [parseConciseL_eq single sig e (u64_lt_80 sig hs64).2]
    rfl
  | truncated integer fraction e =>
    rw [hcall] at hpres
    obtain ⟨hNv, hEv, hdi, hdf, hbig, hhead, he1, he2, hfit, hsl⟩ := hpres
    simp only [runCallL, runCall]
    rw [parseTruncatedL_eq single integer fraction e hdi hdf hhead (by rw [hNv]; simp only [u64Max] at hbig; omega) (by omega)]
    rfl

end SJ.Proofs.LexTopLimbs
