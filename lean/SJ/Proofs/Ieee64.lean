import SJ.Proofs.Ieee
/-!
# binary64 / binary32: `roundNE64`, `roundNE32` satisfy `IsNearestEven64/32`
-/
set_option linter.unusedSimpArgs false
namespace SJ.Proofs.Ieee
open SJ.Spec.Ieee

/-! ## binary64 bit-pattern facts -/

theorem b64_mbits : b64.mbits = 52 := rfl
theorem b64_qexp : b64.qexp = 1074 := rfl
theorem b64_infBits : b64.infBits = 2047 * 2 ^ 52 := rfl
theorem b64_signBit : b64.signBit = 2 ^ 63 := rfl

theorem F64.absBits_lt (b : UInt64) : F64.absBits b < 2 ^ 63 := by
  unfold F64.absBits; exact Nat.mod_lt _ (by decide)

theorem F64.expField_eq (b : UInt64) : F64.expField b = F64.absBits b / 2 ^ 52 := by
  unfold F64.expField F64.absBits
  have := b.toNat_lt
  omega

theorem F64.mantField_eq (b : UInt64) : F64.mantField b = F64.absBits b % 2 ^ 52 := by
  unfold F64.mantField F64.absBits
  omega

theorem F64.isFinite_iff (b : UInt64) : F64.isFinite b = true ↔ F64.absBits b < b64.infBits := by
  rw [b64_infBits]
  unfold F64.isFinite
  rw [F64.expField_eq]
  have := F64.absBits_lt b
  simp only [bne_iff_ne, ne_eq]
  omega

/-- the dyadic reading and the bit-pattern magnitude agree on finite doubles -/
theorem F64.scaled_eq_mag (b : UInt64) (h : F64.isFinite b = true) : F64.scaled b = F64.mag b := by
  have hE : F64.expField b ≠ 2047 := by simpa [F64.isFinite] using h
  unfold F64.scaled F64.toDyadic F64.mag magOfBits
  rw [b64_mbits, ← F64.expField_eq, ← F64.mantField_eq]
  simp only [hE, if_false]
  by_cases h0 : F64.expField b = 0
  · simp only [h0, if_true]
    by_cases hs : F64.sign b <;> simp [hs]
  · simp only [h0, if_false]
    have e : ((F64.expField b : Int) - 1075 + 1074).toNat = F64.expField b - 1 := by omega
    by_cases hs : F64.sign b
    · simp only [hs, if_true, Int.natAbs_neg, e]; rfl
    · simp only [hs, e]; rfl

theorem dist64_eq (num den : Nat) (f : UInt64) (h : F64.isFinite f = true) :
    dist64 num den f = adiff (F64.mag f * den) (num * 2 ^ 1074) := by
  unfold dist64 adiff
  rw [F64.scaled_eq_mag f h]
  omega

/-- the pattern produced for a finite rounding -/
def bits64 (neg : Bool) (u : Nat) : UInt64 := UInt64.ofNat (if neg then b64.signBit + u else u)

theorem bits64_toNat (neg : Bool) (u : Nat) (hu : u < b64.infBits) :
    (bits64 neg u).toNat = if neg then 2 ^ 63 + u else u := by
  rw [b64_infBits] at hu
  unfold bits64
  rw [b64_signBit]
  cases neg <;> simp <;> omega

theorem bits64_absBits (neg : Bool) (u : Nat) (hu : u < b64.infBits) :
    F64.absBits (bits64 neg u) = u := by
  unfold F64.absBits
  rw [bits64_toNat neg u hu]
  rw [b64_infBits] at hu
  cases neg <;> simp <;> omega

theorem bits64_sign (neg : Bool) (u : Nat) (hu : u < b64.infBits) :
    F64.sign (bits64 neg u) = neg := by
  unfold F64.sign
  rw [bits64_toNat neg u hu]
  rw [b64_infBits] at hu
  cases neg
  · simp only [Bool.false_eq_true, if_false]
    have : u / 2 ^ 63 = 0 := by omega
    rw [this]; rfl
  · simp only [if_true]
    have : (2 ^ 63 + u) / 2 ^ 63 = 1 := by omega
    rw [this]; rfl

theorem roundNE64_eq (neg : Bool) (num den : Nat) :
    roundNE64 neg num den =
      if roundMag b64 (num * 2 ^ 1074) den < b64.infBits
      then some (bits64 neg (roundMag b64 (num * 2 ^ 1074) den)) else none := by
  unfold roundNE64 roundBits bits64
  rw [b64_qexp]
  by_cases h : roundMag b64 (num * 2 ^ 1074) den < b64.infBits <;> simp [h]

theorem overflows64_iff (num den : Nat) (hden : 0 < den) :
    Overflows64 num den ↔ b64.infBits ≤ roundMag b64 (num * 2 ^ 1074) den := by
  rw [roundMag_overflow_iff b64 2045 _ _ hden (by rfl) (by decide)]
  unfold Overflows64
  rw [b64_mbits]
  have e1 : (4 * 2 ^ 52 - 1) * 2 ^ 2045 * den = 2 * 2 ^ 1074 * ((2 ^ 1024 - 2 ^ 970) * den) := by
    have : (4 * 2 ^ 52 - 1) * 2 ^ 2045 = 2 * 2 ^ 1074 * (2 ^ 1024 - 2 ^ 970) := by decide +kernel
    rw [this]; ring
  have e2 : 2 * (num * 2 ^ 1074) = 2 * 2 ^ 1074 * num := by ring
  rw [e1, e2]
  have hC : 0 < 2 * 2 ^ 1074 := Nat.mul_pos (by decide) (two_pow_pos' _)
  generalize 2 * 2 ^ 1074 = C at hC ⊢
  generalize (2 ^ 1024 - 2 ^ 970) * den = X
  constructor
  · intro h; exact Nat.mul_le_mul_left C h
  · intro h; exact Nat.le_of_mul_le_mul_left h hC

/-- **`roundNE64` is IEEE-754 round-to-nearest-even.** For `den > 0`:
    if `num/den < 2^1024 − 2^970` the result is a finite double carrying the sign, at least as close
    to `num/den` as every finite double, and with an even significand if some other double is equally
    close; from `2^1024 − 2^970` on the result is `none` (overflow). -/
theorem roundNE64_correct (neg : Bool) (num den : Nat) (hden : 0 < den) :
    (¬ Overflows64 num den → ∃ r, roundNE64 neg num den = some r ∧ IsNearestEven64 neg num den r) ∧
    (Overflows64 num den → roundNE64 neg num den = none) := by
  rw [overflows64_iff num den hden, roundNE64_eq]
  constructor
  · intro hfin
    have hu : roundMag b64 (num * 2 ^ 1074) den < b64.infBits := by omega
    generalize hudef : roundMag b64 (num * 2 ^ 1074) den = u at *
    refine ⟨bits64 neg u, by rw [if_pos hu], ?_⟩
    have habs := bits64_absBits neg u hu
    have hfinr : F64.isFinite (bits64 neg u) = true := by rw [F64.isFinite_iff, habs]; exact hu
    refine ⟨hfinr, bits64_sign neg u hu, ?_, ?_⟩
    · intro f hf
      rw [dist64_eq _ _ _ hfinr, dist64_eq _ _ _ hf]
      unfold F64.mag
      rw [habs, ← hudef]
      exact roundMag_nearest b64 _ _ _ hden
    · intro f hf hne hd
      rw [dist64_eq _ _ _ hfinr, dist64_eq _ _ _ hf] at hd
      rw [F64.scaled_eq_mag _ hfinr, F64.scaled_eq_mag _ hf] at hne
      unfold F64.mag at hd hne
      rw [habs, ← hudef] at hd hne
      have := roundMag_tie_even b64 _ _ _ hden (by decide) hne hd
      rw [F64.mantField_eq, habs, ← hudef]
      omega
  · intro hov
    have : ¬ roundMag b64 (num * 2 ^ 1074) den < b64.infBits := by omega
    rw [if_neg this]


/-! ## binary32 bit-pattern facts -/

theorem b32_mbits : b32.mbits = 23 := rfl
theorem b32_qexp : b32.qexp = 149 := rfl
theorem b32_infBits : b32.infBits = 255 * 2 ^ 23 := rfl
theorem b32_signBit : b32.signBit = 2 ^ 31 := rfl

theorem F32.absBits_lt (b : UInt32) : F32.absBits b < 2 ^ 31 := by
  unfold F32.absBits; exact Nat.mod_lt _ (by decide)

theorem F32.expField_eq (b : UInt32) : F32.expField b = F32.absBits b / 2 ^ 23 := by
  unfold F32.expField F32.absBits
  have := b.toNat_lt
  omega

theorem F32.mantField_eq (b : UInt32) : F32.mantField b = F32.absBits b % 2 ^ 23 := by
  unfold F32.mantField F32.absBits
  omega

theorem F32.isFinite_iff (b : UInt32) : F32.isFinite b = true ↔ F32.absBits b < b32.infBits := by
  rw [b32_infBits]
  unfold F32.isFinite
  rw [F32.expField_eq]
  have := F32.absBits_lt b
  simp only [bne_iff_ne, ne_eq]
  omega

/-- the dyadic reading and the bit-pattern magnitude agree on finite singles -/
theorem F32.scaled_eq_mag (b : UInt32) (h : F32.isFinite b = true) : F32.scaled b = F32.mag b := by
  have hE : F32.expField b ≠ 255 := by simpa [F32.isFinite] using h
  unfold F32.scaled F32.toDyadic F32.mag magOfBits
  rw [b32_mbits, ← F32.expField_eq, ← F32.mantField_eq]
  simp only [hE, if_false]
  by_cases h0 : F32.expField b = 0
  · simp only [h0, if_true]
    by_cases hs : F32.sign b <;> simp [hs]
  · simp only [h0, if_false]
    have e : ((F32.expField b : Int) - 150 + 149).toNat = F32.expField b - 1 := by omega
    by_cases hs : F32.sign b
    · simp only [hs, if_true, Int.natAbs_neg, e]; rfl
    · simp only [hs, e]; rfl

theorem dist32_eq (num den : Nat) (f : UInt32) (h : F32.isFinite f = true) :
    dist32 num den f = adiff (F32.mag f * den) (num * 2 ^ 149) := by
  unfold dist32 adiff
  rw [F32.scaled_eq_mag f h]
  omega

/-- the pattern produced for a finite rounding -/
def bits32 (neg : Bool) (u : Nat) : UInt32 := UInt32.ofNat (if neg then b32.signBit + u else u)

theorem bits32_toNat (neg : Bool) (u : Nat) (hu : u < b32.infBits) :
    (bits32 neg u).toNat = if neg then 2 ^ 31 + u else u := by
  rw [b32_infBits] at hu
  unfold bits32
  rw [b32_signBit]
  cases neg <;> simp <;> omega

theorem bits32_absBits (neg : Bool) (u : Nat) (hu : u < b32.infBits) :
    F32.absBits (bits32 neg u) = u := by
  unfold F32.absBits
  rw [bits32_toNat neg u hu]
  rw [b32_infBits] at hu
  cases neg <;> simp <;> omega

theorem bits32_sign (neg : Bool) (u : Nat) (hu : u < b32.infBits) :
    F32.sign (bits32 neg u) = neg := by
  unfold F32.sign
  rw [bits32_toNat neg u hu]
  rw [b32_infBits] at hu
  cases neg
  · simp only [Bool.false_eq_true, if_false]
    have : u / 2 ^ 31 = 0 := by omega
    rw [this]; rfl
  · simp only [if_true]
    have : (2 ^ 31 + u) / 2 ^ 31 = 1 := by omega
    rw [this]; rfl

theorem roundNE32_eq (neg : Bool) (num den : Nat) :
    roundNE32 neg num den =
      if roundMag b32 (num * 2 ^ 149) den < b32.infBits
      then some (bits32 neg (roundMag b32 (num * 2 ^ 149) den)) else none := by
  unfold roundNE32 roundBits bits32
  rw [b32_qexp]
  by_cases h : roundMag b32 (num * 2 ^ 149) den < b32.infBits <;> simp [h]

theorem overflows32_iff (num den : Nat) (hden : 0 < den) :
    Overflows32 num den ↔ b32.infBits ≤ roundMag b32 (num * 2 ^ 149) den := by
  rw [roundMag_overflow_iff b32 253 _ _ hden (by rfl) (by decide)]
  unfold Overflows32
  rw [b32_mbits]
  have e1 : (4 * 2 ^ 23 - 1) * 2 ^ 253 * den = 2 * 2 ^ 149 * ((2 ^ 128 - 2 ^ 103) * den) := by
    have : (4 * 2 ^ 23 - 1) * 2 ^ 253 = 2 * 2 ^ 149 * (2 ^ 128 - 2 ^ 103) := by decide +kernel
    rw [this]; ring
  have e2 : 2 * (num * 2 ^ 149) = 2 * 2 ^ 149 * num := by ring
  rw [e1, e2]
  have hC : 0 < 2 * 2 ^ 149 := Nat.mul_pos (by decide) (two_pow_pos' _)
  generalize 2 * 2 ^ 149 = C at hC ⊢
  generalize (2 ^ 128 - 2 ^ 103) * den = X
  constructor
  · intro h; exact Nat.mul_le_mul_left C h
  · intro h; exact Nat.le_of_mul_le_mul_left h hC

/-- **`roundNE32` is IEEE-754 round-to-nearest-even.** For `den > 0`:
    if `num/den < 2^1024 − 2^970` the result is a finite single carrying the sign, at least as close
    to `num/den` as every finite single, and with an even significand if some other double is equally
    close; from `2^1024 − 2^970` on the result is `none` (overflow). -/
theorem roundNE32_correct (neg : Bool) (num den : Nat) (hden : 0 < den) :
    (¬ Overflows32 num den → ∃ r, roundNE32 neg num den = some r ∧ IsNearestEven32 neg num den r) ∧
    (Overflows32 num den → roundNE32 neg num den = none) := by
  rw [overflows32_iff num den hden, roundNE32_eq]
  constructor
  · intro hfin
    have hu : roundMag b32 (num * 2 ^ 149) den < b32.infBits := by omega
    generalize hudef : roundMag b32 (num * 2 ^ 149) den = u at *
    refine ⟨bits32 neg u, by rw [if_pos hu], ?_⟩
    have habs := bits32_absBits neg u hu
    have hfinr : F32.isFinite (bits32 neg u) = true := by rw [F32.isFinite_iff, habs]; exact hu
    refine ⟨hfinr, bits32_sign neg u hu, ?_, ?_⟩
    · intro f hf
      rw [dist32_eq _ _ _ hfinr, dist32_eq _ _ _ hf]
      unfold F32.mag
      rw [habs, ← hudef]
      exact roundMag_nearest b32 _ _ _ hden
    · intro f hf hne hd
      rw [dist32_eq _ _ _ hfinr, dist32_eq _ _ _ hf] at hd
      rw [F32.scaled_eq_mag _ hfinr, F32.scaled_eq_mag _ hf] at hne
      unfold F32.mag at hd hne
      rw [habs, ← hudef] at hd hne
      have := roundMag_tie_even b32 _ _ _ hden (by decide) hne hd
      rw [F32.mantField_eq, habs, ← hudef]
      omega
  · intro hov
    have : ¬ roundMag b32 (num * 2 ^ 149) den < b32.infBits := by omega
    rw [if_neg this]


end SJ.Proofs.Ieee
