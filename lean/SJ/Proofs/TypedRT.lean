import SJ.Proofs.TypedPrettyAll
import SJ.Proofs.TypedSerClosed
import SJ.Proofs.TypedSerImageL
/-!
# The typed round trip, proved DIRECTLY on the written text (C04, typed clause): container lemmas

`c04_typed_partial` went through `from_value(to_value(x))` (`agree_gen` + `fromValue_valueOf`). That detour is closed to three
kinds of members although the round trip itself holds for them: an `f32` (printed with `ryu`'s binary32 digits, which is not
the text of the widened `Value`), a zero-length tuple variant (`{"V":[]}` is read back by the text deserializer, refused by
`from_value`), and — for lack of a hypothesis — `Value` members. This file proves the success direction directly: `Reads de tv txt`
says that the typed parser `de` on the text `txt`, followed by an admissible follower, returns `tv` and stops right after it.
The container lemmas take `Reads` of the members (whatever they are: the per-leaf relation is a parameter) and conclude
`Reads` of the container, for the text of EITHER formatter (`TL ext L d`: a layout whose separators are JSON whitespace).
The document a typed value is written as is `valueOfL ext.ryu32 s v` (`Model/TypedSer.lean`: an `f32` member is the number
literal `ryu` prints).
-/
set_option linter.unusedSectionVars false
set_option linter.unusedVariables false

namespace SJ.Proofs.TypedRT
open SJ SJ.Gen SJ.Model SJ.Model.Typed
open SJ.Model.Stream (skipWs)
open SJ.Spec.Image (quote)
open SJ.Proofs.Typed SJ.Proofs.TypedPretty

variable (ext : Spec.Program.Ext) (L : Lay)

/-- the typed parser `de` reads the text `txt` (followed by a separator, a closing bracket, whitespace or nothing) as `tv` -/
def Reads (de : Bytes → Nat → TOut) (tv : TVal) (txt : Bytes) : Prop :=
  ∀ rest pos, SepOK rest → de (txt ++ rest) pos = .ok tv rest (pos + txt.length)

/-- the first byte of an element's text: neither whitespace nor `]` -/
def HeadOK (txt : Bytes) : Prop := ∃ c tl, txt = c :: tl ∧ Machine.isWs c = false ∧ (c == 0x5d) = false

theorem reads_of_agree {de : Bytes → Nat → TOut} {tv : TVal} {txt : Bytes} (h : Agree1 de (.ok tv) txt) : Reads de tv txt := h

section
variable (hext : Spec.Program.ExtOK ext)
variable {env : Env} (hflt : env.flt = false)

/-! ## `Vec<T>` -/

/-- elementwise: `de` reads the i-th element as the i-th result -/
inductive SeqReads (de : Bytes → Nat → TOut) (d : Nat) : List JV → List TVal → Prop
  | nil : SeqReads de d [] []
  | cons {x : JV} {xs : List JV} {y : TVal} {ys : List TVal} :
      Reads de y (TL ext L d x) → HeadOK (TL ext L d x) → SeqReads de d xs ys → SeqReads de d (x :: xs) (y :: ys)

include hflt in
/-- the elements of an array in the layout, each read by `de` -/
theorem seqLoop_reads (d : Nat) (de : Bytes → Nat → TOut) {C : Bytes} (hC : WsB C) :
    ∀ (xs : List JV) (ys : List TVal), SeqReads ext L de d xs ys →
    ∀ (first : Bool) (acc : List TVal) (n : Nat) (rest : Bytes) (pos : Nat),
      (LX ext L d first xs ++ (C ++ 0x5d :: rest)).length < n →
      seqLoop env de n first acc (LX ext L d first xs ++ (C ++ 0x5d :: rest)) pos =
        .ok (acc.reverse ++ ys) (0x5d :: rest) (pos + (LX ext L d first xs).length + C.length) := by
  intro xs ys h
  induction h with
  | nil =>
    intro first acc n rest pos hn
    cases n with
    | zero => omega
    | succ n =>
      simp only [LX_nil, List.nil_append, List.length_nil, Nat.add_zero, List.append_nil]
      unfold seqLoop nextElement
      rw [hasNextElement_close_pad first hC]
      simp [Res.bind]
  | @cons x xs y ys hag hhd _ ih =>
    intro first acc n rest pos hn
    obtain ⟨c, tl, hT, hw, h5⟩ := hhd
    cases n with
    | zero => omega
    | succ n =>
      have htxt : LX ext L d first (x :: xs) ++ (C ++ 0x5d :: rest) =
          (if first then [] else [0x2c]) ++ (L.sep d ++ c :: (tl ++ (LTail ext L d xs ++ (C ++ 0x5d :: rest)))) := by
        rw [LX_cons, hT]; simp [List.append_assoc]
      have hlen : (LX ext L d first (x :: xs)).length =
          (if first then 0 else 1) + (L.sep d).length + (TL ext L d x).length + (LTail ext L d xs).length := by
        rw [LX_cons]; cases first <;> simp <;> omega
      have hel := hag (LTail ext L d xs ++ (C ++ 0x5d :: rest)) (pos + (if first then 0 else 1) + (L.sep d).length)
        (sepOK_tail_L ext L d xs hC rest)
      rw [hT] at hel
      simp only [List.cons_append] at hel
      rw [htxt]
      unfold seqLoop nextElement
      rw [hasNextElement_elem L hflt d first hw h5]
      simp only [Res.bind, if_true]
      rw [hel]
      simp only [Res.map, Res.bind]
      have hrec := ih false (y :: acc) n rest (pos + (if first then 0 else 1) + (L.sep d).length + (c :: tl).length) (by
        rw [htxt] at hn
        simp only [LX, Bool.false_eq_true, if_false]
        simp only [List.length_append, List.length_cons] at hn ⊢
        omega)
      simp only [LX, Bool.false_eq_true, if_false] at hrec
      rw [hrec, hlen, hT]
      simp only [List.reverse_cons, List.append_assoc, List.singleton_append]
      congr 1
      omega

include hext hflt in
/-- `Vec<T>` -/
theorem reads_seq (d : Nat) (s : Schema) (f t : Nat) (xs : List JV) (ys : List TVal) (hd : DepthOK env t (.arr xs))
    (h : SeqReads ext L (deTyped env f (t + 1) s) (d + 1) xs ys) :
    Reads (deTyped env (f + 1) t (.seq s)) (.seq ys) (TL ext L d (.arr xs)) := by
  intro rest pos hs
  rw [deTyped_seq]
  obtain ⟨C, hC, hTa, hde⟩ := deSeq_arr_L ext L hext hflt d t xs hd
    (fun n r p => (seqLoop env (deTyped env f (t + 1) s) n true [] r p).map .seq) rest pos
  have hloop := seqLoop_reads ext L hflt (d + 1) (deTyped env f (t + 1) s) hC xs ys h true []
    ((LX ext L (d + 1) true xs ++ (C ++ 0x5d :: rest)).length + 1) rest (pos + 1) (by omega)
  have hlenT : (TL ext L d (.arr xs)).length = 1 + (LX ext L (d + 1) true xs).length + C.length + 1 := by
    rw [hTa]; simp; omega
  rw [hde, hloop, hlenT]
  simp only [Res.map, Res.bind, closeWith, endSeq_close, List.nil_append, List.reverse_nil]
  congr 1
  omega

/-! ## fixed-length tuples (also the payload of a tuple variant, of any length) -/

/-- positionwise: the i-th schema's parser reads the i-th element -/
inductive TupReads (de : Schema → Bytes → Nat → TOut) (d : Nat) : List Schema → List JV → List TVal → Prop
  | nil : TupReads de d [] [] []
  | cons {s : Schema} {ss : List Schema} {x : JV} {xs : List JV} {y : TVal} {ys : List TVal} :
      Reads (de s) y (TL ext L d x) → HeadOK (TL ext L d x) → TupReads de d ss xs ys → TupReads de d (s :: ss) (x :: xs) (y :: ys)

include hflt in
theorem tupleLoop_reads (d : Nat) (de : Schema → Bytes → Nat → TOut) {C : Bytes} (hC : WsB C) :
    ∀ (ss : List Schema) (xs : List JV) (ys : List TVal), TupReads ext L de d ss xs ys →
    ∀ (first : Bool) (acc : List TVal) (rest : Bytes) (pos : Nat),
      tupleLoop env de ss first acc (LX ext L d first xs ++ (C ++ 0x5d :: rest)) pos =
        .ok (acc.reverse ++ ys) (C ++ 0x5d :: rest) (pos + (LX ext L d first xs).length) := by
  intro ss xs ys h
  induction h with
  | nil =>
    intro first acc rest pos
    simp [tupleLoop, LX_nil]
  | @cons s ss x xs y ys hag hhd _ ih =>
    intro first acc rest pos
    obtain ⟨c, tl, hT, hw, h5⟩ := hhd
    have htxt : LX ext L d first (x :: xs) ++ (C ++ 0x5d :: rest) =
        (if first then [] else [0x2c]) ++ (L.sep d ++ c :: (tl ++ (LTail ext L d xs ++ (C ++ 0x5d :: rest)))) := by
      rw [LX_cons, hT]; simp [List.append_assoc]
    have hlen : (LX ext L d first (x :: xs)).length =
        (if first then 0 else 1) + (L.sep d).length + (TL ext L d x).length + (LTail ext L d xs).length := by
      rw [LX_cons]; cases first <;> simp <;> omega
    have hel := hag (LTail ext L d xs ++ (C ++ 0x5d :: rest)) (pos + (if first then 0 else 1) + (L.sep d).length)
      (sepOK_tail_L ext L d xs hC rest)
    rw [hT] at hel
    simp only [List.cons_append] at hel
    rw [htxt]
    unfold tupleLoop nextElement
    rw [hasNextElement_elem L hflt d first hw h5]
    simp only [Res.bind, if_true]
    rw [hel]
    simp only [Res.map, Res.bind]
    have hrec := ih false (y :: acc) rest (pos + (if first then 0 else 1) + (L.sep d).length + (c :: tl).length)
    simp only [LX, Bool.false_eq_true, if_false] at hrec
    rw [hrec, hlen, hT]
    simp only [List.reverse_cons, List.append_assoc, List.singleton_append]
    congr 1
    omega

include hext hflt in
/-- a fixed-length visitor on an array in the layout, closed by `end_seq` -/
theorem tupleArr_reads (wrap : List TVal → TVal) (d : Nat) (de : Schema → Bytes → Nat → TOut) (ss : List Schema) (t : Nat)
    (xs : List JV) (ys : List TVal) (hd : DepthOK env t (.arr xs)) (h : TupReads ext L de (d + 1) ss xs ys) :
    Reads (deSeq env t (fun r p => (tupleLoop env de ss true [] r p).map wrap)) (wrap ys) (TL ext L d (.arr xs)) := by
  intro rest pos hs
  obtain ⟨C, hC, hTa, hde⟩ := deSeq_arr_L ext L hext hflt d t xs hd
    (fun _ r p => (tupleLoop env de ss true [] r p).map wrap) rest pos
  have hloop := tupleLoop_reads ext L hflt (d + 1) de hC ss xs ys h true [] rest (pos + 1)
  have hlenT : (TL ext L d (.arr xs)).length = 1 + (LX ext L (d + 1) true xs).length + C.length + 1 := by
    rw [hTa]; simp; omega
  rw [hde, hloop, hlenT]
  simp only [Res.map, Res.bind, closeWith, endSeq_close_pad hC, List.nil_append, List.reverse_nil]
  congr 1
  omega

include hext hflt in
/-- fixed-length tuples -/
theorem reads_tuple (d : Nat) (ss : List Schema) (f t : Nat) (xs : List JV) (ys : List TVal) (hd : DepthOK env t (.arr xs))
    (h : TupReads ext L (deTyped env f (t + 1)) (d + 1) ss xs ys) :
    Reads (deTyped env (f + 1) t (.tuple ss)) (.seq ys) (TL ext L d (.arr xs)) := by
  rw [deTyped_tuple]
  exact tupleArr_reads ext L hext hflt .seq d _ ss t xs ys hd h

end

end SJ.Proofs.TypedRT
