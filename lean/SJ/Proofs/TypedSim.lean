import SJ.Proofs.TypedFuel
import SJ.Proofs.Utf8Machine
/-!
# Two runs of the typed model side by side (C09 slice / reader, C09 `&str` / slice, C13 fault / clean end)

`Sim e1 e2 V Q`: the environments `e1`, `e2` have the same configuration, `V` is a predicate on the unread
input that every successful parse hands on (for `&str` / slice: "is valid UTF-8"; trivial otherwise) and
`Q` relates the two results of one parsing function. The fields are exactly what the transcription of
`de.rs` uses of an environment: `atEof`, the `flt` tests, `errorIdx` at the sites that run
`read.position()` with a byte in the peek slot, and the byte-step machine as a sub-parser.
`sim_deTyped`: then `Q` relates `deTyped e1 …` and `deTyped e2 …` on every schema and input.

Instances: `SJ/Proofs/TypedSrc.lean` (slice / reader and `&str` / slice), `SJ/Proofs/TypedFaultEq.lean`
(failing reader / clean end of input).
-/
namespace SJ.Proofs.Typed
open SJ SJ.Gen SJ.Model SJ.Model.Typed
open SJ.Model.Machine (St Mode Frame Step step1 errIdx endNumber finishMode init)
open SJ.Model.Stream (skipWs)
open SJ.Proofs.Utf8 (mWs_ascii mDigit_ascii beq_ascii ident_ascii)

/-- continuation for a success and for a not yet positioned visitor error; everything else is passed on:
    the common shape of `Res.bind`, `fixPos` and `closeWith` -/
def handle {α β : Type} (r : Res α) (k : α → Bytes → Nat → Res β) (h : Bytes → Nat → Res β) : Res β :=
  match r with
  | .ok a rest pos => k a rest pos
  | .raw rest pos => h rest pos
  | .err c i => .err c i
  | .data i => .data i
  | .io => .io
  | .fuel => .fuel

theorem bind_eq_handle {α β : Type} (r : Res α) (k : α → Bytes → Nat → Res β) :
    r.bind k = handle r k fun rest pos => .raw rest pos := by cases r <;> rfl

theorem fixPos_eq_handle {α : Type} (env : Env) (pk : Bool) (r : Res α) :
    fixPos env pk r = handle r (fun a rest pos => .ok a rest pos) fun rest pos => .data (errorIdx env rest pos pk) := by
  cases r <;> rfl

theorem closeWith_eq_handle {α : Type} (env : Env) (endFn : Bytes → Nat → EndState) (ret : Res α) :
    closeWith env endFn ret = handle ret (fun a rest pos => (endFn rest pos).res.bind fun _ r p => .ok a r p)
      fun rest pos => .data (errorIdx env (endFn rest pos).rest (endFn rest pos).pos (endFn rest pos).peeked) := by
  cases ret <;> rfl

/-- the parser errors created by `self.error(code)` (= `read.position()`) while a byte is in the peek slot:
    `do_deserialize_i128/u128` (`NumberOutOfRange` after `scan_integer128`), `deserialize_numeric_key!`
    (`ExpectedNumericKey` after `peek()`), `deserialize_enum` (`ExpectedSomeValue` after `parse_whitespace()`) -/
def PeekCode (c : Code) : Prop := c = .NumberOutOfRange ∨ c = .ExpectedNumericKey ∨ c = .ExpectedSomeValue

/-- start states of the machine as a sub-parser (cf. `Startable`): a value is expected, or a string has just been opened -/
def StartSt (s : St) : Prop := s.mode = .val .top ∨ s.mode = .str {}

structure Sim (e1 e2 : Env) (V : Bytes → Prop) (Q : {α : Type} → Res α → Res α → Prop) : Prop where
  cfg : e1.cfg = e2.cfg
  /-- what follows an ASCII byte of an input satisfying `V` satisfies `V` -/
  vcut : ∀ (a : Bytes) (c : UInt8) (r : Bytes), c < 0x80 → V (a ++ c :: r) → V r
  ok : ∀ {α : Type} (a : α) (r : Bytes) (p : Nat), V r → Q (.ok a r p) (.ok a r p)
  err : ∀ {α : Type} (c : Code) (i : Nat), Q (.err c i : Res α) (.err c i)
  data : ∀ {α : Type} (i : Nat), Q (.data i : Res α) (.data i)
  raw : ∀ {α : Type} (r : Bytes) (p : Nat), Q (.raw r p : Res α) (.raw r p)
  fuel : ∀ {α : Type}, Q (.fuel : Res α) .fuel
  handle : ∀ {α β : Type} {r1 r2 : Res α} {k1 k2 : α → Bytes → Nat → Res β} {h1 h2 : Bytes → Nat → Res β},
    Q r1 r2 → (∀ a r p, r1 = .ok a r p → r2 = .ok a r p → V r → Q (k1 a r p) (k2 a r p)) →
    (∀ r p, r1 = .raw r p → r2 = .raw r p → Q (h1 r p) (h2 r p)) → Q (handle r1 k1 h1) (handle r2 k2 h2)
  eof : ∀ {α : Type} (c : Code) (p : Nat), Q (atEof e1 c p : Res α) (atEof e2 c p)
  flt : ∀ {α : Type} {x1 x2 : Res α}, Q x1 x2 → Q (if e1.flt then .io else x1) (if e2.flt then .io else x2)
  dataIdx : ∀ {α : Type} (r : Bytes) (p : Nat) (pk : Bool), Q (.data (errorIdx e1 r p pk) : Res α) (.data (errorIdx e2 r p pk))
  errIdx : ∀ {α : Type} (c : Code) (r : Bytes) (p : Nat) (pk : Bool), PeekCode c →
    Q (.err c (errorIdx e1 r p pk) : Res α) (.err c (errorIdx e2 r p pk))
  mach : ∀ (tgt : Machine.Tgt) (t : Nat) (s : St) (r : Bytes) (p : Nat), V r → StartSt s →
    Q (machine { cfg := e1.cfg, src := e1.src, tgt := tgt } e1.flt t s r p)
      (machine { cfg := e2.cfg, src := e2.src, tgt := tgt } e2.flt t s r p)

theorem q_ite {Q : {α : Type} → Res α → Res α → Prop} {α : Type} {c : Prop} [Decidable c] {a1 a2 b1 b2 : Res α}
    (h1 : c → Q a1 a2) (h2 : ¬ c → Q b1 b2) : Q (if c then a1 else b1) (if c then a2 else b2) := by
  split
  · exact h1 ‹_›
  · exact h2 ‹_›

variable {e1 e2 : Env} {V : Bytes → Prop} {Q : {α : Type} → Res α → Res α → Prop} (S : Sim e1 e2 V Q)
include S

theorem sim_bind {α β : Type} {r1 r2 : Res α} {k1 k2 : α → Bytes → Nat → Res β} (hr : Q r1 r2)
    (hk : ∀ a r p, r1 = .ok a r p → r2 = .ok a r p → V r → Q (k1 a r p) (k2 a r p)) : Q (r1.bind k1) (r2.bind k2) := by
  rw [bind_eq_handle, bind_eq_handle]
  exact S.handle hr hk fun r p _ _ => S.raw r p

theorem sim_bind' {α β : Type} {r1 r2 : Res α} {k1 k2 : α → Bytes → Nat → Res β} (hr : Q r1 r2)
    (hk : ∀ a r p, V r → Q (k1 a r p) (k2 a r p)) : Q (r1.bind k1) (r2.bind k2) :=
  sim_bind S hr fun a r p _ _ hv => hk a r p hv

theorem sim_map {α β : Type} {r1 r2 : Res α} (f : α → β) (hr : Q r1 r2) : Q (r1.map f) (r2.map f) :=
  sim_bind' S hr fun _ _ _ hv => S.ok _ _ _ hv

theorem sim_fixPos {α : Type} {r1 r2 : Res α} (pk : Bool) (hr : Q r1 r2) : Q (fixPos e1 pk r1) (fixPos e2 pk r2) := by
  rw [fixPos_eq_handle, fixPos_eq_handle]
  exact S.handle hr (fun _ _ _ _ _ hv => S.ok _ _ _ hv) fun r p _ _ => S.dataIdx r p pk

theorem sim_vstep {b : UInt8} {r : Bytes} (hb : b < 0x80) (hv : V (b :: r)) : V r := S.vcut [] b r hb hv

theorem sim_skipWs (rest : Bytes) (pos : Nat) (hv : V rest) : V (skipWs rest pos).1 := by
  induction rest generalizing pos with
  | nil => exact hv
  | cons b r ih =>
    simp only [skipWs]
    split
    · exact ih _ (sim_vstep S (mWs_ascii ‹_›) hv)
    · exact hv

theorem sim_withPeek {α : Type} {c : Code} {rest : Bytes} {pos : Nat} {k1 k2 : UInt8 → Bytes → Nat → Res α} (hv : V rest)
    (hk : ∀ b r p, V (b :: r) → Q (k1 b r p) (k2 b r p)) : Q (withPeek e1 c rest pos k1) (withPeek e2 c rest pos k2) := by
  have h := sim_skipWs S rest pos hv
  unfold withPeek
  generalize skipWs rest pos = x at h
  obtain ⟨l, p⟩ := x
  cases l with
  | nil => exact S.eof c p
  | cons b r => exact hk b r p h

theorem sim_flt_and {α : Type} {x1 x2 : Res α} (c : Bool) (h : Q x1 x2) :
    Q (if c && e1.flt then .io else x1) (if c && e2.flt then .io else x2) := by
  cases c
  · simpa using h
  · simpa using S.flt h

theorem sim_parseIdent (id : Bytes) (hid : ∀ x ∈ id, x < 0x80) (rest : Bytes) (pos : Nat) (hv : V rest) :
    Q (parseIdent e1 id rest pos) (parseIdent e2 id rest pos) := by
  induction id generalizing rest pos with
  | nil => simp only [parseIdent]; exact S.ok _ _ _ hv
  | cons e es ih =>
    cases rest with
    | nil => simp only [parseIdent]; exact S.eof _ _
    | cons b r =>
      simp only [parseIdent]
      refine q_ite (fun h => ?_) fun _ => S.err _ _
      exact ih (fun x hx => hid x (by simp [hx])) _ _ (sim_vstep S (beq_ascii h (hid e (by simp))) hv)

omit S in
theorem peekInvalidType_cons {α : Type} (env : Env) (b : UInt8) (r : Bytes) (pos : Nat) :
    (peekInvalidType env (b :: r) pos : Res α) =
      if b == 0x5b || b == 0x7b then .data (errorIdx env (b :: r) pos true)
      else (machine (valEnv env) env.flt 0 init (b :: r) pos).bind fun _ r' p' => .data (errorIdx env r' p' (isNumStart b)) := by
  simp only [peekInvalidType]
  split
  · rfl
  · cases machine (valEnv env) env.flt 0 init (b :: r) pos <;> rfl

theorem sim_peekInvalidType {α : Type} {b : UInt8} {r : Bytes} {pos : Nat} (hv : V (b :: r)) :
    Q (peekInvalidType e1 (b :: r) pos : Res α) (peekInvalidType e2 (b :: r) pos) := by
  rw [peekInvalidType_cons, peekInvalidType_cons]
  refine q_ite (fun _ => S.dataIdx _ _ _) fun _ => ?_
  exact sim_bind' S (S.mach .value 0 init _ _ hv (Or.inl rfl)) fun _ _ _ _ => S.dataIdx _ _ _

theorem sim_ident_ok (id : Bytes) (hid : ∀ x ∈ id, x < 0x80) (v : TVal) (r : Bytes) (p : Nat) (hv : V r) :
    Q ((parseIdent e1 id r p).bind fun _ r' p' => (.ok v r' p' : TOut))
      ((parseIdent e2 id r p).bind fun _ r' p' => (.ok v r' p' : TOut)) :=
  sim_bind' S (sim_parseIdent S id hid r p hv) fun _ _ _ hv' => S.ok _ _ _ hv'

theorem sim_deBool (rest : Bytes) (pos : Nat) (hv : V rest) : Q (deBool e1 rest pos) (deBool e2 rest pos) := by
  unfold deBool
  refine sim_withPeek S hv fun b r p hb => ?_
  refine q_ite (fun h => ?_) fun _ => q_ite (fun h => ?_) fun _ => sim_peekInvalidType S hb
  · exact sim_ident_ok S _ ident_ascii.2.1 _ _ _ (sim_vstep S (beq_ascii h (by decide)) hb)
  · exact sim_ident_ok S _ ident_ascii.2.2 _ _ _ (sim_vstep S (beq_ascii h (by decide)) hb)

theorem sim_deUnit (rest : Bytes) (pos : Nat) (hv : V rest) : Q (deUnit e1 rest pos) (deUnit e2 rest pos) := by
  unfold deUnit
  refine sim_withPeek S hv fun b r p hb => ?_
  refine q_ite (fun h => ?_) fun _ => sim_peekInvalidType S hb
  exact sim_ident_ok S _ ident_ascii.1 _ _ _ (sim_vstep S (beq_ascii h (by decide)) hb)

/-! ## numbers -/

theorem sim_digitsOf (r : Bytes) (hv : V r) : V (digitsOf r).2 := by
  induction r with
  | nil => exact hv
  | cons c r ih =>
    simp only [digitsOf]
    split
    · exact ih (sim_vstep S (mDigit_ascii ‹_›) hv)
    · exact hv

theorem sim_scanExpDigits (neg : Bool) (int : Bytes) (frac : Option Bytes) (en : Bool) (rest : Bytes) (pos : Nat) (hv : V rest) :
    Q (scanExpDigits e1 neg int frac en rest pos) (scanExpDigits e2 neg int frac en rest pos) := by
  cases rest with
  | nil => simp only [scanExpDigits]; exact S.eof _ _
  | cons d r2 =>
    simp only [scanExpDigits]
    refine q_ite (fun _ => S.err _ _) fun hd => ?_
    have hd' : Machine.isDigit d = true := by simpa using hd
    have hv3 : V (digitsOf r2).2 := sim_digitsOf S r2 (sim_vstep S (mDigit_ascii hd') hv)
    split
    · exact q_ite (fun _ => S.err _ _) fun _ => sim_flt_and S _ (S.ok _ _ _ hv3)
    · exact sim_flt_and S _ (S.ok _ _ _ hv3)

theorem sim_scanExp (neg : Bool) (int : Bytes) (frac : Option Bytes) (rest : Bytes) (pos : Nat) (hv : V rest) :
    Q (scanExp e1 neg int frac rest pos) (scanExp e2 neg int frac rest pos) := by
  cases rest with
  | nil => simp only [scanExp]; exact S.eof _ _
  | cons c r =>
    simp only [scanExp]
    refine q_ite (fun h => ?_) fun _ => q_ite (fun h => ?_) fun _ => sim_scanExpDigits S _ _ _ _ _ _ hv
    · exact sim_scanExpDigits S _ _ _ _ _ _ (sim_vstep S (beq_ascii h (by decide)) hv)
    · exact sim_scanExpDigits S _ _ _ _ _ _ (sim_vstep S (beq_ascii h (by decide)) hv)

theorem sim_scanAfterInt (neg : Bool) (int : Bytes) (rest : Bytes) (pos : Nat) (hv : V rest) :
    Q (scanAfterInt e1 neg int rest pos) (scanAfterInt e2 neg int rest pos) := by
  cases rest with
  | nil => simp only [scanAfterInt]; exact S.flt (S.ok _ _ _ hv)
  | cons c r =>
    simp only [scanAfterInt]
    refine q_ite (fun h => ?_) fun _ => q_ite (fun h => ?_) fun _ => S.ok _ _ _ hv
    · have hv2 : V (digitsOf r).2 := sim_digitsOf S r (sim_vstep S (beq_ascii h (by decide)) hv)
      split
      · exact q_ite (fun _ => S.eof _ _) fun _ => S.flt (S.ok _ _ _ (by simpa [*] using hv2))
      · rename_i c2 r3 h2
        rw [h2] at hv2
        refine q_ite (fun _ => S.err _ _) fun _ => q_ite (fun h' => ?_) fun _ => S.ok _ _ _ hv2
        exact sim_scanExp S _ _ _ _ _ (sim_vstep S (Utf8.beq2_ascii h' (by decide) (by decide)) hv2)
    · exact sim_scanExp S _ _ _ _ _ (sim_vstep S (Utf8.beq2_ascii h (by decide) (by decide)) hv)

theorem sim_scanInteger (neg : Bool) (rest : Bytes) (pos : Nat) (hv : V rest) :
    Q (scanInteger e1 neg rest pos) (scanInteger e2 neg rest pos) := by
  cases rest with
  | nil => simp only [scanInteger]; exact S.eof _ _
  | cons c r =>
    simp only [scanInteger]
    refine q_ite (fun h => ?_) fun _ => q_ite (fun h => ?_) fun _ => S.err _ _
    · have hr : V r := sim_vstep S (beq_ascii h (by decide)) hv
      split
      · exact sim_scanAfterInt S _ _ _ _ hr
      · exact q_ite (fun _ => S.err _ _) fun _ => sim_scanAfterInt S _ _ _ _ hr
    · exact sim_scanAfterInt S _ _ _ _ (sim_digitsOf S r (sim_vstep S (mDigit_ascii h) hv))

theorem sim_scanNumber (rest : Bytes) (pos : Nat) (hv : V rest) : Q (scanNumber e1 rest pos) (scanNumber e2 rest pos) := by
  cases rest with
  | nil => simp only [scanNumber]; exact S.eof _ _
  | cons b r =>
    simp only [scanNumber]
    exact q_ite (fun h => sim_scanInteger S _ _ _ (sim_vstep S (beq_ascii h (by decide)) hv)) fun _ => sim_scanInteger S _ _ _ hv

omit S in
theorem parserNumber_cfg (h : e1.cfg = e2.cfg) (p : Model.Num.Parts) : parserNumber e1 p = parserNumber e2 p := by
  unfold parserNumber; rw [h]

theorem sim_ofVisit (v : FromValue.R) (r : Bytes) (p : Nat) (hv : V r) : Q (ofVisit v r p) (ofVisit v r p) := by
  unfold ofVisit
  split
  · exact S.ok _ _ _ hv
  · exact S.raw _ _

theorem sim_deNumber (ty : NumTy) (rest : Bytes) (pos : Nat) (hv : V rest) : Q (deNumber e1 ty rest pos) (deNumber e2 ty rest pos) := by
  unfold deNumber
  refine sim_withPeek S hv fun b r p hb => ?_
  refine q_ite (fun _ => ?_) fun _ => sim_peekInvalidType S hb
  refine sim_bind' S (sim_scanNumber S _ _ hb) fun parts r' p' hv' => ?_
  rw [parserNumber_cfg S.cfg, S.cfg]
  refine q_ite (fun _ => ?_) fun _ => ?_
  · split
    · exact S.ok _ _ _ hv'
    · exact S.err _ _
  · split
    · exact sim_fixPos S true (sim_ofVisit S _ _ _ hv')
    · exact S.err _ _

theorem sim_scanDigits (acc rest : Bytes) (pos : Nat) (hv : V rest) : Q (scanDigits e1 acc rest pos) (scanDigits e2 acc rest pos) := by
  induction rest generalizing acc pos with
  | nil => simp only [scanDigits]; exact S.flt (S.ok _ _ _ hv)
  | cons c r ih =>
    simp only [scanDigits]
    exact q_ite (fun h => ih _ _ (sim_vstep S (mDigit_ascii h) hv)) fun _ => S.ok _ _ _ hv

theorem sim_scanInteger128 (rest : Bytes) (pos : Nat) (hv : V rest) : Q (scanInteger128 e1 rest pos) (scanInteger128 e2 rest pos) := by
  cases rest with
  | nil => simp only [scanInteger128]; exact S.eof _ _
  | cons c r =>
    simp only [scanInteger128]
    refine q_ite (fun h => ?_) fun _ => q_ite (fun h => ?_) fun _ => S.err _ _
    · have hr : V r := sim_vstep S (beq_ascii h (by decide)) hv
      split
      · exact S.flt (S.ok _ _ _ hr)
      · exact q_ite (fun _ => S.err _ _) fun _ => S.ok _ _ _ hr
    · exact sim_scanDigits S _ _ _ (sim_vstep S (mDigit_ascii h) hv)

theorem sim_deInt128 (w : IntTy) (rest : Bytes) (pos : Nat) (hv : V rest) : Q (deInt128 e1 w rest pos) (deInt128 e2 w rest pos) := by
  unfold deInt128
  refine sim_withPeek S hv fun b r p hb => ?_
  have fin : ∀ (neg : Bool) (r0 : Bytes) (p0 : Nat), V r0 →
      Q ((scanInteger128 e1 r0 p0).bind fun ds rest' pos' =>
          match FromValue.rustParseInt w (if neg then 0x2d :: ds else ds) with
          | some x => (.ok (.int x) rest' pos' : TOut)
          | none => .err .NumberOutOfRange (errorIdx e1 rest' pos' true))
        ((scanInteger128 e2 r0 p0).bind fun ds rest' pos' =>
          match FromValue.rustParseInt w (if neg then 0x2d :: ds else ds) with
          | some x => (.ok (.int x) rest' pos' : TOut)
          | none => .err .NumberOutOfRange (errorIdx e2 rest' pos' true)) := by
    intro neg r0 p0 h0
    refine sim_bind' S (sim_scanInteger128 S _ _ h0) fun ds r' p' hv' => ?_
    split
    · exact S.ok _ _ _ hv'
    · exact S.errIdx _ _ _ _ (.inl rfl)
  dsimp only
  refine q_ite (fun h => q_ite (fun _ => ?_) fun _ => S.err _ _) fun _ => ?_
  · exact fin true _ _ (sim_vstep S (beq_ascii h (by decide)) hb)
  · exact fin false _ _ hb

theorem sim_deInt (w : IntTy) (rest : Bytes) (pos : Nat) (hv : V rest) : Q (deInt e1 w rest pos) (deInt e2 w rest pos) := by
  unfold deInt
  exact q_ite (fun _ => sim_deInt128 S _ _ _ hv) fun _ => sim_deNumber S _ _ _ hv

/-! ## strings -/

theorem sim_machV (t : Nat) (s : St) (r : Bytes) (p : Nat) (hv : V r) (hs : StartSt s) :
    Q (machine (valEnv e1) e1.flt t s r p) (machine (valEnv e2) e2.flt t s r p) := S.mach .value t s r p hv hs

theorem sim_parseStr (rest : Bytes) (pos : Nat) (hv : V rest) : Q (parseStr e1 rest pos) (parseStr e2 rest pos) := by
  unfold parseStr
  refine sim_bind' S (sim_machV S 0 _ _ _ hv (Or.inr rfl)) fun v r' p' hv' => ?_
  split <;> exact S.ok _ _ _ hv'

theorem sim_deStr (visit : Bytes → FromValue.R) (rest : Bytes) (pos : Nat) (hv : V rest) :
    Q (deStr e1 visit rest pos) (deStr e2 visit rest pos) := by
  unfold deStr
  refine sim_withPeek S hv fun b r p hb => ?_
  refine q_ite (fun h => ?_) fun _ => sim_peekInvalidType S hb
  refine sim_bind' S (sim_parseStr S _ _ (sim_vstep S (beq_ascii h (by decide)) hb)) fun s r' p' hv' => ?_
  exact sim_fixPos S false (sim_ofVisit S _ _ _ hv')

omit S in
theorem stepRaw_done (st : RawSt) (b : UInt8) (h : stepRaw st b = .done) : b = 0x22 := by
  unfold stepRaw at h
  split at h
  all_goals (try dsimp only at h)
  all_goals (repeat' split at h)
  all_goals (try dsimp only at h)
  all_goals (repeat' split at h)
  all_goals first
    | (cases h; done)
    | (rename_i hb; simpa using hb)

theorem sim_runRaw (st : RawSt) (pre rest : Bytes) (pos : Nat) (hv : V (pre ++ rest)) :
    Q (runRaw e1 st rest pos) (runRaw e2 st rest pos) := by
  induction rest generalizing st pre pos with
  | nil => simp only [runRaw]; exact S.eof _ _
  | cons b r ih =>
    have hnext : V ((pre ++ [b]) ++ r) := by simpa using hv
    have hdone : b = 0x22 → V r := fun hb => S.vcut pre b r (by subst hb; decide) hv
    simp only [runRaw]
    split
    · rename_i h; exact S.ok _ _ _ (hdone (stepRaw_done _ _ h))
    · exact S.err _ _
    · exact ih _ _ _ hnext
    · split
      · rename_i h; exact S.ok _ _ _ (hdone (stepRaw_done _ _ h))
      · exact S.err _ _
      · exact ih _ _ _ hnext
      · exact S.err _ _

theorem sim_parseStrRaw (rest : Bytes) (pos : Nat) (hv : V rest) : Q (parseStrRaw e1 rest pos) (parseStrRaw e2 rest pos) :=
  sim_runRaw S _ [] rest pos hv

/-! ## sequences -/

theorem sim_hasNextElement (first : Bool) (rest : Bytes) (pos : Nat) (hv : V rest) :
    Q (hasNextElement e1 first rest pos) (hasNextElement e2 first rest pos) := by
  unfold hasNextElement
  refine sim_withPeek S hv fun b r p hb => ?_
  refine q_ite (fun _ => S.ok _ _ _ hb) fun _ => q_ite (fun _ => S.ok _ _ _ hb) fun _ => q_ite (fun h => ?_) fun _ => S.err _ _
  refine sim_withPeek S (sim_vstep S (beq_ascii h (by decide)) hb) fun c r' q hc => ?_
  exact q_ite (fun _ => S.err _ _) fun _ => S.ok _ _ _ hc

theorem sim_nextElement (de1 de2 : Bytes → Nat → TOut) (hde : ∀ r p, V r → Q (de1 r p) (de2 r p)) (first : Bool)
    (rest : Bytes) (pos : Nat) (hv : V rest) : Q (nextElement e1 de1 first rest pos) (nextElement e2 de2 first rest pos) := by
  unfold nextElement
  refine sim_bind' S (sim_hasNextElement S _ _ _ hv) fun more r p hr => ?_
  exact q_ite (fun _ => sim_map S _ (hde r p hr)) fun _ => S.ok _ _ _ hr

theorem sim_seqLoop (de1 de2 : Bytes → Nat → TOut) (hde : ∀ r p, V r → Q (de1 r p) (de2 r p)) (n : Nat) (first : Bool)
    (acc : List TVal) (rest : Bytes) (pos : Nat) (hv : V rest) :
    Q (seqLoop e1 de1 n first acc rest pos) (seqLoop e2 de2 n first acc rest pos) := by
  induction n generalizing first acc rest pos with
  | zero => simp only [seqLoop]; exact S.fuel
  | succ n ih =>
    simp only [seqLoop]
    refine sim_bind' S (sim_nextElement S de1 de2 hde _ _ _ hv) fun o r p hr => ?_
    split
    · exact S.ok _ _ _ hr
    · exact ih _ _ _ _ hr

theorem sim_tupleLoop (de1 de2 : Schema → Bytes → Nat → TOut) (ss : List Schema)
    (hde : ∀ s ∈ ss, ∀ r p, V r → Q (de1 s r p) (de2 s r p)) (first : Bool) (acc : List TVal) (rest : Bytes) (pos : Nat)
    (hv : V rest) : Q (tupleLoop e1 de1 ss first acc rest pos) (tupleLoop e2 de2 ss first acc rest pos) := by
  induction ss generalizing first acc rest pos with
  | nil => simp only [tupleLoop]; exact S.ok _ _ _ hv
  | cons s ss ih =>
    simp only [tupleLoop]
    refine sim_bind' S (sim_nextElement S _ _ (hde s (by simp)) _ _ _ hv) fun o r p hr => ?_
    split
    · exact S.raw _ _
    · exact ih (fun s' hs' => hde s' (by simp [hs'])) _ _ _ _ hr

omit S in
/-- the reader state `end_seq` leaves behind does not depend on the environment -/
theorem endSeq_state (e1 e2 : Env) (rest : Bytes) (pos : Nat) :
    (endSeq e1 rest pos).rest = (endSeq e2 rest pos).rest ∧ (endSeq e1 rest pos).pos = (endSeq e2 rest pos).pos ∧
    (endSeq e1 rest pos).peeked = (endSeq e2 rest pos).peeked := by
  unfold endSeq
  repeat' split
  all_goals exact ⟨rfl, rfl, rfl⟩

omit S in
theorem endMap_state (e1 e2 : Env) (rest : Bytes) (pos : Nat) :
    (endMap e1 rest pos).rest = (endMap e2 rest pos).rest ∧ (endMap e1 rest pos).pos = (endMap e2 rest pos).pos ∧
    (endMap e1 rest pos).peeked = (endMap e2 rest pos).peeked := by
  unfold endMap
  repeat' split
  all_goals exact ⟨rfl, rfl, rfl⟩

theorem sim_endSeq (rest : Bytes) (pos : Nat) (hv : V rest) : Q (endSeq e1 rest pos).res (endSeq e2 rest pos).res := by
  have h := sim_skipWs S rest pos hv
  unfold endSeq
  generalize skipWs rest pos = x at h
  obtain ⟨l, p⟩ := x
  cases l with
  | nil => exact S.eof _ _
  | cons b r =>
    dsimp only
    split
    · rename_i h1; exact S.ok _ _ _ (sim_vstep S (beq_ascii h1 (by decide)) h)
    · split
      · split <;> exact S.err _ _
      · exact S.err _ _

theorem sim_endMap (rest : Bytes) (pos : Nat) (hv : V rest) : Q (endMap e1 rest pos).res (endMap e2 rest pos).res := by
  have h := sim_skipWs S rest pos hv
  unfold endMap
  generalize skipWs rest pos = x at h
  obtain ⟨l, p⟩ := x
  cases l with
  | nil => exact S.eof _ _
  | cons b r =>
    dsimp only
    split
    · rename_i h1; exact S.ok _ _ _ (sim_vstep S (beq_ascii h1 (by decide)) h)
    · exact S.err _ _

theorem sim_closeWith {α : Type} (f1 f2 : Bytes → Nat → EndState) (hres : ∀ r p, V r → Q (f1 r p).res (f2 r p).res)
    (hst : ∀ r p, (f1 r p).rest = (f2 r p).rest ∧ (f1 r p).pos = (f2 r p).pos ∧ (f1 r p).peeked = (f2 r p).peeked)
    {ret1 ret2 : Res α} (h : Q ret1 ret2) : Q (closeWith e1 f1 ret1) (closeWith e2 f2 ret2) := by
  rw [closeWith_eq_handle, closeWith_eq_handle]
  refine S.handle h (fun a r p _ _ hv => sim_bind' S (hres r p hv) fun _ _ _ hv' => S.ok _ _ _ hv') fun r p _ _ => ?_
  rw [(hst r p).1, (hst r p).2.1, (hst r p).2.2]
  exact S.dataIdx _ _ _

omit S in
theorem tooDeep_cfg (h : e1.cfg = e2.cfg) (t : Nat) : tooDeep e1 t = tooDeep e2 t := by unfold tooDeep; rw [h]

theorem sim_deSeq (t : Nat) (v1 v2 : Bytes → Nat → TOut) (hvis : ∀ r p, V r → Q (v1 r p) (v2 r p)) (rest : Bytes) (pos : Nat)
    (hv : V rest) : Q (deSeq e1 t v1 rest pos) (deSeq e2 t v2 rest pos) := by
  unfold deSeq
  refine sim_withPeek S hv fun b r p hb => ?_
  refine q_ite (fun h => ?_) fun _ => sim_peekInvalidType S hb
  rw [tooDeep_cfg S.cfg]
  refine q_ite (fun _ => S.err _ _) fun _ => ?_
  exact sim_closeWith S _ _ (sim_endSeq S) (endSeq_state e1 e2) (hvis _ _ (sim_vstep S (beq_ascii h (by decide)) hb))

theorem sim_deBytes (t : Nat) (rest : Bytes) (pos : Nat) (hv : V rest) : Q (deBytes e1 t rest pos) (deBytes e2 t rest pos) := by
  unfold deBytes
  refine sim_withPeek S hv fun b r p hb => ?_
  refine q_ite (fun h => ?_) fun _ => q_ite (fun _ => ?_) fun _ => sim_peekInvalidType S hb
  · exact sim_map S _ (sim_parseStrRaw S _ _ (sim_vstep S (beq_ascii h (by decide)) hb))
  · exact sim_deSeq S t _ _ (fun r' p' hr' => sim_map S _ (sim_seqLoop S _ _ (sim_deNumber S _) _ _ _ _ _ hr')) _ _ hb

/-! ## maps -/

theorem sim_hasNextKey (first : Bool) (rest : Bytes) (pos : Nat) (hv : V rest) :
    Q (hasNextKey e1 first rest pos) (hasNextKey e2 first rest pos) := by
  unfold hasNextKey
  refine sim_withPeek S hv fun b r p hb => ?_
  refine q_ite (fun _ => S.ok _ _ _ hb) fun _ => q_ite (fun _ => ?_) fun _ => q_ite (fun h => ?_) fun _ => S.err _ _
  · exact q_ite (fun _ => S.ok _ _ _ hb) fun _ => S.err _ _
  · refine sim_withPeek S (sim_vstep S (beq_ascii h (by decide)) hb) fun c r' q hc => ?_
    exact q_ite (fun _ => S.ok _ _ _ hc) fun _ => q_ite (fun _ => S.err _ _) fun _ => S.err _ _

omit S in
/-- `has_next_key` answers `true` only with the key's opening quote peeked -/
theorem hasNextKey_quote (env : Env) (first : Bool) (rest : Bytes) (pos : Nat) (r : Bytes) (p : Nat)
    (h : hasNextKey env first rest pos = .ok true r p) : ∃ r', r = 0x22 :: r' := by
  unfold hasNextKey withPeek at h
  simp only at h
  repeat' split at h
  all_goals first
    | (simp at h; done)
    | exact absurd h (atEof_ne_ok _ _ _ _ _ _)
    | (rename_i hq; simp only [beq_iff_eq] at hq; subst hq; cases h; exact ⟨_, rfl⟩)

theorem sim_parseObjectColon (rest : Bytes) (pos : Nat) (hv : V rest) :
    Q (parseObjectColon e1 rest pos) (parseObjectColon e2 rest pos) := by
  unfold parseObjectColon
  refine sim_withPeek S hv fun b r p hb => ?_
  exact q_ite (fun h => S.ok _ _ _ (sim_vstep S (beq_ascii h (by decide)) hb)) fun _ => S.err _ _

theorem sim_keyStr (visit : Bytes → FromValue.R) (rest : Bytes) (pos : Nat) (hv : V (rest.drop 1)) :
    Q (keyStr e1 visit rest pos) (keyStr e2 visit rest pos) := by
  unfold keyStr
  exact sim_bind' S (sim_parseStr S _ _ hv) fun s r p hr => sim_ofVisit S _ _ _ hr

theorem sim_keyInt (w : IntTy) (rest : Bytes) (pos : Nat) (hv : V (rest.drop 1)) :
    Q (keyInt e1 w rest pos) (keyInt e2 w rest pos) := by
  unfold keyInt
  generalize rest.drop 1 = l at hv
  cases l with
  | nil => exact S.eof _ _
  | cons b r =>
    dsimp only
    refine q_ite (fun _ => S.errIdx _ _ _ _ (.inr (.inl rfl))) fun _ => ?_
    refine sim_bind' S (sim_deInt S w _ _ hv) fun v r' p' hr' => ?_
    cases r' with
    | nil => exact S.eof _ _
    | cons c r'' =>
      dsimp only
      exact q_ite (fun h => S.ok _ _ _ (sim_vstep S (beq_ascii h (by decide)) hr')) fun _ => S.err _ _

omit S in
theorem identQ_ascii : (∀ x ∈ identTrueQ, x < 0x80) ∧ (∀ x ∈ identFalseQ, x < 0x80) := by decide

theorem sim_keyBool (rest : Bytes) (pos : Nat) (hv : V (rest.drop 1)) : Q (keyBool e1 rest pos) (keyBool e2 rest pos) := by
  unfold keyBool
  generalize rest.drop 1 = l at hv
  cases l with
  | nil => exact S.eof _ _
  | cons b r =>
    dsimp only
    refine q_ite (fun h => ?_) fun _ => q_ite (fun h => ?_) fun _ => ?_
    · exact sim_ident_ok S _ identQ_ascii.1 _ _ _ (sim_vstep S (beq_ascii h (by decide)) hv)
    · exact sim_ident_ok S _ identQ_ascii.2 _ _ _ (sim_vstep S (beq_ascii h (by decide)) hv)
    · exact sim_bind' S (sim_parseStr S _ _ hv) fun _ _ _ _ => S.dataIdx _ _ _

theorem sim_deVariantId (names : List Bytes) (rest : Bytes) (pos : Nat) (hv : V rest) :
    Q (deVariantId e1 names rest pos) (deVariantId e2 names rest pos) := sim_deStr S _ _ _ hv

theorem sim_keyUnitEnum (names : List Bytes) (rest : Bytes) (pos : Nat) (hv : V rest) :
    Q (keyUnitEnum e1 names rest pos) (keyUnitEnum e2 names rest pos) := by
  unfold keyUnitEnum
  refine sim_bind' S (sim_deVariantId S _ _ _ hv) fun v r p hr => ?_
  split
  · exact S.ok _ _ _ hr
  · exact S.raw _ _

theorem sim_deKey (k : KeyKind) (b : UInt8) (r : Bytes) (pos : Nat) (hb : b < 0x80) (hv : V (b :: r)) :
    Q (deKey e1 k (b :: r) pos) (deKey e2 k (b :: r) pos) := by
  have hr : V ((b :: r).drop 1) := sim_vstep S hb hv
  unfold deKey
  split
  · exact sim_keyStr S _ _ _ hr
  · exact sim_keyInt S _ _ _ hr
  · exact sim_keyBool S _ _ hr
  · exact sim_keyStr S _ _ _ hr
  · exact sim_keyUnitEnum S _ _ _ hv

theorem sim_mapLoop (k : KeyKind) (de1 de2 : Bytes → Nat → TOut) (hde : ∀ r p, V r → Q (de1 r p) (de2 r p)) (n : Nat)
    (first : Bool) (acc : List (TVal × TVal)) (rest : Bytes) (pos : Nat) (hv : V rest) :
    Q (mapLoop e1 k de1 n first acc rest pos) (mapLoop e2 k de2 n first acc rest pos) := by
  induction n generalizing first acc rest pos with
  | zero => simp only [mapLoop]; exact S.fuel
  | succ n ih =>
    simp only [mapLoop]
    refine sim_bind S (sim_hasNextKey S _ _ _ hv) fun more r p hm _ hr => ?_
    refine q_ite (fun _ => S.ok _ _ _ hr) fun hmore => ?_
    have hmt : more = true := by simpa using hmore
    subst hmt
    obtain ⟨r', rfl⟩ := hasNextKey_quote _ _ _ _ _ _ hm
    refine sim_bind' S (sim_deKey S k _ _ _ (by decide) hr) fun kv r1 p1 h1 => ?_
    refine sim_bind' S (sim_parseObjectColon S r1 p1 h1) fun _ r2 p2 h2 => ?_
    exact sim_bind' S (hde r2 p2 h2) fun v r3 p3 h3 => ih _ _ _ _ h3

theorem sim_deMap (t : Nat) (v1 v2 : Bytes → Nat → TOut) (hvis : ∀ r p, V r → Q (v1 r p) (v2 r p)) (rest : Bytes) (pos : Nat)
    (hv : V rest) : Q (deMap e1 t v1 rest pos) (deMap e2 t v2 rest pos) := by
  unfold deMap
  refine sim_withPeek S hv fun b r p hb => ?_
  refine q_ite (fun h => ?_) fun _ => sim_peekInvalidType S hb
  rw [tooDeep_cfg S.cfg]
  refine q_ite (fun _ => S.err _ _) fun _ => ?_
  exact sim_closeWith S _ _ (sim_endMap S) (endMap_state e1 e2) (hvis _ _ (sim_vstep S (beq_ascii h (by decide)) hb))

/-! ## structs, enums -/

theorem sim_ignoreValue (rest : Bytes) (pos : Nat) (hv : V rest) : Q (ignoreValue e1 rest pos) (ignoreValue e2 rest pos) := by
  unfold ignoreValue
  exact sim_map S _ (S.mach .ignored 0 init rest pos hv (Or.inl rfl))

theorem sim_structLoop (de1 de2 : Schema → Bytes → Nat → TOut) (fs : List (Bytes × Schema))
    (hde : ∀ f ∈ fs, ∀ r p, V r → Q (de1 f.2 r p) (de2 f.2 r p)) (deny : Bool) (n : Nat) (first : Bool)
    (slots : List (Option TVal)) (rest : Bytes) (pos : Nat) (hv : V rest) :
    Q (structLoop e1 de1 fs deny n first slots rest pos) (structLoop e2 de2 fs deny n first slots rest pos) := by
  induction n generalizing first slots rest pos with
  | zero => simp only [structLoop]; exact S.fuel
  | succ n ih =>
    simp only [structLoop]
    refine sim_bind S (sim_hasNextKey S _ _ _ hv) fun more r p hm _ hr => ?_
    refine q_ite (fun _ => S.ok _ _ _ hr) fun hmore => ?_
    have hmt : more = true := by simpa using hmore
    subst hmt
    obtain ⟨r', rfl⟩ := hasNextKey_quote _ _ _ _ _ _ hm
    have hr' : V ((0x22 :: r').drop 1) := sim_vstep S (by decide) hr
    refine sim_bind' S (sim_parseStr S _ _ hr') fun name r1 p1 h1 => ?_
    split
    · split
      · exact S.raw _ _
      · refine sim_bind' S (sim_parseObjectColon S r1 p1 h1) fun _ r2 p2 h2 => ?_
        split
        · rename_i nm s hs
          exact sim_bind' S (hde _ (mem_of_getElem? hs) r2 p2 h2) fun v r3 p3 h3 => ih _ _ _ _ h3
        · exact S.raw _ _
    · refine q_ite (fun _ => S.raw _ _) fun _ => ?_
      refine sim_bind' S (sim_parseObjectColon S r1 p1 h1) fun _ r2 p2 h2 => ?_
      exact sim_bind' S (sim_ignoreValue S r2 p2 h2) fun _ r3 p3 h3 => ih _ _ _ _ h3

theorem sim_structVisitMap (de1 de2 : Schema → Bytes → Nat → TOut) (fs : List (Bytes × Schema))
    (hde : ∀ f ∈ fs, ∀ r p, V r → Q (de1 f.2 r p) (de2 f.2 r p)) (deny : Bool) (rest : Bytes) (pos : Nat) (hv : V rest) :
    Q (structVisitMap e1 de1 fs deny rest pos) (structVisitMap e2 de2 fs deny rest pos) := by
  unfold structVisitMap
  refine sim_bind' S (sim_structLoop S de1 de2 fs hde deny _ _ _ _ _ hv) fun slots r p hr => ?_
  split
  · exact S.ok _ _ _ hr
  · exact S.raw _ _

theorem sim_deStruct (t : Nat) (de1 de2 : Nat → Schema → Bytes → Nat → TOut) (fs : List (Bytes × Schema))
    (hde : ∀ f ∈ fs, ∀ d r p, V r → Q (de1 d f.2 r p) (de2 d f.2 r p)) (deny : Bool) (rest : Bytes) (pos : Nat) (hv : V rest) :
    Q (deStruct e1 t de1 fs deny rest pos) (deStruct e2 t de2 fs deny rest pos) := by
  unfold deStruct
  refine sim_withPeek S hv fun b r p hb => ?_
  rw [tooDeep_cfg S.cfg]
  refine q_ite (fun h => ?_) fun _ => q_ite (fun h => ?_) fun _ => sim_peekInvalidType S hb
  · refine q_ite (fun _ => S.err _ _) fun _ => ?_
    refine sim_closeWith S _ _ (sim_endSeq S) (endSeq_state e1 e2) (sim_map S _ ?_)
    refine sim_tupleLoop S _ _ _ ?_ _ _ _ _ (sim_vstep S (beq_ascii h (by decide)) hb)
    intro s hs
    obtain ⟨f, hf', rfl⟩ := List.mem_map.mp hs
    exact hde f hf' _
  · refine q_ite (fun _ => S.err _ _) fun _ => ?_
    refine sim_closeWith S _ _ (sim_endMap S) (endMap_state e1 e2) ?_
    exact sim_structVisitMap S _ _ fs (fun f hf' => hde f hf' _) deny _ _ (sim_vstep S (beq_ascii h (by decide)) hb)

theorem sim_dePayload (t : Nat) (de1 de2 : Nat → Schema → Bytes → Nat → TOut) (sh : VariantShape)
    (hde : ∀ s ∈ shapeSchemas sh, ∀ d r p, V r → Q (de1 d s r p) (de2 d s r p)) (rest : Bytes) (pos : Nat) (hv : V rest) :
    Q (dePayload e1 t de1 sh rest pos) (dePayload e2 t de2 sh rest pos) := by
  unfold dePayload
  split
  · exact sim_deUnit S _ _ hv
  · exact hde _ (by simp [shapeSchemas]) _ _ _ hv
  · exact sim_deSeq S t _ _ (fun r p hr => sim_map S _
      (sim_tupleLoop S _ _ _ (fun s hs => hde s (by simpa [shapeSchemas] using hs) _) _ _ _ _ hr)) _ _ hv
  · refine sim_deStruct S t de1 de2 _ (fun f hf' d => hde f.2 ?_ d) false _ _ hv
    simp only [shapeSchemas, List.mem_map]
    exact ⟨f, hf', rfl⟩

theorem sim_deEnum (t : Nat) (de1 de2 : Nat → Schema → Bytes → Nat → TOut) (vs : List (Bytes × VariantShape))
    (hde : ∀ v ∈ vs, ∀ s ∈ shapeSchemas v.2, ∀ d r p, V r → Q (de1 d s r p) (de2 d s r p)) (rest : Bytes) (pos : Nat)
    (hv : V rest) : Q (deEnum e1 t de1 vs rest pos) (deEnum e2 t de2 vs rest pos) := by
  unfold deEnum
  refine sim_withPeek S hv fun b r p hb => ?_
  rw [tooDeep_cfg S.cfg]
  refine q_ite (fun h => ?_) fun _ => q_ite (fun _ => ?_) fun _ => S.err _ _
  · refine q_ite (fun _ => S.err _ _) fun _ => ?_
    refine sim_bind' S (sim_deVariantId S _ _ _ (sim_vstep S (beq_ascii h (by decide)) hb)) fun iv r1 p1 h1 => ?_
    dsimp only
    refine sim_bind' S (sim_parseObjectColon S r1 p1 h1) fun _ r2 p2 h2 => ?_
    split
    · exact S.raw _ _
    · rename_i nm sh hs
      refine sim_bind' S (sim_dePayload S (t + 1) de1 de2 sh (hde _ (mem_of_getElem? hs)) r2 p2 h2) fun payload r3 p3 h3 => ?_
      refine sim_withPeek S h3 fun c r4 q hc => ?_
      exact q_ite (fun h' => S.ok _ _ _ (sim_vstep S (beq_ascii h' (by decide)) hc)) fun _ => S.errIdx _ _ _ _ (.inr (.inr rfl))
  · refine sim_bind' S (sim_deVariantId S _ _ _ hb) fun iv r1 p1 h1 => ?_
    dsimp only
    split
    · exact S.ok _ _ _ h1
    · exact S.raw _ _

/-- **the two runs are related on every schema**: fuel, depth, input and position alike -/
theorem sim_deTyped : ∀ (f t : Nat) (s : Schema) (rest : Bytes) (pos : Nat), V rest →
    Q (deTyped e1 f t s rest pos) (deTyped e2 f t s rest pos) := by
  intro f
  induction f with
  | zero => intro t s rest pos _; unfold deTyped; exact S.fuel
  | succ f ih =>
    intro t s rest pos hv
    cases s with
    | bool => rw [deTyped_bool, deTyped_bool]; exact sim_deBool S _ _ hv
    | int w => rw [deTyped_int, deTyped_int]; exact sim_deInt S _ _ _ hv
    | f64 => rw [deTyped_f64, deTyped_f64]; exact sim_deNumber S _ _ _ hv
    | f32 => rw [deTyped_f32, deTyped_f32]; exact sim_deNumber S _ _ _ hv
    | char => rw [deTyped_char, deTyped_char]; exact sim_deStr S _ _ _ hv
    | string => rw [deTyped_string, deTyped_string]; exact sim_deStr S _ _ _ hv
    | bytes => rw [deTyped_bytes, deTyped_bytes]; exact sim_deBytes S _ _ _ hv
    | option s' =>
      rw [deTyped_option, deTyped_option]
      dsimp only
      have h := sim_skipWs S rest pos hv
      generalize skipWs rest pos = x at h
      obtain ⟨l, p⟩ := x
      cases l with
      | nil => exact S.flt (sim_map S _ (ih _ _ _ _ h))
      | cons b r =>
        dsimp only
        refine q_ite (fun hb => ?_) fun _ => sim_map S _ (ih _ _ _ _ h)
        exact sim_ident_ok S _ ident_ascii.1 _ _ _ (sim_vstep S (beq_ascii hb (by decide)) h)
    | unit => rw [deTyped_unit, deTyped_unit]; exact sim_deUnit S _ _ hv
    | unitStruct => rw [deTyped_unitStruct, deTyped_unitStruct]; exact sim_deUnit S _ _ hv
    | newtype s' => rw [deTyped_newtype, deTyped_newtype]; exact ih _ _ _ _ hv
    | seq s' =>
      rw [deTyped_seq, deTyped_seq]
      exact sim_deSeq S t _ _ (fun r p hr => sim_map S _ (sim_seqLoop S _ _ (ih _ _) _ _ _ _ _ hr)) _ _ hv
    | tuple ss =>
      rw [deTyped_tuple, deTyped_tuple]
      exact sim_deSeq S t _ _ (fun r p hr => sim_map S _ (sim_tupleLoop S _ _ _ (fun s' _ => ih _ s') _ _ _ _ hr)) _ _ hv
    | map k s' =>
      rw [deTyped_map, deTyped_map]
      exact sim_deMap S t _ _ (fun r p hr => sim_map S _ (sim_mapLoop S _ _ _ (ih _ _) _ _ _ _ _ hr)) _ _ hv
    | struct_ fs deny =>
      rw [deTyped_struct, deTyped_struct]
      exact sim_deStruct S t _ _ _ (fun fl _ d => ih d fl.2) _ _ _ hv
    | enum_ vs =>
      rw [deTyped_enum, deTyped_enum]
      exact sim_deEnum S t _ _ _ (fun v _ s' _ d => ih d s') _ _ hv
    | ignored => rw [deTyped_ignored, deTyped_ignored]; exact sim_map S _ (sim_ignoreValue S _ _ hv)
    | any =>
      rw [deTyped_any, deTyped_any]
      exact sim_map S _ (sim_machV S t _ _ _ hv (Or.inl rfl))

end SJ.Proofs.Typed
