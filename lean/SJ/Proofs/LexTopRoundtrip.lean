import SJ.Proofs.LexTopSpec
import SJ.Spec.Program
import SJ.Proofs.Number
/-!
# C07 top level, part 5: print → parse is the identity on finite floats (under `RyuShortest`)

`RyuShortest ext` is the named hypothesis about the external printer `ryu` (`Spec.Program.Ext.ryu64/ryu32`): the
text it writes for a finite float is an RFC 8259 number (`ExtOK`) that fits `ryu::Buffer` (24 bytes: at most 17
significant digits for `f64`, 9 for `f32`, sign, point, exponent), is written with a fraction or an exponent (never as
an integer literal), whose exponent part is at most `e-308`-sized, and whose exact decimal value rounds — to nearest,
ties to even, sign included — to the float printed. Under it the `float_roundtrip` parser returns the float.
-/
namespace SJ.Proofs.LexTopRoundtrip
open SJ SJ.Gen SJ.Model.Lexical SJ.Model.Num SJ.Spec.Ieee SJ.Spec.Decimal
open SJ.Proofs.Ieee SJ.Proofs.LexRound SJ.Proofs.LexBh SJ.Proofs.LexFast SJ.Proofs.LexSplit SJ.Proofs.NumInt
open SJ.Proofs.LexCorrect SJ.Proofs.LexTopFloat SJ.Proofs.LexTopSpec
open SJ.Proofs.NumLink (PartsWF toNumLit)
open SJ.Proofs.NumLinkParser (litOf)
open SJ.Spec.Grammar (NumParts IsNumber)
open SJ.Spec.Canon (partsOf)
open SJ.Spec.Number (splitNumber)
open SJ.Spec.Program (Ext ExtOK finite64 finite32)

/-- the shape of a text written by `ryu`: fits the 24-byte buffer, has a fraction or an exponent, and the exponent
    part is at most five bytes (`e-308`) -/
def RyuText (bs : Bytes) : Prop :=
  bs.length ≤ 24 ∧ ((splitNumber bs).frac ≠ [] ∨ (splitNumber bs).exp ≠ []) ∧ (splitNumber bs).exp.length ≤ 5

/-- **the hypothesis about `ryu`** (shortest round-tripping digits): see the module doc -/
structure RyuShortest (ext : Ext) : Prop where
  f64_text : ∀ b, finite64 b = true → RyuText (ext.ryu64 b)
  /-- the exact decimal value of the text rounds to `b` (sign included) -/
  f64_nearest : ∀ b, finite64 b = true →
    roundNE64 (litOf (splitNumber (ext.ryu64 b))).neg (litOf (splitNumber (ext.ryu64 b))).exact.1
      (litOf (splitNumber (ext.ryu64 b))).exact.2 = some b
  f32_text : ∀ b, finite32 b = true → RyuText (ext.ryu32 b)
  f32_nearest : ∀ b, finite32 b = true →
    roundNE32 (litOf (splitNumber (ext.ryu32 b))).neg (litOf (splitNumber (ext.ryu32 b))).exact.1
      (litOf (splitNumber (ext.ryu32 b))).exact.2 = some b

theorem expOverflows_go_false (cs : Bytes) (hd : IsDigits cs) : ∀ exp, val exp cs ≤ i32Max →
    expOverflows.go exp cs = false := by
  induction cs with
  | nil => intro exp _; rfl
  | cons c cs ih =>
    intro exp hle
    have hc := dig_lt_10 c (hd c (List.mem_cons_self ..))
    have hcs : IsDigits cs := fun x hx => hd x (List.mem_cons_of_mem _ hx)
    rw [val_cons] at hle
    have := le_val (exp * 10 + dig c) cs
    rw [expOverflows.go, overflowMacro_spec _ _ _ hc]
    have hov : ¬ (exp * 10 + dig c > i32Max) := by omega
    simp only [hov, decide_false, Bool.false_eq_true, if_false]
    exact ih hcs _ hle

theorem expOverflows_short (eds : Bytes) (hd : IsDigits eds) (hlen : eds.length ≤ 9) : expOverflows eds = false := by
  cases eds with
  | nil => rfl
  | cons d rest =>
    have hlt := natOfDigits_lt (d :: rest) hd
    have : (10 : Nat) ^ (d :: rest).length ≤ 10 ^ 9 := Nat.pow_le_pow_right (by decide) hlen
    rw [natOfDigits_eq_val, val_cons] at hlt
    have hcs : IsDigits rest := fun x hx => hd x (List.mem_cons_of_mem _ hx)
    unfold expOverflows
    apply expOverflows_go_false rest hcs
    simp only [i32Max]
    simp only [Nat.zero_mul, Nat.zero_add] at hlt
    omega

/-- the scanned parts of a text of `ryu`'s shape: well-formed, short, on the float path, exponent within `i32` -/
theorem parts_of_ryuText (bs : Bytes) (hn : IsNumber bs) (ht : RyuText bs) :
    WF (partsOf (splitNumber bs)) ∧
    ((partsOf (splitNumber bs)).int ++ (partsOf (splitNumber bs)).frac.getD []).length + 20 < 2 ^ 29 ∧
    intClass (partsOf (splitNumber bs)) = none ∧ ExpFits (partsOf (splitNumber bs)) := by
  obtain ⟨hwf, hbytes⟩ := SJ.Proofs.Number.splitNumber_of_isNumber bs hn
  obtain ⟨hlen, hfloat, hexp⟩ := ht
  generalize splitNumber bs = p at *
  have hpw := SJ.Proofs.NumLinkParser.partsOf_wf p hwf
  have hblen : p.int.length + p.frac.length + p.exp.length ≤ 24 := by
    have := congrArg List.length hbytes
    unfold NumParts.bytes at this
    simp only [List.length_append] at this
    omega
  have hfr : ((partsOf p).frac.getD []) = p.frac.drop 1 := SJ.Proofs.Complete.fracOf_getD p.frac
  have hint : (partsOf p).int = p.int := rfl
  refine ⟨wf_of_partsWF _ hpw (by rw [hfr, List.length_drop]; omega), ?_, ?_, ?_⟩
  · rw [hfr, hint, List.length_append, List.length_drop]; omega
  · unfold intClass
    rcases hfloat with hf | he
    · have : (partsOf p).frac = some (p.frac.drop 1) := by
        unfold partsOf
        cases hp : p.frac with
        | nil => exact absurd hp hf
        | cons a l => simp
      rw [this]
    · have : ∃ e, (partsOf p).exp = some e := by
        rw [SJ.Proofs.Complete.partsOf_exp]
        unfold SJ.Proofs.Complete.expOf
        cases hp : p.exp with
        | nil => exact absurd hp he
        | cons c r =>
          cases r with
          | nil => exact ⟨_, rfl⟩
          | cons s ds =>
            simp only []
            split
            · exact ⟨_, rfl⟩
            · split <;> exact ⟨_, rfl⟩
      obtain ⟨e, he'⟩ := this
      rw [he']
      cases (partsOf p).frac <;> rfl
  · intro en eds hex
    have hed := (hpw.exp en eds hex)
    apply expOverflows_short eds (SJ.Proofs.NumLinkParser.isDigits_of_all _ hed.2)
    rw [SJ.Proofs.Complete.partsOf_exp] at hex
    unfold SJ.Proofs.Complete.expOf at hex
    cases hp : p.exp with
    | nil => rw [hp] at hex; cases hex
    | cons c r =>
      rw [hp] at hex hexp
      cases r with
      | nil => simp only [] at hex; cases hex; simp
      | cons s ds =>
        simp only [] at hex
        simp only [List.length_cons] at hexp
        split at hex
        · cases hex; omega
        · split at hex
          · cases hex; omega
          · cases hex; simp only [List.length_cons]; omega

/-- on the float path, within the exponent range: the result is the rounding of the exact value (binary64) -/
theorem deFloat64_nearest (p : Parts) (wf : WF p) (hlen : (p.int ++ p.frac.getD []).length + 20 < 2 ^ 29)
    (hic : intClass p = none) (hfit : ExpFits p) :
    deFloatRoundtrip false p =
      match roundNE64 p.neg (toNumLit p).exact.1 (toNumLit p).exact.2 with
      | some b => .f64 b
      | none => .outOfRange := by
  rw [deFloat_eq false p wf hlen, specG_float false p hic hfit, convG_all, exact_eq_scale]
  have hF : fmtOf false = b64 := rfl
  rw [hF]
  unfold finishG
  simp only [Bool.false_eq_true, if_false]
  exact finish64_roundNE p.neg (litN p) (litE p)

/-- the same for a binary32 target (the pattern is handed on widened, exactly) -/
theorem deFloat32_nearest (p : Parts) (wf : WF p) (hlen : (p.int ++ p.frac.getD []).length + 20 < 2 ^ 29)
    (hic : intClass p = none) (hfit : ExpFits p) :
    deFloatRoundtrip true p =
      match roundNE32 p.neg (toNumLit p).exact.1 (toNumLit p).exact.2 with
      | some b => .f64 (F32.toF64 b)
      | none => .outOfRange := by
  rw [deFloat_eq true p wf hlen, specG_float true p hic hfit, convG_all, exact_eq_scale]
  have hF : fmtOf true = b32 := rfl
  rw [hF]
  unfold finishG
  simp only [if_true]
  exact finish32_roundNE p.neg (litN p) (litE p)

/-- print → parse for one text: a number of `ryu`'s shape whose exact value rounds to `b` is read back as `b` -/
theorem roundtrip64_at (bs : Bytes) (b : UInt64) (hn : IsNumber bs) (ht : RyuText bs)
    (hnear : roundNE64 (litOf (splitNumber bs)).neg (litOf (splitNumber bs)).exact.1 (litOf (splitNumber bs)).exact.2 = some b) :
    deFloatRoundtrip false (partsOf (splitNumber bs)) = .f64 b := by
  obtain ⟨wf, hlen, hic, hfit⟩ := parts_of_ryuText _ hn ht
  rw [deFloat64_nearest _ wf hlen hic hfit]
  unfold litOf at hnear
  have hneg : (toNumLit (partsOf (splitNumber bs))).neg = (partsOf (splitNumber bs)).neg := rfl
  rw [hneg] at hnear
  rw [hnear]

/-- **print → parse, binary64** -/
theorem roundtrip64 (ext : Ext) (hext : ExtOK ext) (hr : RyuShortest ext) (b : UInt64) (hb : finite64 b = true) :
    deFloatRoundtrip false (partsOf (splitNumber (ext.ryu64 b))) = .f64 b :=
  roundtrip64_at _ b (hext.ryu64_number b hb) (hr.f64_text b hb) (hr.f64_nearest b hb)

/-- **print → parse, binary32** (`de.rs` hands the `f32` on as `f64`, exactly) -/
theorem roundtrip32 (ext : Ext) (hext : ExtOK ext) (hr : RyuShortest ext) (b : UInt32) (hb : finite32 b = true) :
    deFloatRoundtrip true (partsOf (splitNumber (ext.ryu32 b))) = .f64 (F32.toF64 b) := by
  obtain ⟨wf, hlen, hic, hfit⟩ := parts_of_ryuText _ (hext.ryu32_number b hb) (hr.f32_text b hb)
  rw [deFloat32_nearest _ wf hlen hic hfit]
  have := hr.f32_nearest b hb
  unfold litOf at this
  have hneg : (toNumLit (partsOf (splitNumber (ext.ryu32 b)))).neg = (partsOf (splitNumber (ext.ryu32 b))).neg := rfl
  rw [hneg] at this
  rw [this]

end SJ.Proofs.LexTopRoundtrip
