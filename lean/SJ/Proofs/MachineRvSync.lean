import SJ.Proofs.MachineRvBase
import SJ.Proofs.MachineApShape
import SJ.Spec.PrivateTokenRv
/-!
# `MachineRv` is `MachineAp` wherever no first key decodes to the raw token

The lexical scan of `Spec.PrivateToken` (`lexStep`) is an abstraction of the machine (`Sync`, `sync_step`), and `MachineAp`
runs in lockstep with the machine (`R`, `sim_step`). The raw scan uses the same mode transitions and raises its flag where a
first key decoding to `raw::TOKEN` closes (`rawHitStep`): `HitInv` — whenever the machine stands after a first key equal to
the raw token, the flag is up — is preserved by every step (`hit_step`). So without a hit the raw trigger never fires
(`trigFreeRv_of_scan`), and `conservative` follows from `run_ap_eq`.
-/
namespace SJ.Proofs.MachineRv
open SJ SJ.Gen SJ.Model SJ.Model.Machine SJ.Proofs.Sound
open SJ.Spec.Grammar (StrItem StrWF)
open SJ.Spec.Denote (decodeItems)
open SJ.Spec.PrivateToken (LexSt LMode lexStep lexRun parseItems)
open SJ.Spec.PrivateTokenRv (rawHitStep rawScan hasRawTokenFirstKey bodyIsRawToken)
open SJ.Model.MachineRv (REnv RPhase stepRaw parseFuel parseTop nestedResult ofAp Expect Msg)
open SJ.Model.MachineRv renaming step1 → rstep1, step → rstep, run → rrun, Outcome → ROut, Step → RStep, St → RSt,
  finish → rfinish, init → rinit, triggered → rtriggered, liftStep → rliftStep, Fail → RFail
open SJ.Proofs.MachineAp (ASt arun astep Sync Doomed R Eqv ModeEqv StackEqv FrameEqv topEmpty escPending)

/-- whenever the machine stands after a FIRST key equal to the raw token, the scan's flag is up -/
def HitInv (hit : Bool) (m : St) : Prop :=
  m.mode = .afterKey → ∀ k fs, m.stack = .obj [] k :: fs → k = MachineRv.token → hit = true

theorem hitInv_of_mode {hit : Bool} {m : St} (h : m.mode ≠ .afterKey) : HitInv hit m := fun hm => absurd hm h

theorem hitInv_mono {hit : Bool} {m : St} (h : HitInv hit m) (x : Bool) : HitInv (hit || x) m :=
  fun hm k fs hs hk => by rw [h hm k fs hs hk]; rfl

/-! ## where `afterKey` comes from -/

theorem closeArr_next (env : Env) (s s' : St) (h : closeArr env s = .next s') : ∃ fs v, s' = complete fs v := by
  unfold closeArr at h
  split at h
  · exact ⟨_, _, (Step.next.inj h).symm⟩
  · cases h

theorem closeObj_next (env : Env) (s s' : St) (h : closeObj env s = .next s') : ∃ fs v, s' = complete fs v := by
  unfold closeObj at h
  split at h
  · exact ⟨_, _, (Step.next.inj h).symm⟩
  · cases h

theorem startValue_next_mode (env : Env) (s s' : St) (b : UInt8) (h : startValue env s b = .next s') :
    s'.mode ≠ .afterKey := by
  unfold startValue at h
  repeat' split at h
  all_goals first
    | (cases h; done)
    | (simp only [Step.next.injEq] at h; subst h; simp)

/-- a step that ends after a key: whitespace after that key, or the closing quote of the key -/
theorem step1_afterKey (env : Env) (m m' : St) (b : UInt8) (h : step1 env m b = .next m') (hm' : m'.mode = .afterKey) :
    (m.mode = .afterKey ∧ m' = m) ∨ (∃ st, m.mode = .str st) := by
  obtain ⟨mode, stk⟩ := m
  cases mode with
  | str st => exact .inr ⟨st, rfl⟩
  | num n =>
    exfalso
    simp only [step1] at h
    obtain ⟨n', rfl⟩ := SJ.Proofs.MachineAp.stepNum_next_shape env _ n b m' h
    simp at hm'
  | afterKey =>
    left
    simp only [step1] at h
    split at h
    · simp only [Step.next.injEq] at h; exact ⟨rfl, h.symm⟩
    split at h
    · simp only [Step.next.injEq] at h; subst h; simp at hm'
    · cases h
  | _ =>
    exfalso
    simp only [step1] at h
    repeat' split at h
    all_goals first
      | (cases h; done)
      | (obtain ⟨fs, v, rfl⟩ := closeArr_next env _ _ h
         exact SJ.Proofs.MachineAp.complete_mode_ne_afterKey _ _ hm')
      | (obtain ⟨fs, v, rfl⟩ := closeObj_next env _ _ h
         exact SJ.Proofs.MachineAp.complete_mode_ne_afterKey _ _ hm')
      | exact startValue_next_mode env _ _ _ h hm'
      | (simp only [Step.next.injEq] at h; subst h
         first
           | (simp at hm'; done)
           | exact SJ.Proofs.MachineAp.complete_mode_ne_afterKey _ _ hm')

/-! ## the flag follows the machine -/

theorem hit_next (env : Env) (henv : env.tgt = .value) (l : LexSt) (hit : Bool) (m m' : St) (b : UInt8)
    (hs : Sync env l m) (hi : HitInv hit m) (h : step1 env m b = .next m') : HitInv (hit || rawHitStep l b) m' := by
  intro hm' k fs hst hk
  rcases step1_afterKey env m m' b h hm' with ⟨hmk, rfl⟩ | ⟨st, hmst⟩
  · rw [hi hmk k fs hst hk]; rfl
  · obtain ⟨mode, stk⟩ := m
    simp only at hmst
    subst hmst
    simp only [step1] at h
    obtain ⟨raw, items, tail, hl, hraw, hinv, _⟩ := hs
    simp only at hl
    rcases stepStr_next env _ st b m' items tail hinv h with ⟨st', items', tail', rfl, _, _, _⟩ | ⟨hb, htail, hend⟩
    · simp at hm'
    · subst hb htail
      have hnone : st.esc = .none := SJ.Proofs.MachineAp.escInv_nil hinv.esc
      obtain ⟨_, hsem⟩ := endStr_sem env _ st m' items hinv.sv hend
      rcases hsem with ⟨hkey, _, ms, k0, fs0, hstk, rfl⟩ | ⟨_, v, rfl, _⟩
      · simp only at hstk hst
        subst hstk
        simp only [List.cons.injEq, Frame.obj.injEq] at hst
        obtain ⟨⟨rfl, rfl⟩, rfl⟩ := hst
        have hdec : decodeItems items = some st.out.reverse := (hinv.sv.val henv).1
        have hbody : bodyIsRawToken raw.reverse = true := by
          rw [hraw, List.append_nil]
          unfold bodyIsRawToken
          rw [SJ.Proofs.MachineAp.parseItems_flat items hinv.sv.wf]
          simp only [hdec, hk]
          simp [SJ.Spec.PrivateTokenRv.token, MachineRv.token]
        have : rawHitStep l 0x22 = true := by
          unfold rawHitStep
          rw [hl, hnone]
          simp [hkey, topEmpty, escPending, hbody]
        rw [this]; simp
      · exact absurd hm' (SJ.Proofs.MachineAp.complete_mode_ne_afterKey _ _)

theorem doomed_mode_ne_afterKey {m : St} (h : Doomed m) : m.mode ≠ .afterKey := by
  obtain ⟨st, hm, _⟩ := h
  rw [hm]; simp

/-- `step` (with its re-dispatch after a number) -/
theorem hit_step (env : Env) (henv : env.tgt = .value) (l : LexSt) (hit : Bool) (m m' : St) (b : UInt8)
    (hs : Sync env l m ∨ Doomed m) (hi : HitInv hit m) (h : step env m b = .ok m') :
    HitInv (hit || rawHitStep l b) m' := by
  rcases hs with hs | hd
  · unfold step at h
    cases h1 : step1 env m b with
    | next s1 =>
      rw [h1] at h
      simp only [Except.ok.injEq] at h; subst h
      exact hit_next env henv l hit m s1 b hs hi h1
    | err c a => rw [h1] at h; cases h
    | again s1 =>
      rw [h1] at h
      simp only at h
      have hs1 := SJ.Proofs.MachineAp.sync_again env l m b s1 hs h1
      obtain ⟨v, rfl⟩ := SJ.Proofs.MachineAp.step1_again_shape env m b s1 h1
      cases h2 : step1 env (complete m.stack v) b with
      | next s2 =>
        rw [h2] at h
        simp only [Except.ok.injEq] at h; subst h
        exact hit_next env henv l hit _ s2 b hs1 (hitInv_of_mode (SJ.Proofs.MachineAp.complete_mode_ne_afterKey _ _)) h2
      | err c a => rw [h2] at h; cases h
      | again s2 => rw [h2] at h; cases h
  · exact hitInv_of_mode (doomed_mode_ne_afterKey (SJ.Proofs.MachineAp.doomed_step env m b m' hd h))

/-! ## no hit, no trigger -/

theorem rawScan_true : ∀ (bs : Bytes) (l : LexSt), rawScan l true bs = true
  | [], _ => rfl
  | b :: bs, l => by unfold rawScan; simpa using rawScan_true bs (lexStep l b)

theorem rawScan_cons (l : LexSt) (hit : Bool) (b : UInt8) (bs : Bytes) :
    rawScan l hit (b :: bs) = rawScan (lexStep l b) (hit || rawHitStep l b) bs := rfl

/-- related states agree on the raw trigger's precondition -/
theorem eqv_afterKey {s m : St} (h : Eqv s m) (fs : List Frame) (hm : s.mode = .afterKey)
    (hst : s.stack = .obj [] MachineRv.token :: fs) :
    m.mode = .afterKey ∧ ∃ fs', m.stack = .obj [] MachineRv.token :: fs' ∧ StackEqv fs fs' := by
  obtain ⟨md, st⟩ := s
  obtain ⟨md', st'⟩ := m
  obtain ⟨hmm, hss⟩ := h
  simp only at hm hst hmm hss
  subst hm hst
  cases md' <;> simp only [ModeEqv] at hmm
  cases hss with
  | cons hf hr =>
    cases hf with
    | obj ms ms' k hi =>
      have : ms' = [] := hi.mp rfl
      subst this
      exact ⟨rfl, _, rfl, hr⟩

theorem trigFreeRv_of_scan (renv : REnv) (henv : renv.env.tgt = .value) : ∀ (bs : Bytes) (l : LexSt) (hit : Bool)
    (a : ASt) (m : St), R a m → (Sync renv.env l m ∨ Doomed m) → HitInv hit m → rawScan l hit bs = false →
    TrigFreeRv renv a bs
  | [], _, _, _, _, _, _, _, _ => trivial
  | b :: bs, l, hit, a, m, hr, hs, hi, hscan => by
    have hhit : hit = false := by
      cases hx : hit with
      | false => rfl
      | true => rw [hx, rawScan_true] at hscan; cases hscan
    rw [rawScan_cons] at hscan
    refine ⟨fun m0 ha => ?_, fun a' hstep => ?_⟩
    · subst ha
      cases ht : rtriggered renv m0 b with
      | none => rfl
      | some fs =>
        exfalso
        obtain ⟨_, _, _, hm, hst⟩ := rtriggered_some ht
        cases hr with
        | base he =>
          obtain ⟨hm', fs', hst', _⟩ := eqv_afterKey he fs hm hst
          rw [hi hm' _ fs' hst' rfl] at hhit
          cases hhit
    · obtain ⟨m', hm', hr'⟩ := SJ.Proofs.MachineAp.sim_step renv.env b hr hstep
      exact trigFreeRv_of_scan renv henv bs (lexStep l b) _ a' m' hr'
        (SJ.Proofs.MachineAp.sync_step renv.env henv l m b m' hs hm') (hit_step renv.env henv l hit m m' b hs hi hm') hscan

/-- **`MachineRv` is `MachineAp` on every input in which no first key decodes to the raw token** — whatever the
    configuration, source and target -/
theorem conservative (renv : REnv) (bs : Bytes) (h : hasRawTokenFirstKey bs = false) :
    parseTop renv bs = ofAp (MachineAp.parseTop renv.env bs) := by
  by_cases hc : renv.rv = true ∧ renv.env.tgt = .value
  · apply run_ap_eq
    exact trigFreeRv_of_scan renv hc.2 bs {} false _ init (.base (SJ.Proofs.MachineAp.eqv_refl init))
      (.inl (SJ.Proofs.MachineAp.sync_init renv.env)) (hitInv_of_mode (by simp [init])) h
  · exact parseTop_of_not_rv renv hc bs

end SJ.Proofs.MachineRv
