import SJ.Spec.AMap
/-! Helper lemmas for C17: the byte-wise key order, association-list lookup. -/
namespace SJ.Proofs.MapOrder
open SJ SJ.Spec.AMap

theorem ltB_irrefl (a : Bytes) : ltB a a = false := by
  induction a with
  | nil => rfl
  | cons x xs ih => simp [ltB, UInt8.lt_irrefl, ih]

theorem ltB_trans {a b c : Bytes} (h₁ : ltB a b = true) (h₂ : ltB b c = true) : ltB a c = true := by
  induction a generalizing b c with
  | nil =>
    cases b with
    | nil => simp [ltB] at h₁
    | cons y ys => cases c with
      | nil => simp [ltB] at h₂
      | cons z zs => simp [ltB]
  | cons x xs ih =>
    cases b with
    | nil => simp [ltB] at h₁
    | cons y ys =>
      cases c with
      | nil => simp [ltB] at h₂
      | cons z zs =>
        simp only [ltB] at h₁ h₂ ⊢
        by_cases hxy : x < y
        · by_cases hyz : y < z
          · simp [UInt8.lt_trans hxy hyz]
          · simp only [hyz, if_false] at h₂
            by_cases hzy : z < y
            · simp [hzy] at h₂
            · have : y = z := UInt8.le_antisymm (UInt8.not_lt.mp hzy) (UInt8.not_lt.mp hyz)
              subst this; simp [hxy]
        · simp only [hxy, if_false] at h₁
          by_cases hyx : y < x
          · simp [hyx] at h₁
          · have : x = y := UInt8.le_antisymm (UInt8.not_lt.mp hyx) (UInt8.not_lt.mp hxy)
            subst this
            simp only [hyx, if_false] at h₁
            by_cases hxz : x < z
            · simp [hxz]
            · simp only [hxz, if_false] at h₂ ⊢
              by_cases hzx : z < x
              · simp [hzx] at h₂
              · simp only [hzx, if_false] at h₂ ⊢
                exact ih h₁ h₂

/-- trichotomy: the order is total on byte strings -/
theorem ltB_total {a b : Bytes} (h₁ : ltB a b = false) (h₂ : ltB b a = false) : a = b := by
  induction a generalizing b with
  | nil => cases b with
    | nil => rfl
    | cons y ys => simp [ltB] at h₁
  | cons x xs ih => cases b with
    | nil => simp [ltB] at h₂
    | cons y ys =>
      simp only [ltB] at h₁ h₂
      by_cases hxy : x < y
      · simp [hxy] at h₁
      · by_cases hyx : y < x
        · simp [hyx] at h₂
        · have : x = y := UInt8.le_antisymm (UInt8.not_lt.mp hyx) (UInt8.not_lt.mp hxy)
          subst this
          simp only [hxy, if_false] at h₁ h₂
          rw [ih h₁ h₂]

theorem ltB_asymm {a b : Bytes} (h : ltB a b = true) : ltB b a = false := by
  cases hb : ltB b a with
  | false => rfl
  | true => have := ltB_trans h hb; rw [ltB_irrefl] at this; cases this

theorem ltB_ne {a b : Bytes} (h : ltB a b = true) : a ≠ b := by
  intro e; subst e; rw [ltB_irrefl] at h; cases h

/-- ascending ⇒ no duplicates -/
theorem asc_nodup {ks : List Bytes} (h : Asc ks) : ks.Nodup :=
  List.Pairwise.imp (fun h => ltB_ne h) h

theorem ascB_iff (ks : List Bytes) : ascB ks = true ↔ Asc ks := by
  induction ks with
  | nil => simp [ascB, Asc]
  | cons a r ih =>
    cases r with
    | nil => simp [ascB, Asc]
    | cons b r =>
      simp only [ascB, Bool.and_eq_true, ih]
      unfold Asc
      constructor
      · rintro ⟨hab, hr⟩
        refine List.pairwise_cons.mpr ⟨?_, hr⟩
        intro c hc
        rcases List.mem_cons.mp hc with rfl | hc
        · exact hab
        · exact ltB_trans hab ((List.pairwise_cons.mp hr).1 c hc)
      · intro h
        have h' := List.pairwise_cons.mp h
        exact ⟨h'.1 b (List.mem_cons_self ..), h'.2⟩

/-! ## lookup -/

variable {V : Type}

abbrev keys (m : List (Bytes × V)) : List Bytes := m.map (·.1)

theorem lookup_none_of_not_mem {k : Bytes} {m : List (Bytes × V)} (h : k ∉ keys m) : lookup k m = none := by
  induction m with
  | nil => rfl
  | cons kv r ih =>
    obtain ⟨k', v⟩ := kv
    simp only [keys, List.map_cons, List.mem_cons, not_or] at h
    simp only [lookup]
    rw [if_neg (fun e => h.1 e.symm)]
    exact ih h.2

theorem lookup_isSome_iff {k : Bytes} {m : List (Bytes × V)} : (lookup k m).isSome ↔ k ∈ keys m := by
  induction m with
  | nil => simp [lookup]
  | cons kv r ih =>
    obtain ⟨k', v⟩ := kv
    simp only [lookup, keys, List.map_cons, List.mem_cons]
    by_cases e : k' = k
    · simp [e]
    · rw [if_neg e, ih]
      constructor
      · exact Or.inr
      · rintro (h | h)
        · exact absurd h.symm e
        · exact h

theorem lookup_eq_none_iff {k : Bytes} {m : List (Bytes × V)} : lookup k m = none ↔ k ∉ keys m := by
  rw [← lookup_isSome_iff]; cases lookup k m <;> simp

/-- with distinct keys, `lookup` finds exactly the members -/
theorem lookup_eq_some_iff {k : Bytes} {v : V} {m : List (Bytes × V)} (nd : (keys m).Nodup) :
    lookup k m = some v ↔ (k, v) ∈ m := by
  induction m with
  | nil => simp [lookup]
  | cons kv r ih =>
    obtain ⟨k', v'⟩ := kv
    simp only [keys, List.map_cons, List.nodup_cons] at nd
    simp only [lookup, List.mem_cons]
    by_cases e : k' = k
    · subst e
      simp only [if_true, Option.some.injEq, Prod.mk.injEq, true_and]
      constructor
      · intro h; exact Or.inl h.symm
      · rintro (h | h)
        · exact h.symm
        · exact absurd (List.mem_map_of_mem (f := (·.1)) h) nd.1
    · rw [if_neg e, ih nd.2]
      constructor
      · exact Or.inr
      · rintro (h | h)
        · exact absurd (Prod.mk.inj h).1.symm e
        · exact h

/-- lookup only depends on the set of entries when keys are distinct -/
theorem lookup_perm {m₁ m₂ : List (Bytes × V)} (p : m₁.Perm m₂) (nd : (keys m₁).Nodup) (k : Bytes) :
    lookup k m₁ = lookup k m₂ := by
  have nd₂ : (keys m₂).Nodup := (p.map (·.1)).nodup_iff.mp nd
  cases h : lookup k m₂ with
  | none =>
    rw [lookup_eq_none_iff] at h ⊢
    intro hk; exact h ((p.map (·.1)).mem_iff.mp hk)
  | some v =>
    rw [lookup_eq_some_iff nd₂] at h
    rw [lookup_eq_some_iff nd]
    exact p.mem_iff.mpr h

end SJ.Proofs.MapOrder
