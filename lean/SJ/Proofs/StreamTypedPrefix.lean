import SJ.Proofs.StreamTyped
import SJ.Proofs.StreamPrefix
import SJ.Proofs.TypedPrefixInt
/-!
# A stream of typed items over a prefix of the input (C10)

The typed analogue of `Proofs/StreamPrefix.lean`: `pre_deTyped` (`deTyped (a ++ ys)` against `deTyped a`) pushed through
`afterDe`. `A` = the codes allowed at the cut (`Eof`-classified; `NumberOutOfRange` too when the schema has a float /
`Value` site).
-/
namespace SJ.Proofs.StreamTyped
open SJ SJ.Gen SJ.Model SJ.Model.Typed SJ.Model.StreamTyped SJ.Proofs.Typed SJ.Props.Typed
open SJ.Model.Stream (SS skipWs isSelfDelineated isStreamDelim start)
open SJ.Proofs.StreamPrefix (CutOf)

/-- what a call may yield when the input ends at absolute index `L` before the item is complete: nothing, a value
    ending exactly there, or an allowed error located there -/
def AtEndItemT (A : Code → Prop) (L : Nat) (x : TItem × SS) : Prop :=
  (x.1 = .none ∧ x.2.offset = L) ∨ (∃ v, x.1 = .ok v ∧ x.2.offset = L ∧ x.2.rest = []) ∨ (∃ c, x.1 = .err c L ∧ A c)

theorem afterDe_ok_inv (b : UInt8) (r : Bytes) (p : Nat) (x : TOut) (v : TVal) (st' : SS)
    (h : afterDe false b r p x = (.ok v, st')) :
    ∃ rest' e, x = .ok v rest' e ∧ st' = { rest := rest', pos := e, offset := e, failed := false } ∧
      (isSelfDelineated b = true ∨ rest' = [] ∨ ∃ d tl, rest' = d :: tl ∧ isStreamDelim d = true) := by
  cases x with
  | ok v0 rest' e =>
    cases hsd : isSelfDelineated b with
    | true =>
      rw [afterDe_ok_sd _ _ _ _ _ _ _ hsd] at h
      simp only [Prod.mk.injEq, TItem.ok.injEq] at h
      obtain ⟨rfl, rfl⟩ := h
      exact ⟨_, _, rfl, rfl, .inl rfl⟩
    | false =>
      cases rest' with
      | nil =>
        rw [afterDe_ok_nil _ _ _ _ _ _ hsd] at h
        simp only [Bool.false_eq_true, if_false, Prod.mk.injEq, TItem.ok.injEq] at h
        obtain ⟨rfl, rfl⟩ := h
        exact ⟨_, _, rfl, rfl, .inr (.inl rfl)⟩
      | cons d tl =>
        rw [afterDe_ok_cons _ _ _ _ _ _ _ _ hsd] at h
        split at h
        · rename_i hd
          simp only [Prod.mk.injEq, TItem.ok.injEq] at h
          obtain ⟨rfl, rfl⟩ := h
          exact ⟨_, _, rfl, rfl, .inr (.inr ⟨d, tl, rfl, hd⟩)⟩
        · simp at h
  | _ => simp [afterDe] at h

section
variable {A : Code → Prop} {env : Env} (hflt : env.flt = false) (hAe : ∀ c, classify c = .eof → A c)
include hflt hAe

/-- **one call on a cut stream** -/
theorem nextT_prefix (s : Schema) (hAn : Schema.rangeSite s = true → A .NumberOutOfRange) (ys : Bytes) (st stp : SS)
    (hcut : CutOf ys st stp) (v : TVal) (st' : SS) (h : nextT env s st = (.ok v, st')) :
    (∃ stp', nextT env s stp = (.ok v, stp') ∧ CutOf ys st' stp') ∨
    AtEndItemT A (stp.pos + stp.rest.length) (nextT env s stp) := by
  obtain ⟨hrest, hpos, hoff, hf, hfp⟩ := hcut
  rcases skipWs_append stp.rest ys stp.pos with ⟨c, a', p, h1, h2⟩ | ⟨h1, _⟩
  · -- the item starts inside the cut input
    have hlen : p + (c :: a').length = stp.pos + stp.rest.length := (skipWs_eq h1).2
    rw [← hrest, ← hpos] at h2
    rw [nextT_item env s st hf c (a' ++ ys) p h2, hflt] at h
    rw [nextT_item env s stp hfp c a' p h1, hflt]
    obtain ⟨rest', e, hx, hst', hdel⟩ := afterDe_ok_inv c (a' ++ ys) p _ v st' h
    have hpre := (pre_deTyped (A := A) (b := ys) (N := stp.pos + stp.rest.length) hflt hAe (intPre hflt hAe)
      (Schema.size s + 1) s (by omega) hAn 0).1 (c :: a') p hlen
    unfold deItem at hx ⊢
    rw [show (c :: a') ++ ys = c :: (a' ++ ys) from rfl, hx] at hpre
    generalize deTyped env (Schema.size s + 1) 0 s (c :: a') p = pre at hpre ⊢
    generalize hfull : (Res.ok v rest' e : TOut) = full at hpre
    cases hpre with
    | same hp =>
      rename_i x r q
      cases hfull
      left
      rcases hdel with hsd | hnil | ⟨d, tl, hd, hdl⟩
      · rw [afterDe_ok_sd _ _ _ _ _ _ _ hsd]
        exact ⟨_, rfl, by rw [hst']; exact ⟨rfl, rfl, rfl, rfl, rfl⟩⟩
      · -- nothing was left after the value in the uncut input: nothing is left in the cut one
        have hr : r = [] := by cases r with
          | nil => rfl
          | cons _ _ => simp at hnil
        have hy : ys = [] := by cases ys with
          | nil => rfl
          | cons _ _ => rw [hr] at hnil; simp at hnil
        subst hr; subst hy
        cases hsd : isSelfDelineated c with
        | true => rw [afterDe_ok_sd _ _ _ _ _ _ _ hsd]; exact ⟨_, rfl, by rw [hst']; exact ⟨rfl, rfl, rfl, rfl, rfl⟩⟩
        | false =>
          rw [afterDe_ok_nil _ _ _ _ _ _ hsd]
          exact ⟨_, rfl, by rw [hst']; exact ⟨rfl, rfl, rfl, rfl, rfl⟩⟩
      · cases hsd : isSelfDelineated c with
        | true => rw [afterDe_ok_sd _ _ _ _ _ _ _ hsd]; exact ⟨_, rfl, by rw [hst']; exact ⟨rfl, rfl, rfl, rfl, rfl⟩⟩
        | false =>
          cases r with
          | nil =>
            -- the delimiter the uncut stream saw lies beyond the cut: the cut stream sees the end of input
            rw [afterDe_ok_nil _ _ _ _ _ _ hsd]
            exact ⟨_, rfl, by rw [hst']; exact ⟨rfl, rfl, rfl, rfl, rfl⟩⟩
          | cons d' tl' =>
            simp only [List.cons_append, List.cons.injEq] at hd
            obtain ⟨rfl, _⟩ := hd
            rw [afterDe_ok_cons _ _ _ _ _ _ _ _ hsd]
            simp only [hdl, if_true]
            exact ⟨_, rfl, by rw [hst']; exact ⟨rfl, rfl, rfl, rfl, rfl⟩⟩
    | cut _ =>
      rename_i _ _ _ y _
      right
      refine .inr (.inl ⟨y, ?_⟩)
      cases hsd : isSelfDelineated c with
      | true => rw [afterDe_ok_sd _ _ _ _ _ _ _ hsd]; exact ⟨rfl, rfl, rfl⟩
      | false => rw [afterDe_ok_nil _ _ _ _ _ _ hsd]; exact ⟨rfl, rfl, rfl⟩
    | eof hc =>
      rename_i c'
      right
      exact .inr (.inr ⟨c', rfl, hc⟩)
    | fail hfail => cases hfull; exact absurd rfl (hfail _ _ _)
  · -- only whitespace is left in the cut input
    right
    rw [nextT_ws env s stp hfp _ h1, hflt]
    exact .inl ⟨rfl, rfl⟩

omit hAe in
/-- a call that yields a value keeps the absolute end of the input where it is -/
theorem nextT_ok_end (s : Schema) (st : SS) (v : TVal) (st' : SS) (hf : st.failed = false)
    (h : nextT env s st = (.ok v, st')) : st'.pos + st'.rest.length = st.pos + st.rest.length := by
  cases hsk : skipWs st.rest st.pos with
  | mk r p =>
    have hs := skipWs_eq hsk
    cases r with
    | nil => rw [nextT_ws env s st hf p hsk, hflt] at h; simp at h
    | cons b r =>
      rw [nextT_item env s st hf b r p hsk, hflt] at h
      obtain ⟨rest', e, hx, hst', _⟩ := afterDe_ok_inv b r p _ v st' h
      obtain ⟨_, h2⟩ := typed_progress env s _ (by omega) 0 (b :: r) p v rest' e hx
      rw [hst']
      simp only
      omega

/-- **whole histories**: while the uncut stream yields values, the cut stream yields the same values with the same
    offsets, up to the first call whose outcome lies at the end of the cut input -/
theorem historyT_prefix (s : Schema) (hAn : Schema.rangeSite s = true → A .NumberOutOfRange) (ys : Bytes) :
    ∀ (n : Nat) (st stp : SS), CutOf ys st stp →
    (∀ x ∈ historyT env s n st, ∃ v, x.1 = .ok v) →
    (historyT env s n stp = historyT env s n st) ∨
    ∃ j, j < n ∧ historyT env s j stp = (historyT env s n st).take j ∧
      AtEndItemT A (stp.pos + stp.rest.length) (nextT env s (stateAfterT env s j stp))
  | 0, _, _, _, _ => .inl rfl
  | n + 1, st, stp, hcut, hok => by
    simp only [historyT] at hok
    obtain ⟨v, hv⟩ := hok _ (List.mem_cons_self ..)
    have hnext : nextT env s st = (.ok v, (nextT env s st).2) := by rw [← hv]
    rcases nextT_prefix hflt hAe s hAn ys st stp hcut v _ hnext with ⟨stp', hp, hcut'⟩ | hend
    · have hlen : stp'.pos + stp'.rest.length = stp.pos + stp.rest.length :=
        nextT_ok_end hflt s stp v stp' hcut.2.2.2.2 hp
      rcases historyT_prefix s hAn ys n _ stp' hcut' (fun x hx => hok x (List.mem_cons_of_mem _ hx)) with hall | ⟨j, hj, h1, h2⟩
      · left
        simp only [historyT, hp, hall]
        rw [hv]
        obtain ⟨_, _, h3, _, _⟩ := hcut'
        rw [h3]
      · right
        refine ⟨j + 1, by omega, ?_, ?_⟩
        · simp only [historyT, hp, List.take_succ_cons, h1]
          rw [hv]
          obtain ⟨_, _, h3, _, _⟩ := hcut'
          rw [h3]
        · simp only [stateAfterT, hp]
          rw [← hlen]; exact h2
    · right
      exact ⟨0, by omega, by simp [historyT], by simpa [stateAfterT] using hend⟩

end

end SJ.Proofs.StreamTyped
