import SJ.Proofs.TypedSim
/-!
# Every index the typed model reports lies within the input (typed analogue of `c11_within_input`)

`Win N r`: with `N` = length of the whole input, a parser error / positioned visitor error of `r` has index ≤ `N`, and
a success or an unpositioned visitor error carries a reader state `(rest, pos)` with `pos + |rest| = N`. Used by the C09
typed clause: where the reader's index is the slice's plus one, the byte it counts exists.
-/
namespace SJ.Proofs.Typed
open SJ SJ.Gen SJ.Model SJ.Model.Typed
open SJ.Model.Machine (St Mode Frame Step step1 errIdx endNumber finishMode init)
open SJ.Model.Stream (skipWs)

def Win (N : Nat) {α : Type} (r : Res α) : Prop :=
  (∀ c i, r = .err c i → i ≤ N) ∧ (∀ i, r = .data i → i ≤ N) ∧
  (∀ r' p', r = .raw r' p' → p' + r'.length = N) ∧ (∀ a r' p', r = .ok a r' p' → p' + r'.length = N)

section basics
variable {N : Nat} {α : Type}

theorem win_ok {a : α} {r : Bytes} {p : Nat} (h : p + r.length = N) : Win N (.ok a r p : Res α) := by
  refine ⟨?_, ?_, ?_, ?_⟩
  · intro c i e; cases e
  · intro i e; cases e
  · intro r' p' e; cases e
  · intro a' r' p' e; cases e; exact h
theorem win_err {c : Code} {i : Nat} (h : i ≤ N) : Win N (.err c i : Res α) := by
  refine ⟨?_, ?_, ?_, ?_⟩
  · intro c i e; cases e; exact h
  · intro i e; cases e
  · intro r' p' e; cases e
  · intro a' r' p' e; cases e
theorem win_data {i : Nat} (h : i ≤ N) : Win N (.data i : Res α) := by
  refine ⟨?_, ?_, ?_, ?_⟩
  · intro c i e; cases e
  · intro i e; cases e; exact h
  · intro r' p' e; cases e
  · intro a' r' p' e; cases e
theorem win_raw {r : Bytes} {p : Nat} (h : p + r.length = N) : Win N (.raw r p : Res α) := by
  refine ⟨?_, ?_, ?_, ?_⟩
  · intro c i e; cases e
  · intro i e; cases e
  · intro r' p' e; cases e; exact h
  · intro a' r' p' e; cases e
theorem win_io : Win N (.io : Res α) := by
  refine ⟨?_, ?_, ?_, ?_⟩
  · intro c i e; cases e
  · intro i e; cases e
  · intro r' p' e; cases e
  · intro a' r' p' e; cases e
theorem win_fuel : Win N (.fuel : Res α) := by
  refine ⟨?_, ?_, ?_, ?_⟩
  · intro c i e; cases e
  · intro i e; cases e
  · intro r' p' e; cases e
  · intro a' r' p' e; cases e

theorem Win.bind {β : Type} {r : Res α} {k : α → Bytes → Nat → Res β} (h1 : Win N r)
    (h2 : ∀ a r1 p1, p1 + r1.length = N → Win N (k a r1 p1)) : Win N (r.bind k) := by
  cases r with
  | ok a r1 p1 => exact h2 a r1 p1 (h1.2.2.2 a r1 p1 rfl)
  | err c i => exact win_err (h1.1 c i rfl)
  | data i => exact win_data (h1.2.1 i rfl)
  | raw r1 p1 => exact win_raw (h1.2.2.1 r1 p1 rfl)
  | io => exact win_io
  | fuel => exact win_fuel

theorem Win.map {β : Type} {r : Res α} (f : α → β) (h : Win N r) : Win N (r.map f) :=
  Win.bind h fun _ _ _ hp => win_ok hp

theorem win_atEof {env : Env} {c : Code} {p : Nat} (h : p ≤ N) : Win N (atEof env c p : Res α) := by
  unfold atEof; split
  · exact win_io
  · exact win_err h

theorem errorIdx_le {env : Env} {r : Bytes} {p : Nat} (pk : Bool) (h : p + r.length = N) : errorIdx env r p pk ≤ N := by
  unfold errorIdx
  split
  · rename_i hc
    cases r with
    | nil => simp at hc
    | cons b r => simp only [List.length_cons] at h; omega
  · omega

theorem peekErrorIdx_le {r : Bytes} {p : Nat} (h : p + r.length = N) : peekErrorIdx r p ≤ N := by
  unfold peekErrorIdx
  cases r with
  | nil => simp; omega
  | cons b r => simp only [List.length_cons] at h; simp; omega

theorem win_fixPos {env : Env} {pk : Bool} {x : Res α} (h : Win N x) : Win N (fixPos env pk x) := by
  unfold fixPos; split
  · exact win_data (errorIdx_le pk (h.2.2.1 _ _ rfl))
  · exact h

theorem win_ofVisit (v : FromValue.R) {r : Bytes} {p : Nat} (h : p + r.length = N) : Win N (ofVisit v r p) := by
  unfold ofVisit; split
  · exact win_ok h
  · exact win_raw h

theorem win_withPeek {env : Env} {c : Code} {rest : Bytes} {pos : Nat} {k : UInt8 → Bytes → Nat → Res α}
    (h : pos + rest.length = N) (hk : ∀ b r p, p + (b :: r).length = N → Win N (k b r p)) : Win N (withPeek env c rest pos k) := by
  have hs := skipWs_pos rest pos
  unfold withPeek
  generalize skipWs rest pos = x at hs
  obtain ⟨l, p⟩ := x
  cases l with
  | nil => simp at hs; exact win_atEof (by omega)
  | cons b r => exact hk b r p (by simp only at hs; omega)

end basics

/-! ## the machine -/

theorem runPfx_err_le (menv : Machine.Env) (flt : Bool) (t : Nat) (bs : Bytes) : ∀ (s : St) (i : Nat) (c : Code) (idx : Nat),
    runPfx menv flt t s i bs = .err c idx → idx ≤ i + bs.length := by
  have he : ∀ a i, errIdx menv a i ≤ i + 1 := by
    intro a i; unfold errIdx; split <;> omega
  induction bs with
  | nil =>
    intro s i c idx h
    unfold runPfx at h
    repeat' split at h
    all_goals first
      | (cases h; done)
      | (cases h; simp)
  | cons b bs ih =>
    intro s i c idx h
    unfold runPfx at h
    repeat' split at h
    all_goals first
      | (cases h; done)
      | (cases h; have := he ‹_› i; simp only [List.length_cons]; omega)
      | (cases h; simp only [List.length_cons]; omega)
      | (have := ih _ _ _ _ h; simp only [List.length_cons]; omega)

theorem win_machine {N : Nat} (menv : Machine.Env) (flt : Bool) (t : Nat) (s : St) (rest : Bytes) (pos : Nat)
    (h : pos + rest.length = N) : Win N (machine menv flt t s rest pos) := by
  unfold machine
  split
  · rename_i v e he
    have h1 := runPfx_ge _ _ _ _ _ _ _ _ he
    have h2 := runPfx_le _ _ _ _ _ _ _ _ he
    exact win_ok (by simp only [List.length_drop]; omega)
  · rename_i c i he
    exact win_err (by have := runPfx_err_le _ _ _ _ _ _ _ _ he; omega)
  · exact win_io

variable {env : Env} {N : Nat}

theorem win_parseIdent (id rest : Bytes) (pos : Nat) (h : pos + rest.length = N) : Win N (parseIdent env id rest pos) := by
  induction id generalizing rest pos with
  | nil => simp only [parseIdent]; exact win_ok h
  | cons e es ih =>
    cases rest with
    | nil => simp only [parseIdent]; exact win_atEof (by omega)
    | cons b r =>
      simp only [List.length_cons] at h
      simp only [parseIdent]
      split
      · exact ih r (pos + 1) (by omega)
      · exact win_err (by omega)

theorem win_peekInvalidType {α : Type} (b : UInt8) (r : Bytes) (pos : Nat) (h : pos + (b :: r).length = N) :
    Win N (peekInvalidType env (b :: r) pos : Res α) := by
  rw [peekInvalidType_cons]
  split
  · exact win_data (errorIdx_le _ h)
  · exact (win_machine _ _ _ _ _ _ h).bind fun _ _ _ hp => win_data (errorIdx_le _ hp)

theorem win_ident_ok (id : Bytes) (v : TVal) (r : Bytes) (p : Nat) (h : p + r.length = N) :
    Win N ((parseIdent env id r p).bind fun _ r' p' => (.ok v r' p' : TOut)) :=
  (win_parseIdent id r p h).bind fun _ _ _ hp => win_ok hp

theorem win_deBool (rest : Bytes) (pos : Nat) (h : pos + rest.length = N) : Win N (deBool env rest pos) := by
  unfold deBool
  refine win_withPeek h fun b r p hb => ?_
  simp only [List.length_cons] at hb
  repeat' split
  all_goals first
    | exact win_ident_ok _ _ _ _ (by omega)
    | exact win_peekInvalidType _ _ _ (by simp only [List.length_cons]; omega)

theorem win_deUnit (rest : Bytes) (pos : Nat) (h : pos + rest.length = N) : Win N (deUnit env rest pos) := by
  unfold deUnit
  refine win_withPeek h fun b r p hb => ?_
  simp only [List.length_cons] at hb
  repeat' split
  all_goals first
    | exact win_ident_ok _ _ _ _ (by omega)
    | exact win_peekInvalidType _ _ _ (by simp only [List.length_cons]; omega)

/-! ## numbers -/

theorem expOverflowIdx_lt : ∀ (ds : Bytes) (e k j : Nat), expOverflowIdx e k ds = some j → j < k + ds.length := by
  intro ds
  induction ds with
  | nil => intro e k j h; simp [expOverflowIdx] at h
  | cons c cs ih =>
    intro e k j h
    simp only [expOverflowIdx] at h
    split at h
    · cases h; simp only [List.length_cons]; omega
    · have := ih _ _ _ h; simp only [List.length_cons]; omega

theorem win_scanExpDigits (neg : Bool) (int : Bytes) (frac : Option Bytes) (en : Bool) (rest : Bytes) (pos : Nat)
    (h : pos + rest.length = N) : Win N (scanExpDigits env neg int frac en rest pos) := by
  cases rest with
  | nil => simp only [scanExpDigits]; exact win_atEof (by omega)
  | cons d r2 =>
    simp only [List.length_cons] at h
    have hl := digitsOf_length r2
    simp only [scanExpDigits]
    split
    · exact win_err (by omega)
    · split
      · rename_i k hk
        have := expOverflowIdx_lt _ _ _ _ hk
        repeat' split
        all_goals first
          | exact win_err (by omega)
          | exact win_io
          | exact win_ok (by omega)
      · repeat' split
        all_goals first
          | exact win_io
          | exact win_ok (by omega)

theorem win_scanExp (neg : Bool) (int : Bytes) (frac : Option Bytes) (rest : Bytes) (pos : Nat) (h : pos + rest.length = N) :
    Win N (scanExp env neg int frac rest pos) := by
  cases rest with
  | nil => simp only [scanExp]; exact win_atEof (by omega)
  | cons c r =>
    simp only [scanExp]
    repeat' split
    all_goals first
      | exact win_scanExpDigits _ _ _ _ _ _ (by simp only [List.length_cons] at h; omega)
      | exact win_scanExpDigits _ _ _ _ _ _ h

theorem win_scanAfterInt (neg : Bool) (int : Bytes) (rest : Bytes) (pos : Nat) (h : pos + rest.length = N) :
    Win N (scanAfterInt env neg int rest pos) := by
  cases rest with
  | nil =>
    simp only [scanAfterInt]
    split
    · exact win_io
    · exact win_ok h
  | cons c r =>
    simp only [List.length_cons] at h
    have hl := digitsOf_length r
    simp only [scanAfterInt]
    split
    · split
      · rename_i h2
        rw [h2] at hl; simp only [List.length_nil] at hl
        repeat' split
        all_goals first
          | exact win_atEof (by omega)
          | exact win_io
          | exact win_ok (by simp only [List.length_nil]; omega)
      · rename_i c2 r3 h2
        rw [h2] at hl; simp only [List.length_cons] at hl
        repeat' split
        all_goals first
          | exact win_err (by omega)
          | exact win_scanExp _ _ _ _ _ (by omega)
          | exact win_ok (by simp only [List.length_cons]; omega)
    · split
      · exact win_scanExp _ _ _ _ _ (by omega)
      · exact win_ok (by simp only [List.length_cons]; omega)

theorem win_scanInteger (neg : Bool) (rest : Bytes) (pos : Nat) (h : pos + rest.length = N) :
    Win N (scanInteger env neg rest pos) := by
  cases rest with
  | nil => simp only [scanInteger]; exact win_atEof (by omega)
  | cons c r =>
    simp only [List.length_cons] at h
    have hl := digitsOf_length r
    simp only [scanInteger]
    split
    · split
      · exact win_scanAfterInt _ _ _ _ (by simp only [List.length_nil] at *; omega)
      · simp only [List.length_cons] at h
        split
        · exact win_err (by omega)
        · exact win_scanAfterInt _ _ _ _ (by simp only [List.length_cons]; omega)
    · split
      · exact win_scanAfterInt _ _ _ _ (by omega)
      · exact win_err (by omega)

theorem win_scanNumber (rest : Bytes) (pos : Nat) (h : pos + rest.length = N) : Win N (scanNumber env rest pos) := by
  cases rest with
  | nil => simp only [scanNumber]; exact win_atEof (by omega)
  | cons b r =>
    simp only [scanNumber]
    split
    · exact win_scanInteger _ _ _ (by simp only [List.length_cons] at h; omega)
    · exact win_scanInteger _ _ _ h

theorem win_deNumber (ty : NumTy) (rest : Bytes) (pos : Nat) (h : pos + rest.length = N) : Win N (deNumber env ty rest pos) := by
  unfold deNumber
  refine win_withPeek h fun b r p hb => ?_
  split
  · refine (win_scanNumber _ _ hb).bind fun parts r1 p1 hp => ?_
    repeat' split
    all_goals first
      | exact win_ok hp
      | exact win_err (peekErrorIdx_le hp)
      | exact win_fixPos (win_ofVisit _ hp)
  · exact win_peekInvalidType _ _ _ hb

theorem win_scanDigits (acc rest : Bytes) (pos : Nat) (h : pos + rest.length = N) : Win N (scanDigits env acc rest pos) := by
  induction rest generalizing acc pos with
  | nil =>
    simp only [scanDigits]
    split
    · exact win_io
    · exact win_ok h
  | cons c r ih =>
    simp only [scanDigits]
    split
    · exact ih _ _ (by simp only [List.length_cons] at h; omega)
    · exact win_ok h

theorem win_scanInteger128 (rest : Bytes) (pos : Nat) (h : pos + rest.length = N) : Win N (scanInteger128 env rest pos) := by
  cases rest with
  | nil => simp only [scanInteger128]; exact win_atEof (by omega)
  | cons c r =>
    simp only [List.length_cons] at h
    simp only [scanInteger128]
    split
    · split
      · split
        · exact win_io
        · exact win_ok (by simp only [List.length_nil]; omega)
      · simp only [List.length_cons] at h
        split
        · exact win_err (by omega)
        · exact win_ok (by simp only [List.length_cons]; omega)
    · split
      · exact win_scanDigits _ _ _ (by omega)
      · exact win_err (by omega)

theorem win_deInt128 (w : IntTy) (rest : Bytes) (pos : Nat) (h : pos + rest.length = N) : Win N (deInt128 env w rest pos) := by
  unfold deInt128
  refine win_withPeek h fun b r p hb => ?_
  simp only [List.length_cons] at hb
  simp only
  repeat' split
  all_goals first
    | exact win_err (by omega)
    | (refine (win_scanInteger128 _ _ (by first | (simp only [List.length_cons]; omega) | omega)).bind fun ds r1 p1 hp => ?_
       split
       · exact win_ok hp
       · exact win_err (errorIdx_le _ hp))

theorem win_deInt (w : IntTy) (rest : Bytes) (pos : Nat) (h : pos + rest.length = N) : Win N (deInt env w rest pos) := by
  unfold deInt; split
  · exact win_deInt128 _ _ _ h
  · exact win_deNumber _ _ _ h

/-! ## strings -/

theorem win_parseStr (rest : Bytes) (pos : Nat) (h : pos + rest.length = N) : Win N (parseStr env rest pos) := by
  unfold parseStr
  refine (win_machine _ _ _ _ _ _ h).bind fun v r1 p1 hp => ?_
  split <;> exact win_ok hp

theorem win_deStr (visit : Bytes → FromValue.R) (rest : Bytes) (pos : Nat) (h : pos + rest.length = N) :
    Win N (deStr env visit rest pos) := by
  unfold deStr
  refine win_withPeek h fun b r p hb => ?_
  split
  · exact (win_parseStr _ _ (by simp only [List.length_cons] at hb; omega)).bind fun s r1 p1 hp => win_fixPos (win_ofVisit _ hp)
  · exact win_peekInvalidType _ _ _ hb

theorem win_runRaw (st : RawSt) (rest : Bytes) (pos : Nat) (h : pos + rest.length = N) : Win N (runRaw env st rest pos) := by
  induction rest generalizing st pos with
  | nil => simp only [runRaw]; exact win_atEof (by omega)
  | cons b r ih =>
    simp only [List.length_cons] at h
    simp only [runRaw]
    split
    · exact win_ok (by omega)
    · exact win_err (by omega)
    · exact ih _ _ (by omega)
    · split
      · exact win_ok (by omega)
      · exact win_err (by omega)
      · exact ih _ _ (by omega)
      · exact win_err (by omega)

/-! ## sequences -/

theorem win_hasNextElement (first : Bool) (rest : Bytes) (pos : Nat) (h : pos + rest.length = N) :
    Win N (hasNextElement env first rest pos) := by
  unfold hasNextElement
  refine win_withPeek h fun b r p hb => ?_
  repeat' split
  all_goals first
    | exact win_ok hb
    | exact win_err (by simp only [List.length_cons] at hb; omega)
    | (refine win_withPeek (by simp only [List.length_cons] at hb; omega) fun c r' q hc => ?_
       split
       · exact win_err (by simp only [List.length_cons] at hc; omega)
       · exact win_ok hc)

theorem win_nextElement (de : Bytes → Nat → TOut) (hde : ∀ r p, p + r.length = N → Win N (de r p)) (first : Bool) (rest : Bytes)
    (pos : Nat) (h : pos + rest.length = N) : Win N (nextElement env de first rest pos) := by
  unfold nextElement
  refine (win_hasNextElement _ _ _ h).bind fun more r p hp => ?_
  split
  · exact (hde r p hp).map _
  · exact win_ok hp

theorem win_seqLoop (de : Bytes → Nat → TOut) (hde : ∀ r p, p + r.length = N → Win N (de r p)) (n : Nat) (first : Bool)
    (acc : List TVal) (rest : Bytes) (pos : Nat) (h : pos + rest.length = N) : Win N (seqLoop env de n first acc rest pos) := by
  induction n generalizing first acc rest pos with
  | zero => simp only [seqLoop]; exact win_fuel
  | succ n ih =>
    simp only [seqLoop]
    refine (win_nextElement de hde _ _ _ h).bind fun o r p hp => ?_
    split
    · exact win_ok hp
    · exact ih _ _ _ _ hp

theorem win_tupleLoop (de : Schema → Bytes → Nat → TOut) (ss : List Schema)
    (hde : ∀ s ∈ ss, ∀ r p, p + r.length = N → Win N (de s r p)) (first : Bool) (acc : List TVal) (rest : Bytes) (pos : Nat)
    (h : pos + rest.length = N) : Win N (tupleLoop env de ss first acc rest pos) := by
  induction ss generalizing first acc rest pos with
  | nil => simp only [tupleLoop]; exact win_ok h
  | cons s ss ih =>
    simp only [tupleLoop]
    refine (win_nextElement (de s) (hde s (by simp)) _ _ _ h).bind fun o r p hp => ?_
    split
    · exact win_raw hp
    · exact ih (fun s' hs' => hde s' (by simp [hs'])) _ _ _ _ hp

theorem win_endSeq (rest : Bytes) (pos : Nat) (h : pos + rest.length = N) :
    Win N (endSeq env rest pos).res ∧ (endSeq env rest pos).pos + (endSeq env rest pos).rest.length = N := by
  have hs := skipWs_pos rest pos
  unfold endSeq
  generalize skipWs rest pos = x at hs
  obtain ⟨l, p⟩ := x
  cases l with
  | nil => simp at hs; exact ⟨win_atEof (by omega), by simp; omega⟩
  | cons b r =>
    simp only [List.length_cons] at hs
    dsimp only
    split
    · exact ⟨win_ok (by omega), by dsimp only; omega⟩
    · split
      · have hs2 := skipWs_pos r (p + 1)
        generalize skipWs r (p + 1) = y at hs2
        obtain ⟨l2, q⟩ := y
        cases l2 with
        | nil => simp at hs2; exact ⟨win_err (by omega), by simp; omega⟩
        | cons c r' =>
          simp only [List.length_cons] at hs2
          exact ⟨win_err (by omega), by simp only [List.length_cons]; omega⟩
      · exact ⟨win_err (by omega), by simp only [List.length_cons]; omega⟩

theorem win_endMap (rest : Bytes) (pos : Nat) (h : pos + rest.length = N) :
    Win N (endMap env rest pos).res ∧ (endMap env rest pos).pos + (endMap env rest pos).rest.length = N := by
  have hs := skipWs_pos rest pos
  unfold endMap
  generalize skipWs rest pos = x at hs
  obtain ⟨l, p⟩ := x
  cases l with
  | nil => simp at hs; exact ⟨win_atEof (by omega), by simp; omega⟩
  | cons b r =>
    simp only [List.length_cons] at hs
    dsimp only
    split
    · exact ⟨win_ok (by omega), by dsimp only; omega⟩
    · exact ⟨win_err (by omega), by simp only [List.length_cons]; omega⟩

theorem win_closeWith {α : Type} (endFn : Bytes → Nat → EndState)
    (hend : ∀ r p, p + r.length = N → Win N (endFn r p).res ∧ (endFn r p).pos + (endFn r p).rest.length = N) {ret : Res α}
    (h : Win N ret) : Win N (closeWith env endFn ret) := by
  unfold closeWith
  split
  · exact (hend _ _ (h.2.2.2 _ _ _ rfl)).1.bind fun _ _ _ hp => win_ok hp
  · exact win_data (errorIdx_le _ (hend _ _ (h.2.2.1 _ _ rfl)).2)
  · exact h

theorem win_deSeq (t : Nat) (visit : Bytes → Nat → TOut) (hv : ∀ r p, p + r.length = N → Win N (visit r p)) (rest : Bytes) (pos : Nat)
    (h : pos + rest.length = N) : Win N (deSeq env t visit rest pos) := by
  unfold deSeq
  refine win_withPeek h fun b r p hb => ?_
  split
  · simp only [List.length_cons] at hb
    split
    · exact win_err (by omega)
    · exact win_closeWith _ win_endSeq (hv _ _ (by omega))
  · exact win_peekInvalidType _ _ _ hb

theorem win_deBytes (t : Nat) (rest : Bytes) (pos : Nat) (h : pos + rest.length = N) : Win N (deBytes env t rest pos) := by
  unfold deBytes
  refine win_withPeek h fun b r p hb => ?_
  split
  · exact (win_runRaw _ _ _ (by simp only [List.length_cons] at hb; omega)).map _
  · split
    · exact win_deSeq t _ (fun r p hp => (win_seqLoop _ (win_deNumber _) _ _ _ _ _ hp).map _) _ _ hb
    · exact win_peekInvalidType _ _ _ hb

/-! ## maps -/

theorem win_hasNextKey (first : Bool) (rest : Bytes) (pos : Nat) (h : pos + rest.length = N) :
    Win N (hasNextKey env first rest pos) := by
  unfold hasNextKey
  refine win_withPeek h fun b r p hb => ?_
  repeat' split
  all_goals first
    | exact win_ok hb
    | exact win_err (by simp only [List.length_cons] at hb; omega)
    | (refine win_withPeek (by simp only [List.length_cons] at hb; omega) fun c r' q hc => ?_
       repeat' split
       all_goals first
         | exact win_err (by simp only [List.length_cons] at hc; omega)
         | exact win_ok hc)

theorem win_parseObjectColon (rest : Bytes) (pos : Nat) (h : pos + rest.length = N) : Win N (parseObjectColon env rest pos) := by
  unfold parseObjectColon
  refine win_withPeek h fun b r p hb => ?_
  simp only [List.length_cons] at hb
  split
  · exact win_ok (by omega)
  · exact win_err (by omega)

theorem win_keyStr (visit : Bytes → FromValue.R) (rest : Bytes) (pos : Nat) (hne : rest ≠ []) (h : pos + rest.length = N) :
    Win N (keyStr env visit rest pos) := by
  unfold keyStr
  have := drop1 hne
  exact (win_parseStr _ _ (by omega)).bind fun s r p hp => win_ofVisit _ hp

theorem win_keyInt (w : IntTy) (rest : Bytes) (pos : Nat) (hne : rest ≠ []) (h : pos + rest.length = N) :
    Win N (keyInt env w rest pos) := by
  have hd := drop1 hne
  unfold keyInt
  generalize rest.drop 1 = l at hd
  cases l with
  | nil => exact win_atEof (by omega)
  | cons b r =>
    dsimp only
    split
    · exact win_err (errorIdx_le _ (by omega))
    · refine (win_deInt _ _ _ (by omega)).bind fun v r' p' hp => ?_
      cases r' with
      | nil => exact win_atEof (by omega)
      | cons c r'' =>
        simp only [List.length_cons] at hp
        dsimp only
        split
        · exact win_ok (by omega)
        · exact win_err (by omega)

theorem win_keyBool (rest : Bytes) (pos : Nat) (hne : rest ≠ []) (h : pos + rest.length = N) : Win N (keyBool env rest pos) := by
  have hd := drop1 hne
  unfold keyBool
  generalize rest.drop 1 = l at hd
  cases l with
  | nil => exact win_atEof (by omega)
  | cons b r =>
    simp only [List.length_cons] at hd
    dsimp only
    repeat' split
    all_goals first
      | exact win_ident_ok _ _ _ _ (by omega)
      | exact (win_parseStr _ _ (by simp only [List.length_cons]; omega)).bind fun _ _ _ hp => win_data (errorIdx_le _ hp)

theorem win_deVariantId (names : List Bytes) (rest : Bytes) (pos : Nat) (h : pos + rest.length = N) :
    Win N (deVariantId env names rest pos) := win_deStr _ _ _ h

theorem win_deKey (k : KeyKind) (rest : Bytes) (pos : Nat) (hne : rest ≠ []) (h : pos + rest.length = N) :
    Win N (deKey env k rest pos) := by
  unfold deKey
  split
  · exact win_keyStr _ _ _ hne h
  · exact win_keyInt _ _ _ hne h
  · exact win_keyBool _ _ hne h
  · exact win_keyStr _ _ _ hne h
  · unfold keyUnitEnum
    refine (win_deVariantId _ _ _ h).bind fun v r p hp => ?_
    split
    · exact win_ok hp
    · exact win_raw hp

theorem win_mapLoop (k : KeyKind) (de : Bytes → Nat → TOut) (hde : ∀ r p, p + r.length = N → Win N (de r p)) (n : Nat)
    (first : Bool) (acc : List (TVal × TVal)) (rest : Bytes) (pos : Nat) (h : pos + rest.length = N) :
    Win N (mapLoop env k de n first acc rest pos) := by
  induction n generalizing first acc rest pos with
  | zero => simp only [mapLoop]; exact win_fuel
  | succ n ih =>
    simp only [mapLoop]
    have hk := win_hasNextKey (env := env) first rest pos h
    cases hx : hasNextKey env first rest pos with
    | ok more r p =>
      have hp := hk.2.2.2 _ _ _ hx
      simp only [Res.bind]
      split
      · exact win_ok hp
      · rename_i hm
        have hmt : more = true := by simpa using hm
        subst hmt
        have hne := hasNextKey_true _ _ _ _ _ _ hx
        refine (win_deKey k r p hne hp).bind fun kv r1 p1 h1 => ?_
        refine (win_parseObjectColon r1 p1 h1).bind fun _ r2 p2 h2 => ?_
        exact (hde r2 p2 h2).bind fun v r3 p3 h3 => ih _ _ _ _ h3
    | err c i => exact win_err (hk.1 _ _ hx)
    | data i => exact win_data (hk.2.1 _ hx)
    | raw r p => exact win_raw (hk.2.2.1 _ _ hx)
    | io => exact win_io
    | fuel => exact win_fuel

theorem win_deMap (t : Nat) (visit : Bytes → Nat → TOut) (hv : ∀ r p, p + r.length = N → Win N (visit r p)) (rest : Bytes) (pos : Nat)
    (h : pos + rest.length = N) : Win N (deMap env t visit rest pos) := by
  unfold deMap
  refine win_withPeek h fun b r p hb => ?_
  split
  · simp only [List.length_cons] at hb
    split
    · exact win_err (by omega)
    · exact win_closeWith _ win_endMap (hv _ _ (by omega))
  · exact win_peekInvalidType _ _ _ hb

/-! ## structs, enums -/

theorem win_ignoreValue (rest : Bytes) (pos : Nat) (h : pos + rest.length = N) : Win N (ignoreValue env rest pos) := by
  unfold ignoreValue
  exact (win_machine _ _ _ _ _ _ h).map _

theorem win_structLoop (de : Schema → Bytes → Nat → TOut) (fs : List (Bytes × Schema))
    (hde : ∀ f ∈ fs, ∀ r p, p + r.length = N → Win N (de f.2 r p)) (deny : Bool) (n : Nat) (first : Bool)
    (slots : List (Option TVal)) (rest : Bytes) (pos : Nat) (h : pos + rest.length = N) :
    Win N (structLoop env de fs deny n first slots rest pos) := by
  induction n generalizing first slots rest pos with
  | zero => simp only [structLoop]; exact win_fuel
  | succ n ih =>
    simp only [structLoop]
    have hk := win_hasNextKey (env := env) first rest pos h
    cases hx : hasNextKey env first rest pos with
    | ok more r p =>
      have hp := hk.2.2.2 _ _ _ hx
      simp only [Res.bind]
      split
      · exact win_ok hp
      · rename_i hm
        have hmt : more = true := by simpa using hm
        subst hmt
        have hd := drop1 (hasNextKey_true _ _ _ _ _ _ hx)
        refine (win_parseStr _ _ (by omega)).bind fun name r1 p1 h1 => ?_
        split
        · split
          · exact win_raw h1
          · refine (win_parseObjectColon r1 p1 h1).bind fun _ r2 p2 h2 => ?_
            split
            · rename_i nm s hs
              exact (hde _ (mem_of_getElem? hs) r2 p2 h2).bind fun v r3 p3 h3 => ih _ _ _ _ h3
            · exact win_raw h2
        · split
          · exact win_raw h1
          · refine (win_parseObjectColon r1 p1 h1).bind fun _ r2 p2 h2 => ?_
            exact (win_ignoreValue r2 p2 h2).bind fun _ r3 p3 h3 => ih _ _ _ _ h3
    | err c i => exact win_err (hk.1 _ _ hx)
    | data i => exact win_data (hk.2.1 _ hx)
    | raw r p => exact win_raw (hk.2.2.1 _ _ hx)
    | io => exact win_io
    | fuel => exact win_fuel

theorem win_deStruct (t : Nat) (de : Nat → Schema → Bytes → Nat → TOut) (fs : List (Bytes × Schema))
    (hde : ∀ f ∈ fs, ∀ d r p, p + r.length = N → Win N (de d f.2 r p)) (deny : Bool) (rest : Bytes) (pos : Nat)
    (h : pos + rest.length = N) : Win N (deStruct env t de fs deny rest pos) := by
  unfold deStruct
  refine win_withPeek h fun b r p hb => ?_
  split
  · simp only [List.length_cons] at hb
    split
    · exact win_err (by omega)
    · refine win_closeWith _ win_endSeq ((win_tupleLoop _ _ ?_ _ _ _ _ (by omega)).map _)
      intro s hs
      obtain ⟨f, hf', rfl⟩ := List.mem_map.mp hs
      exact hde f hf' _
  · split
    · simp only [List.length_cons] at hb
      split
      · exact win_err (by omega)
      · refine win_closeWith _ win_endMap ?_
        unfold structVisitMap
        refine (win_structLoop _ fs (fun f hf' => hde f hf' _) deny _ _ _ _ _ (by omega)).bind fun slots r p hp => ?_
        split
        · exact win_ok hp
        · exact win_raw hp
    · exact win_peekInvalidType _ _ _ hb

theorem win_dePayload (t : Nat) (de : Nat → Schema → Bytes → Nat → TOut) (sh : VariantShape)
    (hde : ∀ s ∈ shapeSchemas sh, ∀ d r p, p + r.length = N → Win N (de d s r p)) (rest : Bytes) (pos : Nat)
    (h : pos + rest.length = N) : Win N (dePayload env t de sh rest pos) := by
  unfold dePayload
  split
  · exact win_deUnit _ _ h
  · exact hde _ (by simp [shapeSchemas]) _ _ _ h
  · exact win_deSeq t _ (fun r p hp => (win_tupleLoop _ _ (fun s hs => hde s (by simpa [shapeSchemas] using hs) _) _ _ _ _ hp).map _) _ _ h
  · refine win_deStruct t de _ (fun f hf' d => hde f.2 ?_ d) false _ _ h
    simp only [shapeSchemas, List.mem_map]
    exact ⟨f, hf', rfl⟩

theorem win_deEnum (t : Nat) (de : Nat → Schema → Bytes → Nat → TOut) (vs : List (Bytes × VariantShape))
    (hde : ∀ v ∈ vs, ∀ s ∈ shapeSchemas v.2, ∀ d r p, p + r.length = N → Win N (de d s r p)) (rest : Bytes) (pos : Nat)
    (h : pos + rest.length = N) : Win N (deEnum env t de vs rest pos) := by
  unfold deEnum
  refine win_withPeek h fun b r p hb => ?_
  split
  · simp only [List.length_cons] at hb
    split
    · exact win_err (by omega)
    · refine (win_deVariantId _ _ _ (by omega)).bind fun iv r1 p1 h1 => ?_
      refine (win_parseObjectColon r1 p1 h1).bind fun _ r2 p2 h2 => ?_
      split
      · exact win_raw h2
      · rename_i nm sh hs
        refine (win_dePayload (t + 1) de sh (hde _ (mem_of_getElem? hs)) r2 p2 h2).bind fun payload r3 p3 h3 => ?_
        refine win_withPeek h3 fun c r4 q hc => ?_
        split
        · exact win_ok (by simp only [List.length_cons] at hc; omega)
        · exact win_err (errorIdx_le _ hc)
  · split
    · refine (win_deVariantId _ _ _ hb).bind fun iv r1 p1 h1 => ?_
      dsimp only
      split
      · exact win_ok h1
      · exact win_raw h1
    · exact win_err (by simp only [List.length_cons] at hb; omega)

/-- every index of a `deTyped` result lies within the input -/
theorem win_deTyped : ∀ (f t : Nat) (s : Schema) (rest : Bytes) (pos : Nat), pos + rest.length = N →
    Win N (deTyped env f t s rest pos) := by
  intro f
  induction f with
  | zero => intro t s rest pos _; unfold deTyped; exact win_fuel
  | succ f ih =>
    intro t s rest pos h
    cases s with
    | bool => rw [deTyped_bool]; exact win_deBool _ _ h
    | int w => rw [deTyped_int]; exact win_deInt _ _ _ h
    | f64 => rw [deTyped_f64]; exact win_deNumber _ _ _ h
    | f32 => rw [deTyped_f32]; exact win_deNumber _ _ _ h
    | char => rw [deTyped_char]; exact win_deStr _ _ _ h
    | string => rw [deTyped_string]; exact win_deStr _ _ _ h
    | bytes => rw [deTyped_bytes]; exact win_deBytes _ _ _ h
    | option s' =>
      rw [deTyped_option]
      dsimp only
      have hs := skipWs_pos rest pos
      generalize skipWs rest pos = x at hs
      obtain ⟨l, p⟩ := x
      cases l with
      | nil =>
        dsimp only
        split
        · exact win_io
        · exact (ih _ _ _ _ (by simp at hs ⊢; omega)).map _
      | cons b r =>
        simp only [List.length_cons] at hs
        dsimp only
        split
        · exact win_ident_ok _ _ _ _ (by omega)
        · exact (ih _ _ _ _ (by simp only [List.length_cons]; omega)).map _
    | unit => rw [deTyped_unit]; exact win_deUnit _ _ h
    | unitStruct => rw [deTyped_unitStruct]; exact win_deUnit _ _ h
    | newtype s' => rw [deTyped_newtype]; exact ih _ _ _ _ h
    | seq s' =>
      rw [deTyped_seq]
      exact win_deSeq t _ (fun r p hp => (win_seqLoop _ (ih _ _) _ _ _ _ _ hp).map _) _ _ h
    | tuple ss =>
      rw [deTyped_tuple]
      exact win_deSeq t _ (fun r p hp => (win_tupleLoop _ _ (fun s' _ => ih _ s') _ _ _ _ hp).map _) _ _ h
    | map k s' =>
      rw [deTyped_map]
      exact win_deMap t _ (fun r p hp => (win_mapLoop _ _ (ih _ _) _ _ _ _ _ hp).map _) _ _ h
    | struct_ fs deny =>
      rw [deTyped_struct]
      exact win_deStruct t _ _ (fun fl _ d => ih d fl.2) _ _ _ h
    | enum_ vs =>
      rw [deTyped_enum]
      exact win_deEnum t _ _ (fun v _ s' _ d => ih d s') _ _ h
    | ignored => rw [deTyped_ignored]; exact (win_ignoreValue _ _ h).map _
    | any =>
      rw [deTyped_any]
      exact (win_machine _ _ _ _ _ _ h).map _

/-- … of a whole document -/
theorem win_deTypedTop (env : Env) (s : Schema) (bs : Bytes) :
    (∀ c i, deTypedTop env s bs = .err c i → i ≤ bs.length) ∧ (∀ i, deTypedTop env s bs = .data (some i) → i ≤ bs.length) := by
  have hw := win_deTyped (env := env) (N := bs.length) (Schema.size s + 1) 0 s bs 0 (by omega)
  unfold deTypedTop
  cases hx : deTyped env (Schema.size s + 1) 0 s bs 0 with
  | ok v rest pos =>
    have hp := hw.2.2.2 _ _ _ hx
    have hs := skipWs_pos rest pos
    dsimp only
    generalize skipWs rest pos = x at hs
    obtain ⟨l, p⟩ := x
    cases l with
    | nil => dsimp only; constructor <;> (intros; split at * <;> simp_all)
    | cons b r =>
      simp only [List.length_cons] at hs
      dsimp only
      constructor
      · intro c i e; cases e; omega
      · intro i e; cases e
  | err c i =>
    constructor
    · intro c' i' e; cases e; exact hw.1 _ _ hx
    · intro i' e; cases e
  | data i =>
    constructor
    · intro c' i' e; cases e
    · intro i' e; cases e; exact hw.2.1 _ hx
  | raw r p =>
    constructor
    · intro c' i' e; cases e
    · intro i' e; cases e
  | io =>
    constructor
    · intro c' i' e; cases e
    · intro i' e; cases e
  | fuel =>
    constructor
    · intro c' i' e; cases e
    · intro i' e; cases e

end SJ.Proofs.Typed
