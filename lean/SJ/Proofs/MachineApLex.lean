import SJ.Model.MachineAp
import SJ.Spec.PrivateToken
import SJ.Proofs.Sound.Step
import SJ.Proofs.Complete.Num
/-!
# `MachineAp` is the machine wherever no first key decodes to the token

* `run_base_eq`: as long as `triggered` never fires along the run, `MachineAp.run (.base s)` is `Machine.run s`.
* The lexical scan `Spec.PrivateToken.lexStep` is an abstraction of the machine: `Sync env l s` relates the scan state and
  the machine state after the same bytes (`sync_next`, `sync_again`); a machine that has swallowed a `"` or `\` as a hex
  digit of a `\u` escape is out of step with the scan but `Doomed` — it fails within three bytes and never reaches a
  key again. In step, a first key that decodes to the token sets `hit` (`Sync`, clause `afterKey`), and `triggered`
  fires only there.
* `conservative`: `hasTokenFirstKey bs = false → MachineAp.parseTop env bs = ofMachine (Machine.parseTop env bs)`.
-/
namespace SJ.Proofs.MachineAp
open SJ SJ.Gen SJ.Model.Machine SJ.Proofs.Sound
open SJ.Spec.Grammar (StrItem StrWF isHex isSimpleEscape isUnescaped)
open SJ.Spec.Denote (decodeItems)
open SJ.Spec.PrivateToken (LexSt LMode lexStep lexRun hasTokenFirstKey bodyIsToken parseItems)
open SJ.Model.MachineAp (triggered liftStep ofMachine)

/-! ## runs without a trigger -/

theorem triggered_some {env : Env} {s : St} {b : UInt8} {fs : List Frame} (h : triggered env s b = some fs) :
    env.cfg.ap = true ∧ env.tgt = .value ∧ b = 0x3a ∧ s.mode = .afterKey ∧ s.stack = .obj [] Model.MachineAp.token :: fs := by
  unfold triggered at h
  split at h
  · rename_i hc
    simp only [Bool.and_eq_true, decide_eq_true_eq, beq_iff_eq] at hc
    split at h
    · rename_i key fs' hm hst
      split at h
      · rename_i hk
        simp only [Option.some.injEq] at h
        subst h; subst hk
        exact ⟨hc.1.1, hc.1.2, hc.2, hm, hst⟩
      · cases h
    · cases h
  · cases h

theorem triggered_none_of_mode (env : Env) (s : St) (b : UInt8) (h : ∀ fs, ¬ (s.mode = .afterKey ∧ s.stack = .obj [] Model.MachineAp.token :: fs)) :
    triggered env s b = none := by
  cases ht : triggered env s b with
  | none => rfl
  | some fs => exact absurd ⟨(triggered_some ht).2.2.2.1, (triggered_some ht).2.2.2.2⟩ (h fs)

theorem complete_mode_ne_afterKey (fs : List Frame) (v : JV) : (complete fs v).mode ≠ .afterKey := by
  unfold complete; split <;> simp

theorem startValue_not_again (env : Env) (s : St) (b : UInt8) (s' : St) : startValue env s b ≠ .again s' := by
  unfold startValue
  repeat' split
  all_goals simp

theorem step1_again_shape (env : Env) (s : St) (b : UInt8) (s' : St) (h : step1 env s b = .again s') :
    ∃ v, s' = complete s.stack v := by
  obtain ⟨mode, fs⟩ := s
  cases mode with
  | num n =>
    simp only [step1] at h
    obtain ⟨he, _⟩ := stepNum_again env _ n b s' h
    exact SJ.Proofs.Machine.endNumber_ok env _ n s' he
  | str st => simp only [step1] at h; exact absurd h (stepStr_not_again env _ st b s')
  | _ =>
    exfalso
    simp only [step1] at h
    repeat' split at h
    all_goals first
      | (cases h; done)
      | exact SJ.Proofs.Complete.closeArr_not_again env _ _ h
      | exact SJ.Proofs.Complete.closeObj_not_again env _ _ h
      | exact startValue_not_again env _ _ _ h

theorem again_not_triggered (env : Env) (s : St) (b : UInt8) (s' : St) (h : step1 env s b = .again s') :
    triggered env s' b = none := by
  obtain ⟨v, rfl⟩ := step1_again_shape env s b s' h
  exact triggered_none_of_mode env _ b fun fs hh => complete_mode_ne_afterKey _ _ hh.1

/-- `Machine.step`'s result among `MachineAp.step`'s -/
def liftRes : Except (Code × Adj) St → Except Model.MachineAp.Fail Model.MachineAp.St
  | .ok s => .ok (.base s)
  | .error (c, a) => .error (.err c a)

theorem step_base_eq (env : Env) (s : St) (b : UInt8) (h : triggered env s b = none) :
    Model.MachineAp.step env (.base s) b = liftRes (step env s b) := by
  unfold Model.MachineAp.step Model.MachineAp.step1 step
  simp only [h]
  cases hs : step1 env s b with
  | next s' => simp [liftStep, liftRes]
  | err c a => simp [liftStep, liftRes]
  | again s' =>
    simp only [liftStep, again_not_triggered env s b s' hs]
    cases hs2 : step1 env s' b <;> simp [liftRes]

theorem finish_base_eq (env : Env) (s : St) :
    Model.MachineAp.finish env (.base s) = (match finish env s with | .ok v => .ok v | .error c => .error (.err c)) := rfl

/-- no step of the machine's run from `s` over `bs` is the `:` after a first key equal to the token -/
def TrigFree (env : Env) : St → Bytes → Prop
  | _, [] => True
  | s, b :: bs => triggered env s b = none ∧ ∀ s', step env s b = .ok s' → TrigFree env s' bs

theorem run_base_eq (env : Env) : ∀ (bs : Bytes) (s : St) (i : Nat), TrigFree env s bs →
    Model.MachineAp.run env (.base s) i bs = ofMachine (run env s i bs)
  | [], s, i, _ => by
    unfold Model.MachineAp.run run
    rw [finish_base_eq]
    cases finish env s <;> rfl
  | b :: bs, s, i, h => by
    obtain ⟨ht, hn⟩ := h
    unfold Model.MachineAp.run run
    rw [step_base_eq env s b ht]
    cases hs : step env s b with
    | ok s' => simp only [liftRes]; exact run_base_eq env bs s' (i + 1) (hn s' hs)
    | error e => obtain ⟨c, a⟩ := e; simp [liftRes, ofMachine]

/-- without `arbitrary_precision`, or for skipped content, nothing ever triggers -/
theorem trigFree_of_not_ap (env : Env) (h : ¬ (env.cfg.ap = true ∧ env.tgt = .value)) :
    ∀ (bs : Bytes) (s : St), TrigFree env s bs
  | [], _ => trivial
  | b :: bs, s => by
    refine ⟨?_, fun s' _ => trigFree_of_not_ap env h bs s'⟩
    cases ht : triggered env s b with
    | none => rfl
    | some fs => exact absurd ⟨(triggered_some ht).1, (triggered_some ht).2.1⟩ h

/-! ## the lexical scan -/

theorem lex_hit_mono (l : LexSt) (b : UInt8) (h : l.hit = true) : (lexStep l b).hit = true := by
  unfold lexStep
  repeat' split
  all_goals simp [h]

theorem lexRun_hit_mono : ∀ (bs : Bytes) (l : LexSt), l.hit = true → (lexRun l bs).hit = true
  | [], l, h => h
  | b :: bs, l, h => by
    simp only [lexRun, List.foldl_cons]
    exact lexRun_hit_mono bs (lexStep l b) (lex_hit_mono l b h)

theorem lexRun_cons (l : LexSt) (b : UInt8) (bs : Bytes) : lexRun l (b :: bs) = lexRun (lexStep l b) bs := rfl

/-- outside strings, a byte that is neither `"` nor `{` -/
theorem lex_plain (l : LexSt) (b : UInt8) (hl : l.mode = .out false) (h1 : (b == 0x22) = false) (h2 : (b == 0x7b) = false) :
    (lexStep l b).mode = .out false ∧ (lexStep l b).hit = l.hit := by
  unfold lexStep
  rw [hl]
  simp only [h1, h2, Bool.false_eq_true, if_false]
  split
  · exact ⟨hl, rfl⟩
  · exact ⟨rfl, rfl⟩

theorem lex_ws (l : LexSt) (b : UInt8) (br : Bool) (hl : l.mode = .out br) (hw : isWs b = true) : lexStep l b = l := by
  have hw' : Spec.Grammar.isWs b = true := by rw [← isWs_eq]; exact hw
  have h1 : (b == 0x22) = false := by
    cases hx : (b == 0x22) with
    | false => rfl
    | true => have : b = 0x22 := by simpa using hx
              subst this; revert hw'; decide
  have h2 : (b == 0x7b) = false := by
    cases hx : (b == 0x7b) with
    | false => rfl
    | true => have : b = 0x7b := by simpa using hx
              subst this; revert hw'; decide
  unfold lexStep
  rw [hl]
  simp [h1, h2, hw']

theorem lex_quote (l : LexSt) (br : Bool) (hl : l.mode = .out br) :
    lexStep l 0x22 = { l with mode := .str br [] false } := by
  unfold lexStep; rw [hl]; rfl

theorem lex_brace (l : LexSt) (br : Bool) (hl : l.mode = .out br) :
    (lexStep l 0x7b).mode = .out true ∧ (lexStep l 0x7b).hit = l.hit := by
  unfold lexStep; rw [hl]; exact ⟨rfl, rfl⟩

/-! ## string bodies: the scan's parser inverts the spelling of well-formed items -/

theorem parseItems_raw (b : UInt8) (r : Bytes) (h : (b == 0x5c) = false) :
    parseItems (b :: r) = if isUnescaped b then (parseItems r).map (.raw b :: ·) else none := by
  conv => lhs; unfold parseItems
  simp [h]

theorem parseItems_esc (c : UInt8) (r : Bytes) (h : (c == 0x75) = false) :
    parseItems (0x5c :: c :: r) = if isSimpleEscape c then (parseItems r).map (.esc c :: ·) else none := by
  conv => lhs; unfold parseItems
  simp [h]

theorem parseItems_uni (a b c d : UInt8) (r : Bytes) :
    parseItems (0x5c :: 0x75 :: a :: b :: c :: d :: r) =
      if isHex a && isHex b && isHex c && isHex d then (parseItems r).map (.uni a b c d :: ·) else none := by
  conv => lhs; unfold parseItems
  simp

theorem parseItems_flat : ∀ (items : List StrItem), StrWF items = true →
    parseItems (items.flatMap StrItem.bytes) = some items
  | [], _ => rfl
  | it :: rest, h => by
    simp only [StrWF, List.all_cons, Bool.and_eq_true] at h
    have ih := parseItems_flat rest (by simpa [StrWF] using h.2)
    cases it with
    | raw b =>
      have hb := h.1
      simp only [StrItem.WF, isUnescaped, Bool.and_eq_true, bne_iff_ne, ne_eq] at hb
      have h5c : (b == 0x5c) = false := by simpa using hb.2
      have hu : isUnescaped b = true := h.1
      show parseItems (b :: rest.flatMap StrItem.bytes) = _
      rw [parseItems_raw _ _ h5c]
      simp [hu, ih]
    | esc c =>
      have hc : isSimpleEscape c = true := h.1
      have hcu : (c == 0x75) = false := by
        cases hx : (c == 0x75) with
        | false => rfl
        | true => have : c = 0x75 := by simpa using hx
                  subst this; revert hc; decide
      show parseItems (0x5c :: c :: rest.flatMap StrItem.bytes) = _
      rw [parseItems_esc _ _ hcu]
      simp [hc, ih]
    | uni a b c d =>
      have hw := h.1
      simp only [StrItem.WF, Bool.and_eq_true] at hw
      show parseItems (0x5c :: 0x75 :: a :: b :: c :: d :: rest.flatMap StrItem.bytes) = _
      rw [parseItems_uni]
      simp [hw.1.1.1, hw.1.1.2, hw.1.2, hw.2, ih]

/-! ## the abstraction relation -/

def escPending : EscSt → Bool
  | .bs => true
  | .lead2 _ => true
  | _ => false

def topEmpty : List Frame → Bool
  | .obj [] _ :: _ => true
  | _ => false

def TopNonEmpty (fs : List Frame) : Prop := ∃ m ms k r, fs = .obj (m :: ms) k :: r

def DoomedEsc (e : EscSt) : Prop := ∃ acc lead, e = .hex acc lead ∧ acc.all isHex = false

/-- a `"` or `\` (or any other non-hex byte) sits among the digits of a `\u` escape: the machine fails at the fourth -/
def Doomed (s : St) : Prop := ∃ st, s.mode = .str st ∧ DoomedEsc st.esc

/-- the scan state `l` and the machine state `s` after the same bytes -/
def Sync (env : Env) (l : LexSt) (s : St) : Prop :=
  match s.mode with
  | .objFirst => l.mode = .out true ∧ topEmpty s.stack = true
  | .afterKey => l.mode = .out false ∧
      ∃ ms k fs, s.stack = .obj ms k :: fs ∧ (ms = [] → k = Model.MachineAp.token → l.hit = true)
  | .afterMember => l.mode = .out false ∧ TopNonEmpty s.stack
  | .objNextKey => l.mode = .out false ∧ TopNonEmpty s.stack
  | .lit rest _ => l.mode = .out false ∧ ∀ x ∈ rest, (x == 0x22) = false ∧ (x == 0x7b) = false
  | .str st => ∃ raw items tail, l.mode = .str (st.isKey && topEmpty s.stack) raw (escPending st.esc) ∧
      raw.reverse = items.flatMap StrItem.bytes ++ tail ∧ StrInv env st items tail ∧
      (st.isKey = true → ∃ ms k fs, s.stack = .obj ms k :: fs)
  | _ => l.mode = .out false

theorem sync_complete (env : Env) (l : LexSt) (fs : List Frame) (v : JV) (hl : l.mode = .out false) :
    Sync env l (complete fs v) := by
  unfold complete
  split
  · exact hl
  · exact hl
  · exact ⟨hl, _, _, _, _, rfl⟩

theorem topNonEmpty_not_empty {fs : List Frame} (h : TopNonEmpty fs) : topEmpty fs = false := by
  obtain ⟨m, ms, k, r, rfl⟩ := h; rfl

/-! ## number steps consume number bytes -/

theorem stepNum_next_byte (env : Env) (s : St) (n : NumSt) (b : UInt8) (s' : St) (h : stepNum env s n b = .next s') :
    (b == 0x22) = false ∧ (b == 0x7b) = false := by
  constructor
  · cases hx : (b == 0x22) with
    | false => rfl
    | true =>
      exfalso
      have : b = 0x22 := by simpa using hx
      subst this
      unfold stepNum at h
      simp only at h
      cases hph : n.phase <;> simp [hph, isDigit] at h <;> (repeat' split at h) <;> simp at h
  · cases hx : (b == 0x7b) with
    | false => rfl
    | true =>
      exfalso
      have : b = 0x7b := by simpa using hx
      subst this
      unfold stepNum at h
      simp only at h
      cases hph : n.phase <;> simp [hph, isDigit] at h <;> (repeat' split at h) <;> simp at h

/-! ## string steps -/

theorem all_append_nonhex (acc : List UInt8) (b : UInt8) (h : isHex b = false) : (acc ++ [b]).all isHex = false := by
  simp [List.all_append, h]

theorem doomed_append (acc : List UInt8) (b : UInt8) (h : acc.all isHex = false) : (acc ++ [b]).all isHex = false := by
  simp only [List.all_append, h, Bool.false_and]

theorem hex4_doomed (acc : List UInt8) (h : acc.all isHex = false) : hex4 acc = none := by
  cases hx : hex4 acc with
  | none => rfl
  | some n =>
    obtain ⟨a, b, c, d, rfl, ha, hb, hc, hd, _⟩ := hex4_some acc n hx
    simp [ha, hb, hc, hd] at h

theorem doomed_step1 (env : Env) (s : St) (b : UInt8) (s' : St) (hd : Doomed s) (h : step1 env s b = .next s') :
    Doomed s' := by
  obtain ⟨st, hm, acc, lead, he, hacc⟩ := hd
  obtain ⟨mode, fs⟩ := s
  simp only at hm
  subst hm
  simp only [step1] at h
  unfold stepStr at h
  simp only [he] at h
  split at h
  · simp only [Step.next.injEq] at h
    subst h
    exact ⟨_, rfl, _, _, rfl, doomed_append acc b hacc⟩
  · rw [hex4_doomed _ (doomed_append acc b hacc)] at h
    simp at h

theorem complete_mode_ne_str (fs : List Frame) (v : JV) (st : StrSt) : (complete fs v).mode ≠ .str st := by
  unfold complete; split <;> simp

/-- the closing quote leaves the string -/
theorem endStr_not_str (env : Env) (s : St) (st : StrSt) (s' : St) (h : endStr env s st = .next s') (st' : StrSt) :
    s'.mode ≠ .str st' := by
  intro hm
  unfold endStr at h
  simp only at h
  repeat' split at h
  all_goals first | (cases h; done) | skip
  all_goals (simp only [Step.next.injEq] at h; subst h)
  all_goals first | (simp at hm; done) | exact complete_mode_ne_str _ _ _ hm

theorem last_of_four {acc : List UInt8} {b x1 x2 x3 x4 : UInt8} (hl : acc ++ [b] = [x1, x2, x3, x4]) : b = x4 := by
  have := congrArg List.reverse hl
  simp only [List.reverse_append, List.reverse_cons, List.reverse_nil, List.nil_append,
    List.cons_append] at this
  exact (List.cons.inj this).1

/-- a digit of a `\u` escape: a non-hex byte dooms the string, a hex byte leaves no backslash pending -/
theorem stepStr_hex_esc (env : Env) (s : St) (st st' : StrSt) (b : UInt8) (acc : List UInt8) (lead : Option Nat)
    (hesc : st.esc = .hex acc lead) (h : stepStr env s st b = .next { s with mode := .str st' }) :
    (isHex b = false → DoomedEsc st'.esc) ∧ (isHex b = true → escPending st'.esc = false) := by
  obtain ⟨mode, fs⟩ := s
  unfold stepStr at h
  simp only [hesc] at h
  split at h
  · simp only [Step.next.injEq, St.mk.injEq, Mode.str.injEq, and_true] at h
    subst h
    exact ⟨fun hb => ⟨_, _, rfl, all_append_nonhex acc b hb⟩, fun _ => rfl⟩
  · cases hx : hex4 (acc ++ [b]) with
    | none => rw [hx] at h; cases h
    | some nn =>
      obtain ⟨x1, x2, x3, x4, hl, _, _, _, h4, _⟩ := hex4_some _ _ hx
      have hbx : isHex b = true := last_of_four hl ▸ h4
      rw [hx] at h
      simp only at h
      refine ⟨fun hb => (by rw [hbx] at hb; cases hb), fun _ => ?_⟩
      repeat' split at h
      all_goals first
        | (simp only [Step.next.injEq, St.mk.injEq, Mode.str.injEq, and_true] at h; subst h; rfl)
        | (simp only [reduceCtorEq] at h)

/-- how the escape state moves on a string step that stays inside the string -/
theorem stepStr_esc (env : Env) (s : St) (st st' : StrSt) (b : UInt8)
    (h : stepStr env s st b = .next { s with mode := .str st' }) :
    (escPending st.esc = true → escPending st'.esc = false) ∧
    (escPending st.esc = false → b = 0x5c → escPending st'.esc = true ∨ DoomedEsc st'.esc) ∧
    (escPending st.esc = false → b = 0x22 → DoomedEsc st'.esc) ∧
    (escPending st.esc = false → b ≠ 0x5c → b ≠ 0x22 → escPending st'.esc = false ∨ DoomedEsc st'.esc) := by
  cases hesc : st.esc with
  | none =>
    obtain ⟨mode, fs⟩ := s
    unfold stepStr at h
    simp only [hesc] at h
    split at h
    · exact absurd rfl (endStr_not_str env _ st _ h st')
    split at h
    · rename_i hq hb
      simp only [Step.next.injEq, St.mk.injEq, Mode.str.injEq, and_true] at h
      subst h
      simp only [beq_iff_eq] at hb hq
      exact ⟨by simp [escPending], fun _ _ => .inl rfl, fun _ hb' => absurd hb' hq, fun _ hb' => absurd hb hb'⟩
    split at h
    · cases h
    · rename_i hq hb _
      simp only [Step.next.injEq, St.mk.injEq, Mode.str.injEq, and_true] at h
      subst h
      simp only [beq_iff_eq] at hb hq
      exact ⟨by simp [escPending], fun _ hb' => absurd hb' hb, fun _ hb' => absurd hb' hq,
        fun _ _ _ => .inl (by simp [escPending])⟩
  | bs =>
    obtain ⟨mode, fs⟩ := s
    unfold stepStr at h
    simp only [hesc] at h
    refine ⟨fun _ => ?_, by simp [escPending], by simp [escPending], by simp [escPending]⟩
    split at h
    · simp only [Step.next.injEq, St.mk.injEq, Mode.str.injEq, and_true] at h
      subst h; rfl
    split at h
    · simp only [Step.next.injEq, St.mk.injEq, Mode.str.injEq, and_true] at h
      subst h; rfl
    · cases h
  | hex acc lead =>
    obtain ⟨hno, hyes⟩ := stepStr_hex_esc env s st st' b acc lead hesc h
    refine ⟨by simp [escPending], fun _ hb => .inr (hno (by subst hb; decide)), fun _ hb => hno (by subst hb; decide),
      fun _ _ _ => ?_⟩
    cases hx : isHex b with
    | true => exact .inl (hyes hx)
    | false => exact .inr (hno hx)
  | lead1 n1 =>
    obtain ⟨mode, fs⟩ := s
    unfold stepStr at h
    simp only [hesc] at h
    split at h
    · rename_i hb
      simp only [Step.next.injEq, St.mk.injEq, Mode.str.injEq, and_true] at h
      subst h
      simp only [beq_iff_eq] at hb
      refine ⟨by simp [escPending], fun _ _ => .inl rfl, fun _ hb' => ?_, fun _ hb' => absurd hb hb'⟩
      rw [hb'] at hb; exact absurd hb (by decide)
    · cases h
  | lead2 n1 =>
    obtain ⟨mode, fs⟩ := s
    unfold stepStr at h
    simp only [hesc] at h
    refine ⟨fun _ => ?_, by simp [escPending], by simp [escPending], by simp [escPending]⟩
    split at h
    · simp only [Step.next.injEq, St.mk.injEq, Mode.str.injEq, and_true] at h
      subst h; rfl
    · cases h

end SJ.Proofs.MachineAp
