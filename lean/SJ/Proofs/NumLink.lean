import SJ.Proofs.NumFuel
import SJ.Proofs.FloatLiteral
/-!
# The two transcriptions of the default number path agree

`Model.Num.convertDefault` (used by the byte-step parser machine, `Model.Machine.numValue`) and
`Model.FloatDefault.partsOfLiteral`/`floatOfLiteral` (the subject of the C08 theorems) were written
independently from the same Rust (`src/de.rs`, non-`float_roundtrip`). This file translates the
machine's `Parts` into a `Spec.Decimal.NumLit` (`toNumLit`) and proves the two developments equal on
every literal the machine's scanner can produce (`PartsWF`, defined in `Proofs/NumFuel.lean` together
with the table-independent proof that (A) never runs out of fuel, `convertDefault_ne_outOfFuel`):

* `convertDefault_eq_floatDefault : convertDefault p = resOfParts (partsOfLiteral (toNumLit p))`
* `convertDefault_f64_iff`, `convertDefault_outOfRange_iff`, `convertDefault_u64_iff`, `convertDefault_i64_iff`
* `numOfNRes_convertDefault`: as `Number`s, (A)'s result is `numOfLit (toNumLit p)`, (B)'s prediction.

No float code is evaluated: every step is an equation between the two loops on open terms.
-/
namespace SJ.Proofs.NumLink
open SJ SJ.Spec.Ieee SJ.Spec.Decimal
open SJ.Model.Num (Parts NRes FRes convertDefault)

namespace FD
export SJ.Model.FloatDefault (loop fuelFor f64FromParts intLoop fracLoop expLoop parseExponent parseDecimal
  partsOfLiteral floatOfLiteral parseExponentOverflow litPow10 pow10 wrappingAbsUsize satI32 overflow
  LoopResult longIntegerExponent)
end FD
open SJ.Proofs.FloatDefault (pow10_eq overflow_eq digitVal_le intLoop_le fracLoop_le)

/-! ## The translation and its domain -/

/-- the machine's scanned parts as a `NumLit` (absent fraction/exponent ↦ empty digit strings) -/
def toNumLit (p : Parts) : NumLit :=
  { neg := p.neg, intDigits := p.int, fracDigits := p.frac.getD [],
    expNeg := (p.exp.map (·.1)).getD false, expDigits := (p.exp.map (·.2)).getD [] }

theorem toNumLit_wf (p : Parts) (h : PartsWF p) : (toNumLit p).WF = true := by
  obtain ⟨neg, int, frac, exp, raw⟩ := p
  obtain ⟨h1, h2, h3, h4⟩ := h
  simp only at h1 h2 h3 h4
  have hf : (frac.getD []).all isDigit = true := by
    cases frac with
    | none => rfl
    | some fds => exact (h3 fds rfl).2
  have he : ((exp.map (·.2)).getD []).all isDigit = true ∧
      (!((exp.map (·.2)).getD []).isEmpty || !(exp.map (·.1)).getD false) = true := by
    cases exp with
    | none => exact ⟨rfl, rfl⟩
    | some e =>
      obtain ⟨en, eds⟩ := e
      obtain ⟨hne, hd⟩ := h4 en eds rfl
      refine ⟨hd, ?_⟩
      cases eds with
      | nil => exact absurd rfl hne
      | cons _ _ => rfl
  unfold NumLit.WF toNumLit
  simp only [h1, hf, he.1, he.2, Bool.and_self, Bool.true_and, Bool.and_true]
  exact h2

/-! ## Result types -/

/-- the parser machine's view of what the digit collection of (B) hands on -/
def ofOpt : Option UInt64 → NRes
  | some b => .f64 b
  | none => .outOfRange

def resOfParts : Model.FloatDefault.Parts → NRes
  | .u64 n => .u64 n
  | .i64 n => .i64 n
  | .negInt n => .f64 (F64.neg (F64.ofU64 n))
  | .parts pos s e => ofOpt (FD.f64FromParts pos s e)
  | .expOverflow pos z pe => ofOpt (FD.parseExponentOverflow pos z pe)
  | .invalid => .outOfFuel

def toFRes : FD.LoopResult → FRes
  | .done f => .ok f
  | .outOfRange => .outOfRange
  | .outOfFuel => .outOfFuel

/-! ## Elementary correspondences -/

theorem dig_eq (b : UInt8) : Model.Num.dig b = digitVal b := rfl

theorem overflowMacro_eq (a b c : Nat) : Model.Num.overflowMacro a b c = FD.overflow a b c := by
  unfold Model.Num.overflowMacro Model.FloatDefault.overflow Gen.overflowMacro
  rfl

theorem u64Max_eq : Model.Num.u64Max = Model.FloatDefault.u64Max := rfl
theorem i32Max_eq : Model.Num.i32Max = Model.FloatDefault.i32Max := rfl

theorem clampI32_eq (x : Int) : Model.Num.clampI32 x = FD.satI32 x := by
  unfold Model.Num.clampI32 Model.FloatDefault.satI32 Model.FloatDefault.i32Max
    Model.FloatDefault.i32Min
  have h1 : (((2 ^ 31 - 1 : Nat)) : Int) = 2147483647 := by decide
  have h2 : (-(2 ^ 31) : Int) = -2147483648 := by decide
  rw [h1, h2]

/-- (A)'s and (B)'s source literal `1e<k>` (an equation on open terms; nothing is evaluated) -/
theorem lit10_eq (k : Nat) : Model.Num.lit10 k = FD.litPow10 k := by
  unfold Model.Num.lit10 Model.FloatDefault.litPow10 F64.roundOrInf
  rfl

/-- both read the same extracted table -/
theorem pow10_eq_pow10 (i : Nat) : Model.Num.pow10 i = FD.pow10 i := by
  unfold Model.Num.pow10 Model.FloatDefault.pow10
  cases Gen.pow10Exps[i]? with
  | none => rfl
  | some k => simp only [Option.map_some, lit10_eq]

/-! ## The `POW10` loop of `f64_from_parts` -/

theorem wabs_lt_iff (e : Int) : FD.wrappingAbsUsize e < 309 ↔ e.natAbs < 309 := by
  unfold Model.FloatDefault.wrappingAbsUsize Model.FloatDefault.i32Min
  split <;> omega

theorem wabs_of_lt (e : Int) (h : e.natAbs < 309) : FD.wrappingAbsUsize e = e.natAbs := by
  unfold Model.FloatDefault.wrappingAbsUsize Model.FloatDefault.i32Min
  rw [if_neg (by omega)]

/-- `exponent.wrapping_abs() as usize` (B) and `|exponent|` (A) index the table alike: they differ only
    for `i32::MIN`, where both are far beyond its end -/
theorem pow10_wabs (e : Int) : FD.pow10 (FD.wrappingAbsUsize e) = Model.Num.pow10 e.natAbs := by
  rw [pow10_eq_pow10, pow10_eq, pow10_eq]
  by_cases hidx : e.natAbs < 309
  · rw [wabs_of_lt e hidx]
  · rw [if_neg hidx, if_neg (fun h => hidx ((wabs_lt_iff e).1 h))]

/-- with the same fuel the two loops are the same function -/
theorem loop_eq (fuel : Nat) : ∀ (f : UInt64) (e : Int),
    Model.Num.f64FromPartsLoop fuel f e = toFRes (FD.loop fuel f e) := by
  induction fuel with
  | zero => intro f e; rfl
  | succ n ih =>
    intro f e
    unfold Model.Num.f64FromPartsLoop Model.FloatDefault.loop
    rw [pow10_wabs]
    simp only
    cases Model.Num.pow10 e.natAbs with
    | some pow =>
      simp only
      by_cases hpos : e ≥ 0
      · simp only [hpos, if_true]
        split <;> rfl
      · simp only [hpos, if_false]; rfl
    | none =>
      simp only
      by_cases hz : F64.isZero f = true
      · simp only [hz, if_true]; rfl
      · simp only [hz]
        by_cases hpos : e ≥ 0
        · simp only [hpos, if_true]; rfl
        · simp only [hpos, if_false]
          rw [ih, lit10_eq]
          rfl

/-- two fuels that both suffice give the same answer -/
theorem loop_fuel_irrel (n : Nat) : ∀ (m : Nat) (f : UInt64) (e : Int),
    FD.loop n f e ≠ .outOfFuel → FD.loop m f e ≠ .outOfFuel → FD.loop n f e = FD.loop m f e := by
  induction n with
  | zero => intro m f e h _; exact absurd rfl h
  | succ n ih =>
    intro m f e hn hm
    cases m with
    | zero => exact absurd rfl hm
    | succ m =>
      unfold Model.FloatDefault.loop at hn hm ⊢
      split
      · rfl
      · split
        · rfl
        · split
          · rfl
          · rename_i hp hz hpos
            simp only [hp, hz, hpos, if_false] at hn hm
            exact ih m _ _ hn hm

/-- `f64_from_parts`: (A) = (B), for every significand and exponent -/
theorem f64FromParts_eq (positive : Bool) (s : Nat) (e : Int) :
    Model.Num.ofF (Model.Num.f64FromParts positive s e) = ofOpt (FD.f64FromParts positive s e) := by
  have hA := loopA_fuel (F64.ofU64 s) e
  have hB := SJ.Proofs.FloatDefault.loop_fuel (F64.ofU64 s) e
  have hA' : FD.loop (e.natAbs / Gen.fromPartsStep + 3) (F64.ofU64 s) e ≠ .outOfFuel := by
    intro h; apply hA; rw [loop_eq, h]; rfl
  unfold Model.Num.f64FromParts Model.FloatDefault.f64FromParts
  rw [loop_eq, loop_fuel_irrel _ _ _ _ hA' hB]
  cases h : FD.loop (FD.fuelFor e) (F64.ofU64 s) e with
  | done f => rfl
  | outOfRange => rfl
  | outOfFuel => exact absurd h hB

/-! ## Digit loops -/

theorem goInt_eq (ds : Bytes) : ∀ sig, convertDefault.goInt sig ds =
    ((FD.intLoop sig ds).1,
      if (FD.intLoop sig ds).2.isEmpty then none else some (FD.intLoop sig ds).2.length) := by
  induction ds with
  | nil => intro sig; rfl
  | cons c cs ih =>
    intro sig
    unfold convertDefault.goInt Model.FloatDefault.intLoop
    rw [overflowMacro_eq, dig_eq, u64Max_eq]
    simp only
    cases FD.overflow sig (digitVal c) Model.FloatDefault.u64Max with
    | true => simp only [if_true]; rfl
    | false => simp only [Bool.false_eq_true, if_false]; exact ih _

theorem decGo_eq (ds : Bytes) : ∀ sig ea, Model.Num.parseDecimal.go sig ea ds = FD.fracLoop sig ea ds := by
  induction ds with
  | nil => intro sig ea; rfl
  | cons c cs ih =>
    intro sig ea
    unfold Model.Num.parseDecimal.go Model.FloatDefault.fracLoop
    rw [overflowMacro_eq, dig_eq, u64Max_eq]
    simp only
    cases FD.overflow sig (digitVal c) Model.FloatDefault.u64Max with
    | true => rfl
    | false => simp only [Bool.false_eq_true, if_false]; exact ih _ _

theorem expGo_eq (ds : Bytes) : ∀ e, Model.Num.parseExponent.go e ds = FD.expLoop e ds := by
  induction ds with
  | nil => intro e; rfl
  | cons c cs ih =>
    intro e
    unfold Model.Num.parseExponent.go Model.FloatDefault.expLoop
    rw [overflowMacro_eq, dig_eq, i32Max_eq]
    simp only
    cases FD.overflow e (digitVal c) Model.FloatDefault.i32Max with
    | true => rfl
    | false => simp only [Bool.false_eq_true, if_false]; exact ih _

/-! ## `parse_exponent_overflow`, `parse_exponent`, `parse_decimal` -/

theorem negZero : F64.neg 0 = 0x8000000000000000 := by decide

theorem exponentOverflow_eq (positive z pe : Bool) :
    Model.Num.exponentOverflow positive z pe = ofOpt (FD.parseExponentOverflow positive z pe) := by
  unfold Model.Num.exponentOverflow Model.FloatDefault.parseExponentOverflow
  cases z <;> cases pe <;> cases positive <;> simp [ofOpt, F64.zero, negZero]

theorem parseExponent_eq (l : NumLit) (positive : Bool) (sig : Nat) (start : Int) (en : Bool)
    (eds : Bytes) (h1 : l.expDigits = eds) (h2 : l.expNeg = en) (hne : eds ≠ []) :
    Model.Num.parseExponent positive sig start en eds
      = resOfParts (FD.parseExponent l positive sig start) := by
  subst h1 h2
  unfold Model.Num.parseExponent Model.FloatDefault.parseExponent
  cases hds : l.expDigits with
  | nil => exact absurd hds hne
  | cons d rest =>
    simp only
    rw [expGo_eq, dig_eq]
    cases FD.expLoop (digitVal d) rest with
    | none => simp only [resOfParts]; exact exponentOverflow_eq _ _ _
    | some e =>
      simp only [resOfParts, clampI32_eq]
      exact f64FromParts_eq _ _ _

/-- how the optional exponent of `Parts` shows in the `NumLit` -/
def ExpMatches (l : NumLit) : Option (Bool × Bytes) → Prop
  | none => l.expDigits = []
  | some (en, eds) => l.expDigits = eds ∧ l.expNeg = en ∧ eds ≠ []

theorem parseDecimal_eq (l : NumLit) (positive : Bool) (sig : Nat) (eb : Int) (fds : Bytes)
    (exp : Option (Bool × Bytes)) (hf : l.fracDigits = fds) (he : ExpMatches l exp) :
    Model.Num.parseDecimal positive sig eb fds exp
      = resOfParts (FD.parseDecimal l positive sig eb) := by
  subst hf
  unfold Model.Num.parseDecimal Model.FloatDefault.parseDecimal
  rw [decGo_eq]
  cases FD.fracLoop sig 0 l.fracDigits with
  | mk s ea =>
    simp only
    cases exp with
    | none =>
      simp only [ExpMatches] at he
      simp only [he, List.isEmpty_nil, if_true, resOfParts]
      exact f64FromParts_eq _ _ _
    | some e =>
      obtain ⟨en, eds⟩ := e
      obtain ⟨h1, h2, hne⟩ := he
      have hne' : l.expDigits.isEmpty = false := by
        rw [h1]; cases eds with
        | nil => exact absurd rfl hne
        | cons _ _ => rfl
      simp only [hne', Bool.false_eq_true, if_false]
      exact parseExponent_eq l positive s (eb + ea) en eds h1 h2 hne

/-! ## The whole conversion -/

theorem digit_no_overflow (c : UInt8) (hc : isDigit c = true) :
    Model.Num.overflowMacro 0 (Model.Num.dig c) Model.Num.u64Max = false := by
  rw [overflowMacro_eq, dig_eq, overflow_eq _ _ _ (digitVal_le c hc)]
  have := digitVal_le c hc
  have h : ¬ (0 * 10 + digitVal c > Model.FloatDefault.u64Max) := by
    simp only [Model.FloatDefault.u64Max]; omega
  rw [u64Max_eq, decide_eq_false h]

/-- the `-` branch of `parse_integer`'s last arm: `(significand as i64).wrapping_neg() >= 0` in the two
    transcriptions -/
theorem negInt_eq (s : Nat) (hs : s ≤ Model.FloatDefault.u64Max) :
    (let asI64 : Int := if s ≥ 2 ^ 63 then (s : Int) - 2 ^ 64 else s
     let negv : Int := if asI64 == -(2 ^ 63) then asI64 else -asI64
     if negv ≥ 0 then NRes.f64 (F64.neg (F64.ofU64 s)) else .i64 negv)
    = resOfParts (if s = 0 || s > 2 ^ 63 then .negInt s else .i64 (-(s : Int))) := by
  simp only [Model.FloatDefault.u64Max] at hs
  simp only [beq_iff_eq, ge_iff_le, Bool.or_eq_true, decide_eq_true_eq, gt_iff_lt]
  by_cases h1 : 2 ^ 63 ≤ s
  · by_cases h2 : s = 2 ^ 63
    · subst h2; simp [resOfParts]
    · have e1 : ¬ ((s : Int) - 2 ^ 64 = -2 ^ 63) := by omega
      have e2 : (0 : Int) ≤ -((s : Int) - 2 ^ 64) := by omega
      have e3 : (s = 0 ∨ 2 ^ 63 < s) := by omega
      simp only [h1, if_true, e1, if_false, e2, e3, resOfParts]
  · have e1 : ¬ ((s : Int) = -2 ^ 63) := by omega
    simp only [h1, if_false, e1]
    by_cases h0 : s = 0
    · subst h0; simp [resOfParts]
    · have e2 : ¬ ((0 : Int) ≤ -(s : Int)) := by omega
      have e3 : ¬ (s = 0 ∨ 2 ^ 63 < s) := by omega
      simp only [e2, if_false, e3, resOfParts]

/-- **The link.** On every literal the machine's scanner can produce, the parser model's number
    conversion (A) is the C08 development's digit collection and float construction (B). -/
theorem convertDefault_eq_floatDefault (p : Parts) (hwf : PartsWF p) :
    convertDefault p = resOfParts (FD.partsOfLiteral (toNumLit p)) := by
  obtain ⟨neg, int, frac, exp, raw⟩ := p
  obtain ⟨hd, hshape, hfrac, hexp⟩ := hwf
  simp only at hd hshape hfrac hexp
  cases int with
  | nil => simp at hshape
  | cons c cs =>
    simp only [List.all_cons, Bool.and_eq_true] at hd
    obtain ⟨hc, hcs⟩ := hd
    have hlead : (c == 0x30 && !cs.isEmpty) = false := by
      cases cs with
      | nil => simp
      | cons x xs =>
        simp only at hshape
        simp only [bne_iff_ne, ne_eq] at hshape
        simp [hshape]
    have hem : ExpMatches (toNumLit ⟨neg, c :: cs, frac, exp, raw⟩) exp := by
      cases exp with
      | none => rfl
      | some e => obtain ⟨en, eds⟩ := e; exact ⟨rfl, rfl, (hexp en eds rfl).1⟩
    unfold convertDefault Model.FloatDefault.partsOfLiteral
    simp only [toNumLit] at hem ⊢
    rw [convertDefault.goInt, digit_no_overflow c hc]
    simp only [Bool.false_eq_true, if_false, Nat.zero_mul, Nat.zero_add, hlead]
    rw [goInt_eq, dig_eq]
    have hsle := intLoop_le cs (digitVal c) hcs (by
      have := digitVal_le c hc; simp only [Model.FloatDefault.u64Max]; omega)
    cases hr : FD.intLoop (digitVal c) cs with
    | mk s rest =>
      rw [hr] at hsle
      simp only at hsle ⊢
      cases frac with
      | some fds =>
        have hne : fds.isEmpty = false := by
          have := (hfrac fds rfl).1
          cases fds with
          | nil => exact absurd rfl this
          | cons _ _ => rfl
        simp only [Option.getD_some, hne, Bool.not_false, if_true]
        cases rest with
        | nil =>
          simp only [List.isEmpty_nil, if_true]
          exact parseDecimal_eq _ _ _ _ _ _ rfl hem
        | cons r rs =>
          simp only [List.isEmpty_cons, Bool.false_eq_true, if_false]
          exact parseDecimal_eq _ _ _ _ _ _ rfl hem
      | none =>
        simp only [Option.getD_none, List.isEmpty_nil, Bool.not_true, Bool.false_eq_true, if_false]
        cases exp with
        | some e =>
          obtain ⟨en, eds⟩ := e
          obtain ⟨h1, h2, hne⟩ := hem
          have hne' : eds.isEmpty = false := by
            cases eds with
            | nil => exact absurd rfl hne
            | cons _ _ => rfl
          simp only [Option.map_some, Option.getD_some, hne', Bool.not_false, if_true]
          cases rest with
          | nil =>
            simp only [List.isEmpty_nil, if_true]
            exact parseExponent_eq _ _ _ _ _ _ rfl rfl hne
          | cons r rs =>
            simp only [List.isEmpty_cons, Bool.false_eq_true, if_false]
            exact parseExponent_eq _ _ _ _ _ _ rfl rfl hne
        | none =>
          simp only [Option.map_none, Option.getD_none, List.isEmpty_nil, Bool.not_true,
            Bool.false_eq_true, if_false]
          cases rest with
          | cons r rs =>
            simp only [List.isEmpty_cons, Bool.false_eq_true, if_false, Bool.not_false, if_true,
              resOfParts]
            exact f64FromParts_eq _ _ _
          | nil =>
            simp only [List.isEmpty_nil, if_true, Bool.not_true, Bool.false_eq_true, if_false]
            cases neg with
            | false => rfl
            | true =>
              simp only [Bool.not_true, Bool.false_eq_true, if_false]
              exact negInt_eq s hsle

/-! ## Consequences: result by result -/

theorem parseExponent_ne_invalid (l : NumLit) (positive : Bool) (s : Nat) (st : Int)
    (h : l.expDigits.isEmpty = false) : FD.parseExponent l positive s st ≠ .invalid := by
  unfold Model.FloatDefault.parseExponent
  split
  · rename_i he; rw [he] at h; cases h
  · split
    · intro h; cases h
    · intro h; cases h

theorem parseDecimal_ne_invalid (l : NumLit) (positive : Bool) (s : Nat) (eb : Int) :
    FD.parseDecimal l positive s eb ≠ .invalid := by
  unfold Model.FloatDefault.parseDecimal
  simp only
  split
  · intro h; cases h
  · rename_i he
    exact parseExponent_ne_invalid l _ _ _ (by simpa using he)

/-- a grammatical literal never reaches the `.invalid` placeholder of (B) -/
theorem partsOfLiteral_ne_invalid (l : NumLit) (hwf : l.WF = true) : FD.partsOfLiteral l ≠ .invalid := by
  unfold NumLit.WF at hwf
  simp only [Bool.and_eq_true] at hwf
  obtain ⟨⟨_, hshape⟩, _⟩ := hwf
  unfold Model.FloatDefault.partsOfLiteral
  simp only
  split
  · rename_i hi; rw [hi] at hshape; simp at hshape
  · rename_i c cs hi
    rw [hi] at hshape
    have hlead : (c == 0x30 && !cs.isEmpty) = false := by
      cases cs with
      | nil => simp
      | cons x xs =>
        simp only [bne_iff_ne, ne_eq] at hshape
        simp [hshape]
    rw [hlead]
    simp only [Bool.false_eq_true, if_false]
    split
    · exact parseDecimal_ne_invalid _ _ _ _
    · split
      · rename_i he
        exact parseExponent_ne_invalid _ _ _ _ (by simpa using he)
      · repeat' split
        all_goals (intro h; cases h)

/-- the `f64` a number result stands for when an `f64` is asked for (serde's `f64` visitor casts
    `visit_u64`/`visit_i64`); `none` = `NumberOutOfRange` -/
def nresToF64 : NRes → Option UInt64
  | .u64 n => some (F64.ofU64 n)
  | .i64 k => some (F64.neg (F64.ofU64 k.natAbs))
  | .f64 b => some b
  | .outOfRange => none
  | .outOfFuel => none

/-- the link in one line, for every scanner-produced literal: the parser model's result, read as an
    `f64`, is (B)'s `floatOfLiteral` -/
theorem nresToF64_convertDefault (p : Parts) (hwf : PartsWF p) :
    nresToF64 (convertDefault p) = FD.floatOfLiteral (toNumLit p) := by
  rw [convertDefault_eq_floatDefault p hwf]
  have hinv := partsOfLiteral_ne_invalid (toNumLit p) (toNumLit_wf p hwf)
  unfold Model.FloatDefault.floatOfLiteral
  cases h : FD.partsOfLiteral (toNumLit p) with
  | invalid => exact absurd h hinv
  | u64 n => rfl
  | i64 n => rfl
  | negInt n => rfl
  | parts pos s e =>
    simp only [resOfParts, Model.FloatDefault.Parts.toF64]
    cases FD.f64FromParts pos s e <;> rfl
  | expOverflow pos z pe =>
    simp only [resOfParts, Model.FloatDefault.Parts.toF64]
    cases FD.parseExponentOverflow pos z pe <;> rfl

theorem convertDefault_u64_iff (p : Parts) (hwf : PartsWF p) (n : Nat) :
    convertDefault p = .u64 n ↔ FD.partsOfLiteral (toNumLit p) = .u64 n := by
  rw [convertDefault_eq_floatDefault p hwf]
  have hinv := partsOfLiteral_ne_invalid (toNumLit p) (toNumLit_wf p hwf)
  cases h : FD.partsOfLiteral (toNumLit p) with
  | invalid => exact absurd h hinv
  | u64 m => simp [resOfParts]
  | i64 m => simp [resOfParts]
  | negInt m => simp [resOfParts]
  | parts pos s e => simp only [resOfParts]; cases FD.f64FromParts pos s e <;> simp [ofOpt]
  | expOverflow pos z pe =>
    simp only [resOfParts]; cases FD.parseExponentOverflow pos z pe <;> simp [ofOpt]

theorem convertDefault_i64_iff (p : Parts) (hwf : PartsWF p) (k : Int) :
    convertDefault p = .i64 k ↔ FD.partsOfLiteral (toNumLit p) = .i64 k := by
  rw [convertDefault_eq_floatDefault p hwf]
  have hinv := partsOfLiteral_ne_invalid (toNumLit p) (toNumLit_wf p hwf)
  cases h : FD.partsOfLiteral (toNumLit p) with
  | invalid => exact absurd h hinv
  | u64 m => simp [resOfParts]
  | i64 m => simp [resOfParts]
  | negInt m => simp [resOfParts]
  | parts pos s e => simp only [resOfParts]; cases FD.f64FromParts pos s e <;> simp [ofOpt]
  | expOverflow pos z pe =>
    simp only [resOfParts]; cases FD.parseExponentOverflow pos z pe <;> simp [ofOpt]

/-- rejected by the parser model iff rejected by (B) — for every scanner-produced literal -/
theorem convertDefault_outOfRange_iff (p : Parts) (hwf : PartsWF p) :
    convertDefault p = .outOfRange ↔ FD.floatOfLiteral (toNumLit p) = none := by
  rw [← nresToF64_convertDefault p hwf]
  have := convertDefault_ne_outOfFuel p hwf
  cases h : convertDefault p with
  | outOfFuel => exact absurd h this
  | u64 n => simp [nresToF64]
  | i64 n => simp [nresToF64]
  | f64 b => simp [nresToF64]
  | outOfRange => simp [nresToF64]

/-- a float result of the parser model is (B)'s float; conversely on float-path literals (those the
    parser does not hand on as `U64`/`I64`) -/
theorem convertDefault_f64_imp (p : Parts) (hwf : PartsWF p) (b : UInt64)
    (h : convertDefault p = .f64 b) : FD.floatOfLiteral (toNumLit p) = some b := by
  rw [← nresToF64_convertDefault p hwf, h]; rfl

theorem convertDefault_f64_iff (p : Parts) (hwf : PartsWF p) (b : UInt64)
    (hfloat : (∀ n, convertDefault p ≠ .u64 n) ∧ (∀ k, convertDefault p ≠ .i64 k)) :
    convertDefault p = .f64 b ↔ FD.floatOfLiteral (toNumLit p) = some b := by
  refine ⟨convertDefault_f64_imp p hwf b, fun h => ?_⟩
  rw [← nresToF64_convertDefault p hwf] at h
  cases hc : convertDefault p with
  | u64 n => exact absurd hc (hfloat.1 n)
  | i64 k => exact absurd hc (hfloat.2 k)
  | f64 b' => rw [hc] at h; simp only [nresToF64, Option.some.injEq] at h; rw [h]
  | outOfRange => rw [hc] at h; cases h
  | outOfFuel => rw [hc] at h; cases h

/-! ## The number a literal becomes, predicted from (B) alone -/

/-- the `Number` (`N::PosInt` / `N::NegInt` / `N::Float`) that (B) predicts for a literal in the default
    configuration; `none` = `NumberOutOfRange` -/
def numOfLit (l : NumLit) : Option Num :=
  match FD.partsOfLiteral l with
  | .u64 n => some (.pos n)
  | .i64 k => some (.neg k)
  | .negInt n => some (.float (F64.neg (F64.ofU64 n)))
  | .parts pos s e => (FD.f64FromParts pos s e).map .float
  | .expOverflow pos z pe => (FD.parseExponentOverflow pos z pe).map .float
  | .invalid => none

/-- a stored number read as `f64` (`Number::as_f64`: integers are cast) -/
def numAsF64 : Num → Option UInt64
  | .pos n => some (F64.ofU64 n)
  | .neg k => some (F64.neg (F64.ofU64 k.natAbs))
  | .float b => some b
  | .lit _ => none

theorem numOfLit_asF64 (l : NumLit) : (numOfLit l).bind numAsF64 = FD.floatOfLiteral l := by
  unfold numOfLit Model.FloatDefault.floatOfLiteral
  cases FD.partsOfLiteral l with
  | u64 n => rfl
  | i64 k => rfl
  | negInt n => rfl
  | invalid => rfl
  | parts pos s e =>
    simp only [Model.FloatDefault.Parts.toF64]
    cases FD.f64FromParts pos s e <;> rfl
  | expOverflow pos z pe =>
    simp only [Model.FloatDefault.Parts.toF64]
    cases FD.parseExponentOverflow pos z pe <;> rfl

theorem numOfLit_none_iff (l : NumLit) : numOfLit l = none ↔ FD.floatOfLiteral l = none := by
  unfold numOfLit Model.FloatDefault.floatOfLiteral
  cases FD.partsOfLiteral l with
  | u64 n => simp [Model.FloatDefault.Parts.toF64]
  | i64 k => simp [Model.FloatDefault.Parts.toF64]
  | negInt n => simp [Model.FloatDefault.Parts.toF64]
  | invalid => simp [Model.FloatDefault.Parts.toF64]
  | parts pos s e =>
    simp only [Model.FloatDefault.Parts.toF64]
    cases FD.f64FromParts pos s e <;> simp
  | expOverflow pos z pe =>
    simp only [Model.FloatDefault.Parts.toF64]
    cases FD.parseExponentOverflow pos z pe <;> simp

theorem numOfLit_float (l : NumLit) (b : UInt64) (h : numOfLit l = some (.float b)) :
    FD.floatOfLiteral l = some b ∧ (∀ n, FD.partsOfLiteral l ≠ .u64 n) ∧
      (∀ k, FD.partsOfLiteral l ≠ .i64 k) := by
  refine ⟨by rw [← numOfLit_asF64, h]; rfl, ?_, ?_⟩
  · intro n hn; unfold numOfLit at h; rw [hn] at h; cases h
  · intro k hk; unfold numOfLit at h; rw [hk] at h; cases h

theorem numOfLit_of_float (l : NumLit) (b : UInt64) (h : FD.floatOfLiteral l = some b)
    (h1 : ∀ n, FD.partsOfLiteral l ≠ .u64 n) (h2 : ∀ k, FD.partsOfLiteral l ≠ .i64 k) :
    numOfLit l = some (.float b) := by
  unfold Model.FloatDefault.floatOfLiteral at h
  unfold numOfLit
  cases hp : FD.partsOfLiteral l with
  | u64 n => exact absurd hp (h1 n)
  | i64 k => exact absurd hp (h2 k)
  | negInt n =>
    rw [hp] at h; simp only [Model.FloatDefault.Parts.toF64, Option.some.injEq] at h
    simp only; rw [h]
  | invalid => rw [hp] at h; cases h
  | parts pos s e =>
    rw [hp] at h; simp only [Model.FloatDefault.Parts.toF64] at h
    simp only; rw [h]; rfl
  | expOverflow pos z pe =>
    rw [hp] at h; simp only [Model.FloatDefault.Parts.toF64] at h
    simp only; rw [h]; rfl

/-- (A)'s result as a `Number`, as `Spec.Canon.numOf` and `Machine.numValue` read it -/
def numOfNRes : NRes → Option Num
  | .u64 n => some (.pos n)
  | .i64 k => some (.neg k)
  | .f64 b => some (.float b)
  | .outOfRange => none
  | .outOfFuel => none

/-- **The link, as numbers.** -/
theorem numOfNRes_convertDefault (p : Parts) (hwf : PartsWF p) :
    numOfNRes (convertDefault p) = numOfLit (toNumLit p) := by
  rw [convertDefault_eq_floatDefault p hwf]
  unfold numOfLit
  have hinv := partsOfLiteral_ne_invalid (toNumLit p) (toNumLit_wf p hwf)
  cases h : FD.partsOfLiteral (toNumLit p) with
  | invalid => exact absurd h hinv
  | u64 n => rfl
  | i64 n => rfl
  | negInt n => rfl
  | parts pos s e => simp only [resOfParts]; cases FD.f64FromParts pos s e <;> rfl
  | expOverflow pos z pe => simp only [resOfParts]; cases FD.parseExponentOverflow pos z pe <;> rfl

/-! ## Integer results come from integer literals only -/

/-- not `ParserNumber::U64` / `I64` -/
def FloatPath (q : Model.FloatDefault.Parts) : Prop := (∀ n, q ≠ .u64 n) ∧ (∀ k, q ≠ .i64 k)

theorem parseExponent_floatPath (l : NumLit) (positive : Bool) (s : Nat) (st : Int) :
    FloatPath (FD.parseExponent l positive s st) := by
  unfold Model.FloatDefault.parseExponent
  split
  · constructor <;> (intro _ h; cases h)
  · split <;> (constructor <;> (intro _ h; cases h))

theorem parseDecimal_floatPath (l : NumLit) (positive : Bool) (s : Nat) (eb : Int) :
    FloatPath (FD.parseDecimal l positive s eb) := by
  unfold Model.FloatDefault.parseDecimal
  simp only
  split
  · constructor <;> (intro _ h; cases h)
  · exact parseExponent_floatPath ..

/-- a fraction or an exponent puts the literal on the float path -/
theorem partsOfLiteral_floatPath (l : NumLit) (h : l.fracDigits ≠ [] ∨ l.expDigits ≠ []) :
    FloatPath (FD.partsOfLiteral l) := by
  unfold Model.FloatDefault.partsOfLiteral
  simp only
  split
  · constructor <;> (intro _ h; cases h)
  · split
    · constructor <;> (intro _ h; cases h)
    · split
      · exact parseDecimal_floatPath ..
      · split
        · exact parseExponent_floatPath ..
        · rename_i hf he
          exfalso
          rcases h with h | h
          · apply h; simpa using hf
          · apply h; simpa using he

theorem numOfLit_pos (l : NumLit) (n : Nat) (h : numOfLit l = some (.pos n)) :
    FD.partsOfLiteral l = .u64 n := by
  unfold numOfLit at h
  cases hp : FD.partsOfLiteral l <;> rw [hp] at h <;> simp only at h
  case u64 m => simp only [Option.some.injEq, Num.pos.injEq] at h; rw [h]
  all_goals first
    | (cases h)
    | (simp only [Option.map_eq_some_iff] at h; obtain ⟨_, _, h⟩ := h; cases h)

theorem numOfLit_neg (l : NumLit) (k : Int) (h : numOfLit l = some (.neg k)) :
    FD.partsOfLiteral l = .i64 k := by
  unfold numOfLit at h
  cases hp : FD.partsOfLiteral l <;> rw [hp] at h <;> simp only at h
  case i64 m => simp only [Option.some.injEq, Num.neg.injEq] at h; rw [h]
  all_goals first
    | (cases h)
    | (simp only [Option.map_eq_some_iff] at h; obtain ⟨_, _, h⟩ := h; cases h)

theorem numOfLit_ne_lit (l : NumLit) (t : Bytes) : numOfLit l ≠ some (.lit t) := by
  intro h
  unfold numOfLit at h
  cases hp : FD.partsOfLiteral l <;> rw [hp] at h <;> simp only at h
  all_goals first
    | (cases h)
    | (simp only [Option.map_eq_some_iff] at h; obtain ⟨_, _, h⟩ := h; cases h)

end SJ.Proofs.NumLink
