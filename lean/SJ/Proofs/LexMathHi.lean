import SJ.Proofs.LexMathShift
import SJ.Proofs.LexBh
/-!
# Limb arithmetic: `hi64` and `bit_length` are the `Nat`-level `Model.Lexical.hi64` / `bitLength`

`Model.Lexical` abstracts `Bigint::hi64` by "the 64 most significant bits, left-aligned, and whether any lower bit is
set" of a natural number. Here: the limb-level transcription (`hi64_1`/`hi64_2`/`u64_to_hi64_1/2`/`nonzero`) computes
exactly that on every normalised vector of limbs, and never panics there.
-/
namespace SJ.Proofs.LexMath
open SJ.Model.LexMath

theorem natBitLength_eq (n : Nat) : natBitLength n = SJ.Model.Lexical.bitLength n := by
  unfold natBitLength SJ.Model.Lexical.bitLength
  by_cases h : n = 0 <;> simp [h]

/-- `Bigint::bit_length` on a normalised vector = `Model.Lexical.bitLength` of the number denoted -/
theorem bitLength_refines (x : Limbs) (hv : Valid x) (hn : Normal x) :
    Math.bitLength x = SJ.Model.Lexical.bitLength (value x) := by
  rw [← natBitLength_eq]; exact small_bitLength_spec x hv hn

theorem value_eq_zero_iff (l : Limbs) : value l = 0 ↔ ∀ a ∈ l, a = 0 := by
  induction l with
  | nil => simp
  | cons x xs ih =>
    simp only [value_cons, List.mem_cons, forall_eq_or_imp]
    constructor
    · intro h
      have hx : x = 0 := by omega
      have : value xs = 0 := by
        have : 2 ^ 64 * value xs = 0 := by omega
        rcases Nat.mul_eq_zero.mp this with h | h
        · exact absurd h (by norm_num)
        · exact h
      exact ⟨hx, ih.mp this⟩
    · rintro ⟨hx, hxs⟩
      rw [hx, ih.mpr hxs]; simp

theorem nonzero_eq (x : Limbs) (r : Nat) : nonzero x r = decide (value (x.take (x.length - r)) ≠ 0) := by
  unfold nonzero
  rw [List.any_reverse]
  by_cases h : value (x.take (x.length - r)) = 0
  · have := (value_eq_zero_iff _).mp h
    simp only [h, ne_eq, not_true_eq_false, decide_false, List.any_eq_false, bne_iff_ne, Decidable.not_not]
    exact this
  · simp only [ne_eq, h, not_false_eq_true, decide_true, List.any_eq_true, bne_iff_ne]
    by_contra hc
    exact h ((value_eq_zero_iff _).mpr (fun a ha => by
      by_contra h0; exact hc ⟨a, ha, h0⟩))

theorem lz64_of_ne {r0 : Nat} (h : r0 ≠ 0) : small.lz64 r0 = 63 - Nat.log2 r0 := by
  unfold small.lz64; simp [h]

/-- one limb -/
theorem hi64_one (r0 : Nat) (h0 : r0 ≠ 0) (hv : r0 < 2 ^ 64) :
    u64ToHi64_1 r0 = some (SJ.Model.Lexical.hi64 r0) := by
  have hl := log2_lt_64 hv h0
  have ⟨e, _, _, hlt⟩ := SJ.Proofs.LexBh.hi64_small r0 (Nat.pos_of_ne_zero h0) (by omega)
  unfold u64ToHi64_1
  rw [lz64_of_ne h0, e]
  have hs : 64 - (r0.log2 + 1) = 63 - r0.log2 := by omega
  rw [hs] at hlt ⊢
  simp only [show ¬ (64 ≤ 63 - r0.log2) by omega, if_false, Nat.shiftLeft_eq, limb_of_lt hlt]

/-- two limbs on top of a low part `L < 2^(64 k)` -/
theorem hi64_two (L k r1 r0 : Nat) (hL : L < 2 ^ (64 * k)) (h1 : r1 < 2 ^ 64) (hv : r0 < 2 ^ 64) (h0 : r0 ≠ 0) :
    (u64ToHi64_2 r0 r1).map (fun p => (p.1, p.2 || decide (L ≠ 0))) =
      some (SJ.Model.Lexical.hi64 (L + 2 ^ (64 * k) * (r1 + 2 ^ 64 * r0))) := by
  have hl := log2_lt_64 hv h0
  have hl1 := Nat.log2_self_le h0
  have hl2 := @Nat.lt_log2_self r0
  -- the number and its bit length
  have hr : L + 2 ^ (64 * k) * r1 < 2 ^ (64 * (k + 1)) := by
    have : (2 : Nat) ^ (64 * (k + 1)) = 2 ^ (64 * k) * 2 ^ 64 := by rw [← Nat.pow_add]; congr 1
    rw [this]; nlinarith [Nat.two_pow_pos (64 * k)]
  have hN : L + 2 ^ (64 * k) * (r1 + 2 ^ 64 * r0) = (L + 2 ^ (64 * k) * r1) + 2 ^ (64 * (k + 1)) * r0 := by
    have : (2 : Nat) ^ (64 * (k + 1)) = 2 ^ (64 * k) * 2 ^ 64 := by rw [← Nat.pow_add]; congr 1
    rw [this]; ring
  have hlog : Nat.log2 (L + 2 ^ (64 * k) * (r1 + 2 ^ 64 * r0)) = 64 * (k + 1) + Nat.log2 r0 := by
    rw [hN]; exact log2_add_mul hr h0
  have ⟨e, _, _, _⟩ := SJ.Proofs.LexBh.hi64_large (L + 2 ^ (64 * k) * (r1 + 2 ^ 64 * r0)) (by rw [hlog]; omega)
  rw [e, hlog]
  -- s = number of significant bits of r0, ls = 64 - s
  obtain ⟨s, hs⟩ : ∃ s, s = r0.log2 + 1 := ⟨_, rfl⟩
  have hs1 : 1 ≤ s := by omega
  have hs64 : s ≤ 64 := by omega
  have hsh : 64 * (k + 1) + r0.log2 + 1 - 64 = 64 * k + s := by omega
  rw [hsh]
  have hform : L + 2 ^ (64 * k) * (r1 + 2 ^ 64 * r0) = (r1 + 2 ^ 64 * r0) * 2 ^ (64 * k) + L := by ring
  have ⟨d1, d2⟩ := SJ.Proofs.LexBh.split_div (r1 + 2 ^ 64 * r0) (64 * k) L s hL
  rw [hform, d1, d2]
  have h64 : (2 : Nat) ^ 64 = 2 ^ s * 2 ^ (64 - s) := by rw [← Nat.pow_add]; congr 1; omega
  have hdiv : (r1 + 2 ^ 64 * r0) / 2 ^ s = r1 / 2 ^ s + 2 ^ (64 - s) * r0 := by
    rw [h64, Nat.mul_assoc]; exact Nat.add_mul_div_left _ _ (Nat.two_pow_pos s)
  have hmod : (r1 + 2 ^ 64 * r0) % 2 ^ s = r1 % 2 ^ s := by
    rw [h64, Nat.mul_assoc]; exact Nat.add_mul_mod_self_left _ _ _
  rw [hdiv, hmod]
  unfold u64ToHi64_2
  rw [lz64_of_ne h0]
  have hls : 63 - r0.log2 = 64 - s := by omega
  rw [hls]
  simp only [show ¬ (64 ≤ 64 - s) by omega, if_false, Option.map_some, Option.some.injEq, Prod.mk.injEq]
  have hrs : 64 - (64 - s) = s := by omega
  rw [hrs]
  have hr0 : r0 * 2 ^ (64 - s) < 2 ^ 64 := by
    rw [h64]
    have : r0 < 2 ^ s := by rw [hs]; exact hl2
    exact Nat.mul_lt_mul_of_pos_right this (Nat.two_pow_pos _)
  constructor
  · -- the value
    by_cases hz : 64 - s = 0
    · have : s = 64 := by omega
      subst this
      simp only [Nat.sub_self, beq_self_eq_true, if_true, Nat.pow_zero, Nat.one_mul]
      rw [Nat.div_eq_of_lt h1]; simp
    · have hb : ((64 - s) == 0) = false := by simpa using hz
      rw [hb]
      simp only [Bool.false_eq_true, if_false]
      rw [Nat.shiftLeft_eq, limb_of_lt hr0, Nat.shiftRight_eq_div_pow]
      have hlt : r1 / 2 ^ s < 2 ^ (64 - s) := by
        apply Nat.div_lt_of_lt_mul; rw [← h64]; exact h1
      rw [← Nat.shiftLeft_eq, ← Nat.shiftLeft_add_eq_or_of_lt hlt, Nat.shiftLeft_eq]
      ring
  · -- the sticky flag
    have hm : limb (r1 <<< (64 - s)) = (r1 % 2 ^ s) * 2 ^ (64 - s) := by
      unfold limb
      rw [Nat.shiftLeft_eq, h64, Nat.mul_mod_mul_right]
    rw [hm]
    have hP := Nat.two_pow_pos (64 - s)
    have hQ := Nat.two_pow_pos (64 * k)
    by_cases ha : r1 % 2 ^ s = 0
    · rw [ha]; simp
    · have h1' : (r1 % 2 ^ s) * 2 ^ (64 - s) ≠ 0 := Nat.mul_ne_zero ha (by omega)
      have h2' : (r1 % 2 ^ s) * 2 ^ (64 * k) + L ≠ 0 := by
        have := Nat.mul_ne_zero ha (show 2 ^ (64 * k) ≠ 0 by omega)
        omega
      have e1 : (r1 % 2 ^ s * 2 ^ (64 - s) != 0) = true := bne_iff_ne.mpr h1'
      have e2 : decide (r1 % 2 ^ s * 2 ^ (64 * k) + L ≠ 0) = true := decide_eq_true h2'
      rw [e1, e2]; rfl

theorem reverse_eq_cons_cons {x : Limbs} {r0 r1 : Nat} {rest : Limbs} (h : x.reverse = r0 :: r1 :: rest) :
    x = rest.reverse ++ [r1, r0] := by
  have := congrArg List.reverse h
  simpa using this

/-- **`hi64` refines.** On a normalised vector of limbs `Bigint::hi64` does not panic and returns
    `Model.Lexical.hi64` of the number denoted. -/
theorem hi64_refines (x : Limbs) (hv : Valid x) (hn : Normal x) :
    Math.hi64 x = some (SJ.Model.Lexical.hi64 (value x)) := by
  unfold Math.hi64 hi64
  cases hr : x.reverse with
  | nil =>
    have : x = [] := by simpa using hr
    subst this; simp [SJ.Model.Lexical.hi64]
  | cons r0 t =>
    cases t with
    | nil =>
      have hx : x = [r0] := by simpa using congrArg List.reverse hr
      subst hx
      have h0 : r0 ≠ 0 := (normal_iff [r0]).mp hn r0 [] rfl
      simp only [value_singleton]
      exact hi64_one r0 h0 (hv r0 (by simp))
    | cons r1 rest =>
      have hx := reverse_eq_cons_cons hr
      subst hx
      have h0 : r0 ≠ 0 := (normal_iff _).mp hn r0 (rest.reverse ++ [r1]) (by simp)
      have hv0 : r0 < 2 ^ 64 := hv r0 (by simp)
      have hv1 : r1 < 2 ^ 64 := hv r1 (by simp)
      have hvl : Valid rest.reverse := (valid_append.mp hv).1
      have hL := value_lt hvl
      have key := hi64_two (value rest.reverse) rest.reverse.length r1 r0 hL hv1 hv0 h0
      have hval : value (rest.reverse ++ [r1, r0]) =
          value rest.reverse + 2 ^ (64 * rest.reverse.length) * (r1 + 2 ^ 64 * r0) := by
        rw [value_append]; simp
      rw [hval, ← key, nonzero_eq]
      have htake : (rest.reverse ++ [r1, r0]).take ((rest.reverse ++ [r1, r0]).length - 2) = rest.reverse := by
        simp
      rw [htake]
      dsimp only
      cases u64ToHi64_2 r0 r1 with
      | none => rfl
      | some p => rfl

end SJ.Proofs.LexMath
