import SJ.Proofs.RoundTripWF
import SJ.Proofs.NumLinkParser
import SJ.Props.C08
/-!
# The finiteness clause of C07 / C08 at the level C04 needs it: `ParsedFloatsFinite`

Whatever float the configured conversion (`Spec.Canon.numOf`) makes of a well-formed number literal
is finite, in every configuration:

* default build: `Model.Num.convertDefault` on the scanner's parts is `Model.FloatDefault`
  (`NumLink.convertDefault_f64_imp`), whose results are finite (`c08_finite_signed`);
* `float_roundtrip`: `Model.Num.convertRoundtrip` returns an integer class, a signed zero, or a
  `roundNE64` result — `roundNE64` yields `none` instead of an infinity (`roundNE64_some`);
* `arbitrary_precision`: no float is ever made.
-/
namespace SJ.Proofs.ParsedFinite
open SJ SJ.Spec.Grammar SJ.Spec.Program SJ.Spec.Ieee SJ.Model.Num
open SJ.Proofs.NumInt SJ.Proofs.RoundTripWF SJ.Proofs.Ieee

/-- `f64::is_finite` of the serializer model and of the IEEE specification are the same test -/
theorem finite64_eq_isFinite (b : UInt64) : finite64 b = F64.isFinite b := by
  have h : ((b >>> 52) &&& 0x7ff).toNat = F64.expField b := by
    rw [UInt64.toNat_and, UInt64.toNat_shiftRight]
    show b.toNat >>> 52 &&& 2 ^ 11 - 1 = b.toNat / 2 ^ 52 % 2 ^ 11
    rw [Nat.and_two_pow_sub_one_eq_mod, Nat.shiftRight_eq_div_pow]
  unfold finite64 F64.isFinite
  rw [← h, Bool.eq_iff_iff, bne_iff_ne, bne_iff_ne, ne_eq, ne_eq, ← UInt64.toNat_inj]
  rfl

/-- default build -/
theorem convertDefault_finite (p : NumParts) (hwf : p.WF = true) (b : UInt64)
    (h : convertDefault (Spec.Canon.partsOf p) = .f64 b) : F64.isFinite b = true := by
  have hp := NumLinkParser.partsOf_wf p hwf
  have hf := NumLink.convertDefault_f64_imp _ hp b h
  exact (SJ.Props.C08.c08_finite_signed _ (NumLink.toNumLit_wf _ hp) b hf).1

theorem exponentOverflow_finite (a z c : Bool) (b : UInt64) (h : exponentOverflow a z c = .f64 b) :
    F64.isFinite b = true := by
  unfold exponentOverflow at h
  split at h
  · cases h
  · cases h
    cases a
    · rw [if_neg (by decide), F64.neg_finite]; decide
    · rw [if_pos rfl]; decide

theorem conv_finite (P : Parts) (b : UInt64) (h : convertRoundtrip.conv P = .f64 b) :
    F64.isFinite b = true := by
  unfold convertRoundtrip.conv at h
  cases he : exact P with
  | zero => rw [he] at h; cases h; exact F64.zero_finite _
  | tiny => rw [he] at h; cases h; exact F64.zero_finite _
  | huge => rw [he] at h; cases h
  | rat n d =>
    rw [he] at h
    simp only at h
    by_cases hd : (d == 0) = true
    · rw [if_pos hd] at h; cases h
    · rw [if_neg hd] at h
      cases hr : roundNE64 P.neg n d with
      | none => rw [hr] at h; cases h
      | some r =>
        rw [hr] at h; cases h
        obtain ⟨hu, rfl⟩ := roundNE64_some _ _ _ _ hr
        exact bits64_finite _ _ hu

/-- `float_roundtrip` build -/
theorem convertRoundtrip_finite (P : Parts) (b : UInt64) (h : convertRoundtrip P = .f64 b) :
    F64.isFinite b = true := by
  cases hi : intClass P with
  | some r =>
    rw [convertRoundtrip_of_intClass_some P r hi] at h; subst h
    unfold intClass at hi
    split at hi
    · dsimp only at hi
      split at hi
      · split at hi <;> cases hi
      · split at hi
        · cases hi
        · split at hi <;> cases hi
    · cases hi
  | none =>
    simp only [convertRoundtrip, hi] at h
    split at h
    · split at h
      · exact exponentOverflow_finite _ _ _ b h
      · exact conv_finite P b h
    · exact conv_finite P b h

/-- **every configuration converts well-formed literals to finite floats only** -/
theorem parsedFloatsFinite (c : Spec.Canon.Cfg) : ParsedFloatsFinite c := by
  intro p b hwf hn
  rw [finite64_eq_isFinite]
  unfold Spec.Canon.numOf at hn
  cases hap : c.ap with
  | true => rw [hap] at hn; simp at hn
  | false =>
    rw [hap] at hn
    simp only [Bool.false_eq_true, if_false] at hn
    unfold Spec.Canon.convert at hn
    cases hfr : c.fr with
    | true =>
      rw [hfr] at hn; simp only [if_true] at hn
      cases hc : convertRoundtrip (Spec.Canon.partsOf p) with
      | f64 b' => rw [hc] at hn; cases hn; exact convertRoundtrip_finite _ b hc
      | u64 _ => rw [hc] at hn; cases hn
      | i64 _ => rw [hc] at hn; cases hn
      | outOfRange => rw [hc] at hn; cases hn
      | outOfFuel => rw [hc] at hn; cases hn
    | false =>
      rw [hfr] at hn; simp only [Bool.false_eq_true, if_false] at hn
      cases hc : convertDefault (Spec.Canon.partsOf p) with
      | f64 b' => rw [hc] at hn; cases hn; exact convertDefault_finite p hwf b hc
      | u64 _ => rw [hc] at hn; cases hn
      | i64 _ => rw [hc] at hn; cases hn
      | outOfRange => rw [hc] at hn; cases hn
      | outOfFuel => rw [hc] at hn; cases hn

end SJ.Proofs.ParsedFinite
