import SJ.Model.LexMath
/-!
# The extracted limb tables of `large_powers64.rs`, `KARATSUBA_CUTOFF`, the limb width — by kernel evaluation

(No Mathlib import here: `decide +kernel` must see `Nat.pow` on literals.)
-/
namespace SJ.Proofs.LexMathTables
open SJ.Gen SJ.Model.LexMath

/-- entry `i` of `POW5` denotes `5^(2^i)`, consists of limbs, is normalised and non-empty -/
def pow5EntryOk (i : Nat) : Bool :=
  match largePow5Limbs[i]? with
  | some l => value l == 5 ^ (2 ^ i) && validB l && normalB l && !l.isEmpty
  | none => false

theorem large_pow5_limbs : (List.range 14).all pow5EntryOk = true := by decide +kernel

/-- the lengths the path choice of `imul_pow5` depends on -/
theorem large_pow5_lengths : largePow5Limbs.map List.length = [1, 1, 1, 1, 1, 2, 3, 5, 10, 19, 38, 75, 149, 298] := by
  decide +kernel

theorem consts : largePow5Limbs.length = 14 ∧ karatsubaCutoff = 32 ∧ limbBits = 64 ∧ pow5_64.length = 28 ∧
    pow10_64.length = 20 ∧ mathShapeAsTranscribed = true := by decide +kernel

/-- the assembled table of `Gen.Lexical` is the value of the limb table -/
theorem large_pow5_assembled : largePow5Limbs.map value = largePow5 := by decide +kernel

theorem pow5_64_ok : (List.range 28).all (fun i => pow5_64.getD i 0 == 5 ^ i && pow5_64.getD i 0 < 2 ^ 64) = true := by
  decide +kernel

theorem pow10_64_ok : (List.range 20).all (fun i => pow10_64.getD i 0 == 10 ^ i && pow10_64.getD i 0 < 2 ^ 64) = true := by
  decide +kernel

/-- `POW5[i]` for `i ≤ 9` (`n < 1024`) has at most 19 limbs, for `i ≤ 10` (`n < 2048`) at most 38 -/
theorem large_pow5_short :
    (List.range 10).all (fun i => match largePow5Limbs[i]? with | some l => decide (l.length ≤ 19) | none => false) = true ∧
    (List.range 11).all (fun i => match largePow5Limbs[i]? with | some l => decide (l.length ≤ 38) | none => false) = true := by
  decide +kernel

theorem ten_pow_769_lt : (10 : Nat) ^ 769 < 2 ^ (64 * 40) := by decide +kernel

end SJ.Proofs.LexMathTables
