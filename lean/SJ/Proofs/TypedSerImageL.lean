import SJ.Proofs.TypedSerImage
import SJ.Proofs.RoundTrip
/-!
# The image of the serializer program of a typed value of the WHOLE universe (`f32` and `Value` members included) is the image
# of the document `valueOfL`; the program is well-hinted

(`Proofs/TypedSerImage.lean` with `wfTVx` / `valueOfL` in place of `wfTV` / `valueOf`.)
-/
set_option linter.unusedSectionVars false
set_option linter.unusedVariables false

namespace SJ.Proofs.TypedSer
open SJ SJ.Model.TypedSer SJ.Spec.Program SJ.Spec.Image

variable (ext : Ext) (hext : ExtOK ext) (c : Spec.Canon.Cfg)

include hext in
mutual
theorem image_progOfL : ∀ (s : Schema) (v : TVal), wfTVx c ext.ryu32 s v = true →
    image ext (progOf s v) = .ok (imageOfValue ext (valueOfL ext.ryu32 s v))
  | .bool, v, h => by cases v <;> simp_all [wfTVx, progOf, valueOfL, image, imageOfValue]
  | .int w, v, h => by
    cases v <;> simp_all [wfTVx, progOf, valueOfL, image]
    rw [image_intJV ext hext]
  | .f64, v, h => by cases v <;> simp_all [wfTVx, progOf, valueOfL, image, imageOfValue]
  | .f32, v, h => by cases v <;> simp_all [wfTVx, progOf, valueOfL, image, imageOfValue]
  | .char, v, h => by cases v <;> simp_all [wfTVx, progOf, valueOfL, image, imageOfValue]
  | .string, v, h => by cases v <;> simp_all [wfTVx, progOf, valueOfL, image, imageOfValue]
  | .bytes, v, h => by
    cases v <;> simp_all [wfTVx, progOf, valueOfL, image, imageOfValue]
    rw [imageOfValues_map]
    simp [imageOfValue]
  | .option s, v, h => by
    cases v with
    | none => simp [progOf, valueOfL, image, imageOfValue]
    | some x =>
      simp only [wfTVx, Bool.and_eq_true] at h
      simp only [progOf, valueOfL, image]
      exact image_progOfL s x h.1
    | _ => simp [wfTVx] at h
  | .unit, v, h => by simp [progOf, valueOfL, image, imageOfValue]
  | .unitStruct, v, h => by simp [progOf, valueOfL, image, imageOfValue]
  | .newtype s, v, h => by
    simp only [wfTVx] at h
    simp only [progOf, valueOfL, image]
    exact image_progOfL s v h
  | .seq s, v, h => by
    cases v with
    | seq xs =>
      simp only [wfTVx, List.all_eq_true] at h
      simp only [progOf, valueOfL, image, imageOfValue]
      rw [imageList_map ext (progOf s) (fun x => imageOfValue ext (valueOfL ext.ryu32 s x)) xs fun x hx => image_progOfL s x (h x hx)]
      rw [imageOfValues_map]
      rfl
    | _ => simp [wfTVx] at h
  | .tuple ss, v, h => by
    cases v with
    | seq xs =>
      simp only [wfTVx] at h
      simp only [progOf, valueOfL, image, imageOfValue]
      rw [image_progTupleL ss xs h]
      rfl
    | _ => simp [wfTVx] at h
  | .map k s, v, h => by
    cases v with
    | map kvs =>
      simp only [wfTVx, List.all_eq_true, Bool.and_eq_true] at h
      simp only [progOf, valueOfL, image, imageOfValue]
      rw [imageEntries_map ext (fun kv => keyProg k kv.1) (fun kv => progOf s kv.2) (fun kv => Model.TypedSer.keyText k kv.1)
        (fun kv => imageOfValue ext (valueOfL ext.ryu32 s kv.2)) kvs
        fun kv hx => ⟨keyText_keyProg ext hext k kv.1 (h kv hx).1, image_progOfL s kv.2 (h kv hx).2⟩]
      rw [imageOfMembers_map]
      rfl
    | _ => simp [wfTVx] at h
  | .struct_ fs d, v, h => by
    cases v with
    | struct_ xs =>
      simp only [wfTVx, Bool.and_eq_true] at h
      simp only [progOf, valueOfL, image, imageOfValue]
      rw [image_progFieldsL fs xs h.2]
      rfl
    | _ => simp [wfTVx] at h
  | .enum_ vs, v, h => by
    cases v with
    | variant i p =>
      simp only [wfTVx, Bool.and_eq_true] at h
      simp only [progOf, valueOfL]
      exact image_progVariantL vs i p h.2
    | _ => simp [wfTVx] at h
  | .ignored, v, h => by simp [wfTVx] at h
  | .any, v, h => by
    cases v with
    | any j => simp only [progOf, valueOfL]; exact SJ.Proofs.SerValue.image_ofValue ext j
    | _ => simp [wfTVx] at h
theorem image_progTupleL : ∀ (ss : List Schema) (xs : List TVal), wfTupleX c ext.ryu32 ss xs = true →
    imageList ext (progTuple ss xs) = .ok (imageOfValues ext (valueTupleL ext.ryu32 ss xs))
  | [], xs, h => by simp [progTuple, valueTupleL, imageList, imageOfValues]
  | s :: ss, [], h => by simp [wfTupleX] at h
  | s :: ss, x :: xs, h => by
    simp only [wfTupleX, Bool.and_eq_true] at h
    simp only [progTuple, valueTupleL, imageList, imageOfValues, image_progOfL s x h.1, image_progTupleL ss xs h.2]
theorem image_progFieldsL : ∀ (fs : List (Bytes × Schema)) (xs : List TVal), wfFieldsX c ext.ryu32 fs xs = true →
    imageFields ext (progFields fs xs) = .ok (imageOfMembers ext (valueFieldsL ext.ryu32 fs xs))
  | [], xs, h => by simp [progFields, valueFieldsL, imageFields, imageOfMembers]
  | (n, s) :: fs, [], h => by simp [wfFieldsX] at h
  | (n, s) :: fs, x :: xs, h => by
    simp only [wfFieldsX, Bool.and_eq_true] at h
    simp only [progFields, valueFieldsL, imageFields, imageOfMembers, image_progOfL s x h.1, image_progFieldsL fs xs h.2]
theorem image_progVariantL : ∀ (vs : List (Bytes × VariantShape)) (i : Nat) (p : TVal), wfVariantX c ext.ryu32 vs i p = true →
    image ext (progVariant vs i p) = .ok (imageOfValue ext (valueVariantL ext.ryu32 vs i p))
  | [], i, p, h => by simp [wfVariantX] at h
  | (n, sh) :: vs, 0, p, h => by
    simp only [wfVariantX] at h
    simp only [progVariant, valueVariantL]
    exact image_progShapeL n sh p h
  | (n, sh) :: vs, i + 1, p, h => by
    simp only [wfVariantX] at h
    simp only [progVariant, valueVariantL]
    exact image_progVariantL vs i p h
theorem image_progShapeL : ∀ (n : Bytes) (sh : VariantShape) (p : TVal), wfShapeX c ext.ryu32 sh p = true →
    image ext (progShape n sh p) = .ok (imageOfValue ext (valueShapeL ext.ryu32 n sh p))
  | n, .unit, p, h => by simp [progShape, valueShapeL, image, imageOfValue]
  | n, .newtype s, p, h => by
    simp only [wfShapeX] at h
    simp only [progShape, valueShapeL, image, image_progOfL s p h]
    rfl
  | n, .tuple ss, p, h => by
    cases p with
    | seq xs =>
      simp only [wfShapeX] at h
      simp only [progShape, valueShapeL, image, image_progTupleL ss xs h]
      rfl
    | _ => simp [wfShapeX] at h
  | n, .struct_ fs, p, h => by
    cases p with
    | struct_ xs =>
      simp only [wfShapeX, Bool.and_eq_true] at h
      simp only [progShape, valueShapeL, image, image_progFieldsL fs xs h.2]
      rfl
    | _ => simp [wfShapeX] at h
end


mutual
theorem progOf_wfX : ∀ (s : Schema) (v : TVal), wfTVx c ext.ryu32 s v = true → (progOf s v).wf = true
  | .bool, v, _ => by cases v <;> simp [progOf, SVal.wf]
  | .int w, v, _ => by cases v <;> simp [progOf, SVal.wf]
  | .f64, v, _ => by cases v <;> simp [progOf, SVal.wf]
  | .f32, v, _ => by cases v <;> simp [progOf, SVal.wf]
  | .char, v, _ => by cases v <;> simp [progOf, SVal.wf]
  | .string, v, _ => by cases v <;> simp [progOf, SVal.wf]
  | .bytes, v, _ => by cases v <;> simp [progOf, SVal.wf]
  | .option s, v, h => by
    cases v with
    | some x =>
      simp only [wfTVx, Bool.and_eq_true] at h
      simp only [progOf, SVal.wf]; exact progOf_wfX s x h.1
    | _ => simp [progOf, SVal.wf]
  | .unit, v, _ => by simp [progOf, SVal.wf]
  | .unitStruct, v, _ => by simp [progOf, SVal.wf]
  | .newtype s, v, h => by simp only [wfTVx] at h; simp only [progOf, SVal.wf]; exact progOf_wfX s v h
  | .seq s, v, h => by
    cases v with
    | seq xs =>
      simp only [wfTVx, List.all_eq_true] at h
      simp only [progOf, SVal.wf, hintOK, List.length_map, beq_self_eq_true, Bool.true_and]
      exact wfList_map _ _ fun x hx => progOf_wfX s x (h x hx)
    | _ => simp [progOf, SVal.wf]
  | .tuple ss, v, h => by
    cases v with
    | seq xs => simp only [wfTVx] at h; simp only [progOf, SVal.wf]; exact progTuple_wfX ss xs h
    | _ => simp [progOf, SVal.wf]
  | .map k s, v, h => by
    cases v with
    | map kvs =>
      simp only [wfTVx, List.all_eq_true, Bool.and_eq_true] at h
      simp only [progOf, SVal.wf, hintOK, List.length_map, beq_self_eq_true, Bool.true_and]
      exact wfEntries_map _ _ _ fun x hx => ⟨keyProg_wf k x.1, progOf_wfX s x.2 (h x hx).2⟩
    | _ => simp [progOf, SVal.wf]
  | .struct_ fs d, v, h => by
    cases v with
    | struct_ xs => simp only [wfTVx, Bool.and_eq_true] at h; simp only [progOf, SVal.wf]; exact progFields_wfX fs xs h.2
    | _ => simp [progOf, SVal.wf]
  | .enum_ vs, v, h => by
    cases v with
    | variant i p => simp only [wfTVx, Bool.and_eq_true] at h; simp only [progOf]; exact progVariant_wfX vs i p h.2
    | _ => simp [progOf, SVal.wf]
  | .ignored, v, _ => by simp [progOf, SVal.wf]
  | .any, v, h => by
    cases v with
    | any j => simp only [wfTVx] at h; simp only [progOf]; exact SJ.Proofs.SerValue.ofValue_wf j (SJ.Proofs.RoundTrip.valueLitsOK_of_shapeOK c j h)
    | _ => simp [progOf, SVal.wf]
theorem progTuple_wfX : ∀ (ss : List Schema) (xs : List TVal), wfTupleX c ext.ryu32 ss xs = true → wfList (progTuple ss xs) = true
  | [], xs, _ => by simp [progTuple, wfList]
  | s :: ss, [], _ => by simp [progTuple, wfList]
  | s :: ss, x :: xs, h => by
    simp only [wfTupleX, Bool.and_eq_true] at h
    simp [progTuple, wfList, progOf_wfX s x h.1, progTuple_wfX ss xs h.2]
theorem progFields_wfX : ∀ (fs : List (Bytes × Schema)) (xs : List TVal), wfFieldsX c ext.ryu32 fs xs = true →
    Spec.Program.wfFields (progFields fs xs) = true
  | [], xs, _ => by simp [progFields, Spec.Program.wfFields]
  | (n, s) :: fs, [], _ => by simp [progFields, Spec.Program.wfFields]
  | (n, s) :: fs, x :: xs, h => by
    simp only [wfFieldsX, Bool.and_eq_true] at h
    simp [progFields, Spec.Program.wfFields, progOf_wfX s x h.1, progFields_wfX fs xs h.2]
theorem progVariant_wfX : ∀ (vs : List (Bytes × VariantShape)) (i : Nat) (p : TVal), wfVariantX c ext.ryu32 vs i p = true →
    (progVariant vs i p).wf = true
  | [], i, p, _ => by simp [progVariant, SVal.wf]
  | (n, sh) :: vs, 0, p, h => by simp only [wfVariantX] at h; simp only [progVariant]; exact progShape_wfX n sh p h
  | (n, sh) :: vs, i + 1, p, h => by simp only [wfVariantX] at h; simp only [progVariant]; exact progVariant_wfX vs i p h
theorem progShape_wfX : ∀ (n : Bytes) (sh : VariantShape) (p : TVal), wfShapeX c ext.ryu32 sh p = true → (progShape n sh p).wf = true
  | n, .unit, p, _ => by simp [progShape, SVal.wf]
  | n, .newtype s, p, h => by simp only [wfShapeX] at h; simp only [progShape, SVal.wf]; exact progOf_wfX s p h
  | n, .tuple ss, p, h => by
    cases p with
    | seq xs => simp only [wfShapeX] at h; simp only [progShape, SVal.wf]; exact progTuple_wfX ss xs h
    | _ => simp [progShape, SVal.wf]
  | n, .struct_ fs, p, h => by
    cases p with
    | struct_ xs => simp only [wfShapeX, Bool.and_eq_true] at h; simp only [progShape, SVal.wf]; exact progFields_wfX fs xs h.2
    | _ => simp [progShape, SVal.wf]
end


end SJ.Proofs.TypedSer
