import SJ.Proofs.TypedAgreeMach
/-!
# The typed number scanner (`Typed.scanNumber` = `parse_integer` of `src/de.rs`) on arbitrary input and on a number literal

* `scanNumber_tail` (+ `Typed.scanNumber_ok`): whatever `scanNumber` returns has digits everywhere, a leading `0` standing
  alone, at least one digit after `.` and after `e[±]` (`NumLink.PartsWF`, the domain of the conversion theorems of
  C07 / C08: `TypedFloatLink.scanNumber_partsWF`);
* `scanNumber_lit`: on the bytes of an RFC 8259 number literal `p` followed by a terminator, `scanNumber` returns the
  parts `Spec.Canon.partsOf p` (up to the `raw` field, which no conversion reads) and stops right after the literal —
  unless the eager exponent guard `overflow!(exp * 10 + digit, i32::MAX)` fires on a non-zero significand with a
  positive exponent (then the literal has no value in any build: `Complete.no_eager_overflow`).
No Mathlib (this file is below `TypedAgreeAll`).
-/
set_option linter.unusedSectionVars false
set_option linter.unusedVariables false

namespace SJ.Proofs.TypedFloat
open SJ SJ.Gen SJ.Model SJ.Model.Typed SJ.Model.Num SJ.Proofs.NumInt
open SJ.Proofs.Typed (digitsOf_isDigits isDigit_iff scanInteger_ok scanNumber_ok atEof_ne_ok digitsOf_term digit_facts ScanOK
  scanAfterInt_parts scanExp_parts scanExpDigits_parts)
open SJ.Spec.Grammar (NumParts isInt isFrac isExp)

/-- what may follow the literal: nothing, or a byte that cannot continue a number (as `SJ.Proofs.ViaValue.Term`) -/
def Term (rest : Bytes) : Prop :=
  rest = [] ∨ ∃ c tl, rest = c :: tl ∧ Machine.isDigit c = false ∧ (c == 0x2e) = false ∧ (c == 0x65 || c == 0x45) = false

theorem term_digit {rest : Bytes} (h : Term rest) : rest = [] ∨ ∃ c tl, rest = c :: tl ∧ Machine.isDigit c = false := by
  rcases h with rfl | ⟨c, tl, rfl, h1, _, _⟩
  · exact .inl rfl
  · exact .inr ⟨c, tl, rfl, h1⟩

theorem isDigits_of_allG (ds : Bytes) (h : ds.all Spec.Grammar.isDigit = true) : IsDigits ds := by
  intro c hc
  have := List.all_eq_true.1 h c hc
  simpa [Spec.Grammar.isDigit] using this

theorem int_head (int : Bytes) (h : isInt int = true) : ∃ d ds, int = d :: ds ∧ Spec.Grammar.isDigit d = true := by
  rcases SJ.Proofs.Complete.int_shape int h with rfl | ⟨d, ds, rfl, hd, _, _⟩
  · exact ⟨_, _, rfl, by decide⟩
  · exact ⟨d, ds, rfl, hd⟩

theorem scanAfterInt_int {env : Env} (hflt : env.flt = false) (neg : Bool) (int rest : Bytes) (pos : Nat) (hs : Term rest) :
    scanAfterInt env neg int rest pos = .ok (mkParts neg int none none) rest pos := by
  rcases hs with rfl | ⟨c, tl, rfl, _, h1, h2⟩
  · simp [scanAfterInt, hflt]
  · simp [scanAfterInt, h1, h2]

/-! ## what the scanner returns -/

/-- fraction and exponent of scanned parts: digits, at least one -/
def TailOK (p : Parts) : Prop :=
  (∀ fds, p.frac = some fds → fds ≠ [] ∧ IsDigits fds) ∧ (∀ en eds, p.exp = some (en, eds) → eds ≠ [] ∧ IsDigits eds)

theorem scanExpDigits_tail (env : Env) (neg : Bool) (int : Bytes) (frac : Option Bytes) (en : Bool) (rest : Bytes) (pos : Nat)
    (parts : Parts) (r : Bytes) (q : Nat) (h : scanExpDigits env neg int frac en rest pos = .ok parts r q) :
    parts.frac = frac ∧ ∀ en' eds, parts.exp = some (en', eds) → eds ≠ [] ∧ IsDigits eds := by
  unfold scanExpDigits at h
  split at h
  · exact absurd h (atEof_ne_ok _ _ _ _ _ _)
  · rename_i d r2
    by_cases hd : Machine.isDigit d = true
    · have hds : IsDigits (d :: (digitsOf r2).1) := by
        intro c hc
        rcases List.mem_cons.mp hc with rfl | hc
        · exact (isDigit_iff _).1 hd
        · exact digitsOf_isDigits r2 c hc
      simp only [hd, Bool.not_true, Bool.false_eq_true, if_false] at h
      have key : parts = mkParts neg int frac (some (en, d :: (digitsOf r2).1)) := by
        repeat' split at h
        all_goals first
          | (simp at h; done)
          | (cases h; rfl)
      subst key
      refine ⟨rfl, fun en' eds he => ?_⟩
      simp only [mkParts, Option.some.injEq, Prod.mk.injEq] at he
      obtain ⟨_, rfl⟩ := he
      exact ⟨by simp, hds⟩
    · simp only [hd, Bool.not_false, if_true] at h
      cases h

theorem scanExp_tail (env : Env) (neg : Bool) (int : Bytes) (frac : Option Bytes) (rest : Bytes) (pos : Nat)
    (parts : Parts) (r : Bytes) (q : Nat) (h : scanExp env neg int frac rest pos = .ok parts r q) :
    parts.frac = frac ∧ ∀ en' eds, parts.exp = some (en', eds) → eds ≠ [] ∧ IsDigits eds := by
  unfold scanExp at h
  split at h
  · exact absurd h (atEof_ne_ok _ _ _ _ _ _)
  · repeat' split at h
    all_goals exact scanExpDigits_tail _ _ _ _ _ _ _ _ _ _ h

theorem scanAfterInt_tail (env : Env) (neg : Bool) (int : Bytes) (rest : Bytes) (pos : Nat)
    (parts : Parts) (r : Bytes) (q : Nat) (h : scanAfterInt env neg int rest pos = .ok parts r q) : TailOK parts := by
  unfold TailOK
  unfold scanAfterInt at h
  split at h
  · split at h
    · cases h
    · cases h; exact ⟨fun _ e => (by cases e), fun _ _ e => (by cases e)⟩
  · rename_i c r0
    by_cases h1 : (c == 0x2e) = true
    · simp only [if_pos h1] at h
      have hfd : IsDigits (digitsOf r0).1 := digitsOf_isDigits r0
      split at h
      · split at h
        · exact absurd h (atEof_ne_ok _ _ _ _ _ _)
        · rename_i hne
          split at h
          · cases h
          · cases h
            refine ⟨fun fds e => ?_, fun _ _ e => by cases e⟩
            simp only [mkParts, Option.some.injEq] at e
            subst e
            exact ⟨by intro e; rw [e] at hne; exact hne rfl, hfd⟩
      · split at h
        · cases h
        · rename_i hne
          have hne' : (digitsOf r0).1 ≠ [] := by intro e; rw [e] at hne; exact hne rfl
          split at h
          · obtain ⟨hf, he⟩ := scanExp_tail _ _ _ _ _ _ _ _ _ h
            refine ⟨fun fds e => ?_, he⟩
            rw [hf] at e
            simp only [Option.some.injEq] at e
            subst e
            exact ⟨hne', hfd⟩
          · cases h
            refine ⟨fun fds e => ?_, fun _ _ e => by cases e⟩
            simp only [mkParts, Option.some.injEq] at e
            subst e
            exact ⟨hne', hfd⟩
    · simp only [if_neg h1] at h
      split at h
      · obtain ⟨hf, he⟩ := scanExp_tail _ _ _ _ _ _ _ _ _ h
        exact ⟨fun fds e => (by rw [hf] at e; cases e), he⟩
      · cases h; exact ⟨fun _ e => (by cases e), fun _ _ e => (by cases e)⟩

theorem scanInteger_tail (env : Env) (neg : Bool) (rest : Bytes) (pos : Nat)
    (parts : Parts) (r : Bytes) (q : Nat) (h : scanInteger env neg rest pos = .ok parts r q) : TailOK parts := by
  unfold scanInteger at h
  split at h
  · exact absurd h (atEof_ne_ok _ _ _ _ _ _)
  · repeat' split at h
    all_goals first
      | (simp at h)
      | exact scanAfterInt_tail _ _ _ _ _ _ _ _ h

theorem scanNumber_tail (env : Env) (rest : Bytes) (pos : Nat)
    (parts : Parts) (r : Bytes) (q : Nat) (h : scanNumber env rest pos = .ok parts r q) : TailOK parts := by
  unfold scanNumber at h
  split at h
  · exact absurd h (atEof_ne_ok _ _ _ _ _ _)
  · split at h <;> exact scanInteger_tail _ _ _ _ _ _ _ h

/-- the remaining input after a successful scan is a suffix, `q - pos` bytes further -/
theorem conv_congr_default (p q : Parts) (h1 : p.neg = q.neg) (h2 : p.int = q.int) (h3 : p.frac = q.frac) (h4 : p.exp = q.exp) :
    convertDefault p = convertDefault q := by
  obtain ⟨a, b, c, d, e⟩ := p
  obtain ⟨a', b', c', d', e'⟩ := q
  simp only at h1 h2 h3 h4
  subst h1 h2 h3 h4
  rfl

theorem conv_congr_roundtrip (p q : Parts) (h1 : p.neg = q.neg) (h2 : p.int = q.int) (h3 : p.frac = q.frac) (h4 : p.exp = q.exp) :
    convertRoundtrip p = convertRoundtrip q := by
  obtain ⟨a, b, c, d, e⟩ := p
  obtain ⟨a', b', c', d', e'⟩ := q
  simp only at h1 h2 h3 h4
  subst h1 h2 h3 h4
  rfl

/-! ## the digits of the scanned parts were read from the input -/

theorem scanAfterInt_len (env : Env) (neg : Bool) (int : Bytes) (rest : Bytes) (pos : Nat)
    (parts : Parts) (r : Bytes) (q : Nat) (h : scanAfterInt env neg int rest pos = .ok parts r q) :
    (parts.frac.getD []).length ≤ rest.length := by
  unfold scanAfterInt at h
  split at h
  · split at h
    · cases h
    · cases h; simp [mkParts]
  · rename_i c r0
    have hl := SJ.Proofs.Typed.digitsOf_length r0
    by_cases h1 : (c == 0x2e) = true
    · simp only [if_pos h1] at h
      have key : parts.frac = some (digitsOf r0).1 := by
        repeat' split at h
        all_goals first
          | (simp at h; done)
          | exact absurd h (atEof_ne_ok _ _ _ _ _ _)
          | (cases h; rfl)
          | exact (scanExp_parts _ _ _ _ _ _ _ _ h).2.1
      rw [key]
      simp only [Option.getD_some, List.length_cons]
      omega
    · simp only [if_neg h1] at h
      have key : parts.frac = none := by
        split at h
        · exact (scanExp_parts _ _ _ _ _ _ _ _ h).2.1
        · cases h; rfl
      rw [key]; simp

theorem scanNumber_len (env : Env) (rest : Bytes) (pos : Nat)
    (parts : Parts) (r : Bytes) (q : Nat) (h : scanNumber env rest pos = .ok parts r q) :
    (parts.int ++ parts.frac.getD []).length ≤ rest.length := by
  have hint : ∀ neg rest pos, scanInteger env neg rest pos = .ok parts r q →
      (parts.int ++ parts.frac.getD []).length ≤ rest.length := by
    intro neg rest pos h
    unfold scanInteger at h
    split at h
    · exact absurd h (atEof_ne_ok _ _ _ _ _ _)
    · rename_i c r0
      rw [List.length_append]
      by_cases h1 : (c == 0x30) = true
      · simp only [if_pos h1] at h
        split at h
        · have h2 := scanAfterInt_len _ _ _ _ _ _ _ _ h
          rw [(scanAfterInt_parts _ _ _ _ _ _ _ h).1]
          simp only [List.length_cons, List.length_nil] at h2 ⊢; omega
        · split at h
          · cases h
          · have h2 := scanAfterInt_len _ _ _ _ _ _ _ _ h
            rw [(scanAfterInt_parts _ _ _ _ _ _ _ h).1]
            simp only [List.length_cons, List.length_nil] at h2 ⊢; omega
      · simp only [if_neg h1] at h
        split at h
        · have h2 := scanAfterInt_len _ _ _ _ _ _ _ _ h
          have hl := SJ.Proofs.Typed.digitsOf_length r0
          rw [(scanAfterInt_parts _ _ _ _ _ _ _ h).1]
          simp only [List.length_cons]; omega
        · cases h
  unfold scanNumber at h
  split at h
  · exact absurd h (atEof_ne_ok _ _ _ _ _ _)
  · split at h
    · have := hint _ _ _ h
      simp only [List.length_cons]; omega
    · exact hint _ _ _ h

/-! ## the scanner on a number literal -/

theorem expOverflowIdx_isSome (cs : Bytes) : ∀ e k, (expOverflowIdx e k cs).isSome = expOverflows.go e cs := by
  induction cs with
  | nil => intro e k; rfl
  | cons c cs ih =>
    intro e k
    unfold expOverflowIdx expOverflows.go
    split
    · rfl
    · exact ih _ _

/-- the eager guard of `parse_exponent` does not reject the literal: no `i32` overflow of the exponent digits, or the
    significand is zero, or the exponent is negative -/
def NoEager (int : Bytes) (frac : Option Bytes) (en : Bool) (eds : Bytes) : Prop :=
  expOverflows eds = true → ((int ++ frac.getD []).all (· == 0x30) = true ∨ en = true)

section
variable {env : Env} (hflt : env.flt = false)
include hflt

theorem scanExpDigits_lit (neg : Bool) (int : Bytes) (frac : Option Bytes) (en : Bool) (d : UInt8) (ds rest : Bytes) (pos : Nat)
    (hd : Machine.isDigit d = true) (hds : IsDigits ds) (hr : rest = [] ∨ ∃ c tl, rest = c :: tl ∧ Machine.isDigit c = false)
    (hne : NoEager int frac en (d :: ds)) :
    scanExpDigits env neg int frac en (d :: (ds ++ rest)) pos =
      .ok (mkParts neg int frac (some (en, d :: ds))) rest (pos + 1 + ds.length) := by
  unfold scanExpDigits
  simp only [hd, Bool.not_true, Bool.false_eq_true, if_false]
  rw [digitsOf_term ds rest hds hr]
  simp only [hflt, Bool.and_false, Bool.false_eq_true, if_false]
  cases ho : expOverflowIdx (dig d) 1 ds with
  | none => rfl
  | some k =>
    simp only
    have : expOverflows (d :: ds) = true := by
      show expOverflows.go (dig d) ds = true
      rw [← expOverflowIdx_isSome ds (dig d) 1, ho]; rfl
    rcases hne this with hz | he
    · simp only [hz, Bool.not_true, Bool.false_and, Bool.false_eq_true, if_false]
    · simp only [he, Bool.not_true, Bool.and_false, Bool.false_eq_true, if_false]

theorem scanExp_lit (neg : Bool) (int : Bytes) (frac : Option Bytes) (en : Bool) (sgn : Bytes) (d : UInt8) (ds rest : Bytes) (pos : Nat)
    (hsg : (sgn = [] ∧ en = false) ∨ (sgn = [0x2b] ∧ en = false) ∨ (sgn = [0x2d] ∧ en = true))
    (hd : Machine.isDigit d = true) (hds : IsDigits ds) (hr : rest = [] ∨ ∃ c tl, rest = c :: tl ∧ Machine.isDigit c = false)
    (hne : NoEager int frac en (d :: ds)) :
    scanExp env neg int frac (sgn ++ d :: (ds ++ rest)) pos =
      .ok (mkParts neg int frac (some (en, d :: ds))) rest (pos + sgn.length + 1 + ds.length) := by
  unfold scanExp
  rcases hsg with ⟨rfl, rfl⟩ | ⟨rfl, rfl⟩ | ⟨rfl, rfl⟩
  · have hf := digit_facts hd
    have h2b : (d == 0x2b) = false := by
      have := (isDigit_iff d).1 hd
      have h1 := UInt8.le_iff_toNat_le.1 this.1
      change 48 ≤ d.toNat at h1
      simp only [beq_eq_false_iff_ne, ne_eq]
      intro e; subst e; simp at h1
    simp only [List.nil_append, h2b, hf.1, Bool.false_eq_true, if_false, List.length_nil, Nat.add_zero]
    exact scanExpDigits_lit hflt neg int frac false d ds rest pos hd hds hr hne
  · simp only [List.cons_append, List.nil_append, beq_self_eq_true, if_true, List.length_singleton]
    exact scanExpDigits_lit hflt neg int frac false d ds rest (pos + 1) hd hds hr hne
  · simp only [List.cons_append, List.nil_append, show ((0x2d : UInt8) == 0x2b) = false by decide, Bool.false_eq_true, if_false,
      beq_self_eq_true, if_true, List.length_singleton]
    exact scanExpDigits_lit hflt neg int frac true d ds rest (pos + 1) hd hds hr hne

end

/-- the parts the scanner builds for a literal: `Spec.Canon.partsOf` without the `raw` text -/
def litParts (p : NumParts) : Parts :=
  mkParts p.minus p.int (Spec.Canon.partsOf p).frac (Spec.Canon.partsOf p).exp

theorem litParts_convD (p : NumParts) : convertDefault (litParts p) = convertDefault (Spec.Canon.partsOf p) :=
  conv_congr_default _ _ rfl rfl rfl rfl

theorem litParts_convR (p : NumParts) : convertRoundtrip (litParts p) = convertRoundtrip (Spec.Canon.partsOf p) :=
  conv_congr_roundtrip _ _ rfl rfl rfl rfl

/-- the literal is not rejected by the eager exponent guard -/
def NoEagerLit (p : NumParts) : Prop :=
  ∀ en eds, (Spec.Canon.partsOf p).exp = some (en, eds) → NoEager p.int (Spec.Canon.partsOf p).frac en eds

section
variable {env : Env} (hflt : env.flt = false)
include hflt

/-- after the integer digits: fraction and exponent of the literal, then the terminator -/
theorem scanAfterInt_lit (p : NumParts) (hwf : p.WF = true) (hne : NoEagerLit p) (rest : Bytes) (pos : Nat) (hs : Term rest) :
    scanAfterInt env p.minus p.int (p.frac ++ p.exp ++ rest) pos =
      .ok (litParts p) rest (pos + p.frac.length + p.exp.length) := by
  have hwf' := hwf
  simp only [NumParts.WF, Bool.and_eq_true] at hwf'
  obtain ⟨⟨hi, hf⟩, he⟩ := hwf'
  have hrd : rest = [] ∨ ∃ c tl, rest = c :: tl ∧ Machine.isDigit c = false := term_digit hs
  -- the exponent part, given the fraction already read
  have hexp : ∀ (frac : Option Bytes) (q : Nat), frac = (Spec.Canon.partsOf p).frac → p.exp ≠ [] →
      ∃ c tl, p.exp ++ rest = c :: tl ∧ (c == 0x65 || c == 0x45) = true ∧
        scanExp env p.minus p.int frac tl (q + 1) = .ok (litParts p) rest (q + p.exp.length) := by
    intro frac q hfr hx
    obtain ⟨c, sgn, en, d, ds, hex, hc, hsg, hd, hds, heo⟩ := SJ.Proofs.Complete.exp_shape p.exp he hx
    refine ⟨c, sgn ++ d :: (ds ++ rest), by rw [hex]; simp, hc, ?_⟩
    have hpe : (Spec.Canon.partsOf p).exp = some (en, d :: ds) := by rw [SJ.Proofs.Complete.partsOf_exp]; exact heo
    have := scanExp_lit hflt p.minus p.int frac en sgn d ds rest (q + 1) hsg hd (isDigits_of_allG ds hds) hrd
      (by rw [hfr]; exact hne en (d :: ds) hpe)
    rw [this, hex]
    have hl : (c :: (sgn ++ d :: ds)).length = sgn.length + 1 + ds.length + 1 := by simp; omega
    rw [hl]
    congr 1
    · simp only [litParts, hfr, hpe]
    · omega
  cases hfr : p.frac with
  | nil =>
    have hpf : (Spec.Canon.partsOf p).frac = none := by simp [Spec.Canon.partsOf, hfr]
    simp only [List.nil_append, List.length_nil, Nat.add_zero]
    by_cases hx : p.exp = []
    · rw [hx]
      simp only [List.nil_append, List.length_nil, Nat.add_zero]
      have hpe : (Spec.Canon.partsOf p).exp = none := by rw [SJ.Proofs.Complete.partsOf_exp, hx]; rfl
      have : litParts p = mkParts p.minus p.int none none := by simp only [litParts, hpf, hpe]
      rw [this]
      exact scanAfterInt_int hflt p.minus p.int rest pos hs
    · obtain ⟨c, tl, hct, hc, hsc⟩ := hexp none pos hpf.symm hx
      rw [hct]
      unfold scanAfterInt
      have hne2e : (c == 0x2e) = false := by
        simp only [Bool.or_eq_true, beq_iff_eq] at hc
        rcases hc with rfl | rfl <;> decide
      simp only [hne2e, Bool.false_eq_true, if_false, hc, if_true]
      exact hsc
  | cons c0 fds =>
    rw [hfr] at hf
    simp only [isFrac, Bool.and_eq_true, beq_iff_eq, Bool.not_eq_true', List.isEmpty_eq_false_iff] at hf
    obtain ⟨⟨rfl, hfne⟩, hfd⟩ := hf
    have hfds : IsDigits fds := isDigits_of_allG fds hfd
    have hpf : (Spec.Canon.partsOf p).frac = some fds := by simp [Spec.Canon.partsOf, hfr]
    have hfe : fds.isEmpty = false := by cases fds with | nil => exact absurd rfl hfne | cons _ _ => rfl
    simp only [List.cons_append, List.length_cons]
    unfold scanAfterInt
    simp only [beq_self_eq_true, if_true]
    by_cases hx : p.exp = []
    · rw [hx]
      simp only [List.append_nil, List.length_nil, Nat.add_zero]
      have hpe : (Spec.Canon.partsOf p).exp = none := by rw [SJ.Proofs.Complete.partsOf_exp, hx]; rfl
      have hlp : litParts p = mkParts p.minus p.int (some fds) none := by simp only [litParts, hpf, hpe]
      rw [digitsOf_term fds rest hfds hrd, hlp]
      rcases hs with rfl | ⟨c, tl, rfl, h1, h2, h3⟩
      · simp only [hfe, hflt, Bool.false_eq_true, if_false]
        congr 1; omega
      · simp only [hfe, h3, Bool.false_eq_true, if_false]
        congr 1; omega
    · obtain ⟨c, tl, hct, hc, hsc⟩ := hexp (some fds) (pos + 1 + fds.length) hpf.symm hx
      have hcd : Machine.isDigit c = false := by
        simp only [Bool.or_eq_true, beq_iff_eq] at hc
        rcases hc with rfl | rfl <;> decide
      rw [List.append_assoc, hct, digitsOf_term fds (c :: tl) hfds (.inr ⟨c, tl, rfl, hcd⟩)]
      simp only [hfe, Bool.false_eq_true, if_false, hc, if_true]
      rw [hsc]
      congr 1; omega

/-- **`parse_integer` on a number literal** followed by a terminator -/
theorem scanNumber_lit (p : NumParts) (hwf : p.WF = true) (hne : NoEagerLit p) (rest : Bytes) (pos : Nat) (hs : Term rest) :
    ∃ b tl, p.bytes ++ rest = b :: tl ∧ isNumStart b = true ∧
      scanNumber env (b :: tl) pos = .ok (litParts p) rest (pos + p.bytes.length) := by
  have hwf' := hwf
  simp only [NumParts.WF, Bool.and_eq_true] at hwf'
  obtain ⟨⟨hi, _⟩, _⟩ := hwf'
  -- the integer part
  have hint : ∀ q, scanInteger env p.minus (p.int ++ (p.frac ++ p.exp ++ rest)) q =
      .ok (litParts p) rest (q + p.int.length + p.frac.length + p.exp.length) := by
    intro q
    have hnext : p.frac ++ p.exp ++ rest = [] ∨ ∃ c tl, p.frac ++ p.exp ++ rest = c :: tl ∧ Machine.isDigit c = false := by
      cases hfr : p.frac with
      | cons c ds =>
        have hf := hwf
        simp only [NumParts.WF, Bool.and_eq_true, hfr, isFrac, beq_iff_eq] at hf
        exact .inr ⟨c, ds ++ p.exp ++ rest, by simp, by rw [hf.1.2.1.1]; decide⟩
      | nil =>
        cases hex : p.exp with
        | nil => simpa using term_digit hs
        | cons c r =>
          have he := hwf
          simp only [NumParts.WF, Bool.and_eq_true, hex, isExp] at he
          refine .inr ⟨c, r ++ rest, by simp, ?_⟩
          have := he.2.1
          simp only [Bool.or_eq_true, beq_iff_eq] at this
          rcases this with rfl | rfl <;> decide
    rcases SJ.Proofs.Complete.int_shape p.int hi with h0 | ⟨d, ds, hds, hd, hz, hdsd⟩
    · rw [h0]
      simp only [List.cons_append, List.nil_append, scanInteger, beq_self_eq_true, if_true]
      have := scanAfterInt_lit hflt p hwf hne rest (q + 1) hs
      rw [h0] at this
      rcases hnext with hn | ⟨c, tl, hn, hc⟩
      · rw [hn] at this ⊢
        simp only [this, List.length_singleton]
      · rw [hn] at this ⊢
        simp only [hc, Bool.false_eq_true, if_false, this, List.length_singleton]
    · have hd' : Machine.isDigit d = true := hd
      rw [hds]
      simp only [List.cons_append, scanInteger, hz, Bool.false_eq_true, if_false, hd', if_true]
      rw [digitsOf_term ds _ (isDigits_of_allG ds hdsd) hnext]
      have := scanAfterInt_lit hflt p hwf hne rest (q + 1 + ds.length) hs
      rw [hds] at this
      rw [this]
      simp only [List.length_cons]
      congr 1; omega
  obtain ⟨d, ds, hdint, hd⟩ := int_head p.int hi
  have hd' : Machine.isDigit d = true := hd
  have hbytes : p.bytes ++ rest = (if p.minus then [0x2d] else []) ++ (p.int ++ (p.frac ++ p.exp ++ rest)) := by
    simp [NumParts.bytes, List.append_assoc]
  have hlen : p.bytes.length = (if p.minus then 1 else 0) + p.int.length + p.frac.length + p.exp.length := by
    simp only [NumParts.bytes, List.length_append]
    cases p.minus <;> simp
  cases hm : p.minus with
  | true =>
    refine ⟨0x2d, p.int ++ (p.frac ++ p.exp ++ rest), by rw [hbytes, hm]; rfl, by decide, ?_⟩
    simp only [scanNumber, beq_self_eq_true, if_true]
    have := hint (pos + 1)
    rw [hm] at this
    rw [this, hlen, hm]
    congr 1
    simp only [if_true]; omega
  | false =>
    refine ⟨d, ds ++ (p.frac ++ p.exp ++ rest), by rw [hbytes, hm, hdint]; rfl, by simp [isNumStart, hd'], ?_⟩
    have hne2d : (d == 0x2d) = false := (digit_facts hd').1
    simp only [scanNumber, hne2d, Bool.false_eq_true, if_false]
    have := hint pos
    rw [hm, hdint] at this
    simp only [List.cons_append] at this
    rw [this, hlen, hm, hdint]
    congr 1
    simp only [Bool.false_eq_true, if_false]; omega

end

end SJ.Proofs.TypedFloat
