import SJ.Proofs.TypedFloatScan
import SJ.Proofs.ViaValueText
import SJ.Proofs.LexTopF32
import SJ.Proofs.LexTopParser
/-!
# The typed number path for `f64` / `f32` targets is the one C07 / C08 are about

`Typed.deNumber` scans a literal (`scanNumber`) and converts the parts with `parserNumber` (`Model.Num.convertDefault` /
`convertRoundtrip`), except for an `f32` target under `float_roundtrip`, where `Typed.f32Roundtrip` stands for
`single_precision = true`. This file proves

* `f32Roundtrip_eq`: `f32Roundtrip p` is `deFloatRoundtrip true p` (`de.rs` + lexical with `single_precision`) followed by
  serde's `f32` visitor (`visit_u64/i64`: `as f32`; `visit_f64`: `as f32` of the exactly widened value);
* `parserNumber_fr`: under `float_roundtrip`, `parserNumber` is `deFloatRoundtrip false`;
* `deNumber_link`: the whole entry point rewritten over those two functions.
-/
set_option linter.unusedSectionVars false
set_option linter.unusedVariables false

namespace SJ.Proofs.TypedFloat
open SJ SJ.Gen SJ.Model SJ.Model.Typed SJ.Model.Num SJ.Model.Lexical SJ.Spec.Ieee SJ.Proofs.NumInt
open SJ.Proofs.Ieee SJ.Proofs.LexSplit SJ.Proofs.LexTopFloat SJ.Proofs.LexTopSpec SJ.Proofs.LexTopParser
open SJ.Model.FromValue (intToF32 f64ToF32 numberF32 numberF64)
open SJ.Proofs.NumLink (PartsWF numOfNRes)

theorem all_of_isDigits (ds : Bytes) (h : IsDigits ds) : ds.all Spec.Decimal.isDigit = true := by
  rw [List.all_eq_true]
  intro c hc
  have := h c hc
  simp [Spec.Decimal.isDigit, this.1, this.2]

/-- **the scanner's parts are well-formed** -/
theorem scanNumber_partsWF (env : Env) (rest : Bytes) (pos : Nat)
    (parts : Parts) (r : Bytes) (q : Nat) (h : scanNumber env rest pos = .ok parts r q) : PartsWF parts := by
  obtain ⟨hd, hne, h0⟩ := SJ.Proofs.Typed.scanNumber_ok rest pos parts r q h
  obtain ⟨hf, he⟩ := scanNumber_tail env rest pos parts r q h
  refine ⟨all_of_isDigits _ hd, ?_, fun fds e => ⟨(hf fds e).1, all_of_isDigits _ (hf fds e).2⟩,
    fun en eds e => ⟨(he en eds e).1, all_of_isDigits _ (he en eds e).2⟩⟩
  cases hi : parts.int with
  | nil => exact absurd hi hne
  | cons d tl =>
    cases tl with
    | nil => rfl
    | cons x xs =>
      simp only [bne_iff_ne, ne_eq]
      intro e
      subst e
      have := h0 _ hi
      cases this

/-- serde's `f32` visitor on a `ParserNumber` (`ParserNumber::visit`: `visit_u64` / `visit_i64`: `v as f32`;
    `visit_f64`: `v as f32`); `none` = the parser's `NumberOutOfRange` -/
def f32OfNRes : NRes → Option UInt32
  | .u64 n => some (intToF32 n)
  | .i64 k => some (intToF32 k)
  | .f64 b => some (f64ToF32 b)
  | .outOfRange => none
  | .outOfFuel => none

theorem f32OfNRes_eq (r : NRes) : f32OfNRes r =
    match numOfNRes r with
    | some n => (match numberF32 {} n with | .ok (.f32 b) => some b | _ => none)
    | none => none := by
  cases r <;> rfl

theorem roundNE32_finite (neg : Bool) (num den : Nat) (r : UInt32) (h : roundNE32 neg num den = some r) :
    F32.isFinite r = true := by
  obtain ⟨hu, hr⟩ := roundNE32_some neg num den r h
  rw [hr]; exact bits32_finite neg _ hu

theorem toF32_widen (neg : Bool) (num den : Nat) (r : UInt32) (h : roundNE32 neg num den = some r) :
    f64ToF32 (F32.toF64 r) = r :=
  SJ.Proofs.LexTopF32.toF32_toF64 r (roundNE32_finite neg num den r h)

theorem ofU64_32_finite (N : Nat) (hN : N ≤ u64Max) : F32.isFinite (F32.neg (F32.ofU64 N)) = true := by
  rw [F32.neg_finite]
  have hno : ¬ Overflows32 N 1 := by
    unfold Overflows32
    simp only [u64Max] at hN
    have : (2 : Nat) ^ 64 ≤ 2 ^ 128 - 2 ^ 103 := by decide
    omega
  cases h : roundNE32 false N 1 with
  | none => exact absurd ((roundNE32_none_iff false N 1 Nat.one_pos).1 h) hno
  | some r =>
    have : F32.ofU64 N = r := by
      show (roundNE32 false N 1).getD (F32.inf false) = r
      rw [h]; rfl
    rw [this]; exact roundNE32_finite false N 1 r h

theorem toF32_zero (neg : Bool) : f64ToF32 (F64.zero neg) = f32Zero neg := by
  cases neg <;> decide +kernel

theorem wf_of_scan (p : Parts) (h : PartsWF p) (hlen : (p.int ++ p.frac.getD []).length + 20 < 2 ^ 29) : WF p :=
  wf_of_partsWF p h (by
    have : (p.frac.getD []).length ≤ (p.int ++ p.frac.getD []).length := by simp
    have : (2 : Nat) ^ 29 < 2 ^ 31 := by decide
    omega)

/-- **`single_precision`.** The typed `f32` path under `float_roundtrip` is `de.rs` + lexical with
    `single_precision = true` (`Model.Lexical.deFloatRoundtrip true`, the subject of `c07_correct`) followed by serde's
    `f32` visitor. -/
theorem f32Roundtrip_eq (p : Parts) (wf : WF p) (hlen : (p.int ++ p.frac.getD []).length + 20 < 2 ^ 29) :
    f32Roundtrip p = f32OfNRes (deFloatRoundtrip true p) := by
  by_cases hcase : p.frac = none ∧ p.exp = none ∧ natOfDigits p.int ≤ u64Max
  · -- an integer literal within `u64`: `parse_number` answers without lexical
    obtain ⟨hf, he, hN⟩ := hcase
    have hgo : goInt 0 p.int = (natOfDigits p.int, none) := by
      rcases goInt_spec 0 p.int wf.int_digits (by simp [u64Max]) with ⟨h1, _⟩ | ⟨pre, c, post, hsplit, h1, h2, _⟩
      · rw [h1, natOfDigits_eq_val]
      · exfalso
        have hle : val 0 (pre ++ [c]) ≤ val 0 p.int := by
          rw [hsplit, show pre ++ c :: post = (pre ++ [c]) ++ post by simp]
          exact val_prefix_le 0 (pre ++ [c]) post
        rw [val_append, val_cons] at hle
        have e : val (val 0 pre * 10 + dig c) [] = val 0 pre * 10 + dig c := rfl
        rw [e] at hle
        rw [natOfDigits_eq_val] at hN
        omega
    have hde : deFloatRoundtrip true p =
        (if !p.neg then .u64 (natOfDigits p.int)
         else if 0 < natOfDigits p.int ∧ natOfDigits p.int ≤ 2 ^ 63 then .i64 (-(natOfDigits p.int : Int))
         else .f64 (F32.toF64 (F32.neg (F32.ofU64 (natOfDigits p.int))))) := by
      unfold deFloatRoundtrip deCall
      rw [hgo]
      simp only [hf, he, runCall]
      cases hneg : p.neg
      · simp
      · simp only [Bool.not_true, Bool.false_eq_true, if_false, if_true]
        have := negClass (NRes.f64 (F32.toF64 (F32.neg (F32.ofU64 (natOfDigits p.int))))) NRes.i64 (natOfDigits p.int)
          (by simp only [u64Max] at hN; omega)
        exact this
    rw [hde]
    unfold f32Roundtrip intClass
    simp only [hf, he]
    have hlt : natOfDigits p.int < 2 ^ 64 := by simp only [u64Max] at hN; omega
    have hwiden : f64ToF32 (F32.toF64 (F32.neg (F32.ofU64 (natOfDigits p.int)))) = F32.neg (F32.ofU64 (natOfDigits p.int)) :=
      SJ.Proofs.LexTopF32.toF32_toF64 _ (ofU64_32_finite _ hN)
    cases hneg : p.neg
    · simp only [Bool.not_false, if_true, if_pos hlt, f32OfNRes]
    · simp only [Bool.not_true, Bool.false_eq_true, if_false]
      by_cases h0 : natOfDigits p.int = 0
      · have hb : (natOfDigits p.int == 0) = true := by simpa using h0
        have hnp : ¬ (0 < natOfDigits p.int ∧ natOfDigits p.int ≤ 2 ^ 63) := by omega
        simp only [hb, if_true, if_neg hnp, Option.isNone_none, Bool.and_self, hlt, decide_true, f32OfNRes, hwiden]
      · have hb : (natOfDigits p.int == 0) = false := by simpa using h0
        simp only [hb, Bool.false_eq_true, if_false]
        by_cases h63 : natOfDigits p.int ≤ 2 ^ 63
        · have hp : 0 < natOfDigits p.int ∧ natOfDigits p.int ≤ 2 ^ 63 := ⟨Nat.pos_of_ne_zero h0, h63⟩
          simp only [if_pos h63, if_pos hp, f32OfNRes]
        · have hnp : ¬ (0 < natOfDigits p.int ∧ natOfDigits p.int ≤ 2 ^ 63) := fun h => h63 h.2
          simp only [if_neg h63, if_neg hnp, Option.isNone_none, Bool.and_self, hlt, decide_true, if_true,
            f32OfNRes, hwiden]
  · -- the float path
    have hic : intClass p = none := by
      unfold intClass
      cases hf : p.frac with
      | some _ => rfl
      | none =>
        cases he : p.exp with
        | some _ => rfl
        | none =>
          have hbig : ¬ natOfDigits p.int ≤ u64Max := fun h => hcase ⟨hf, he, h⟩
          simp only [u64Max] at hbig
          simp only
          cases p.neg
          · simp; omega
          · have h0 : (natOfDigits p.int == 0) = false := by simp; omega
            simp [h0]; omega
    have hnot : (p.frac.isNone && p.exp.isNone && decide (natOfDigits p.int < 2 ^ 64)) = false := by
      cases hf : p.frac with
      | some _ => rfl
      | none =>
        cases he : p.exp with
        | some _ => rfl
        | none =>
          have hbig : ¬ natOfDigits p.int ≤ u64Max := fun h => hcase ⟨hf, he, h⟩
          simp only [u64Max] at hbig
          simp; omega
    rw [deFloat_eq true p wf hlen, specG_true]
    unfold f32Roundtrip convertRoundtripSingle
    rw [hic]
    simp only [hnot, Bool.false_eq_true, if_false]
    have hconv : (match exact p with
        | .zero | .tiny => some (f32Zero p.neg)
        | .huge => none
        | .rat n d => if d == 0 then none else roundNE32 p.neg n d) = f32OfNRes (convertRoundtripSingle.conv p) := by
      unfold convertRoundtripSingle.conv
      cases hx : exact p with
      | zero => simp only [f32OfNRes, toF32_zero]
      | tiny => simp only [f32OfNRes, toF32_zero]
      | huge => rfl
      | rat n d =>
        simp only
        by_cases hd : (d == 0) = true
        · simp only [hd, if_true, f32OfNRes]
        · simp only [hd, Bool.false_eq_true, if_false]
          cases hr : roundNE32 p.neg n d with
          | none => rfl
          | some b => simp only [f32OfNRes, toF32_widen p.neg n d b hr]
    cases hexp : p.exp with
    | none => simp only [Bool.false_eq_true, if_false]; exact hconv
    | some e =>
      obtain ⟨en, eds⟩ := e
      simp only
      cases hov : expOverflows eds with
      | false => simp only [Bool.false_eq_true, if_false]; exact hconv
      | true =>
        simp only [if_true]
        unfold exponentOverflow
        cases hz : (p.int ++ p.frac.getD []).all (· == 0x30) <;> cases en <;> cases hneg : p.neg <;>
          simp [f32OfNRes, f32Zero] <;> decide +kernel

/-- under `float_roundtrip` the conversion of the typed entry points is `de.rs` + lexical (binary64) -/
theorem parserNumber_fr (env : Env) (hfr : env.cfg.fr = true) (p : Parts) (wf : WF p)
    (hlen : (p.int ++ p.frac.getD []).length + 20 < 2 ^ 29) :
    parserNumber env p = numOfNRes (deFloatRoundtrip false p) := by
  rw [deFloat_eq false p wf hlen, specG_false]
  unfold parserNumber
  simp only [hfr, if_true]
  cases convertRoundtrip p <;> rfl

/-- in the default build it is `Model.Num.convertDefault` (the subject of C08, through `NumLink`) -/
theorem parserNumber_default (env : Env) (hfr : env.cfg.fr = false) (p : Parts) :
    parserNumber env p = numOfNRes (convertDefault p) := by
  unfold parserNumber
  simp only [hfr, Bool.false_eq_true, if_false]
  cases convertDefault p <;> rfl

/-- the number `de.rs` hands to the visitor of a numeric target: `single_precision` is set for an `f32` target -/
def typedNumber (env : Env) (ty : NumTy) (p : Parts) : NRes :=
  if env.cfg.fr then deFloatRoundtrip (ty == .f32) p else convertDefault p

/-- **`deserialize_number` over the functions of C07 / C08.** For every numeric target, build and input whose unread
    part is shorter than `2^29 - 20` bytes: the literal is scanned, converted by `deFloatRoundtrip single_precision`
    (`float_roundtrip`) resp. `convertDefault` (default build), and the result visited. -/
theorem deNumber_link (env : Env) (ty : NumTy) (rest : Bytes) (pos : Nat) (hlen : rest.length + 20 < 2 ^ 29) :
    deNumber env ty rest pos =
      withPeek env .EofWhileParsingValue rest pos fun b r p =>
        if isNumStart b then
          (scanNumber env (b :: r) p).bind fun parts rest' pos' =>
            match numOfNRes (typedNumber env ty parts) with
            | some n => fixPos env true (ofVisit (visitNumber ty n) rest' pos')
            | none => .err .NumberOutOfRange (peekErrorIdx rest' pos')
        else peekInvalidType env (b :: r) p := by
  unfold deNumber withPeek
  cases hsk : Stream.skipWs rest pos with
  | mk l p0 =>
    cases l with
    | nil => rfl
    | cons b r =>
      simp only
      by_cases hb : isNumStart b = true
      · simp only [hb, if_true]
        cases hsc : scanNumber env (b :: r) p0 with
        | ok parts r' q =>
          simp only [Res.bind]
          have hpw := scanNumber_partsWF env _ _ _ _ _ hsc
          have hl := scanNumber_len env _ _ _ _ _ hsc
          have hsl := (SJ.Proofs.Typed.skipWs_eq hsk).1
          have hlen' : (parts.int ++ parts.frac.getD []).length + 20 < 2 ^ 29 := by omega
          have wf := wf_of_scan parts hpw hlen'
          unfold typedNumber
          cases hfr : env.cfg.fr
          · simp only [Bool.false_and, Bool.false_eq_true, if_false]
            rw [parserNumber_default env hfr]
            cases numOfNRes (convertDefault parts) <;> rfl
          · by_cases hty : ty = .f32
            · subst hty
              simp only [Bool.true_and, beq_self_eq_true, if_true]
              rw [f32Roundtrip_eq parts wf hlen']
              cases deFloatRoundtrip true parts <;>
                simp [f32OfNRes, numOfNRes, visitNumber, numberF32, ofVisit, fixPos]
            · have hne : (ty == NumTy.f32) = false := by simpa using hty
              simp only [hne, Bool.and_false, Bool.false_eq_true, if_false, if_true]
              rw [parserNumber_fr env hfr parts wf hlen']
              cases numOfNRes (deFloatRoundtrip false parts) <;> rfl
        | err c i => rfl
        | data i => rfl
        | raw a b' => rfl
        | io => rfl
        | fuel => rfl
      · simp only [hb, Bool.false_eq_true, if_false]

/-- the same, once the scan is known -/
theorem deNumber_of_scan (env : Env) (ty : NumTy) (b : UInt8) (r : Bytes) (p0 : Nat) (parts : Parts) (rest' : Bytes) (pos' : Nat)
    (hb : isNumStart b = true) (hlen : (b :: r).length + 20 < 2 ^ 29) (hsc : scanNumber env (b :: r) p0 = .ok parts rest' pos') :
    deNumber env ty (b :: r) p0 =
      match numOfNRes (typedNumber env ty parts) with
      | some n => fixPos env true (ofVisit (visitNumber ty n) rest' pos')
      | none => .err .NumberOutOfRange (peekErrorIdx rest' pos') := by
  rw [deNumber_link env ty (b :: r) p0 hlen, SJ.Proofs.Typed.withPeek_cons env _ (SJ.Proofs.ViaValue.isNumStart_not_ws hb)]
  simp only [hb, if_true, hsc, Res.bind]

/-- `float_roundtrip`, a literal on the float path (fraction or exponent, or an integer beyond `u64` / `i64`, or `-0`) whose
    exponent digits pass the `i32` guard: the `f64` / `f32` target receives the rounding to nearest-even of the exact
    decimal value, and the literal is rejected exactly when that is infinite -/
theorem deNumber_nearest (env : Env) (hfr : env.cfg.fr = true) (b : UInt8) (r : Bytes) (p0 : Nat) (parts : Parts)
    (rest' : Bytes) (pos' : Nat) (hb : isNumStart b = true) (hlen : (b :: r).length + 20 < 2 ^ 29)
    (hsc : scanNumber env (b :: r) p0 = .ok parts rest' pos') (hic : intClass parts = none) (hfit : ExpFits parts) :
    deNumber env .f64 (b :: r) p0 =
      (match roundNE64 parts.neg (SJ.Proofs.NumLink.toNumLit parts).exact.1 (SJ.Proofs.NumLink.toNumLit parts).exact.2 with
       | some x => .ok (.f64 x) rest' pos'
       | none => .err .NumberOutOfRange (peekErrorIdx rest' pos')) ∧
    deNumber env .f32 (b :: r) p0 =
      (match roundNE32 parts.neg (SJ.Proofs.NumLink.toNumLit parts).exact.1 (SJ.Proofs.NumLink.toNumLit parts).exact.2 with
       | some x => .ok (.f32 x) rest' pos'
       | none => .err .NumberOutOfRange (peekErrorIdx rest' pos')) := by
  have hpw := scanNumber_partsWF env _ _ _ _ _ hsc
  have hl := scanNumber_len env _ _ _ _ _ hsc
  have hlen' : (parts.int ++ parts.frac.getD []).length + 20 < 2 ^ 29 := by omega
  have wf := wf_of_scan parts hpw hlen'
  constructor
  · rw [deNumber_of_scan env .f64 b r p0 parts rest' pos' hb hlen hsc]
    unfold typedNumber
    simp only [hfr, if_true, show (NumTy.f64 == NumTy.f32) = false from rfl]
    rw [SJ.Proofs.LexTopRoundtrip.deFloat64_nearest parts wf hlen' hic hfit]
    cases roundNE64 parts.neg _ _ <;> rfl
  · rw [deNumber_of_scan env .f32 b r p0 parts rest' pos' hb hlen hsc]
    unfold typedNumber
    simp only [hfr, if_true, show (NumTy.f32 == NumTy.f32) = true from rfl]
    rw [SJ.Proofs.LexTopRoundtrip.deFloat32_nearest parts wf hlen' hic hfit]
    cases hr : roundNE32 parts.neg _ _ with
    | none => rfl
    | some x =>
      simp only [numOfNRes, visitNumber, numberF32, Bool.false_eq_true, if_false, ofVisit, fixPos]
      rw [toF32_widen _ _ _ x hr]

/-! ## the `f32` target on the text `ryu` prints for an `f32` (`float_roundtrip`) -/

theorem deFloat_congr (single : Bool) (p q : Parts) (h1 : p.neg = q.neg) (h2 : p.int = q.int) (h3 : p.frac = q.frac)
    (h4 : p.exp = q.exp) : deFloatRoundtrip single p = deFloatRoundtrip single q := by
  obtain ⟨a, b, c, d, e⟩ := p
  obtain ⟨a', b', c', d', e'⟩ := q
  simp only at h1 h2 h3 h4
  subst h1 h2 h3 h4
  rfl

/-- **print → typed parse, binary32**: under `float_roundtrip` and `RyuShortest`, `deserialize_f32` on the text the
    serializer writes for a finite `f32` (followed by a terminator) returns that `f32`, bit for bit -/
theorem deNumber_f32_ryu (env : Env) (hflt : env.flt = false) (hfr : env.cfg.fr = true) (ext : Spec.Program.Ext)
    (hext : Spec.Program.ExtOK ext) (hr : SJ.Proofs.LexTopRoundtrip.RyuShortest ext) (b : UInt32)
    (hb : Spec.Program.finite32 b = true) (rest : Bytes) (pos : Nat) (hs : Term rest) :
    deNumber env .f32 (ext.ryu32 b ++ rest) pos = .ok (.f32 b) rest (pos + (ext.ryu32 b).length) := by
  have hnum := hext.ryu32_number b hb
  obtain ⟨hwf, hbytes⟩ := SJ.Proofs.Number.splitNumber_of_isNumber _ hnum
  obtain ⟨wf, hlen, hic, hfit⟩ := SJ.Proofs.LexTopRoundtrip.parts_of_ryuText _ hnum (hr.f32_text b hb)
  have hne : NoEagerLit (Spec.Number.splitNumber (ext.ryu32 b)) := by
    intro en eds hexp hov
    rw [hfit en eds hexp] at hov; cases hov
  obtain ⟨c, tl, hct, hns, hscan⟩ := scanNumber_lit hflt _ hwf hne rest pos hs
  rw [hbytes] at hct hscan
  rw [hct]
  unfold deNumber
  rw [SJ.Proofs.Typed.withPeek_cons env _ (SJ.Proofs.ViaValue.isNumStart_not_ws hns)]
  simp only [hns, if_true, hscan, Res.bind, hfr, Bool.true_and, beq_self_eq_true]
  have hwf' : WF (litParts (Spec.Number.splitNumber (ext.ryu32 b))) :=
    ⟨wf.int_digits, wf.int_nolead, wf.int_ne, wf.frac_digits, wf.frac_small, wf.exp_digits⟩
  rw [f32Roundtrip_eq _ hwf' hlen, deFloat_congr true (litParts (Spec.Number.splitNumber (ext.ryu32 b)))
      (Spec.Canon.partsOf (Spec.Number.splitNumber (ext.ryu32 b))) rfl rfl rfl rfl,
    SJ.Proofs.LexTopRoundtrip.roundtrip32 ext hext hr b hb]
  simp only [f32OfNRes]
  rw [show f64ToF32 (F32.toF64 b) = b from
    SJ.Proofs.LexTopF32.toF32_toF64 b (by rw [← SJ.Proofs.LexTopF32.finite32_eq_isFinite]; exact hb)]

end SJ.Proofs.TypedFloat
