import SJ.Model.Typed
import SJ.Proofs.TypedBasic
/-!
# The typed text deserializer does not depend on `arbitrary_precision` (C20, last clause)

`Model.Typed.deTyped` consults `env.cfg.ap` only through the byte-step machine it calls as a sub-parser
(`Machine.numValue`, and the eager exponent guard of `stepNum`, both under `tgt = .value`). Those calls are:
`parse_str` (string states never reach a number), `ignore_value` (`tgt = .ignored`), the scalar eaten by
`peek_invalid_type` (its outcome is an error either way) and `deserialize_any` with `Value`'s visitor (schema
`.any`, excluded: there the representation of numbers differs by design).

`Rel r₁ r₂` — equal, or both not a value — is preserved by every combinator of the model; `rel_deTyped` is the
induction over the schema.
-/
set_option linter.unusedSimpArgs false
namespace SJ.Proofs.TypedAp
open SJ SJ.Gen SJ.Model SJ.Model.Typed
open SJ.Model.Machine (Src St Frame Mode Step step1 errIdx endNumber finishMode init hex4 stepStr stepNum endStr)
open SJ.Model.Stream (skipWs)

/-- the same build with the feature switched to `a` -/
def withAp (env : Env) (a : Bool) : Env := { env with cfg := { env.cfg with ap := a } }

def mWithAp (menv : Machine.Env) (a : Bool) : Machine.Env := { menv with cfg := { menv.cfg with ap := a } }

def NotOk {α : Type} (r : Res α) : Prop := ∀ v r' p', r ≠ .ok v r' p'

/-- equal, or both fail (possibly with different errors) -/
def Rel {α : Type} (r₁ r₂ : Res α) : Prop := r₁ = r₂ ∨ (NotOk r₁ ∧ NotOk r₂)

theorem Rel.refl {α : Type} (r : Res α) : Rel r r := .inl rfl
theorem Rel.of_eq {α : Type} {r₁ r₂ : Res α} (h : r₁ = r₂) : Rel r₁ r₂ := .inl h
theorem Rel.of_notOk {α : Type} {r₁ r₂ : Res α} (h1 : NotOk r₁) (h2 : NotOk r₂) : Rel r₁ r₂ := .inr ⟨h1, h2⟩

theorem notOk_bind {α β : Type} {r : Res α} (h : NotOk r) (k : α → Bytes → Nat → Res β) : NotOk (r.bind k) := by
  intro v r' p' hb
  cases r with
  | ok a rest pos => exact h a rest pos rfl
  | err c i => cases hb
  | data i => cases hb
  | raw x y => cases hb
  | io => cases hb
  | fuel => cases hb

theorem Rel.bind {α β : Type} {r₁ r₂ : Res α} {k₁ k₂ : α → Bytes → Nat → Res β} (h : Rel r₁ r₂)
    (hk : ∀ x rest pos, Rel (k₁ x rest pos) (k₂ x rest pos)) : Rel (r₁.bind k₁) (r₂.bind k₂) := by
  rcases h with rfl | ⟨h1, h2⟩
  · cases r₁ with
    | ok x rest pos => exact hk x rest pos
    | err c i => exact .inl rfl
    | data i => exact .inl rfl
    | raw x y => exact .inl rfl
    | io => exact .inl rfl
    | fuel => exact .inl rfl
  · exact .inr ⟨notOk_bind h1 _, notOk_bind h2 _⟩

theorem Rel.map {α β : Type} {r₁ r₂ : Res α} (h : Rel r₁ r₂) (f : α → β) : Rel (r₁.map f) (r₂.map f) :=
  Rel.bind h (fun _ _ _ => .inl rfl)

/-! ## what does not look at the feature at all -/

section
variable (env : Env) (a : Bool)

theorem atEof_ap {α : Type} (c : Code) (pos : Nat) : (atEof (withAp env a) c pos : Res α) = atEof env c pos := rfl
theorem errorIdx_ap (rest : Bytes) (pos : Nat) (pk : Bool) : errorIdx (withAp env a) rest pos pk = errorIdx env rest pos pk := rfl
theorem fixPos_ap {α : Type} (pk : Bool) (r : Res α) : fixPos (withAp env a) pk r = fixPos env pk r := rfl
theorem tooDeep_ap (t : Nat) : tooDeep (withAp env a) t = tooDeep env t := rfl
theorem withPeek_ap {α : Type} (c : Code) (rest : Bytes) (pos : Nat) (k : UInt8 → Bytes → Nat → Res α) :
    withPeek (withAp env a) c rest pos k = withPeek env c rest pos k := rfl
theorem hasNextElement_ap (first : Bool) (rest : Bytes) (pos : Nat) :
    hasNextElement (withAp env a) first rest pos = hasNextElement env first rest pos := rfl
theorem hasNextKey_ap (first : Bool) (rest : Bytes) (pos : Nat) :
    hasNextKey (withAp env a) first rest pos = hasNextKey env first rest pos := rfl
theorem parseObjectColon_ap (rest : Bytes) (pos : Nat) :
    parseObjectColon (withAp env a) rest pos = parseObjectColon env rest pos := rfl
theorem endSeq_ap (rest : Bytes) (pos : Nat) : endSeq (withAp env a) rest pos = endSeq env rest pos := rfl
theorem endMap_ap (rest : Bytes) (pos : Nat) : endMap (withAp env a) rest pos = endMap env rest pos := rfl
theorem closeWith_ap {α : Type} (endFn : Bytes → Nat → EndState) (ret : Res α) :
    closeWith (withAp env a) endFn ret = closeWith env endFn ret := rfl
theorem scanNumber_ap (rest : Bytes) (pos : Nat) : scanNumber (withAp env a) rest pos = scanNumber env rest pos := rfl
theorem parserNumber_ap (p : Model.Num.Parts) : parserNumber (withAp env a) p = parserNumber env p := rfl

theorem parseIdent_ap : ∀ (id rest : Bytes) (pos : Nat), parseIdent (withAp env a) id rest pos = parseIdent env id rest pos
  | [], _, _ => rfl
  | _ :: _, [], _ => rfl
  | e :: es, b :: r, pos => by
    simp only [parseIdent]
    rw [parseIdent_ap es r (pos + 1)]

theorem scanDigits_ap : ∀ (acc rest : Bytes) (pos : Nat), scanDigits (withAp env a) acc rest pos = scanDigits env acc rest pos
  | _, [], _ => rfl
  | acc, c :: r, pos => by
    simp only [scanDigits]
    rw [scanDigits_ap (c :: acc) r (pos + 1)]

theorem scanInteger128_ap (rest : Bytes) (pos : Nat) : scanInteger128 (withAp env a) rest pos = scanInteger128 env rest pos := by
  unfold scanInteger128
  cases rest with
  | nil => rfl
  | cons c r =>
    simp only [scanDigits_ap]
    rfl

theorem deInt128_ap (w : IntTy) (rest : Bytes) (pos : Nat) : deInt128 (withAp env a) w rest pos = deInt128 env w rest pos := by
  unfold deInt128
  simp only [withPeek_ap, scanInteger128_ap, errorIdx_ap]

theorem runRaw_ap : ∀ (st : RawSt) (rest : Bytes) (pos : Nat), runRaw (withAp env a) st rest pos = runRaw env st rest pos
  | _, [], _ => rfl
  | st, b :: r, pos => by
    simp only [runRaw]
    split
    · rfl
    · rfl
    · exact runRaw_ap _ r (pos + 1)
    · split
      · rfl
      · rfl
      · exact runRaw_ap _ r (pos + 1)
      · rfl

theorem parseStrRaw_ap (rest : Bytes) (pos : Nat) : parseStrRaw (withAp env a) rest pos = parseStrRaw env rest pos :=
  runRaw_ap env a {} rest pos

end

/-! ## the byte-step machine as a sub-parser -/

/-- skipped content (`tgt = .ignored`): no step looks at the feature -/
theorem step1_ignored (menv : Machine.Env) (a : Bool) (h : menv.tgt = .ignored) (s : St) (b : UInt8) :
    step1 (mWithAp menv a) s b = step1 menv s b := by
  have h' : (mWithAp menv a).tgt = .ignored := h
  have hv : ¬ (menv.tgt = Machine.Tgt.value) := by rw [h]; intro e; cases e
  have hv' : ¬ ((mWithAp menv a).tgt = Machine.Tgt.value) := by rw [h']; intro e; cases e
  unfold step1
  cases hm : s.mode with
  | val ctx =>
    simp only [Machine.closeArr, Machine.startValue, Machine.depthExceeded, hv, hv', if_false, decide_false, Bool.false_and]
  | lit rest v => rfl
  | num n =>
    simp only [stepNum, endNumber, hv, hv', if_false, decide_false, Bool.false_and]
  | str st =>
    simp only [stepStr, endStr, h, h'] <;> rfl
  | afterElem => simp only [Machine.closeArr, hv, hv', if_false]
  | objFirst => simp only [Machine.closeObj, hv, hv', if_false]
  | objNextKey => simp only [hv, hv', decide_false, Bool.and_false]
  | afterKey => rfl
  | afterMember => simp only [Machine.closeObj, hv, hv', if_false]
  | done v => rfl

theorem finishMode_ap (menv : Machine.Env) (a : Bool) (s : St) : finishMode (mWithAp menv a) s = finishMode menv s := rfl

theorem finishT_ignored (menv : Machine.Env) (a : Bool) (h : menv.tgt = .ignored) (t : Nat) (s : St) :
    finishT (mWithAp menv a) t s = finishT menv t s := by
  have h' : (mWithAp menv a).tgt = .ignored := h
  have hv : ¬ (menv.tgt = Machine.Tgt.value) := by rw [h]; intro e; cases e
  have hv' : ¬ ((mWithAp menv a).tgt = Machine.Tgt.value) := by rw [h']; intro e; cases e
  unfold finishT
  cases hm : s.mode <;> simp only [finishMode_ap]
  rename_i n
  cases n.phase <;> simp only [endNumber, hv, hv', if_false, finishMode_ap]

theorem runPfx_ignored (menv : Machine.Env) (a : Bool) (h : menv.tgt = .ignored) (flt : Bool) (t : Nat) :
    ∀ (bs : Bytes) (s : St) (i : Nat), runPfx (mWithAp menv a) flt t s i bs = runPfx menv flt t s i bs
  | [], s, i => by
    simp only [runPfx, finishT_ignored menv a h]
  | b :: bs, s, i => by
    simp only [runPfx, step1_ignored menv a h]
    have herr : ∀ ad j, errIdx (mWithAp menv a) ad j = errIdx menv ad j := fun _ _ => rfl
    simp only [herr, runPfx_ignored menv a h flt t bs]

theorem machine_ignored (menv : Machine.Env) (a : Bool) (h : menv.tgt = .ignored) (flt : Bool) (t : Nat) (s : St)
    (rest : Bytes) (pos : Nat) : machine (mWithAp menv a) flt t s rest pos = machine menv flt t s rest pos := by
  unfold machine
  rw [runPfx_ignored menv a h]

theorem ignoreValue_ap (env : Env) (a : Bool) (rest : Bytes) (pos : Nat) :
    ignoreValue (withAp env a) rest pos = ignoreValue env rest pos := by
  unfold ignoreValue
  exact congrArg _ (machine_ignored (ignEnv env) a rfl env.flt 0 init rest pos)

/-! ### `parse_str`: a run started inside a string never sees a number -/

theorem stepStr_ap (menv : Machine.Env) (a : Bool) (s : St) (st : Machine.StrSt) (b : UInt8) :
    stepStr (mWithAp menv a) s st b = stepStr menv s st b := rfl

/-- a step from a string state: an error, the completed top-level string, or another string state (same stack) -/
theorem stepStr_cases (menv : Machine.Env) (s : St) (st : Machine.StrSt) (b : UInt8) (hs : s.stack = []) :
    (∃ c ad, stepStr menv s st b = .err c ad) ∨
    (∃ s', stepStr menv s st b = .next s' ∧ ((∃ v, s'.mode = .done v) ∨ ((∃ st', s'.mode = .str st') ∧ s'.stack = []))) := by
  unfold stepStr
  simp only
  cases st.esc with
  | none =>
    simp only
    split
    · -- closing quote
      unfold endStr
      simp only
      split
      · exact .inl ⟨_, _, rfl⟩
      · split
        · rw [hs]; exact .inl ⟨_, _, rfl⟩
        · rw [hs]; exact .inr ⟨_, rfl, .inl ⟨_, rfl⟩⟩
    · split
      · exact .inr ⟨_, rfl, .inr ⟨⟨_, rfl⟩, hs⟩⟩
      · split
        · exact .inl ⟨_, _, rfl⟩
        · exact .inr ⟨_, rfl, .inr ⟨⟨_, rfl⟩, hs⟩⟩
  | bs =>
    simp only
    split
    · exact .inr ⟨_, rfl, .inr ⟨⟨_, rfl⟩, hs⟩⟩
    · split
      · exact .inr ⟨_, rfl, .inr ⟨⟨_, rfl⟩, hs⟩⟩
      · exact .inl ⟨_, _, rfl⟩
  | hex acc lead =>
    simp only
    split
    · exact .inr ⟨_, rfl, .inr ⟨⟨_, rfl⟩, hs⟩⟩
    · split
      · exact .inl ⟨_, _, rfl⟩
      · split
        · exact .inr ⟨_, rfl, .inr ⟨⟨_, rfl⟩, hs⟩⟩
        · split
          · split
            · exact .inl ⟨_, _, rfl⟩
            · split
              · exact .inr ⟨_, rfl, .inr ⟨⟨_, rfl⟩, hs⟩⟩
              · exact .inr ⟨_, rfl, .inr ⟨⟨_, rfl⟩, hs⟩⟩
          · split
            · exact .inl ⟨_, _, rfl⟩
            · exact .inr ⟨_, rfl, .inr ⟨⟨_, rfl⟩, hs⟩⟩
  | lead1 n1 =>
    simp only
    split
    · exact .inr ⟨_, rfl, .inr ⟨⟨_, rfl⟩, hs⟩⟩
    · exact .inl ⟨_, _, rfl⟩
  | lead2 n1 =>
    simp only
    split
    · exact .inr ⟨_, rfl, .inr ⟨⟨_, rfl⟩, hs⟩⟩
    · exact .inl ⟨_, _, rfl⟩

theorem step1_str (menv : Machine.Env) (s : St) (st : Machine.StrSt) (h : s.mode = .str st) (b : UInt8) :
    step1 menv s b = stepStr menv s st b := by
  unfold step1; rw [h]

theorem runPfx_str (menv : Machine.Env) (a : Bool) (flt : Bool) :
    ∀ (bs : Bytes) (s : St) (st : Machine.StrSt) (i : Nat), s.mode = .str st → s.stack = [] →
      runPfx (mWithAp menv a) flt 0 s i bs = runPfx menv flt 0 s i bs
  | [], s, st, i, hm, _ => by
    simp only [runPfx, finishT, hm, finishMode_ap]
  | b :: bs, s, st, i, hm, hs => by
    simp only [runPfx, step1_str _ s st hm, stepStr_ap]
    have herr : ∀ ad j, errIdx (mWithAp menv a) ad j = errIdx menv ad j := fun _ _ => rfl
    rcases stepStr_cases menv s st b hs with ⟨c, ad, he⟩ | ⟨s', hn, hdone | ⟨⟨st', hm'⟩, hs'⟩⟩
    · rw [he]; simp only [herr]
    · rw [hn]
      obtain ⟨v, hv⟩ := hdone
      simp only [completed, hv]
    · rw [hn]
      simp only [completed, hm']
      exact runPfx_str menv a flt bs s' st' (i + 1) hm' hs'

theorem parseStr_ap (env : Env) (a : Bool) (rest : Bytes) (pos : Nat) :
    parseStr (withAp env a) rest pos = parseStr env rest pos := by
  unfold parseStr machine
  have : runPfx (valEnv (withAp env a)) (withAp env a).flt 0 { mode := .str {} } pos rest =
      runPfx (valEnv env) env.flt 0 { mode := .str {} } pos rest :=
    runPfx_str (valEnv env) a env.flt rest { mode := .str {} } {} pos rfl rfl
  rw [this]

/-! ## the typed entry points -/

theorem notOk_peekInvalidType {α : Type} (env : Env) (rest : Bytes) (pos : Nat) : NotOk (peekInvalidType env rest pos : Res α) := by
  intro v r' p' h
  unfold peekInvalidType at h
  split at h
  · cases h
  · split at h
    · cases h
    · split at h <;> cases h

section
variable (env : Env) (a : Bool)

theorem rel_peek {α : Type} (rest : Bytes) (pos : Nat) :
    Rel (peekInvalidType (withAp env a) rest pos : Res α) (peekInvalidType env rest pos) :=
  .of_notOk (notOk_peekInvalidType _ _ _) (notOk_peekInvalidType _ _ _)

theorem rel_withPeek {α : Type} (c : Code) (rest : Bytes) (pos : Nat) {k₁ k₂ : UInt8 → Bytes → Nat → Res α}
    (h : ∀ b r p, Rel (k₁ b r p) (k₂ b r p)) : Rel (withPeek (withAp env a) c rest pos k₁) (withPeek env c rest pos k₂) := by
  rw [withPeek_ap]
  unfold withPeek
  split
  · exact .refl _
  · exact h _ _ _

theorem rel_fixPos {α : Type} (pk : Bool) {r₁ r₂ : Res α} (h : Rel r₁ r₂) : Rel (fixPos (withAp env a) pk r₁) (fixPos env pk r₂) := by
  rw [fixPos_ap]
  rcases h with rfl | ⟨h1, h2⟩
  · exact .refl _
  · refine .of_notOk ?_ ?_
    · intro v r' p' h; unfold fixPos at h; split at h
      · cases h
      · exact h1 v r' p' h
    · intro v r' p' h; unfold fixPos at h; split at h
      · cases h
      · exact h2 v r' p' h

theorem rel_closeWith {α : Type} (endFn : Bytes → Nat → EndState) {r₁ r₂ : Res α} (h : Rel r₁ r₂) :
    Rel (closeWith (withAp env a) endFn r₁) (closeWith env endFn r₂) := by
  rw [closeWith_ap]
  rcases h with rfl | ⟨h1, h2⟩
  · exact .refl _
  · refine .of_notOk ?_ ?_
    · intro v r' p' h
      cases r₁ with
      | ok x y z => exact h1 x y z rfl
      | err c i => cases h
      | data i => cases h
      | raw x y => cases h
      | io => cases h
      | fuel => cases h
    · intro v r' p' h
      cases r₂ with
      | ok x y z => exact h2 x y z rfl
      | err c i => cases h
      | data i => cases h
      | raw x y => cases h
      | io => cases h
      | fuel => cases h

theorem rel_deBool (rest : Bytes) (pos : Nat) : Rel (deBool (withAp env a) rest pos) (deBool env rest pos) := by
  unfold deBool
  apply rel_withPeek
  intro b r p
  simp only [parseIdent_ap]
  split
  · exact .refl _
  · split
    · exact .refl _
    · exact rel_peek env a _ _

theorem rel_deUnit (rest : Bytes) (pos : Nat) : Rel (deUnit (withAp env a) rest pos) (deUnit env rest pos) := by
  unfold deUnit
  apply rel_withPeek
  intro b r p
  simp only [parseIdent_ap]
  split
  · exact .refl _
  · exact rel_peek env a _ _

theorem rel_deNumber (ty : NumTy) (rest : Bytes) (pos : Nat) :
    Rel (deNumber (withAp env a) ty rest pos) (deNumber env ty rest pos) := by
  unfold deNumber
  apply rel_withPeek
  intro b r p
  split
  · simp only [scanNumber_ap, parserNumber_ap, fixPos_ap]
    exact .refl _
  · exact rel_peek env a _ _

theorem rel_deInt (w : IntTy) (rest : Bytes) (pos : Nat) : Rel (deInt (withAp env a) w rest pos) (deInt env w rest pos) := by
  unfold deInt
  split
  · rw [deInt128_ap]; exact .refl _
  · exact rel_deNumber env a _ _ _

theorem rel_deStr (visit : Bytes → FromValue.R) (rest : Bytes) (pos : Nat) :
    Rel (deStr (withAp env a) visit rest pos) (deStr env visit rest pos) := by
  unfold deStr
  apply rel_withPeek
  intro b r p
  split
  · simp only [parseStr_ap, fixPos_ap]; exact .refl _
  · exact rel_peek env a _ _

theorem keyStr_ap (visit : Bytes → FromValue.R) (rest : Bytes) (pos : Nat) :
    keyStr (withAp env a) visit rest pos = keyStr env visit rest pos := by
  unfold keyStr; rw [parseStr_ap]

theorem rel_keyInt (w : IntTy) (rest : Bytes) (pos : Nat) : Rel (keyInt (withAp env a) w rest pos) (keyInt env w rest pos) := by
  unfold keyInt
  split
  · exact .refl _
  · split
    · exact .refl _
    · apply Rel.bind (rel_deInt env a _ _ _)
      intro v r' p'
      exact .refl _

theorem keyBool_ap (rest : Bytes) (pos : Nat) : keyBool (withAp env a) rest pos = keyBool env rest pos := by
  unfold keyBool
  simp only [parseIdent_ap, parseStr_ap]
  rfl

theorem rel_deVariantId (names : List Bytes) (rest : Bytes) (pos : Nat) :
    Rel (deVariantId (withAp env a) names rest pos) (deVariantId env names rest pos) := rel_deStr env a _ _ _

theorem rel_keyUnitEnum (names : List Bytes) (rest : Bytes) (pos : Nat) :
    Rel (keyUnitEnum (withAp env a) names rest pos) (keyUnitEnum env names rest pos) := by
  unfold keyUnitEnum
  exact Rel.bind (rel_deVariantId env a _ _ _) (fun _ _ _ => .refl _)

theorem rel_deKey (k : KeyKind) (rest : Bytes) (pos : Nat) : Rel (deKey (withAp env a) k rest pos) (deKey env k rest pos) := by
  unfold deKey
  cases k with
  | string => simp only [keyStr_ap]; exact .refl _
  | int w => exact rel_keyInt env a _ _ _
  | bool => simp only [keyBool_ap]; exact .refl _
  | char => simp only [keyStr_ap]; exact .refl _
  | unitEnum names => exact rel_keyUnitEnum env a _ _ _

end

/-! ## schemas without a `Value` target -/

mutual
/-- the schema contains the `Value` target (`.any`: `deserialize_any` with `Value`'s visitor), where the feature changes
    the REPRESENTATION of numbers by design -/
def hasAny : Schema → Bool
  | .any => true
  | .option s | .newtype s | .seq s | .map _ s => hasAny s
  | .tuple ss => hasAnyList ss
  | .struct_ fs _ => hasAnyFields fs
  | .enum_ vs => hasAnyVariants vs
  | _ => false
def hasAnyList : List Schema → Bool
  | [] => false
  | s :: r => hasAny s || hasAnyList r
def hasAnyFields : List (Bytes × Schema) → Bool
  | [] => false
  | (_, s) :: r => hasAny s || hasAnyFields r
def hasAnyVariants : List (Bytes × VariantShape) → Bool
  | [] => false
  | (_, sh) :: r => hasAnyShape sh || hasAnyVariants r
def hasAnyShape : VariantShape → Bool
  | .unit => false
  | .newtype s => hasAny s
  | .tuple ss => hasAnyList ss
  | .struct_ fs => hasAnyFields fs
end

theorem hasAnyList_mem : ∀ (ss : List Schema), hasAnyList ss = false → ∀ s ∈ ss, hasAny s = false
  | [], _, s, hs => by cases hs
  | x :: r, h, s, hs => by
    simp only [hasAnyList, Bool.or_eq_false_iff] at h
    rcases List.mem_cons.1 hs with rfl | hs
    · exact h.1
    · exact hasAnyList_mem r h.2 s hs

theorem hasAnyFields_get : ∀ (fs : List (Bytes × Schema)), hasAnyFields fs = false → ∀ (i : Nat) (n : Bytes) (s : Schema), fs[i]? = some (n, s) → hasAny s = false
  | [], _, i, n, s, h => by simp at h
  | (m, x) :: r, h, i, n, s, hg => by
    simp only [hasAnyFields, Bool.or_eq_false_iff] at h
    cases i with
    | zero => simp at hg; obtain ⟨_, rfl⟩ := hg; exact h.1
    | succ j => simp at hg; exact hasAnyFields_get r h.2 j n s hg

theorem hasAnyFields_map : ∀ (fs : List (Bytes × Schema)), hasAnyFields fs = false → hasAnyList (fs.map (·.2)) = false
  | [], _ => rfl
  | (m, x) :: r, h => by
    simp only [hasAnyFields, Bool.or_eq_false_iff] at h
    simp only [List.map_cons, hasAnyList, h.1, Bool.false_or]
    exact hasAnyFields_map r h.2

theorem hasAnyVariants_get : ∀ (vs : List (Bytes × VariantShape)), hasAnyVariants vs = false → ∀ (i : Nat) (n : Bytes) (sh : VariantShape), vs[i]? = some (n, sh) → hasAnyShape sh = false
  | [], _, i, n, s, h => by simp at h
  | (m, x) :: r, h, i, n, s, hg => by
    simp only [hasAnyVariants, Bool.or_eq_false_iff] at h
    cases i with
    | zero => simp at hg; obtain ⟨_, rfl⟩ := hg; exact h.1
    | succ j => simp at hg; exact hasAnyVariants_get r h.2 j n s hg

/-! ## containers -/

section
variable (env : Env) (a : Bool)

theorem rel_nextElement {de₁ de₂ : Bytes → Nat → TOut} (hde : ∀ r p, Rel (de₁ r p) (de₂ r p)) (first : Bool) (rest : Bytes) (pos : Nat) :
    Rel (nextElement (withAp env a) de₁ first rest pos) (nextElement env de₂ first rest pos) := by
  unfold nextElement
  rw [hasNextElement_ap]
  apply Rel.bind (.refl _)
  intro more r p
  split
  · exact Rel.map (hde r p) _
  · exact .refl _

theorem rel_seqLoop {de₁ de₂ : Bytes → Nat → TOut} (hde : ∀ r p, Rel (de₁ r p) (de₂ r p)) :
    ∀ (n : Nat) (first : Bool) (acc : List TVal) (rest : Bytes) (pos : Nat),
      Rel (seqLoop (withAp env a) de₁ n first acc rest pos) (seqLoop env de₂ n first acc rest pos)
  | 0, _, _, _, _ => .refl _
  | n + 1, first, acc, rest, pos => by
    simp only [seqLoop]
    apply Rel.bind (rel_nextElement env a hde _ _ _)
    intro o r p
    cases o with
    | none => exact .refl _
    | some v => exact rel_seqLoop hde n false _ r p

theorem rel_tupleLoop {de₁ de₂ : Schema → Bytes → Nat → TOut} :
    ∀ (ss : List Schema), (∀ s ∈ ss, ∀ r p, Rel (de₁ s r p) (de₂ s r p)) → ∀ (first : Bool) (acc : List TVal) (rest : Bytes) (pos : Nat),
      Rel (tupleLoop (withAp env a) de₁ ss first acc rest pos) (tupleLoop env de₂ ss first acc rest pos)
  | [], _, _, _, _, _ => .refl _
  | s :: ss, hde, first, acc, rest, pos => by
    simp only [tupleLoop]
    apply Rel.bind (rel_nextElement env a (hde s (by simp)) _ _ _)
    intro o r p
    cases o with
    | none => exact .refl _
    | some v => exact rel_tupleLoop ss (fun s' hs' => hde s' (by simp [hs'])) false _ r p

theorem rel_deSeq (t : Nat) {v₁ v₂ : Bytes → Nat → TOut} (hv : ∀ r p, Rel (v₁ r p) (v₂ r p)) (rest : Bytes) (pos : Nat) :
    Rel (deSeq (withAp env a) t v₁ rest pos) (deSeq env t v₂ rest pos) := by
  unfold deSeq
  apply rel_withPeek
  intro b r p
  have hend : endSeq (withAp env a) = endSeq env := by funext r p; rfl
  simp only [tooDeep_ap, hend]
  by_cases hb : (b == 0x5b) = true
  · simp only [hb, if_true]
    by_cases ht : tooDeep env t = true
    · simp only [ht, if_true]; exact .refl _
    · simp only [ht, Bool.false_eq_true, if_false]
      exact rel_closeWith env a _ (hv _ _)
  · simp only [hb, Bool.false_eq_true, if_false]
    exact rel_peek env a _ _

theorem rel_deBytes (t : Nat) (rest : Bytes) (pos : Nat) : Rel (deBytes (withAp env a) t rest pos) (deBytes env t rest pos) := by
  unfold deBytes
  apply rel_withPeek
  intro b r p
  split
  · rw [parseStrRaw_ap]; exact .refl _
  · split
    · apply rel_deSeq
      intro r' p'
      exact Rel.map (rel_seqLoop env a (fun r p => rel_deNumber env a _ r p) _ _ _ _ _) _
    · exact rel_peek env a _ _

theorem rel_mapLoop (k : KeyKind) {de₁ de₂ : Bytes → Nat → TOut} (hde : ∀ r p, Rel (de₁ r p) (de₂ r p)) :
    ∀ (n : Nat) (first : Bool) (acc : List (TVal × TVal)) (rest : Bytes) (pos : Nat),
      Rel (mapLoop (withAp env a) k de₁ n first acc rest pos) (mapLoop env k de₂ n first acc rest pos)
  | 0, _, _, _, _ => .refl _
  | n + 1, first, acc, rest, pos => by
    simp only [mapLoop, hasNextKey_ap, parseObjectColon_ap]
    apply Rel.bind (.refl _)
    intro more r p
    split
    · exact .refl _
    · apply Rel.bind (rel_deKey env a k r p)
      intro kv r1 p1
      apply Rel.bind (.refl _)
      intro _ r2 p2
      apply Rel.bind (hde r2 p2)
      intro v r3 p3
      exact rel_mapLoop k hde n false _ r3 p3

theorem rel_deMap (t : Nat) {v₁ v₂ : Bytes → Nat → TOut} (hv : ∀ r p, Rel (v₁ r p) (v₂ r p)) (rest : Bytes) (pos : Nat) :
    Rel (deMap (withAp env a) t v₁ rest pos) (deMap env t v₂ rest pos) := by
  unfold deMap
  apply rel_withPeek
  intro b r p
  have hend : endMap (withAp env a) = endMap env := by funext r p; rfl
  simp only [tooDeep_ap, hend]
  by_cases hb : (b == 0x7b) = true
  · simp only [hb, if_true]
    by_cases ht : tooDeep env t = true
    · simp only [ht, if_true]; exact .refl _
    · simp only [ht, Bool.false_eq_true, if_false]
      exact rel_closeWith env a _ (hv _ _)
  · simp only [hb, Bool.false_eq_true, if_false]
    exact rel_peek env a _ _

end

/-! ## structs, enums, the schema recursion -/

section
variable (env : Env) (a : Bool)

/-- what the recursion provides: on schemas without a `Value` target the two builds are related -/
def DeRel (de₁ de₂ : Nat → Schema → Bytes → Nat → TOut) : Prop :=
  ∀ (t : Nat) (s : Schema), hasAny s = false → ∀ r p, Rel (de₁ t s r p) (de₂ t s r p)

theorem rel_structLoop {de₁ de₂ : Schema → Bytes → Nat → TOut} (fs : List (Bytes × Schema)) (deny : Bool)
    (hde : ∀ (i : Nat) (n : Bytes) (s : Schema), fs[i]? = some (n, s) → ∀ r p, Rel (de₁ s r p) (de₂ s r p)) :
    ∀ (n : Nat) (first : Bool) (slots : List (Option TVal)) (rest : Bytes) (pos : Nat),
      Rel (structLoop (withAp env a) de₁ fs deny n first slots rest pos) (structLoop env de₂ fs deny n first slots rest pos)
  | 0, _, _, _, _ => .refl _
  | n + 1, first, slots, rest, pos => by
    simp only [structLoop, hasNextKey_ap, parseObjectColon_ap, parseStr_ap, ignoreValue_ap]
    apply Rel.bind (.refl _)
    intro more r p
    split
    · exact .refl _
    · apply Rel.bind (.refl _)
      intro name r1 p1
      split
      · rename_i i hi
        split
        · exact .refl _
        · apply Rel.bind (.refl _)
          intro _ r2 p2
          split
          · rename_i nm sch hget
            apply Rel.bind (hde i nm sch hget r2 p2)
            intro v r3 p3
            exact rel_structLoop fs deny hde n false _ r3 p3
          · exact .refl _
      · split
        · exact .refl _
        · apply Rel.bind (.refl _)
          intro _ r2 p2
          apply Rel.bind (.refl _)
          intro _ r3 p3
          exact rel_structLoop fs deny hde n false _ r3 p3

theorem rel_structVisitMap {de₁ de₂ : Schema → Bytes → Nat → TOut} (fs : List (Bytes × Schema)) (deny : Bool)
    (hde : ∀ (i : Nat) (n : Bytes) (s : Schema), fs[i]? = some (n, s) → ∀ r p, Rel (de₁ s r p) (de₂ s r p)) (rest : Bytes) (pos : Nat) :
    Rel (structVisitMap (withAp env a) de₁ fs deny rest pos) (structVisitMap env de₂ fs deny rest pos) := by
  unfold structVisitMap
  apply Rel.bind (rel_structLoop env a fs deny hde _ _ _ _ _)
  intro slots r p
  exact .refl _

theorem rel_deStruct (t : Nat) {de₁ de₂ : Nat → Schema → Bytes → Nat → TOut} (hde : DeRel de₁ de₂)
    (fs : List (Bytes × Schema)) (hfs : hasAnyFields fs = false) (deny : Bool) (rest : Bytes) (pos : Nat) :
    Rel (deStruct (withAp env a) t de₁ fs deny rest pos) (deStruct env t de₂ fs deny rest pos) := by
  unfold deStruct
  apply rel_withPeek
  intro b r p
  have hend1 : endSeq (withAp env a) = endSeq env := by funext r p; rfl
  have hend2 : endMap (withAp env a) = endMap env := by funext r p; rfl
  simp only [tooDeep_ap, hend1, hend2]
  by_cases hb : (b == 0x5b) = true
  · simp only [hb, if_true]
    by_cases ht : tooDeep env t = true
    · simp only [ht, if_true]; exact .refl _
    · simp only [ht, Bool.false_eq_true, if_false]
      apply rel_closeWith
      apply Rel.map
      apply rel_tupleLoop
      intro s hs r' p'
      exact hde (t + 1) s (hasAnyList_mem _ (hasAnyFields_map fs hfs) s hs) r' p'
  · simp only [hb, Bool.false_eq_true, if_false]
    by_cases hc : (b == 0x7b) = true
    · simp only [hc, if_true]
      by_cases ht : tooDeep env t = true
      · simp only [ht, if_true]; exact .refl _
      · simp only [ht, Bool.false_eq_true, if_false]
        apply rel_closeWith
        apply rel_structVisitMap
        intro i n s hget r' p'
        exact hde (t + 1) s (hasAnyFields_get fs hfs i n s hget) r' p'
    · simp only [hc, Bool.false_eq_true, if_false]
      exact rel_peek env a _ _

theorem rel_dePayload (t : Nat) {de₁ de₂ : Nat → Schema → Bytes → Nat → TOut} (hde : DeRel de₁ de₂)
    (sh : VariantShape) (hsh : hasAnyShape sh = false) (rest : Bytes) (pos : Nat) :
    Rel (dePayload (withAp env a) t de₁ sh rest pos) (dePayload env t de₂ sh rest pos) := by
  unfold dePayload
  cases sh with
  | unit => exact rel_deUnit env a _ _
  | newtype s => exact hde t s (by simpa [hasAnyShape] using hsh) _ _
  | tuple ss =>
    apply rel_deSeq
    intro r p
    apply Rel.map
    apply rel_tupleLoop
    intro s hs r' p'
    exact hde (t + 1) s (hasAnyList_mem ss (by simpa [hasAnyShape] using hsh) s hs) r' p'
  | struct_ fs => exact rel_deStruct env a t hde fs (by simpa [hasAnyShape] using hsh) false _ _

theorem rel_deEnum (t : Nat) {de₁ de₂ : Nat → Schema → Bytes → Nat → TOut} (hde : DeRel de₁ de₂)
    (vs : List (Bytes × VariantShape)) (hvs : hasAnyVariants vs = false) (rest : Bytes) (pos : Nat) :
    Rel (deEnum (withAp env a) t de₁ vs rest pos) (deEnum env t de₂ vs rest pos) := by
  unfold deEnum
  apply rel_withPeek
  intro b r p
  simp only [tooDeep_ap, parseObjectColon_ap, errorIdx_ap]
  by_cases hb : (b == 0x7b) = true
  · simp only [hb, if_true]
    by_cases ht : tooDeep env t = true
    · simp only [ht, if_true]; exact .refl _
    · simp only [ht, Bool.false_eq_true, if_false]
      apply Rel.bind (rel_deVariantId env a _ _ _)
      intro iv r1 p1
      apply Rel.bind (.refl _)
      intro _ r2 p2
      split
      · exact .refl _
      · rename_i nm sh hget
        apply Rel.bind (rel_dePayload env a (t + 1) hde sh (hasAnyVariants_get vs hvs _ nm sh hget) r2 p2)
        intro payload r3 p3
        apply rel_withPeek
        intro c r4 q
        exact .refl _
  · simp only [hb, Bool.false_eq_true, if_false]
    by_cases hc : (b == 0x22) = true
    · simp only [hc, if_true]
      apply Rel.bind (rel_deVariantId env a _ _ _)
      intro iv r1 p1
      exact .refl _
    · simp only [hc, Bool.false_eq_true, if_false]
      exact .refl _

/-- **the schema recursion** -/
theorem rel_deTyped : ∀ (f t : Nat) (s : Schema), hasAny s = false → ∀ (rest : Bytes) (pos : Nat),
    Rel (deTyped (withAp env a) f t s rest pos) (deTyped env f t s rest pos)
  | 0, _, _, _, _, _ => .refl _
  | f + 1, t, s, hs, rest, pos => by
    have ih : DeRel (deTyped (withAp env a) f) (deTyped env f) := fun t' s' hs' r p => rel_deTyped f t' s' hs' r p
    cases s with
    | bool => exact rel_deBool env a _ _
    | int w => exact rel_deInt env a _ _ _
    | f64 => exact rel_deNumber env a _ _ _
    | f32 => exact rel_deNumber env a _ _ _
    | char => exact rel_deStr env a _ _ _
    | string => exact rel_deStr env a _ _ _
    | bytes => exact rel_deBytes env a _ _ _
    | option s' =>
      have hs' : hasAny s' = false := by simpa [hasAny] using hs
      have hflt : (withAp env a).flt = env.flt := rfl
      simp only [deTyped, parseIdent_ap, hflt]
      split
      · by_cases hf : env.flt = true
        · simp only [hf, if_true]; exact .refl _
        · simp only [hf, Bool.false_eq_true, if_false]
          exact Rel.map (ih t s' hs' _ _) _
      · rename_i b r p _
        by_cases hb : (b == 0x6e) = true
        · simp only [hb, if_true]; exact .refl _
        · simp only [hb, Bool.false_eq_true, if_false]
          exact Rel.map (ih t s' hs' _ _) _
    | unit => exact rel_deUnit env a _ _
    | unitStruct => exact rel_deUnit env a _ _
    | newtype s' => exact ih t s' (by simpa [hasAny] using hs) _ _
    | seq s' =>
      have hs' : hasAny s' = false := by simpa [hasAny] using hs
      simp only [deTyped]
      apply rel_deSeq
      intro r p
      exact Rel.map (rel_seqLoop env a (fun r' p' => ih (t + 1) s' hs' r' p') _ _ _ _ _) _
    | tuple ss =>
      have hss : hasAnyList ss = false := by simpa [hasAny] using hs
      simp only [deTyped]
      apply rel_deSeq
      intro r p
      apply Rel.map
      apply rel_tupleLoop
      intro s' hm r' p'
      exact ih (t + 1) s' (hasAnyList_mem ss hss s' hm) r' p'
    | map k s' =>
      have hs' : hasAny s' = false := by simpa [hasAny] using hs
      simp only [deTyped]
      apply rel_deMap
      intro r p
      exact Rel.map (rel_mapLoop env a k (fun r' p' => ih (t + 1) s' hs' r' p') _ _ _ _ _) _
    | struct_ fs deny => exact rel_deStruct env a t ih fs (by simpa [hasAny] using hs) deny _ _
    | enum_ vs => exact rel_deEnum env a t ih vs (by simpa [hasAny] using hs) _ _
    | ignored =>
      simp only [deTyped, ignoreValue_ap]
      exact .refl _
    | any => simp [hasAny] at hs

end

/-! ## whole documents -/

/-- the value of a whole-document outcome -/
def topValue : Top → Option TVal
  | .ok v => some v
  | _ => none

theorem rel_top (env : Env) (a : Bool) (s : Schema) (hs : hasAny s = false) (bs : Bytes) :
    deTypedTop (withAp env a) s bs = deTypedTop env s bs ∨
      (topValue (deTypedTop (withAp env a) s bs) = none ∧ topValue (deTypedTop env s bs) = none) := by
  unfold deTypedTop
  have hflt : (withAp env a).flt = env.flt := rfl
  rcases rel_deTyped env a (Schema.size s + 1) 0 s hs bs 0 with h | ⟨h1, h2⟩
  · rw [h, hflt]; exact .inl rfl
  · right
    constructor
    · cases hr : deTyped (withAp env a) (Schema.size s + 1) 0 s bs 0 with
      | ok v r p => exact absurd hr (h1 v r p)
      | _ => rfl
    · cases hr : deTyped env (Schema.size s + 1) 0 s bs 0 with
      | ok v r p => exact absurd hr (h2 v r p)
      | _ => rfl

/-- a numeric request on input that starts (after whitespace) like a number: the two builds run the very same code -/
theorem deNumber_ap_of_start (env : Env) (a : Bool) (ty : NumTy) (rest : Bytes) (pos : Nat)
    (h : ∀ b r p, skipWs rest pos = (b :: r, p) → isNumStart b = true) :
    deNumber (withAp env a) ty rest pos = deNumber env ty rest pos := by
  unfold deNumber
  rw [withPeek_ap]
  unfold withPeek
  cases hsk : skipWs rest pos with
  | mk l p =>
    cases l with
    | nil => rfl
    | cons b r =>
      simp only [h b r p hsk, if_true, scanNumber_ap, parserNumber_ap, fixPos_ap]
      rfl

/-- numeric leaf targets -/
def isNumeric : Schema → Bool
  | .int _ | .f64 | .f32 => true
  | _ => false

theorem top_number_eq (env : Env) (a : Bool) (s : Schema) (hs : isNumeric s = true) (bs : Bytes)
    (h : ∀ b r p, skipWs bs 0 = (b :: r, p) → isNumStart b = true) :
    deTypedTop (withAp env a) s bs = deTypedTop env s bs := by
  have hflt : (withAp env a).flt = env.flt := rfl
  have key : deTyped (withAp env a) (Schema.size s + 1) 0 s bs 0 = deTyped env (Schema.size s + 1) 0 s bs 0 := by
    cases s with
    | int w =>
      show deInt (withAp env a) w bs 0 = deInt env w bs 0
      unfold deInt
      split
      · exact deInt128_ap env a w bs 0
      · exact deNumber_ap_of_start env a _ bs 0 h
    | f64 => exact deNumber_ap_of_start env a _ bs 0 h
    | f32 => exact deNumber_ap_of_start env a _ bs 0 h
    | _ => simp [isNumeric] at hs
  unfold deTypedTop
  rw [key, hflt]

end SJ.Proofs.TypedAp
